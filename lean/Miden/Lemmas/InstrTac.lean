/-
  The uniform tactic used for per-instruction refinement theorems.
-/
import Miden.Lemmas.RunOps
import Miden.Generated.InstrOps
import Mathlib.Tactic.SplitIfs
namespace Miden

theorem exists16 {s : List Nat} (h : 16 ≤ s.length) :
    ∃ s0 s1 s2 s3 s4 s5 s6 s7 s8 s9 s10 s11 s12 s13 s14 s15 rest,
      s = s0 :: s1 :: s2 :: s3 :: s4 :: s5 :: s6 :: s7 :: s8 :: s9 :: s10 :: s11 :: s12 :: s13
            :: s14 :: s15 :: rest := by
  match s, h with
  | s0 :: s1 :: s2 :: s3 :: s4 :: s5 :: s6 :: s7 :: s8 :: s9 :: s10 :: s11 :: s12 :: s13 :: s14
      :: s15 :: rest, _ => exact ⟨_, _, _, _, _, _, _, _, _, _, _, _, _, _, _, _, _, rfl⟩

theorem canon16 {s : List Nat} {s0 s1 s2 s3 s4 s5 s6 s7 s8 s9 s10 s11 s12 s13 s14 s15 : Nat}
    {rest : List Nat} (hP : ∀ x ∈ s, x < P)
    (hs : s = s0 :: s1 :: s2 :: s3 :: s4 :: s5 :: s6 :: s7 :: s8 :: s9 :: s10 :: s11 :: s12 :: s13
            :: s14 :: s15 :: rest) :
    s0 < P ∧ s1 < P ∧ s2 < P ∧ s3 < P ∧ s4 < P ∧ s5 < P ∧ s6 < P ∧ s7 < P ∧ s8 < P ∧ s9 < P ∧
    s10 < P ∧ s11 < P ∧ s12 < P ∧ s13 < P ∧ s14 < P ∧ s15 < P := by
  subst hs
  simp only [List.mem_cons] at hP
  refine ⟨hP _ ?_, hP _ ?_, hP _ ?_, hP _ ?_, hP _ ?_, hP _ ?_, hP _ ?_, hP _ ?_, hP _ ?_, hP _ ?_,
    hP _ ?_, hP _ ?_, hP _ ?_, hP _ ?_, hP _ ?_, hP _ ?_⟩ <;> simp

/-- Symbolic execution of a generated operation list against the reference semantics. -/
macro "instr_tac" ops:ident : tactic => `(tactic| (
  intro vm hl
  obtain ⟨s0, s1, s2, s3, s4, s5, s6, s7, s8, s9, s10, s11, s12, s13, s14, s15, rest, hs⟩ := exists16 hl
  simp [stackRun_eq, runOps_cons, runOps_nil, step_eq_map, Except.map_ok', Except.map_error',
    Except.bind_ok', Except.bind_error', Except.map_ite, Except.bind_ite, $ops:ident, Vm.stepCore, Vm.setStack, Vm.dup, Vm.movup, Vm.movdn,
    insertAt, hs, Spec.sem, Refines, pad16_eq, Spec.failWith, Spec.failAny, Spec.undef, fadd_fneg,
    Spec.b2n]
  all_goals (try (split_ifs <;> simp_all))
  all_goals (try omega)))

/-- Variant for instructions whose refinement needs the stack elements to be canonical field
    elements (`hP`), e.g. `dup.8 = pad dup9 add` relies on `0 + x = x (mod p)` for `x < p`. -/
macro "instr_tac_canon" ops:ident : tactic => `(tactic| (
  intro vm hl hP
  obtain ⟨s0, s1, s2, s3, s4, s5, s6, s7, s8, s9, s10, s11, s12, s13, s14, s15, rest, hs⟩ := exists16 hl
  obtain ⟨c0, c1, c2, c3, c4, c5, c6, c7, c8, c9, c10, c11, c12, c13, c14, c15⟩ := canon16 hP hs
  simp [stackRun_eq, runOps_cons, runOps_nil, step_eq_map, Except.map_ok', Except.map_error',
    Except.bind_ok', Except.bind_error', Except.map_ite, Except.bind_ite, $ops:ident, Vm.stepCore, Vm.setStack, Vm.dup, Vm.movup, Vm.movdn,
    insertAt, hs, Spec.sem, Refines, pad16_eq, Spec.failWith, Spec.failAny, Spec.undef, fadd_fneg,
    Spec.b2n, Spec.isU32s]
  all_goals (try (split_ifs <;> simp_all))
  all_goals (try (simp only [fadd, fsub, fneg, splitHi, splitLo, two32, u32max, two64, P] at *))
  all_goals (try omega)))

/-- Variant that also removes reductions modulo 2^64 and modulo p of values that are provably small
    (u32 products and sums), which `omega` cannot see through on its own. -/
macro "instr_tac_mod" ops:ident : tactic => `(tactic| (
  intro vm hl hP
  obtain ⟨s0, s1, s2, s3, s4, s5, s6, s7, s8, s9, s10, s11, s12, s13, s14, s15, rest, hs⟩ := exists16 hl
  obtain ⟨c0, c1, c2, c3, c4, c5, c6, c7, c8, c9, c10, c11, c12, c13, c14, c15⟩ := canon16 hP hs
  simp [stackRun_eq, runOps_cons, runOps_nil, step_eq_map, Except.map_ok', Except.map_error',
    Except.bind_ok', Except.bind_error', Except.map_ite, Except.bind_ite, $ops:ident, Vm.stepCore, Vm.setStack, Vm.dup, Vm.movup, Vm.movdn,
    insertAt, hs, Spec.sem, Refines, pad16_eq, Spec.failWith, Spec.failAny, Spec.undef, fadd_fneg,
    Spec.b2n, Spec.isU32s]
  all_goals (try (split_ifs <;> simp_all))
  all_goals (try (simp only [fadd, fsub, fneg, fmul, splitHi, splitLo, two32, u32max, two64, P, Spec.rotl32,
    Nat.reducePow, Nat.reduceSub] at *))
  all_goals (try (simp (disch := omega) only [Nat.mod_eq_of_lt] at *))
  all_goals (try omega)))

end Miden
