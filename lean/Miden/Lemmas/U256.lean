/-
  std::math::u256 (eight 32-bit limbs, most significant first on the stack): add_unsafe is addition
  modulo 2^256 (carry chain as linear arithmetic for `omega`), and / xor act limb-wise.
-/
import Miden.Lemmas.U64Tac
import Miden.Lemmas.U64Pure
namespace Miden.U256
open Miden
set_option linter.unusedSimpArgs false
set_option linter.unusedVariables false

/-- Value of eight 32-bit limbs, most significant first (the stack order of std::math::u256). -/
@[reducible] def u256of (l0 l1 l2 l3 l4 l5 l6 l7 : Nat) : Nat :=
  l0 * 26959946667150639794667015087019630673637144422540572481103610249216 + l1 * 6277101735386680763835789423207666416102355444464034512896 + l2 * 1461501637330902918203684832716283019655932542976 + l3 * 340282366920938463463374607431768211456 + l4 * 79228162514264337593543950336 + l5 * 18446744073709551616 + l6 * 4294967296 + l7 * 1

/-- Carry chain of an 8-limb addition, limbs most significant first. -/
theorem add_chain (x0 x1 x2 x3 x4 x5 x6 x7 y0 y1 y2 y3 y4 y5 y6 y7 s0 s1 s2 s3 s4 s5 s6 s7 c0 c1 c2 c3 c4 c5 c6 c7 : Nat)
    (e7 : x7 + y7 = c7 * 4294967296 + s7) (e6 : c7 + x6 + y6 = c6 * 4294967296 + s6)
    (e5 : c6 + x5 + y5 = c5 * 4294967296 + s5) (e4 : c5 + x4 + y4 = c4 * 4294967296 + s4)
    (e3 : c4 + x3 + y3 = c3 * 4294967296 + s3) (e2 : c3 + x2 + y2 = c2 * 4294967296 + s2)
    (e1 : c2 + x1 + y1 = c1 * 4294967296 + s1) (e0 : c1 + x0 + y0 = c0 * 4294967296 + s0) :
    x0 * 26959946667150639794667015087019630673637144422540572481103610249216 + x1 * 6277101735386680763835789423207666416102355444464034512896 + x2 * 1461501637330902918203684832716283019655932542976 + x3 * 340282366920938463463374607431768211456 + x4 * 79228162514264337593543950336 + x5 * 18446744073709551616 + x6 * 4294967296 + x7 * 1 + (y0 * 26959946667150639794667015087019630673637144422540572481103610249216 + y1 * 6277101735386680763835789423207666416102355444464034512896 + y2 * 1461501637330902918203684832716283019655932542976 + y3 * 340282366920938463463374607431768211456 + y4 * 79228162514264337593543950336 + y5 * 18446744073709551616 + y6 * 4294967296 + y7 * 1) = s0 * 26959946667150639794667015087019630673637144422540572481103610249216 + s1 * 6277101735386680763835789423207666416102355444464034512896 + s2 * 1461501637330902918203684832716283019655932542976 + s3 * 340282366920938463463374607431768211456 + s4 * 79228162514264337593543950336 + s5 * 18446744073709551616 + s6 * 4294967296 + s7 * 1 + c0 * 115792089237316195423570985008687907853269984665640564039457584007913129639936 := by
  omega

theorem limb_of (s0 s1 s2 s3 s4 s5 s6 s7 c0 : Nat)
    (h0 : s0 < 4294967296) (h1 : s1 < 4294967296) (h2 : s2 < 4294967296) (h3 : s3 < 4294967296)
    (h4 : s4 < 4294967296) (h5 : s5 < 4294967296) (h6 : s6 < 4294967296) (h7 : s7 < 4294967296) :
    (s0 * 26959946667150639794667015087019630673637144422540572481103610249216 + s1 * 6277101735386680763835789423207666416102355444464034512896 + s2 * 1461501637330902918203684832716283019655932542976 + s3 * 340282366920938463463374607431768211456 + s4 * 79228162514264337593543950336 + s5 * 18446744073709551616 + s6 * 4294967296 + s7 * 1 + c0 * 115792089237316195423570985008687907853269984665640564039457584007913129639936) / 26959946667150639794667015087019630673637144422540572481103610249216 % 4294967296 = s0 ∧
    (s0 * 26959946667150639794667015087019630673637144422540572481103610249216 + s1 * 6277101735386680763835789423207666416102355444464034512896 + s2 * 1461501637330902918203684832716283019655932542976 + s3 * 340282366920938463463374607431768211456 + s4 * 79228162514264337593543950336 + s5 * 18446744073709551616 + s6 * 4294967296 + s7 * 1 + c0 * 115792089237316195423570985008687907853269984665640564039457584007913129639936) / 6277101735386680763835789423207666416102355444464034512896 % 4294967296 = s1 ∧
    (s0 * 26959946667150639794667015087019630673637144422540572481103610249216 + s1 * 6277101735386680763835789423207666416102355444464034512896 + s2 * 1461501637330902918203684832716283019655932542976 + s3 * 340282366920938463463374607431768211456 + s4 * 79228162514264337593543950336 + s5 * 18446744073709551616 + s6 * 4294967296 + s7 * 1 + c0 * 115792089237316195423570985008687907853269984665640564039457584007913129639936) / 1461501637330902918203684832716283019655932542976 % 4294967296 = s2 ∧
    (s0 * 26959946667150639794667015087019630673637144422540572481103610249216 + s1 * 6277101735386680763835789423207666416102355444464034512896 + s2 * 1461501637330902918203684832716283019655932542976 + s3 * 340282366920938463463374607431768211456 + s4 * 79228162514264337593543950336 + s5 * 18446744073709551616 + s6 * 4294967296 + s7 * 1 + c0 * 115792089237316195423570985008687907853269984665640564039457584007913129639936) / 340282366920938463463374607431768211456 % 4294967296 = s3 ∧
    (s0 * 26959946667150639794667015087019630673637144422540572481103610249216 + s1 * 6277101735386680763835789423207666416102355444464034512896 + s2 * 1461501637330902918203684832716283019655932542976 + s3 * 340282366920938463463374607431768211456 + s4 * 79228162514264337593543950336 + s5 * 18446744073709551616 + s6 * 4294967296 + s7 * 1 + c0 * 115792089237316195423570985008687907853269984665640564039457584007913129639936) / 79228162514264337593543950336 % 4294967296 = s4 ∧
    (s0 * 26959946667150639794667015087019630673637144422540572481103610249216 + s1 * 6277101735386680763835789423207666416102355444464034512896 + s2 * 1461501637330902918203684832716283019655932542976 + s3 * 340282366920938463463374607431768211456 + s4 * 79228162514264337593543950336 + s5 * 18446744073709551616 + s6 * 4294967296 + s7 * 1 + c0 * 115792089237316195423570985008687907853269984665640564039457584007913129639936) / 18446744073709551616 % 4294967296 = s5 ∧
    (s0 * 26959946667150639794667015087019630673637144422540572481103610249216 + s1 * 6277101735386680763835789423207666416102355444464034512896 + s2 * 1461501637330902918203684832716283019655932542976 + s3 * 340282366920938463463374607431768211456 + s4 * 79228162514264337593543950336 + s5 * 18446744073709551616 + s6 * 4294967296 + s7 * 1 + c0 * 115792089237316195423570985008687907853269984665640564039457584007913129639936) / 4294967296 % 4294967296 = s6 ∧
    (s0 * 26959946667150639794667015087019630673637144422540572481103610249216 + s1 * 6277101735386680763835789423207666416102355444464034512896 + s2 * 1461501637330902918203684832716283019655932542976 + s3 * 340282366920938463463374607431768211456 + s4 * 79228162514264337593543950336 + s5 * 18446744073709551616 + s6 * 4294967296 + s7 * 1 + c0 * 115792089237316195423570985008687907853269984665640564039457584007913129639936) / 1 % 4294967296 = s7 := by
  refine ⟨?_, ?_, ?_, ?_, ?_, ?_, ?_, ?_⟩ <;> omega

theorem dec2 (x y : Nat) (hx : x < 4294967296) (hy : y < 4294967296) :
    ∃ k l, x + y = k * 4294967296 + l ∧ l < 4294967296 ∧ k < 4294967296 ∧
      splitHi (fadd x y) = k ∧ splitLo (fadd x y) = l := by
  refine ⟨(x + y) / 4294967296, (x + y) % 4294967296, by omega, by omega, by omega, ?_, ?_⟩ <;>
    (simp only [splitHi, splitLo, fadd, two32, P]; omega)

theorem dec3 (c x y : Nat) (hc : c < 4294967296) (hx : x < 4294967296) (hy : y < 4294967296) :
    ∃ k l, c + x + y = k * 4294967296 + l ∧ l < 4294967296 ∧ k < 4294967296 ∧
      splitHi ((c + x + y) % two64 % P) = k ∧ splitLo ((c + x + y) % two64 % P) = l := by
  refine ⟨(c + x + y) / 4294967296, (c + x + y) % 4294967296, by omega, by omega, by omega, ?_, ?_⟩ <;>
    (simp only [splitHi, splitLo, two64, two32, P]; omega)

/-- `u256::add_unsafe`: `[b (8 limbs), a (8 limbs)] → [c (8 limbs)]`, `c = (a + b) mod 2^256`, limbs
    most significant first, for all limbs < 2^32; the rest of the stack is untouched. -/
theorem u256_add_pure (y0 y1 y2 y3 y4 y5 y6 y7 x0 x1 x2 x3 x4 x5 x6 x7 : Nat) (r0 r1 r2 : Nat) (r : List Nat) (hr : 13 ≤ r.length)
    (hx0 : x0 < 4294967296) (hy0 : y0 < 4294967296) (hx1 : x1 < 4294967296) (hy1 : y1 < 4294967296) (hx2 : x2 < 4294967296) (hy2 : y2 < 4294967296) (hx3 : x3 < 4294967296) (hy3 : y3 < 4294967296) (hx4 : x4 < 4294967296) (hy4 : y4 < 4294967296) (hx5 : x5 < 4294967296) (hy5 : y5 < 4294967296) (hx6 : x6 < 4294967296) (hy6 : y6 < 4294967296) (hx7 : x7 < 4294967296) (hy7 : y7 < 4294967296) :
    runPure Generated.u256_add_unsafe (y0 :: y1 :: y2 :: y3 :: y4 :: y5 :: y6 :: y7 :: x0 :: x1 :: x2 :: x3 :: x4 :: x5 :: x6 :: x7 :: r0 :: r1 :: r2 :: r)
      = .ok ((u256of x0 x1 x2 x3 x4 x5 x6 x7 + u256of y0 y1 y2 y3 y4 y5 y6 y7) / 26959946667150639794667015087019630673637144422540572481103610249216 % 4294967296 :: (u256of x0 x1 x2 x3 x4 x5 x6 x7 + u256of y0 y1 y2 y3 y4 y5 y6 y7) / 6277101735386680763835789423207666416102355444464034512896 % 4294967296 :: (u256of x0 x1 x2 x3 x4 x5 x6 x7 + u256of y0 y1 y2 y3 y4 y5 y6 y7) / 1461501637330902918203684832716283019655932542976 % 4294967296 :: (u256of x0 x1 x2 x3 x4 x5 x6 x7 + u256of y0 y1 y2 y3 y4 y5 y6 y7) / 340282366920938463463374607431768211456 % 4294967296 :: (u256of x0 x1 x2 x3 x4 x5 x6 x7 + u256of y0 y1 y2 y3 y4 y5 y6 y7) / 79228162514264337593543950336 % 4294967296 :: (u256of x0 x1 x2 x3 x4 x5 x6 x7 + u256of y0 y1 y2 y3 y4 y5 y6 y7) / 18446744073709551616 % 4294967296 :: (u256of x0 x1 x2 x3 x4 x5 x6 x7 + u256of y0 y1 y2 y3 y4 y5 y6 y7) / 4294967296 % 4294967296 :: (u256of x0 x1 x2 x3 x4 x5 x6 x7 + u256of y0 y1 y2 y3 y4 y5 y6 y7) / 1 % 4294967296 :: r0 :: r1 :: r2 :: r) := by
  have p1 : padN 1 r = r := padN_of_le (by omega)
  have p2 : padN 2 r = r := padN_of_le (by omega)
  have p3 : padN 3 r = r := padN_of_le (by omega)
  have p4 : padN 4 r = r := padN_of_le (by omega)
  have p5 : padN 5 r = r := padN_of_le (by omega)
  have p6 : padN 6 r = r := padN_of_le (by omega)
  have p7 : padN 7 r = r := padN_of_le (by omega)
  have p8 : padN 8 r = r := padN_of_le (by omega)
  have p9 : padN 9 r = r := padN_of_le (by omega)
  have p10 : padN 10 r = r := padN_of_le (by omega)
  have p11 : padN 11 r = r := padN_of_le (by omega)
  have p12 : padN 12 r = r := padN_of_le (by omega)
  have p13 : padN 13 r = r := padN_of_le (by omega)
  simp (disch := binb) only [Generated.u256_add_unsafe, pure_exec, *]
  obtain ⟨c7, s7, e7, hs7, hc7, q7h, q7l⟩ := dec2 x7 y7 hx7 hy7
  simp only [q7h, q7l]
  obtain ⟨c6, s6, e6, hs6, hc6, q6h, q6l⟩ := dec3 c7 x6 y6 hc7 hx6 hy6
  simp only [q6h, q6l]
  obtain ⟨c5, s5, e5, hs5, hc5, q5h, q5l⟩ := dec3 c6 x5 y5 hc6 hx5 hy5
  simp only [q5h, q5l]
  obtain ⟨c4, s4, e4, hs4, hc4, q4h, q4l⟩ := dec3 c5 x4 y4 hc5 hx4 hy4
  simp only [q4h, q4l]
  obtain ⟨c3, s3, e3, hs3, hc3, q3h, q3l⟩ := dec3 c4 y3 x3 hc4 hy3 hx3
  simp only [q3h, q3l]
  obtain ⟨c2, s2, e2, hs2, hc2, q2h, q2l⟩ := dec3 c3 y2 x2 hc3 hy2 hx2
  simp only [q2h, q2l]
  obtain ⟨c1, s1, e1, hs1, hc1, q1h, q1l⟩ := dec3 c2 y1 x1 hc2 hy1 hx1
  simp only [q1h, q1l]
  obtain ⟨c0, s0, e0, hs0, hc0, q0h, q0l⟩ := dec3 c1 y0 x0 hc1 hy0 hx0
  simp only [q0h, q0l]
  have hsum := add_chain x0 x1 x2 x3 x4 x5 x6 x7 y0 y1 y2 y3 y4 y5 y6 y7 s0 s1 s2 s3 s4 s5 s6 s7 c0 c1 c2 c3 c4 c5 c6 c7 e7 e6 e5 e4
    (by omega) (by omega) (by omega) (by omega)
  obtain ⟨l0, l1, l2, l3, l4, l5, l6, l7⟩ := limb_of s0 s1 s2 s3 s4 s5 s6 s7 c0 hs0 hs1 hs2 hs3 hs4 hs5 hs6 hs7
  simp only [u256of]
  rw [hsum, l0, l1, l2, l3, l4, l5, l6, l7]

/-- `u256::and`: limb-wise, for all limbs < 2^32. -/
theorem u256_and_pure (y0 y1 y2 y3 y4 y5 y6 y7 x0 x1 x2 x3 x4 x5 x6 x7 : Nat) (r0 r1 r2 : Nat) (r : List Nat) (hr : 13 ≤ r.length)
    (hx0 : x0 < two32) (hy0 : y0 < two32) (hx1 : x1 < two32) (hy1 : y1 < two32) (hx2 : x2 < two32) (hy2 : y2 < two32) (hx3 : x3 < two32) (hy3 : y3 < two32) (hx4 : x4 < two32) (hy4 : y4 < two32) (hx5 : x5 < two32) (hy5 : y5 < two32) (hx6 : x6 < two32) (hy6 : y6 < two32) (hx7 : x7 < two32) (hy7 : y7 < two32) :
    runPure Generated.u256_and (y0 :: y1 :: y2 :: y3 :: y4 :: y5 :: y6 :: y7 :: x0 :: x1 :: x2 :: x3 :: x4 :: x5 :: x6 :: x7 :: r0 :: r1 :: r2 :: r)
      = .ok (Nat.land y0 x0 :: Nat.land y1 x1 :: Nat.land y2 x2 :: Nat.land y3 x3 :: Nat.land x4 y4 :: Nat.land x5 y5 :: Nat.land x6 y6 :: Nat.land x7 y7 :: r0 :: r1 :: r2 :: r) := by
  have p1 : padN 1 r = r := padN_of_le (by omega)
  have p2 : padN 2 r = r := padN_of_le (by omega)
  have p3 : padN 3 r = r := padN_of_le (by omega)
  have p4 : padN 4 r = r := padN_of_le (by omega)
  have p5 : padN 5 r = r := padN_of_le (by omega)
  have p6 : padN 6 r = r := padN_of_le (by omega)
  have p7 : padN 7 r = r := padN_of_le (by omega)
  have p8 : padN 8 r = r := padN_of_le (by omega)
  have p9 : padN 9 r = r := padN_of_le (by omega)
  have p10 : padN 10 r = r := padN_of_le (by omega)
  have p11 : padN 11 r = r := padN_of_le (by omega)
  have p12 : padN 12 r = r := padN_of_le (by omega)
  have p13 : padN 13 r = r := padN_of_le (by omega)
  simp (disch := binb) only [Generated.u256_and, pure_exec, *]

/-- `u256::xor`: limb-wise, for all limbs < 2^32. -/
theorem u256_xor_pure (y0 y1 y2 y3 y4 y5 y6 y7 x0 x1 x2 x3 x4 x5 x6 x7 : Nat) (r0 r1 r2 : Nat) (r : List Nat) (hr : 13 ≤ r.length)
    (hx0 : x0 < two32) (hy0 : y0 < two32) (hx1 : x1 < two32) (hy1 : y1 < two32) (hx2 : x2 < two32) (hy2 : y2 < two32) (hx3 : x3 < two32) (hy3 : y3 < two32) (hx4 : x4 < two32) (hy4 : y4 < two32) (hx5 : x5 < two32) (hy5 : y5 < two32) (hx6 : x6 < two32) (hy6 : y6 < two32) (hx7 : x7 < two32) (hy7 : y7 < two32) :
    runPure Generated.u256_xor (y0 :: y1 :: y2 :: y3 :: y4 :: y5 :: y6 :: y7 :: x0 :: x1 :: x2 :: x3 :: x4 :: x5 :: x6 :: x7 :: r0 :: r1 :: r2 :: r)
      = .ok (Nat.xor y0 x0 :: Nat.xor y1 x1 :: Nat.xor y2 x2 :: Nat.xor y3 x3 :: Nat.xor x4 y4 :: Nat.xor x5 y5 :: Nat.xor x6 y6 :: Nat.xor x7 y7 :: r0 :: r1 :: r2 :: r) := by
  have p1 : padN 1 r = r := padN_of_le (by omega)
  have p2 : padN 2 r = r := padN_of_le (by omega)
  have p3 : padN 3 r = r := padN_of_le (by omega)
  have p4 : padN 4 r = r := padN_of_le (by omega)
  have p5 : padN 5 r = r := padN_of_le (by omega)
  have p6 : padN 6 r = r := padN_of_le (by omega)
  have p7 : padN 7 r = r := padN_of_le (by omega)
  have p8 : padN 8 r = r := padN_of_le (by omega)
  have p9 : padN 9 r = r := padN_of_le (by omega)
  have p10 : padN 10 r = r := padN_of_le (by omega)
  have p11 : padN 11 r = r := padN_of_le (by omega)
  have p12 : padN 12 r = r := padN_of_le (by omega)
  have p13 : padN 13 r = r := padN_of_le (by omega)
  simp (disch := binb) only [Generated.u256_xor, pure_exec, *]

end Miden.U256
