/-
  std::math::u256 (eight 32-bit limbs, most significant first on the stack): add_unsafe / sub_unsafe are addition / subtraction
  modulo 2^256 (carry and borrow chains as linear arithmetic for `omega`; the nested symbolic state of
  the subtraction is flattened bottom-up with `generalize`), and / xor act limb-wise.
-/
import Miden.Lemmas.U64Tac
import Miden.Lemmas.U64Pure
namespace Miden.U256
open Miden
set_option linter.unusedSimpArgs false
set_option linter.unusedVariables false

/-- Value of eight 32-bit limbs, most significant first (the stack order of std::math::u256). -/
@[reducible] def u256of (l0 l1 l2 l3 l4 l5 l6 l7 : Nat) : Nat :=
  l0 * 26959946667150639794667015087019630673637144422540572481103610249216 + l1 * 6277101735386680763835789423207666416102355444464034512896 + l2 * 1461501637330902918203684832716283019655932542976 + l3 * 340282366920938463463374607431768211456 + l4 * 79228162514264337593543950336 + l5 * 18446744073709551616 + l6 * 4294967296 + l7 * 1

/-- Carry chain of an 8-limb addition, limbs most significant first. -/
theorem add_chain (x0 x1 x2 x3 x4 x5 x6 x7 y0 y1 y2 y3 y4 y5 y6 y7 s0 s1 s2 s3 s4 s5 s6 s7 c0 c1 c2 c3 c4 c5 c6 c7 : Nat)
    (e7 : x7 + y7 = c7 * 4294967296 + s7) (e6 : c7 + x6 + y6 = c6 * 4294967296 + s6)
    (e5 : c6 + x5 + y5 = c5 * 4294967296 + s5) (e4 : c5 + x4 + y4 = c4 * 4294967296 + s4)
    (e3 : c4 + x3 + y3 = c3 * 4294967296 + s3) (e2 : c3 + x2 + y2 = c2 * 4294967296 + s2)
    (e1 : c2 + x1 + y1 = c1 * 4294967296 + s1) (e0 : c1 + x0 + y0 = c0 * 4294967296 + s0) :
    x0 * 26959946667150639794667015087019630673637144422540572481103610249216 + x1 * 6277101735386680763835789423207666416102355444464034512896 + x2 * 1461501637330902918203684832716283019655932542976 + x3 * 340282366920938463463374607431768211456 + x4 * 79228162514264337593543950336 + x5 * 18446744073709551616 + x6 * 4294967296 + x7 * 1 + (y0 * 26959946667150639794667015087019630673637144422540572481103610249216 + y1 * 6277101735386680763835789423207666416102355444464034512896 + y2 * 1461501637330902918203684832716283019655932542976 + y3 * 340282366920938463463374607431768211456 + y4 * 79228162514264337593543950336 + y5 * 18446744073709551616 + y6 * 4294967296 + y7 * 1) = s0 * 26959946667150639794667015087019630673637144422540572481103610249216 + s1 * 6277101735386680763835789423207666416102355444464034512896 + s2 * 1461501637330902918203684832716283019655932542976 + s3 * 340282366920938463463374607431768211456 + s4 * 79228162514264337593543950336 + s5 * 18446744073709551616 + s6 * 4294967296 + s7 * 1 + c0 * 115792089237316195423570985008687907853269984665640564039457584007913129639936 := by
  omega

theorem limb_of (s0 s1 s2 s3 s4 s5 s6 s7 c0 : Nat)
    (h0 : s0 < 4294967296) (h1 : s1 < 4294967296) (h2 : s2 < 4294967296) (h3 : s3 < 4294967296)
    (h4 : s4 < 4294967296) (h5 : s5 < 4294967296) (h6 : s6 < 4294967296) (h7 : s7 < 4294967296) :
    (s0 * 26959946667150639794667015087019630673637144422540572481103610249216 + s1 * 6277101735386680763835789423207666416102355444464034512896 + s2 * 1461501637330902918203684832716283019655932542976 + s3 * 340282366920938463463374607431768211456 + s4 * 79228162514264337593543950336 + s5 * 18446744073709551616 + s6 * 4294967296 + s7 * 1 + c0 * 115792089237316195423570985008687907853269984665640564039457584007913129639936) / 26959946667150639794667015087019630673637144422540572481103610249216 % 4294967296 = s0 ∧
    (s0 * 26959946667150639794667015087019630673637144422540572481103610249216 + s1 * 6277101735386680763835789423207666416102355444464034512896 + s2 * 1461501637330902918203684832716283019655932542976 + s3 * 340282366920938463463374607431768211456 + s4 * 79228162514264337593543950336 + s5 * 18446744073709551616 + s6 * 4294967296 + s7 * 1 + c0 * 115792089237316195423570985008687907853269984665640564039457584007913129639936) / 6277101735386680763835789423207666416102355444464034512896 % 4294967296 = s1 ∧
    (s0 * 26959946667150639794667015087019630673637144422540572481103610249216 + s1 * 6277101735386680763835789423207666416102355444464034512896 + s2 * 1461501637330902918203684832716283019655932542976 + s3 * 340282366920938463463374607431768211456 + s4 * 79228162514264337593543950336 + s5 * 18446744073709551616 + s6 * 4294967296 + s7 * 1 + c0 * 115792089237316195423570985008687907853269984665640564039457584007913129639936) / 1461501637330902918203684832716283019655932542976 % 4294967296 = s2 ∧
    (s0 * 26959946667150639794667015087019630673637144422540572481103610249216 + s1 * 6277101735386680763835789423207666416102355444464034512896 + s2 * 1461501637330902918203684832716283019655932542976 + s3 * 340282366920938463463374607431768211456 + s4 * 79228162514264337593543950336 + s5 * 18446744073709551616 + s6 * 4294967296 + s7 * 1 + c0 * 115792089237316195423570985008687907853269984665640564039457584007913129639936) / 340282366920938463463374607431768211456 % 4294967296 = s3 ∧
    (s0 * 26959946667150639794667015087019630673637144422540572481103610249216 + s1 * 6277101735386680763835789423207666416102355444464034512896 + s2 * 1461501637330902918203684832716283019655932542976 + s3 * 340282366920938463463374607431768211456 + s4 * 79228162514264337593543950336 + s5 * 18446744073709551616 + s6 * 4294967296 + s7 * 1 + c0 * 115792089237316195423570985008687907853269984665640564039457584007913129639936) / 79228162514264337593543950336 % 4294967296 = s4 ∧
    (s0 * 26959946667150639794667015087019630673637144422540572481103610249216 + s1 * 6277101735386680763835789423207666416102355444464034512896 + s2 * 1461501637330902918203684832716283019655932542976 + s3 * 340282366920938463463374607431768211456 + s4 * 79228162514264337593543950336 + s5 * 18446744073709551616 + s6 * 4294967296 + s7 * 1 + c0 * 115792089237316195423570985008687907853269984665640564039457584007913129639936) / 18446744073709551616 % 4294967296 = s5 ∧
    (s0 * 26959946667150639794667015087019630673637144422540572481103610249216 + s1 * 6277101735386680763835789423207666416102355444464034512896 + s2 * 1461501637330902918203684832716283019655932542976 + s3 * 340282366920938463463374607431768211456 + s4 * 79228162514264337593543950336 + s5 * 18446744073709551616 + s6 * 4294967296 + s7 * 1 + c0 * 115792089237316195423570985008687907853269984665640564039457584007913129639936) / 4294967296 % 4294967296 = s6 ∧
    (s0 * 26959946667150639794667015087019630673637144422540572481103610249216 + s1 * 6277101735386680763835789423207666416102355444464034512896 + s2 * 1461501637330902918203684832716283019655932542976 + s3 * 340282366920938463463374607431768211456 + s4 * 79228162514264337593543950336 + s5 * 18446744073709551616 + s6 * 4294967296 + s7 * 1 + c0 * 115792089237316195423570985008687907853269984665640564039457584007913129639936) / 1 % 4294967296 = s7 := by
  refine ⟨?_, ?_, ?_, ?_, ?_, ?_, ?_, ?_⟩ <;> omega

theorem dec2 (x y : Nat) (hx : x < 4294967296) (hy : y < 4294967296) :
    ∃ k l, x + y = k * 4294967296 + l ∧ l < 4294967296 ∧ k < 4294967296 ∧
      splitHi (fadd x y) = k ∧ splitLo (fadd x y) = l := by
  refine ⟨(x + y) / 4294967296, (x + y) % 4294967296, by omega, by omega, by omega, ?_, ?_⟩ <;>
    (simp only [splitHi, splitLo, fadd, two32, P]; omega)

theorem dec3 (c x y : Nat) (hc : c < 4294967296) (hx : x < 4294967296) (hy : y < 4294967296) :
    ∃ k l, c + x + y = k * 4294967296 + l ∧ l < 4294967296 ∧ k < 4294967296 ∧
      splitHi ((c + x + y) % two64 % P) = k ∧ splitLo ((c + x + y) % two64 % P) = l := by
  refine ⟨(c + x + y) / 4294967296, (c + x + y) % 4294967296, by omega, by omega, by omega, ?_, ?_⟩ <;>
    (simp only [splitHi, splitLo, two64, two32, P]; omega)

/-- `u256::add_unsafe`: `[b (8 limbs), a (8 limbs)] → [c (8 limbs)]`, `c = (a + b) mod 2^256`, limbs
    most significant first, for all limbs < 2^32; the rest of the stack is untouched. -/
theorem u256_add_pure (y0 y1 y2 y3 y4 y5 y6 y7 x0 x1 x2 x3 x4 x5 x6 x7 : Nat) (r0 r1 r2 : Nat) (r : List Nat) (hr : 13 ≤ r.length)
    (hx0 : x0 < 4294967296) (hy0 : y0 < 4294967296) (hx1 : x1 < 4294967296) (hy1 : y1 < 4294967296) (hx2 : x2 < 4294967296) (hy2 : y2 < 4294967296) (hx3 : x3 < 4294967296) (hy3 : y3 < 4294967296) (hx4 : x4 < 4294967296) (hy4 : y4 < 4294967296) (hx5 : x5 < 4294967296) (hy5 : y5 < 4294967296) (hx6 : x6 < 4294967296) (hy6 : y6 < 4294967296) (hx7 : x7 < 4294967296) (hy7 : y7 < 4294967296) :
    runPure Generated.u256_add_unsafe (y0 :: y1 :: y2 :: y3 :: y4 :: y5 :: y6 :: y7 :: x0 :: x1 :: x2 :: x3 :: x4 :: x5 :: x6 :: x7 :: r0 :: r1 :: r2 :: r)
      = .ok ((u256of x0 x1 x2 x3 x4 x5 x6 x7 + u256of y0 y1 y2 y3 y4 y5 y6 y7) / 26959946667150639794667015087019630673637144422540572481103610249216 % 4294967296 :: (u256of x0 x1 x2 x3 x4 x5 x6 x7 + u256of y0 y1 y2 y3 y4 y5 y6 y7) / 6277101735386680763835789423207666416102355444464034512896 % 4294967296 :: (u256of x0 x1 x2 x3 x4 x5 x6 x7 + u256of y0 y1 y2 y3 y4 y5 y6 y7) / 1461501637330902918203684832716283019655932542976 % 4294967296 :: (u256of x0 x1 x2 x3 x4 x5 x6 x7 + u256of y0 y1 y2 y3 y4 y5 y6 y7) / 340282366920938463463374607431768211456 % 4294967296 :: (u256of x0 x1 x2 x3 x4 x5 x6 x7 + u256of y0 y1 y2 y3 y4 y5 y6 y7) / 79228162514264337593543950336 % 4294967296 :: (u256of x0 x1 x2 x3 x4 x5 x6 x7 + u256of y0 y1 y2 y3 y4 y5 y6 y7) / 18446744073709551616 % 4294967296 :: (u256of x0 x1 x2 x3 x4 x5 x6 x7 + u256of y0 y1 y2 y3 y4 y5 y6 y7) / 4294967296 % 4294967296 :: (u256of x0 x1 x2 x3 x4 x5 x6 x7 + u256of y0 y1 y2 y3 y4 y5 y6 y7) / 1 % 4294967296 :: r0 :: r1 :: r2 :: r) := by
  have p1 : padN 1 r = r := padN_of_le (by omega)
  have p2 : padN 2 r = r := padN_of_le (by omega)
  have p3 : padN 3 r = r := padN_of_le (by omega)
  have p4 : padN 4 r = r := padN_of_le (by omega)
  have p5 : padN 5 r = r := padN_of_le (by omega)
  have p6 : padN 6 r = r := padN_of_le (by omega)
  have p7 : padN 7 r = r := padN_of_le (by omega)
  have p8 : padN 8 r = r := padN_of_le (by omega)
  have p9 : padN 9 r = r := padN_of_le (by omega)
  have p10 : padN 10 r = r := padN_of_le (by omega)
  have p11 : padN 11 r = r := padN_of_le (by omega)
  have p12 : padN 12 r = r := padN_of_le (by omega)
  have p13 : padN 13 r = r := padN_of_le (by omega)
  simp (disch := binb) only [Generated.u256_add_unsafe, pure_exec, *]
  obtain ⟨c7, s7, e7, hs7, hc7, q7h, q7l⟩ := dec2 x7 y7 hx7 hy7
  simp only [q7h, q7l]
  obtain ⟨c6, s6, e6, hs6, hc6, q6h, q6l⟩ := dec3 c7 x6 y6 hc7 hx6 hy6
  simp only [q6h, q6l]
  obtain ⟨c5, s5, e5, hs5, hc5, q5h, q5l⟩ := dec3 c6 x5 y5 hc6 hx5 hy5
  simp only [q5h, q5l]
  obtain ⟨c4, s4, e4, hs4, hc4, q4h, q4l⟩ := dec3 c5 x4 y4 hc5 hx4 hy4
  simp only [q4h, q4l]
  obtain ⟨c3, s3, e3, hs3, hc3, q3h, q3l⟩ := dec3 c4 y3 x3 hc4 hy3 hx3
  simp only [q3h, q3l]
  obtain ⟨c2, s2, e2, hs2, hc2, q2h, q2l⟩ := dec3 c3 y2 x2 hc3 hy2 hx2
  simp only [q2h, q2l]
  obtain ⟨c1, s1, e1, hs1, hc1, q1h, q1l⟩ := dec3 c2 y1 x1 hc2 hy1 hx1
  simp only [q1h, q1l]
  obtain ⟨c0, s0, e0, hs0, hc0, q0h, q0l⟩ := dec3 c1 y0 x0 hc1 hy0 hx0
  simp only [q0h, q0l]
  have hsum := add_chain x0 x1 x2 x3 x4 x5 x6 x7 y0 y1 y2 y3 y4 y5 y6 y7 s0 s1 s2 s3 s4 s5 s6 s7 c0 c1 c2 c3 c4 c5 c6 c7 e7 e6 e5 e4
    (by omega) (by omega) (by omega) (by omega)
  obtain ⟨l0, l1, l2, l3, l4, l5, l6, l7⟩ := limb_of s0 s1 s2 s3 s4 s5 s6 s7 c0 hs0 hs1 hs2 hs3 hs4 hs5 hs6 hs7
  simp only [u256of]
  rw [hsum, l0, l1, l2, l3, l4, l5, l6, l7]

/-- `u256::and`: limb-wise, for all limbs < 2^32. -/
theorem u256_and_pure (y0 y1 y2 y3 y4 y5 y6 y7 x0 x1 x2 x3 x4 x5 x6 x7 : Nat) (r0 r1 r2 : Nat) (r : List Nat) (hr : 13 ≤ r.length)
    (hx0 : x0 < two32) (hy0 : y0 < two32) (hx1 : x1 < two32) (hy1 : y1 < two32) (hx2 : x2 < two32) (hy2 : y2 < two32) (hx3 : x3 < two32) (hy3 : y3 < two32) (hx4 : x4 < two32) (hy4 : y4 < two32) (hx5 : x5 < two32) (hy5 : y5 < two32) (hx6 : x6 < two32) (hy6 : y6 < two32) (hx7 : x7 < two32) (hy7 : y7 < two32) :
    runPure Generated.u256_and (y0 :: y1 :: y2 :: y3 :: y4 :: y5 :: y6 :: y7 :: x0 :: x1 :: x2 :: x3 :: x4 :: x5 :: x6 :: x7 :: r0 :: r1 :: r2 :: r)
      = .ok (Nat.land y0 x0 :: Nat.land y1 x1 :: Nat.land y2 x2 :: Nat.land y3 x3 :: Nat.land x4 y4 :: Nat.land x5 y5 :: Nat.land x6 y6 :: Nat.land x7 y7 :: r0 :: r1 :: r2 :: r) := by
  have p1 : padN 1 r = r := padN_of_le (by omega)
  have p2 : padN 2 r = r := padN_of_le (by omega)
  have p3 : padN 3 r = r := padN_of_le (by omega)
  have p4 : padN 4 r = r := padN_of_le (by omega)
  have p5 : padN 5 r = r := padN_of_le (by omega)
  have p6 : padN 6 r = r := padN_of_le (by omega)
  have p7 : padN 7 r = r := padN_of_le (by omega)
  have p8 : padN 8 r = r := padN_of_le (by omega)
  have p9 : padN 9 r = r := padN_of_le (by omega)
  have p10 : padN 10 r = r := padN_of_le (by omega)
  have p11 : padN 11 r = r := padN_of_le (by omega)
  have p12 : padN 12 r = r := padN_of_le (by omega)
  have p13 : padN 13 r = r := padN_of_le (by omega)
  simp (disch := binb) only [Generated.u256_and, pure_exec, *]

/-- `u256::xor`: limb-wise, for all limbs < 2^32. -/
theorem u256_xor_pure (y0 y1 y2 y3 y4 y5 y6 y7 x0 x1 x2 x3 x4 x5 x6 x7 : Nat) (r0 r1 r2 : Nat) (r : List Nat) (hr : 13 ≤ r.length)
    (hx0 : x0 < two32) (hy0 : y0 < two32) (hx1 : x1 < two32) (hy1 : y1 < two32) (hx2 : x2 < two32) (hy2 : y2 < two32) (hx3 : x3 < two32) (hy3 : y3 < two32) (hx4 : x4 < two32) (hy4 : y4 < two32) (hx5 : x5 < two32) (hy5 : y5 < two32) (hx6 : x6 < two32) (hy6 : y6 < two32) (hx7 : x7 < two32) (hy7 : y7 < two32) :
    runPure Generated.u256_xor (y0 :: y1 :: y2 :: y3 :: y4 :: y5 :: y6 :: y7 :: x0 :: x1 :: x2 :: x3 :: x4 :: x5 :: x6 :: x7 :: r0 :: r1 :: r2 :: r)
      = .ok (Nat.xor y0 x0 :: Nat.xor y1 x1 :: Nat.xor y2 x2 :: Nat.xor y3 x3 :: Nat.xor x4 y4 :: Nat.xor x5 y5 :: Nat.xor x6 y6 :: Nat.xor x7 y7 :: r0 :: r1 :: r2 :: r) := by
  have p1 : padN 1 r = r := padN_of_le (by omega)
  have p2 : padN 2 r = r := padN_of_le (by omega)
  have p3 : padN 3 r = r := padN_of_le (by omega)
  have p4 : padN 4 r = r := padN_of_le (by omega)
  have p5 : padN 5 r = r := padN_of_le (by omega)
  have p6 : padN 6 r = r := padN_of_le (by omega)
  have p7 : padN 7 r = r := padN_of_le (by omega)
  have p8 : padN 8 r = r := padN_of_le (by omega)
  have p9 : padN 9 r = r := padN_of_le (by omega)
  have p10 : padN 10 r = r := padN_of_le (by omega)
  have p11 : padN 11 r = r := padN_of_le (by omega)
  have p12 : padN 12 r = r := padN_of_le (by omega)
  have p13 : padN 13 r = r := padN_of_le (by omega)
  simp (disch := binb) only [Generated.u256_xor, pure_exec, *]

theorem sub7 (x y : Nat) (hx : x < 4294967296) (hy : y < 4294967296) :
    ∃ l bo, bo ≤ 1 ∧ l < 4294967296 ∧ x + bo * 4294967296 = y + l ∧
      (x + two64 - y) % two64 % two32 = l ∧ (x + two64 - y) % two64 / 2 ^ 63 = bo := by
  by_cases h : y ≤ x
  · exact ⟨x - y, 0, by omega, by omega, by omega, by simp only [two64, two32]; omega, by simp only [two64, Nat.reducePow]; omega⟩
  · exact ⟨x + 4294967296 - y, 1, by omega, by omega, by omega, by simp only [two64, two32]; omega, by simp only [two64, Nat.reducePow]; omega⟩

theorem subk (x y b : Nat) (hx : x < 4294967296) (hy : y < 4294967296) (hb : b ≤ 1) :
    ∃ l bo, bo ≤ 1 ∧ l < 4294967296 ∧ x + bo * 4294967296 = y + b + l ∧
      (x + two64 - splitLo (fadd b y)) % two64 % two32 = l ∧
      fadd ((x + two64 - splitLo (fadd b y)) % two64 / 2 ^ 63) (splitHi (fadd b y)) = bo := by
  have ht : fadd b y = b + y := by simp only [fadd, P]; omega
  rw [ht]
  by_cases hfull : b + y = 4294967296
  · have h1 : splitLo (b + y) = 0 := by simp only [splitLo, two32]; omega
    have h2 : splitHi (b + y) = 1 := by simp only [splitHi, two32]; omega
    rw [h1, h2]
    refine ⟨x, 1, by omega, hx, by omega, ?_, ?_⟩ <;> (simp only [fadd, two64, two32, P, Nat.reducePow]; omega)
  · have h1 : splitLo (b + y) = b + y := by simp only [splitLo, two32]; omega
    have h2 : splitHi (b + y) = 0 := by simp only [splitHi, two32]; omega
    rw [h1, h2]
    by_cases h : b + y ≤ x
    · refine ⟨x - (b + y), 0, by omega, by omega, by omega, ?_, ?_⟩ <;> (simp only [fadd, two64, two32, P, Nat.reducePow]; omega)
    · refine ⟨x + 4294967296 - (b + y), 1, by omega, by omega, by omega, ?_, ?_⟩ <;> (simp only [fadd, two64, two32, P, Nat.reducePow]; omega)

theorem sub0 (x y b : Nat) (hx : x < 4294967296) (hy : y < 4294967296) (hb : b ≤ 1) :
    ∃ l bo, bo ≤ 1 ∧ l < 4294967296 ∧ x + bo * 4294967296 = y + b + l ∧
      (x + two64 - splitLo (fadd y b)) % two64 % two32 = l := by
  have ht : fadd y b = y + b := by simp only [fadd, P]; omega
  rw [ht]
  by_cases h : y + b ≤ x
  · refine ⟨x - (y + b), 0, by omega, by omega, by omega, ?_⟩; (simp only [splitLo, two64, two32]; omega)
  · refine ⟨x + 4294967296 - (y + b), 1, by omega, by omega, by omega, ?_⟩; (simp only [splitLo, two64, two32]; omega)

/-- Borrow chain of an 8-limb subtraction, limbs most significant first. -/
theorem sub_chain (x0 x1 x2 x3 x4 x5 x6 x7 y0 y1 y2 y3 y4 y5 y6 y7 l0 l1 l2 l3 l4 l5 l6 l7 b0 b1 b2 b3 b4 b5 b6 b7 : Nat)
    (e7 : x7 + b7 * 4294967296 = y7 + l7) (e6 : x6 + b6 * 4294967296 = y6 + b7 + l6)
    (e5 : x5 + b5 * 4294967296 = y5 + b6 + l5) (e4 : x4 + b4 * 4294967296 = y4 + b5 + l4)
    (e3 : x3 + b3 * 4294967296 = y3 + b4 + l3) (e2 : x2 + b2 * 4294967296 = y2 + b3 + l2)
    (e1 : x1 + b1 * 4294967296 = y1 + b2 + l1) (e0 : x0 + b0 * 4294967296 = y0 + b1 + l0)
    (hb0 : b0 ≤ 1)
    (h0 : l0 < 4294967296) (h1 : l1 < 4294967296) (h2 : l2 < 4294967296) (h3 : l3 < 4294967296) (h4 : l4 < 4294967296) (h5 : l5 < 4294967296) (h6 : l6 < 4294967296) (h7 : l7 < 4294967296) :
    (x0 * 26959946667150639794667015087019630673637144422540572481103610249216 + x1 * 6277101735386680763835789423207666416102355444464034512896 + x2 * 1461501637330902918203684832716283019655932542976 + x3 * 340282366920938463463374607431768211456 + x4 * 79228162514264337593543950336 + x5 * 18446744073709551616 + x6 * 4294967296 + x7 * 1 + 115792089237316195423570985008687907853269984665640564039457584007913129639936 - (y0 * 26959946667150639794667015087019630673637144422540572481103610249216 + y1 * 6277101735386680763835789423207666416102355444464034512896 + y2 * 1461501637330902918203684832716283019655932542976 + y3 * 340282366920938463463374607431768211456 + y4 * 79228162514264337593543950336 + y5 * 18446744073709551616 + y6 * 4294967296 + y7 * 1)) % 115792089237316195423570985008687907853269984665640564039457584007913129639936 = l0 * 26959946667150639794667015087019630673637144422540572481103610249216 + l1 * 6277101735386680763835789423207666416102355444464034512896 + l2 * 1461501637330902918203684832716283019655932542976 + l3 * 340282366920938463463374607431768211456 + l4 * 79228162514264337593543950336 + l5 * 18446744073709551616 + l6 * 4294967296 + l7 * 1 + 0 * 115792089237316195423570985008687907853269984665640564039457584007913129639936 := by
  omega

/-- `u256::sub_unsafe`: `[b, a] → [c]` with `c = (a − b) mod 2^256`, for all limbs < 2^32. -/
theorem u256_sub_pure (y0 y1 y2 y3 y4 y5 y6 y7 x0 x1 x2 x3 x4 x5 x6 x7 : Nat) (r0 r1 r2 : Nat) (r : List Nat) (hr : 13 ≤ r.length)
    (hx0 : x0 < 4294967296) (hy0 : y0 < 4294967296) (hx1 : x1 < 4294967296) (hy1 : y1 < 4294967296) (hx2 : x2 < 4294967296) (hy2 : y2 < 4294967296) (hx3 : x3 < 4294967296) (hy3 : y3 < 4294967296) (hx4 : x4 < 4294967296) (hy4 : y4 < 4294967296) (hx5 : x5 < 4294967296) (hy5 : y5 < 4294967296) (hx6 : x6 < 4294967296) (hy6 : y6 < 4294967296) (hx7 : x7 < 4294967296) (hy7 : y7 < 4294967296) :
    runPure Generated.u256_sub_unsafe (y0 :: y1 :: y2 :: y3 :: y4 :: y5 :: y6 :: y7 :: x0 :: x1 :: x2 :: x3 :: x4 :: x5 :: x6 :: x7 :: r0 :: r1 :: r2 :: r)
      = .ok (((u256of x0 x1 x2 x3 x4 x5 x6 x7 + 115792089237316195423570985008687907853269984665640564039457584007913129639936 - u256of y0 y1 y2 y3 y4 y5 y6 y7) % 115792089237316195423570985008687907853269984665640564039457584007913129639936) / 26959946667150639794667015087019630673637144422540572481103610249216 % 4294967296 :: ((u256of x0 x1 x2 x3 x4 x5 x6 x7 + 115792089237316195423570985008687907853269984665640564039457584007913129639936 - u256of y0 y1 y2 y3 y4 y5 y6 y7) % 115792089237316195423570985008687907853269984665640564039457584007913129639936) / 6277101735386680763835789423207666416102355444464034512896 % 4294967296 :: ((u256of x0 x1 x2 x3 x4 x5 x6 x7 + 115792089237316195423570985008687907853269984665640564039457584007913129639936 - u256of y0 y1 y2 y3 y4 y5 y6 y7) % 115792089237316195423570985008687907853269984665640564039457584007913129639936) / 1461501637330902918203684832716283019655932542976 % 4294967296 :: ((u256of x0 x1 x2 x3 x4 x5 x6 x7 + 115792089237316195423570985008687907853269984665640564039457584007913129639936 - u256of y0 y1 y2 y3 y4 y5 y6 y7) % 115792089237316195423570985008687907853269984665640564039457584007913129639936) / 340282366920938463463374607431768211456 % 4294967296 :: ((u256of x0 x1 x2 x3 x4 x5 x6 x7 + 115792089237316195423570985008687907853269984665640564039457584007913129639936 - u256of y0 y1 y2 y3 y4 y5 y6 y7) % 115792089237316195423570985008687907853269984665640564039457584007913129639936) / 79228162514264337593543950336 % 4294967296 :: ((u256of x0 x1 x2 x3 x4 x5 x6 x7 + 115792089237316195423570985008687907853269984665640564039457584007913129639936 - u256of y0 y1 y2 y3 y4 y5 y6 y7) % 115792089237316195423570985008687907853269984665640564039457584007913129639936) / 18446744073709551616 % 4294967296 :: ((u256of x0 x1 x2 x3 x4 x5 x6 x7 + 115792089237316195423570985008687907853269984665640564039457584007913129639936 - u256of y0 y1 y2 y3 y4 y5 y6 y7) % 115792089237316195423570985008687907853269984665640564039457584007913129639936) / 4294967296 % 4294967296 :: ((u256of x0 x1 x2 x3 x4 x5 x6 x7 + 115792089237316195423570985008687907853269984665640564039457584007913129639936 - u256of y0 y1 y2 y3 y4 y5 y6 y7) % 115792089237316195423570985008687907853269984665640564039457584007913129639936) / 1 % 4294967296 :: r0 :: r1 :: r2 :: r) := by
  have p1 : padN 1 r = r := padN_of_le (by omega)
  have p2 : padN 2 r = r := padN_of_le (by omega)
  have p3 : padN 3 r = r := padN_of_le (by omega)
  have p4 : padN 4 r = r := padN_of_le (by omega)
  have p5 : padN 5 r = r := padN_of_le (by omega)
  have p6 : padN 6 r = r := padN_of_le (by omega)
  have p7 : padN 7 r = r := padN_of_le (by omega)
  have p8 : padN 8 r = r := padN_of_le (by omega)
  have p9 : padN 9 r = r := padN_of_le (by omega)
  have p10 : padN 10 r = r := padN_of_le (by omega)
  have p11 : padN 11 r = r := padN_of_le (by omega)
  have p12 : padN 12 r = r := padN_of_le (by omega)
  have p13 : padN 13 r = r := padN_of_le (by omega)
  simp (disch := binb) only [Generated.u256_sub_unsafe, pure_exec, *]
  generalize hd7 : (x7 + two64 - y7) % two64 = d7
  generalize hb7 : d7 / 2 ^ 63 = b7
  generalize ht6 : fadd b7 y6 = t6
  generalize hd6 : (x6 + two64 - splitLo t6) % two64 = d6
  generalize hb6 : fadd (d6 / 2 ^ 63) (splitHi t6) = b6
  generalize ht5 : fadd b6 y5 = t5
  generalize hd5 : (x5 + two64 - splitLo t5) % two64 = d5
  generalize hb5 : fadd (d5 / 2 ^ 63) (splitHi t5) = b5
  generalize ht4 : fadd b5 y4 = t4
  generalize hd4 : (x4 + two64 - splitLo t4) % two64 = d4
  generalize hb4 : fadd (d4 / 2 ^ 63) (splitHi t4) = b4
  generalize ht3 : fadd b4 y3 = t3
  generalize hd3 : (x3 + two64 - splitLo t3) % two64 = d3
  generalize hb3 : fadd (d3 / 2 ^ 63) (splitHi t3) = b3
  generalize ht2 : fadd b3 y2 = t2
  generalize hd2 : (x2 + two64 - splitLo t2) % two64 = d2
  generalize hb2 : fadd (d2 / 2 ^ 63) (splitHi t2) = b2
  generalize ht1 : fadd b2 y1 = t1
  generalize hd1 : (x1 + two64 - splitLo t1) % two64 = d1
  generalize hb1 : fadd (d1 / 2 ^ 63) (splitHi t1) = b1
  generalize ht0 : fadd y0 b1 = t0
  generalize hd0 : (x0 + two64 - splitLo t0) % two64 = d0
  obtain ⟨l7, bo7, hbo7, hl7, e7, q7l, q7b⟩ := sub7 x7 y7 hx7 hy7
  have hb7' : bo7 = b7 := by rw [← hb7, ← hd7]; exact q7b.symm
  have hq7 : d7 % two32 = l7 := by rw [← hd7]; exact q7l
  subst hb7'
  obtain ⟨l6, bo6, hbo6, hl6, e6, q6l, q6b⟩ := subk x6 y6 bo7 hx6 hy6 hbo7
  have hb6' : bo6 = b6 := by rw [← hb6, ← hd6, ← ht6]; exact q6b.symm
  have hq6 : d6 % two32 = l6 := by rw [← hd6, ← ht6]; exact q6l
  subst hb6'
  obtain ⟨l5, bo5, hbo5, hl5, e5, q5l, q5b⟩ := subk x5 y5 bo6 hx5 hy5 hbo6
  have hb5' : bo5 = b5 := by rw [← hb5, ← hd5, ← ht5]; exact q5b.symm
  have hq5 : d5 % two32 = l5 := by rw [← hd5, ← ht5]; exact q5l
  subst hb5'
  obtain ⟨l4, bo4, hbo4, hl4, e4, q4l, q4b⟩ := subk x4 y4 bo5 hx4 hy4 hbo5
  have hb4' : bo4 = b4 := by rw [← hb4, ← hd4, ← ht4]; exact q4b.symm
  have hq4 : d4 % two32 = l4 := by rw [← hd4, ← ht4]; exact q4l
  subst hb4'
  obtain ⟨l3, bo3, hbo3, hl3, e3, q3l, q3b⟩ := subk x3 y3 bo4 hx3 hy3 hbo4
  have hb3' : bo3 = b3 := by rw [← hb3, ← hd3, ← ht3]; exact q3b.symm
  have hq3 : d3 % two32 = l3 := by rw [← hd3, ← ht3]; exact q3l
  subst hb3'
  obtain ⟨l2, bo2, hbo2, hl2, e2, q2l, q2b⟩ := subk x2 y2 bo3 hx2 hy2 hbo3
  have hb2' : bo2 = b2 := by rw [← hb2, ← hd2, ← ht2]; exact q2b.symm
  have hq2 : d2 % two32 = l2 := by rw [← hd2, ← ht2]; exact q2l
  subst hb2'
  obtain ⟨l1, bo1, hbo1, hl1, e1, q1l, q1b⟩ := subk x1 y1 bo2 hx1 hy1 hbo2
  have hb1' : bo1 = b1 := by rw [← hb1, ← hd1, ← ht1]; exact q1b.symm
  have hq1 : d1 % two32 = l1 := by rw [← hd1, ← ht1]; exact q1l
  subst hb1'
  obtain ⟨l0, bo0, hbo0, hl0, e0, q0l⟩ := sub0 x0 y0 bo1 hx0 hy0 hbo1
  have hq0 : d0 % two32 = l0 := by rw [← hd0, ← ht0]; exact q0l
  have hsum := sub_chain x0 x1 x2 x3 x4 x5 x6 x7 y0 y1 y2 y3 y4 y5 y6 y7 l0 l1 l2 l3 l4 l5 l6 l7 bo0 bo1 bo2 bo3 bo4 bo5 bo6 bo7 e7 e6 e5 e4 e3 e2 e1 e0 hbo0
    hl0 hl1 hl2 hl3 hl4 hl5 hl6 hl7
  obtain ⟨m0, m1, m2, m3, m4, m5, m6, m7⟩ := limb_of l0 l1 l2 l3 l4 l5 l6 l7 0 hl0 hl1 hl2 hl3 hl4 hl5 hl6 hl7
  simp only [u256of]
  rw [hsum, m0, m1, m2, m3, m4, m5, m6, m7, hq0, hq1, hq2, hq3, hq4, hq5, hq6, hq7]

end Miden.U256
