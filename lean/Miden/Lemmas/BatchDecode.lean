/-
  Decoding of operation groups (C08): the group values, op counts and immediates of a batch determine
  its operations.  `codesOf groups counts` reads `counts[i]` seven-bit opcodes out of every group `i`
  (groups holding immediates have count 0); the slots of a group beyond its count hold opcode 0 (NOOP).
-/
import Miden.Lemmas.Batch
namespace Miden

/-- Opcodes read from the eight groups of a batch, `counts[i]` of them from group `i`, in group order. -/
def codesOf (groups counts : List Nat) : List Nat :=
  (List.range 8).flatMap (fun i => decodeGroup (counts.getD i 0) (groups.getD i 0))

theorem list8 (l : List Nat) (h : l.length = 8) :
    ∃ a0 a1 a2 a3 a4 a5 a6 a7, l = [a0, a1, a2, a3, a4, a5, a6, a7] := by
  match l, h with
  | [a0, a1, a2, a3, a4, a5, a6, a7], _ => exact ⟨a0, a1, a2, a3, a4, a5, a6, a7, rfl⟩

theorem pow128 (n : Nat) : 2 ^ (7 * n) = 128 ^ n := by
  rw [Nat.pow_mul]

theorem decodeGroup_snoc : ∀ (n g c : Nat), g < 128 ^ n → c < 128 →
    decodeGroup (n + 1) (g + c * 128 ^ n) = decodeGroup n g ++ [c]
  | 0, g, c, hg, hc => by
    have : g = 0 := by simpa using hg
    subst this
    simp [decodeGroup, Nat.mod_eq_of_lt hc]
  | n + 1, g, c, hg, hc => by
    have h1 : (g + c * 128 ^ (n + 1)) % 128 = g % 128 := by
      rw [Nat.pow_succ, ← Nat.mul_assoc]
      exact Nat.add_mul_mod_self_right _ _ _
    have h2 : (g + c * 128 ^ (n + 1)) / 128 = g / 128 + c * 128 ^ n := by
      rw [Nat.pow_succ, ← Nat.mul_assoc]
      exact Nat.add_mul_div_right _ _ (by decide)
    have h3 : g / 128 < 128 ^ n := by
      rw [Nat.div_lt_iff_lt_mul (by decide)]
      rw [Nat.pow_succ] at hg
      exact hg
    show ((g + c * 128 ^ (n + 1)) % 128) :: decodeGroup (n + 1) ((g + c * 128 ^ (n + 1)) / 128) = _
    rw [h1, h2, decodeGroup_snoc n _ c h3 hc]
    rfl

theorem snoc_bound (n g c : Nat) (hg : g < 128 ^ n) (hc : c < 128) : g + c * 128 ^ n < 128 ^ (n + 1) := by
  have : (c + 1) * 128 ^ n ≤ 128 * 128 ^ n := Nat.mul_le_mul_right _ (by omega)
  rw [Nat.pow_succ, Nat.mul_comm (128 ^ n) 128]
  have h2 : (c + 1) * 128 ^ n = c * 128 ^ n + 128 ^ n := by rw [Nat.add_mul, Nat.one_mul]
  omega

/-- The slots of a group beyond its operation count decode to opcode 0 (NOOP). -/
theorem decodeGroup_pad : ∀ (n k g : Nat), g < 128 ^ n →
    decodeGroup (n + k) g = decodeGroup n g ++ List.replicate k 0
  | 0, k, g, hg => by
    have : g = 0 := by simpa using hg
    subst this
    induction k with
    | zero => rfl
    | succ k ih =>
      show (0 % 128) :: decodeGroup (0 + k) (0 / 128) = _
      simp only [Nat.zero_mod, Nat.zero_div]
      rw [ih]
      rfl
  | n + 1, k, g, hg => by
    have h3 : g / 128 < 128 ^ n := by
      rw [Nat.div_lt_iff_lt_mul (by decide)]
      rw [Nat.pow_succ] at hg
      exact hg
    have : n + 1 + k = (n + k) + 1 := by omega
    rw [this]
    show (g % 128) :: decodeGroup (n + k) (g / 128) = _
    rw [decodeGroup_pad n k _ h3]
    rfl

/-- Finalising group `j` (all counts from `j` on still zero) appends its opcodes. -/
theorem codesOf_set (groups counts : List Nat) (hg : groups.length = 8) (hc : counts.length = 8)
    (j c v : Nat) (hj : j < 8) (hz : ∀ i, j ≤ i → counts.getD i 0 = 0) :
    codesOf (groups.set j v) (counts.set j c) = codesOf groups counts ++ decodeGroup c v := by
  obtain ⟨g0, g1, g2, g3, g4, g5, g6, g7, rfl⟩ := list8 groups hg
  obtain ⟨c0, c1, c2, c3, c4, c5, c6, c7, rfl⟩ := list8 counts hc
  have hj' : j = 0 ∨ j = 1 ∨ j = 2 ∨ j = 3 ∨ j = 4 ∨ j = 5 ∨ j = 6 ∨ j = 7 := by omega
  rcases hj' with hj' | hj' | hj' | hj' | hj' | hj' | hj' | hj'
  · subst hj'
    have e0 : c0 = 0 := by simpa using hz 0 (by omega)
    have e1 : c1 = 0 := by simpa using hz 1 (by omega)
    have e2 : c2 = 0 := by simpa using hz 2 (by omega)
    have e3 : c3 = 0 := by simpa using hz 3 (by omega)
    have e4 : c4 = 0 := by simpa using hz 4 (by omega)
    have e5 : c5 = 0 := by simpa using hz 5 (by omega)
    have e6 : c6 = 0 := by simpa using hz 6 (by omega)
    have e7 : c7 = 0 := by simpa using hz 7 (by omega)
    subst e0; subst e1; subst e2; subst e3; subst e4; subst e5; subst e6; subst e7;
    simp [codesOf, List.range, List.range.loop, decodeGroup]
  · subst hj'
    have e1 : c1 = 0 := by simpa using hz 1 (by omega)
    have e2 : c2 = 0 := by simpa using hz 2 (by omega)
    have e3 : c3 = 0 := by simpa using hz 3 (by omega)
    have e4 : c4 = 0 := by simpa using hz 4 (by omega)
    have e5 : c5 = 0 := by simpa using hz 5 (by omega)
    have e6 : c6 = 0 := by simpa using hz 6 (by omega)
    have e7 : c7 = 0 := by simpa using hz 7 (by omega)
    subst e1; subst e2; subst e3; subst e4; subst e5; subst e6; subst e7;
    simp [codesOf, List.range, List.range.loop, decodeGroup]
  · subst hj'
    have e2 : c2 = 0 := by simpa using hz 2 (by omega)
    have e3 : c3 = 0 := by simpa using hz 3 (by omega)
    have e4 : c4 = 0 := by simpa using hz 4 (by omega)
    have e5 : c5 = 0 := by simpa using hz 5 (by omega)
    have e6 : c6 = 0 := by simpa using hz 6 (by omega)
    have e7 : c7 = 0 := by simpa using hz 7 (by omega)
    subst e2; subst e3; subst e4; subst e5; subst e6; subst e7;
    simp [codesOf, List.range, List.range.loop, decodeGroup]
  · subst hj'
    have e3 : c3 = 0 := by simpa using hz 3 (by omega)
    have e4 : c4 = 0 := by simpa using hz 4 (by omega)
    have e5 : c5 = 0 := by simpa using hz 5 (by omega)
    have e6 : c6 = 0 := by simpa using hz 6 (by omega)
    have e7 : c7 = 0 := by simpa using hz 7 (by omega)
    subst e3; subst e4; subst e5; subst e6; subst e7;
    simp [codesOf, List.range, List.range.loop, decodeGroup]
  · subst hj'
    have e4 : c4 = 0 := by simpa using hz 4 (by omega)
    have e5 : c5 = 0 := by simpa using hz 5 (by omega)
    have e6 : c6 = 0 := by simpa using hz 6 (by omega)
    have e7 : c7 = 0 := by simpa using hz 7 (by omega)
    subst e4; subst e5; subst e6; subst e7;
    simp [codesOf, List.range, List.range.loop, decodeGroup]
  · subst hj'
    have e5 : c5 = 0 := by simpa using hz 5 (by omega)
    have e6 : c6 = 0 := by simpa using hz 6 (by omega)
    have e7 : c7 = 0 := by simpa using hz 7 (by omega)
    subst e5; subst e6; subst e7;
    simp [codesOf, List.range, List.range.loop, decodeGroup]
  · subst hj'
    have e6 : c6 = 0 := by simpa using hz 6 (by omega)
    have e7 : c7 = 0 := by simpa using hz 7 (by omega)
    subst e6; subst e7;
    simp [codesOf, List.range, List.range.loop, decodeGroup]
  · subst hj'
    have e7 : c7 = 0 := by simpa using hz 7 (by omega)
    subst e7;
    simp [codesOf, List.range, List.range.loop, decodeGroup]

/-- Writing an immediate into a group whose count is zero does not change the opcodes read. -/
theorem codesOf_set_imm (groups counts : List Nat) (hg : groups.length = 8) (hc : counts.length = 8)
    (j v : Nat) (hj : j < 8) (hz : counts.getD j 0 = 0) :
    codesOf (groups.set j v) counts = codesOf groups counts := by
  obtain ⟨g0, g1, g2, g3, g4, g5, g6, g7, rfl⟩ := list8 groups hg
  obtain ⟨c0, c1, c2, c3, c4, c5, c6, c7, rfl⟩ := list8 counts hc
  have hj' : j = 0 ∨ j = 1 ∨ j = 2 ∨ j = 3 ∨ j = 4 ∨ j = 5 ∨ j = 6 ∨ j = 7 := by omega
  rcases hj' with hj' | hj' | hj' | hj' | hj' | hj' | hj' | hj'
  · subst hj'
    have e : c0 = 0 := by simpa using hz
    subst e
    simp [codesOf, List.range, List.range.loop, decodeGroup]
  · subst hj'
    have e : c1 = 0 := by simpa using hz
    subst e
    simp [codesOf, List.range, List.range.loop, decodeGroup]
  · subst hj'
    have e : c2 = 0 := by simpa using hz
    subst e
    simp [codesOf, List.range, List.range.loop, decodeGroup]
  · subst hj'
    have e : c3 = 0 := by simpa using hz
    subst e
    simp [codesOf, List.range, List.range.loop, decodeGroup]
  · subst hj'
    have e : c4 = 0 := by simpa using hz
    subst e
    simp [codesOf, List.range, List.range.loop, decodeGroup]
  · subst hj'
    have e : c5 = 0 := by simpa using hz
    subst e
    simp [codesOf, List.range, List.range.loop, decodeGroup]
  · subst hj'
    have e : c6 = 0 := by simpa using hz
    subst e
    simp [codesOf, List.range, List.range.loop, decodeGroup]
  · subst hj'
    have e : c7 = 0 := by simpa using hz
    subst e
    simp [codesOf, List.range, List.range.loop, decodeGroup]

theorem getD_set_ne (l : List Nat) (j i v : Nat) (h : j ≠ i) : (l.set j v).getD i 0 = l.getD i 0 := by
  simp [List.getD_eq_getElem?_getD, List.getElem?_set_ne h]

theorem Op.code_lt (op : Op) : op.code < 128 := by cases op <;> simp [Op.code]

/-- Decoding invariant of the accumulator: nothing is finalised from the current group on, the
    current group value holds exactly `opIdx` opcodes, and the finalised groups followed by the current
    group decode to the operations added so far. -/
def Acc.Dec (a : Acc) : Prop :=
  (∀ i, a.groupIdx ≤ i → a.opCounts.getD i 0 = 0) ∧ a.group < 128 ^ a.opIdx ∧
  codesOf a.groups a.opCounts ++ decodeGroup a.opIdx a.group = a.ops.reverse.map Op.code

theorem Acc.dec_init : Acc.Dec {} := by
  refine ⟨?_, by decide, by decide⟩
  intro i _
  show (List.replicate 8 0).getD i 0 = 0
  rw [List.getD_eq_getElem?_getD, List.getElem?_replicate]
  split <;> rfl

theorem Acc.dec_finalize (a : Acc) (h : a.WF) (d : a.Dec) : a.finalizeGroup.Dec := by
  obtain ⟨h1, h2, h3, h4, h5, h6⟩ := h
  obtain ⟨d1, d2, d3⟩ := d
  refine ⟨?_, ?_, ?_⟩
  · intro i hi
    show (a.opCounts.set a.groupIdx a.opIdx).getD i 0 = 0
    have hi' : a.nextGroupIdx ≤ i := hi
    rw [getD_set_ne _ _ _ _ (by omega)]
    exact d1 i (by omega)
  · show (0 : Nat) < 128 ^ 0
    decide
  · show codesOf (a.groups.set a.groupIdx a.group) (a.opCounts.set a.groupIdx a.opIdx) ++ decodeGroup 0 0
        = a.ops.reverse.map Op.code
    rw [codesOf_set a.groups a.opCounts h1 h2 a.groupIdx a.opIdx a.group (by omega) d1]
    simpa [decodeGroup] using d3

theorem Acc.dec_start (a : Acc) (h : a.WF) (d : a.Dec) : a.startGroupIfFull.Dec := by
  unfold Acc.startGroupIfFull
  by_cases e : a.opIdx = 9
  · simp only [e, if_true]; exact Acc.dec_finalize a h d
  · simp only [e, if_false]; exact d

theorem Acc.dec_placeImm_core (a : Acc) (v : Nat) (h : a.WF) (d : a.Dec) (hn : a.nextGroupIdx < 8) :
    Acc.Dec { a with groups := a.groups.set a.nextGroupIdx v, nextGroupIdx := a.nextGroupIdx + 1 } := by
  obtain ⟨h1, h2, h3, h4, h5, h6⟩ := h
  obtain ⟨d1, d2, d3⟩ := d
  refine ⟨d1, d2, ?_⟩
  show codesOf (a.groups.set a.nextGroupIdx v) a.opCounts ++ decodeGroup a.opIdx a.group = _
  rw [codesOf_set_imm a.groups a.opCounts h1 h2 a.nextGroupIdx v hn (d1 _ (by omega))]
  exact d3

theorem Acc.dec_placeImm (a : Acc) (v : Nat) (h : a.WF) (d : a.Dec)
    (hn : if a.opIdx = 8 then a.nextGroupIdx + 1 < 8 else a.nextGroupIdx < 8) : (a.placeImm v).Dec := by
  unfold Acc.placeImm
  by_cases e : a.opIdx = 8
  · simp only [e, if_true] at hn ⊢
    have w := Acc.wf_finalize a h (by omega)
    have d' := Acc.dec_finalize a h d
    exact Acc.dec_placeImm_core a.finalizeGroup v w d' (by rw [Acc.finalize_next]; omega)
  · simp only [e, if_false] at hn ⊢
    exact Acc.dec_placeImm_core a v h d hn

theorem Acc.dec_pushOp (a : Acc) (op : Op) (d : a.Dec) : (a.pushOp op).Dec := by
  obtain ⟨d1, d2, d3⟩ := d
  refine ⟨d1, ?_, ?_⟩
  · show a.group + op.code * 2 ^ (7 * a.opIdx) < 128 ^ (a.opIdx + 1)
    rw [pow128]
    exact snoc_bound _ _ _ d2 (Op.code_lt op)
  · show codesOf a.groups a.opCounts ++ decodeGroup (a.opIdx + 1) (a.group + op.code * 2 ^ (7 * a.opIdx))
        = (op :: a.ops).reverse.map Op.code
    rw [pow128, decodeGroup_snoc _ _ _ d2 (Op.code_lt op), ← List.append_assoc, d3]
    simp

theorem Acc.dec_addOp (a : Acc) (op : Op) (h : a.WF) (d : a.Dec) (hc : a.canAccept op = true) :
    (a.addOp op).Dec := by
  have hI := Op.hasImm_eq op
  rw [Acc.canAccept_iff] at hc
  unfold Acc.addOp
  have h3 : a.opIdx ≤ 9 := h.2.2.1
  cases himm : op.imm with
  | none =>
    rw [himm] at hI
    exact Acc.dec_pushOp _ op (Acc.dec_start a h d)
  | some v =>
    rw [himm] at hI
    simp only [hI, Option.isSome_some, if_true] at hc
    obtain ⟨s1, s2, s3, s4, s5⟩ := Acc.wf_start a h (by
      intro e; rw [e] at hc; simp at hc; omega)
    have hn : if a.startGroupIfFull.opIdx = 8 then a.startGroupIfFull.nextGroupIdx + 1 < 8
        else a.startGroupIfFull.nextGroupIdx < 8 := by
      rw [s4, s5]
      by_cases e9 : a.opIdx = 9
      · rw [e9] at hc; simp at hc; simp [e9]; omega
      · by_cases e8 : a.opIdx = 8
        · rw [e8] at hc; simp at hc; simp [e9, e8]; omega
        · have : a.opIdx < 8 := by omega
          simp [this] at hc
          simp [e9, e8]; omega
    exact Acc.dec_pushOp _ op (Acc.dec_placeImm _ v s1 (Acc.dec_start a h d) hn)

/-- The finished batch decodes to its operations. -/
def OpBatch.Decodes (b : OpBatch) : Prop := codesOf b.groups b.opCounts = b.ops.map Op.code

theorem Acc.dec_intoBatch (a : Acc) (h : a.WF) (d : a.Dec) : a.intoBatch.Decodes := by
  obtain ⟨h1, h2, h3, h4, h5, h6⟩ := h
  obtain ⟨d1, d2, d3⟩ := d
  unfold Acc.intoBatch OpBatch.Decodes
  by_cases e : a.group ≠ 0 ∨ a.opIdx ≠ 0
  · simp only [e, if_true]
    show codesOf (a.groups.set a.groupIdx a.group) (a.opCounts.set a.groupIdx a.opIdx) = a.ops.reverse.map Op.code
    rw [codesOf_set a.groups a.opCounts h1 h2 a.groupIdx a.opIdx a.group (by omega) d1]
    exact d3
  · simp only [e, if_false]
    have e0 : a.opIdx = 0 := by
      apply Classical.byContradiction; intro hne; exact e (Or.inr hne)
    show codesOf a.groups a.opCounts = a.ops.reverse.map Op.code
    rw [e0] at d3
    simpa [decodeGroup] using d3

theorem batchLoop_decodes (ops : List Op) : ∀ (acc : Acc) (done : List OpBatch), acc.WF → acc.Dec →
    (∀ b ∈ done, b.Decodes) → ∀ b ∈ batchLoop ops acc done, b.Decodes := by
  induction ops with
  | nil =>
    intro acc done hacc dacc hdone b hb
    unfold batchLoop at hb
    split at hb
    · exact hdone b (by simpa using hb)
    · simp only [List.mem_reverse, List.mem_cons] at hb
      rcases hb with hb | hb
      · rw [hb]; exact Acc.dec_intoBatch acc hacc dacc
      · exact hdone b hb
  | cons op rest ih =>
    intro acc done hacc dacc hdone b hb
    unfold batchLoop at hb
    split at hb
    · rename_i hc
      exact ih _ _ (Acc.wf_addOp acc op hacc hc).1 (Acc.dec_addOp acc op hacc dacc hc) hdone b hb
    · refine ih _ _ (Acc.wf_addOp {} op Acc.wf_init (Acc.init_accepts op)).1
        (Acc.dec_addOp {} op Acc.wf_init Acc.dec_init (Acc.init_accepts op)) ?_ b hb
      intro b' hb'
      rcases List.mem_cons.mp hb' with h | h
      · rw [h]; exact Acc.dec_intoBatch acc hacc dacc
      · exact hdone b' h

theorem batchOps_decodes (ops : List Op) : ∀ b ∈ batchOps ops, b.Decodes :=
  batchLoop_decodes ops {} [] Acc.wf_init Acc.dec_init (by intro b hb; cases hb)

theorem getD_set_eq (l : List Nat) (j v : Nat) (h : j < l.length) : (l.set j v).getD j 0 = v := by
  simp [List.getD_eq_getElem?_getD, List.getElem?_set_self h]

/-- Every finalised operation group holds exactly `count` opcodes: the remaining slots are zero. -/
def PadOk (groups counts : List Nat) : Prop :=
  ∀ i, counts.getD i 0 ≠ 0 → groups.getD i 0 < 128 ^ counts.getD i 0

theorem padOk_set (groups counts : List Nat) (hg : groups.length = 8) (hc : counts.length = 8)
    (j c v : Nat) (hj : j < 8) (hv : v < 128 ^ c) (p : PadOk groups counts) :
    PadOk (groups.set j v) (counts.set j c) := by
  intro i hi
  by_cases e : j = i
  · subst e
    rw [getD_set_eq _ _ _ (by omega), getD_set_eq _ _ _ (by omega)]
    exact hv
  · rw [getD_set_ne _ _ _ _ e] at hi ⊢
    rw [getD_set_ne _ _ _ _ e]
    exact p i hi

theorem padOk_set_imm (groups counts : List Nat) (j v : Nat) (hz : counts.getD j 0 = 0)
    (p : PadOk groups counts) : PadOk (groups.set j v) counts := by
  intro i hi
  by_cases e : j = i
  · subst e; exact absurd hz hi
  · rw [getD_set_ne _ _ _ _ e]; exact p i hi

def Acc.Pad (a : Acc) : Prop := PadOk a.groups a.opCounts

theorem Acc.pad_init : Acc.Pad {} := by
  intro i hi
  exact absurd (Acc.dec_init.1 i (Nat.zero_le _)) hi

theorem Acc.pad_finalize (a : Acc) (h : a.WF) (d : a.Dec) (p : a.Pad) : a.finalizeGroup.Pad := by
  obtain ⟨h1, h2, h3, h4, h5, h6⟩ := h
  exact padOk_set a.groups a.opCounts h1 h2 a.groupIdx a.opIdx a.group (by omega) d.2.1 p

theorem Acc.pad_start (a : Acc) (h : a.WF) (d : a.Dec) (p : a.Pad) : a.startGroupIfFull.Pad := by
  unfold Acc.startGroupIfFull
  by_cases e : a.opIdx = 9
  · simp only [e, if_true]; exact Acc.pad_finalize a h d p
  · simp only [e, if_false]; exact p

theorem Acc.pad_placeImm (a : Acc) (v : Nat) (h : a.WF) (d : a.Dec) (p : a.Pad)
    (hn : if a.opIdx = 8 then a.nextGroupIdx + 1 < 8 else a.nextGroupIdx < 8) : (a.placeImm v).Pad := by
  unfold Acc.placeImm
  by_cases e : a.opIdx = 8
  · simp only [e, if_true] at hn ⊢
    have d' := Acc.dec_finalize a h d
    have p' := Acc.pad_finalize a h d p
    exact padOk_set_imm _ _ _ v (d'.1 _ (by show a.nextGroupIdx ≤ a.nextGroupIdx + 1; omega)) p'
  · simp only [e, if_false] at hn ⊢
    exact padOk_set_imm _ _ _ v (d.1 _ (by have := h.2.2.2.1; omega)) p

theorem Acc.pad_addOp (a : Acc) (op : Op) (h : a.WF) (d : a.Dec) (p : a.Pad) (hc : a.canAccept op = true) :
    (a.addOp op).Pad := by
  have hI := Op.hasImm_eq op
  rw [Acc.canAccept_iff] at hc
  unfold Acc.addOp
  have h3 : a.opIdx ≤ 9 := h.2.2.1
  cases himm : op.imm with
  | none => exact Acc.pad_start a h d p
  | some v =>
    rw [himm] at hI
    simp only [hI, Option.isSome_some, if_true] at hc
    obtain ⟨s1, s2, s3, s4, s5⟩ := Acc.wf_start a h (by
      intro e; rw [e] at hc; simp at hc; omega)
    have hn : if a.startGroupIfFull.opIdx = 8 then a.startGroupIfFull.nextGroupIdx + 1 < 8
        else a.startGroupIfFull.nextGroupIdx < 8 := by
      rw [s4, s5]
      by_cases e9 : a.opIdx = 9
      · rw [e9] at hc; simp at hc; simp [e9]; omega
      · by_cases e8 : a.opIdx = 8
        · rw [e8] at hc; simp at hc; simp [e9, e8]; omega
        · have : a.opIdx < 8 := by omega
          simp [this] at hc
          simp [e9, e8]; omega
    exact Acc.pad_placeImm _ v s1 (Acc.dec_start a h d) (Acc.pad_start a h d p) hn

theorem Acc.pad_intoBatch (a : Acc) (h : a.WF) (d : a.Dec) (p : a.Pad) :
    PadOk a.intoBatch.groups a.intoBatch.opCounts := by
  obtain ⟨h1, h2, h3, h4, h5, h6⟩ := h
  unfold Acc.intoBatch
  by_cases e : a.group ≠ 0 ∨ a.opIdx ≠ 0
  · simp only [e, if_true]
    exact padOk_set a.groups a.opCounts h1 h2 a.groupIdx a.opIdx a.group (by omega) d.2.1 p
  · simp only [e, if_false]
    exact p

theorem batchLoop_pad (ops : List Op) : ∀ (acc : Acc) (done : List OpBatch), acc.WF → acc.Dec → acc.Pad →
    (∀ b ∈ done, PadOk b.groups b.opCounts) → ∀ b ∈ batchLoop ops acc done, PadOk b.groups b.opCounts := by
  induction ops with
  | nil =>
    intro acc done hacc dacc pacc hdone b hb
    unfold batchLoop at hb
    split at hb
    · exact hdone b (by simpa using hb)
    · simp only [List.mem_reverse, List.mem_cons] at hb
      rcases hb with hb | hb
      · rw [hb]; exact Acc.pad_intoBatch acc hacc dacc pacc
      · exact hdone b hb
  | cons op rest ih =>
    intro acc done hacc dacc pacc hdone b hb
    unfold batchLoop at hb
    split at hb
    · rename_i hc
      exact ih _ _ (Acc.wf_addOp acc op hacc hc).1 (Acc.dec_addOp acc op hacc dacc hc)
        (Acc.pad_addOp acc op hacc dacc pacc hc) hdone b hb
    · refine ih _ _ (Acc.wf_addOp {} op Acc.wf_init (Acc.init_accepts op)).1
        (Acc.dec_addOp {} op Acc.wf_init Acc.dec_init (Acc.init_accepts op))
        (Acc.pad_addOp {} op Acc.wf_init Acc.dec_init Acc.pad_init (Acc.init_accepts op)) ?_ b hb
      intro b' hb'
      rcases List.mem_cons.mp hb' with h | h
      · rw [h]; exact Acc.pad_intoBatch acc hacc dacc pacc
      · exact hdone b' h

theorem batchOps_pad (ops : List Op) : ∀ b ∈ batchOps ops, PadOk b.groups b.opCounts :=
  batchLoop_pad ops {} [] Acc.wf_init Acc.dec_init Acc.pad_init (by intro b hb; cases hb)

/-- Values of the groups that hold immediates: the groups below `n` that are neither finalised
    operation groups (count ≠ 0) nor the group `cur` that is being filled. -/
def immsOf (groups counts : List Nat) (n cur : Nat) : List Nat :=
  ((List.range n).filter (fun i => counts.getD i 0 = 0 ∧ i ≠ cur)).map (fun i => groups.getD i 0)

theorem immsOf_congr (g g' c c' : List Nat) (n cur cur' : Nat)
    (h : ∀ i, i < n → (g.getD i 0 = g'.getD i 0 ∨ ¬ (c.getD i 0 = 0 ∧ i ≠ cur)) ∧
      ((c.getD i 0 = 0 ∧ i ≠ cur) ↔ (c'.getD i 0 = 0 ∧ i ≠ cur'))) :
    immsOf g c n cur = immsOf g' c' n cur' := by
  unfold immsOf
  induction n with
  | zero => rfl
  | succ n ih =>
    rw [List.range_succ, List.filter_append, List.filter_append, List.map_append, List.map_append]
    rw [ih (fun i hi => h i (by omega))]
    obtain ⟨h1, h2⟩ := h n (by omega)
    congr 1
    by_cases e : c.getD n 0 = 0 ∧ n ≠ cur
    · have e' := h2.mp e
      rcases h1 with h1 | h1
      · simp only [List.filter_cons, List.filter_nil, decide_eq_true e, decide_eq_true e', if_true, List.map_cons, List.map_nil, h1]
      · exact absurd e h1
    · have e' : ¬ (c'.getD n 0 = 0 ∧ n ≠ cur') := fun x => e (h2.mpr x)
      simp only [List.filter_cons, List.filter_nil, decide_eq_false e, decide_eq_false e', Bool.false_eq_true, if_false, List.map_nil]


theorem immsOf_succ (g c : List Nat) (n cur : Nat) :
    immsOf g c (n + 1) cur = immsOf g c n cur ++ (if c.getD n 0 = 0 ∧ n ≠ cur then [g.getD n 0] else []) := by
  unfold immsOf
  rw [List.range_succ, List.filter_append, List.map_append]
  congr 1
  by_cases e : c.getD n 0 = 0 ∧ n ≠ cur
  · rw [if_pos e]
    simp only [List.filter_cons, List.filter_nil, decide_eq_true e, if_true, List.map_cons, List.map_nil]
  · rw [if_neg e]
    simp only [List.filter_cons, List.filter_nil, decide_eq_false e, Bool.false_eq_true, if_false, List.map_nil]

/-- Immediates invariant: the immediate groups below `nextGroupIdx` hold the immediates of the
    operations added so far, in order; and a non-empty accumulator has a non-empty current group. -/
def Acc.Imm (a : Acc) : Prop :=
  immsOf a.groups a.opCounts a.nextGroupIdx a.groupIdx = a.ops.reverse.filterMap Op.imm

theorem Acc.imm_init : Acc.Imm {} := by
  simp [Acc.Imm, immsOf, List.range, List.range.loop]

theorem Acc.imm_finalize (a : Acc) (h : a.WF) (d : a.Dec) (m : a.Imm) (hpos : a.opIdx ≠ 0) :
    a.finalizeGroup.Imm := by
  obtain ⟨h1, h2, h3, h4, h5, h6⟩ := h
  show immsOf (a.groups.set a.groupIdx a.group) (a.opCounts.set a.groupIdx a.opIdx) (a.nextGroupIdx + 1)
      a.nextGroupIdx = a.ops.reverse.filterMap Op.imm
  rw [immsOf_succ]
  have hne : ¬ ((a.opCounts.set a.groupIdx a.opIdx).getD a.nextGroupIdx 0 = 0 ∧ a.nextGroupIdx ≠ a.nextGroupIdx) :=
    fun x => x.2 rfl
  simp only [hne, if_false, List.append_nil]
  rw [← m]
  apply immsOf_congr
  intro i hi
  by_cases e : a.groupIdx = i
  · subst e
    have hset : (a.opCounts.set a.groupIdx a.opIdx).getD a.groupIdx 0 = a.opIdx := getD_set_eq _ _ _ (by omega)
    refine ⟨Or.inr (fun x => hpos (by rw [← hset]; exact x.1)), ?_⟩
    constructor
    · intro x; exact absurd (by rw [← hset]; exact x.1) hpos
    · intro x; exact absurd rfl x.2
  · refine ⟨Or.inl (getD_set_ne _ _ _ _ e), ?_⟩
    rw [getD_set_ne _ _ _ _ e]
    constructor
    · intro x; exact ⟨x.1, fun y => e y.symm⟩
    · intro x; exact ⟨x.1, by omega⟩

theorem Acc.imm_start (a : Acc) (h : a.WF) (d : a.Dec) (m : a.Imm) : a.startGroupIfFull.Imm := by
  unfold Acc.startGroupIfFull
  by_cases e : a.opIdx = 9
  · simp only [e, if_true]; exact Acc.imm_finalize a h d m (by omega)
  · simp only [e, if_false]; exact m

theorem Acc.imm_placeImm_core (a : Acc) (v : Nat) (h : a.WF) (d : a.Dec) (m : a.Imm) (hn : a.nextGroupIdx < 8) :
    immsOf (a.groups.set a.nextGroupIdx v) a.opCounts (a.nextGroupIdx + 1) a.groupIdx
      = a.ops.reverse.filterMap Op.imm ++ [v] := by
  obtain ⟨h1, h2, h3, h4, h5, h6⟩ := h
  rw [immsOf_succ]
  have hc : a.opCounts.getD a.nextGroupIdx 0 = 0 ∧ a.nextGroupIdx ≠ a.groupIdx :=
    ⟨d.1 _ (by omega), by omega⟩
  rw [if_pos hc, getD_set_eq _ _ _ (by omega), ← m]
  congr 1
  apply immsOf_congr
  intro i hi
  exact ⟨Or.inl (getD_set_ne _ _ _ _ (by omega)), Iff.rfl⟩

theorem Acc.imm_placeImm (a : Acc) (v : Nat) (h : a.WF) (d : a.Dec) (m : a.Imm)
    (hn : if a.opIdx = 8 then a.nextGroupIdx + 1 < 8 else a.nextGroupIdx < 8) :
    immsOf (a.placeImm v).groups (a.placeImm v).opCounts (a.placeImm v).nextGroupIdx (a.placeImm v).groupIdx
      = a.ops.reverse.filterMap Op.imm ++ [v] := by
  unfold Acc.placeImm
  by_cases e : a.opIdx = 8
  · simp only [e, if_true] at hn ⊢
    have w := Acc.wf_finalize a h (by omega)
    have d' := Acc.dec_finalize a h d
    have m' := Acc.imm_finalize a h d m (by omega)
    exact Acc.imm_placeImm_core a.finalizeGroup v w d' m' (by rw [Acc.finalize_next]; omega)
  · simp only [e, if_false] at hn ⊢
    exact Acc.imm_placeImm_core a v h d m hn

theorem Acc.imm_addOp (a : Acc) (op : Op) (h : a.WF) (d : a.Dec) (m : a.Imm) (hc : a.canAccept op = true) :
    (a.addOp op).Imm ∧ (a.addOp op).opIdx ≠ 0 := by
  have hI := Op.hasImm_eq op
  rw [Acc.canAccept_iff] at hc
  unfold Acc.addOp
  have h3 : a.opIdx ≤ 9 := h.2.2.1
  cases himm : op.imm with
  | none =>
    refine ⟨?_, Nat.succ_ne_zero _⟩
    have ms := Acc.imm_start a h d m
    show immsOf a.startGroupIfFull.groups a.startGroupIfFull.opCounts a.startGroupIfFull.nextGroupIdx
        a.startGroupIfFull.groupIdx = (op :: a.startGroupIfFull.ops).reverse.filterMap Op.imm
    rw [List.reverse_cons, List.filterMap_append]
    simp only [List.filterMap_cons, himm, List.filterMap_nil, List.append_nil]
    exact ms
  | some v =>
    refine ⟨?_, Nat.succ_ne_zero _⟩
    rw [himm] at hI
    simp only [hI, Option.isSome_some, if_true] at hc
    obtain ⟨s1, s2, s3, s4, s5⟩ := Acc.wf_start a h (by
      intro e; rw [e] at hc; simp at hc; omega)
    have hn : if a.startGroupIfFull.opIdx = 8 then a.startGroupIfFull.nextGroupIdx + 1 < 8
        else a.startGroupIfFull.nextGroupIdx < 8 := by
      rw [s4, s5]
      by_cases e9 : a.opIdx = 9
      · rw [e9] at hc; simp at hc; simp [e9]; omega
      · by_cases e8 : a.opIdx = 8
        · rw [e8] at hc; simp at hc; simp [e9, e8]; omega
        · have : a.opIdx < 8 := by omega
          simp [this] at hc
          simp [e9, e8]; omega
    have mp := Acc.imm_placeImm a.startGroupIfFull v s1 (Acc.dec_start a h d) (Acc.imm_start a h d m) hn
    obtain ⟨_, _, q3⟩ := Acc.wf_placeImm a.startGroupIfFull v s1 s2 hn
    show immsOf (a.startGroupIfFull.placeImm v).groups (a.startGroupIfFull.placeImm v).opCounts
        (a.startGroupIfFull.placeImm v).nextGroupIdx (a.startGroupIfFull.placeImm v).groupIdx
        = (op :: (a.startGroupIfFull.placeImm v).ops).reverse.filterMap Op.imm
    rw [mp, q3, List.reverse_cons, List.filterMap_append]
    simp only [List.filterMap_cons, himm, List.filterMap_nil]

/-- The groups of a finished batch below `numGroups` whose count is zero hold the immediates. -/
def OpBatch.ImmOk (b : OpBatch) : Prop :=
  immsOf b.groups b.opCounts b.numGroups b.numGroups = b.ops.filterMap Op.imm

theorem Acc.imm_intoBatch (a : Acc) (h : a.WF) (d : a.Dec) (m : a.Imm) (hpos : a.opIdx ≠ 0) :
    a.intoBatch.ImmOk := by
  obtain ⟨h1, h2, h3, h4, h5, h6⟩ := h
  unfold Acc.intoBatch OpBatch.ImmOk
  have e : a.group ≠ 0 ∨ a.opIdx ≠ 0 := Or.inr hpos
  simp only [e, if_true]
  show immsOf (a.groups.set a.groupIdx a.group) (a.opCounts.set a.groupIdx a.opIdx) a.nextGroupIdx a.nextGroupIdx
      = a.ops.reverse.filterMap Op.imm
  rw [← m]
  apply immsOf_congr
  intro i hi
  by_cases e : a.groupIdx = i
  · subst e
    have hset : (a.opCounts.set a.groupIdx a.opIdx).getD a.groupIdx 0 = a.opIdx := getD_set_eq _ _ _ (by omega)
    refine ⟨Or.inr (fun x => hpos (by rw [← hset]; exact x.1)), ?_⟩
    constructor
    · intro x; exact absurd (by rw [← hset]; exact x.1) hpos
    · intro x; exact absurd rfl x.2
  · refine ⟨Or.inl (getD_set_ne _ _ _ _ e), ?_⟩
    rw [getD_set_ne _ _ _ _ e]
    constructor
    · intro x; exact ⟨x.1, fun y => e y.symm⟩
    · intro x; exact ⟨x.1, by omega⟩

theorem batchLoop_imm (ops : List Op) : ∀ (acc : Acc) (done : List OpBatch), acc.WF → acc.Dec → acc.Imm →
    (acc.opIdx ≠ 0 ∨ (acc.ops = [] ∧ ∀ op, acc.canAccept op = true)) →
    (∀ b ∈ done, b.ImmOk) → ∀ b ∈ batchLoop ops acc done, b.ImmOk := by
  induction ops with
  | nil =>
    intro acc done hacc dacc macc hpos hdone b hb
    unfold batchLoop at hb
    split at hb
    · exact hdone b (by simpa using hb)
    · rename_i hne
      have hne' : acc.ops ≠ [] := by simpa using hne
      simp only [List.mem_reverse, List.mem_cons] at hb
      rcases hb with hb | hb
      · rw [hb]; exact Acc.imm_intoBatch acc hacc dacc macc (hpos.resolve_right (fun x => hne' x.1))
      · exact hdone b hb
  | cons op rest ih =>
    intro acc done hacc dacc macc hpos hdone b hb
    unfold batchLoop at hb
    split at hb
    · rename_i hc
      obtain ⟨m', p'⟩ := Acc.imm_addOp acc op hacc dacc macc hc
      exact ih _ _ (Acc.wf_addOp acc op hacc hc).1 (Acc.dec_addOp acc op hacc dacc hc) m' (Or.inl p') hdone b hb
    · obtain ⟨m', p'⟩ := Acc.imm_addOp {} op Acc.wf_init Acc.dec_init Acc.imm_init (Acc.init_accepts op)
      refine ih _ _ (Acc.wf_addOp {} op Acc.wf_init (Acc.init_accepts op)).1
        (Acc.dec_addOp {} op Acc.wf_init Acc.dec_init (Acc.init_accepts op)) m' (Or.inl p') ?_ b hb
      intro b' hb'
      rcases List.mem_cons.mp hb' with h | h
      · rw [h]
        rename_i hna
        exact Acc.imm_intoBatch acc hacc dacc macc (hpos.resolve_right (fun x => hna (x.2 op)))
      · exact hdone b' h

theorem batchOps_imm (ops : List Op) : ∀ b ∈ batchOps ops, b.ImmOk :=
  batchLoop_imm ops {} [] Acc.wf_init Acc.dec_init Acc.imm_init (Or.inr ⟨rfl, Acc.init_accepts⟩) (by intro b hb; cases hb)

end Miden
