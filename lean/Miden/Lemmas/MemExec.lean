/-
  Symbolic execution of straight-line code that uses the stack, the free-memory pointer and
  memory (no advice, no clock): `runOps ops vm` is `runM vm.ctx ops ⟨stack, fmp, mem⟩` for such
  operations (`runOps_m`), with one evaluation rule per memory operation and `rm_pure` handing the
  stack-only operations over to the `ps_*` rules of `Lemmas/Pure.lean`; memory behaves as a map
  (`Mem.read_write_same`, `Mem.read_write_ne`).
-/
import Miden.Lemmas.Pure
namespace Miden
set_option linter.unusedSimpArgs false

structure MSt where
  stack : List Nat
  fmp : Nat
  mem : Mem

/-- Operations whose effect is a function of stack, fmp and memory of the current context. -/
def Op.isMSimple (op : Op) : Bool :=
  op.isStackOnly || (match op with
    | .fmpadd | .fmpupdate | .mload | .mloadw | .mstore | .mstorew | .mstream => true
    | _ => false)

def mStep (ctx : Nat) (op : Op) (s : MSt) : Except Err MSt :=
  match Vm.stepCore { stack := s.stack, fmp := s.fmp, mem := s.mem, ctx := ctx } op with
  | .ok v => .ok ⟨v.stack, v.fmp, v.mem⟩
  | .error e => .error e

def runM (ctx : Nat) : List Op → MSt → Except Err MSt
  | [], s => .ok s
  | op :: rest, s => match mStep ctx op s with
    | .ok s' => runM ctx rest s'
    | .error e => .error e

set_option maxHeartbeats 2000000 in
theorem stepCore_m (vm : Vm) (op : Op) (h : op.isMSimple = true) :
    vm.stepCore op = match mStep vm.ctx op ⟨vm.stack, vm.fmp, vm.mem⟩ with
      | .ok s => .ok { vm with stack := s.stack, fmp := s.fmp, mem := s.mem }
      | .error e => .error e := by
  cases op
  case hperm =>
    obtain ⟨stack, clk, ctx, fmp, ins, fnh, mem, adv, paths, trace⟩ := vm
    simp only [mStep, Vm.stepCore, Vm.setStack]
    split <;> rfl
  all_goals (simp only [Op.isMSimple, Op.isStackOnly, Bool.or_eq_true] at h <;> (try (cases h <;> contradiction)) <;>
    simp only [mStep, Vm.stepCore, Vm.setStack, Vm.dup, Vm.movup, Vm.movdn, Vm.validAddr] <;>
    (repeat' split) <;> simp_all <;> (try (cases vm; simp_all)) <;> (try (subst_vars; simp_all)))

theorem step_m (vm : Vm) (op : Op) (h : op.isMSimple = true) :
    vm.step op = match mStep vm.ctx op ⟨vm.stack, vm.fmp, vm.mem⟩ with
      | .ok s => .ok { vm with stack := s.stack, fmp := s.fmp, mem := s.mem }
      | .error e => .error e := by
  unfold Vm.step
  rw [stepCore_m vm op h]
  cases mStep vm.ctx op ⟨vm.stack, vm.fmp, vm.mem⟩ <;> rfl

/-- Straight-line code over stack, fmp and memory: running it on a machine state is running it on
    the (stack, fmp, memory) triple of the current context; everything else is untouched. -/
theorem runOps_m (ops : List Op) (h : ops.all Op.isMSimple = true) (vm : Vm) :
    runOps ops vm = match runM vm.ctx ops ⟨vm.stack, vm.fmp, vm.mem⟩ with
      | .ok s => .ok { vm with stack := s.stack, fmp := s.fmp, mem := s.mem }
      | .error e => .error e := by
  induction ops generalizing vm with
  | nil => rfl
  | cons op rest ih =>
    simp only [List.all_cons, Bool.and_eq_true] at h
    simp only [runOps, runM, step_m vm op h.1]
    cases hp : mStep vm.ctx op ⟨vm.stack, vm.fmp, vm.mem⟩ with
    | error e => rfl
    | ok s => exact ih h.2 { vm with stack := s.stack, fmp := s.fmp, mem := s.mem }

/-! ### Evaluation rules -/

theorem runM_nil (ctx : Nat) (s : MSt) : runM ctx [] s = .ok s := rfl

theorem runM_cons_ok {ctx : Nat} {op : Op} {rest : List Op} {s s' : MSt} (h : mStep ctx op s = .ok s') :
    runM ctx (op :: rest) s = runM ctx rest s' := by simp [runM, h]

/-- Stack-only operations are evaluated by the `ps_*` rules. -/
theorem mStep_pure (ctx : Nat) (op : Op) (s : List Nat) (f : Nat) (m : Mem) (h : op.isStackOnly = true) :
    mStep ctx op ⟨s, f, m⟩ = (pureStep op s).map (fun s' => ⟨s', f, m⟩) := by
  have h1 := stepCore_pure { stack := s, fmp := f, mem := m, ctx := ctx } op h
  unfold mStep
  rw [h1]
  simp only
  cases pureStep op s <;> rfl

theorem rm_pure (ctx : Nat) (op : Op) (rest : List Op) (s : List Nat) (f : Nat) (m : Mem)
    (h : op.isStackOnly = true) :
    runM ctx (op :: rest) ⟨s, f, m⟩ = (pureStep op s).bind (fun s' => runM ctx rest ⟨s', f, m⟩) := by
  simp only [runM, mStep_pure ctx op s f m h]
  cases pureStep op s <;> rfl

theorem rm_fmpadd (ctx a : Nat) (r : List Nat) (f : Nat) (m : Mem) (rest : List Op) :
    runM ctx (.fmpadd :: rest) ⟨a :: r, f, m⟩ = runM ctx rest ⟨fadd f a :: r, f, m⟩ :=
  runM_cons_ok (by simp [mStep, Vm.stepCore, Vm.setStack])

theorem rm_fmpupdate (ctx a : Nat) (r : List Nat) (f : Nat) (m : Mem) (rest : List Op)
    (h1 : FMP_MIN ≤ fadd f a) (h2 : fadd f a ≤ FMP_MAX) :
    runM ctx (.fmpupdate :: rest) ⟨a :: r, f, m⟩ = runM ctx rest ⟨padN 16 r, fadd f a, m⟩ :=
  runM_cons_ok (by
    have : ¬ (fadd f a < FMP_MIN ∨ fadd f a > FMP_MAX) := by omega
    simp [mStep, Vm.stepCore, this, pad16_eq])

theorem rm_mstorew (ctx a s1 s2 s3 s4 : Nat) (r : List Nat) (f : Nat) (m : Mem) (rest : List Op)
    (h : a ≤ u32max) :
    runM ctx (.mstorew :: rest) ⟨a :: s1 :: s2 :: s3 :: s4 :: r, f, m⟩
      = runM ctx rest ⟨padN 16 (s1 :: s2 :: s3 :: s4 :: r), f, m.write ctx a ⟨s4, s3, s2, s1⟩⟩ :=
  runM_cons_ok (by
    have : ¬ (a > u32max) := by omega
    simp [mStep, Vm.stepCore, Vm.validAddr, this, pad16_eq])

theorem rm_mloadw (ctx a x1 x2 x3 x4 : Nat) (r : List Nat) (f : Nat) (m : Mem) (rest : List Op)
    (h : a ≤ u32max) :
    runM ctx (.mloadw :: rest) ⟨a :: x1 :: x2 :: x3 :: x4 :: r, f, m⟩
      = runM ctx rest ⟨padN 16 ((m.read ctx a).w3 :: (m.read ctx a).w2 :: (m.read ctx a).w1 :: (m.read ctx a).w0 :: r), f, m⟩ :=
  runM_cons_ok (by
    have : ¬ (a > u32max) := by omega
    simp [mStep, Vm.stepCore, Vm.validAddr, Vm.setStack, this, pad16_eq])

/-! ### Memory as a map -/

theorem Mem.read_write_same (m : Mem) (ctx a : Nat) (w : Word) : (m.write ctx a w).read ctx a = w := by
  simp [Mem.read, Mem.write, List.lookup]

theorem Mem.read_write_ne (m : Mem) (ctx a b : Nat) (w : Word) (h : a ≠ b) :
    (m.write ctx a w).read ctx b = m.read ctx b := by
  have : ((ctx, b) == (ctx, a)) = false := by simp; omega
  simp [Mem.read, Mem.write, List.lookup, this]


end Miden
