/-
  Invariants of block execution that need the per-operation lemmas: minimum stack depth,
  call frames.
-/
import Miden.Lemmas.Exec
import Miden.Lemmas.Step
namespace Miden
namespace Vm

theorem tick_stack {env : Env} {vm vm' : Vm} {row : Op} (h : vm.tick env row = .ok vm') :
    vm'.stack = vm.stack := (tick_ok h).2.2.2.1

theorem execRow_len {env : Env} {vm vm' : Vm} {op row : Op} (hl : 16 ≤ vm.stack.length)
    (h : vm.execRow env op row = .ok vm') : 16 ≤ vm'.stack.length := by
  unfold execRow at h
  split at h
  · cases h
  · rename_i v hs
    rw [tick_stack h]
    exact step_len hl hs

/-- A NOOP row (block start / END / RESPAN) changes only the clock and the trace. -/
theorem execRow_noop {env : Env} {vm vm' : Vm} {row : Op} (h : vm.execRow env .noop row = .ok vm') :
    vm' = { vm with clk := vm.clk + 1, trace := row :: vm.trace } := by
  unfold execRow at h
  rw [step_noop] at h
  simp only [tick] at h
  split at h
  · cases h
  · cases h; rfl

theorem execOps_len {env : Env} : ∀ (rows : List Op) {vm vm' : Vm}, 16 ≤ vm.stack.length →
    execOps env rows vm = .ok vm' → 16 ≤ vm'.stack.length
  | [], vm, vm', hl, h => by unfold execOps at h; cases h; exact hl
  | op :: rest, vm, vm', hl, h => by
    unfold execOps at h
    simp only at h
    split at h
    · cases h
    · rename_i v hr
      have : 16 ≤ v.stack.length := by
        by_cases e : op = Op.respan
        · simp only [e, if_true] at hr; exact execRow_len hl hr
        · simp only [e, if_false] at hr; exact execRow_len hl hr
      exact execOps_len rest this h

/-- The visible stack never gets shallower than 16 elements, whatever is executed. -/
theorem exec_len_all (env : Env) : ∀ fuel : Nat,
    (∀ b vm vm', 16 ≤ vm.stack.length → exec env fuel b vm = .ok vm' → 16 ≤ vm'.stack.length) ∧
    (∀ vm vm', 16 ≤ vm.stack.length → execDyn env fuel vm = .ok vm' → 16 ≤ vm'.stack.length) ∧
    (∀ body vm vm', 16 ≤ vm.stack.length → loopIter env fuel body vm = .ok vm' →
      16 ≤ vm'.stack.length) := by
  intro fuel
  induction fuel with
  | zero =>
    refine ⟨?_, ?_, ?_⟩
    · intro b vm vm' _ h; simp [exec] at h
    · intro vm vm' _ h; simp [execDyn] at h
    · intro b vm vm' _ h; simp [loopIter] at h
  | succ n ih =>
    obtain ⟨ihE, ihD, ihL⟩ := ih
    refine ⟨?_, ?_, ?_⟩
    · intro b vm vm' hl h
      cases b with
      | span ops =>
        simp only [exec] at h
        split at h
        · cases h
        · rename_i v1 h1
          split at h
          · cases h
          · rename_i v2 h2
            exact execRow_len (execOps_len _ (execRow_len hl h1) h2) h
      | join a b =>
        simp only [exec] at h
        split at h
        · cases h
        · rename_i v1 h1
          split at h
          · cases h
          · rename_i v2 h2
            split at h
            · cases h
            · rename_i v3 h3
              exact execRow_len (ihE _ _ _ (ihE _ _ _ (execRow_len hl h1) h2) h3) h
      | split t f =>
        simp only [exec] at h
        split at h
        · cases h
        · rename_i v1 h1
          split at h
          · split at h
            · cases h
            · rename_i v2 h2
              exact execRow_len (ihE _ _ _ (execRow_len hl h1) h2) h
          · split at h
            · split at h
              · cases h
              · rename_i v2 h2
                exact execRow_len (ihE _ _ _ (execRow_len hl h1) h2) h
            · cases h
      | loop body =>
        simp only [exec] at h
        split at h
        · cases h
        · rename_i v1 h1
          split at h
          · split at h
            · cases h
            · rename_i v2 h2
              exact ihL _ _ _ (ihE _ _ _ (execRow_len hl h1) h2) h
          · split at h
            · exact execRow_len (execRow_len hl h1) h
            · cases h
      | call target isSyscall =>
        simp only [exec] at h
        split at h
        · cases h
        · split at h
          · cases h
          · rename_i v1 h1
            split at h
            · cases h
            · rename_i v2 h2
              split at h
              · cases h
              · refine execRow_len ?_ h
                have l1 : 16 ≤ v1.stack.length := by
                  refine execRow_len ?_ h1
                  split <;> simp <;> omega
                have l2 : 16 ≤ v2.stack.length := by
                  split at h2
                  · exact ihD _ _ l1 h2
                  · split at h2
                    · cases h2
                    · exact ihE _ _ _ l1 h2
                simp only [List.length_append]
                omega
      | dyn =>
        simp only [exec] at h
        exact ihD _ _ hl h
      | proxy t => simp [exec] at h
    · intro vm vm' hl h
      simp only [execDyn] at h
      split at h
      · split at h
        · cases h
        · rename_i v1 h1
          split at h
          · cases h
          · split at h
            · cases h
            · rename_i v2 h2
              exact execRow_len (ihE _ _ _ (execRow_len hl h1) h2) h
      · cases h
    · intro body vm vm' hl h
      simp only [loopIter] at h
      split at h
      · split at h
        · cases h
        · rename_i v1 h1
          split at h
          · cases h
          · rename_i v2 h2
            exact ihL _ _ _ (ihE _ _ _ (execRow_len hl h1) h2) h
      · split at h
        · exact execRow_len hl h
        · cases h

theorem exec_len {env : Env} {fuel : Nat} {b : Block} {vm vm' : Vm} (hl : 16 ≤ vm.stack.length)
    (h : exec env fuel b vm = .ok vm') : 16 ≤ vm'.stack.length :=
  (exec_len_all env fuel).1 b vm vm' hl h

end Vm
end Miden
