/-
  Depth transition of every operation (the honest side of the AIR's stack-depth constraint).
-/
import Miden.Lemmas.Step
namespace Miden
namespace Vm

/-- Shift class of an operation as the AIR's composite flags define it. -/
def isLeft (op : Op) : Bool := (32 ≤ op.code && op.code ≤ 47) || op.code = 76 || op.code = 78
def isRight (op : Op) : Bool := (48 ≤ op.code && op.code ≤ 63) || op.code = 72 || op.code = 100

theorem pad16_len_eq (l : List Nat) : (pad16 l).length = max 16 l.length := by
  unfold pad16; simp; omega

theorem stepCore_depth {vm r : Vm} {op : Op} (hl : 16 ≤ vm.stack.length)
    (h : vm.stepCore op = .ok r) :
    r.stack.length = (if isRight op then vm.stack.length + 1
                      else if isLeft op then max 16 (vm.stack.length - 1) else vm.stack.length) := by
  cases op <;> simp only [stepCore, dup, movup, movdn, validAddr] at h <;>
    (repeat' (split at h)) <;> (try cases h) <;>
    (try simp only [setStack]) <;>
    (try (first
      | (simp_all [isLeft, isRight, Op.code, pad16_len_eq, insertAt_len, List.length_eraseIdx, permute_len] <;> omega)
      | (simp only [isLeft, isRight, Op.code, List.length_cons, List.length_eraseIdx]; simp; split <;> omega)))
end Vm
end Miden
