/-
  Variants of the honest-row tactic for operations that can fail.
-/
import Miden.Lemmas.HonestAir

namespace Miden.C03
open Miden Miden.Air Miden.Vm

set_option hygiene false in
/-- Like `honest_tac`, for operations that can fail: the failing branches contradict `h`. -/
macro "honest_tac_split" : tactic => `(tactic| (
  intro b1 b1' h0 h0' opn hlpn hh hb
  obtain ⟨x0, x1, x2, x3, x4, x5, x6, x7, x8, x9, x10, x11, x12, x13, x14, x15, t, hs⟩ := split16 _ hl
  simp only [step, stepCore, dup, movup, movdn, validAddr, hs] at h
  (repeat' (split at h)) <;> cases h <;>
  (rcases t with _ | ⟨t0, t⟩) <;> honest_simp <;> honest_close))


set_option hygiene false in
/-- `honest_simp` with additional rewrite rules. -/
macro "honest_simp_with" "[" ls:Lean.Parser.Tactic.simpLemma,* "]" : tactic => `(tactic| (
  simp [Holds, stackConstraints, overflowCs, systemCs, fieldCs, manipCs, u32Cs, ioCs, generalCs,
    rowWith, Row.st, Row.hp, Row.is, Row.inR, Op.code, c, helpersOf, pad16, setStack, isRight,
    noShift, leftShift, rightShift, leftShiftAny, rightShiftAny, topBinary, Row.overflow, bnot, isBinary,
    Row.isLoopEnd, Row.isCallEnd, Row.isSyscallEnd, List.range, List.range.loop,
    cast_fadd, cast_fmul, cast_fneg, cast_fsub, hs, H0ok, insertAt, $ls,*] at hh hb ⊢))

/-- Canonical stack: every element is a canonical residue. -/
def Canon (vm : Vm) : Prop := ∀ x ∈ vm.stack, x < P

end Miden.C03
