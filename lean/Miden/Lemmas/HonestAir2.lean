/-
  Variants of the honest-row tactic for operations that can fail.
-/
import Miden.Lemmas.HonestAir

namespace Miden.C03
open Miden Miden.Air Miden.Vm

/-- A successful step is a successful `stepCore` whose result keeps the clock and the row log. -/
theorem step_ok {vm vm' : Vm} {op : Op} (h : vm.step op = .ok vm') :
    ∃ r, vm.stepCore op = .ok r ∧ vm' = { r with clk := vm.clk, trace := vm.trace } := by
  unfold step at h
  split at h
  · cases h
  · rename_i r hr
    cases h
    exact ⟨r, hr, rfl⟩

set_option hygiene false in
/-- Like `honest_tac`, for operations that can fail: the failing branches contradict `h`. -/
macro "honest_tac_split" : tactic => `(tactic| (
  intro b1 b1' h0 h0' opn hlpn hh hb
  obtain ⟨x0, x1, x2, x3, x4, x5, x6, x7, x8, x9, x10, x11, x12, x13, x14, x15, t, hs⟩ := split16 _ hl
  obtain ⟨r, hcore, rfl⟩ := step_ok h
  simp only [stepCore, dup, movup, movdn, validAddr, hs] at hcore
  (repeat' (split at hcore)) <;> cases hcore <;> (try subst_vars) <;>
  (rcases t with _ | ⟨t0, t⟩) <;> honest_simp <;> honest_close))

set_option hygiene false in
/-- Memory operations: the address operand `a` must be a valid address, otherwise the step fails. -/
macro "honest_tac_addr" a:ident : tactic => `(tactic| (
  intro b1 b1' h0 h0' opn hlpn hh hb
  obtain ⟨x0, x1, x2, x3, x4, x5, x6, x7, x8, x9, x10, x11, x12, x13, x14, x15, t, hs⟩ := split16 _ hl
  obtain ⟨r, hcore, rfl⟩ := step_ok h
  simp only [stepCore, validAddr, hs] at hcore
  by_cases ha : $a > u32max
  · simp [ha] at hcore
  · simp only [ha, if_false] at hcore
    (repeat' (split at hcore)) <;> cases hcore <;> (try subst_vars) <;>
    (rcases t with _ | ⟨t0, t⟩) <;> honest_simp <;> honest_close))

set_option hygiene false in
/-- Common prefix of the hand-written proofs: name the 16 visible cells and expose `stepCore`. -/
macro "honest_intro" : tactic => `(tactic| (
  intro b1 b1' h0 h0' opn hlpn hh hb
  obtain ⟨x0, x1, x2, x3, x4, x5, x6, x7, x8, x9, x10, x11, x12, x13, x14, x15, t, hs⟩ := split16 _ hl
  obtain ⟨r, hcore, rfl⟩ := step_ok h
  simp only [stepCore, hs] at hcore))

set_option hygiene false in
/-- `honest_simp` with additional rewrite rules. -/
macro "honest_simp_with" "[" ls:Lean.Parser.Tactic.simpLemma,* "]" : tactic => `(tactic| (
  simp [Holds, stackConstraints, overflowCs, systemCs, fieldCs, manipCs, u32Cs, ioCs, generalCs,
    rowWith, Row.st, Row.hp, Row.is, Row.inR, Op.code, c, helpersOf, pad16, setStack, isRight,
    noShift, leftShift, rightShift, leftShiftAny, rightShiftAny, topBinary, Row.overflow, bnot, isBinary,
    Row.isLoopEnd, Row.isCallEnd, Row.isSyscallEnd, List.range, List.range.loop,
    cast_fadd, cast_fmul, cast_fneg, cast_fsub, hs, H0ok, insertAt, $ls,*] at hh hb ⊢))

/-- Canonical stack: every element is a canonical residue. -/
def Canon (vm : Vm) : Prop := ∀ x ∈ vm.stack, x < P

end Miden.C03
