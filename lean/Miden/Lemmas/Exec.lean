/-
  Clock / trace bookkeeping of the executor (`Miden.Model.Exec`).
-/
import Miden.Model.Exec
namespace Miden
namespace Vm

/-- `b` is reached from `a` by appending rows `l` (newest first), one clock cycle per row. -/
def Adv (a b : Vm) : Prop := ∃ l : List Op, b.trace = l ++ a.trace ∧ b.clk = a.clk + l.length

theorem Adv.refl (a : Vm) : Adv a a := ⟨[], by simp, by simp⟩

theorem Adv.trans {a b c : Vm} (h1 : Adv a b) (h2 : Adv b c) : Adv a c := by
  obtain ⟨l1, t1, c1⟩ := h1
  obtain ⟨l2, t2, c2⟩ := h2
  exact ⟨l2 ++ l1, by rw [t2, t1, List.append_assoc], by rw [c2, c1, List.length_append]; omega⟩

theorem Adv.of_eq {a a' b : Vm} (hc : a'.clk = a.clk) (ht : a'.trace = a.trace) (h : Adv a' b) :
    Adv a b := by
  obtain ⟨l, t, c⟩ := h
  exact ⟨l, by rw [t, ht], by rw [c, hc]⟩

theorem Adv.clk_le {a b : Vm} (h : Adv a b) : a.clk ≤ b.clk := by
  obtain ⟨l, _, c⟩ := h; omega

theorem step_clk {vm vm' : Vm} {op : Op} (h : vm.step op = .ok vm') :
    vm'.clk = vm.clk ∧ vm'.trace = vm.trace := by
  unfold step at h
  split at h
  · cases h
  · cases h; exact ⟨rfl, rfl⟩

theorem tick_ok {env : Env} {vm vm' : Vm} {row : Op} (h : vm.tick env row = .ok vm') :
    vm'.clk = vm.clk + 1 ∧ vm'.trace = row :: vm.trace ∧ vm'.clk ≤ env.maxCycles ∧
    vm'.stack = vm.stack ∧ vm'.mem = vm.mem ∧ vm'.ctx = vm.ctx ∧ vm'.fmp = vm.fmp := by
  unfold tick at h
  simp only at h
  split at h
  · cases h
  · cases h
    refine ⟨rfl, rfl, ?_, rfl, rfl, rfl, rfl⟩
    show vm.clk + 1 ≤ env.maxCycles
    omega

/-- The clock check is exact: a row is refused exactly when it would be row number `max + 1`. -/
theorem tick_err_iff (env : Env) (vm : Vm) (row : Op) :
    (∃ e, vm.tick env row = .error e) ↔ env.maxCycles < vm.clk + 1 := by
  unfold tick
  simp only
  constructor
  · intro ⟨e, h⟩
    split at h
    · assumption
    · cases h
  · intro h
    exact ⟨.cycleLimit env.maxCycles, by simp [h]⟩

theorem tick_err {env : Env} {vm : Vm} {row : Op} {e : Err} (h : vm.tick env row = .error e) :
    e = .cycleLimit env.maxCycles ∧ env.maxCycles < vm.clk + 1 := by
  unfold tick at h
  simp only at h
  split at h
  · cases h; exact ⟨rfl, by assumption⟩
  · cases h

theorem execRow_ok {env : Env} {vm vm' : Vm} {op row : Op} (h : vm.execRow env op row = .ok vm') :
    vm'.clk = vm.clk + 1 ∧ vm'.trace = row :: vm.trace ∧ vm'.clk ≤ env.maxCycles := by
  unfold execRow at h
  split at h
  · cases h
  · rename_i v hs
    obtain ⟨c, t⟩ := step_clk hs
    obtain ⟨c', t', b, _⟩ := tick_ok h
    exact ⟨by rw [c', c], by rw [t', t], b⟩

theorem execRow_adv {env : Env} {vm vm' : Vm} {op row : Op} (h : vm.execRow env op row = .ok vm') :
    Adv vm vm' ∧ vm'.clk ≤ env.maxCycles ∧ vm.clk < vm'.clk := by
  obtain ⟨c, t, b⟩ := execRow_ok h
  exact ⟨⟨[row], by simp [t], by simp [c]⟩, b, by omega⟩

theorem execOps_adv {env : Env} : ∀ (rows : List Op) {vm vm' : Vm},
    execOps env rows vm = .ok vm' →
    vm'.trace = rows.reverse ++ vm.trace ∧ vm'.clk = vm.clk + rows.length
  | [], vm, vm', h => by
    unfold execOps at h; cases h; simp
  | op :: rest, vm, vm', h => by
    unfold execOps at h
    simp only at h
    split at h
    · cases h
    · rename_i v hr
      have hrow : v.clk = vm.clk + 1 ∧ v.trace = op :: vm.trace := by
        by_cases e : op = Op.respan
        · simp only [e, if_true] at hr
          obtain ⟨c, t, _⟩ := execRow_ok hr
          exact ⟨c, by rw [t, e]⟩
        · simp only [e, if_false] at hr
          obtain ⟨c, t, _⟩ := execRow_ok hr
          exact ⟨c, t⟩
      obtain ⟨t2, c2⟩ := execOps_adv rest h
      refine ⟨by rw [t2, hrow.2]; simp, by rw [c2, hrow.1]; simp; omega⟩

/-- Progress relation: rows were appended, at least one, and the clock check passed. -/
def Prog (env : Env) (a b : Vm) : Prop := Adv a b ∧ b.clk ≤ env.maxCycles ∧ a.clk < b.clk

theorem Prog.trans {env : Env} {a b c : Vm} (h1 : Prog env a b) (h2 : Prog env b c) : Prog env a c :=
  ⟨h1.1.trans h2.1, h2.2.1, by have := h1.2.2; have := h2.2.2; omega⟩

theorem Prog.of_row {env : Env} {vm vm' : Vm} {op row : Op} (h : vm.execRow env op row = .ok vm') :
    Prog env vm vm' := execRow_adv h

theorem Prog.of_eq {env : Env} {a a' b : Vm} (hc : a'.clk = a.clk) (ht : a'.trace = a.trace)
    (h : Prog env a' b) : Prog env a b :=
  ⟨Adv.of_eq hc ht h.1, h.2.1, by rw [← hc]; exact h.2.2⟩

theorem Prog.to_eq {env : Env} {a b b' : Vm} (hc : b'.clk = b.clk) (ht : b'.trace = b.trace)
    (h : Prog env a b) : Prog env a b' := by
  obtain ⟨⟨l, t, c⟩, h2, h3⟩ := h
  exact ⟨⟨l, by rw [ht, t], by rw [hc, c]⟩, by rw [hc]; exact h2, by rw [hc]; exact h3⟩

theorem exec_prog_all (env : Env) : ∀ fuel : Nat,
    (∀ b vm vm', exec env fuel b vm = .ok vm' → Prog env vm vm') ∧
    (∀ vm vm', execDyn env fuel vm = .ok vm' → Prog env vm vm') ∧
    (∀ body vm vm', loopIter env fuel body vm = .ok vm' → Prog env vm vm') := by
  intro fuel
  induction fuel with
  | zero =>
    refine ⟨?_, ?_, ?_⟩
    · intro b vm vm' h; simp [exec] at h
    · intro vm vm' h; simp [execDyn] at h
    · intro b vm vm' h; simp [loopIter] at h
  | succ n ih =>
    obtain ⟨ihE, ihD, ihL⟩ := ih
    refine ⟨?_, ?_, ?_⟩
    · intro b vm vm' h
      cases b with
      | span ops =>
        simp only [exec] at h
        split at h
        · cases h
        · rename_i v1 h1
          split at h
          · cases h
          · rename_i v2 h2
            obtain ⟨t, c⟩ := execOps_adv _ h2
            have p1 := Prog.of_row h1
            have p3 := Prog.of_row h
            have p2 : Adv v1 v2 := ⟨_, t, by rw [c]; simp⟩
            exact ⟨p1.1.trans (p2.trans p3.1), p3.2.1, by have := p1.2.2; have := p2.clk_le; have := p3.2.2; omega⟩
      | join a b =>
        simp only [exec] at h
        split at h
        · cases h
        · rename_i v1 h1
          split at h
          · cases h
          · rename_i v2 h2
            split at h
            · cases h
            · rename_i v3 h3
              exact (Prog.of_row h1).trans ((ihE _ _ _ h2).trans ((ihE _ _ _ h3).trans (Prog.of_row h)))
      | split t f =>
        simp only [exec] at h
        split at h
        · cases h
        · rename_i v1 h1
          split at h
          · split at h
            · cases h
            · rename_i v2 h2
              exact (Prog.of_row h1).trans ((ihE _ _ _ h2).trans (Prog.of_row h))
          · split at h
            · split at h
              · cases h
              · rename_i v2 h2
                exact (Prog.of_row h1).trans ((ihE _ _ _ h2).trans (Prog.of_row h))
            · cases h
      | loop body =>
        simp only [exec] at h
        split at h
        · cases h
        · rename_i v1 h1
          split at h
          · split at h
            · cases h
            · rename_i v2 h2
              exact (Prog.of_row h1).trans ((ihE _ _ _ h2).trans (ihL _ _ _ h))
          · split at h
            · exact (Prog.of_row h1).trans (Prog.of_row h)
            · cases h
      | call target isSyscall =>
        simp only [exec] at h
        split at h
        · cases h
        · split at h
          · cases h
          · rename_i v1 h1
            split at h
            · cases h
            · rename_i v2 h2
              split at h
              · cases h
              · have p1 := Prog.of_row h1
                have p3 := Prog.of_row h
                have p2 : Prog env v1 v2 := by
                  split at h2
                  · exact ihD _ _ h2
                  · split at h2
                    · cases h2
                    · exact ihE _ _ _ h2
                refine Prog.trans (Prog.of_eq ?_ ?_ p1) (Prog.trans p2 (Prog.of_eq ?_ ?_ p3))
                all_goals (first | rfl | (split <;> rfl))
      | dyn =>
        simp only [exec] at h
        exact ihD _ _ h
      | proxy t => simp [exec] at h
    · intro vm vm' h
      simp only [execDyn] at h
      split at h
      · split at h
        · cases h
        · rename_i v1 h1
          split at h
          · cases h
          · split at h
            · cases h
            · rename_i v2 h2
              exact (Prog.of_row h1).trans ((ihE _ _ _ h2).trans (Prog.of_row h))
      · cases h
    · intro body vm vm' h
      simp only [loopIter] at h
      split at h
      · split at h
        · cases h
        · rename_i v1 h1
          split at h
          · cases h
          · rename_i v2 h2
            exact (Prog.of_row h1).trans ((ihE _ _ _ h2).trans (ihL _ _ _ h))
      · split at h
        · exact Prog.of_row h
        · cases h

theorem exec_prog {env : Env} {fuel : Nat} {b : Block} {vm vm' : Vm}
    (h : exec env fuel b vm = .ok vm') : Prog env vm vm' := (exec_prog_all env fuel).1 b vm vm' h

end Vm
end Miden
