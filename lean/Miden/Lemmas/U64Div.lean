/-
  Soundness of std::math::u64::div / mod / divmod for EVERY advice tape: `advpop` is replaced by a push
  of the next tape element (`stackRun_subst`), the stack-only symbolic executor runs the code up to
  each assertion, inversion lemmas turn a completed run into the asserted conditions, and the
  arithmetic (limb products as atoms) shows that they force quotient and remainder.
-/
import Miden.Lemmas.U64Tac
import Miden.Lemmas.U64Pure
import Mathlib.Tactic.Ring
namespace Miden.U64Div
open Miden
set_option linter.unusedSimpArgs false
set_option linter.unusedVariables false

/-- Replace every `advpop` by a push of the next advice element (`none` when the tape runs out). -/
def substAdv : List Op → List Nat → Option (List Op)
  | [], _ => some []
  | .advpop :: rest, x :: xs => (substAdv rest xs).map (Op.push x :: ·)
  | .advpop :: _, [] => none
  | op :: rest, xs => (substAdv rest xs).map (op :: ·)

/-- All operations other than `advpop` depend on the operand stack alone. -/
def advOnly (ops : List Op) : Bool := ops.all (fun o => o == .advpop || o.isStackOnly)

theorem substAdv_cons_ne (op : Op) (rest : List Op) (xs : List Nat) (h : op ≠ .advpop) :
    substAdv (op :: rest) xs = (substAdv rest xs).map (op :: ·) := by
  cases op <;> first | rfl | exact absurd rfl h

theorem step_advpop (vm : Vm) (x : Nat) (xs : List Nat) (h : vm.adv = x :: xs) :
    vm.step .advpop = .ok { vm with adv := xs, stack := x :: vm.stack } := by
  simp [Vm.step, Vm.stepCore, h]

theorem stackRun_subst (ops : List Op) (h : advOnly ops = true) : ∀ (vm : Vm) (ops' : List Op),
    substAdv ops vm.adv = some ops' → stackRun ops vm = runPure ops' vm.stack := by
  induction ops with
  | nil => intro vm ops' hs; simp only [substAdv, Option.some.injEq] at hs; subst hs; rfl
  | cons op rest ih =>
    intro vm ops' hs
    simp only [advOnly, List.all_cons, Bool.and_eq_true] at h
    have hrest : advOnly rest = true := h.2
    by_cases ha : op = .advpop
    · subst ha
      cases hadv : vm.adv with
      | nil => rw [hadv] at hs; simp [substAdv] at hs
      | cons x xs =>
        rw [hadv] at hs
        simp only [substAdv, Option.map_eq_some_iff] at hs
        obtain ⟨l, hl, rfl⟩ := hs
        have := ih hrest { vm with adv := xs, stack := x :: vm.stack } l (by simpa using hl)
        simp only [stackRun, runOps, step_advpop vm x xs hadv] at this ⊢
        rw [this]
        simp [runPure, ps_push]
    · have hp : op.isStackOnly = true := by
        have := h.1
        simp only [Bool.or_eq_true, beq_iff_eq] at this
        rcases this with h1 | h1
        · exact absurd h1 ha
        · exact h1
      have hs' : ∃ l, substAdv rest vm.adv = some l ∧ ops' = op :: l := by
        rw [substAdv_cons_ne op rest vm.adv ha, Option.map_eq_some_iff] at hs
        obtain ⟨a, h1, h2⟩ := hs
        exact ⟨a, h1, h2.symm⟩
      obtain ⟨l, hl, rfl⟩ := hs'
      simp only [stackRun, runOps, runPure, step_pure vm op hp]
      cases hps : pureStep op vm.stack with
      | error e => rfl
      | ok s =>
        have := ih hrest { vm with stack := s } l hl
        simp only [stackRun] at this
        exact this


theorem assert_inv {c x : Nat} {s out : List Nat} {rest : List Op}
    (h : runPure (.assert c :: rest) (x :: s) = .ok out) : x = 1 ∧ runPure rest (padN 16 s) = .ok out := by
  by_cases hx : x = 1
  · refine ⟨hx, ?_⟩
    rwa [runPure_cons_ok (ps_assert x c s hx)] at h
  · exfalso
    simp [runPure, pureStep, Vm.stepCore, hx] at h

theorem u32assert2_inv {c x0 x1 : Nat} {s out : List Nat} {rest : List Op}
    (h : runPure (.u32assert2 c :: rest) (x0 :: x1 :: s) = .ok out) :
    x0 < two32 ∧ x1 < two32 ∧ runPure rest (x0 :: x1 :: s) = .ok out := by
  by_cases h0 : x0 < two32
  · by_cases h1 : x1 < two32
    · refine ⟨h0, h1, ?_⟩
      rwa [runPure_cons_ok (ps_u32assert2 x0 x1 c s h0 h1)] at h
    · exfalso
      simp [runPure, pureStep, Vm.stepCore, Nat.not_le.mpr h0, Nat.le_of_not_lt h1] at h
  · exfalso
    simp [runPure, pureStep, Vm.stepCore, Nat.le_of_not_lt h0] at h

theorem of_ite {X : Prop} [Decidable X] (h : (if X then 1 else 0) = 1) : X := by
  by_cases hx : X
  · exact hx
  · rw [if_neg hx] at h; exact absurd h (by decide)

theorem small_mod (t : Nat) (ht : t < 18446744069414584321) : t % 18446744073709551616 % 18446744069414584321 = t := by
  omega
theorem small_modP (t : Nat) (ht : t < 18446744069414584321) : t % 18446744069414584321 = t := Nat.mod_eq_of_lt ht

/-- The arithmetic content of the checks `u64::div/mod/divmod` perform on the hinted quotient
    `(x1, x0)` and remainder `(x3, x2)`; the limb products are atoms. -/
theorem div_arith (p0 p1 p2 p3 x0 x1 x2 x3 bh bl ah al : Nat)
    (b0 : p0 ≤ 4294967295 * 4294967295) (b1 : p1 ≤ 4294967295 * 4294967295) (b2 : p2 ≤ 4294967295 * 4294967295)
    (b3 : p3 ≤ 4294967295 * 4294967295)
    (hx0 : x0 < 4294967296) (hx1 : x1 < 4294967296) (hx2 : x2 < 4294967296) (hx3 : x3 < 4294967296)
    (hbh : bh < 4294967296) (hbl : bl < 4294967296) (hah : ah < 4294967296) (hal : al < 4294967296)
    (c1 : (p1 + p0 / 4294967296) / 4294967296 = 0)
    (c2 : (p2 + (p1 + p0 / 4294967296) % 4294967296) / 4294967296 = 0)
    (c3 : p3 = 0)
    (c4 : x3 < bh ∨ (x2 < bl ∧ x3 = bh))
    (c5 : ((x2 + p0 % 4294967296) / 4294967296 + (p2 + (p1 + p0 / 4294967296) % 4294967296) % 4294967296 + x3) / 4294967296 = 0)
    (c6 : ((x2 + p0 % 4294967296) / 4294967296 + (p2 + (p1 + p0 / 4294967296) % 4294967296) % 4294967296 + x3) % 4294967296 = ah)
    (c7 : (x2 + p0 % 4294967296) % 4294967296 = al) :
    (x3 * 4294967296 + x2) + (p3 * 18446744073709551616 + (p2 + p1) * 4294967296 + p0) = ah * 4294967296 + al ∧
      x3 * 4294967296 + x2 < bh * 4294967296 + bl := by
  subst c3
  constructor
  · omega
  · omega

theorem bnd_a (p0 p1 : Nat) (b1 : p1 ≤ 4294967295 * 4294967295) (b0 : p0 ≤ 4294967295 * 4294967295) :
    p1 + p0 / 4294967296 < 18446744069414584321 := by omega
theorem bnd_b (p2 t : Nat) (b2 : p2 ≤ 4294967295 * 4294967295) : p2 + t % 4294967296 < 18446744069414584321 := by omega
theorem bnd_c (x2 p0 : Nat) (hx2 : x2 < 4294967296) : x2 + p0 % 4294967296 < 18446744069414584321 := by omega
theorem bnd_d (x2 p0 t x3 : Nat) (hx2 : x2 < 4294967296) (hx3 : x3 < 4294967296) :
    (x2 + p0 % 4294967296) / 4294967296 + t % 4294967296 + x3 < 18446744069414584321 := by omega
theorem bnd_e (p : Nat) (b : p ≤ 4294967295 * 4294967295) : p < 18446744069414584321 := by omega

theorem div_arith_raw (p0 p1 p2 p3 x0 x1 x2 x3 bh bl ah al : Nat)
    (b0 : p0 ≤ 4294967295 * 4294967295) (b1 : p1 ≤ 4294967295 * 4294967295) (b2 : p2 ≤ 4294967295 * 4294967295)
    (b3 : p3 ≤ 4294967295 * 4294967295)
    (hx0 : x0 < 4294967296) (hx1 : x1 < 4294967296) (hx2 : x2 < 4294967296) (hx3 : x3 < 4294967296)
    (hbh : bh < 4294967296) (hbl : bl < 4294967296) (hah : ah < 4294967296) (hal : al < 4294967296)
    (d1 : (p1 + p0 % 18446744073709551616 % 18446744069414584321 / 4294967296) % 18446744073709551616 % 18446744069414584321 / 4294967296 = 0)
    (d2 : (p2 + (p1 + p0 % 18446744073709551616 % 18446744069414584321 / 4294967296) % 18446744073709551616 % 18446744069414584321 % 4294967296) % 18446744073709551616 % 18446744069414584321 / 4294967296 = 0)
    (d3 : p3 % 18446744069414584321 = 0)
    (d4 : x3 < bh ∨ (x2 < bl ∧ x3 = bh))
    (d5 : ((x2 + p0 % 18446744073709551616 % 18446744069414584321 % 4294967296) % 18446744069414584321 / 4294967296 + (p2 + (p1 + p0 % 18446744073709551616 % 18446744069414584321 / 4294967296) % 18446744073709551616 % 18446744069414584321 % 4294967296) % 18446744073709551616 % 18446744069414584321 % 4294967296 + x3) % 18446744073709551616 % 18446744069414584321 / 4294967296 = 0)
    (d6 : ((x2 + p0 % 18446744073709551616 % 18446744069414584321 % 4294967296) % 18446744069414584321 / 4294967296 + (p2 + (p1 + p0 % 18446744073709551616 % 18446744069414584321 / 4294967296) % 18446744073709551616 % 18446744069414584321 % 4294967296) % 18446744073709551616 % 18446744069414584321 % 4294967296 + x3) % 18446744073709551616 % 18446744069414584321 % 4294967296 = ah)
    (d7 : (x2 + p0 % 18446744073709551616 % 18446744069414584321 % 4294967296) % 18446744069414584321 % 4294967296 = al) :
    (x3 * 4294967296 + x2) + (p3 * 18446744073709551616 + (p2 + p1) * 4294967296 + p0) = ah * 4294967296 + al ∧
      x3 * 4294967296 + x2 < bh * 4294967296 + bl := by
  have q0 := small_mod p0 (bnd_e p0 b0)
  rw [q0] at d1 d2 d5 d6 d7
  have q1 := small_mod (p1 + p0 / 4294967296) (bnd_a p0 p1 b1 b0)
  rw [q1] at d1 d2 d5 d6
  have q2 := small_mod (p2 + (p1 + p0 / 4294967296) % 4294967296) (bnd_b p2 _ b2)
  rw [q2] at d2 d5 d6
  have q3 := small_modP p3 (bnd_e p3 b3)
  rw [q3] at d3
  have q4 := small_modP (x2 + p0 % 4294967296) (bnd_c x2 p0 hx2)
  rw [q4] at d5 d6 d7
  have q5 := small_mod ((x2 + p0 % 4294967296) / 4294967296 + (p2 + (p1 + p0 / 4294967296) % 4294967296) % 4294967296 + x3) (bnd_d x2 p0 _ x3 hx2 hx3)
  rw [q5] at d5 d6
  exact div_arith p0 p1 p2 p3 x0 x1 x2 x3 bh bl ah al b0 b1 b2 b3 hx0 hx1 hx2 hx3 hbh hbl hah hal d1 d2 d3 d4 d5 d6 d7

/-- Quotient and remainder are determined by `r + q·b = a`, `r < b`. -/
theorem divmod_unique (a b q r : Nat) (h1 : r + q * b = a) (h2 : r < b) : b ≠ 0 ∧ q = a / b ∧ r = a % b := by
  have hb : 0 < b := by omega
  have := (Nat.div_mod_unique hb (a := a) (c := r) (d := q)).mpr ⟨by rw [Nat.mul_comm]; exact h1, h2⟩
  exact ⟨by omega, this.1.symm, this.2.symm⟩

def divOps (x0 x1 x2 x3 : Nat) : List Op :=
  [Op.push x0, Op.push x1, Op.u32assert2 0, Op.dup3, Op.dup2, Op.u32mul, Op.dup4, Op.dup4, Op.u32madd, Op.eqz, Op.assert 0, Op.dup5, Op.dup3, Op.u32madd, Op.eqz, Op.assert 0, Op.dup4, Op.dup3, Op.mul, Op.eqz, Op.assert 0, Op.push x2, Op.push x3, Op.u32assert2 0, Op.movup7, Op.movup7, Op.dup3, Op.dup3, Op.movup2, Op.u32sub, Op.movup2, Op.movup3, Op.u32sub, Op.swap, Op.drop, Op.movup2, Op.eqz, Op.and, Op.or, Op.assert 0, Op.swap, Op.movup3, Op.u32add, Op.movup3, Op.movup3, Op.u32add3, Op.eqz, Op.assert 0, Op.movup4, Op.eq, Op.assert 0, Op.movup3, Op.eq, Op.assert 0]

theorem div_subst (x0 x1 x2 x3 : Nat) (xs : List Nat) :
    substAdv Generated.u64_div (x0 :: x1 :: x2 :: x3 :: xs) = some (divOps x0 x1 x2 x3) := by
  rfl

theorem div_pure_sound (x0 x1 x2 x3 bh bl ah al : Nat) (r out : List Nat)
    (h3 : bh < two32) (h2 : bl < two32) (h1 : ah < two32) (h0 : al < two32) (hr : 16 ≤ r.length)
    (h : runPure (divOps x0 x1 x2 x3) (bh :: bl :: ah :: al :: r) = .ok out) :
    out = x1 :: x0 :: r ∧ x0 < two32 ∧ x1 < two32 ∧ u64of bh bl ≠ 0 ∧
      u64of x1 x0 = u64of ah al / u64of bh bl ∧ u64of x3 x2 = u64of ah al % u64of bh bl := by
  have p5 : padN 5 r = r := padN_of_le (by omega)
  have p6 : padN 6 r = r := padN_of_le (by omega)
  have p7 : padN 7 r = r := padN_of_le (by omega)
  have p8 : padN 8 r = r := padN_of_le (by omega)
  have p9 : padN 9 r = r := padN_of_le (by omega)
  have p10 : padN 10 r = r := padN_of_le (by omega)
  have p11 : padN 11 r = r := padN_of_le (by omega)
  have p12 : padN 12 r = r := padN_of_le (by omega)
  have p13 : padN 13 r = r := padN_of_le (by omega)
  have p14 : padN 14 r = r := padN_of_le (by omega)
  have p15 : padN 15 r = r := padN_of_le (by omega)
  have p16 : padN 16 r = r := padN_of_le (by omega)
  simp (disch := binb) only [divOps, pure_exec] at h
  obtain ⟨a1, a0, h'⟩ := u32assert2_inv h; clear h
  simp (disch := binb) only [pure_exec, *] at h'
  obtain ⟨c1, h⟩ := assert_inv h'; clear h'
  simp (disch := binb) only [pure_exec, *] at h
  obtain ⟨c2, h'⟩ := assert_inv h; clear h
  simp (disch := binb) only [pure_exec, *] at h'
  obtain ⟨c3, h⟩ := assert_inv h'; clear h'
  simp (disch := binb) only [pure_exec, *] at h
  obtain ⟨a3, a2, h'⟩ := u32assert2_inv h; clear h
  simp (disch := binb) only [pure_exec, *] at h'
  obtain ⟨c4, h⟩ := assert_inv h'; clear h'
  simp (disch := binb) only [pure_exec, *] at h
  obtain ⟨c5, h'⟩ := assert_inv h; clear h
  simp (disch := binb) only [pure_exec, *] at h'
  obtain ⟨c6, h⟩ := assert_inv h'; clear h'
  simp (disch := binb) only [pure_exec, *] at h
  obtain ⟨c7, h'⟩ := assert_inv h; clear h
  simp (disch := binb) only [pure_exec, runPure_nil, *] at h'
  have hout : out = x1 :: x0 :: r := by injection h' with h'; exact h'.symm
  clear h'
  -- the limb products as atoms
  have b0 : bl * x0 ≤ 4294967295 * 4294967295 := Nat.mul_le_mul (by simp only [two32] at h2; omega) (by simp only [two32] at a0; omega)
  have b1 : bh * x0 ≤ 4294967295 * 4294967295 := Nat.mul_le_mul (by simp only [two32] at h3; omega) (by simp only [two32] at a0; omega)
  have b2 : bl * x1 ≤ 4294967295 * 4294967295 := Nat.mul_le_mul (by simp only [two32] at h2; omega) (by simp only [two32] at a1; omega)
  have b3 : bh * x1 ≤ 4294967295 * 4294967295 := Nat.mul_le_mul (by simp only [two32] at h3; omega) (by simp only [two32] at a1; omega)
  have e : u64of x1 x0 * u64of bh bl
      = bh * x1 * 18446744073709551616 + (bl * x1 + bh * x0) * 4294967296 + bl * x0 := by
    simp only [u64of, two32]; ring
  have d1 := of_ite c1
  have d2 := of_ite c2
  have d3 := of_ite c3
  have d4 := of_ite c4
  have d5 := of_ite c5
  have d6 := of_ite c6
  have d7 := of_ite c7
  clear c1 c2 c3 c4 c5 c6 c7
  simp (disch := subb) only [sub_borrow, sub_lo] at d4
  have d4' : x3 < bh ∨ (x2 < bl ∧ x3 = bh) := by
    rcases d4 with d | d
    · left; exact of_ite d
    · right
      have := of_ite d
      obtain ⟨u, v⟩ := this
      have u' := of_ite u
      have v' := of_ite v
      refine ⟨u', ?_⟩
      simp only [two32] at *
      split_ifs at v' <;> omega
  clear d4
  simp only [fmul] at d3
  generalize bl * x0 = p0 at *
  generalize bh * x0 = p1 at *
  generalize bl * x1 = p2 at *
  generalize bh * x1 = p3 at *
  simp only [splitLo, splitHi, fadd, two64, two32, P] at *
  clear p5 p6 p7 p8 p9 p10 p11 p12 p13 p14 p15 p16 hr
  obtain ⟨k1, k2⟩ := div_arith_raw p0 p1 p2 p3 x0 x1 x2 x3 bh bl ah al b0 b1 b2 b3 a0 a1 a2 a3 h3 h2 h1 h0 d1 d2 d3 d4' d5 d6 d7
  have hq : u64of x3 x2 + u64of x1 x0 * u64of bh bl = u64of ah al := by
    rw [e]; simp only [u64of, two32]; exact k1
  have hr2 : u64of x3 x2 < u64of bh bl := by simp only [u64of, two32]; exact k2
  obtain ⟨n1, n2, n3⟩ := divmod_unique _ _ _ _ hq hr2
  exact ⟨hout, a0, a1, n1, n2, n3⟩

theorem step_advpop_nil (vm : Vm) (h : vm.adv = []) : vm.step .advpop = .error .adviceExhausted := by
  simp [Vm.step, Vm.stepCore, h]

/-- A run that succeeds found enough advice for all of its `advpop`s. -/
theorem subst_exists (ops : List Op) (h : advOnly ops = true) : ∀ (vm : Vm) (out : List Nat),
    stackRun ops vm = .ok out → ∃ ops', substAdv ops vm.adv = some ops' := by
  induction ops with
  | nil => intro vm out _; exact ⟨[], rfl⟩
  | cons op rest ih =>
    intro vm out hrun
    simp only [advOnly, List.all_cons, Bool.and_eq_true] at h
    have hrest : advOnly rest = true := h.2
    by_cases ha : op = .advpop
    · subst ha
      cases hadv : vm.adv with
      | nil =>
        simp only [stackRun, runOps, step_advpop_nil vm hadv] at hrun
        cases hrun
      | cons x xs =>
        simp only [stackRun, runOps, step_advpop vm x xs hadv] at hrun
        obtain ⟨l, hl⟩ := ih hrest { vm with adv := xs, stack := x :: vm.stack } out hrun
        exact ⟨Op.push x :: l, by simp only [substAdv]; simp only [] at hl; rw [hl]; rfl⟩
    · have hp : op.isStackOnly = true := by
        have := h.1
        simp only [Bool.or_eq_true, beq_iff_eq] at this
        rcases this with h1 | h1
        · exact absurd h1 ha
        · exact h1
      simp only [stackRun, runOps, step_pure vm op hp] at hrun
      cases hps : pureStep op vm.stack with
      | error e => rw [hps] at hrun; cases hrun
      | ok s =>
        rw [hps] at hrun
        obtain ⟨l, hl⟩ := ih hrest { vm with stack := s } out hrun
        exact ⟨op :: l, by rw [substAdv_cons_ne op rest vm.adv ha]; simp only [] at hl; rw [hl]; rfl⟩

theorem substAdv_div_inv {adv : List Nat} {ops' : List Op} (h : substAdv Generated.u64_div adv = some ops') :
    ∃ x0 x1 x2 x3, ops' = divOps x0 x1 x2 x3 := by
  match adv, h with
  | x0 :: x1 :: x2 :: x3 :: xs, h => exact ⟨x0, x1, x2, x3, by rw [div_subst] at h; exact (Option.some.inj h).symm⟩
  | [], h => simp [Generated.u64_div, substAdv] at h
  | [_], h => simp [Generated.u64_div, substAdv] at h
  | [_, _], h => simp [Generated.u64_div, substAdv] at h
  | [_, _, _], h => simp [Generated.u64_div, substAdv] at h

/-- **`std::math::u64::div` is sound for every advice tape**: whatever the host supplies as the hinted
    quotient and remainder (any field elements, any length of tape), if the procedure completes then
    the divisor is non-zero and the result is exactly `⌊a / b⌋`, with the rest of the stack untouched. -/
theorem u64_div_sound (vm : Vm) (bh bl ah al : Nat) (r out : List Nat) (hs : vm.stack = bh :: bl :: ah :: al :: r)
    (h3 : bh < two32) (h2 : bl < two32) (h1 : ah < two32) (h0 : al < two32) (hr : 16 ≤ r.length)
    (h : stackRun Generated.u64_div vm = .ok out) :
    u64of bh bl ≠ 0 ∧
      out = (u64of ah al / u64of bh bl) / two32 :: (u64of ah al / u64of bh bl) % two32 :: r := by
  have hadv : advOnly Generated.u64_div = true := by decide
  obtain ⟨ops', hsub⟩ := subst_exists _ hadv vm out h
  obtain ⟨x0, x1, x2, x3, rfl⟩ := substAdv_div_inv hsub
  rw [stackRun_subst _ hadv vm _ hsub, hs] at h
  obtain ⟨ho, a0, a1, hb, hq, _⟩ := div_pure_sound x0 x1 x2 x3 bh bl ah al r out h3 h2 h1 h0 hr h
  refine ⟨hb, ?_⟩
  rw [ho, ← hq]
  simp only [u64of, two32] at *
  congr 1
  · omega
  · congr 1; omega
def modOps (x0 x1 x2 x3 : Nat) : List Op :=
  [Op.push x0, Op.push x1, Op.u32assert2 0, Op.dup3, Op.dup2, Op.u32mul, Op.dup4, Op.movup4, Op.u32madd, Op.eqz, Op.assert 0, Op.dup4, Op.dup3, Op.u32madd, Op.eqz, Op.assert 0, Op.dup3, Op.movup3, Op.mul, Op.eqz, Op.assert 0, Op.push x2, Op.push x3, Op.u32assert2 0, Op.movup5, Op.movup5, Op.dup3, Op.dup3, Op.movup2, Op.u32sub, Op.movup2, Op.movup3, Op.u32sub, Op.swap, Op.drop, Op.movup2, Op.eqz, Op.and, Op.or, Op.assert 0, Op.dup1, Op.movup4, Op.u32add, Op.movup4, Op.dup3, Op.u32add3, Op.eqz, Op.assert 0, Op.movup4, Op.eq, Op.assert 0, Op.movup3, Op.eq, Op.assert 0]

theorem mod_subst (x0 x1 x2 x3 : Nat) (xs : List Nat) :
    substAdv Generated.u64_mod (x0 :: x1 :: x2 :: x3 :: xs) = some (modOps x0 x1 x2 x3) := by
  rfl

theorem mod_pure_sound (x0 x1 x2 x3 bh bl ah al : Nat) (r out : List Nat)
    (h3 : bh < two32) (h2 : bl < two32) (h1 : ah < two32) (h0 : al < two32) (hr : 16 ≤ r.length)
    (h : runPure (modOps x0 x1 x2 x3) (bh :: bl :: ah :: al :: r) = .ok out) :
    out = x3 :: x2 :: r ∧ x0 < two32 ∧ x1 < two32 ∧ x2 < two32 ∧ x3 < two32 ∧ u64of bh bl ≠ 0 ∧
      u64of x1 x0 = u64of ah al / u64of bh bl ∧ u64of x3 x2 = u64of ah al % u64of bh bl := by
  have p5 : padN 5 r = r := padN_of_le (by omega)
  have p6 : padN 6 r = r := padN_of_le (by omega)
  have p7 : padN 7 r = r := padN_of_le (by omega)
  have p8 : padN 8 r = r := padN_of_le (by omega)
  have p9 : padN 9 r = r := padN_of_le (by omega)
  have p10 : padN 10 r = r := padN_of_le (by omega)
  have p11 : padN 11 r = r := padN_of_le (by omega)
  have p12 : padN 12 r = r := padN_of_le (by omega)
  have p13 : padN 13 r = r := padN_of_le (by omega)
  have p14 : padN 14 r = r := padN_of_le (by omega)
  have p15 : padN 15 r = r := padN_of_le (by omega)
  have p16 : padN 16 r = r := padN_of_le (by omega)
  simp (disch := binb) only [modOps, pure_exec] at h
  obtain ⟨a1, a0, h'⟩ := u32assert2_inv h; clear h
  simp (disch := binb) only [pure_exec, *] at h'
  obtain ⟨c1, h⟩ := assert_inv h'; clear h'
  simp (disch := binb) only [pure_exec, *] at h
  obtain ⟨c2, h'⟩ := assert_inv h; clear h
  simp (disch := binb) only [pure_exec, *] at h'
  obtain ⟨c3, h⟩ := assert_inv h'; clear h'
  simp (disch := binb) only [pure_exec, *] at h
  obtain ⟨a3, a2, h'⟩ := u32assert2_inv h; clear h
  simp (disch := binb) only [pure_exec, *] at h'
  obtain ⟨c4, h⟩ := assert_inv h'; clear h'
  simp (disch := binb) only [pure_exec, *] at h
  obtain ⟨c5, h'⟩ := assert_inv h; clear h
  simp (disch := binb) only [pure_exec, *] at h'
  obtain ⟨c6, h⟩ := assert_inv h'; clear h'
  simp (disch := binb) only [pure_exec, *] at h
  obtain ⟨c7, h'⟩ := assert_inv h; clear h
  simp (disch := binb) only [pure_exec, runPure_nil, *] at h'
  have hout : out = x3 :: x2 :: r := by injection h' with h'; exact h'.symm
  clear h'
  -- the limb products as atoms
  have b0 : bl * x0 ≤ 4294967295 * 4294967295 := Nat.mul_le_mul (by simp only [two32] at h2; omega) (by simp only [two32] at a0; omega)
  have b1 : bh * x0 ≤ 4294967295 * 4294967295 := Nat.mul_le_mul (by simp only [two32] at h3; omega) (by simp only [two32] at a0; omega)
  have b2 : bl * x1 ≤ 4294967295 * 4294967295 := Nat.mul_le_mul (by simp only [two32] at h2; omega) (by simp only [two32] at a1; omega)
  have b3 : bh * x1 ≤ 4294967295 * 4294967295 := Nat.mul_le_mul (by simp only [two32] at h3; omega) (by simp only [two32] at a1; omega)
  have e : u64of x1 x0 * u64of bh bl
      = bh * x1 * 18446744073709551616 + (bl * x1 + bh * x0) * 4294967296 + bl * x0 := by
    simp only [u64of, two32]; ring
  have d1 := of_ite c1
  have d2 := of_ite c2
  have d3 := of_ite c3
  have d4 := of_ite c4
  have d5 := of_ite c5
  have d6 := of_ite c6
  have d7 := of_ite c7
  clear c1 c2 c3 c4 c5 c6 c7
  simp (disch := subb) only [sub_borrow, sub_lo] at d4
  have d4' : x3 < bh ∨ (x2 < bl ∧ x3 = bh) := by
    rcases d4 with d | d
    · left; exact of_ite d
    · right
      have := of_ite d
      obtain ⟨u, v⟩ := this
      have u' := of_ite u
      have v' := of_ite v
      refine ⟨u', ?_⟩
      simp only [two32] at *
      split_ifs at v' <;> omega
  clear d4
  simp only [fmul] at d3
  generalize bl * x0 = p0 at *
  generalize bh * x0 = p1 at *
  generalize bl * x1 = p2 at *
  generalize bh * x1 = p3 at *
  simp only [splitLo, splitHi, fadd, two64, two32, P] at *
  clear p5 p6 p7 p8 p9 p10 p11 p12 p13 p14 p15 p16 hr
  obtain ⟨k1, k2⟩ := div_arith_raw p0 p1 p2 p3 x0 x1 x2 x3 bh bl ah al b0 b1 b2 b3 a0 a1 a2 a3 h3 h2 h1 h0 d1 d2 d3 d4' d5 d6 d7
  have hq : u64of x3 x2 + u64of x1 x0 * u64of bh bl = u64of ah al := by
    rw [e]; simp only [u64of, two32]; exact k1
  have hr2 : u64of x3 x2 < u64of bh bl := by simp only [u64of, two32]; exact k2
  obtain ⟨n1, n2, n3⟩ := divmod_unique _ _ _ _ hq hr2
  exact ⟨hout, a0, a1, a2, a3, n1, n2, n3⟩

theorem substAdv_mod_inv {adv : List Nat} {ops' : List Op} (h : substAdv Generated.u64_mod adv = some ops') :
    ∃ x0 x1 x2 x3, ops' = modOps x0 x1 x2 x3 := by
  match adv, h with
  | x0 :: x1 :: x2 :: x3 :: xs, h => exact ⟨x0, x1, x2, x3, by rw [mod_subst] at h; exact (Option.some.inj h).symm⟩
  | [], h => simp [Generated.u64_mod, substAdv] at h
  | [_], h => simp [Generated.u64_mod, substAdv] at h
  | [_, _], h => simp [Generated.u64_mod, substAdv] at h
  | [_, _, _], h => simp [Generated.u64_mod, substAdv] at h

/-- `std::math::u64::mod` is sound for every advice tape: a completed run leaves exactly `a mod b`. -/
theorem u64_mod_sound (vm : Vm) (bh bl ah al : Nat) (r out : List Nat) (hs : vm.stack = bh :: bl :: ah :: al :: r)
    (h3 : bh < two32) (h2 : bl < two32) (h1 : ah < two32) (h0 : al < two32) (hr : 16 ≤ r.length)
    (h : stackRun Generated.u64_mod vm = .ok out) :
    u64of bh bl ≠ 0 ∧
      out = (u64of ah al % u64of bh bl) / two32 :: (u64of ah al % u64of bh bl) % two32 :: r := by
  have hadv : advOnly Generated.u64_mod = true := by decide
  obtain ⟨ops', hsub⟩ := subst_exists _ hadv vm out h
  obtain ⟨x0, x1, x2, x3, rfl⟩ := substAdv_mod_inv hsub
  rw [stackRun_subst _ hadv vm _ hsub, hs] at h
  obtain ⟨ho, a0, a1, a2, a3, hb, hq, hm⟩ := mod_pure_sound x0 x1 x2 x3 bh bl ah al r out h3 h2 h1 h0 hr h
  refine ⟨hb, ?_⟩
  rw [ho, ← hm]
  simp only [u64of, two32] at *
  congr 1
  · omega
  · congr 1; omega
def divmodOps (x0 x1 x2 x3 : Nat) : List Op :=
  [Op.push x0, Op.push x1, Op.u32assert2 0, Op.dup3, Op.dup2, Op.u32mul, Op.dup4, Op.dup4, Op.u32madd, Op.eqz, Op.assert 0, Op.dup5, Op.dup3, Op.u32madd, Op.eqz, Op.assert 0, Op.dup4, Op.dup3, Op.mul, Op.eqz, Op.assert 0, Op.push x2, Op.push x3, Op.u32assert2 0, Op.movup7, Op.movup7, Op.dup3, Op.dup3, Op.movup2, Op.u32sub, Op.movup2, Op.movup3, Op.u32sub, Op.swap, Op.drop, Op.movup2, Op.eqz, Op.and, Op.or, Op.assert 0, Op.dup1, Op.movup4, Op.u32add, Op.movup4, Op.dup3, Op.u32add3, Op.eqz, Op.assert 0, Op.movup6, Op.eq, Op.assert 0, Op.movup5, Op.eq, Op.assert 0]

theorem divmod_subst (x0 x1 x2 x3 : Nat) (xs : List Nat) :
    substAdv Generated.u64_divmod (x0 :: x1 :: x2 :: x3 :: xs) = some (divmodOps x0 x1 x2 x3) := by
  rfl

theorem divmod_pure_sound (x0 x1 x2 x3 bh bl ah al : Nat) (r out : List Nat)
    (h3 : bh < two32) (h2 : bl < two32) (h1 : ah < two32) (h0 : al < two32) (hr : 16 ≤ r.length)
    (h : runPure (divmodOps x0 x1 x2 x3) (bh :: bl :: ah :: al :: r) = .ok out) :
    out = x3 :: x2 :: x1 :: x0 :: r ∧ x0 < two32 ∧ x1 < two32 ∧ x2 < two32 ∧ x3 < two32 ∧ u64of bh bl ≠ 0 ∧
      u64of x1 x0 = u64of ah al / u64of bh bl ∧ u64of x3 x2 = u64of ah al % u64of bh bl := by
  have p5 : padN 5 r = r := padN_of_le (by omega)
  have p6 : padN 6 r = r := padN_of_le (by omega)
  have p7 : padN 7 r = r := padN_of_le (by omega)
  have p8 : padN 8 r = r := padN_of_le (by omega)
  have p9 : padN 9 r = r := padN_of_le (by omega)
  have p10 : padN 10 r = r := padN_of_le (by omega)
  have p11 : padN 11 r = r := padN_of_le (by omega)
  have p12 : padN 12 r = r := padN_of_le (by omega)
  have p13 : padN 13 r = r := padN_of_le (by omega)
  have p14 : padN 14 r = r := padN_of_le (by omega)
  have p15 : padN 15 r = r := padN_of_le (by omega)
  have p16 : padN 16 r = r := padN_of_le (by omega)
  simp (disch := binb) only [divmodOps, pure_exec] at h
  obtain ⟨a1, a0, h'⟩ := u32assert2_inv h; clear h
  simp (disch := binb) only [pure_exec, *] at h'
  obtain ⟨c1, h⟩ := assert_inv h'; clear h'
  simp (disch := binb) only [pure_exec, *] at h
  obtain ⟨c2, h'⟩ := assert_inv h; clear h
  simp (disch := binb) only [pure_exec, *] at h'
  obtain ⟨c3, h⟩ := assert_inv h'; clear h'
  simp (disch := binb) only [pure_exec, *] at h
  obtain ⟨a3, a2, h'⟩ := u32assert2_inv h; clear h
  simp (disch := binb) only [pure_exec, *] at h'
  obtain ⟨c4, h⟩ := assert_inv h'; clear h'
  simp (disch := binb) only [pure_exec, *] at h
  obtain ⟨c5, h'⟩ := assert_inv h; clear h
  simp (disch := binb) only [pure_exec, *] at h'
  obtain ⟨c6, h⟩ := assert_inv h'; clear h'
  simp (disch := binb) only [pure_exec, *] at h
  obtain ⟨c7, h'⟩ := assert_inv h; clear h
  simp (disch := binb) only [pure_exec, runPure_nil, *] at h'
  have hout : out = x3 :: x2 :: x1 :: x0 :: r := by injection h' with h'; exact h'.symm
  clear h'
  -- the limb products as atoms
  have b0 : bl * x0 ≤ 4294967295 * 4294967295 := Nat.mul_le_mul (by simp only [two32] at h2; omega) (by simp only [two32] at a0; omega)
  have b1 : bh * x0 ≤ 4294967295 * 4294967295 := Nat.mul_le_mul (by simp only [two32] at h3; omega) (by simp only [two32] at a0; omega)
  have b2 : bl * x1 ≤ 4294967295 * 4294967295 := Nat.mul_le_mul (by simp only [two32] at h2; omega) (by simp only [two32] at a1; omega)
  have b3 : bh * x1 ≤ 4294967295 * 4294967295 := Nat.mul_le_mul (by simp only [two32] at h3; omega) (by simp only [two32] at a1; omega)
  have e : u64of x1 x0 * u64of bh bl
      = bh * x1 * 18446744073709551616 + (bl * x1 + bh * x0) * 4294967296 + bl * x0 := by
    simp only [u64of, two32]; ring
  have d1 := of_ite c1
  have d2 := of_ite c2
  have d3 := of_ite c3
  have d4 := of_ite c4
  have d5 := of_ite c5
  have d6 := of_ite c6
  have d7 := of_ite c7
  clear c1 c2 c3 c4 c5 c6 c7
  simp (disch := subb) only [sub_borrow, sub_lo] at d4
  have d4' : x3 < bh ∨ (x2 < bl ∧ x3 = bh) := by
    rcases d4 with d | d
    · left; exact of_ite d
    · right
      have := of_ite d
      obtain ⟨u, v⟩ := this
      have u' := of_ite u
      have v' := of_ite v
      refine ⟨u', ?_⟩
      simp only [two32] at *
      split_ifs at v' <;> omega
  clear d4
  simp only [fmul] at d3
  generalize bl * x0 = p0 at *
  generalize bh * x0 = p1 at *
  generalize bl * x1 = p2 at *
  generalize bh * x1 = p3 at *
  simp only [splitLo, splitHi, fadd, two64, two32, P] at *
  clear p5 p6 p7 p8 p9 p10 p11 p12 p13 p14 p15 p16 hr
  obtain ⟨k1, k2⟩ := div_arith_raw p0 p1 p2 p3 x0 x1 x2 x3 bh bl ah al b0 b1 b2 b3 a0 a1 a2 a3 h3 h2 h1 h0 d1 d2 d3 d4' d5 d6 d7
  have hq : u64of x3 x2 + u64of x1 x0 * u64of bh bl = u64of ah al := by
    rw [e]; simp only [u64of, two32]; exact k1
  have hr2 : u64of x3 x2 < u64of bh bl := by simp only [u64of, two32]; exact k2
  obtain ⟨n1, n2, n3⟩ := divmod_unique _ _ _ _ hq hr2
  exact ⟨hout, a0, a1, a2, a3, n1, n2, n3⟩

theorem substAdv_divmod_inv {adv : List Nat} {ops' : List Op} (h : substAdv Generated.u64_divmod adv = some ops') :
    ∃ x0 x1 x2 x3, ops' = divmodOps x0 x1 x2 x3 := by
  match adv, h with
  | x0 :: x1 :: x2 :: x3 :: xs, h => exact ⟨x0, x1, x2, x3, by rw [divmod_subst] at h; exact (Option.some.inj h).symm⟩
  | [], h => simp [Generated.u64_divmod, substAdv] at h
  | [_], h => simp [Generated.u64_divmod, substAdv] at h
  | [_, _], h => simp [Generated.u64_divmod, substAdv] at h
  | [_, _, _], h => simp [Generated.u64_divmod, substAdv] at h

/-- `std::math::u64::divmod` is sound for every advice tape: a completed run leaves `[r_hi, r_lo, q_hi, q_lo]` with `q = ⌊a / b⌋`, `r = a mod b`. -/
theorem u64_divmod_sound (vm : Vm) (bh bl ah al : Nat) (r out : List Nat) (hs : vm.stack = bh :: bl :: ah :: al :: r)
    (h3 : bh < two32) (h2 : bl < two32) (h1 : ah < two32) (h0 : al < two32) (hr : 16 ≤ r.length)
    (h : stackRun Generated.u64_divmod vm = .ok out) :
    u64of bh bl ≠ 0 ∧
      out = (u64of ah al % u64of bh bl) / two32 :: (u64of ah al % u64of bh bl) % two32 ::
        (u64of ah al / u64of bh bl) / two32 :: (u64of ah al / u64of bh bl) % two32 :: r := by
  have hadv : advOnly Generated.u64_divmod = true := by decide
  obtain ⟨ops', hsub⟩ := subst_exists _ hadv vm out h
  obtain ⟨x0, x1, x2, x3, rfl⟩ := substAdv_divmod_inv hsub
  rw [stackRun_subst _ hadv vm _ hsub, hs] at h
  obtain ⟨ho, a0, a1, a2, a3, hb, hq, hm⟩ := divmod_pure_sound x0 x1 x2 x3 bh bl ah al r out h3 h2 h1 h0 hr h
  refine ⟨hb, ?_⟩
  rw [ho, ← hq, ← hm]
  simp only [u64of, two32] at *
  congr 1
  · omega
  · congr 1
    · omega
    · congr 1
      · omega
      · congr 1; omega
end Miden.U64Div
