/-
  Invariants of the batching algorithm (`Miden.Model.Batch`).
-/
import Miden.Model.Batch
namespace Miden

macro "triv" : tactic => `(tactic| first | rfl | trivial)

/-- Structural well-formedness of a batch as the executor and the hasher assume it. -/
def OpBatch.WF (b : OpBatch) : Prop :=
  b.groups.length = 8 ∧ b.opCounts.length = 8 ∧ 1 ≤ b.numGroups ∧ b.numGroups ≤ 8 ∧
  (∀ c ∈ b.opCounts, c ≤ 9)

def Acc.WF (a : Acc) : Prop :=
  a.groups.length = 8 ∧ a.opCounts.length = 8 ∧ a.opIdx ≤ 9 ∧ a.groupIdx < a.nextGroupIdx ∧
  a.nextGroupIdx ≤ 8 ∧ (∀ c ∈ a.opCounts, c ≤ 9)

theorem Acc.wf_init : Acc.WF {} := by
  refine ⟨by decide, by decide, by decide, by decide, by decide, ?_⟩
  intro c hc
  have : c = 0 := by
    simp at hc
    exact hc
  omega

theorem mem_set_le {l : List Nat} {i v c : Nat} (h : ∀ c ∈ l, c ≤ 9) (hv : v ≤ 9)
    (hc : c ∈ l.set i v) : c ≤ 9 := by
  rcases List.mem_or_eq_of_mem_set hc with h1 | h1
  · exact h c h1
  · omega

theorem Acc.wf_finalize (a : Acc) (h : a.WF) (hn : a.nextGroupIdx < 8) : a.finalizeGroup.WF := by
  obtain ⟨h1, h2, h3, h4, h5, h6⟩ := h
  refine ⟨by simp [Acc.finalizeGroup, h1], by simp [Acc.finalizeGroup, h2],
    by simp [Acc.finalizeGroup], by simp [Acc.finalizeGroup], by simp [Acc.finalizeGroup]; omega, ?_⟩
  intro c hc
  simp only [Acc.finalizeGroup] at hc
  exact mem_set_le h6 h3 hc

theorem Acc.finalize_opIdx (a : Acc) : a.finalizeGroup.opIdx = 0 := rfl
theorem Acc.finalize_next (a : Acc) : a.finalizeGroup.nextGroupIdx = a.nextGroupIdx + 1 := rfl
theorem Acc.finalize_ops (a : Acc) : a.finalizeGroup.ops = a.ops := rfl

theorem Acc.wf_start (a : Acc) (h : a.WF) (hn : a.opIdx = 9 → a.nextGroupIdx < 8) :
    a.startGroupIfFull.WF ∧ a.startGroupIfFull.opIdx ≤ 8 ∧ a.startGroupIfFull.ops = a.ops ∧
    a.startGroupIfFull.nextGroupIdx = (if a.opIdx = 9 then a.nextGroupIdx + 1 else a.nextGroupIdx) ∧
    a.startGroupIfFull.opIdx = (if a.opIdx = 9 then 0 else a.opIdx) := by
  unfold Acc.startGroupIfFull
  by_cases e : a.opIdx = 9
  · simp only [e, if_true]
    exact ⟨Acc.wf_finalize a h (hn e), by simp [Acc.finalizeGroup], by triv, by triv, by triv⟩
  · simp only [e, if_false]
    obtain ⟨h1, h2, h3, h4, h5, h6⟩ := h
    exact ⟨⟨h1, h2, h3, h4, h5, h6⟩, by omega, by triv, by triv, by triv⟩

theorem Acc.wf_placeImm (a : Acc) (v : Nat) (h : a.WF) (h8 : a.opIdx ≤ 8)
    (hn : if a.opIdx = 8 then a.nextGroupIdx + 1 < 8 else a.nextGroupIdx < 8) :
    (a.placeImm v).WF ∧ (a.placeImm v).opIdx ≤ 7 ∧ (a.placeImm v).ops = a.ops := by
  unfold Acc.placeImm
  by_cases e : a.opIdx = 8
  · simp only [e, if_true] at hn ⊢
    obtain ⟨f1, f2, f3, f4, f5, f6⟩ := Acc.wf_finalize a h (by omega)
    refine ⟨⟨by simp [f1], f2, by simp [Acc.finalizeGroup], ?_, ?_, f6⟩, by simp [Acc.finalizeGroup], by triv⟩
    · show a.finalizeGroup.groupIdx < a.finalizeGroup.nextGroupIdx + 1
      omega
    · show a.finalizeGroup.nextGroupIdx + 1 ≤ 8
      rw [Acc.finalize_next]; omega
  · simp only [e, if_false] at hn ⊢
    obtain ⟨h1, h2, h3, h4, h5, h6⟩ := h
    refine ⟨⟨by simp [h1], h2, h3, ?_, ?_, h6⟩, ?_, by triv⟩
    · show a.groupIdx < a.nextGroupIdx + 1
      omega
    · show a.nextGroupIdx + 1 ≤ 8
      omega
    · show a.opIdx ≤ 7
      omega

theorem Acc.wf_pushOp (a : Acc) (op : Op) (h : a.WF) (h8 : a.opIdx ≤ 8) :
    (a.pushOp op).WF ∧ (a.pushOp op).ops = op :: a.ops := by
  obtain ⟨h1, h2, h3, h4, h5, h6⟩ := h
  refine ⟨⟨h1, h2, ?_, h4, h5, h6⟩, rfl⟩
  show a.opIdx + 1 ≤ 9
  omega

theorem Op.hasImm_eq (op : Op) : op.hasImm = op.imm.isSome := by cases op <;> rfl

theorem Acc.canAccept_iff (a : Acc) (op : Op) : a.canAccept op = true ↔
    (if op.hasImm = true then (if a.opIdx < 8 then a.nextGroupIdx < 8 else a.nextGroupIdx + 1 < 8)
     else (a.opIdx < 9 ∨ a.nextGroupIdx < 8)) := by
  unfold Acc.canAccept
  cases op.hasImm
  · simp
  · simp only [if_true]
    by_cases h : a.opIdx < 8
    · simp [h]
    · simp [h]

/-- Adding an accepted operation keeps the accumulator well-formed. -/
theorem Acc.wf_addOp (a : Acc) (op : Op) (h : a.WF) (hc : a.canAccept op = true) :
    (a.addOp op).WF ∧ (a.addOp op).ops = op :: a.ops := by
  have hI := Op.hasImm_eq op
  rw [Acc.canAccept_iff] at hc
  unfold Acc.addOp
  have h3 : a.opIdx ≤ 9 := h.2.2.1
  cases himm : op.imm with
  | none =>
    rw [himm] at hI
    simp only [hI, Option.isSome_none, Bool.false_eq_true, if_false] at hc
    obtain ⟨s1, s2, s3, _, _⟩ := Acc.wf_start a h (by omega)
    obtain ⟨p1, p2⟩ := Acc.wf_pushOp a.startGroupIfFull op s1 s2
    exact ⟨p1, by rw [p2, s3]⟩
  | some v =>
    rw [himm] at hI
    simp only [hI, Option.isSome_some, if_true] at hc
    obtain ⟨s1, s2, s3, s4, s5⟩ := Acc.wf_start a h (by
      intro e; rw [e] at hc; simp at hc; omega)
    have hn : if a.startGroupIfFull.opIdx = 8 then a.startGroupIfFull.nextGroupIdx + 1 < 8
        else a.startGroupIfFull.nextGroupIdx < 8 := by
      rw [s4, s5]
      by_cases e9 : a.opIdx = 9
      · rw [e9] at hc; simp at hc; simp [e9]; omega
      · by_cases e8 : a.opIdx = 8
        · rw [e8] at hc; simp at hc; simp [e8]; omega
        · have : a.opIdx < 8 := by omega
          simp [this] at hc
          simp [e9, e8]; omega
    obtain ⟨q1, q2, q3⟩ := Acc.wf_placeImm a.startGroupIfFull v s1 s2 hn
    obtain ⟨p1, p2⟩ := Acc.wf_pushOp (a.startGroupIfFull.placeImm v) op q1 (by omega)
    exact ⟨p1, by rw [p2, q3, s3]⟩

theorem Acc.wf_intoBatch (a : Acc) (h : a.WF) : a.intoBatch.WF ∧ a.intoBatch.ops = a.ops.reverse := by
  obtain ⟨h1, h2, h3, h4, h5, h6⟩ := h
  unfold Acc.intoBatch
  by_cases e : a.group ≠ 0 ∨ a.opIdx ≠ 0
  · simp only [e, if_true]
    refine ⟨⟨by simp [h1], by simp [h2], by show 1 ≤ a.nextGroupIdx; omega, h5, ?_⟩, by triv⟩
    intro c hc
    exact mem_set_le h6 h3 hc
  · simp only [e, if_false]
    exact ⟨⟨h1, h2, by show 1 ≤ a.nextGroupIdx; omega, h5, h6⟩, by triv⟩

theorem Acc.init_accepts (op : Op) : ({} : Acc).canAccept op = true := by
  rw [Acc.canAccept_iff]
  cases op.hasImm <;> decide

theorem batchLoop_wf (ops : List Op) : ∀ (acc : Acc) (done : List OpBatch), acc.WF →
    (∀ b ∈ done, b.WF) → ∀ b ∈ batchLoop ops acc done, b.WF := by
  induction ops with
  | nil =>
    intro acc done hacc hdone b hb
    unfold batchLoop at hb
    split at hb
    · exact hdone b (by simpa using hb)
    · simp only [List.mem_reverse, List.mem_cons] at hb
      rcases hb with hb | hb
      · rw [hb]; exact (Acc.wf_intoBatch acc hacc).1
      · exact hdone b hb
  | cons op rest ih =>
    intro acc done hacc hdone b hb
    unfold batchLoop at hb
    split at hb
    · rename_i hc
      exact ih _ _ (Acc.wf_addOp acc op hacc hc).1 hdone b hb
    · refine ih _ _ (Acc.wf_addOp {} op Acc.wf_init (Acc.init_accepts op)).1 ?_ b hb
      intro b' hb'
      rcases List.mem_cons.mp hb' with h | h
      · rw [h]; exact (Acc.wf_intoBatch acc hacc).1
      · exact hdone b' h

theorem batchOps_wf (ops : List Op) : ∀ b ∈ batchOps ops, OpBatch.WF b :=
  batchLoop_wf ops {} [] Acc.wf_init (by intro b hb; cases hb)

theorem batchLoop_flatten (ops : List Op) : ∀ (acc : Acc) (done : List OpBatch), acc.WF →
    (batchLoop ops acc done).flatMap (·.ops)
      = done.reverse.flatMap (·.ops) ++ acc.ops.reverse ++ ops := by
  induction ops with
  | nil =>
    intro acc done hacc
    unfold batchLoop
    split
    · rename_i he
      have : acc.ops = [] := by simpa using he
      simp [this]
    · simp [(Acc.wf_intoBatch acc hacc).2]
  | cons op rest ih =>
    intro acc done hacc
    unfold batchLoop
    split
    · rename_i hc
      obtain ⟨w, e⟩ := Acc.wf_addOp acc op hacc hc
      rw [ih _ _ w, e]
      simp
    · obtain ⟨w, e⟩ := Acc.wf_addOp {} op Acc.wf_init (Acc.init_accepts op)
      rw [ih _ _ w, e]
      simp [(Acc.wf_intoBatch acc hacc).2]

theorem batchOps_flatten (ops : List Op) : (batchOps ops).flatMap (·.ops) = ops := by
  unfold batchOps
  rw [batchLoop_flatten ops {} [] Acc.wf_init]
  rfl

theorem batchLoop_nonempty (ops : List Op) : ∀ (acc : Acc) (done : List OpBatch), acc.WF →
    (acc.ops ≠ [] ∨ acc = {}) → (∀ b ∈ done, b.ops ≠ []) →
    ∀ b ∈ batchLoop ops acc done, b.ops ≠ [] := by
  induction ops with
  | nil =>
    intro acc done hacc hne hdone b hb
    unfold batchLoop at hb
    split at hb
    · exact hdone b (by simpa using hb)
    · rename_i he
      simp only [List.mem_reverse, List.mem_cons] at hb
      rcases hb with hb | hb
      · rw [hb, (Acc.wf_intoBatch acc hacc).2]
        intro h0
        apply he
        have : acc.ops = [] := by simpa using h0
        simp [this]
      · exact hdone b hb
  | cons op rest ih =>
    intro acc done hacc hne hdone b hb
    unfold batchLoop at hb
    split at hb
    · rename_i hc
      obtain ⟨w, e⟩ := Acc.wf_addOp acc op hacc hc
      exact ih _ _ w (Or.inl (by rw [e]; simp)) hdone b hb
    · rename_i hc
      obtain ⟨w, e⟩ := Acc.wf_addOp {} op Acc.wf_init (Acc.init_accepts op)
      refine ih _ _ w (Or.inl (by rw [e]; simp)) ?_ b hb
      intro b' hb'
      rcases List.mem_cons.mp hb' with h | h
      · rw [h, (Acc.wf_intoBatch acc hacc).2]
        rcases hne with h1 | h1
        · simpa using h1
        · exact absurd (h1 ▸ Acc.init_accepts op) hc
      · exact hdone b' h

theorem batchOps_nonempty (ops : List Op) : ∀ b ∈ batchOps ops, b.ops ≠ [] :=
  batchLoop_nonempty ops {} [] Acc.wf_init (Or.inr rfl) (by intro b hb; cases hb)

theorem flatMap_groups_length : ∀ (bs : List OpBatch), (∀ b ∈ bs, OpBatch.WF b) →
    (bs.flatMap (·.groups)).length = 8 * bs.length
  | [], _ => rfl
  | b :: rest, h => by
    have hb := (h b (by simp)).1
    have ih := flatMap_groups_length rest (fun x hx => h x (by simp [hx]))
    simp only [List.flatMap_cons, List.length_append, List.length_cons, hb, ih]
    omega

theorem groups_length (ops : List Op) :
    ((batchOps ops).flatMap (·.groups)).length = 8 * (batchOps ops).length :=
  flatMap_groups_length _ (batchOps_wf ops)

end Miden
