/-
  Infrastructure for soundness theorems about the stack AIR at an arbitrary field.
-/
import Miden.Model.Air
import Mathlib.Tactic.LinearCombination
import Mathlib.Tactic.Ring
import Mathlib.Algebra.Field.Basic
import Mathlib.Tactic.IntervalCases
import Mathlib.Tactic.FieldSimp
namespace Miden.Air

variable {F : Type} [Field F]

/-- All 110 stack constraints vanish on the row pair. -/
def Holds (cur nxt : Row F) : Prop := ∀ x ∈ stackConstraints cur nxt, x = 0

variable {cur nxt : Row F}

theorem Holds.overflow (h : Holds cur nxt) : ∀ x ∈ overflowCs cur nxt, x = 0 :=
  fun x hx => h x (by simp [stackConstraints, hx])
theorem Holds.system (h : Holds cur nxt) : ∀ x ∈ systemCs cur nxt, x = 0 :=
  fun x hx => h x (by simp [stackConstraints, hx])
theorem Holds.field (h : Holds cur nxt) : ∀ x ∈ fieldCs cur nxt, x = 0 :=
  fun x hx => h x (by simp [stackConstraints, hx])
theorem Holds.manip (h : Holds cur nxt) : ∀ x ∈ manipCs cur nxt, x = 0 :=
  fun x hx => h x (by simp [stackConstraints, hx])
theorem Holds.u32 (h : Holds cur nxt) : ∀ x ∈ u32Cs cur nxt, x = 0 :=
  fun x hx => h x (by simp [stackConstraints, hx])
theorem Holds.io (h : Holds cur nxt) : ∀ x ∈ ioCs cur nxt, x = 0 :=
  fun x hx => h x (by simp [stackConstraints, hx])
theorem Holds.general (h : Holds cur nxt) : ∀ x ∈ generalCs cur nxt, x = 0 :=
  fun x hx => h x (by simp [stackConstraints, hx])

/-- Positions `k..15` of the stack are copied unchanged. -/
def CopyFrom (cur nxt : Row F) (k : Nat) : Prop := ∀ i, k ≤ i → i < 16 → nxt.st i = cur.st i
/-- Positions `k..15` move one slot towards the top (left shift). -/
def LeftFrom (cur nxt : Row F) (k : Nat) : Prop := ∀ i, k ≤ i → i < 16 → nxt.st (i - 1) = cur.st i
/-- Positions `k..14` move one slot away from the top (right shift). -/
def RightFrom (cur nxt : Row F) (k : Nat) : Prop := ∀ i, k ≤ i → i < 15 → nxt.st (i + 1) = cur.st i

set_option hygiene false in
/-- Evaluates every constraint group on a row whose opcode is known (`hop`) and leaves the
    surviving equations in the context as `ho hs hf hm hu hi hg`. -/
macro "air_simp" hop:ident h:ident : tactic => `(tactic| (
  have ho := Holds.overflow $h
  have hs := Holds.system $h
  have hf := Holds.field $h
  have hm := Holds.manip $h
  have hu := Holds.u32 $h
  have hi := Holds.io $h
  have hg := Holds.general $h
  simp [overflowCs, leftShiftAny, rightShiftAny, Row.overflow, Row.is, Row.inR, $hop:ident, c, bnot,
    sub_eq_zero] at ho
  simp [systemCs, Row.is, $hop:ident, c, sub_eq_zero] at hs
  simp [fieldCs, Row.is, $hop:ident, c, isBinary, sub_eq_zero] at hf
  simp [manipCs, Row.is, $hop:ident, c, bnot, List.range, List.range.loop, sub_eq_zero] at hm
  simp [u32Cs, Row.is, Row.inR, $hop:ident, c, isBinary, sub_eq_zero] at hu
  simp [ioCs, Row.is, $hop:ident, c, sub_eq_zero] at hi
  simp [generalCs, noShift, leftShift, rightShift, topBinary, Row.is, Row.inR, $hop:ident, c, bnot,
    isBinary, List.range, List.range.loop, sub_eq_zero] at hg))

set_option hygiene false in
/-- Closes `CopyFrom` / `LeftFrom` / `RightFrom` goals from the equations in the context. -/
macro "shift_tac" : tactic => `(tactic| (
  intro i h1 h2
  interval_cases i <;> simp_all))

end Miden.Air
