/-
  Running a list of operations on a stack (no clock), the refinement relation between such a run
  and the instruction reference, and the simp-normal form for stacks: explicit elements followed
  by `padN k rest`.
-/
import Miden.Spec.Instr
import Miden.Lemmas.Step
namespace Miden

/-- Run a straight-line operation list (the semantics of a span without its bookkeeping rows). -/
def runOps : List Op → Vm → Except Err Vm
  | [], vm => .ok vm
  | op :: rest, vm => match vm.step op with
    | .error e => .error e
    | .ok vm' => runOps rest vm'

/-- Stack-level view of `runOps` from a state whose other components are arbitrary. -/
def stackRun (ops : List Op) (vm : Vm) : Except Err (List Nat) :=
  match runOps ops vm with
  | .ok v => .ok v.stack
  | .error e => .error e

/-- The implementation's outcome agrees with the reference wherever the reference is defined. -/
def Refines (impl : Except Err (List Nat)) (spec : Spec.R) : Prop :=
  match spec with
  | .ok s => impl = .ok s
  | .error (.fail (some e)) => impl = .error e
  | .error (.fail none) => ∃ e, impl = .error e
  | .error .undefined => True

def padN (n : Nat) (l : List Nat) : List Nat := l ++ List.replicate (n - l.length) 0

theorem pad16_eq (l : List Nat) : pad16 l = padN 16 l := rfl

@[simp] theorem padN_cons (n x : Nat) (l : List Nat) : padN (n + 1) (x :: l) = x :: padN n l := by
  simp [padN]

@[simp] theorem padN_zero (l : List Nat) : padN 0 l = l := by simp [padN]

@[simp] theorem padN_padN (m n : Nat) (l : List Nat) : padN m (padN n l) = padN (max m n) l := by
  unfold padN
  simp only [List.length_append, List.length_replicate, List.append_assoc, List.replicate_append_replicate]
  congr 2
  omega

theorem padN_of_le {n : Nat} {l : List Nat} (h : n ≤ l.length) : padN n l = l := by
  unfold padN
  have : n - l.length = 0 := by omega
  simp [this]

theorem fadd_fneg (a b : Nat) : fadd a (fneg b) = fsub a b := by
  unfold fadd fneg fsub
  rw [Nat.add_mod, Nat.mod_mod, ← Nat.add_mod]

theorem P_pos : 0 < P := by decide

end Miden
