/-
  Running a list of operations on a stack (no clock), the refinement relation between such a run
  and the instruction reference, and the simp-normal form for stacks: explicit elements followed
  by `padN k rest`.
-/
import Miden.Spec.Instr
import Miden.Lemmas.Step
namespace Miden

/-- Run a straight-line operation list (the semantics of a span without its bookkeeping rows). -/
def runOps : List Op → Vm → Except Err Vm
  | [], vm => .ok vm
  | op :: rest, vm => match vm.step op with
    | .error e => .error e
    | .ok vm' => runOps rest vm'

/-- Stack-level view of `runOps` from a state whose other components are arbitrary. -/
def stackRun (ops : List Op) (vm : Vm) : Except Err (List Nat) :=
  match runOps ops vm with
  | .ok v => .ok v.stack
  | .error e => .error e

/-- The implementation's outcome agrees with the reference wherever the reference is defined. -/
def Refines (impl : Except Err (List Nat)) (spec : Spec.R) : Prop :=
  match spec with
  | .ok s => impl = .ok s
  | .error (.fail (some e)) => impl = .error e
  | .error (.fail none) => ∃ e, impl = .error e
  | .error .undefined => True

def padN (n : Nat) (l : List Nat) : List Nat := l ++ List.replicate (n - l.length) 0

theorem pad16_eq (l : List Nat) : pad16 l = padN 16 l := rfl

@[simp] theorem padN_cons (n x : Nat) (l : List Nat) : padN (n + 1) (x :: l) = x :: padN n l := by
  simp [padN]

@[simp] theorem padN_zero (l : List Nat) : padN 0 l = l := by simp [padN]

@[simp] theorem padN_padN (m n : Nat) (l : List Nat) : padN m (padN n l) = padN (max m n) l := by
  unfold padN
  simp only [List.length_append, List.length_replicate, List.append_assoc, List.replicate_append_replicate]
  congr 2
  omega

theorem padN_of_le {n : Nat} {l : List Nat} (h : n ≤ l.length) : padN n l = l := by
  unfold padN
  have : n - l.length = 0 := by omega
  simp [this]

theorem fadd_fneg (a b : Nat) : fadd a (fneg b) = fsub a b := by
  unfold fadd fneg fsub
  rw [Nat.add_mod, Nat.mod_mod, ← Nat.add_mod]

theorem P_pos : 0 < P := by decide

/-! Combinator view of the runners: lets `simp` push the remaining operations into the branches of
    an operation's guard (`if … then error else ok …`) instead of getting stuck on a `match`. -/

theorem step_eq_map (vm : Vm) (op : Op) :
    vm.step op = (vm.stepCore op).map (fun r => { r with clk := vm.clk, trace := vm.trace }) := by
  unfold Vm.step
  cases vm.stepCore op <;> rfl

theorem runOps_nil (vm : Vm) : runOps [] vm = .ok vm := rfl

theorem runOps_cons (op : Op) (rest : List Op) (vm : Vm) :
    runOps (op :: rest) vm = (vm.step op).bind (runOps rest) := by
  simp only [runOps]
  cases vm.step op <;> rfl

theorem stackRun_eq (ops : List Op) (vm : Vm) :
    stackRun ops vm = (runOps ops vm).map (fun v => v.stack) := by
  unfold stackRun
  cases runOps ops vm <;> rfl

theorem Except.map_ok' {ε α β : Type} (f : α → β) (a : α) :
    Except.map f (Except.ok a : Except ε α) = Except.ok (f a) := rfl
theorem Except.map_error' {ε α β : Type} (f : α → β) (e : ε) :
    Except.map f (Except.error e : Except ε α) = Except.error e := rfl
theorem Except.bind_ok' {ε α β : Type} (f : α → Except ε β) (a : α) :
    Except.bind (Except.ok a : Except ε α) f = f a := rfl
theorem Except.bind_error' {ε α β : Type} (f : α → Except ε β) (e : ε) :
    Except.bind (Except.error e : Except ε α) f = Except.error e := rfl
theorem Except.map_ite {ε α β : Type} (f : α → β) (c : Prop) [Decidable c] (a b : Except ε α) :
    Except.map f (if c then a else b) = if c then Except.map f a else Except.map f b := by
  split <;> rfl
theorem Except.bind_ite {ε α β : Type} (f : α → Except ε β) (c : Prop) [Decidable c]
    (a b : Except ε α) :
    Except.bind (if c then a else b) f = if c then Except.bind a f else Except.bind b f := by
  split <;> rfl

end Miden
