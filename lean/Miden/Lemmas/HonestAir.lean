/-
  Infrastructure for completeness of the stack AIR on honest rows (`Props/C03Air.lean`):
  casts of the model's canonical-representative arithmetic into the field `ZMod P`, correctness of the
  Fermat inverse, and the tactic that evaluates all 111 constraints on a concrete honest row pair.
-/
import Miden.Model.Honest
import Miden.Lemmas.Depth
import Miden.Lemmas.AirTac
import Miden.Lemmas.Prime
import Mathlib.Data.ZMod.Basic
import Mathlib.FieldTheory.Finite.Basic
namespace Miden.C03
open Miden Miden.Air Miden.Vm

/-- The base field of the trace. -/
abbrev FP := ZMod P

theorem cast_fadd (a b : Nat) : ((fadd a b : Nat) : FP) = (a : FP) + (b : FP) := by
  unfold fadd; rw [ZMod.natCast_mod]; push_cast; rfl

theorem cast_fmul (a b : Nat) : ((fmul a b : Nat) : FP) = (a : FP) * (b : FP) := by
  unfold fmul; rw [ZMod.natCast_mod]; push_cast; rfl

theorem cast_P : ((P : Nat) : FP) = 0 := ZMod.natCast_self P

theorem cast_P_sub (a : Nat) (h : a ≤ P) : ((P - a : Nat) : FP) = -(a : FP) := by
  rw [Nat.cast_sub h, cast_P, zero_sub]

theorem cast_fneg (a : Nat) : ((fneg a : Nat) : FP) = -(a : FP) := by
  unfold fneg
  rw [ZMod.natCast_mod, cast_P_sub _ (Nat.le_of_lt (Nat.mod_lt _ (by decide))), ZMod.natCast_mod]

theorem cast_fsub (a b : Nat) : ((fsub a b : Nat) : FP) = (a : FP) - (b : FP) := by
  unfold fsub
  rw [ZMod.natCast_mod, Nat.cast_add, cast_P_sub _ (Nat.le_of_lt (Nat.mod_lt _ (by decide))),
    ZMod.natCast_mod]
  ring

theorem cast_fpowAux : ∀ (fuel base e acc : Nat), e < 2 ^ fuel →
    ((fpowAux fuel base e acc : Nat) : FP) = (acc : FP) * (base : FP) ^ e := by
  intro fuel
  induction fuel with
  | zero =>
    intro base e acc he
    have : e = 0 := by omega
    subst this
    simp [fpowAux]
  | succ n ih =>
    intro base e acc he
    unfold fpowAux
    by_cases h0 : e = 0
    · subst h0; simp
    · simp only [h0, if_false]
      rw [ih _ _ _ (by omega)]
      have hdecomp : e = 2 * (e / 2) + e % 2 := by omega
      by_cases hodd : e % 2 = 1
      · simp only [hodd, if_true, cast_fmul]
        conv_rhs => rw [hdecomp, hodd, pow_add, pow_mul, pow_one]
        ring
      · have hev : e % 2 = 0 := by omega
        simp only [hodd, if_false, cast_fmul]
        conv_rhs => rw [hdecomp, hev, pow_add, pow_mul, pow_zero]
        ring

theorem cast_finv (a : Nat) (h : (a : FP) ≠ 0) : ((finv a : Nat) : FP) = (a : FP)⁻¹ := by
  unfold finv fpow
  rw [cast_fpowAux _ _ _ _ (by decide), ZMod.natCast_mod, Nat.cast_one, one_mul]
  have h1 : (a : FP) ^ (P - 1) = 1 := ZMod.pow_card_sub_one_eq_one h
  have h2 : (a : FP) * (a : FP) ^ (P - 2) = 1 := by
    rw [← pow_succ']
    exact h1
  exact eq_inv_of_mul_eq_one_right h2

theorem cast_ne_zero (a : Nat) (hlt : a < P) (h0 : a ≠ 0) : (a : FP) ≠ 0 := by
  intro h
  rw [ZMod.natCast_eq_zero_iff] at h
  exact h0 (Nat.eq_zero_of_dvd_of_lt h hlt)

theorem cast_inj (a b : Nat) (ha : a < P) (hb : b < P) (h : (a : FP) = (b : FP)) : a = b := by
  have := (ZMod.natCast_eq_natCast_iff' a b P).mp h
  rwa [Nat.mod_eq_of_lt ha, Nat.mod_eq_of_lt hb] at this

theorem split16 (l : List Nat) (h : 16 ≤ l.length) :
    ∃ x0 x1 x2 x3 x4 x5 x6 x7 x8 x9 x10 x11 x12 x13 x14 x15 t,
      l = x0 :: x1 :: x2 :: x3 :: x4 :: x5 :: x6 :: x7 :: x8 :: x9 :: x10 :: x11 :: x12 :: x13 :: x14 :: x15 :: t := by
  match l, h with
  | x0 :: x1 :: x2 :: x3 :: x4 :: x5 :: x6 :: x7 :: x8 :: x9 :: x10 :: x11 :: x12 :: x13 :: x14 :: x15 :: t, _ =>
    exact ⟨x0, x1, x2, x3, x4, x5, x6, x7, x8, x9, x10, x11, x12, x13, x14, x15, t, rfl⟩

/-- Specification of the depth helper column `h0` (`1 / (depth - 16)`, zero at depth 16). -/
def H0ok (depth : Nat) (h0 : FP) : Prop :=
  if depth = 16 then h0 = 0 else h0 * ((depth : FP) - 16) = 1

/-- The value the processor writes (`h0Of`) meets the specification for every reachable depth. -/
theorem h0Of_ok (depth : Nat) (h16 : 16 ≤ depth) (hlt : depth < P) : H0ok depth ((h0Of depth : Nat) : FP) := by
  unfold H0ok h0Of
  by_cases h : depth = 16
  · simp [h]
  · have h1 : ¬ depth ≤ 16 := by omega
    simp only [h, h1, if_false]
    have hne : ((depth - 16 : Nat) : FP) ≠ 0 := cast_ne_zero _ (by omega) (by omega)
    rw [cast_finv _ hne]
    have : ((depth : FP) - 16) = ((depth - 16 : Nat) : FP) := by
      rw [Nat.cast_sub h16]; norm_num
    rw [this]
    exact inv_mul_cancel₀ hne

/-- An honest transition: the rows of `vm` (executing `op` with the helper registers the processor
    writes) and of `vm'`; `b1'` follows the clock on right shifts. -/
def HonestHolds (vm vm' : Vm) (op : Op) : Prop :=
  ∀ (b1 b1' h0 h0' : FP) (opn : Nat) (hlpn : List Nat),
    H0ok vm.stack.length h0 → (isRight op = true → b1' = (vm.clk : FP)) →
    Holds (rowWith vm op.code (helpersOf op vm.stack) b1 h0) (rowWith vm' opn hlpn b1' h0')

set_option hygiene false in
/-- Evaluate every constraint on the concrete row pair in the context (stack given by `hs`). -/
macro "honest_simp" : tactic => `(tactic| (
  simp [Holds, stackConstraints, overflowCs, systemCs, fieldCs, manipCs, u32Cs, ioCs, generalCs,
    rowWith, Row.st, Row.hp, Row.is, Row.inR, Op.code, c, helpersOf, pad16, setStack, isRight,
    noShift, leftShift, rightShift, leftShiftAny, rightShiftAny, topBinary, Row.overflow, bnot, isBinary,
    Row.isLoopEnd, Row.isCallEnd, Row.isSyscallEnd, List.range, List.range.loop,
    cast_fadd, cast_fmul, cast_fneg, cast_fsub, hs, H0ok, insertAt] at hh hb ⊢))

set_option hygiene false in
macro "honest_close" : tactic => `(tactic| (
  (try subst hb)
  (repeat' apply And.intro) <;>
    first
      | done
      | ring1
      | linear_combination hh
      | linear_combination (-1 : FP) * hh
      | (left; linear_combination hh)
      | (left; linear_combination (-1 : FP) * hh)
      | (right; ring1)))

set_option hygiene false in
/-- Whole proof for operations that cannot fail and whose result is a polynomial of the operands. -/
macro "honest_tac" : tactic => `(tactic| (
  intro b1 b1' h0 h0' opn hlpn hh hb
  obtain ⟨x0, x1, x2, x3, x4, x5, x6, x7, x8, x9, x10, x11, x12, x13, x14, x15, t, hs⟩ := split16 _ hl
  simp only [step, stepCore, dup, movup, movdn, hs] at h
  cases h
  cases t with
  | nil => honest_simp <;> honest_close
  | cons t0 t => honest_simp <;> honest_close))

end Miden.C03
