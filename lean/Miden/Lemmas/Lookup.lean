/-
  Helper lemmas about the auxiliary column builders (`Miden.Model.Lookup`) over an arbitrary field:
  the backward pass of `build_aux_column` computes the running-product specification, closed forms
  of the running product and of the LogUp running sum.
-/
import Miden.Model.Lookup
import Mathlib.Algebra.Field.Basic
import Mathlib.Tactic.FieldSimp
import Mathlib.Tactic.Ring
import Mathlib.Algebra.BigOperators.Group.List.Basic
import Mathlib.Algebra.BigOperators.Ring.List

namespace Miden.Lookup

variable {F : Type} [Field F]


theorem prod_eq (l : List F) : prod l = l.prod := by
  unfold prod
  rw [List.prod_eq_foldl]

theorem backward_snd (xs : List (F × F)) (d : F) :
    (backward xs d).2 = d * (xs.map Prod.snd).prod := by
  induction xs with
  | nil => simp [backward]
  | cons x xs ih =>
    obtain ⟨rp, rq⟩ := x
    simp only [backward, List.map_cons, List.prod_cons]
    rw [ih]; ring

theorem zip_prefix_snd (v : F) (resp : List F) (req : List F) (q0 : F) (h : resp.length = req.length) :
    (((prefixProds v resp).zip (q0 :: req)).map Prod.snd) = q0 :: req := by
  induction resp generalizing v req q0 with
  | nil =>
    cases req with
    | nil => simp [prefixProds]
    | cons _ _ => simp at h
  | cons r rs ih =>
    cases req with
    | nil => simp at h
    | cons q qs =>
      simp only [prefixProds, List.zip_cons_cons, List.map_cons]
      rw [ih (v * r) qs q (by simpa using h)]

/-- Generalised correctness of the backward pass. -/
theorem backward_spec (v acc q0 : F) (resp req : List F) (h : resp.length = req.length)
    (hne : ∀ q ∈ req, q ≠ 0) :
    (backward ((prefixProds v resp).zip (q0 :: req)) (acc * req.prod)⁻¹).1
      = specColumn v acc resp req := by
  induction resp generalizing v acc q0 req with
  | nil =>
    cases req with
    | nil => simp [prefixProds, backward, specColumn]
    | cons _ _ => simp at h
  | cons r rs ih =>
    cases req with
    | nil => simp at h
    | cons q qs =>
      have hq : q ≠ 0 := hne q (by simp)
      have hqs : ∀ x ∈ qs, x ≠ 0 := fun x hx => hne x (by simp [hx])
      have hprod : qs.prod ≠ 0 := List.prod_ne_zero (by
        intro h0; exact hqs 0 h0 rfl)
      simp only [prefixProds, List.zip_cons_cons, backward, specColumn]
      have hd : (acc * (q :: qs).prod)⁻¹ = ((acc * q) * qs.prod)⁻¹ := by
        rw [List.prod_cons]; ring_nf
      rw [hd, ih (v * r) (acc * q) q qs (by simpa using h) hqs]
      congr 1
      rw [backward_snd, zip_prefix_snd _ _ _ _ (by simpa using h)]
      rw [List.prod_cons]
      by_cases hacc : acc = 0
      · subst hacc; simp
      · field_simp

theorem buildAuxColumn_eq_spec_aux (v q0 : F) (resp req : List F) (h : resp.length = req.length)
    (hne : ∀ q ∈ req, q ≠ 0) :
    buildAuxColumn v q0 resp req = specColumn v 1 resp req := by
  unfold buildAuxColumn
  rw [prod_eq]
  have := backward_spec v 1 q0 resp req h hne
  simpa using this



theorem specColumn_ne_nil (v acc : F) (resp req : List F) : specColumn v acc resp req ≠ [] := by
  cases resp <;> cases req <;> simp [specColumn]

theorem specColumn_length (v acc : F) (resp req : List F) (h : resp.length = req.length) :
    (specColumn v acc resp req).length = resp.length + 1 := by
  induction resp generalizing v acc req with
  | nil => cases req <;> simp [specColumn]
  | cons r rs ih =>
    cases req with
    | nil => simp at h
    | cons q qs => simp [specColumn, ih (v * r) (acc * q) qs (by simpa using h)]

/-- Every value of the column: `init · ∏_{k<i} resp k / (acc · ∏_{k<i} req k)`. -/
theorem specColumn_getElem (v acc : F) (resp req : List F) (h : resp.length = req.length)
    (i : Nat) (hi : i < (specColumn v acc resp req).length) :
    (specColumn v acc resp req)[i] = v * (resp.take i).prod * (acc * (req.take i).prod)⁻¹ := by
  induction resp generalizing v acc req i with
  | nil =>
    cases req with
    | nil =>
      simp [specColumn] at hi ⊢
    | cons _ _ => simp at h
  | cons r rs ih =>
    cases req with
    | nil => simp at h
    | cons q qs =>
      cases i with
      | zero => simp [specColumn]
      | succ j =>
        simp only [specColumn, List.getElem_cons_succ, List.take_succ_cons, List.prod_cons]
        rw [ih (v * r) (acc * q) qs (by simpa using h)]
        ring_nf

theorem specColumn_getLast (v acc : F) (resp req : List F) (h : resp.length = req.length) :
    (specColumn v acc resp req).getLast (specColumn_ne_nil v acc resp req)
      = v * resp.prod * (acc * req.prod)⁻¹ := by
  rw [List.getLast_eq_getElem]
  rw [specColumn_getElem v acc resp req h]
  simp only [specColumn_length v acc resp req h, Nat.add_sub_cancel]
  rw [List.take_length, h, List.take_length]



/-- Net contribution of one row to the LogUp running sum. -/
def rowDelta (alpha : F) (row : List (F × F) × List F) : F :=
  (row.1.map (fun mv => mv.1 * (alpha - mv.2)⁻¹)).sum - (row.2.map (fun l => (alpha - l)⁻¹)).sum

theorem foldl_add_eq (f : (F × F) → F) (b : F) (l : List (F × F)) :
    l.foldl (fun acc mv => acc + f mv) b = b + (l.map f).sum := by
  induction l generalizing b with
  | nil => simp
  | cons x xs ih => simp only [List.foldl_cons, List.map_cons, List.sum_cons]; rw [ih]; ring

theorem foldl_sub_eq (f : F → F) (b : F) (l : List F) :
    l.foldl (fun acc x => acc - f x) b = b - (l.map f).sum := by
  induction l generalizing b with
  | nil => simp
  | cons x xs ih => simp only [List.foldl_cons, List.map_cons, List.sum_cons]; rw [ih]; ring

theorem logUpColumn_ne_nil (alpha b : F) (rows : List (List (F × F) × List F)) :
    logUpColumn alpha b rows ≠ [] := by
  cases rows with
  | nil => simp [logUpColumn]
  | cons r rs => obtain ⟨t, l⟩ := r; simp [logUpColumn]

/-- Closed form of the LogUp bus: the last value is the first one plus the net contribution of
    every row. -/
theorem logUpColumn_getLast (alpha b : F) (rows : List (List (F × F) × List F)) :
    (logUpColumn alpha b rows).getLast (logUpColumn_ne_nil alpha b rows)
      = b + (rows.map (rowDelta alpha)).sum := by
  induction rows generalizing b with
  | nil => simp [logUpColumn]
  | cons r rs ih =>
    obtain ⟨t, l⟩ := r
    simp only [logUpColumn]
    rw [List.getLast_cons (logUpColumn_ne_nil _ _ _), ih]
    rw [foldl_sub_eq (fun l => (alpha - l)⁻¹), foldl_add_eq (fun mv => mv.1 * (alpha - mv.2)⁻¹)]
    simp only [List.map_cons, List.sum_cons, rowDelta]
    ring

theorem sum_rowDelta (alpha : F) (rows : List (List (F × F) × List F)) :
    (rows.map (rowDelta alpha)).sum
      = ((rows.flatMap (·.1)).map (fun mv => mv.1 * (alpha - mv.2)⁻¹)).sum
        - ((rows.flatMap (·.2)).map (fun l => (alpha - l)⁻¹)).sum := by
  induction rows with
  | nil => simp
  | cons r rs ih =>
    simp only [List.map_cons, List.sum_cons, List.flatMap_cons, List.map_append, List.sum_append, ih,
      rowDelta]
    ring

theorem sum_replicate_terms (g : F → F) (ts : List (ℕ × F)) :
    ((ts.flatMap (fun mv => List.replicate mv.1 mv.2)).map g).sum
      = (ts.map (fun mv => (mv.1 : F) * g mv.2)).sum := by
  induction ts with
  | nil => simp
  | cons t ts ih =>
    simp only [List.flatMap_cons, List.map_append, List.sum_append, ih, List.map_cons, List.sum_cons,
      List.map_replicate, List.sum_replicate, nsmul_eq_mul]

theorem flatMap_snd_cast (rows : List (List (ℕ × F) × List F)) :
    ((rows.map (fun r => (r.1.map (fun mv => ((mv.1 : F), mv.2)), r.2))).flatMap (·.2))
      = rows.flatMap (·.2) := by
  induction rows with
  | nil => simp
  | cons r rs ih => simp only [List.map_cons, List.flatMap_cons, ih]

theorem flatMap_fst_cast (rows : List (List (ℕ × F) × List F)) :
    ((rows.map (fun r => (r.1.map (fun mv => ((mv.1 : F), mv.2)), r.2))).flatMap (·.1))
      = (rows.flatMap (·.1)).map (fun mv => ((mv.1 : F), mv.2)) := by
  induction rows with
  | nil => simp
  | cons r rs ih => simp only [List.map_cons, List.flatMap_cons, ih, List.map_append]


end Miden.Lookup
