import Miden.Model.Vm
namespace Miden
namespace Vm

theorem pad16_len (l : List Nat) : 16 ≤ (pad16 l).length := by
  unfold pad16; simp; omega

theorem pad16_len_ge (l : List Nat) : l.length ≤ (pad16 l).length := by
  unfold pad16; simp

theorem pad16_of_ge {l : List Nat} (h : 16 ≤ l.length) : pad16 l = l := by
  unfold pad16
  have : 16 - l.length = 0 := by omega
  simp [this]

theorem insertAt_len : ∀ (n x : Nat) (l : List Nat), (insertAt n x l).length = l.length + 1
  | 0, _, _ => rfl
  | n + 1, x, y :: l => by simp [insertAt, insertAt_len n x l]
  | n + 1, x, [] => by simp [insertAt]

theorem mds_len : Generated.mds.length = 12 := by decide
theorem ark1_len : ∀ r, r < 7 → (Generated.ark1.getD r []).length = 12 := by decide
theorem ark2_len : ∀ r, r < 7 → (Generated.ark2.getD r []).length = 12 := by decide

theorem round_len (s : List Nat) (r : Nat) (hr : r < 7) : (Rpo.round s r).length = 12 := by
  have h2 := ark2_len r hr
  simp only [List.getD_eq_getElem?_getD] at h2
  simp [Rpo.round, Rpo.applyMds, Rpo.addConsts, mds_len, h2]

theorem permute_len (s : List Nat) : (Rpo.permute s).length = 12 := by
  simp only [Rpo.permute, List.range, List.range.loop, List.foldl]
  exact round_len _ 6 (by decide)

theorem stepCore_len {vm r : Vm} {op : Op} (hl : 16 ≤ vm.stack.length)
    (h : vm.stepCore op = .ok r) : 16 ≤ r.stack.length := by
  cases op <;> simp only [stepCore, dup, movup, movdn, validAddr] at h <;>
    (repeat' (split at h)) <;> (try cases h) <;>
    (try simp only [setStack]) <;>
    (try (first
      | exact pad16_len _
      | exact hl
      | (simp_all only [List.length_cons, insertAt_len] <;> omega)
      | (simp only [List.length_cons, List.length_eraseIdx]; split <;> omega)
      | (simp only [List.length_append, List.length_reverse, permute_len, List.length_drop]; omega)
      | (simp_all [insertAt_len] <;> omega)))

theorem step_len {vm vm' : Vm} {op : Op} (hl : 16 ≤ vm.stack.length)
    (h : vm.step op = .ok vm') : 16 ≤ vm'.stack.length := by
  unfold step at h
  split at h
  · cases h
  · rename_i r hr
    cases h
    exact stepCore_len (r := r) hl hr

/-- NOOP changes nothing. -/
theorem step_noop (vm : Vm) : vm.step .noop = .ok vm := by
  simp [step, stepCore]

/-- DROP removes the top element and keeps the depth at 16 or more. -/
theorem step_drop (vm : Vm) (x : Nat) (r : List Nat) (h : vm.stack = x :: r) :
    vm.step .drop = .ok { vm with stack := pad16 r } := by
  simp [step, stepCore, h, setStack]

end Vm
end Miden
