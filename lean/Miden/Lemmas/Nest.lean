/-
  C13 support: the rows of a span are its operations plus alignment NOOPs / RESPAN markers, and the
  row stream of any execution is properly nested (every block start is closed by its own END).
-/
import Miden.Lemmas.Runs
import Miden.Lemmas.Batch
namespace Miden
namespace Nest
open Miden.Vm

/-- A user operation of the row stream: neither an alignment NOOP nor a RESPAN marker. -/
def keep (o : Op) : Bool := o != .noop && o != .respan

theorem keep_noop : keep .noop = false := rfl
theorem keep_respan : keep .respan = false := rfl

theorem go_filter (b : OpBatch) : ∀ (ops : List Op) (i g ng : Nat) (acc : List Op),
    (batchExecOps.go b ops i g ng acc).1.reverse.filter keep = acc.reverse.filter keep ++ ops.filter keep := by
  intro ops
  induction ops with
  | nil => intro i g ng acc; simp [batchExecOps.go]
  | cons op rest ih =>
    intro i g ng acc
    rw [batchExecOps.go]
    simp only []
    split
    · rw [ih]
      by_cases hi : op.hasImm = true
      · simp only [hi, if_true, List.reverse_cons, List.filter_append, List.filter_cons, List.filter_nil, keep_noop]
        cases keep op <;> simp
      · simp only [hi, if_false, List.reverse_cons, List.filter_append, List.filter_cons, List.filter_nil]
        cases hk : keep op <;> simp [hk]
    · rw [ih]
      simp only [List.reverse_cons, List.filter_append, List.filter_cons, List.filter_nil]
      cases keep op <;> simp

theorem batchExec_filter (b : OpBatch) : (batchExecOps b).filter keep = b.ops.filter keep := by
  unfold batchExecOps
  simp only []
  rw [List.filter_append, go_filter]
  have : (List.replicate (nextPow2 b.numGroups - (batchExecOps.go b b.ops 0 0 1 []).2) Op.noop).filter keep = [] := by
    rw [List.filter_eq_nil_iff]
    intro a ha
    rw [List.eq_of_mem_replicate ha]; simp [keep]
  rw [this]; simp

/-- **The decoded user-operation stream of a span is exactly the span's operations**: dropping the
    alignment NOOPs and RESPAN markers from the rows of any span leaves its operations, in order
    (NOOPs written in the source are indistinguishable from alignment NOOPs and dropped on both sides). -/
theorem spanRows_user_ops (ops : List Op) : (spanRows ops).filter keep = ops.filter keep := by
  have hf := batchOps_flatten ops
  unfold spanRows
  generalize batchOps ops = bs at hf
  subst hf
  cases bs with
  | nil => rfl
  | cons b bs =>
    simp only [List.filter_append, batchExec_filter, List.flatMap_cons]
    congr 1
    induction bs with
    | nil => rfl
    | cons c cs ih =>
      simp only [List.flatMap_cons, List.filter_append, List.filter_cons, keep_respan, batchExec_filter, ih]
      simp

theorem spanRows_mem {ops : List Op} {o : Op} (h : o ∈ spanRows ops) : o ∈ ops ∨ o = .noop ∨ o = .respan := by
  by_cases hk : keep o = true
  · left
    have : o ∈ (spanRows ops).filter keep := List.mem_filter.mpr ⟨h, hk⟩
    rw [spanRows_user_ops] at this
    exact (List.mem_filter.mp this).1
  · right
    simp only [keep, Bool.and_eq_true, bne_iff_ne, ne_eq, not_and, Classical.not_not] at hk
    by_cases h1 : o = .noop
    · exact Or.inl h1
    · exact Or.inr (hk h1)


/-- Nesting depth after one row; `none` when an END has nothing to close. -/
def nestStep (d : Nat) : Op → Option Nat
  | .join | .split | .loop | .call | .syscall | .dyn | .span => some (d + 1)
  | .end => if d = 0 then none else some (d - 1)
  | _ => some d

/-- Nesting depth after a row sequence started at depth `d`; `none` if some END closes nothing. -/
def nest : List Op → Nat → Option Nat
  | [], d => some d
  | o :: l, d => (nestStep d o).bind (nest l)

theorem nest_append (l1 l2 : List Op) : ∀ d, nest (l1 ++ l2) d = (nest l1 d).bind (nest l2) := by
  induction l1 with
  | nil => intro d; rfl
  | cons o l ih =>
    intro d
    simp only [List.cons_append, nest]
    cases nestStep d o with
    | none => rfl
    | some d' => exact ih d'

theorem nestStep_plain {o : Op} (h : o.isControl = false) (d : Nat) : nestStep d o = some d := by
  cases o <;> first | rfl | (simp [Op.isControl] at h)

theorem nest_plain {l : List Op} (h : ∀ o ∈ l, o.isControl = false ∨ o = .respan) : ∀ d, nest l d = some d := by
  induction l with
  | nil => intro d; rfl
  | cons o l ih =>
    intro d
    have ho : nestStep d o = some d := by
      rcases h o (List.mem_cons_self) with h1 | h1
      · exact nestStep_plain h1 d
      · subst h1; rfl
    simp only [nest, ho, Option.bind_some]
    exact ih (fun o' ho' => h o' (List.mem_cons_of_mem _ ho')) d

/-- No span holds a control operation (what `Span::new` is given by the assembler). -/
def clean : Block → Bool
  | .span ops => ops.all (fun o => !o.isControl)
  | .join a b => clean a && clean b
  | .split t f => clean t && clean f
  | .loop b => clean b
  | _ => true

def EnvClean (env : Env) : Prop := ∀ t b, env.cbTable.lookup t = some b → clean b = true

theorem nest_spanRows {ops : List Op} (h : clean (.span ops) = true) (d : Nat) : nest (spanRows ops) d = some d := by
  apply nest_plain
  intro o ho
  rcases spanRows_mem ho with h1 | h1 | h1
  · left
    simp only [clean, List.all_eq_true, Bool.not_eq_true'] at h
    exact h o h1
  · left; subst h1; rfl
  · right; exact h1

theorem nest_one (o : Op) (d : Nat) : nest [o] d = nestStep d o := by
  simp only [nest]; cases nestStep d o <;> rfl

theorem nest_end (d : Nat) : (some (d + 1) : Option Nat).bind (nest [Op.end]) = some d := by
  simp [nest, nestStep]

mutual
theorem runs_nest {env : Env} (he : EnvClean env) : ∀ {b : Block} {l : List Op}, Runs env b l → clean b = true →
    ∀ d, nest l d = some d
  | _, _, .span ops, hc, d => by
    rw [nest_append, nest_append, nest_one]
    show ((some (d + 1)).bind (nest (spanRows ops))).bind _ = _
    rw [Option.bind_some, nest_spanRows hc]; exact nest_end d
  | _, _, @Runs.join _ a b la lb ha hb, hc, d => by
    have hc' : clean a = true ∧ clean b = true := by simpa [clean] using hc
    rw [nest_append, nest_append, nest_append, nest_one]
    show ((((some (d + 1)).bind (nest la))).bind (nest lb)).bind _ = _
    rw [Option.bind_some, runs_nest he ha hc'.1, Option.bind_some, runs_nest he hb hc'.2]; exact nest_end d
  | _, _, @Runs.splitT _ t f l h, hc, d => by
    have hc' : clean t = true ∧ clean f = true := by simpa [clean] using hc
    rw [nest_append, nest_append, nest_one]
    show (((some (d + 1)).bind (nest l))).bind _ = _
    rw [Option.bind_some, runs_nest he h hc'.1]; exact nest_end d
  | _, _, @Runs.splitF _ t f l h, hc, d => by
    have hc' : clean t = true ∧ clean f = true := by simpa [clean] using hc
    rw [nest_append, nest_append, nest_one]
    show (((some (d + 1)).bind (nest l))).bind _ = _
    rw [Option.bind_some, runs_nest he h hc'.2]; exact nest_end d
  | _, _, .loopSkip body, _, d => rfl
  | _, _, @Runs.loopEnter _ body l lt h ht, hc, d => by
    have hc' : clean body = true := by simpa [clean] using hc
    rw [nest_append, nest_append, nest_one]
    show (((some (d + 1)).bind (nest l))).bind _ = _
    rw [Option.bind_some, runs_nest he h hc', Option.bind_some]
    exact tail_nest he ht hc' d
  | _, _, @Runs.call _ target sc b l hl h, _, d => by
    rw [nest_append, nest_append, nest_one]
    have h1 : nestStep d (if sc then Op.syscall else Op.call) = some (d + 1) := by cases sc <;> rfl
    rw [h1, Option.bind_some, runs_nest he h (he _ _ hl)]; exact nest_end d
  | _, _, @Runs.dyncall _ target sc l _ h, _, d => by
    rw [nest_append, nest_append, nest_one]
    have h1 : nestStep d (if sc then Op.syscall else Op.call) = some (d + 1) := by cases sc <;> rfl
    rw [h1, Option.bind_some, dyn_nest he h]; exact nest_end d
  | _, _, .dyn h, _, d => dyn_nest he h d
theorem dyn_nest {env : Env} (he : EnvClean env) : ∀ {l : List Op}, DynRuns env l → ∀ d, nest l d = some d
  | _, @DynRuns.mk _ target b l hl h, d => by
    rw [nest_append, nest_append, nest_one]
    show (((some (d + 1)).bind (nest l))).bind _ = _
    rw [Option.bind_some, runs_nest he h (he _ _ hl)]; exact nest_end d
theorem tail_nest {env : Env} (he : EnvClean env) : ∀ {body : Block} {l : List Op}, LoopTail env body l →
    clean body = true → ∀ d, nest l (d + 1) = some d
  | _, _, .done body, _, d => rfl
  | _, _, @LoopTail.again _ body l lt h ht, hc, d => by
    rw [nest_append, nest_append, nest_one]
    show (((some (d + 1)).bind (nest l))).bind _ = _
    rw [Option.bind_some, runs_nest he h hc, Option.bind_some]
    exact tail_nest he ht hc d
end

end Nest
end Miden
