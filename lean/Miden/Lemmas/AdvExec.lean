/-
  Symbolic execution with the advice tape: (stack, fmp, memory, advice) view of straight-line code
  (`runOps_a`), evaluation / inversion rules for `pipe`, the data view `DA`, and the while-loop rule
  with the tape in the invariant (`loop_rule_a`, stated for whatever state the body run produces, so
  that a tape that is too short is handled by inversion).
-/
import Miden.Lemmas.Memcopy
namespace Miden
set_option linter.unusedSimpArgs false
set_option linter.unusedVariables false
open Trunc

/-- Stack, frame pointer, memory and advice tape of the current context. -/
structure ASt where
  stack : List Nat
  fmp : Nat
  mem : Mem
  adv : List Nat

/-- Operations whose effect is a function of stack, fmp, memory and advice tape. -/
def Op.isASimple (op : Op) : Bool :=
  op.isMSimple || (match op with
    | .advpop | .advpopw | .pipe => true
    | _ => false)

def aStep (ctx : Nat) (op : Op) (s : ASt) : Except Err ASt :=
  match Vm.stepCore { stack := s.stack, fmp := s.fmp, mem := s.mem, ctx := ctx, adv := s.adv } op with
  | .ok v => .ok ⟨v.stack, v.fmp, v.mem, v.adv⟩
  | .error e => .error e

def runA (ctx : Nat) : List Op → ASt → Except Err ASt
  | [], s => .ok s
  | op :: rest, s => match aStep ctx op s with
    | .ok s' => runA ctx rest s'
    | .error e => .error e

theorem aStep_m (ctx : Nat) (op : Op) (s : List Nat) (f : Nat) (m : Mem) (a : List Nat) (h : op.isMSimple = true) :
    aStep ctx op ⟨s, f, m, a⟩ = (mStep ctx op ⟨s, f, m⟩).map (fun st => ⟨st.stack, st.fmp, st.mem, a⟩) := by
  have h1 := stepCore_m { stack := s, fmp := f, mem := m, ctx := ctx, adv := a } op h
  unfold aStep
  rw [h1]
  simp only
  cases mStep ctx op ⟨s, f, m⟩ <;> rfl

set_option maxHeartbeats 2000000 in
theorem stepCore_a (vm : Vm) (op : Op) (h : op.isASimple = true) :
    vm.stepCore op = match aStep vm.ctx op ⟨vm.stack, vm.fmp, vm.mem, vm.adv⟩ with
      | .ok s => .ok { vm with stack := s.stack, fmp := s.fmp, mem := s.mem, adv := s.adv }
      | .error e => .error e := by
  by_cases hm : op.isMSimple = true
  · rw [stepCore_m vm op hm, aStep_m vm.ctx op vm.stack vm.fmp vm.mem vm.adv hm]
    cases mStep vm.ctx op ⟨vm.stack, vm.fmp, vm.mem⟩ <;> rfl
  · have : op = .advpop ∨ op = .advpopw ∨ op = .pipe := by
      cases op <;> simp_all [Op.isASimple, Op.isMSimple, Op.isStackOnly]
    rcases this with rfl | rfl | rfl
    all_goals (simp only [aStep, Vm.stepCore, Vm.validAddr] <;> (repeat' split) <;> simp_all <;> (try (cases vm; simp_all)) <;> (try (subst_vars; simp_all)))

theorem step_a (vm : Vm) (op : Op) (h : op.isASimple = true) :
    vm.step op = match aStep vm.ctx op ⟨vm.stack, vm.fmp, vm.mem, vm.adv⟩ with
      | .ok s => .ok { vm with stack := s.stack, fmp := s.fmp, mem := s.mem, adv := s.adv }
      | .error e => .error e := by
  unfold Vm.step
  rw [stepCore_a vm op h]
  cases aStep vm.ctx op ⟨vm.stack, vm.fmp, vm.mem, vm.adv⟩ <;> rfl

theorem runOps_a (ops : List Op) (h : ops.all Op.isASimple = true) (vm : Vm) :
    runOps ops vm = match runA vm.ctx ops ⟨vm.stack, vm.fmp, vm.mem, vm.adv⟩ with
      | .ok s => .ok { vm with stack := s.stack, fmp := s.fmp, mem := s.mem, adv := s.adv }
      | .error e => .error e := by
  induction ops generalizing vm with
  | nil => rfl
  | cons op rest ih =>
    simp only [List.all_cons, Bool.and_eq_true] at h
    simp only [runOps, runA, step_a vm op h.1]
    cases hp : aStep vm.ctx op ⟨vm.stack, vm.fmp, vm.mem, vm.adv⟩ with
    | error e => rfl
    | ok s => exact ih h.2 { vm with stack := s.stack, fmp := s.fmp, mem := s.mem, adv := s.adv }


/-! ### Evaluation rules -/

theorem runA_nil (ctx : Nat) (s : ASt) : runA ctx [] s = .ok s := rfl

theorem runA_cons_ok {ctx : Nat} {op : Op} {rest : List Op} {s s' : ASt} (h : aStep ctx op s = .ok s') :
    runA ctx (op :: rest) s = runA ctx rest s' := by simp [runA, h]

theorem aStep_pure (ctx : Nat) (op : Op) (s : List Nat) (f : Nat) (m : Mem) (a : List Nat) (h : op.isStackOnly = true) :
    aStep ctx op ⟨s, f, m, a⟩ = (pureStep op s).map (fun s' => ⟨s', f, m, a⟩) := by
  have hm : op.isMSimple = true := by simp [Op.isMSimple, h]
  rw [aStep_m ctx op s f m a hm, mStep_pure ctx op s f m h]
  cases pureStep op s <;> rfl

/-- Stack-only operations are evaluated by the `ps_*` rules. -/
theorem ra_pure (ctx : Nat) (op : Op) (rest : List Op) (s : List Nat) (f : Nat) (m : Mem) (a : List Nat)
    (h : op.isStackOnly = true) :
    runA ctx (op :: rest) ⟨s, f, m, a⟩ = (pureStep op s).bind (fun s' => runA ctx rest ⟨s', f, m, a⟩) := by
  simp only [runA, aStep_pure ctx op s f m a h]
  cases pureStep op s <;> rfl

theorem ra_pipe (ctx x0 x1 x2 x3 x4 x5 x6 x7 s8 s9 s10 s11 a : Nat) (r : List Nat) (f : Nat) (m : Mem)
    (t0 t1 t2 t3 t4 t5 t6 t7 : Nat) (adv : List Nat) (rest : List Op) (h : a + 1 ≤ u32max) :
    runA ctx (.pipe :: rest) ⟨x0 :: x1 :: x2 :: x3 :: x4 :: x5 :: x6 :: x7 :: s8 :: s9 :: s10 :: s11 :: a :: r, f, m,
        t0 :: t1 :: t2 :: t3 :: t4 :: t5 :: t6 :: t7 :: adv⟩
      = runA ctx rest ⟨t7 :: t6 :: t5 :: t4 :: t3 :: t2 :: t1 :: t0 :: s8 :: s9 :: s10 :: s11 :: (a + 2) :: r, f,
          (m.write ctx a ⟨t0, t1, t2, t3⟩).write ctx (a + 1) ⟨t4, t5, t6, t7⟩, adv⟩ :=
  runA_cons_ok (by
    have h1 : ¬ (a > u32max) := by omega
    have h2 : ¬ (a + 1 > u32max) := by omega
    simp [aStep, Vm.stepCore, Vm.validAddr, h1, h2])

/-- A `pipe` that succeeds found eight elements on the tape. -/
theorem pipe_inv {ctx x0 x1 x2 x3 x4 x5 x6 x7 s8 s9 s10 s11 a : Nat} {r : List Nat} {f : Nat} {m : Mem}
    {rest : List Op} {st : ASt} (ha : a + 1 ≤ u32max) : ∀ (adv : List Nat),
    runA ctx (.pipe :: rest) ⟨x0 :: x1 :: x2 :: x3 :: x4 :: x5 :: x6 :: x7 :: s8 :: s9 :: s10 :: s11 :: a :: r, f, m, adv⟩ = .ok st →
    ∃ t0 t1 t2 t3 t4 t5 t6 t7 adv', adv = t0 :: t1 :: t2 :: t3 :: t4 :: t5 :: t6 :: t7 :: adv' ∧
      runA ctx rest ⟨t7 :: t6 :: t5 :: t4 :: t3 :: t2 :: t1 :: t0 :: s8 :: s9 :: s10 :: s11 :: (a + 2) :: r, f,
          (m.write ctx a ⟨t0, t1, t2, t3⟩).write ctx (a + 1) ⟨t4, t5, t6, t7⟩, adv'⟩ = .ok st
  | t0 :: t1 :: t2 :: t3 :: t4 :: t5 :: t6 :: t7 :: adv', h =>
    ⟨t0, t1, t2, t3, t4, t5, t6, t7, adv', rfl, by rwa [ra_pipe _ _ _ _ _ _ _ _ _ _ _ _ _ _ _ _ _ _ _ _ _ _ _ _ _ _ _ ha] at h⟩
  | [], h => by
    exfalso
    have h1 : ¬ (a > u32max) := by omega
    have h2 : ¬ (a + 1 > u32max) := by omega
    simp [runA, aStep, Vm.stepCore, Vm.validAddr, h1, h2] at h
  | [_], h => by
    exfalso
    have h1 : ¬ (a > u32max) := by omega
    have h2 : ¬ (a + 1 > u32max) := by omega
    simp [runA, aStep, Vm.stepCore, Vm.validAddr, h1, h2] at h
  | [_, _], h => by
    exfalso
    have h1 : ¬ (a > u32max) := by omega
    have h2 : ¬ (a + 1 > u32max) := by omega
    simp [runA, aStep, Vm.stepCore, Vm.validAddr, h1, h2] at h
  | [_, _, _], h => by
    exfalso
    have h1 : ¬ (a > u32max) := by omega
    have h2 : ¬ (a + 1 > u32max) := by omega
    simp [runA, aStep, Vm.stepCore, Vm.validAddr, h1, h2] at h
  | [_, _, _, _], h => by
    exfalso
    have h1 : ¬ (a > u32max) := by omega
    have h2 : ¬ (a + 1 > u32max) := by omega
    simp [runA, aStep, Vm.stepCore, Vm.validAddr, h1, h2] at h
  | [_, _, _, _, _], h => by
    exfalso
    have h1 : ¬ (a > u32max) := by omega
    have h2 : ¬ (a + 1 > u32max) := by omega
    simp [runA, aStep, Vm.stepCore, Vm.validAddr, h1, h2] at h
  | [_, _, _, _, _, _], h => by
    exfalso
    have h1 : ¬ (a > u32max) := by omega
    have h2 : ¬ (a + 1 > u32max) := by omega
    simp [runA, aStep, Vm.stepCore, Vm.validAddr, h1, h2] at h
  | [_, _, _, _, _, _, _], h => by
    exfalso
    have h1 : ¬ (a > u32max) := by omega
    have h2 : ¬ (a + 1 > u32max) := by omega
    simp [runA, aStep, Vm.stepCore, Vm.validAddr, h1, h2] at h

/-! ### Data view with the advice tape -/

def DA (vm : Vm) (s : List Nat) (f : Nat) (m : Mem) (a : List Nat) (c : Nat) : Prop :=
  vm.stack = s ∧ vm.fmp = f ∧ vm.mem = m ∧ vm.adv = a ∧ vm.ctx = c

theorem execRow_noop_DA {env : Env} {vm vm' : Vm} {row : Op} {s f m a c}
    (h : vm.execRow env .noop row = .ok vm') (hd : DA vm s f m a c) : DA vm' s f m a c := by
  have e := execRow_noop_reclk h
  rw [e]; exact hd

theorem execRow_drop_DA {env : Env} {vm vm' : Vm} {row : Op} {x : Nat} {s : List Nat} {f m a c}
    (h : vm.execRow env .drop row = .ok vm') (hd : DA vm (x :: s) f m a c) : DA vm' (padN 16 s) f m a c := by
  unfold Vm.execRow at h
  obtain ⟨hs, hf, hm, ha, hc⟩ := hd
  rw [Vm.step_drop vm x s hs] at h
  have := tick_reclk h
  rw [this]
  exact ⟨by simp [Vm.reclk, pad16_eq], hf, hm, ha, hc⟩

theorem exec_span_DA {env : Env} {fuel : Nat} {ops : List Op} {vm vm' : Vm} {s f m a c}
    (hc : Op.clk ∉ spanRows ops) (hm : (deRespan (spanRows ops)).all Op.isASimple = true)
    (h : Vm.exec env (fuel + 1) (.span ops) vm = .ok vm') (hd : DA vm s f m a c) :
    ∃ st, runA c (deRespan (spanRows ops)) ⟨s, f, m, a⟩ = .ok st ∧ DA vm' st.stack st.fmp st.mem st.adv c := by
  obtain ⟨v, hv, e⟩ := exec_span hc h
  rw [runOps_a _ hm vm] at hv
  obtain ⟨hs, hf, hmm, haa, hcc⟩ := hd
  rw [hs, hf, hmm, haa, hcc] at hv
  cases hr : runA c (deRespan (spanRows ops)) ⟨s, f, m, a⟩ with
  | error e => rw [hr] at hv; cases hv
  | ok st =>
    rw [hr] at hv
    simp only at hv
    cases hv
    refine ⟨st, rfl, ?_⟩
    rw [e]
    exact ⟨rfl, rfl, rfl, rfl, rfl⟩

/-- Loop rule with the advice tape in the invariant (see `Memcopy.loop_rule`). -/
theorem loopIter_rule_a (env : Env) (body : List Op) (hc : Op.clk ∉ spanRows body)
    (hm : (deRespan (spanRows body)).all Op.isASimple = true) (C : Nat)
    (J : Nat → List Nat → Nat → Mem → List Nat → Prop)
    (hlen : ∀ k t f m a, J k t f m a → 16 ≤ t.length)
    (hstep : ∀ k t f m a st, J (k + 1) t f m a → runA C (deRespan (spanRows body)) ⟨t, f, m, a⟩ = .ok st →
      ∃ c t', st.stack = c :: t' ∧ J k t' st.fmp st.mem st.adv ∧ (c = 1 ↔ k ≠ 0) ∧ (c = 0 ↔ k = 0)) :
    ∀ (k fuel : Nat) (vm vm' : Vm) (c : Nat) (t : List Nat) (f : Nat) (m : Mem) (a : List Nat),
      DA vm (c :: t) f m a C → J k t f m a → (c = 1 ↔ k ≠ 0) → (c = 0 ↔ k = 0) →
      Vm.loopIter env fuel (.span body) vm = .ok vm' → ∃ t' f' m' a', DA vm' t' f' m' a' C ∧ J 0 t' f' m' a' := by
  intro k
  induction k with
  | zero =>
    intro fuel vm vm' c t f m a hd hj h1 h0 h
    cases fuel with
    | zero => simp only [Vm.loopIter] at h; cases h
    | succ fuel =>
      simp only [Vm.loopIter] at h
      have hpeek : vm.peek = c := by unfold Vm.peek; rw [hd.1]; rfl
      have hc0 : c = 0 := h0.mpr rfl
      have hc1 : ¬ c = 1 := by omega
      rw [hpeek, if_neg hc1, if_pos hc0] at h
      have hd' := execRow_drop_DA h hd
      rw [padN_of_le (hlen 0 t f m a hj)] at hd'
      exact ⟨t, f, m, a, hd', hj⟩
  | succ k ih =>
    intro fuel vm vm' c t f m a hd hj h1 h0 h
    cases fuel with
    | zero => simp only [Vm.loopIter] at h; cases h
    | succ fuel =>
      simp only [Vm.loopIter] at h
      have hpeek : vm.peek = c := by unfold Vm.peek; rw [hd.1]; rfl
      have hc1 : c = 1 := h1.mpr (by omega)
      rw [hpeek, if_pos hc1] at h
      cases hr : vm.execRow env .drop .repeat with
      | error e => rw [hr] at h; cases h
      | ok v1 =>
        rw [hr] at h; simp only at h
        have hd1 := execRow_drop_DA hr hd
        rw [padN_of_le (hlen (k + 1) t f m a hj)] at hd1
        cases hb : Vm.exec env fuel (.span body) v1 with
        | error e => rw [hb] at h; cases h
        | ok v2 =>
          rw [hb] at h; simp only at h
          cases fuel with
          | zero => simp only [Vm.exec] at hb; cases hb
          | succ fuel =>
            obtain ⟨st, hst, hd2⟩ := exec_span_DA hc hm hb hd1
            obtain ⟨c', t', hs', hj', hc1', hc0'⟩ := hstep k t f m a st hj hst
            rw [hs'] at hd2
            exact ih (fuel + 1) v2 vm' c' t' st.fmp st.mem st.adv hd2 hj' hc1' hc0' h

theorem loop_rule_a (env : Env) (body : List Op) (hc : Op.clk ∉ spanRows body)
    (hm : (deRespan (spanRows body)).all Op.isASimple = true) (C : Nat)
    (J : Nat → List Nat → Nat → Mem → List Nat → Prop)
    (hlen : ∀ k t f m a, J k t f m a → 16 ≤ t.length)
    (hstep : ∀ k t f m a st, J (k + 1) t f m a → runA C (deRespan (spanRows body)) ⟨t, f, m, a⟩ = .ok st →
      ∃ c t', st.stack = c :: t' ∧ J k t' st.fmp st.mem st.adv ∧ (c = 1 ↔ k ≠ 0) ∧ (c = 0 ↔ k = 0))
    (k fuel : Nat) (vm vm' : Vm) (c : Nat) (t : List Nat) (f : Nat) (m : Mem) (a : List Nat)
    (hd : DA vm (c :: t) f m a C) (hj : J k t f m a) (h1 : c = 1 ↔ k ≠ 0) (h0 : c = 0 ↔ k = 0)
    (h : Vm.exec env fuel (.loop (.span body)) vm = .ok vm') :
    ∃ t' f' m' a', DA vm' t' f' m' a' C ∧ J 0 t' f' m' a' := by
  cases fuel with
  | zero => simp only [Vm.exec] at h; cases h
  | succ fuel =>
    simp only [Vm.exec] at h
    have hpeek : vm.peek = c := by unfold Vm.peek; rw [hd.1]; rfl
    rw [hpeek] at h
    cases hr : vm.execRow env .drop .loop with
    | error e => rw [hr] at h; cases h
    | ok v1 =>
      rw [hr] at h; simp only at h
      have hd1 := execRow_drop_DA hr hd
      rw [padN_of_le (hlen k t f m a hj)] at hd1
      cases k with
      | zero =>
        have hc0 : c = 0 := h0.mpr rfl
        have hc1 : ¬ c = 1 := by omega
        rw [if_neg hc1, if_pos hc0] at h
        exact ⟨t, f, m, a, execRow_noop_DA h hd1, hj⟩
      | succ k =>
        have hc1 : c = 1 := h1.mpr (by omega)
        rw [if_pos hc1] at h
        cases hb : Vm.exec env fuel (.span body) v1 with
        | error e => rw [hb] at h; cases h
        | ok v2 =>
          rw [hb] at h; simp only at h
          cases fuel with
          | zero => simp only [Vm.exec] at hb; cases hb
          | succ fuel =>
            obtain ⟨st, hst, hd2⟩ := exec_span_DA hc hm hb hd1
            obtain ⟨c', t', hs', hj', hc1', hc0'⟩ := hstep k t f m a st hj hst
            rw [hs'] at hd2
            exact loopIter_rule_a env body hc hm C J hlen hstep k (fuel + 1) v2 vm' c' t' st.fmp st.mem st.adv hd2 hj' hc1' hc0' h

end Miden
