/-
  The Goldilocks modulus is prime (Lucas test with witness 7), hence `ZMod P` is a field: the
  carrier at which completeness of the stack AIR on honest rows is stated (`Props/C03Air.lean`).
-/
import Miden.Model.Felt
import Mathlib.NumberTheory.LucasPrimality
import Mathlib.Tactic.ReduceModChar
import Mathlib.Tactic.NormNum.Prime
namespace Miden

theorem P_prime : Nat.Prime P := by
  unfold P
  apply lucas_primality 18446744069414584321 (7 : ZMod 18446744069414584321)
  · reduce_mod_char
  · intro q hq hd
    have hfac : (18446744069414584321 - 1 : ℕ) = 2 ^ 32 * 3 * 5 * 17 * 257 * 65537 := by norm_num
    rw [hfac] at hd
    have h2 : Nat.Prime 2 := by norm_num
    have h3 : Nat.Prime 3 := by norm_num
    have h5 : Nat.Prime 5 := by norm_num
    have h17 : Nat.Prime 17 := by norm_num
    have h257 : Nat.Prime 257 := by norm_num
    have h65537 : Nat.Prime 65537 := by norm_num
    have hq' : q = 2 ∨ q = 3 ∨ q = 5 ∨ q = 17 ∨ q = 257 ∨ q = 65537 := by
      rcases (Nat.Prime.dvd_mul hq).mp hd with hd | hd
      · rcases (Nat.Prime.dvd_mul hq).mp hd with hd | hd
        · rcases (Nat.Prime.dvd_mul hq).mp hd with hd | hd
          · rcases (Nat.Prime.dvd_mul hq).mp hd with hd | hd
            · rcases (Nat.Prime.dvd_mul hq).mp hd with hd | hd
              · left; exact (Nat.prime_dvd_prime_iff_eq hq h2).mp (hq.dvd_of_dvd_pow hd)
              · right; left; exact (Nat.prime_dvd_prime_iff_eq hq h3).mp hd
            · right; right; left; exact (Nat.prime_dvd_prime_iff_eq hq h5).mp hd
          · right; right; right; left; exact (Nat.prime_dvd_prime_iff_eq hq h17).mp hd
        · right; right; right; right; left; exact (Nat.prime_dvd_prime_iff_eq hq h257).mp hd
      · right; right; right; right; right; exact (Nat.prime_dvd_prime_iff_eq hq h65537).mp hd
    rcases hq' with rfl | rfl | rfl | rfl | rfl | rfl <;> (norm_num only; reduce_mod_char; decide)

instance : Fact (Nat.Prime P) := ⟨P_prime⟩

end Miden
