import Miden.Model.Asm
import Mathlib.Data.List.Induction
namespace Miden.Asm

theorem mem_union (a b : List Nat) (x : Nat) : x ∈ union a b ↔ x ∈ a ∨ x ∈ b := by
  unfold union
  induction b generalizing a with
  | nil => simp
  | cons y ys ih =>
    simp only [List.foldl_cons]
    rw [ih]
    by_cases h : y ∈ a
    · simp only [h, if_true, List.mem_cons]
      grind
    · simp only [h, if_false, List.mem_append, List.mem_cons, List.not_mem_nil, or_false]
      grind

theorem mem_insert (a : List Nat) (x y : Nat) : x ∈ insert y a ↔ x = y ∨ x ∈ a := by
  unfold insert
  by_cases h : y ∈ a
  · simp only [h, if_true]
    grind
  · simp only [h, if_false, List.mem_append, List.mem_cons, List.not_mem_nil, or_false]
    grind

/-- What one reference contributes. -/
def contrib (done : List (List Nat)) : Ref → List Nat
  | .exec j => done.getD j []
  | .call j => j :: done.getD j []

theorem mem_register (done : List (List Nat)) (acc : List Nat) (r : Ref) (x : Nat) :
    x ∈ register done acc r ↔ x ∈ acc ∨ x ∈ contrib done r := by
  cases r with
  | exec j => simp [register, contrib, mem_union]
  | call j =>
    simp only [register, contrib, mem_insert, mem_union, List.mem_cons]
    constructor
    · rintro (h | h | h)
      · exact Or.inr (Or.inl h)
      · exact Or.inl h
      · exact Or.inr (Or.inr h)
    · rintro (h | h | h)
      · exact Or.inr (Or.inl h)
      · exact Or.inl h
      · exact Or.inr (Or.inr h)

theorem mem_foldl_register (done : List (List Nat)) (refs : List Ref) (acc : List Nat) (x : Nat) :
    x ∈ refs.foldl (register done) acc ↔ x ∈ acc ∨ ∃ r ∈ refs, x ∈ contrib done r := by
  induction refs generalizing acc with
  | nil => simp
  | cons r rs ih =>
    simp only [List.foldl_cons, ih, mem_register, List.mem_cons, exists_eq_or_imp]
    constructor
    · rintro ((h | h) | h)
      · exact Or.inl h
      · exact Or.inr (Or.inl h)
      · exact Or.inr (Or.inr h)
    · rintro (h | h | h)
      · exact Or.inl (Or.inl h)
      · exact Or.inl (Or.inr h)
      · exact Or.inr h

theorem mem_bodyCallset (done : List (List Nat)) (refs : List Ref) (x : Nat) :
    x ∈ bodyCallset done refs ↔ ∃ r ∈ refs, x ∈ contrib done r := by
  unfold bodyCallset
  rw [mem_foldl_register]
  simp

theorem refsBelow_iff (n : Nat) (refs : List Ref) : refsBelow n refs = true ↔ ∀ r ∈ refs, r.idx < n := by
  unfold refsBelow
  rw [List.all_eq_true]
  constructor
  · intro h r hr
    have := h r hr
    cases r <;> simpa [Ref.idx] using this
  · intro h r hr
    have := h r hr
    cases r <;> simpa [Ref.idx] using this

theorem compileAll_append (ps : List (List Ref)) (p : List Ref) :
    compileAll (ps ++ [p]) = compileAll ps ++ [bodyCallset (compileAll ps) p] := by
  unfold compileAll
  rw [List.foldl_append]
  rfl

theorem compileAll_length (ps : List (List Ref)) : (compileAll ps).length = ps.length := by
  induction ps using List.reverseRecOn with
  | nil => rfl
  | append_singleton ps p ih => rw [compileAll_append]; simp [ih]


theorem compileAll_take (ps : List (List Ref)) (i : Nat) :
    compileAll (ps.take i) = (compileAll ps).take i := by
  induction ps using List.reverseRecOn with
  | nil => simp [compileAll]
  | append_singleton ps p ih =>
    by_cases h : i ≤ ps.length
    · rw [List.take_append_of_le_length h, ih, compileAll_append,
        List.take_append_of_le_length (by rw [compileAll_length]; exact h)]
    · have h' : ps.length + 1 ≤ i := by omega
      rw [List.take_of_length_le (by simp; omega), List.take_of_length_le (by
        rw [compileAll_length]; simp; omega)]

theorem register_congr (d1 d2 : List (List Nat)) (acc : List Nat) (r : Ref)
    (h : d1.getD r.idx [] = d2.getD r.idx []) : register d1 acc r = register d2 acc r := by
  cases r <;> simp only [register, Ref.idx] at h ⊢ <;> rw [h]

theorem bodyCallset_congr (d1 d2 : List (List Nat)) (refs : List Ref)
    (h : ∀ r ∈ refs, d1.getD r.idx [] = d2.getD r.idx []) :
    bodyCallset d1 refs = bodyCallset d2 refs := by
  unfold bodyCallset
  generalize ([] : List Nat) = acc
  induction refs generalizing acc with
  | nil => rfl
  | cons r rs ih =>
    simp only [List.foldl_cons]
    rw [register_congr d1 d2 acc r (h r (by simp))]
    exact ih (fun r' hr' => h r' (by simp [hr'])) _

/-- The call set of procedure `i`. -/
def cs (ps : List (List Ref)) (i : Nat) : List Nat := (compileAll ps).getD i []

theorem cs_eq_prefix (ps : List (List Ref)) (i : Nat) (hi : i < ps.length) :
    cs ps i = bodyCallset (compileAll (ps.take i)) (ps.getD i []) := by
  unfold cs
  induction ps using List.reverseRecOn with
  | nil => simp at hi
  | append_singleton ps p ih =>
    rw [compileAll_append]
    by_cases h : i < ps.length
    · have h1 : i < (compileAll ps).length := by rw [compileAll_length]; exact h
      simp only [List.getD_eq_getElem?_getD, List.getElem?_append_left h1, List.getElem?_append_left h]
      have := ih h
      simp only [List.getD_eq_getElem?_getD] at this
      rw [this, List.take_append_of_le_length (by omega)]
    · have : i = ps.length := by simp at hi; omega
      subst this
      have h1 : (compileAll ps).length ≤ ps.length := by rw [compileAll_length]; exact Nat.le_refl _
      simp only [List.getD_eq_getElem?_getD, List.getElem?_append_right h1,
        List.getElem?_append_right (Nat.le_refl _), compileAll_length, Nat.sub_self,
        List.getElem?_cons_zero, Option.getD_some, List.take_left']

theorem wellFormed_iff (ps : List (List Ref)) :
    wellFormed ps = true ↔ ∀ i < ps.length, ∀ r ∈ ps.getD i [], r.idx < i := by
  unfold wellFormed
  rw [List.all_eq_true]
  constructor
  · intro h i hi
    exact (refsBelow_iff i _).mp (h i (List.mem_range.mpr hi))
  · intro h i hi
    exact (refsBelow_iff i _).mpr (h i (List.mem_range.mp hi))

/-- With references pointing backwards, a call set computed from the prefix equals the one computed
    from all call sets. -/
theorem cs_eq (ps : List (List Ref)) (hwf : wellFormed ps = true) (i : Nat) (hi : i < ps.length) :
    cs ps i = bodyCallset (compileAll ps) (ps.getD i []) := by
  rw [cs_eq_prefix ps i hi]
  apply bodyCallset_congr
  intro r hr
  have hlt := (wellFormed_iff ps).mp hwf i hi r hr
  rw [compileAll_take]
  simp only [List.getD_eq_getElem?_getD, List.getElem?_take, hlt, if_true]

theorem mem_cs (ps : List (List Ref)) (hwf : wellFormed ps = true) (i : Nat) (hi : i < ps.length) (x : Nat) :
    x ∈ cs ps i ↔ ∃ r ∈ ps.getD i [], x ∈ contrib (compileAll ps) r := by
  rw [cs_eq ps hwf i hi, mem_bodyCallset]

theorem mem_contrib (ps : List (List Ref)) (r : Ref) (x : Nat) :
    x ∈ contrib (compileAll ps) r ↔ (r = .call x) ∨ x ∈ cs ps r.idx := by
  cases r with
  | exec j => simp [contrib, cs, Ref.idx]
  | call j =>
    simp only [contrib, cs, Ref.idx, List.mem_cons, Ref.call.injEq]
    constructor
    · rintro (h | h)
      · exact Or.inl h.symm
      · exact Or.inr h
    · rintro (h | h)
      · exact Or.inl h.symm
      · exact Or.inr h

/-- Call sets only contain earlier procedures and are transitively closed. -/
theorem cs_closed (ps : List (List Ref)) (hwf : wellFormed ps = true) :
    ∀ i, i < ps.length → ∀ j ∈ cs ps i, j < i ∧ ∀ x ∈ cs ps j, x ∈ cs ps i := by
  intro i
  induction i using Nat.strongRecOn with
  | ind i ih =>
    intro hi j hj
    obtain ⟨r, hr, hx⟩ := (mem_cs ps hwf i hi j).mp hj
    have hlt := (wellFormed_iff ps).mp hwf i hi r hr
    rcases (mem_contrib ps r j).mp hx with h | h
    · subst h
      simp only [Ref.idx] at hlt
      refine ⟨hlt, ?_⟩
      intro x hxj
      exact (mem_cs ps hwf i hi x).mpr ⟨_, hr, (mem_contrib ps _ x).mpr (Or.inr hxj)⟩
    · have hri : r.idx < ps.length := by omega
      obtain ⟨hj', hsub⟩ := ih r.idx hlt hri j h
      refine ⟨by omega, ?_⟩
      intro x hxj
      have := hsub x hxj
      exact (mem_cs ps hwf i hi x).mpr ⟨_, hr, (mem_contrib ps _ x).mpr (Or.inr this)⟩

/-- Every target needed at run time by a body is in the body's call set. -/
theorem needed_subset (ps : List (List Ref)) (hwf : wellFormed ps = true) (fuel : Nat) :
    ∀ (refs : List Ref) (n : Nat), n ≤ ps.length → (∀ r ∈ refs, r.idx < n) →
      ∀ x ∈ needed ps fuel refs, x ∈ bodyCallset (compileAll ps) refs := by
  induction fuel with
  | zero => intro refs n _ _ x hx; simp [needed] at hx
  | succ fuel ih =>
    intro refs n hn hb x hx
    simp only [needed, List.mem_flatMap] at hx
    obtain ⟨r, hr, hxr⟩ := hx
    rw [mem_bodyCallset]
    refine ⟨r, hr, ?_⟩
    cases r with
    | call j =>
      simp only [List.mem_singleton] at hxr
      subst hxr
      simp [contrib]
    | exec j =>
      simp only at hxr
      have hj : j < n := hb _ hr
      have hjl : j < ps.length := by omega
      have := ih (ps.getD j []) j (by omega) ((wellFormed_iff ps).mp hwf j hjl) x hxr
      rw [← cs_eq ps hwf j hjl] at this
      simpa [contrib, cs] using this

end Miden.Asm
