/-
  Soundness of Merkle path verification for an arbitrary two-to-one function `H`:
  a path of length `d` that folds a value up to the root of a tree pins the value to the node at
  (depth `d`, index `i`) — or exhibits a collision of `H`.  No injectivity is assumed.
-/
import Miden.Model.Vm
namespace Miden
namespace Merkle

abbrev Dig := List Nat

inductive Tree where
  | leaf (v : Dig)
  | node (l r : Tree)

variable (H : Dig → Dig → Dig)

def Tree.root : Tree → Dig
  | .leaf v => v
  | .node l r => H (Tree.root l) (Tree.root r)

/-- The node at depth `d` and index `i` (`i < 2^d`, most significant bit chooses at the root). -/
def Tree.nodeAt : Tree → Nat → Nat → Option Dig
  | t, 0, _ => some (Tree.root H t)
  | .leaf _, _ + 1, _ => none
  | .node l r, d + 1, i =>
    if i / 2 ^ d % 2 = 0 then Tree.nodeAt l d (i % 2 ^ d) else Tree.nodeAt r d (i % 2 ^ d)

/-- Fold a path from a node towards the root; the least significant index bit is used first. -/
def fold : Dig → List Dig → Nat → Dig
  | v, [], _ => v
  | v, s :: rest, i => fold (if i % 2 = 0 then H v s else H s v) rest (i / 2)

/-- Two different input pairs with the same image. -/
def Collision : Prop := ∃ a b a' b', (a, b) ≠ (a', b') ∧ H a b = H a' b'

theorem fold_append (v : Dig) (p : List Dig) (s : Dig) : ∀ (i : Nat),
    fold H v (p ++ [s]) i =
      (if i / 2 ^ p.length % 2 = 0 then H (fold H v p i) s else H s (fold H v p i)) := by
  induction p generalizing v with
  | nil => intro i; simp [fold]
  | cons x rest ih =>
    intro i
    simp only [List.cons_append, fold, List.length_cons]
    rw [ih]
    have : i / 2 / 2 ^ rest.length = i / 2 ^ (rest.length + 1) := by
      rw [Nat.div_div_eq_div_mul, Nat.pow_succ, Nat.mul_comm]
    rw [this]

theorem fold_mod (v : Dig) (p : List Dig) : ∀ (i : Nat),
    fold H v p (i % 2 ^ p.length) = fold H v p i := by
  induction p generalizing v with
  | nil => intro i; simp [fold]
  | cons x rest ih =>
    intro i
    simp only [fold, List.length_cons]
    have h1 : i % 2 ^ (rest.length + 1) % 2 = i % 2 := by
      rw [Nat.pow_succ, Nat.mul_comm]
      exact Nat.mod_mul_right_mod i 2 (2 ^ rest.length)
    have h2 : i % 2 ^ (rest.length + 1) / 2 = (i / 2) % 2 ^ rest.length := by
      rw [Nat.pow_succ, Nat.mul_comm, Nat.mod_mul_right_div_self]
    simp only [h1, h2, ih]

/-- **Merkle soundness.**  If a path of length `d` folds `v` (at index `i`) to the root of `t` and
    the tree has a node at (d, i), then that node is `v`, or `H` has a collision. -/
theorem path_sound : ∀ (d : Nat) (t : Tree) (p : List Dig) (v : Dig) (i : Nat) (w : Dig),
    p.length = d → fold H v p i = Tree.root H t → Tree.nodeAt H t d i = some w →
    w = v ∨ Collision H := by
  intro d
  induction d with
  | zero =>
    intro t p v i w hp hf hn
    have : p = [] := List.length_eq_zero_iff.mp hp
    subst this
    simp only [fold] at hf
    simp only [Tree.nodeAt] at hn
    left
    cases hn
    exact hf.symm
  | succ d ih =>
    intro t p v i w hp hf hn
    have hne : p ≠ [] := by intro h; rw [h] at hp; cases hp
    have hsplit := List.dropLast_concat_getLast hne
    have hlen : p.dropLast.length = d := by simp [hp]
    rw [← hsplit, fold_append, hlen] at hf
    cases t with
    | leaf x => simp [Tree.nodeAt] at hn
    | node l r =>
      simp only [Tree.nodeAt] at hn
      simp only [Tree.root] at hf
      by_cases hb : i / 2 ^ d % 2 = 0
      · simp only [hb, if_true] at hf hn
        by_cases heq : fold H v p.dropLast i = Tree.root H l ∧ p.getLast hne = Tree.root H r
        · have := ih l p.dropLast v (i % 2 ^ d) w hlen (by rw [← hlen, fold_mod, heq.1]) hn
          exact this
        · right
          refine ⟨_, _, _, _, ?_, hf⟩
          intro h
          apply heq
          exact ⟨(Prod.mk.inj h).1, (Prod.mk.inj h).2⟩
      · simp only [hb, if_false] at hf hn
        by_cases heq : p.getLast hne = Tree.root H l ∧ fold H v p.dropLast i = Tree.root H r
        · have := ih r p.dropLast v (i % 2 ^ d) w hlen (by rw [← hlen, fold_mod, heq.2]) hn
          exact this
        · right
          refine ⟨_, _, _, _, ?_, hf⟩
          intro h
          apply heq
          exact ⟨(Prod.mk.inj h).1, (Prod.mk.inj h).2⟩

/-- The executable model's path folding is `fold` with `H = Rpo.merge`. -/
theorem merkleRoot_eq_fold (node : Dig) (path : List Word) : ∀ (i : Nat),
    merkleRoot node path i = fold Rpo.merge node (path.map Word.toList) i := by
  induction path generalizing node with
  | nil => intro i; rfl
  | cons s rest ih =>
    intro i
    simp only [merkleRoot, List.map_cons, fold]
    rw [ih]

end Merkle
end Miden
