/-
  Helper lemmas for the refinement theorems about the SHA-256 helper procedures of the standard
  library: 32-bit rotations / shifts as the VM computes them (multiply by a power of two, add the
  two 32-bit halves of the product) equal the integer definitions of `Spec/Hashes.lean`.
-/
import Miden.Lemmas.RunOps
import Miden.Lemmas.Pure
import Miden.Spec.Hashes
import Miden.Generated.StdlibHash
import Mathlib.Tactic.SplitIfs
namespace Miden
open Spec.H

/-- `u32rotr.k` as compiled: `push 2^(32-k); u32mul; add` — the sum of the two halves of `x·2^(32-k)`. -/
def rotVia (x m : Nat) : Nat :=
  fadd (splitLo (x * m % two64 % P)) (splitHi (x * m % two64 % P))

theorem split_arith (q t : Nat) (hq : q < 4294967296) (ht : t < 4294967296)
    (hs : q * 4294967296 + t < 18446744069414584321) :
    fadd (splitLo ((q * 4294967296 + t) % two64 % P)) (splitHi ((q * 4294967296 + t) % two64 % P)) = q + t := by
  have h1 : (q * 4294967296 + t) % two64 = q * 4294967296 + t :=
    Nat.mod_eq_of_lt (by simp only [two64]; omega)
  have h2 : (q * 4294967296 + t) % P = q * 4294967296 + t := Nat.mod_eq_of_lt (by simp only [P]; omega)
  have h3 : (q * 4294967296 + t) % 4294967296 = t := by
    rw [Nat.add_comm, Nat.add_mul_mod_self_right]; exact Nat.mod_eq_of_lt ht
  have h4 : (q * 4294967296 + t) / 4294967296 = q := by
    rw [Nat.add_comm, Nat.add_mul_div_right _ _ (by omega), Nat.div_eq_of_lt ht, Nat.zero_add]
  rw [h1, h2]
  simp only [fadd, splitLo, splitHi, two32, h3, h4]
  rw [Nat.add_comm]
  exact Nat.mod_eq_of_lt (by simp only [P]; omega)

/-- The VM's rotation-by-multiplication is the 32-bit rotate right, for every rotation amount. -/
theorem rotVia_eq (x k : Nat) (hx : x < two32) (hk : k ≤ 32) :
    rotVia x (2 ^ (32 - k)) = rotr32 x k := by
  have hpow : 2 ^ k * 2 ^ (32 - k) = 4294967296 := by
    rw [← Nat.pow_add]
    have : k + (32 - k) = 32 := by omega
    rw [this]
  have hkpos : 0 < 2 ^ k := Nat.pow_pos (by omega)
  have hx' : 2 ^ k * (x / 2 ^ k) + x % 2 ^ k = x := Nat.div_add_mod x (2 ^ k)
  have hr : x % 2 ^ k < 2 ^ k := Nat.mod_lt _ hkpos
  have hs : x * 2 ^ (32 - k) = (x / 2 ^ k) * 4294967296 + (x % 2 ^ k) * 2 ^ (32 - k) := by
    have h1 : x * 2 ^ (32 - k) = (2 ^ k * (x / 2 ^ k) + x % 2 ^ k) * 2 ^ (32 - k) := by rw [hx']
    rw [h1, Nat.add_mul, Nat.mul_comm (2 ^ k) (x / 2 ^ k), Nat.mul_assoc, hpow]
  have ht : (x % 2 ^ k) * 2 ^ (32 - k) < 4294967296 := by
    calc (x % 2 ^ k) * 2 ^ (32 - k) < 2 ^ k * 2 ^ (32 - k) :=
          Nat.mul_lt_mul_of_pos_right hr (Nat.pow_pos (by omega))
      _ = 4294967296 := hpow
  have hq : x / 2 ^ k < 4294967296 :=
    Nat.lt_of_le_of_lt (Nat.div_le_self _ _) (by simpa [two32] using hx)
  have hlt : x * 2 ^ (32 - k) < 18446744069414584321 := by
    have h2 : 2 ^ (32 - k) ≤ 2 ^ 32 := Nat.pow_le_pow_right (by omega) (by omega)
    have h3 : x * 2 ^ (32 - k) ≤ 4294967295 * 2 ^ 32 :=
      Nat.mul_le_mul (by simp only [two32] at hx; omega) h2
    omega
  unfold rotVia rotr32
  rw [hs] at hlt
  rw [hs, split_arith _ _ hq ht hlt]

theorem rotr32_lt (x k : Nat) (hx : x < two32) (hk : k ≤ 32) : rotr32 x k < two32 := by
  have hpow : 2 ^ k * 2 ^ (32 - k) = 4294967296 := by
    rw [← Nat.pow_add]
    have : k + (32 - k) = 32 := by omega
    rw [this]
  have hkpos : 0 < 2 ^ k := Nat.pow_pos (by omega)
  have hmpos : 0 < 2 ^ (32 - k) := Nat.pow_pos (by omega)
  unfold rotr32 two32 at *
  have h1 : x / 2 ^ k < 2 ^ (32 - k) := by
    rw [Nat.div_lt_iff_lt_mul hkpos, Nat.mul_comm, hpow]; exact hx
  have h2 : x % 2 ^ k < 2 ^ k := Nat.mod_lt _ hkpos
  have h3 : (x % 2 ^ k + 1) * 2 ^ (32 - k) ≤ 2 ^ k * 2 ^ (32 - k) := Nat.mul_le_mul_right _ h2
  rw [Nat.add_mul, Nat.one_mul, hpow] at h3
  omega

/-! Fused rules for the operation sequences that `u32rotr.k`, `u32shr.k` and `u32not` compile to
    (higher priority than the per-operation rules, so the symbolic executor never exposes the
    intermediate products). -/

theorem rp_rotr_gen (x k : Nat) (r : List Nat) (rest : List Op) (hx : x < two32) (hk : k ≤ 32) :
    runPure (Op.push (2 ^ (32 - k)) :: Op.u32mul :: Op.add :: rest) (x :: r)
      = runPure rest (rotr32 x k :: padN 15 r) := by
  have h := rotVia_eq x k hx hk
  unfold rotVia at h
  rw [rp_push, rp_u32mul, rp_add, h, padN_cons]

macro "rotr_inst" k:num : tactic => `(tactic| (
  intro x r rest hx
  have h := rp_rotr_gen x $k r rest hx (by omega)
  simpa using h))

@[pure_exec high] theorem rp_rotr7 : ∀ (x : Nat) (r : List Nat) (rest : List Op), x < two32 →
    runPure (Op.push 33554432 :: Op.u32mul :: Op.add :: rest) (x :: r) = runPure rest (rotr32 x 7 :: padN 15 r) := by rotr_inst 7
@[pure_exec high] theorem rp_rotr18 : ∀ (x : Nat) (r : List Nat) (rest : List Op), x < two32 →
    runPure (Op.push 16384 :: Op.u32mul :: Op.add :: rest) (x :: r) = runPure rest (rotr32 x 18 :: padN 15 r) := by rotr_inst 18
@[pure_exec high] theorem rp_rotr17 : ∀ (x : Nat) (r : List Nat) (rest : List Op), x < two32 →
    runPure (Op.push 32768 :: Op.u32mul :: Op.add :: rest) (x :: r) = runPure rest (rotr32 x 17 :: padN 15 r) := by rotr_inst 17
@[pure_exec high] theorem rp_rotr19 : ∀ (x : Nat) (r : List Nat) (rest : List Op), x < two32 →
    runPure (Op.push 8192 :: Op.u32mul :: Op.add :: rest) (x :: r) = runPure rest (rotr32 x 19 :: padN 15 r) := by rotr_inst 19
@[pure_exec high] theorem rp_rotr2 : ∀ (x : Nat) (r : List Nat) (rest : List Op), x < two32 →
    runPure (Op.push 1073741824 :: Op.u32mul :: Op.add :: rest) (x :: r) = runPure rest (rotr32 x 2 :: padN 15 r) := by rotr_inst 2
@[pure_exec high] theorem rp_rotr13 : ∀ (x : Nat) (r : List Nat) (rest : List Op), x < two32 →
    runPure (Op.push 524288 :: Op.u32mul :: Op.add :: rest) (x :: r) = runPure rest (rotr32 x 13 :: padN 15 r) := by rotr_inst 13
@[pure_exec high] theorem rp_rotr22 : ∀ (x : Nat) (r : List Nat) (rest : List Op), x < two32 →
    runPure (Op.push 1024 :: Op.u32mul :: Op.add :: rest) (x :: r) = runPure rest (rotr32 x 22 :: padN 15 r) := by rotr_inst 22
@[pure_exec high] theorem rp_rotr6 : ∀ (x : Nat) (r : List Nat) (rest : List Op), x < two32 →
    runPure (Op.push 67108864 :: Op.u32mul :: Op.add :: rest) (x :: r) = runPure rest (rotr32 x 6 :: padN 15 r) := by rotr_inst 6
@[pure_exec high] theorem rp_rotr11 : ∀ (x : Nat) (r : List Nat) (rest : List Op), x < two32 →
    runPure (Op.push 2097152 :: Op.u32mul :: Op.add :: rest) (x :: r) = runPure rest (rotr32 x 11 :: padN 15 r) := by rotr_inst 11
@[pure_exec high] theorem rp_rotr25 : ∀ (x : Nat) (r : List Nat) (rest : List Op), x < two32 →
    runPure (Op.push 128 :: Op.u32mul :: Op.add :: rest) (x :: r) = runPure rest (rotr32 x 25 :: padN 15 r) := by rotr_inst 25

/-- `u32shr.k` as compiled: `push 2^k; u32div; drop`. -/
theorem rp_shr_gen (x c : Nat) (r : List Nat) (rest : List Op) (hc : c ≠ 0) :
    runPure (Op.push c :: Op.u32div :: Op.drop :: rest) (x :: r) = runPure rest (x / c :: padN 15 r) := by
  rw [rp_push, rp_u32div _ _ _ hc, rp_drop, padN_cons]

@[pure_exec high] theorem rp_shr3 (x : Nat) (r : List Nat) (rest : List Op) :
    runPure (Op.push 8 :: Op.u32div :: Op.drop :: rest) (x :: r) = runPure rest (x / 2 ^ 3 :: padN 15 r) :=
  rp_shr_gen x 8 r rest (by decide)
@[pure_exec high] theorem rp_shr10 (x : Nat) (r : List Nat) (rest : List Op) :
    runPure (Op.push 1024 :: Op.u32div :: Op.drop :: rest) (x :: r) = runPure rest (x / 2 ^ 10 :: padN 15 r) :=
  rp_shr_gen x 1024 r rest (by decide)

/-- `u32not` as compiled: `push (2^32-1); u32assert2; swap; u32sub; drop`. -/
@[pure_exec high] theorem rp_not32 (x : Nat) (r : List Nat) (rest : List Op) (hx : x < two32) :
    runPure (Op.push 4294967295 :: Op.u32assert2 0 :: Op.swap :: Op.u32sub :: Op.drop :: rest) (x :: r)
      = runPure rest (not32 x :: padN 15 r) := by
  rw [rp_push, rp_u32assert2 _ _ _ _ (by decide) hx, rp_swap, rp_u32sub, rp_drop, padN_cons]
  congr 2
  simp only [not32, two64, two32] at *
  omega

theorem xor_lt_two32 (a b : Nat) (ha : a < two32) (hb : b < two32) : Nat.xor a b < two32 := by
  have := @Nat.xor_lt_two_pow a b 32 (by simpa [two32] using ha) (by simpa [two32] using hb)
  simpa [two32] using this

theorem land_lt_two32 (a b : Nat) (ha : a < two32) : Nat.land a b < two32 :=
  Nat.lt_of_le_of_lt Nat.and_le_left ha

theorem land_lt_two32' (a b : Nat) (hb : b < two32) : Nat.land a b < two32 :=
  Nat.lt_of_le_of_lt Nat.and_le_right hb

theorem not32_lt (x : Nat) : not32 x < two32 := by simp only [not32, two32]; omega

theorem div_lt_two32 (x c : Nat) (hx : x < two32) : x / c < two32 :=
  Nat.lt_of_le_of_lt (Nat.div_le_self _ _) hx

theorem splitLo_lt (x : Nat) : splitLo x < two32 := Nat.mod_lt _ (by decide)

theorem mod_two32_lt (x : Nat) : x % two32 < two32 := Nat.mod_lt _ (by decide)

/-- Discharger for the `< 2^32` side conditions of the u32 rewrite rules: closes bounds of
    rotations, xors, ands, complements, shifts and 32-bit halves of values bounded by hypotheses. -/
syntax "u32b" : tactic
macro_rules
  | `(tactic| u32b) => `(tactic| first
    | assumption
    | exact splitLo_lt _
    | exact mod_two32_lt _
    | exact not32_lt _
    | exact rotr32_lt _ _ (by u32b) (by omega)
    | exact xor_lt_two32 _ _ (by u32b) (by u32b)
    | exact land_lt_two32 _ _ (by u32b)
    | exact land_lt_two32' _ _ (by u32b)
    | exact div_lt_two32 _ _ (by u32b))

/-- Symbolic execution of a straight-line stack-only procedure on an explicit stack. -/
macro "pure_exec" ops:ident : tactic => `(tactic| (
  simp (disch := u32b) only [$ops:ident, pure_exec, *]))

end Miden
