/-
  Forward (totality) rules for the executor: a span whose tick-free run succeeds completes when the
  cycle budget allows its rows (`exec_span_D_fwd`), a while.true loop with a decreasing invariant
  completes with fuel k + 2 and budget k·(rows + 3) + 2 (`loop_fwd`); termination of std::mem::memcopy
  and of native::hash_memory_even follows from the same invariants that prove their results.
-/
import Miden.Lemmas.Memcopy
import Miden.Lemmas.HashMem
namespace Miden
set_option linter.unusedSimpArgs false
set_option linter.unusedVariables false
open Trunc

/-! Forward (totality) rules: if the tick-free run of a span / loop succeeds and the cycle budget and
    fuel suffice, the executor completes. -/

theorem tick_fwd (env : Env) (vm : Vm) (row : Op) (h : vm.clk + 1 ≤ env.maxCycles) :
    vm.tick env row = .ok (vm.reclk (vm.clk + 1) (row :: vm.trace)) := by
  unfold Vm.tick
  simp only
  rw [if_neg (by omega)]
  rfl

theorem execRow_fwd {env : Env} {vm s1 : Vm} {op row : Op} (hs : vm.step op = .ok s1)
    (h : vm.clk + 1 ≤ env.maxCycles) :
    vm.execRow env op row = .ok (s1.reclk (vm.clk + 1) (row :: vm.trace)) := by
  unfold Vm.execRow
  rw [hs]
  simp only
  obtain ⟨hc, ht⟩ := Vm.step_clk hs
  rw [tick_fwd env s1 row (by omega), hc, ht]

theorem execOps_fwd {env : Env} : ∀ (rows : List Op) (vm v : Vm), Op.clk ∉ rows →
    runOps (deRespan rows) vm = .ok v → vm.clk + rows.length ≤ env.maxCycles →
    Vm.execOps env rows vm = .ok (v.reclk (vm.clk + rows.length) (rows.reverse ++ vm.trace))
  | [], vm, v, _, h, _ => by
    simp only [deRespan, List.map_nil, runOps] at h
    cases h
    simp only [Vm.execOps, List.length_nil, Nat.add_zero, List.reverse_nil, List.nil_append]
    rfl
  | op :: rest, vm, v, hc, h, hb => by
    have hrest : Op.clk ∉ rest := fun e => hc (by simp [e])
    simp only [deRespan, List.map_cons, runOps] at h
    generalize hop' : (if op = Op.respan then Op.noop else op) = op' at h
    have hne : op' ≠ .clk := by
      rw [← hop']
      have hop : op ≠ .clk := fun e => hc (by simp [e])
      split
      · intro e; cases e
      · exact hop
    cases hs : vm.step op' with
    | error e => rw [hs] at h; cases h
    | ok s1 =>
      rw [hs] at h
      simp only at h
      have hrow : (if op = Op.respan then vm.execRow env .noop .respan else vm.execRow env op op)
          = Vm.execRow env vm op' op := by
        rw [← hop']
        split
        · rename_i e; subst e; rfl
        · rfl
      simp only [Vm.execOps, hrow]
      simp only [List.length_cons] at hb
      rw [execRow_fwd hs (by omega)]
      simp only
      have hmap : Op.clk ∉ deRespan rest := by
        intro hm
        simp only [deRespan, List.mem_map] at hm
        obtain ⟨o, ho, heq⟩ := hm
        split at heq
        · cases heq
        · subst heq; exact hrest ho
      have hrun : runOps (deRespan rest) (s1.reclk (vm.clk + 1) (op :: vm.trace))
          = .ok (v.reclk (vm.clk + 1) (op :: vm.trace)) := by
        rw [runOps_reclk _ s1 _ _ hmap]
        have : runOps (deRespan rest) s1 = .ok v := h
        rw [this]; rfl
      have ih := execOps_fwd rest (s1.reclk (vm.clk + 1) (op :: vm.trace)) _ hrest hrun
        (by show vm.clk + 1 + rest.length ≤ env.maxCycles; omega)
      rw [ih]
      congr 1
      simp only [Vm.reclk, List.length_cons, List.reverse_cons, List.append_assoc, List.cons_append, List.nil_append]
      congr 1
      omega

theorem exec_span_fwd {env : Env} {fuel : Nat} {ops : List Op} {vm v : Vm}
    (hc : Op.clk ∉ spanRows ops) (h : runOps (deRespan (spanRows ops)) vm = .ok v)
    (hb : vm.clk + (spanRows ops).length + 2 ≤ env.maxCycles) :
    ∃ t, Vm.exec env (fuel + 1) (.span ops) vm = .ok (v.reclk (vm.clk + (spanRows ops).length + 2) t) := by
  simp only [Vm.exec]
  rw [execRow_fwd (Vm.step_noop vm) (by omega)]
  simp only
  have hmap : Op.clk ∉ deRespan (spanRows ops) := by
    intro hm
    simp only [deRespan, List.mem_map] at hm
    obtain ⟨o, ho, heq⟩ := hm
    split at heq
    · cases heq
    · subst heq; exact hc ho
  have hrun : runOps (deRespan (spanRows ops)) (vm.reclk (vm.clk + 1) (Op.span :: vm.trace))
      = .ok (v.reclk (vm.clk + 1) (Op.span :: vm.trace)) := by
    rw [runOps_reclk _ vm _ _ hmap, h]; rfl
  rw [execOps_fwd (spanRows ops) _ _ hc hrun (by show vm.clk + 1 + (spanRows ops).length ≤ env.maxCycles; omega)]
  simp only
  have hstep := Vm.step_noop ((v.reclk (vm.clk + 1) (Op.span :: vm.trace)).reclk
    ((vm.reclk (vm.clk + 1) (Op.span :: vm.trace)).clk + (spanRows ops).length)
    ((spanRows ops).reverse ++ (vm.reclk (vm.clk + 1) (Op.span :: vm.trace)).trace))
  rw [execRow_fwd hstep (by show vm.clk + 1 + (spanRows ops).length + 1 ≤ env.maxCycles; omega)]
  refine ⟨Op.end :: ((spanRows ops).reverse ++ Op.span :: vm.trace), ?_⟩
  congr 1
  simp only [Vm.reclk]
  congr 1
  omega


theorem execRow_drop_fwd {env : Env} {vm : Vm} {row : Op} {x : Nat} {s : List Nat} {f m c}
    (hd : D vm (x :: s) f m c) (hb : vm.clk + 1 ≤ env.maxCycles) :
    ∃ vm', vm.execRow env .drop row = .ok vm' ∧ D vm' (padN 16 s) f m c ∧ vm'.clk = vm.clk + 1 := by
  obtain ⟨hs, hf, hm, hc⟩ := hd
  refine ⟨_, execRow_fwd (Vm.step_drop vm x s hs) hb, ⟨by simp [Vm.reclk, pad16_eq], hf, hm, hc⟩, rfl⟩

theorem execRow_noop_fwd {env : Env} {vm : Vm} {row : Op} {s f m c}
    (hd : D vm s f m c) (hb : vm.clk + 1 ≤ env.maxCycles) :
    ∃ vm', vm.execRow env .noop row = .ok vm' ∧ D vm' s f m c ∧ vm'.clk = vm.clk + 1 :=
  ⟨_, execRow_fwd (Vm.step_noop vm) hb, hd, rfl⟩

/-- A span of (stack, fmp, memory) operations whose tick-free run succeeds completes when the cycle
    budget allows its rows plus SPAN and END. -/
theorem exec_span_D_fwd {env : Env} {fuel : Nat} {ops : List Op} {vm : Vm} {s f m c} {st : MSt}
    (hc : Op.clk ∉ spanRows ops) (hm : (deRespan (spanRows ops)).all Op.isMSimple = true)
    (hd : D vm s f m c) (hr : runM c (deRespan (spanRows ops)) ⟨s, f, m⟩ = .ok st)
    (hb : vm.clk + (spanRows ops).length + 2 ≤ env.maxCycles) :
    ∃ vm', Vm.exec env (fuel + 1) (.span ops) vm = .ok vm' ∧ D vm' st.stack st.fmp st.mem c ∧
      vm'.clk = vm.clk + (spanRows ops).length + 2 := by
  obtain ⟨hs, hf, hmm, hcc⟩ := hd
  have hrun : runOps (deRespan (spanRows ops)) vm
      = .ok { vm with stack := st.stack, fmp := st.fmp, mem := st.mem } := by
    rw [runOps_m _ hm vm, hs, hf, hmm, hcc, hr]
  obtain ⟨t, ht⟩ := exec_span_fwd (fuel := fuel) hc hrun hb
  exact ⟨_, ht, ⟨rfl, rfl, rfl, hcc⟩, rfl⟩

theorem loopIter_fwd (env : Env) (body : List Op) (hc : Op.clk ∉ spanRows body)
    (hm : (deRespan (spanRows body)).all Op.isMSimple = true) (C : Nat)
    (J : Nat → List Nat → Nat → Mem → Prop)
    (hlen : ∀ k t f m, J k t f m → 16 ≤ t.length)
    (hstep : ∀ k t f m, J (k + 1) t f m → ∃ c t' f' m',
      runM C (deRespan (spanRows body)) ⟨t, f, m⟩ = .ok ⟨c :: t', f', m'⟩ ∧ J k t' f' m' ∧
      (c = 1 ↔ k ≠ 0) ∧ (c = 0 ↔ k = 0)) :
    ∀ (k fuel : Nat) (vm : Vm) (c : Nat) (t : List Nat) (f : Nat) (m : Mem),
      D vm (c :: t) f m C → J k t f m → (c = 1 ↔ k ≠ 0) → (c = 0 ↔ k = 0) → k + 2 ≤ fuel →
      vm.clk + k * ((spanRows body).length + 3) + 1 ≤ env.maxCycles →
      ∃ vm' t' f' m', Vm.loopIter env fuel (.span body) vm = .ok vm' ∧ D vm' t' f' m' C ∧ J 0 t' f' m' ∧
        vm'.clk = vm.clk + k * ((spanRows body).length + 3) + 1 := by
  intro k
  induction k with
  | zero =>
    intro fuel vm c t f m hd hj h1 h0 hf hb
    obtain ⟨fuel, rfl⟩ : ∃ n, fuel = n + 1 := ⟨fuel - 1, by omega⟩
    simp only [Vm.loopIter]
    have hpeek : vm.peek = c := by unfold Vm.peek; rw [hd.1]; rfl
    have hc0 : c = 0 := h0.mpr rfl
    have hc1 : ¬ c = 1 := by omega
    rw [hpeek, if_neg hc1, if_pos hc0]
    obtain ⟨vm', he, hd', hk⟩ := execRow_drop_fwd (env := env) (row := .end) hd (by omega)
    rw [padN_of_le (hlen 0 t f m hj)] at hd'
    exact ⟨vm', t, f, m, he, hd', hj, by omega⟩
  | succ k ih =>
    intro fuel vm c t f m hd hj h1 h0 hf hb
    obtain ⟨fuel, rfl⟩ : ∃ n, fuel = n + 1 := ⟨fuel - 1, by omega⟩
    simp only [Vm.loopIter]
    have hpeek : vm.peek = c := by unfold Vm.peek; rw [hd.1]; rfl
    have hc1 : c = 1 := h1.mpr (by omega)
    rw [hpeek, if_pos hc1]
    have hmul : (k + 1) * ((spanRows body).length + 3) = k * ((spanRows body).length + 3) + ((spanRows body).length + 3) := by
      rw [Nat.add_mul]; omega
    obtain ⟨v1, he1, hd1, hk1⟩ := execRow_drop_fwd (env := env) (row := .repeat) hd (by omega)
    rw [padN_of_le (hlen (k + 1) t f m hj)] at hd1
    rw [he1]; simp only
    obtain ⟨c', t', f', m', hrun, hj', hc1', hc0'⟩ := hstep k t f m hj
    obtain ⟨fuel, rfl⟩ : ∃ n, fuel = n + 1 := ⟨fuel - 1, by omega⟩
    obtain ⟨v2, he2, hd2, hk2⟩ := exec_span_D_fwd (env := env) (fuel := fuel) hc hm hd1 hrun (by omega)
    rw [he2]; simp only
    obtain ⟨vm', t'', f'', m'', he3, hd3, hj3, hk3⟩ := ih (fuel + 1) v2 c' t' f' m' hd2 hj' hc1' hc0' (by omega) (by omega)
    exact ⟨vm', t'', f'', m'', he3, hd3, hj3, by omega⟩

/-- Forward rule for `while.true`: with `K` iterations to go, fuel `≥ K + 2` and a cycle budget of
    `K·(rows + 3) + 2`, the loop completes in a state satisfying the invariant at 0. -/
theorem loop_fwd (env : Env) (body : List Op) (hc : Op.clk ∉ spanRows body)
    (hm : (deRespan (spanRows body)).all Op.isMSimple = true) (C : Nat)
    (J : Nat → List Nat → Nat → Mem → Prop)
    (hlen : ∀ k t f m, J k t f m → 16 ≤ t.length)
    (hstep : ∀ k t f m, J (k + 1) t f m → ∃ c t' f' m',
      runM C (deRespan (spanRows body)) ⟨t, f, m⟩ = .ok ⟨c :: t', f', m'⟩ ∧ J k t' f' m' ∧
      (c = 1 ↔ k ≠ 0) ∧ (c = 0 ↔ k = 0))
    (k fuel : Nat) (vm : Vm) (c : Nat) (t : List Nat) (f : Nat) (m : Mem)
    (hd : D vm (c :: t) f m C) (hj : J k t f m) (h1 : c = 1 ↔ k ≠ 0) (h0 : c = 0 ↔ k = 0)
    (hf : k + 2 ≤ fuel) (hb : vm.clk + k * ((spanRows body).length + 3) + 2 ≤ env.maxCycles) :
    ∃ vm' t' f' m', Vm.exec env fuel (.loop (.span body)) vm = .ok vm' ∧ D vm' t' f' m' C ∧ J 0 t' f' m' ∧
      vm'.clk ≤ vm.clk + k * ((spanRows body).length + 3) + 2 := by
  obtain ⟨fuel, rfl⟩ : ∃ n, fuel = n + 1 := ⟨fuel - 1, by omega⟩
  simp only [Vm.exec]
  have hpeek : vm.peek = c := by unfold Vm.peek; rw [hd.1]; rfl
  rw [hpeek]
  obtain ⟨v1, he1, hd1, hk1⟩ := execRow_drop_fwd (env := env) (row := .loop) hd (by omega)
  rw [padN_of_le (hlen k t f m hj)] at hd1
  rw [he1]; simp only
  cases k with
  | zero =>
    have hc0 : c = 0 := h0.mpr rfl
    have hc1 : ¬ c = 1 := by omega
    rw [if_neg hc1, if_pos hc0]
    obtain ⟨vm', he, hd', hk⟩ := execRow_noop_fwd (env := env) (row := .end) hd1 (by omega)
    exact ⟨vm', t, f, m, he, hd', hj, by omega⟩
  | succ k =>
    have hc1 : c = 1 := h1.mpr (by omega)
    rw [if_pos hc1]
    have hmul : (k + 1) * ((spanRows body).length + 3) = k * ((spanRows body).length + 3) + ((spanRows body).length + 3) := by
      rw [Nat.add_mul]; omega
    obtain ⟨c', t', f', m', hrun, hj', hc1', hc0'⟩ := hstep k t f m hj
    obtain ⟨fuel, rfl⟩ : ∃ n, fuel = n + 1 := ⟨fuel - 1, by omega⟩
    obtain ⟨v2, he2, hd2, hk2⟩ := exec_span_D_fwd (env := env) (fuel := fuel) hc hm hd1 hrun (by omega)
    rw [he2]; simp only
    obtain ⟨vm', t'', f'', m'', he3, hd3, hj3, hk3⟩ :=
      loopIter_fwd env body hc hm C J hlen hstep k (fuel + 1) v2 c' t' f' m' hd2 hj' hc1' hc0' (by omega) (by omega)
    exact ⟨vm', t'', f'', m'', he3, hd3, hj3, by omega⟩

theorem exec_join_fwd {env : Env} {fuel : Nat} {a b : Block} {vm v1 v2 v3 vm' : Vm}
    (h1 : vm.execRow env .noop .join = .ok v1) (h2 : Vm.exec env fuel a v1 = .ok v2)
    (h3 : Vm.exec env fuel b v2 = .ok v3) (h4 : v3.execRow env .noop .end = .ok vm') :
    Vm.exec env (fuel + 1) (.join a b) vm = .ok vm' := by
  simp only [Vm.exec, h1, h2, h3, h4]


namespace Memcopy
open Generated

theorem memcopy_hstep (ctx n r0 w0 : Nat) (rest : List Nat) (f0 : Nat) (m0 : Mem) (hrest : 13 ≤ rest.length)
    (hr : r0 + n ≤ 4294967296) (hw : w0 + n ≤ 4294967296) :
    ∀ k t f m, J ctx n r0 w0 rest f0 m0 (k + 1) t f m → ∃ c t' f' m',
      runM ctx (deRespan (spanRows bodyB)) ⟨t, f, m⟩ = .ok ⟨c :: t', f', m'⟩ ∧
      J ctx n r0 w0 rest f0 m0 k t' f' m' ∧ (c = 1 ↔ k ≠ 0) ∧ (c = 0 ↔ k = 0) := by
  intro k t f m ⟨j3, j2, j1, j0, i, ht, hik, hf, hmm⟩
  obtain ⟨y, t0, hyt⟩ : ∃ y t0, rest = y :: t0 := by
    cases rest with
    | nil => simp at hrest
    | cons y t0 => exact ⟨y, t0, rfl⟩
  have ht0 : 12 ≤ t0.length := by rw [hyt] at hrest; simp only [List.length_cons] at hrest; omega
  rw [hyt] at ht ⊢
  subst ht
  have hru : r0 + i ≤ u32max := by simp only [u32max]; omega
  have hwu : w0 + i ≤ u32max := by simp only [u32max]; omega
  have hkP : k + 1 < P := by simp only [P] at *; omega
  refine ⟨_, _, _, _, bodyB_run ctx j3 j2 j1 j0 (fneg (k + 1)) (r0 + i) (w0 + i) y t0 f m hru hwu (by omega), ?_, ?_, ?_⟩
  · refine ⟨(m.read ctx (r0 + i)).w3, (m.read ctx (r0 + i)).w2, (m.read ctx (r0 + i)).w1,
      (m.read ctx (r0 + i)).w0, i + 1, ?_, by omega, hf, ?_⟩
    · rw [fneg_succ k hkP]
      have e1 : fadd (r0 + i) 1 = r0 + (i + 1) := by simp only [fadd, P]; omega
      have e2 : fadd (w0 + i) 1 = w0 + (i + 1) := by simp only [fadd, P]; omega
      rw [e1, e2]
    · rw [hmm]; rfl
  · rw [fneg_succ k hkP]
    have := fneg_eq_zero k (by omega)
    constructor
    · intro hc; split at hc <;> simp_all
    · intro hk; rw [if_neg (by rw [this]; exact hk)]
  · rw [fneg_succ k hkP]
    have := fneg_eq_zero k (by omega)
    constructor
    · intro hc; split at hc <;> simp_all
    · intro hk; rw [if_pos (by rw [this]; exact hk)]

theorem lenA : (spanRows proA).length = 8 := by decide
theorem lenB : (spanRows bodyB).length = 16 := by decide
theorem lenC : (spanRows epiC).length = 7 := by decide

/-- **`std::mem::memcopy` terminates**: for every word count and pointers in the 32-bit address space,
    with fuel `≥ n + 4` and a cycle budget of `19·n + 25` the executor completes (and then
    `memcopy_spec` describes the result). -/
theorem memcopy_total (env : Env) (fuel : Nat) (vm : Vm) (n r0 w0 : Nat) (rest : List Nat)
    (hs : vm.stack = n :: r0 :: w0 :: rest) (hrest : 13 ≤ rest.length)
    (hr : r0 + n ≤ 4294967296) (hw : w0 + n ≤ 4294967296)
    (hf : n + 4 ≤ fuel) (hb : vm.clk + 19 * n + 25 ≤ env.maxCycles) :
    ∃ vm', Vm.exec env fuel mem_memcopy vm = .ok vm' := by
  rw [shape]
  have hd : D vm vm.stack vm.fmp vm.mem vm.ctx := ⟨rfl, rfl, rfl, rfl⟩
  rw [hs] at hd
  have hnP : n < P := by simp only [P]; omega
  obtain ⟨fuel, rfl⟩ : ∃ k, fuel = k + 3 := ⟨fuel - 3, by omega⟩
  -- outer JOIN, inner JOIN
  obtain ⟨v1, e1, d1, k1⟩ := execRow_noop_fwd (env := env) (row := .join) hd (by omega)
  obtain ⟨v2, e2, d2, k2⟩ := execRow_noop_fwd (env := env) (row := .join) d1 (by omega)
  -- prologue
  obtain ⟨v3, e3, d3, k3⟩ := exec_span_D_fwd (env := env) (fuel := fuel) noclkA msA d2
    (proA_run vm.ctx n r0 w0 rest vm.fmp vm.mem hrest) (by rw [lenA]; omega)
  simp only at d3
  rw [lenA] at k3
  -- loop
  have hlen : ∀ k t f m, J vm.ctx n r0 w0 rest vm.fmp vm.mem k t f m → 16 ≤ t.length := by
    intro k t f m ⟨j3, j2, j1, j0, i, ht, _⟩
    rw [ht]; simp only [List.length_cons]; omega
  have hJ0 : J vm.ctx n r0 w0 rest vm.fmp vm.mem n (0 :: 0 :: 0 :: 0 :: fneg n :: r0 :: w0 :: rest) vm.fmp vm.mem :=
    ⟨0, 0, 0, 0, 0, rfl, by omega, rfl, rfl⟩
  have hz := fneg_eq_zero n hnP
  have hc1 : (1 - (if fneg n = 0 then 1 else 0)) = 1 ↔ n ≠ 0 := by
    constructor
    · intro hc; split at hc <;> simp_all
    · intro hk; rw [if_neg (by rw [hz]; exact hk)]
  have hc0 : (1 - (if fneg n = 0 then 1 else 0)) = 0 ↔ n = 0 := by
    constructor
    · intro hc; split at hc <;> simp_all
    · intro hk; rw [if_pos (by rw [hz]; exact hk)]
  obtain ⟨v4, t', f', m', e4, d4, hJe, k4⟩ := loop_fwd env bodyB noclkB msB vm.ctx (J vm.ctx n r0 w0 rest vm.fmp vm.mem) hlen
    (memcopy_hstep vm.ctx n r0 w0 rest vm.fmp vm.mem hrest hr hw) n (fuel + 1) v3 _ _ _ _ d3 hJ0 hc1 hc0 (by omega)
    (by rw [lenB]; omega)
  rw [lenB] at k4
  -- inner END
  obtain ⟨v5, e5, d5, k5⟩ := execRow_noop_fwd (env := env) (row := .end) d4 (by omega)
  -- epilogue
  obtain ⟨j3, j2, j1, j0, i, ht, hik, hf', hmm⟩ := hJe
  subst ht
  obtain ⟨v6, e6, d6, k6⟩ := exec_span_D_fwd (env := env) (fuel := fuel + 1) noclkC msC d5
    (epiC_run vm.ctx j3 j2 j1 j0 _ _ _ rest f' m') (by rw [lenC]; omega)
  rw [lenC] at k6
  obtain ⟨v7, e7, d7, k7⟩ := execRow_noop_fwd (env := env) (row := .end) d6 (by omega)
  exact ⟨v7, exec_join_fwd e1 (exec_join_fwd e2 e3 e4 e5) e6 e7⟩
end Memcopy

namespace HashMem
open Generated Memcopy

theorem hash_hstep (ctx start K : Nat) (rest : List Nat) (f0 : Nat) (m0 : Mem) (v0 : List Nat) (hv0 : v0.length = 12)
    (hrest : 2 ≤ rest.length) (he : start + 2 * K ≤ 4294967296) :
    let e := start + 2 * K
    ∀ k t f m, J ctx start e rest f0 m0 v0 K (k + 1) t f m → ∃ c t' f' m',
      runM ctx (deRespan (spanRows bodyB)) ⟨t, f, m⟩ = .ok ⟨c :: t', f', m'⟩ ∧
      J ctx start e rest f0 m0 v0 K k t' f' m' ∧ (c = 1 ↔ k ≠ 0) ∧ (c = 0 ↔ k = 0) := by
  intro e
  intro k t f m ⟨i, ht, hik, hf, hmm⟩
  obtain ⟨y0, y1, y2, y3, y4, y5, y6, y7, y8, y9, y10, y11, hy⟩ := eq12 (hashEven_len ctx m0 i start v0 hv0)
  rw [hy] at ht
  simp only [List.reverse_cons, List.reverse_nil, List.nil_append, List.cons_append] at ht
  subst ht hmm hf
  have ha : start + 2 * i + 1 ≤ u32max := by simp only [u32max]; omega
  refine ⟨_, _, _, _, bodyB_run ctx y0 y1 y2 y3 y4 y5 y6 y7 y8 y9 y10 y11 (start + 2 * i) e rest f m ha (by omega), ?_, ?_, ?_⟩
  · refine ⟨i + 1, ?_, by omega, rfl, rfl⟩
    rw [hashEven_succ, hy]
    congr 2
  · constructor
    · intro hc; split at hc <;> omega
    · intro hk; rw [if_neg (by show ¬ (start + 2 * K = start + 2 * i + 2); omega)]
  · constructor
    · intro hc; split at hc <;> omega
    · intro hk; rw [if_pos (by show start + 2 * K = start + 2 * i + 2; omega)]

theorem lenA : (spanRows proA).length = 4 := by decide
theorem lenB : (spanRows bodyB).length = 6 := by decide

/-- **`native::hash_memory_even` terminates**: with fuel `≥ K + 3` and a cycle budget of `9·K + 12`
    the executor completes for every state, start address and number of double words. -/
theorem hash_memory_even_total (env : Env) (fuel : Nat) (vm : Vm) (v : List Nat) (start K : Nat)
    (rest : List Nat) (hv : v.length = 12)
    (hs : vm.stack = v.reverse ++ start :: (start + 2 * K) :: rest) (hrest : 2 ≤ rest.length)
    (he : start + 2 * K ≤ 4294967296)
    (hf : K + 3 ≤ fuel) (hb : vm.clk + 9 * K + 12 ≤ env.maxCycles) :
    ∃ vm', Vm.exec env fuel native_hash_memory_even vm = .ok vm' := by
  rw [shape]
  have hd : Trunc.D vm vm.stack vm.fmp vm.mem vm.ctx := ⟨rfl, rfl, rfl, rfl⟩
  rw [hs] at hd
  obtain ⟨fuel, rfl⟩ : ∃ k, fuel = k + 2 := ⟨fuel - 2, by omega⟩
  obtain ⟨x0, x1, x2, x3, x4, x5, x6, x7, x8, x9, x10, x11, hxv⟩ := eq12 hv
  subst hxv
  simp only [List.reverse_cons, List.reverse_nil, List.nil_append, List.cons_append] at hd
  obtain ⟨v1, e1, d1, k1⟩ := execRow_noop_fwd (env := env) (row := .join) hd (by omega)
  obtain ⟨v2, e2, d2, k2⟩ := exec_span_D_fwd (env := env) (fuel := fuel) noclkA msA d1
    (proA_run vm.ctx x0 x1 x2 x3 x4 x5 x6 x7 x8 x9 x10 x11 start (start + 2 * K) rest vm.fmp vm.mem (by omega)) (by rw [lenA]; omega)
  simp only at d2
  rw [lenA] at k2
  have hlen : ∀ k t f m, J vm.ctx start (start + 2 * K) rest vm.fmp vm.mem [x0, x1, x2, x3, x4, x5, x6, x7, x8, x9, x10, x11] K k t f m → 16 ≤ t.length := by
    intro k t f m ⟨i, ht, _⟩
    rw [ht]
    simp only [List.length_append, List.length_reverse, List.length_cons, hashEven_len vm.ctx vm.mem i start [x0, x1, x2, x3, x4, x5, x6, x7, x8, x9, x10, x11] rfl]
    omega
  have hJ0 : J vm.ctx start (start + 2 * K) rest vm.fmp vm.mem [x0, x1, x2, x3, x4, x5, x6, x7, x8, x9, x10, x11] K K
      (x11 :: x10 :: x9 :: x8 :: x7 :: x6 :: x5 :: x4 :: x3 :: x2 :: x1 :: x0 :: start :: (start + 2 * K) :: rest) vm.fmp vm.mem :=
    ⟨0, by simp [hashEven], by omega, rfl, rfl⟩
  have hc1 : (1 - (if start + 2 * K = start then 1 else 0)) = 1 ↔ K ≠ 0 := by
    constructor
    · intro hc; split at hc <;> omega
    · intro hk; rw [if_neg (by omega)]
  have hc0 : (1 - (if start + 2 * K = start then 1 else 0)) = 0 ↔ K = 0 := by
    constructor
    · intro hc; split at hc <;> omega
    · intro hk; rw [if_pos (by omega)]
  obtain ⟨v3, t', f', m', e3, d3, hJe, k3⟩ := loop_fwd env bodyB noclkB msB vm.ctx _ hlen
    (hash_hstep vm.ctx start K rest vm.fmp vm.mem [x0, x1, x2, x3, x4, x5, x6, x7, x8, x9, x10, x11] rfl hrest he)
    K (fuel + 1) v2 _ _ _ _ d2 hJ0 hc1 hc0 (by omega) (by rw [lenB]; omega)
  rw [lenB] at k3
  obtain ⟨v4, e4, d4, k4⟩ := execRow_noop_fwd (env := env) (row := .end) d3 (by omega)
  exact ⟨v4, exec_join_fwd e1 e2 e3 e4⟩
end HashMem
end Miden
