/-
  Tactics for the 64-bit standard-library procedures on top of the stack-only symbolic executor
  (`Lemmas/Pure.lean`): borrow / low-limb normal forms of `u32sub`, case analysis, `omega`.
-/
import Miden.Lemmas.U64Tac
import Miden.Lemmas.Pure
namespace Miden
set_option linter.unusedSimpArgs false
set_option linter.unusedVariables false

syntax "binb" : tactic
macro_rules
  | `(tactic| binb) => `(tactic| first
    | assumption
    | (simp only [two64, two32]; omega)
    | (split_ifs <;> omega)
    | (simp only [two64, two32]; split_ifs <;> omega)
    | omega)

macro "u64_exec" ops:ident : tactic => `(tactic| (
  simp (disch := binb) only [$ops:ident, pure_exec, *]))

macro "u64_pre" r:ident hr:ident : tactic => `(tactic| (
  have p12 : padN 12 $r = $r := padN_of_le (by omega)
  have p13 : padN 13 $r = $r := padN_of_le (by omega)
  have p14 : padN 14 $r = $r := padN_of_le (by omega)
  have p15 : padN 15 $r = $r := padN_of_le (by omega)
  have p16 : padN 16 $r = $r := padN_of_le (by omega)))

theorem sub_borrow (a b : Nat) (ha : a < two32) (hb : b < two32) :
    (a + two64 - b) % two64 / 2 ^ 63 = if a < b then 1 else 0 := by
  simp only [two64, two32] at *; split <;> omega
theorem sub_lo (a b : Nat) (ha : a < two32) (hb : b < two32) :
    (a + two64 - b) % two64 % two32 = if a < b then a + two32 - b else a - b := by
  simp only [two64, two32] at *; split <;> omega
theorem ite_lt_two32 (c : Prop) [Decidable c] (x y : Nat) (hx : x < two32) (hy : y < two32) :
    (if c then x else y) < two32 := by split <;> assumption

syntax "subb" : tactic
macro_rules
  | `(tactic| subb) => `(tactic| first
    | assumption
    | (simp only [two32]; omega)
    | (split_ifs <;> simp only [two32] at * <;> omega))

macro "u64_leaves" : tactic => `(tactic| (
  simp only [Except.ok.injEq, List.cons.injEq, and_true, two64, two32] at *
  (repeat' (apply And.intro)) <;> (try split_ifs) <;> (try simp_all) <;> (try omega)
  all_goals (first | omega | rw [if_neg (by omega)] | rw [if_pos (by omega)])))

macro "u64_fin" ah:ident al:ident bh:ident bl:ident : tactic => `(tactic| (
  simp (disch := subb) only [sub_borrow, sub_lo]
  have hA : u64of $ah $al = $ah * 4294967296 + $al := rfl
  have hB : u64of $bh $bl = $bh * 4294967296 + $bl := rfl
  generalize u64of $ah $al = A at *
  generalize u64of $bh $bl = B at *
  u64_leaves))

macro "u64_fin1" ah:ident al:ident : tactic => `(tactic| (
  have hA : u64of $ah $al = $ah * 4294967296 + $al := rfl
  generalize u64of $ah $al = A at *
  simp only [Except.ok.injEq, List.cons.injEq, and_true, two64, two32] at *
  split_ifs <;> omega))


end Miden
