/-
  Tactic for refinement theorems about the 64-bit procedures of the standard library.
-/
import Miden.Lemmas.RunOps
import Miden.Generated.StdlibMath
import Mathlib.Tactic.SplitIfs
namespace Miden

/-- A 64-bit value from its 32-bit limbs. -/
@[reducible] def u64of (hi lo : Nat) : Nat := hi * two32 + lo

/-- Symbolic execution of a stdlib span on `[x3, x2, x1, x0] ++ rest` with all limbs < 2^32 and
    at least 16 further elements below (so that no zero padding is involved). -/
macro "u64_tac" ops:ident : tactic => `(tactic| (
  intro vm x3 x2 x1 x0 rest hs h3 h2 h1 h0 hr
  have p12 : padN 12 rest = rest := padN_of_le (by omega)
  have p13 : padN 13 rest = rest := padN_of_le (by omega)
  have p14 : padN 14 rest = rest := padN_of_le (by omega)
  have p15 : padN 15 rest = rest := padN_of_le (by omega)
  have p16 : padN 16 rest = rest := padN_of_le (by omega)
  have n3 : ¬ (two32 ≤ x3) := by omega
  have n2 : ¬ (two32 ≤ x2) := by omega
  have n1 : ¬ (two32 ≤ x1) := by omega
  have n0 : ¬ (two32 ≤ x0) := by omega
  simp [stackRun_eq, runOps_cons, runOps_nil, step_eq_map, Except.map_ok', Except.map_error',
    Except.bind_ok', Except.bind_error', Except.map_ite, Except.bind_ite, $ops:ident, Vm.stepCore, Vm.setStack, Vm.dup, Vm.movup, Vm.movdn,
    insertAt, hs, pad16_eq, p12, p13, p14, p15, p16, n0, n1, n2, n3]
  all_goals (try (split_ifs <;> simp_all))
  all_goals (try (simp only [fadd, fsub, fneg, splitHi, splitLo, two32, u32max, two64, P, u64of] at *))
  all_goals (try omega)))

end Miden
