/-
  64-bit multiplication and zero test of std::math::u64 on the stack-only symbolic executor:
  the limb products are atoms for `omega`; facts about the big moduli live in their own lemmas
  (inside a large context their proof terms make the kernel run for minutes).
-/
import Miden.Lemmas.U64Tac
import Miden.Lemmas.U64Pure
import Mathlib.Tactic.Ring
namespace Miden.U64Mul
open Miden
set_option linter.unusedSimpArgs false
set_option linter.unusedVariables false

theorem u64_wrapping_mul_pure (bh bl ah al : Nat) (r : List Nat) (h3 : bh < two32) (h2 : bl < two32) (h1 : ah < two32) (h0 : al < two32) (hr : 16 ≤ r.length) :
    runPure Generated.u64_wrapping_mul (bh :: bl :: ah :: al :: r)
      = .ok ((u64of ah al * u64of bh bl) % two64 / two32 :: (u64of ah al * u64of bh bl) % two32 :: r) := by
  have p11 : padN 11 r = r := padN_of_le (by omega)
  have p12 : padN 12 r = r := padN_of_le (by omega)
  have p13 : padN 13 r = r := padN_of_le (by omega)
  have p14 : padN 14 r = r := padN_of_le (by omega)
  have p15 : padN 15 r = r := padN_of_le (by omega)
  have p16 : padN 16 r = r := padN_of_le (by omega)
  u64_exec Generated.u64_wrapping_mul
  have e : u64of ah al * u64of bh bl
      = ah * bh * 18446744073709551616 + (ah * bl + al * bh) * 4294967296 + al * bl := by
    simp only [u64of, two32]; ring
  have b0 : al * bl ≤ 4294967295 * 4294967295 := Nat.mul_le_mul (by simp only [two32] at h0; omega) (by simp only [two32] at h2; omega)
  have b1 : ah * bl ≤ 4294967295 * 4294967295 := Nat.mul_le_mul (by simp only [two32] at h1; omega) (by simp only [two32] at h2; omega)
  have b2 : al * bh ≤ 4294967295 * 4294967295 := Nat.mul_le_mul (by simp only [two32] at h0; omega) (by simp only [two32] at h3; omega)
  rw [e]
  generalize al * bl = p0 at *
  generalize ah * bl = p1 at *
  generalize al * bh = p2 at *
  generalize ah * bh = p3 at *
  simp only [p11, p12, p13, p14, splitLo, splitHi, two64, two32, P, Except.ok.injEq, List.cons.injEq, and_true]
  constructor <;> omega

theorem decomp (t : Nat) (ht : t < 18446744069414584321) :
    ∃ k l, t = k * 4294967296 + l ∧ l < 4294967296 ∧ k < 4294967296 ∧
      t % 18446744073709551616 % 18446744069414584321 / 4294967296 = k ∧
      t % 18446744073709551616 % 18446744069414584321 % 4294967296 = l :=
  ⟨t / 4294967296, t % 4294967296, by omega, by omega, by omega, by omega, by omega⟩

theorem fadd_small (a b : Nat) (ha : a < 4294967296) (hb : b < 4294967296) :
    (a + b) % 18446744069414584321 = a + b := Nat.mod_eq_of_lt (by omega)
theorem carry_small (a b : Nat) (ha : a < 4294967296) (hb : b < 4294967296) : (a + b) / 4294967296 < 4294967296 := by omega

theorem u64_overflowing_mul_pure (bh bl ah al : Nat) (r : List Nat) (h3 : bh < two32) (h2 : bl < two32) (h1 : ah < two32) (h0 : al < two32) (hr : 16 ≤ r.length) :
    runPure Generated.u64_overflowing_mul (bh :: bl :: ah :: al :: r)
      = .ok ((u64of ah al * u64of bh bl) / 79228162514264337593543950336
          :: (u64of ah al * u64of bh bl) / two64 % two32
          :: (u64of ah al * u64of bh bl) / two32 % two32
          :: (u64of ah al * u64of bh bl) % two32 :: r) := by
  have p10 : padN 10 r = r := padN_of_le (by omega)
  have p11 : padN 11 r = r := padN_of_le (by omega)
  have p12 : padN 12 r = r := padN_of_le (by omega)
  have p13 : padN 13 r = r := padN_of_le (by omega)
  have p14 : padN 14 r = r := padN_of_le (by omega)
  have p15 : padN 15 r = r := padN_of_le (by omega)
  have p16 : padN 16 r = r := padN_of_le (by omega)
  u64_exec Generated.u64_overflowing_mul
  have e : u64of ah al * u64of bh bl
      = ah * bh * 18446744073709551616 + (ah * bl + al * bh) * 4294967296 + al * bl := by
    simp only [u64of, two32]; ring
  have b0 : al * bl ≤ 4294967295 * 4294967295 := Nat.mul_le_mul (by simp only [two32] at h0; omega) (by simp only [two32] at h2; omega)
  have b1 : ah * bl ≤ 4294967295 * 4294967295 := Nat.mul_le_mul (by simp only [two32] at h1; omega) (by simp only [two32] at h2; omega)
  have b2 : al * bh ≤ 4294967295 * 4294967295 := Nat.mul_le_mul (by simp only [two32] at h0; omega) (by simp only [two32] at h3; omega)
  have b3 : ah * bh ≤ 4294967295 * 4294967295 := Nat.mul_le_mul (by simp only [two32] at h1; omega) (by simp only [two32] at h3; omega)
  rw [e]
  generalize al * bl = p0 at *
  generalize ah * bl = p1 at *
  generalize al * bh = p2 at *
  generalize ah * bh = p3 at *
  simp only [splitLo, splitHi, fadd, two64, two32, P, Except.ok.injEq, List.cons.injEq, and_true]
  obtain ⟨k0, l0, e0, hl0, hk0, d0, m0⟩ := decomp p0 (by omega)
  simp only [d0, m0]
  obtain ⟨k1, l1, e1, hl1, hk1, d1, m1⟩ := decomp (p1 + k0) (by omega)
  simp only [d1, m1]
  obtain ⟨k2, l2, e2, hl2, hk2, d2, m2⟩ := decomp (p2 + l1) (by omega)
  simp only [d2, m2]
  obtain ⟨k3, l3, e3, hl3, hk3, d3, m3⟩ := decomp (p3 + k2) (by omega)
  simp only [d3, m3]
  have s1 : (k1 + l3) % 18446744069414584321 = k1 + l3 := fadd_small k1 l3 hk1 hl3
  simp only [s1]
  have s2 : ((k1 + l3) / 4294967296 + k3) % 18446744069414584321 = (k1 + l3) / 4294967296 + k3 :=
    fadd_small _ k3 (carry_small k1 l3 hk1 hl3) hk3
  simp only [s2]
  have hprod : p3 * 18446744073709551616 + (p1 + p2) * 4294967296 + p0
      = k3 * 79228162514264337593543950336 + (l3 + k1) * 18446744073709551616 + l2 * 4294967296 + l0 := by omega
  rw [hprod]
  clear hprod e e0 e1 e2 e3 d0 d1 d2 d3 m0 m1 m2 m3 b0 b1 b2 b3 s1 s2 p10 p11 p12 p13 p14 p15 p16 h0 h1 h2 h3
  refine ⟨?_, ?_, ?_, ?_⟩ <;> omega

theorem u64_eqz_pure (ah al : Nat) (r : List Nat) (h1 : ah < two32) (h0 : al < two32) (hr : 16 ≤ r.length) :
    runPure Generated.u64_eqz (ah :: al :: r) = .ok ((if u64of ah al = 0 then 1 else 0) :: r) := by
  have p15 : padN 15 r = r := padN_of_le (by omega)
  have p16 : padN 16 r = r := padN_of_le (by omega)
  u64_exec Generated.u64_eqz
  simp only [u64of, two32, Except.ok.injEq, List.cons.injEq, and_true] at *
  by_cases ha : ah = 0 <;> by_cases hb : al = 0 <;> simp [ha, hb]

theorem ps_cswap_b (x0 x1 x2 : Nat) (r : List Nat) (h0 : x0 ≤ 1) :
    pureStep .cswap (x0 :: x1 :: x2 :: r) = .ok (padN 16 (if x0 = 1 then x2 :: x1 :: r else x1 :: x2 :: r)) := by
  have : x0 = 0 ∨ x0 = 1 := by omega
  rcases this with h | h
  · rw [ps_cswap0 _ _ _ _ h]; simp [h]
  · rw [ps_cswap1 _ _ _ _ h]; simp [h]

theorem u64_min_pure (bh bl ah al : Nat) (r : List Nat) (h3 : bh < two32) (h2 : bl < two32) (h1 : ah < two32) (h0 : al < two32) (hr : 16 ≤ r.length) :
    runPure Generated.u64_min (bh :: bl :: ah :: al :: r)
      = .ok (if u64of ah al ≤ u64of bh bl then ah :: al :: r else bh :: bl :: r) := by
  have p9 : padN 9 r = r := padN_of_le (by omega)
  have p10 : padN 10 r = r := padN_of_le (by omega)
  have p11 : padN 11 r = r := padN_of_le (by omega)
  have p12 : padN 12 r = r := padN_of_le (by omega)
  have p13 : padN 13 r = r := padN_of_le (by omega)
  have p14 : padN 14 r = r := padN_of_le (by omega)
  have p15 : padN 15 r = r := padN_of_le (by omega)
  have p16 : padN 16 r = r := padN_of_le (by omega)
  simp (disch := binb) only [Generated.u64_min, pure_exec, *]
  have hFv : (if (bh + two64 - ah) % two64 / 2 ^ 63 = 1 ∨
        (if (bl + two64 - al) % two64 / 2 ^ 63 = 1 ∧ (if (bh + two64 - ah) % two64 % two32 = 0 then 1 else 0) = 1 then 1 else 0) = 1
      then 1 else 0) = if u64of ah al > u64of bh bl then 1 else 0 := by
    simp (disch := subb) only [sub_borrow, sub_lo]
    have hA : u64of ah al = ah * 4294967296 + al := rfl
    have hB : u64of bh bl = bh * 4294967296 + bl := rfl
    generalize u64of ah al = A at *
    generalize u64of bh bl = B at *
    simp only [two64, two32] at *
    (try split_ifs) <;> (try simp_all) <;> (try omega)
    all_goals (first | omega | rw [if_neg (by omega)] | rw [if_pos (by omega)])
  rw [hFv]
  by_cases hgt : u64of ah al > u64of bh bl
  · have hle : ¬ u64of ah al ≤ u64of bh bl := by omega
    simp (disch := binb) only [pure_exec, if_pos hgt, if_neg hle, *]
    simp
  · have hle : u64of ah al ≤ u64of bh bl := by omega
    simp (disch := binb) only [pure_exec, if_neg hgt, if_pos hle, *]
    simp

theorem u64_max_pure (bh bl ah al : Nat) (r : List Nat) (h3 : bh < two32) (h2 : bl < two32) (h1 : ah < two32) (h0 : al < two32) (hr : 16 ≤ r.length) :
    runPure Generated.u64_max (bh :: bl :: ah :: al :: r)
      = .ok (if u64of ah al ≥ u64of bh bl then ah :: al :: r else bh :: bl :: r) := by
  have p9 : padN 9 r = r := padN_of_le (by omega)
  have p10 : padN 10 r = r := padN_of_le (by omega)
  have p11 : padN 11 r = r := padN_of_le (by omega)
  have p12 : padN 12 r = r := padN_of_le (by omega)
  have p13 : padN 13 r = r := padN_of_le (by omega)
  have p14 : padN 14 r = r := padN_of_le (by omega)
  have p15 : padN 15 r = r := padN_of_le (by omega)
  have p16 : padN 16 r = r := padN_of_le (by omega)
  simp (disch := binb) only [Generated.u64_max, pure_exec, *]
  have hFv : (if (ah + two64 - bh) % two64 / 2 ^ 63 = 1 ∨
        (if (if (ah + two64 - bh) % two64 % two32 = 0 then 1 else 0) = 1 ∧ (al + two64 - bl) % two64 / 2 ^ 63 = 1 then 1 else 0) = 1
      then 1 else 0) = if u64of ah al < u64of bh bl then 1 else 0 := by
    simp (disch := subb) only [sub_borrow, sub_lo]
    have hA : u64of ah al = ah * 4294967296 + al := rfl
    have hB : u64of bh bl = bh * 4294967296 + bl := rfl
    generalize u64of ah al = A at *
    generalize u64of bh bl = B at *
    simp only [two64, two32] at *
    (try split_ifs) <;> (try simp_all) <;> (try omega)
    all_goals (first | omega | rw [if_neg (by omega)] | rw [if_pos (by omega)])
  rw [hFv]
  by_cases hlt : u64of ah al < u64of bh bl
  · have hge : ¬ u64of ah al ≥ u64of bh bl := by omega
    simp (disch := binb) only [pure_exec, if_pos hlt, if_neg hge, *]
    simp
  · have hge : u64of ah al ≥ u64of bh bl := by omega
    simp (disch := binb) only [pure_exec, if_neg hlt, if_pos hge, *]
    simp

end Miden.U64Mul
