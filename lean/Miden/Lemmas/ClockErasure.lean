/-
  Clock erasure: operations other than CLK do not depend on the clock or on the decoder history
  (`step_reclk`), so the rows of a span executed with clock ticks give, up to clock and history,
  the state obtained by running the same operations without ticks (`execOps_runOps`,
  `exec_span`).  Lets theorems about procedures be proved on `runOps` / `runM` / `runPure` and
  transported to the executor `Vm.exec`.
-/
import Miden.Lemmas.RunOps
import Miden.Lemmas.Exec
namespace Miden
set_option linter.unusedSimpArgs false

/-- The same machine state at another clock / with another decoder history. -/
def Vm.reclk (vm : Vm) (c : Nat) (t : List Op) : Vm := { vm with clk := c, trace := t }

set_option maxHeartbeats 2000000 in
theorem stepCore_reclk (vm : Vm) (op : Op) (c : Nat) (t : List Op) (h : op ≠ .clk) :
    (vm.reclk c t).stepCore op = (vm.stepCore op).map (fun r => r.reclk c t) := by
  cases op
  case hperm =>
    obtain ⟨stack, clk, ctx, fmp, ins, fnh, mem, adv, paths, trace⟩ := vm
    show (if stack.length < 12 then _ else _) = Except.map _ (if stack.length < 12 then _ else _)
    split <;> rfl
  all_goals ((try contradiction) <;>
    simp only [Vm.reclk, Vm.stepCore, Vm.setStack, Vm.dup, Vm.movup, Vm.movdn] <;>
    (repeat' split) <;> simp_all [Except.map, Vm.reclk] <;>
    (try (split <;> simp_all [Except.map])) <;> (try omega))

theorem step_reclk (vm : Vm) (op : Op) (c : Nat) (t : List Op) (h : op ≠ .clk) :
    (vm.reclk c t).step op = (vm.step op).map (fun r => r.reclk c t) := by
  unfold Vm.step
  rw [stepCore_reclk vm op c t h]
  cases vm.stepCore op <;> rfl

@[simp] theorem reclk_reclk (vm : Vm) (c c' : Nat) (t t' : List Op) :
    (vm.reclk c t).reclk c' t' = vm.reclk c' t' := rfl

theorem runOps_reclk : ∀ (ops : List Op) (vm : Vm) (c : Nat) (t : List Op), Op.clk ∉ ops →
    runOps ops (vm.reclk c t) = (runOps ops vm).map (fun r => r.reclk c t)
  | [], vm, c, t, _ => rfl
  | op :: rest, vm, c, t, hc => by
    have hop : op ≠ .clk := fun e => hc (by simp [e])
    have hrest : Op.clk ∉ rest := fun e => hc (by simp [e])
    simp only [runOps, step_reclk vm op c t hop]
    cases hs : vm.step op with
    | error e => rfl
    | ok s1 => exact runOps_reclk rest s1 c t hrest

/-- Ticks change the clock and the decoder history only. -/
theorem tick_reclk {env : Env} {vm vm' : Vm} {row : Op} (h : vm.tick env row = .ok vm') :
    vm' = vm.reclk vm'.clk vm'.trace := by
  unfold Vm.tick at h
  simp only at h
  split at h
  · cases h
  · cases h; rfl

/-- Clock erasure for straight-line code: if the rows of a span execute (with ticks) from `vm`
    to `vm'`, then the same operations executed without ticks from `vm` give `vm'` up to clock and
    decoder history — provided the span does not read the clock. RESPAN rows execute as NOOP. -/
theorem execOps_runOps {env : Env} : ∀ (rows : List Op) (vm vm' : Vm), Op.clk ∉ rows →
    Vm.execOps env rows vm = .ok vm' →
    ∃ v, runOps (rows.map (fun o => if o = Op.respan then Op.noop else o)) vm = .ok v ∧
      vm' = v.reclk vm'.clk vm'.trace
  | [], vm, vm', _, h => by
    simp only [Vm.execOps] at h
    cases h
    exact ⟨vm, rfl, rfl⟩
  | op :: rest, vm, vm', hc, h => by
    simp only [Vm.execOps] at h
    have hrest : Op.clk ∉ rest := fun e => hc (by simp [e])
    have hrow : (if op = Op.respan then vm.execRow env .noop .respan else vm.execRow env op op)
        = Vm.execRow env vm (if op = Op.respan then Op.noop else op) op := by
      split
      · rename_i e; subst e; rfl
      · rfl
    rw [hrow] at h
    generalize hop' : (if op = Op.respan then Op.noop else op) = op' at h
    have hne : op' ≠ .clk := by
      rw [← hop']
      have hop : op ≠ .clk := fun e => hc (by simp [e])
      split
      · intro e; cases e
      · exact hop
    cases hr : Vm.execRow env vm op' op with
    | error e => rw [hr] at h; cases h
    | ok v1 =>
      rw [hr] at h
      simp only at h
      unfold Vm.execRow at hr
      cases hs : vm.step op' with
      | error e => rw [hs] at hr; cases hr
      | ok s1 =>
        rw [hs] at hr
        simp only at hr
        have ht := tick_reclk hr
        obtain ⟨v, hv, he⟩ := execOps_runOps rest v1 vm' hrest h
        have hmap : Op.clk ∉ rest.map (fun o => if o = Op.respan then Op.noop else o) := by
          intro hm
          simp only [List.mem_map] at hm
          obtain ⟨o, ho, heq⟩ := hm
          split at heq
          · cases heq
          · subst heq; exact hrest ho
        rw [ht, runOps_reclk _ s1 _ _ hmap] at hv
        cases hw : runOps (rest.map (fun o => if o = Op.respan then Op.noop else o)) s1 with
        | error e => rw [hw] at hv; cases hv
        | ok w =>
          rw [hw] at hv
          simp only [Except.map] at hv
          cases hv
          refine ⟨w, ?_, ?_⟩
          · simp only [List.map_cons, runOps, hop', hs, hw]
          · rw [he]; rfl

def deRespan (rows : List Op) : List Op := rows.map (fun o => if o = Op.respan then Op.noop else o)

theorem execRow_noop_reclk {env : Env} {vm vm' : Vm} {row : Op} (h : vm.execRow env .noop row = .ok vm') :
    vm' = vm.reclk vm'.clk vm'.trace := by
  unfold Vm.execRow at h
  rw [Vm.step_noop] at h
  exact tick_reclk h

/-- Executing a span that does not read the clock is, up to clock and decoder history, running its
    rows (with the batching NOOPs; RESPAN as NOOP) on the state. -/
theorem exec_span {env : Env} {fuel : Nat} {ops : List Op} {vm vm' : Vm}
    (hc : Op.clk ∉ spanRows ops) (h : Vm.exec env (fuel + 1) (.span ops) vm = .ok vm') :
    ∃ v, runOps (deRespan (spanRows ops)) vm = .ok v ∧ vm' = v.reclk vm'.clk vm'.trace := by
  simp only [Vm.exec] at h
  cases h1 : vm.execRow env .noop .span with
  | error e => rw [h1] at h; cases h
  | ok v1 =>
    rw [h1] at h
    simp only at h
    cases h2 : Vm.execOps env (spanRows ops) v1 with
    | error e => rw [h2] at h; cases h
    | ok v2 =>
      rw [h2] at h
      simp only at h
      have e1 := execRow_noop_reclk h1
      have e3 := execRow_noop_reclk h
      obtain ⟨w, hw, e2⟩ := execOps_runOps (spanRows ops) v1 v2 hc h2
      have hmap : Op.clk ∉ deRespan (spanRows ops) := by
        intro hm
        simp only [deRespan, List.mem_map] at hm
        obtain ⟨o, ho, heq⟩ := hm
        split at heq
        · cases heq
        · subst heq; exact hc ho
      rw [e1, show (fun o => if o = Op.respan then Op.noop else o) = (fun o => if o = Op.respan then Op.noop else o) from rfl] at hw
      have hw' : runOps (deRespan (spanRows ops)) (vm.reclk v1.clk v1.trace) = .ok w := hw
      rw [runOps_reclk _ vm _ _ hmap] at hw'
      cases hr : runOps (deRespan (spanRows ops)) vm with
      | error e => rw [hr] at hw'; cases hw'
      | ok r =>
        rw [hr] at hw'
        simp only [Except.map] at hw'
        cases hw'
        refine ⟨r, rfl, ?_⟩
        rw [e3, e2]
        rfl

end Miden
