/-
  Forward rules with the advice tape (`DA` view) and termination of pipe_double_words_to_memory:
  with enough tape, fuel and cycles the executor completes.
-/
import Miden.Lemmas.Forward
import Miden.Lemmas.PipeMem
namespace Miden
set_option linter.unusedSimpArgs false
set_option linter.unusedVariables false
open Trunc

theorem execRow_drop_fwd_a {env : Env} {vm : Vm} {row : Op} {x : Nat} {s : List Nat} {f m a c}
    (hd : DA vm (x :: s) f m a c) (hb : vm.clk + 1 ≤ env.maxCycles) :
    ∃ vm', vm.execRow env .drop row = .ok vm' ∧ DA vm' (padN 16 s) f m a c ∧ vm'.clk = vm.clk + 1 := by
  obtain ⟨hs, hf, hm, ha, hc⟩ := hd
  refine ⟨_, execRow_fwd (Vm.step_drop vm x s hs) hb, ⟨by simp [Vm.reclk, pad16_eq], hf, hm, ha, hc⟩, rfl⟩

theorem execRow_noop_fwd_a {env : Env} {vm : Vm} {row : Op} {s f m a c}
    (hd : DA vm s f m a c) (hb : vm.clk + 1 ≤ env.maxCycles) :
    ∃ vm', vm.execRow env .noop row = .ok vm' ∧ DA vm' s f m a c ∧ vm'.clk = vm.clk + 1 :=
  ⟨_, execRow_fwd (Vm.step_noop vm) hb, hd, rfl⟩

/-- A span of (stack, fmp, memory) operations whose tick-free run succeeds completes when the cycle
    budget allows its rows plus SPAN and END. -/
theorem exec_span_DA_fwd {env : Env} {fuel : Nat} {ops : List Op} {vm : Vm} {s f m a c} {st : ASt}
    (hc : Op.clk ∉ spanRows ops) (hm : (deRespan (spanRows ops)).all Op.isASimple = true)
    (hd : DA vm s f m a c) (hr : runA c (deRespan (spanRows ops)) ⟨s, f, m, a⟩ = .ok st)
    (hb : vm.clk + (spanRows ops).length + 2 ≤ env.maxCycles) :
    ∃ vm', Vm.exec env (fuel + 1) (.span ops) vm = .ok vm' ∧ DA vm' st.stack st.fmp st.mem st.adv c ∧
      vm'.clk = vm.clk + (spanRows ops).length + 2 := by
  obtain ⟨hs, hf, hmm, haa, hcc⟩ := hd
  have hrun : runOps (deRespan (spanRows ops)) vm
      = .ok { vm with stack := st.stack, fmp := st.fmp, mem := st.mem, adv := st.adv } := by
    rw [runOps_a _ hm vm, hs, hf, hmm, haa, hcc, hr]
  obtain ⟨t, ht⟩ := exec_span_fwd (fuel := fuel) hc hrun hb
  exact ⟨_, ht, ⟨rfl, rfl, rfl, rfl, hcc⟩, rfl⟩

theorem loopIter_fwd_a (env : Env) (body : List Op) (hc : Op.clk ∉ spanRows body)
    (hm : (deRespan (spanRows body)).all Op.isASimple = true) (C : Nat)
    (J : Nat → List Nat → Nat → Mem → List Nat → Prop)
    (hlen : ∀ k t f m a, J k t f m a → 16 ≤ t.length)
    (hstep : ∀ k t f m a, J (k + 1) t f m a → ∃ c t' f' m' a',
      runA C (deRespan (spanRows body)) ⟨t, f, m, a⟩ = .ok ⟨c :: t', f', m', a'⟩ ∧ J k t' f' m' a' ∧
      (c = 1 ↔ k ≠ 0) ∧ (c = 0 ↔ k = 0)) :
    ∀ (k fuel : Nat) (vm : Vm) (c : Nat) (t : List Nat) (f : Nat) (m : Mem) (a : List Nat),
      DA vm (c :: t) f m a C → J k t f m a → (c = 1 ↔ k ≠ 0) → (c = 0 ↔ k = 0) → k + 2 ≤ fuel →
      vm.clk + k * ((spanRows body).length + 3) + 1 ≤ env.maxCycles →
      ∃ vm' t' f' m' a', Vm.loopIter env fuel (.span body) vm = .ok vm' ∧ DA vm' t' f' m' a' C ∧ J 0 t' f' m' a' ∧
        vm'.clk = vm.clk + k * ((spanRows body).length + 3) + 1 := by
  intro k
  induction k with
  | zero =>
    intro fuel vm c t f m a hd hj h1 h0 hf hb
    obtain ⟨fuel, rfl⟩ : ∃ n, fuel = n + 1 := ⟨fuel - 1, by omega⟩
    simp only [Vm.loopIter]
    have hpeek : vm.peek = c := by unfold Vm.peek; rw [hd.1]; rfl
    have hc0 : c = 0 := h0.mpr rfl
    have hc1 : ¬ c = 1 := by omega
    rw [hpeek, if_neg hc1, if_pos hc0]
    obtain ⟨vm', he, hd', hk⟩ := execRow_drop_fwd_a (env := env) (row := .end) hd (by omega)
    rw [padN_of_le (hlen 0 t f m a hj)] at hd'
    exact ⟨vm', t, f, m, a, he, hd', hj, by omega⟩
  | succ k ih =>
    intro fuel vm c t f m a hd hj h1 h0 hf hb
    obtain ⟨fuel, rfl⟩ : ∃ n, fuel = n + 1 := ⟨fuel - 1, by omega⟩
    simp only [Vm.loopIter]
    have hpeek : vm.peek = c := by unfold Vm.peek; rw [hd.1]; rfl
    have hc1 : c = 1 := h1.mpr (by omega)
    rw [hpeek, if_pos hc1]
    have hmul : (k + 1) * ((spanRows body).length + 3) = k * ((spanRows body).length + 3) + ((spanRows body).length + 3) := by
      rw [Nat.add_mul]; omega
    obtain ⟨v1, he1, hd1, hk1⟩ := execRow_drop_fwd_a (env := env) (row := .repeat) hd (by omega)
    rw [padN_of_le (hlen (k + 1) t f m a hj)] at hd1
    rw [he1]; simp only
    obtain ⟨c', t', f', m', a', hrun, hj', hc1', hc0'⟩ := hstep k t f m a hj
    obtain ⟨fuel, rfl⟩ : ∃ n, fuel = n + 1 := ⟨fuel - 1, by omega⟩
    obtain ⟨v2, he2, hd2, hk2⟩ := exec_span_DA_fwd (env := env) (fuel := fuel) hc hm hd1 hrun (by omega)
    rw [he2]; simp only
    obtain ⟨vm', t'', f'', m'', a'', he3, hd3, hj3, hk3⟩ := ih (fuel + 1) v2 c' t' f' m' a' hd2 hj' hc1' hc0' (by omega) (by omega)
    exact ⟨vm', t'', f'', m'', a'', he3, hd3, hj3, by omega⟩

/-- Forward rule for `while.true`: with `K` iterations to go, fuel `≥ K + 2` and a cycle budget of
    `K·(rows + 3) + 2`, the loop completes in a state satisfying the invariant at 0. -/
theorem loop_fwd_a (env : Env) (body : List Op) (hc : Op.clk ∉ spanRows body)
    (hm : (deRespan (spanRows body)).all Op.isASimple = true) (C : Nat)
    (J : Nat → List Nat → Nat → Mem → List Nat → Prop)
    (hlen : ∀ k t f m a, J k t f m a → 16 ≤ t.length)
    (hstep : ∀ k t f m a, J (k + 1) t f m a → ∃ c t' f' m' a',
      runA C (deRespan (spanRows body)) ⟨t, f, m, a⟩ = .ok ⟨c :: t', f', m', a'⟩ ∧ J k t' f' m' a' ∧
      (c = 1 ↔ k ≠ 0) ∧ (c = 0 ↔ k = 0))
    (k fuel : Nat) (vm : Vm) (c : Nat) (t : List Nat) (f : Nat) (m : Mem) (a : List Nat)
    (hd : DA vm (c :: t) f m a C) (hj : J k t f m a) (h1 : c = 1 ↔ k ≠ 0) (h0 : c = 0 ↔ k = 0)
    (hf : k + 2 ≤ fuel) (hb : vm.clk + k * ((spanRows body).length + 3) + 2 ≤ env.maxCycles) :
    ∃ vm' t' f' m' a', Vm.exec env fuel (.loop (.span body)) vm = .ok vm' ∧ DA vm' t' f' m' a' C ∧ J 0 t' f' m' a' ∧
      vm'.clk ≤ vm.clk + k * ((spanRows body).length + 3) + 2 := by
  obtain ⟨fuel, rfl⟩ : ∃ n, fuel = n + 1 := ⟨fuel - 1, by omega⟩
  simp only [Vm.exec]
  have hpeek : vm.peek = c := by unfold Vm.peek; rw [hd.1]; rfl
  rw [hpeek]
  obtain ⟨v1, he1, hd1, hk1⟩ := execRow_drop_fwd_a (env := env) (row := .loop) hd (by omega)
  rw [padN_of_le (hlen k t f m a hj)] at hd1
  rw [he1]; simp only
  cases k with
  | zero =>
    have hc0 : c = 0 := h0.mpr rfl
    have hc1 : ¬ c = 1 := by omega
    rw [if_neg hc1, if_pos hc0]
    obtain ⟨vm', he, hd', hk⟩ := execRow_noop_fwd_a (env := env) (row := .end) hd1 (by omega)
    exact ⟨vm', t, f, m, a, he, hd', hj, by omega⟩
  | succ k =>
    have hc1 : c = 1 := h1.mpr (by omega)
    rw [if_pos hc1]
    have hmul : (k + 1) * ((spanRows body).length + 3) = k * ((spanRows body).length + 3) + ((spanRows body).length + 3) := by
      rw [Nat.add_mul]; omega
    obtain ⟨c', t', f', m', a', hrun, hj', hc1', hc0'⟩ := hstep k t f m a hj
    obtain ⟨fuel, rfl⟩ : ∃ n, fuel = n + 1 := ⟨fuel - 1, by omega⟩
    obtain ⟨v2, he2, hd2, hk2⟩ := exec_span_DA_fwd (env := env) (fuel := fuel) hc hm hd1 hrun (by omega)
    rw [he2]; simp only
    obtain ⟨vm', t'', f'', m'', a'', he3, hd3, hj3, hk3⟩ :=
      loopIter_fwd_a env body hc hm C J hlen hstep k (fuel + 1) v2 c' t' f' m' a' hd2 hj' hc1' hc0' (by omega) (by omega)
    exact ⟨vm', t'', f'', m'', a'', he3, hd3, hj3, by omega⟩


namespace PipeMem
open Generated Memcopy

theorem pipe_hstep (ctx start K : Nat) (rest : List Nat) (f0 : Nat) (m0 : Mem) (v0 adv0 : List Nat) (hv0 : v0.length = 12)
    (hrest : 2 ≤ rest.length) (he : start + 2 * K ≤ 4294967296) :
    let e := start + 2 * K
    ∀ k t f m a st, J ctx start e rest f0 m0 v0 adv0 K (k + 1) t f m a →
      runA ctx (deRespan (spanRows bodyP)) ⟨t, f, m, a⟩ = .ok st →
      ∃ c t', st.stack = c :: t' ∧ J ctx start e rest f0 m0 v0 adv0 K k t' st.fmp st.mem st.adv ∧
        (c = 1 ↔ k ≠ 0) ∧ (c = 0 ↔ k = 0) := by
  intro e
  intro k t f m a st ⟨i, hik, hil, ha, ht, hf, hmm⟩ hrun
  obtain ⟨y0, y1, y2, y3, y4, y5, y6, y7, y8, y9, y10, y11, hy⟩ := HashMem.eq12 (pipeState_len i v0 adv0 hv0)
  rw [hy] at ht
  simp only [List.reverse_cons, List.reverse_nil, List.nil_append, List.cons_append] at ht
  subst ht
  have haddr : start + 2 * i + 1 ≤ u32max := by simp only [u32max]; omega
  obtain ⟨t0, t1, t2, t3, t4, t5, t6, t7, adv', hadv, hst'⟩ :=
    bodyP_inv ctx y0 y1 y2 y3 y4 y5 y6 y7 y8 y9 y10 y11 (start + 2 * i) e rest f m a st haddr (by omega) hrun
  subst hst'
  have hdrop : adv0.drop (8 * i) = t0 :: t1 :: t2 :: t3 :: t4 :: t5 :: t6 :: t7 :: adv' := by rw [← ha]; exact hadv
  obtain ⟨q8, q4, q44, qd, ql⟩ := take8 hdrop
  refine ⟨_, _, rfl, ?_, ?_, ?_⟩
  · refine ⟨i + 1, by omega, ?_, ?_, ?_, hf, ?_⟩
    · rw [List.length_drop] at ql; omega
    · show adv' = adv0.drop (8 * (i + 1))
      have : 8 * (i + 1) = 8 * i + 8 := by omega
      rw [this, ← List.drop_drop, qd]
    · rw [pipeState_succ, hy, q8]
      have e2 : start + 2 * i + 2 = start + 2 * (i + 1) := by omega
      rw [e2]
      rfl
    · show (m.write ctx (start + 2 * i) ⟨t0, t1, t2, t3⟩).write ctx (start + 2 * i + 1) ⟨t4, t5, t6, t7⟩ = _
      rw [pipeMem_succ, ← hmm, q4]
      have e4 : adv0.drop (8 * i + 4) = (adv0.drop (8 * i)).drop 4 := by rw [List.drop_drop]
      rw [e4, q44]
      rfl
  · constructor
    · intro hc; split at hc <;> omega
    · intro hk; rw [if_neg (by show ¬ (start + 2 * K = start + 2 * i + 2); omega)]
  · constructor
    · intro hc; split at hc <;> omega
    · intro hk; rw [if_pos (by show start + 2 * K = start + 2 * i + 2; omega)]

theorem bodyP_run (ctx v0 v1 v2 v3 v4 v5 v6 v7 v8 v9 v10 v11 a e : Nat) (rest : List Nat) (f : Nat) (m : Mem)
    (t0 t1 t2 t3 t4 t5 t6 t7 : Nat) (adv' : List Nat) (ha : a + 1 ≤ u32max) (hrest : 1 ≤ rest.length) :
    ∃ st, runA ctx (deRespan (spanRows bodyP))
      ⟨v11 :: v10 :: v9 :: v8 :: v7 :: v6 :: v5 :: v4 :: v3 :: v2 :: v1 :: v0 :: a :: e :: rest, f, m,
        t0 :: t1 :: t2 :: t3 :: t4 :: t5 :: t6 :: t7 :: adv'⟩ = .ok st := by
  rw [rowsP]
  simp only [bodyP]
  rw [ra_pipe _ _ _ _ _ _ _ _ _ _ _ _ _ _ _ _ _ _ _ _ _ _ _ _ _ _ _ ha]
  obtain ⟨o0, o1, o2, o3, o4, o5, o6, o7, o8, o9, o10, o11, ho⟩ :=
    HashMem.eq12 (Vm.permute_len [v0, v1, v2, v3, t0, t1, t2, t3, t4, t5, t6, t7])
  rw [ra_pure _ _ _ _ _ _ _ (by decide), HashMem.ps_hperm, Except.bind_ok', ho]
  simp only [List.reverse_cons, List.reverse_nil, List.nil_append, List.cons_append]
  rw [ra_pure _ _ _ _ _ _ _ (by decide), ps_dup13, Except.bind_ok']
  rw [ra_pure _ _ _ _ _ _ _ (by decide), ps_dup13, Except.bind_ok']
  rw [ra_pure _ _ _ _ _ _ _ (by decide), ps_eq, Except.bind_ok']
  simp only [padN_cons, padN_zero]
  rw [ra_pure _ _ _ _ _ _ _ (by decide), ps_not _ _ (by split <;> omega), Except.bind_ok', runA_nil]
  exact ⟨_, rfl⟩

theorem drop8 (l : List Nat) (n : Nat) (h : n + 8 ≤ l.length) :
    ∃ t0 t1 t2 t3 t4 t5 t6 t7 r, l.drop n = t0 :: t1 :: t2 :: t3 :: t4 :: t5 :: t6 :: t7 :: r := by
  have hl : 8 ≤ (l.drop n).length := by rw [List.length_drop]; omega
  match hd : l.drop n, hl with
  | t0 :: t1 :: t2 :: t3 :: t4 :: t5 :: t6 :: t7 :: r, _ => exact ⟨t0, t1, t2, t3, t4, t5, t6, t7, r, rfl⟩

theorem lenA : (spanRows proA).length = 4 := by decide
theorem lenP : (spanRows bodyP).length = 6 := by decide
theorem lenE : (spanRows epiP).length = 5 := by decide

/-- **`pipe_double_words_to_memory` completes exactly when the tape is long enough**: with at least `8K`
    elements on the advice tape, fuel `≥ K + 4` and a cycle budget of `9·K + 22`, the executor completes
    (the converse - a completed run found `8K` elements - is part of `pipe_double_words_spec`). -/
theorem pipe_double_words_total (env : Env) (fuel : Nat) (vm : Vm) (v : List Nat) (start K : Nat)
    (rest : List Nat) (hv : v.length = 12)
    (hs : vm.stack = v.reverse ++ start :: (start + 2 * K) :: rest) (hrest : 2 ≤ rest.length)
    (he : start + 2 * K ≤ 4294967296) (htape : 8 * K ≤ vm.adv.length)
    (hf : K + 4 ≤ fuel) (hb : vm.clk + 9 * K + 22 ≤ env.maxCycles) :
    ∃ vm', Vm.exec env fuel mem_pipe_double_words_to_memory vm = .ok vm' := by
  rw [shape]
  have hd : DA vm vm.stack vm.fmp vm.mem vm.adv vm.ctx := ⟨rfl, rfl, rfl, rfl, rfl⟩
  rw [hs] at hd
  obtain ⟨fuel, rfl⟩ : ∃ k, fuel = k + 3 := ⟨fuel - 3, by omega⟩
  obtain ⟨x0, x1, x2, x3, x4, x5, x6, x7, x8, x9, x10, x11, hxv⟩ := HashMem.eq12 hv
  subst hxv
  simp only [List.reverse_cons, List.reverse_nil, List.nil_append, List.cons_append] at hd
  obtain ⟨v1, e1, d1, k1⟩ := execRow_noop_fwd_a (env := env) (row := .join) hd (by omega)
  obtain ⟨v2, e2, d2, k2⟩ := execRow_noop_fwd_a (env := env) (row := .join) d1 (by omega)
  obtain ⟨v3, e3, d3, k3⟩ := exec_span_DA_fwd (env := env) (fuel := fuel) noclkA asA d2
    (proA_run vm.ctx x0 x1 x2 x3 x4 x5 x6 x7 x8 x9 x10 x11 start (start + 2 * K) rest vm.fmp vm.mem vm.adv (by omega)) (by rw [lenA]; omega)
  simp only at d3
  rw [lenA] at k3
  have hlen : ∀ k t f m a, J vm.ctx start (start + 2 * K) rest vm.fmp vm.mem [x0, x1, x2, x3, x4, x5, x6, x7, x8, x9, x10, x11] vm.adv K k t f m a → 16 ≤ t.length := by
    intro k t f m a ⟨i, _, _, _, ht, _⟩
    rw [ht]
    simp only [List.length_append, List.length_reverse, List.length_cons, pipeState_len i [x0, x1, x2, x3, x4, x5, x6, x7, x8, x9, x10, x11] vm.adv rfl]
    omega
  have hstepF : ∀ k t f m a, J vm.ctx start (start + 2 * K) rest vm.fmp vm.mem [x0, x1, x2, x3, x4, x5, x6, x7, x8, x9, x10, x11] vm.adv K (k + 1) t f m a →
      ∃ c t' f' m' a', runA vm.ctx (deRespan (spanRows bodyP)) ⟨t, f, m, a⟩ = .ok ⟨c :: t', f', m', a'⟩ ∧
        J vm.ctx start (start + 2 * K) rest vm.fmp vm.mem [x0, x1, x2, x3, x4, x5, x6, x7, x8, x9, x10, x11] vm.adv K k t' f' m' a' ∧
        (c = 1 ↔ k ≠ 0) ∧ (c = 0 ↔ k = 0) := by
    intro k t f m a hj
    have hj' := hj
    obtain ⟨i, hik, hil, ha, ht, hf', hmm⟩ := hj
    obtain ⟨y0, y1, y2, y3, y4, y5, y6, y7, y8, y9, y10, y11, hy⟩ := HashMem.eq12 (pipeState_len i [x0, x1, x2, x3, x4, x5, x6, x7, x8, x9, x10, x11] vm.adv rfl)
    obtain ⟨t0, t1, t2, t3, t4, t5, t6, t7, r, hdr⟩ := drop8 vm.adv (8 * i) (by omega)
    have haddr : start + 2 * i + 1 ≤ u32max := by simp only [u32max]; omega
    obtain ⟨st, hst⟩ := bodyP_run vm.ctx y0 y1 y2 y3 y4 y5 y6 y7 y8 y9 y10 y11 (start + 2 * i) (start + 2 * K) rest f m
      t0 t1 t2 t3 t4 t5 t6 t7 r haddr (by omega)
    have hrun : runA vm.ctx (deRespan (spanRows bodyP)) ⟨t, f, m, a⟩ = .ok st := by
      rw [ht, hy, ha, hdr]
      simp only [List.reverse_cons, List.reverse_nil, List.nil_append, List.cons_append]
      exact hst
    obtain ⟨c, t', hs', hjk, hc1, hc0⟩ := pipe_hstep vm.ctx start K rest vm.fmp vm.mem [x0, x1, x2, x3, x4, x5, x6, x7, x8, x9, x10, x11] vm.adv rfl hrest he k t f m a st hj' hrun
    refine ⟨c, t', st.fmp, st.mem, st.adv, ?_, hjk, hc1, hc0⟩
    rw [hrun]
    cases st
    simp only at hs'
    subst hs'
    rfl
  have hJ0 : J vm.ctx start (start + 2 * K) rest vm.fmp vm.mem [x0, x1, x2, x3, x4, x5, x6, x7, x8, x9, x10, x11] vm.adv K K
      (x11 :: x10 :: x9 :: x8 :: x7 :: x6 :: x5 :: x4 :: x3 :: x2 :: x1 :: x0 :: start :: (start + 2 * K) :: rest) vm.fmp vm.mem vm.adv :=
    ⟨0, by omega, by omega, by simp, by simp [pipeState], rfl, by simp [pipeMem]⟩
  have hc1 : (1 - (if start + 2 * K = start then 1 else 0)) = 1 ↔ K ≠ 0 := by
    constructor
    · intro hc; split at hc <;> omega
    · intro hk; rw [if_neg (by omega)]
  have hc0 : (1 - (if start + 2 * K = start then 1 else 0)) = 0 ↔ K = 0 := by
    constructor
    · intro hc; split at hc <;> omega
    · intro hk; rw [if_pos (by omega)]
  obtain ⟨v4, t', f', m', a', e4, d4, hJe, k4⟩ := loop_fwd_a env bodyP noclkP asP vm.ctx _ hlen hstepF
    K (fuel + 1) v3 _ _ _ _ _ d3 hJ0 hc1 hc0 (by omega) (by rw [lenP]; omega)
  rw [lenP] at k4
  obtain ⟨v5, e5, d5, k5⟩ := execRow_noop_fwd_a (env := env) (row := .end) d4 (by omega)
  -- epilogue
  obtain ⟨i, hik, hil, ha, ht, hf', hmm⟩ := hJe
  obtain ⟨y0, y1, y2, y3, y4, y5, y6, y7, y8, y9, y10, y11, hy⟩ := HashMem.eq12 (pipeState_len i [x0, x1, x2, x3, x4, x5, x6, x7, x8, x9, x10, x11] vm.adv rfl)
  obtain ⟨r0, r1, rest', hr'⟩ : ∃ r0 r1 rest', rest = r0 :: r1 :: rest' := by
    match rest, hrest with
    | r0 :: r1 :: rest', _ => exact ⟨r0, r1, rest', rfl⟩
  rw [ht, hy, hr'] at d5
  simp only [List.reverse_cons, List.reverse_nil, List.nil_append, List.cons_append] at d5
  obtain ⟨v6, e6, d6, k6⟩ := exec_span_DA_fwd (env := env) (fuel := fuel + 1) noclkE asE d5
    (epiP_run vm.ctx y0 y1 y2 y3 y4 y5 y6 y7 y8 y9 y10 y11 _ _ r0 r1 rest' f' m' a') (by rw [lenE]; omega)
  rw [lenE] at k6
  obtain ⟨v7, e7, d7, k7⟩ := execRow_noop_fwd_a (env := env) (row := .end) d6 (by omega)
  exact ⟨v7, exec_join_fwd e1 (exec_join_fwd e2 e3 e4 e5) e6 e7⟩
end PipeMem
end Miden
