/-
  Termination of std::sys::truncate_stack: the loop invariant as a family indexed by the remaining
  iterations (`JT`), the forward loop rule and the forward span rule of `Lemmas/Forward.lean`.
-/
import Miden.Lemmas.Forward
namespace Miden
namespace Trunc
open Generated Memcopy
set_option linter.unusedSimpArgs false
set_option linter.unusedVariables false

theorem lenA : (spanRows proA).length = 35 := by decide
theorem lenB : (spanRows bodyB).length = 8 := by decide
theorem lenC : (spanRows epiC).length = 19 := by decide

/-- State below the loop condition when `k` more iterations are due: the `i`-th suffix of the part
    of the stack below the saved top 16, zero-padded to depth 16. -/
def JT (t0 : List Nat) (F : Nat) (M : Mem) (k : Nat) (t : List Nat) (f : Nat) (m : Mem) : Prop :=
  ∃ i, i + k = (t0.length - 13) / 4 ∧ t = padN 16 (t0.drop (4 * i)) ∧ f = F ∧ m = M

theorem trunc_hstep (ctx : Nat) (t0 : List Nat) (F : Nat) (M : Mem) (h0 : 16 ≤ t0.length) :
    ∀ k t f m, JT t0 F M (k + 1) t f m → ∃ c t' f' m',
      runM ctx (deRespan (spanRows bodyB)) ⟨t, f, m⟩ = .ok ⟨c :: t', f', m'⟩ ∧
      JT t0 F M k t' f' m' ∧ (c = 1 ↔ k ≠ 0) ∧ (c = 0 ↔ k = 0) := by
  intro k t f m ⟨i, hik, ht, hf, hm⟩
  have hlen : 4 * i + 17 ≤ t0.length := by omega
  have hdl : (t0.drop (4 * i)).length = t0.length - 4 * i := List.length_drop
  have hid : padN 16 (t0.drop (4 * i)) = t0.drop (4 * i) := padN_of_le (by omega)
  rw [hid] at ht
  obtain ⟨x0, x1, x2, x3, t'', hx⟩ : ∃ x0 x1 x2 x3 t'', t0.drop (4 * i) = x0 :: x1 :: x2 :: x3 :: t'' := by
    match hd : t0.drop (4 * i), (show 4 ≤ (t0.drop (4 * i)).length by omega) with
    | x0 :: x1 :: x2 :: x3 :: t'', _ => exact ⟨x0, x1, x2, x3, t'', rfl⟩
  have ht'' : t'' = t0.drop (4 * (i + 1)) := by
    have : 4 * (i + 1) = 4 * i + 4 := by omega
    rw [this, ← List.drop_drop, hx]; rfl
  have hl'' : t''.length = t0.length - 4 * i - 4 := by
    have := congrArg List.length hx
    simp only [List.length_cons] at this
    omega
  obtain ⟨c, hrun, hc1, hc0⟩ := bodyB_run ctx x0 x1 x2 x3 t'' f m
  rw [ht, hx]
  refine ⟨c, padN 16 t'', f, m, hrun, ⟨i + 1, by omega, by rw [ht''], hf, hm⟩, ?_, ?_⟩
  · rw [hc1, padN_len, hl'']; omega
  · rw [hc0, padN_len, hl'']; omega

/-- **`sys::truncate_stack` terminates**: for every stack at least 16 deep and a frame pointer with
    room for the four locals, with fuel `≥ (depth − 13)/4 + 4` and a cycle budget of
    `11·((depth − 13)/4) + 80`, the executor completes (the result is the one of `truncate_stack_spec`). -/
theorem truncate_stack_total (env : Env) (fuel : Nat) (vm : Vm) (hl : 16 ≤ vm.stack.length)
    (hf1 : FMP_MIN ≤ vm.fmp) (hf2 : vm.fmp + 4 ≤ FMP_MAX)
    (hf : (vm.stack.length - 13) / 4 + 4 ≤ fuel)
    (hb : vm.clk + 11 * ((vm.stack.length - 13) / 4) + 80 ≤ env.maxCycles) :
    ∃ vm', Vm.exec env fuel sys_truncate_stack vm = .ok vm' := by
  rw [shape]
  obtain ⟨a0, a1, a2, a3, a4, a5, a6, a7, a8, a9, a10, a11, a12, a13, a14, a15, r, hs⟩ := exists16 hl
  have hd : D vm vm.stack vm.fmp vm.mem vm.ctx := ⟨rfl, rfl, rfl, rfl⟩
  rw [hs] at hd
  have hlr : vm.stack.length = r.length + 16 := by rw [hs]; simp
  have hp : (padN 16 r).length = max 16 r.length := padN_len 16 r
  -- the number of iterations is bounded by the one computed from the whole depth
  have hK : ((padN 16 r).length - 13) / 4 ≤ (vm.stack.length - 13) / 4 := by
    rw [hp, hlr]; apply Nat.div_le_div_right; omega
  obtain ⟨fuel, rfl⟩ : ∃ k, fuel = k + 3 := ⟨fuel - 3, by omega⟩
  obtain ⟨v1, e1, d1, k1⟩ := execRow_noop_fwd (env := env) (row := .join) hd (by omega)
  obtain ⟨v2, e2, d2, k2⟩ := execRow_noop_fwd (env := env) (row := .join) d1 (by omega)
  obtain ⟨c, hrun, hc1, hc0⟩ := proA_run vm.ctx a0 a1 a2 a3 a4 a5 a6 a7 a8 a9 a10 a11 a12 a13 a14 a15 r vm.fmp vm.mem hf1 hf2
  obtain ⟨v3, e3, d3, k3⟩ := exec_span_D_fwd (env := env) (fuel := fuel) noclkA msA d2 hrun (by rw [lenA]; omega)
  simp only at d3
  rw [lenA] at k3
  -- loop
  have h16 : 16 ≤ (padN 16 r).length := by rw [hp]; omega
  have hlenJ : ∀ k t f m, JT (padN 16 r) (vm.fmp + 4) (words vm.mem vm.ctx vm.fmp a0 a1 a2 a3 a4 a5 a6 a7 a8 a9 a10 a11 a12 a13 a14 a15) k t f m → 16 ≤ t.length := by
    intro k t f m ⟨i, _, ht, _⟩
    rw [ht, padN_len]; omega
  have hJ0 : JT (padN 16 r) (vm.fmp + 4) (words vm.mem vm.ctx vm.fmp a0 a1 a2 a3 a4 a5 a6 a7 a8 a9 a10 a11 a12 a13 a14 a15)
      (((padN 16 r).length - 13) / 4) (padN 16 r) (vm.fmp + 4) (words vm.mem vm.ctx vm.fmp a0 a1 a2 a3 a4 a5 a6 a7 a8 a9 a10 a11 a12 a13 a14 a15) :=
    ⟨0, by omega, by simp [padN_padN], rfl, rfl⟩
  have hc1' : c = 1 ↔ ((padN 16 r).length - 13) / 4 ≠ 0 := by rw [hc1]; omega
  have hc0' : c = 0 ↔ ((padN 16 r).length - 13) / 4 = 0 := by rw [hc0]; omega
  obtain ⟨v4, t', f', m', e4, d4, hJe, k4⟩ := loop_fwd env bodyB noclkB msB vm.ctx _ hlenJ
    (trunc_hstep vm.ctx (padN 16 r) _ _ h16) _ (fuel + 1) v3 c (padN 16 r) _ _ d3 hJ0 hc1' hc0' (by omega)
    (by rw [lenB]; have := Nat.mul_le_mul_right 11 hK; omega)
  rw [lenB] at k4
  obtain ⟨v5, e5, d5, k5⟩ := execRow_noop_fwd (env := env) (row := .end) d4
    (by have := Nat.mul_le_mul_right 11 hK; omega)
  -- epilogue
  obtain ⟨i, hik, ht, hf', hm'⟩ := hJe
  have hl16 : t'.length = 16 := by rw [ht, padN_len, List.length_drop]; omega
  obtain ⟨x0, x1, x2, x3, x4, x5, x6, x7, x8, x9, x10, x11, x12, x13, x14, x15, hx⟩ := eq16 hl16
  rw [hx, hf', hm'] at d5
  have r1 : (words vm.mem vm.ctx vm.fmp a0 a1 a2 a3 a4 a5 a6 a7 a8 a9 a10 a11 a12 a13 a14 a15).read vm.ctx (vm.fmp + 1) = ⟨a3, a2, a1, a0⟩ := by
    unfold words
    rw [Mem.read_write_ne _ _ _ _ _ (by omega), Mem.read_write_ne _ _ _ _ _ (by omega), Mem.read_write_ne _ _ _ _ _ (by omega), Mem.read_write_same]
  have r2 : (words vm.mem vm.ctx vm.fmp a0 a1 a2 a3 a4 a5 a6 a7 a8 a9 a10 a11 a12 a13 a14 a15).read vm.ctx (vm.fmp + 2) = ⟨a7, a6, a5, a4⟩ := by
    unfold words
    rw [Mem.read_write_ne _ _ _ _ _ (by omega), Mem.read_write_ne _ _ _ _ _ (by omega), Mem.read_write_same]
  have r3 : (words vm.mem vm.ctx vm.fmp a0 a1 a2 a3 a4 a5 a6 a7 a8 a9 a10 a11 a12 a13 a14 a15).read vm.ctx (vm.fmp + 3) = ⟨a11, a10, a9, a8⟩ := by
    unfold words
    rw [Mem.read_write_ne _ _ _ _ _ (by omega), Mem.read_write_same]
  have r4 : (words vm.mem vm.ctx vm.fmp a0 a1 a2 a3 a4 a5 a6 a7 a8 a9 a10 a11 a12 a13 a14 a15).read vm.ctx (vm.fmp + 4) = ⟨a15, a14, a13, a12⟩ := by
    unfold words
    rw [Mem.read_write_same]
  obtain ⟨v6, e6, d6, k6⟩ := exec_span_D_fwd (env := env) (fuel := fuel + 1) noclkC msC d5
    (epiC_run vm.ctx a0 a1 a2 a3 a4 a5 a6 a7 a8 a9 a10 a11 a12 a13 a14 a15 x0 x1 x2 x3 x4 x5 x6 x7 x8 x9 x10 x11 x12 x13 x14 x15
      vm.fmp _ hf1 hf2 r1 r2 r3 r4) (by rw [lenC]; have := Nat.mul_le_mul_right 11 hK; omega)
  rw [lenC] at k6
  obtain ⟨v7, e7, d7, k7⟩ := execRow_noop_fwd (env := env) (row := .end) d6
    (by have := Nat.mul_le_mul_right 11 hK; omega)
  exact ⟨v7, exec_join_fwd e1 (exec_join_fwd e2 e3 e4 e5) e6 e7⟩
end Trunc
end Miden
