import Miden.Lemmas.Exec
namespace Miden
namespace Vm

mutual
/-- `Runs env b l`: the row sequence `l` (chronological) is a depth-first execution of block `b`
    for some sequence of branch / loop decisions. -/
inductive Runs (env : Env) : Block → List Op → Prop
  | span (ops : List Op) : Runs env (.span ops) ([Op.span] ++ spanRows ops ++ [Op.end])
  | join {a b : Block} {la lb : List Op} : Runs env a la → Runs env b lb →
      Runs env (.join a b) ([Op.join] ++ la ++ lb ++ [Op.end])
  | splitT {t f : Block} {l : List Op} : Runs env t l →
      Runs env (.split t f) ([Op.split] ++ l ++ [Op.end])
  | splitF {t f : Block} {l : List Op} : Runs env f l →
      Runs env (.split t f) ([Op.split] ++ l ++ [Op.end])
  | loopSkip (body : Block) : Runs env (.loop body) [Op.loop, Op.end]
  | loopEnter {body : Block} {l lt : List Op} : Runs env body l → LoopTail env body lt →
      Runs env (.loop body) ([Op.loop] ++ l ++ lt)
  | call {target : Word} {sc : Bool} {b : Block} {l : List Op} :
      env.cbTable.lookup target = some b → Runs env b l →
      Runs env (.call target sc) ([if sc then Op.syscall else Op.call] ++ l ++ [Op.end])
  | dyncall {target : Word} {sc : Bool} {l : List Op} : target = env.dynHash → DynRuns env l →
      Runs env (.call target sc) ([if sc then Op.syscall else Op.call] ++ l ++ [Op.end])
  | dyn {l : List Op} : DynRuns env l → Runs env .dyn l
/-- Rows of a dynamically dispatched block: DYN, the body found in the code-block table, END. -/
inductive DynRuns (env : Env) : List Op → Prop
  | mk {target : Word} {b : Block} {l : List Op} : env.cbTable.lookup target = some b →
      Runs env b l → DynRuns env ([Op.dyn] ++ l ++ [Op.end])
/-- Rows after the first iteration of a loop body: REPEAT + body any number of times, then END. -/
inductive LoopTail (env : Env) : Block → List Op → Prop
  | done (body : Block) : LoopTail env body [Op.end]
  | again {body : Block} {l lt : List Op} : Runs env body l → LoopTail env body lt →
      LoopTail env body ([Op.repeat] ++ l ++ lt)
end

/-- `vm'` extends `vm` by exactly the rows `l`. -/
def Ext (vm vm' : Vm) (l : List Op) : Prop := vm'.trace = l.reverse ++ vm.trace

theorem Ext.row {env : Env} {vm vm' : Vm} {op row : Op} (h : vm.execRow env op row = .ok vm') :
    Ext vm vm' [row] := by
  obtain ⟨_, t, _⟩ := execRow_ok h
  simp [Ext, t]

theorem Ext.trans {a b c : Vm} {l1 l2 : List Op} (h1 : Ext a b l1) (h2 : Ext b c l2) :
    Ext a c (l1 ++ l2) := by
  unfold Ext at *
  rw [h2, h1]; simp

theorem exec_runs_all (env : Env) : ∀ fuel : Nat,
    (∀ b vm vm', exec env fuel b vm = .ok vm' → ∃ l, Runs env b l ∧ Ext vm vm' l) ∧
    (∀ vm vm', execDyn env fuel vm = .ok vm' → ∃ l, DynRuns env l ∧ Ext vm vm' l) ∧
    (∀ body vm vm', loopIter env fuel body vm = .ok vm' → ∃ l, LoopTail env body l ∧ Ext vm vm' l) := by
  intro fuel
  induction fuel with
  | zero =>
    refine ⟨?_, ?_, ?_⟩
    · intro b vm vm' h; simp [exec] at h
    · intro vm vm' h; simp [execDyn] at h
    · intro b vm vm' h; simp [loopIter] at h
  | succ n ih =>
    obtain ⟨ihE, ihD, ihL⟩ := ih
    refine ⟨?_, ?_, ?_⟩
    · intro b vm vm' h
      cases b with
      | span ops =>
        simp only [exec] at h
        split at h
        · cases h
        · rename_i v1 h1
          split at h
          · cases h
          · rename_i v2 h2
            obtain ⟨t, _⟩ := execOps_adv _ h2
            refine ⟨_, Runs.span ops, ?_⟩
            have e1 := Ext.row h1
            have e3 := Ext.row h
            have e2 : Ext v1 v2 (spanRows ops) := t
            exact (e1.trans e2).trans e3
      | join a b =>
        simp only [exec] at h
        split at h
        · cases h
        · rename_i v1 h1
          split at h
          · cases h
          · rename_i v2 h2
            split at h
            · cases h
            · rename_i v3 h3
              obtain ⟨la, ra, ea⟩ := ihE _ _ _ h2
              obtain ⟨lb, rb, eb⟩ := ihE _ _ _ h3
              exact ⟨_, Runs.join ra rb, (((Ext.row h1).trans ea).trans eb).trans (Ext.row h)⟩
      | split t f =>
        simp only [exec] at h
        split at h
        · cases h
        · rename_i v1 h1
          split at h
          · split at h
            · cases h
            · rename_i v2 h2
              obtain ⟨l, r, e⟩ := ihE _ _ _ h2
              exact ⟨_, Runs.splitT r, ((Ext.row h1).trans e).trans (Ext.row h)⟩
          · split at h
            · split at h
              · cases h
              · rename_i v2 h2
                obtain ⟨l, r, e⟩ := ihE _ _ _ h2
                exact ⟨_, Runs.splitF r, ((Ext.row h1).trans e).trans (Ext.row h)⟩
            · cases h
      | loop body =>
        simp only [exec] at h
        split at h
        · cases h
        · rename_i v1 h1
          split at h
          · split at h
            · cases h
            · rename_i v2 h2
              obtain ⟨l, r, e⟩ := ihE _ _ _ h2
              obtain ⟨lt, rt, et⟩ := ihL _ _ _ h
              exact ⟨_, Runs.loopEnter r rt, ((Ext.row h1).trans e).trans et⟩
          · split at h
            · exact ⟨_, Runs.loopSkip body, (Ext.row h1).trans (Ext.row h)⟩
            · cases h
      | call target isSyscall =>
        simp only [exec] at h
        split at h
        · cases h
        · split at h
          · cases h
          · rename_i v1 h1
            split at h
            · cases h
            · rename_i v2 h2
              split at h
              · cases h
              · have e1 := Ext.row h1
                have e3 := Ext.row h
                have e1' : Ext vm v1 [if isSyscall then Op.syscall else Op.call] := by
                  unfold Ext at e1 ⊢
                  rw [e1]
                  cases isSyscall <;> rfl
                have e3' : ∀ l, Ext v1 v2 l → Ext v1 vm' (l ++ [Op.end]) := by
                  intro l e2
                  unfold Ext at e2 e3 ⊢
                  rw [e3]
                  simp only [List.reverse_append, List.reverse_cons, List.reverse_nil,
                    List.nil_append, List.cons_append]
                  show Op.end :: v2.trace = _
                  rw [e2]
                split at h2
                · rename_i hd
                  obtain ⟨l, r, e⟩ := ihD _ _ h2
                  refine ⟨_, Runs.dyncall hd r, ?_⟩
                  have := e1'.trans (e3' l e)
                  simpa [List.append_assoc] using this
                · split at h2
                  · cases h2
                  · rename_i blk hl
                    obtain ⟨l, r, e⟩ := ihE _ _ _ h2
                    refine ⟨_, Runs.call hl r, ?_⟩
                    have := e1'.trans (e3' l e)
                    simpa [List.append_assoc] using this
      | dyn =>
        simp only [exec] at h
        obtain ⟨l, r, e⟩ := ihD _ _ h
        exact ⟨l, Runs.dyn r, e⟩
      | proxy t => simp [exec] at h
    · intro vm vm' h
      simp only [execDyn] at h
      split at h
      · split at h
        · cases h
        · rename_i v1 h1
          split at h
          · cases h
          · rename_i blk hl
            split at h
            · cases h
            · rename_i v2 h2
              obtain ⟨l, r, e⟩ := ihE _ _ _ h2
              exact ⟨_, DynRuns.mk hl r, ((Ext.row h1).trans e).trans (Ext.row h)⟩
      · cases h
    · intro body vm vm' h
      simp only [loopIter] at h
      split at h
      · split at h
        · cases h
        · rename_i v1 h1
          split at h
          · cases h
          · rename_i v2 h2
            obtain ⟨l, r, e⟩ := ihE _ _ _ h2
            obtain ⟨lt, rt, et⟩ := ihL _ _ _ h
            exact ⟨_, LoopTail.again r rt, ((Ext.row h1).trans e).trans et⟩
      · split at h
        · exact ⟨_, LoopTail.done body, Ext.row h⟩
        · cases h

end Vm
end Miden
