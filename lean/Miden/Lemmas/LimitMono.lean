/-
  The cycle limit only decides WHETHER a run completes, never WHAT it computes: a run that completes
  with final clock c completes with the same result under every limit m ≥ c (mutual induction over
  exec / execDyn / loopIter; the limit is read by `tick` alone and the clock only grows).
-/
import Miden.Lemmas.Exec
namespace Miden
namespace Vm
set_option linter.unusedSimpArgs false
set_option linter.unusedVariables false

/-- The same environment with another cycle limit. -/
def _root_.Miden.Env.withMax (env : Env) (m : Nat) : Env := { env with maxCycles := m }

theorem tick_mono {env : Env} {vm v : Vm} {row : Op} {m : Nat} (h : vm.tick env row = .ok v) (hm : v.clk ≤ m) :
    vm.tick (env.withMax m) row = .ok v := by
  unfold tick at h ⊢
  simp only at h ⊢
  split at h
  · cases h
  · cases h
    simp only at hm
    have hmax : (env.withMax m).maxCycles = m := rfl
    rw [if_neg (by rw [hmax]; omega)]

theorem execRow_mono {env : Env} {vm v : Vm} {op row : Op} {m : Nat} (h : vm.execRow env op row = .ok v)
    (hm : v.clk ≤ m) : vm.execRow (env.withMax m) op row = .ok v := by
  unfold execRow at h ⊢
  cases hs : vm.step op with
  | error e => rw [hs] at h; cases h
  | ok v1 =>
    rw [hs] at h
    simp only at h ⊢
    exact tick_mono h hm

theorem execOps_mono {env : Env} {m : Nat} : ∀ (rows : List Op) {vm v : Vm},
    execOps env rows vm = .ok v → v.clk ≤ m → execOps (env.withMax m) rows vm = .ok v
  | [], vm, v, h, _ => by simpa [execOps] using h
  | op :: rest, vm, v, h, hm => by
    simp only [execOps] at h ⊢
    split at h
    · cases h
    · rename_i v1 h1
      have hadv := execOps_adv rest h
      have hle : v1.clk ≤ m := by have := hadv.2; omega
      by_cases hr : op = Op.respan
      · simp only [hr, if_true] at h1 ⊢
        rw [execRow_mono h1 hle]
        exact execOps_mono rest h hm
      · simp only [hr, if_false] at h1 ⊢
        rw [execRow_mono h1 hle]
        exact execOps_mono rest h hm


theorem Prog.le {env : Env} {a b : Vm} (h : Prog env a b) : a.clk ≤ b.clk := Nat.le_of_lt h.2.2
theorem row_le {env : Env} {vm v : Vm} {op row : Op} (h : vm.execRow env op row = .ok v) : vm.clk ≤ v.clk :=
  (Prog.of_row h).le

theorem exec_mono_all (env : Env) (m : Nat) : ∀ fuel : Nat,
    (∀ b vm vm', exec env fuel b vm = .ok vm' → vm'.clk ≤ m → exec (env.withMax m) fuel b vm = .ok vm') ∧
    (∀ vm vm', execDyn env fuel vm = .ok vm' → vm'.clk ≤ m → execDyn (env.withMax m) fuel vm = .ok vm') ∧
    (∀ body vm vm', loopIter env fuel body vm = .ok vm' → vm'.clk ≤ m →
      loopIter (env.withMax m) fuel body vm = .ok vm') := by
  intro fuel
  induction fuel with
  | zero =>
    refine ⟨?_, ?_, ?_⟩
    · intro b vm vm' h; simp [exec] at h
    · intro vm vm' h; simp [execDyn] at h
    · intro b vm vm' h; simp [loopIter] at h
  | succ n ih =>
    obtain ⟨ihE, ihD, ihL⟩ := ih
    have pE := (exec_prog_all env n).1
    have pD := (exec_prog_all env n).2.1
    have pL := (exec_prog_all env n).2.2
    refine ⟨?_, ?_, ?_⟩
    · intro b vm vm' h hm
      cases b with
      | span ops =>
        simp only [exec] at h ⊢
        split at h
        · cases h
        · rename_i v1 h1
          split at h
          · cases h
          · rename_i v2 h2
            have l2 : v2.clk ≤ m := Nat.le_trans (row_le h) hm
            have l1 : v1.clk ≤ m := by have := (execOps_adv _ h2).2; omega
            rw [execRow_mono h1 l1]; simp only
            rw [execOps_mono _ h2 l2]; simp only
            exact execRow_mono h hm
      | join a b =>
        simp only [exec] at h ⊢
        split at h
        · cases h
        · rename_i v1 h1
          split at h
          · cases h
          · rename_i v2 h2
            split at h
            · cases h
            · rename_i v3 h3
              have l3 : v3.clk ≤ m := Nat.le_trans (row_le h) hm
              have l2 : v2.clk ≤ m := Nat.le_trans (pE _ _ _ h3).le l3
              have l1 : v1.clk ≤ m := Nat.le_trans (pE _ _ _ h2).le l2
              rw [execRow_mono h1 l1]; simp only
              rw [ihE _ _ _ h2 l2]; simp only
              rw [ihE _ _ _ h3 l3]; simp only
              exact execRow_mono h hm
      | split t f =>
        simp only [exec] at h ⊢
        split at h
        · cases h
        · rename_i v1 h1
          split at h
          · rename_i hc
            split at h
            · cases h
            · rename_i v2 h2
              have l2 : v2.clk ≤ m := Nat.le_trans (row_le h) hm
              have l1 : v1.clk ≤ m := Nat.le_trans (pE _ _ _ h2).le l2
              rw [execRow_mono h1 l1]; simp only
              rw [if_pos hc, ihE _ _ _ h2 l2]; simp only
              exact execRow_mono h hm
          · rename_i hc
            split at h
            · rename_i hc0
              split at h
              · cases h
              · rename_i v2 h2
                have l2 : v2.clk ≤ m := Nat.le_trans (row_le h) hm
                have l1 : v1.clk ≤ m := Nat.le_trans (pE _ _ _ h2).le l2
                rw [execRow_mono h1 l1]; simp only
                rw [if_neg hc, if_pos hc0, ihE _ _ _ h2 l2]; simp only
                exact execRow_mono h hm
            · cases h
      | loop body =>
        simp only [exec] at h ⊢
        split at h
        · cases h
        · rename_i v1 h1
          split at h
          · rename_i hc
            split at h
            · cases h
            · rename_i v2 h2
              have l2 : v2.clk ≤ m := Nat.le_trans (pL _ _ _ h).le hm
              have l1 : v1.clk ≤ m := Nat.le_trans (pE _ _ _ h2).le l2
              rw [execRow_mono h1 l1]; simp only
              rw [if_pos hc, ihE _ _ _ h2 l2]; simp only
              exact ihL _ _ _ h hm
          · rename_i hc
            split at h
            · rename_i hc0
              have l1 : v1.clk ≤ m := Nat.le_trans (row_le h) hm
              rw [execRow_mono h1 l1]; simp only
              rw [if_neg hc, if_pos hc0]
              exact execRow_mono h hm
            · cases h
      | call target isSyscall =>
        simp only [exec] at h ⊢
        split at h
        · cases h
        · rename_i hk
          have hk' : ¬ (isSyscall = true ∧ (!(env.withMax m).kernel.contains target) = true) := hk
          rw [if_neg hk']
          split at h
          · cases h
          · rename_i v1 h1
            split at h
            · cases h
            · rename_i v2 h2
              split at h
              · cases h
              · rename_i hdepth
                have l2 : v2.clk ≤ m := by have := row_le h; simp only at this; omega
                have l1 : v1.clk ≤ m := by
                  by_cases hd : target = env.dynHash
                  · rw [if_pos hd] at h2; exact Nat.le_trans (pD _ _ h2).le l2
                  · rw [if_neg hd] at h2
                    cases hl : env.cbTable.lookup target with
                    | none => simp only [hl] at h2; cases h2
                    | some b => simp only [hl] at h2; exact Nat.le_trans (pE _ _ _ h2).le l2
                rw [execRow_mono h1 l1]; simp only
                have hdyn : (env.withMax m).dynHash = env.dynHash := rfl
                have hcb : (env.withMax m).cbTable = env.cbTable := rfl
                rw [hdyn, hcb]
                by_cases hd : target = env.dynHash
                · rw [if_pos hd] at h2 ⊢
                  rw [ihD _ _ h2 l2]; simp only
                  rw [if_neg hdepth]
                  exact execRow_mono h hm
                · rw [if_neg hd] at h2 ⊢
                  cases hl : env.cbTable.lookup target with
                  | none => simp only [hl] at h2; cases h2
                  | some b =>
                    simp only [hl] at h2 ⊢
                    rw [ihE _ _ _ h2 l2]; simp only
                    rw [if_neg hdepth]
                    exact execRow_mono h hm
      | dyn =>
        simp only [exec] at h ⊢
        exact ihD _ _ h hm
      | proxy t => simp [exec] at h
    · intro vm vm' h hm
      simp only [execDyn] at h ⊢
      split at h
      · rename_i s0 s1 s2 s3 r hs
        split at h
        · cases h
        · rename_i v1 h1
          split at h
          · cases h
          · rename_i b hl
            split at h
            · cases h
            · rename_i v2 h2
              have l2 : v2.clk ≤ m := Nat.le_trans (row_le h) hm
              have l1 : v1.clk ≤ m := Nat.le_trans (pE _ _ _ h2).le l2
              rw [execRow_mono h1 l1]; simp only
              have hl' : (env.withMax m).cbTable.lookup ⟨s3, s2, s1, s0⟩ = some b := hl
              rw [hl']; simp only
              rw [ihE _ _ _ h2 l2]; simp only
              exact execRow_mono h hm
      · cases h
    · intro body vm vm' h hm
      simp only [loopIter] at h ⊢
      split at h
      · rename_i hc
        split at h
        · cases h
        · rename_i v1 h1
          split at h
          · cases h
          · rename_i v2 h2
            have l2 : v2.clk ≤ m := Nat.le_trans (pL _ _ _ h).le hm
            have l1 : v1.clk ≤ m := Nat.le_trans (pE _ _ _ h2).le l2
            rw [if_pos hc, execRow_mono h1 l1]; simp only
            rw [ihE _ _ _ h2 l2]; simp only
            exact ihL _ _ _ h hm
      · rename_i hc
        split at h
        · rename_i hc0
          rw [if_neg hc, if_pos hc0]
          exact execRow_mono h hm
        · cases h

/-- **Raising or lowering the cycle limit changes nothing as long as the run fits**: a run that
    completes with final clock `c` completes with the same result under every limit `m ≥ c`. -/
theorem exec_limit_mono {env : Env} {fuel : Nat} {b : Block} {vm vm' : Vm} (m : Nat)
    (h : exec env fuel b vm = .ok vm') (hm : vm'.clk ≤ m) : exec (env.withMax m) fuel b vm = .ok vm' :=
  (exec_mono_all env m fuel).1 b vm vm' h hm

end Vm
end Miden
