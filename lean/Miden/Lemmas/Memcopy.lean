/-
  `std::mem::memcopy`: a loop rule for `while.true` blocks whose body is one span of
  (stack, fmp, memory) code (`loop_rule`, by induction on the number of remaining iterations over
  the executor), the symbolic execution of the three spans of the regenerated MAST, and the
  specification theorem `memcopy_spec`.
-/
import Miden.Lemmas.Trunc
namespace Miden
namespace Memcopy
open Generated Trunc
set_option linter.unusedSimpArgs false
set_option linter.unusedVariables false

def proA : List Op := [Op.neg, Op.pad, Op.pad, Op.pad, Op.pad, Op.dup4, Op.eqz, Op.not]
def bodyB : List Op := [Op.dup5, Op.mloadw, Op.dup6, Op.mstorew, Op.swapw, Op.incr, Op.movup3, Op.movup3, Op.incr, Op.movup3, Op.incr, Op.movup3, Op.swapw, Op.dup4, Op.eqz, Op.not]
def epiC : List Op := [Op.drop, Op.drop, Op.drop, Op.drop, Op.drop, Op.drop, Op.drop]

theorem shape : mem_memcopy = .join (.join (.span proA) (.loop (.span bodyB))) (.span epiC) := rfl
theorem rowsA : deRespan (spanRows proA) = proA := by decide
theorem rowsB : deRespan (spanRows bodyB) = bodyB := by decide
theorem rowsC : deRespan (spanRows epiC) = epiC := by decide
theorem noclkA : Op.clk ∉ spanRows proA := by decide
theorem noclkB : Op.clk ∉ spanRows bodyB := by decide
theorem noclkC : Op.clk ∉ spanRows epiC := by decide
theorem msA : (deRespan (spanRows proA)).all Op.isMSimple = true := by decide
theorem msB : (deRespan (spanRows bodyB)).all Op.isMSimple = true := by decide
theorem msC : (deRespan (spanRows epiC)).all Op.isMSimple = true := by decide

/-- One iteration of the copy loop: the word at `r` is written to `w`, counter and both pointers are
    incremented, the flag `counter ≠ 0` is left on top. -/
theorem bodyB_run (ctx j3 j2 j1 j0 cnt r w y : Nat) (t : List Nat) (f : Nat) (m : Mem)
    (hr : r ≤ u32max) (hw : w ≤ u32max) (ht : 8 ≤ t.length) :
    runM ctx (deRespan (spanRows bodyB)) ⟨j3 :: j2 :: j1 :: j0 :: cnt :: r :: w :: y :: t, f, m⟩
      = .ok ⟨(1 - (if fadd cnt 1 = 0 then 1 else 0)) :: (m.read ctx r).w3 :: (m.read ctx r).w2 :: (m.read ctx r).w1
              :: (m.read ctx r).w0 :: fadd cnt 1 :: fadd r 1 :: fadd w 1 :: y :: t,
            f, m.write ctx w (m.read ctx r)⟩ := by
  have p8 : padN 8 t = t := padN_of_le ht
  rw [rowsB]
  simp only [bodyB]
  rw [rm_pure _ _ _ _ _ _ (by decide), ps_dup5, Except.bind_ok']
  rw [rm_mloadw _ _ _ _ _ _ _ _ _ _ hr]
  simp only [padN_cons, padN_zero, p8]
  rw [rm_pure _ _ _ _ _ _ (by decide), ps_dup6, Except.bind_ok']
  rw [rm_mstorew _ _ _ _ _ _ _ _ _ _ hw]
  simp only [padN_cons, padN_zero, p8]
  rw [rm_pure _ _ _ _ _ _ (by decide), ps_swapw, Except.bind_ok']
  rw [rm_pure _ _ _ _ _ _ (by decide), ps_incr, Except.bind_ok']
  rw [rm_pure _ _ _ _ _ _ (by decide), ps_movup3, Except.bind_ok']
  rw [rm_pure _ _ _ _ _ _ (by decide), ps_movup3, Except.bind_ok']
  rw [rm_pure _ _ _ _ _ _ (by decide), ps_incr, Except.bind_ok']
  rw [rm_pure _ _ _ _ _ _ (by decide), ps_movup3, Except.bind_ok']
  rw [rm_pure _ _ _ _ _ _ (by decide), ps_incr, Except.bind_ok']
  rw [rm_pure _ _ _ _ _ _ (by decide), ps_movup3, Except.bind_ok']
  rw [rm_pure _ _ _ _ _ _ (by decide), ps_swapw, Except.bind_ok']
  rw [rm_pure _ _ _ _ _ _ (by decide), ps_dup4, Except.bind_ok']
  rw [rm_pure _ _ _ _ _ _ (by decide), ps_eqz, Except.bind_ok']
  rw [rm_pure _ _ _ _ _ _ (by decide), ps_not _ _ (by split <;> omega), Except.bind_ok', runM_nil]

/-! ### A loop rule for `while.true` blocks whose body is one span of (stack, fmp, memory) code -/

/-- If the state below the loop condition satisfies `J (k+1)` implies that the body runs to a state
    `c :: t'` with `J k t'` and `c` = "k ≠ 0", then from a state with condition `c` ("k ≠ 0") on
    top of a `J k` state every completed execution of the loop tail ends in a `J 0` state. -/
theorem loopIter_rule (env : Env) (body : List Op) (hc : Op.clk ∉ spanRows body)
    (hm : (deRespan (spanRows body)).all Op.isMSimple = true) (C : Nat)
    (J : Nat → List Nat → Nat → Mem → Prop)
    (hlen : ∀ k t f m, J k t f m → 16 ≤ t.length)
    (hstep : ∀ k t f m, J (k + 1) t f m → ∃ c t' f' m',
      runM C (deRespan (spanRows body)) ⟨t, f, m⟩ = .ok ⟨c :: t', f', m'⟩ ∧ J k t' f' m' ∧
      (c = 1 ↔ k ≠ 0) ∧ (c = 0 ↔ k = 0)) :
    ∀ (k fuel : Nat) (vm vm' : Vm) (c : Nat) (t : List Nat) (f : Nat) (m : Mem),
      D vm (c :: t) f m C → J k t f m → (c = 1 ↔ k ≠ 0) → (c = 0 ↔ k = 0) →
      Vm.loopIter env fuel (.span body) vm = .ok vm' → ∃ t' f' m', D vm' t' f' m' C ∧ J 0 t' f' m' := by
  intro k
  induction k with
  | zero =>
    intro fuel vm vm' c t f m hd hj h1 h0 h
    cases fuel with
    | zero => simp only [Vm.loopIter] at h; cases h
    | succ fuel =>
      simp only [Vm.loopIter] at h
      have hpeek : vm.peek = c := by unfold Vm.peek; rw [hd.1]; rfl
      have hc0 : c = 0 := h0.mpr rfl
      have hc1 : ¬ c = 1 := by omega
      rw [hpeek, if_neg hc1, if_pos hc0] at h
      have hd' := execRow_drop_D h hd
      rw [padN_of_le (hlen 0 t f m hj)] at hd'
      exact ⟨t, f, m, hd', hj⟩
  | succ k ih =>
    intro fuel vm vm' c t f m hd hj h1 h0 h
    cases fuel with
    | zero => simp only [Vm.loopIter] at h; cases h
    | succ fuel =>
      simp only [Vm.loopIter] at h
      have hpeek : vm.peek = c := by unfold Vm.peek; rw [hd.1]; rfl
      have hc1 : c = 1 := h1.mpr (by omega)
      rw [hpeek, if_pos hc1] at h
      cases hr : vm.execRow env .drop .repeat with
      | error e => rw [hr] at h; cases h
      | ok v1 =>
        rw [hr] at h; simp only at h
        have hd1 := execRow_drop_D hr hd
        rw [padN_of_le (hlen (k + 1) t f m hj)] at hd1
        cases hb : Vm.exec env fuel (.span body) v1 with
        | error e => rw [hb] at h; cases h
        | ok v2 =>
          rw [hb] at h; simp only at h
          cases fuel with
          | zero => simp only [Vm.exec] at hb; cases hb
          | succ fuel =>
            obtain ⟨st, hst, hd2⟩ := exec_span_D hc hm hb hd1
            obtain ⟨c', t', f', m', hrun, hj', hc1', hc0'⟩ := hstep k t f m hj
            rw [hrun] at hst
            cases hst
            simp only at hd2
            exact ih (fuel + 1) v2 vm' c' t' f' m' hd2 hj' hc1' hc0' h

/-- The same for the whole `while.true` block (entry + tail). -/
theorem loop_rule (env : Env) (body : List Op) (hc : Op.clk ∉ spanRows body)
    (hm : (deRespan (spanRows body)).all Op.isMSimple = true) (C : Nat)
    (J : Nat → List Nat → Nat → Mem → Prop)
    (hlen : ∀ k t f m, J k t f m → 16 ≤ t.length)
    (hstep : ∀ k t f m, J (k + 1) t f m → ∃ c t' f' m',
      runM C (deRespan (spanRows body)) ⟨t, f, m⟩ = .ok ⟨c :: t', f', m'⟩ ∧ J k t' f' m' ∧
      (c = 1 ↔ k ≠ 0) ∧ (c = 0 ↔ k = 0))
    (k fuel : Nat) (vm vm' : Vm) (c : Nat) (t : List Nat) (f : Nat) (m : Mem)
    (hd : D vm (c :: t) f m C) (hj : J k t f m) (h1 : c = 1 ↔ k ≠ 0) (h0 : c = 0 ↔ k = 0)
    (h : Vm.exec env fuel (.loop (.span body)) vm = .ok vm') :
    ∃ t' f' m', D vm' t' f' m' C ∧ J 0 t' f' m' := by
  cases fuel with
  | zero => simp only [Vm.exec] at h; cases h
  | succ fuel =>
    simp only [Vm.exec] at h
    have hpeek : vm.peek = c := by unfold Vm.peek; rw [hd.1]; rfl
    rw [hpeek] at h
    cases hr : vm.execRow env .drop .loop with
    | error e => rw [hr] at h; cases h
    | ok v1 =>
      rw [hr] at h; simp only at h
      have hd1 := execRow_drop_D hr hd
      rw [padN_of_le (hlen k t f m hj)] at hd1
      cases k with
      | zero =>
        have hc0 : c = 0 := h0.mpr rfl
        have hc1 : ¬ c = 1 := by omega
        rw [if_neg hc1, if_pos hc0] at h
        exact ⟨t, f, m, execRow_noop_D h hd1, hj⟩
      | succ k =>
        have hc1 : c = 1 := h1.mpr (by omega)
        rw [if_pos hc1] at h
        cases hb : Vm.exec env fuel (.span body) v1 with
        | error e => rw [hb] at h; cases h
        | ok v2 =>
          rw [hb] at h; simp only at h
          cases fuel with
          | zero => simp only [Vm.exec] at hb; cases hb
          | succ fuel =>
            obtain ⟨st, hst, hd2⟩ := exec_span_D hc hm hb hd1
            obtain ⟨c', t', f', m', hrun, hj', hc1', hc0'⟩ := hstep k t f m hj
            rw [hrun] at hst
            cases hst
            simp only at hd2
            exact loopIter_rule env body hc hm C J hlen hstep k (fuel + 1) v2 vm' c' t' f' m' hd2 hj' hc1' hc0' h

/-! ### memcopy -/

/-- The documented behaviour: `i` words copied one by one, lowest address first. -/
def copyFwd (ctx : Nat) : Nat → Nat → Nat → Mem → Mem
  | 0, _, _, m => m
  | i + 1, r, w, m => (copyFwd ctx i r w m).write ctx (w + i) ((copyFwd ctx i r w m).read ctx (r + i))

/-- State below the loop condition when `k` words remain to be copied. -/
def J (ctx n r0 w0 : Nat) (rest : List Nat) (f0 : Nat) (m0 : Mem) (k : Nat) (t : List Nat) (f : Nat) (m : Mem) : Prop :=
  ∃ j3 j2 j1 j0 i, t = j3 :: j2 :: j1 :: j0 :: fneg k :: (r0 + i) :: (w0 + i) :: rest ∧ i + k = n ∧
    f = f0 ∧ m = copyFwd ctx i r0 w0 m0

theorem fneg_succ (k : Nat) (hk : k + 1 < P) : fadd (fneg (k + 1)) 1 = fneg k := by
  simp only [fadd, fneg, P] at *
  omega

theorem fneg_eq_zero (k : Nat) (hk : k < P) : fneg k = 0 ↔ k = 0 := by
  simp only [fneg, P] at *
  omega

theorem proA_run (ctx n r w : Nat) (rest : List Nat) (f : Nat) (m : Mem) (hrest : 13 ≤ rest.length) :
    runM ctx (deRespan (spanRows proA)) ⟨n :: r :: w :: rest, f, m⟩
      = .ok ⟨(1 - (if fneg n = 0 then 1 else 0)) :: 0 :: 0 :: 0 :: 0 :: fneg n :: r :: w :: rest, f, m⟩ := by
  rw [rowsA]
  simp only [proA]
  rw [rm_pure _ _ _ _ _ _ (by decide), ps_neg, Except.bind_ok']
  rw [rm_pure _ _ _ _ _ _ (by decide), ps_pad, Except.bind_ok']
  rw [rm_pure _ _ _ _ _ _ (by decide), ps_pad, Except.bind_ok']
  rw [rm_pure _ _ _ _ _ _ (by decide), ps_pad, Except.bind_ok']
  rw [rm_pure _ _ _ _ _ _ (by decide), ps_pad, Except.bind_ok']
  rw [rm_pure _ _ _ _ _ _ (by decide), ps_dup4, Except.bind_ok']
  rw [rm_pure _ _ _ _ _ _ (by decide), ps_eqz, Except.bind_ok']
  rw [rm_pure _ _ _ _ _ _ (by decide), ps_not _ _ (by split <;> omega), Except.bind_ok', runM_nil]

theorem epiC_run (ctx j3 j2 j1 j0 cnt r w : Nat) (rest : List Nat) (f : Nat) (m : Mem) :
    runM ctx (deRespan (spanRows epiC)) ⟨j3 :: j2 :: j1 :: j0 :: cnt :: r :: w :: rest, f, m⟩
      = .ok ⟨padN 16 rest, f, m⟩ := by
  rw [rowsC]
  simp only [epiC]
  rw [rm_pure _ _ _ _ _ _ (by decide), ps_drop, Except.bind_ok']
  simp only [padN_cons, padN_zero, padN_padN]
  rw [rm_pure _ _ _ _ _ _ (by decide), ps_drop, Except.bind_ok']
  simp only [padN_cons, padN_zero, padN_padN]
  rw [rm_pure _ _ _ _ _ _ (by decide), ps_drop, Except.bind_ok']
  simp only [padN_cons, padN_zero, padN_padN]
  rw [rm_pure _ _ _ _ _ _ (by decide), ps_drop, Except.bind_ok']
  simp only [padN_cons, padN_zero, padN_padN]
  rw [rm_pure _ _ _ _ _ _ (by decide), ps_drop, Except.bind_ok']
  simp only [padN_cons, padN_zero, padN_padN]
  rw [rm_pure _ _ _ _ _ _ (by decide), ps_drop, Except.bind_ok']
  simp only [padN_cons, padN_zero, padN_padN]
  rw [rm_pure _ _ _ _ _ _ (by decide), ps_drop, Except.bind_ok', runM_nil]
  simp only [padN_padN, Nat.max_def, Nat.reduceLeDiff, ↓reduceIte]

/-- **`std::mem::memcopy`** (the MAST compiled from stdlib/asm/mem.masm): for every word count `n` and
    every pair of pointers whose windows lie in the 32-bit address space — overlapping or not — a
    completed execution consumes exactly `[n, read_ptr, write_ptr]` and leaves memory as the
    documented word-by-word forward copy; frame pointer and context are untouched. -/
theorem memcopy_spec (env : Env) (fuel : Nat) (vm vm' : Vm) (n r0 w0 : Nat) (rest : List Nat)
    (hs : vm.stack = n :: r0 :: w0 :: rest) (hrest : 13 ≤ rest.length)
    (hr : r0 + n ≤ 4294967296) (hw : w0 + n ≤ 4294967296)
    (h : Vm.exec env fuel mem_memcopy vm = .ok vm') :
    vm'.stack = padN 16 rest ∧ vm'.mem = copyFwd vm.ctx n r0 w0 vm.mem ∧ vm'.fmp = vm.fmp ∧ vm'.ctx = vm.ctx := by
  rw [shape] at h
  have hd : D vm vm.stack vm.fmp vm.mem vm.ctx := ⟨rfl, rfl, rfl, rfl⟩
  rw [hs] at hd
  have hnP : n < P := by simp only [P]; omega
  cases fuel with
  | zero => simp only [Vm.exec] at h; cases h
  | succ fuel =>
  obtain ⟨v1, v2, v3, hj1, hj2, hj3, hj4⟩ := exec_join_inv h
  have hd1 := execRow_noop_D hj1 hd
  cases fuel with
  | zero => simp only [Vm.exec] at hj2; cases hj2
  | succ fuel =>
  obtain ⟨w1, w2, w3, hk1, hk2, hk3, hk4⟩ := exec_join_inv hj2
  have hdw1 := execRow_noop_D hk1 hd1
  cases fuel with
  | zero => simp only [Vm.exec] at hk2; cases hk2
  | succ fuel =>
  -- prologue
  obtain ⟨st, hst, hdw2⟩ := exec_span_D noclkA msA hk2 hdw1
  rw [proA_run vm.ctx n r0 w0 rest vm.fmp vm.mem hrest] at hst
  cases hst
  simp only at hdw2
  -- loop
  have hlen : ∀ k t f m, J vm.ctx n r0 w0 rest vm.fmp vm.mem k t f m → 16 ≤ t.length := by
    intro k t f m ⟨j3, j2, j1, j0, i, ht, _⟩
    rw [ht]; simp only [List.length_cons]; omega
  have hstep : ∀ k t f m, J vm.ctx n r0 w0 rest vm.fmp vm.mem (k + 1) t f m → ∃ c t' f' m',
      runM vm.ctx (deRespan (spanRows bodyB)) ⟨t, f, m⟩ = .ok ⟨c :: t', f', m'⟩ ∧
      J vm.ctx n r0 w0 rest vm.fmp vm.mem k t' f' m' ∧ (c = 1 ↔ k ≠ 0) ∧ (c = 0 ↔ k = 0) := by
    intro k t f m ⟨j3, j2, j1, j0, i, ht, hik, hf, hmm⟩
    obtain ⟨y, t0, hyt⟩ : ∃ y t0, rest = y :: t0 := by
      cases rest with
      | nil => simp at hrest
      | cons y t0 => exact ⟨y, t0, rfl⟩
    have ht0 : 12 ≤ t0.length := by rw [hyt] at hrest; simp only [List.length_cons] at hrest; omega
    rw [hyt] at ht ⊢
    subst ht
    have hru : r0 + i ≤ u32max := by simp only [u32max]; omega
    have hwu : w0 + i ≤ u32max := by simp only [u32max]; omega
    have hkP : k + 1 < P := by simp only [P] at *; omega
    refine ⟨_, _, _, _, bodyB_run vm.ctx j3 j2 j1 j0 (fneg (k + 1)) (r0 + i) (w0 + i) y t0 f m hru hwu (by omega), ?_, ?_, ?_⟩
    · refine ⟨(m.read vm.ctx (r0 + i)).w3, (m.read vm.ctx (r0 + i)).w2, (m.read vm.ctx (r0 + i)).w1,
        (m.read vm.ctx (r0 + i)).w0, i + 1, ?_, by omega, hf, ?_⟩
      · rw [fneg_succ k hkP]
        have e1 : fadd (r0 + i) 1 = r0 + (i + 1) := by simp only [fadd, P]; omega
        have e2 : fadd (w0 + i) 1 = w0 + (i + 1) := by simp only [fadd, P]; omega
        rw [e1, e2]
      · rw [hmm]; rfl
    · rw [fneg_succ k hkP]
      have := fneg_eq_zero k (by omega)
      constructor
      · intro hc; split at hc <;> simp_all
      · intro hk; rw [if_neg (by rw [this]; exact hk)]
    · rw [fneg_succ k hkP]
      have := fneg_eq_zero k (by omega)
      constructor
      · intro hc; split at hc <;> simp_all
      · intro hk; rw [if_pos (by rw [this]; exact hk)]
  have hJ0 : J vm.ctx n r0 w0 rest vm.fmp vm.mem n (0 :: 0 :: 0 :: 0 :: fneg n :: r0 :: w0 :: rest) vm.fmp vm.mem :=
    ⟨0, 0, 0, 0, 0, rfl, by omega, rfl, rfl⟩
  have hz := fneg_eq_zero n hnP
  have hc1 : (1 - (if fneg n = 0 then 1 else 0)) = 1 ↔ n ≠ 0 := by
    constructor
    · intro hc; split at hc <;> simp_all
    · intro hk; rw [if_neg (by rw [hz]; exact hk)]
  have hc0 : (1 - (if fneg n = 0 then 1 else 0)) = 0 ↔ n = 0 := by
    constructor
    · intro hc; split at hc <;> simp_all
    · intro hk; rw [if_pos (by rw [hz]; exact hk)]
  obtain ⟨t', f', m', hdw3, hJe⟩ := loop_rule env bodyB noclkB msB vm.ctx (J vm.ctx n r0 w0 rest vm.fmp vm.mem) hlen hstep
    n (fuel + 1) w2 w3 _ _ _ _ hdw2 hJ0 hc1 hc0 hk3
  have hdv2 := execRow_noop_D hk4 hdw3
  -- epilogue
  obtain ⟨j3, j2, j1, j0, i, ht, hik, hf, hmm⟩ := hJe
  subst ht
  obtain ⟨st, hst, hdv3⟩ := exec_span_D noclkC msC hj3 hdv2
  rw [epiC_run] at hst
  cases hst
  simp only at hdv3
  have hfin := execRow_noop_D hj4 hdv3
  obtain ⟨e1, e2, e3, e4⟩ := hfin
  have hi : i = n := by omega
  subst hi
  exact ⟨e1, by rw [e3, hmm], by rw [e2, hf], e4⟩
end Memcopy
end Miden
