/-
  `std::crypto::hashes::native::hash_memory_even` over the MAST regenerated from native.masm:
  symbolic execution of the prologue and the loop body on (stack, fmp, memory), the general loop rule
  of `Lemmas/Memcopy.lean`, and the link from the sponge steps to `Rpo.hashElements`.
-/
import Miden.Lemmas.Memcopy
namespace Miden
namespace HashMem
open Generated Trunc Memcopy
set_option linter.unusedSimpArgs false
set_option linter.unusedVariables false

def proA : List Op := [Op.dup13, Op.dup13, Op.eq, Op.not]
def bodyB : List Op := [Op.mstream, Op.hperm, Op.dup13, Op.dup13, Op.eq, Op.not]

theorem shape : native_hash_memory_even = .join (.span proA) (.loop (.span bodyB)) := rfl
theorem rowsA : deRespan (spanRows proA) = proA := by decide
theorem rowsB : deRespan (spanRows bodyB) = bodyB := by decide
theorem noclkA : Op.clk ∉ spanRows proA := by decide
theorem noclkB : Op.clk ∉ spanRows bodyB := by decide
theorem msA : (deRespan (spanRows proA)).all Op.isMSimple = true := by decide
theorem msB : (deRespan (spanRows bodyB)).all Op.isMSimple = true := by decide

theorem rm_mstream (ctx x0 x1 x2 x3 x4 x5 x6 x7 s8 s9 s10 s11 a : Nat) (r : List Nat) (f : Nat) (m : Mem)
    (rest : List Op) (h : a + 1 ≤ u32max) :
    runM ctx (.mstream :: rest) ⟨x0 :: x1 :: x2 :: x3 :: x4 :: x5 :: x6 :: x7 :: s8 :: s9 :: s10 :: s11 :: a :: r, f, m⟩
      = runM ctx rest ⟨(m.read ctx (a + 1)).w3 :: (m.read ctx (a + 1)).w2 :: (m.read ctx (a + 1)).w1 :: (m.read ctx (a + 1)).w0
          :: (m.read ctx a).w3 :: (m.read ctx a).w2 :: (m.read ctx a).w1 :: (m.read ctx a).w0
          :: s8 :: s9 :: s10 :: s11 :: (a + 2) :: r, f, m⟩ :=
  runM_cons_ok (by
    have h1 : ¬ (a > u32max) := by omega
    have h2 : ¬ (a + 1 > u32max) := by omega
    simp [mStep, Vm.stepCore, Vm.validAddr, Vm.setStack, h1, h2])

theorem ps_hperm (x0 x1 x2 x3 x4 x5 x6 x7 x8 x9 x10 x11 : Nat) (r : List Nat) :
    pureStep .hperm (x0 :: x1 :: x2 :: x3 :: x4 :: x5 :: x6 :: x7 :: x8 :: x9 :: x10 :: x11 :: r)
      = .ok ((Rpo.permute [x11, x10, x9, x8, x7, x6, x5, x4, x3, x2, x1, x0]).reverse ++ r) := by
  have hlt : ¬ (r.length + 1 + 1 + 1 + 1 + 1 + 1 + 1 + 1 + 1 + 1 + 1 + 1 < 12) := by omega
  simp [pureStep, Vm.stepCore, Vm.setStack, hlt]

theorem eq12 {s : List Nat} (h : s.length = 12) :
    ∃ a0 a1 a2 a3 a4 a5 a6 a7 a8 a9 a10 a11, s = [a0, a1, a2, a3, a4, a5, a6, a7, a8, a9, a10, a11] := by
  match s, h with
  | [a0, a1, a2, a3, a4, a5, a6, a7, a8, a9, a10, a11], _ => exact ⟨_, _, _, _, _, _, _, _, _, _, _, _, rfl⟩

/-- One sponge step of the RPO hasher in overwrite mode: the rate is replaced by the two words at
    `a`, `a + 1`, then the permutation is applied (`v` in natural order: capacity, rate). -/
def absorb (ctx : Nat) (m : Mem) (v : List Nat) (a : Nat) : List Nat :=
  Rpo.permute (v.take 4 ++ (m.read ctx a).toList ++ (m.read ctx (a + 1)).toList)

def hashEven (ctx : Nat) (m : Mem) : Nat → Nat → List Nat → List Nat
  | 0, _, v => v
  | k + 1, a, v => hashEven ctx m k (a + 2) (absorb ctx m v a)

theorem absorb_len (ctx : Nat) (m : Mem) (v : List Nat) (a : Nat) : (absorb ctx m v a).length = 12 :=
  Vm.permute_len _

/-- The field elements of `K` double words of memory starting at `a`, in address order. -/
def memEls (ctx : Nat) (m : Mem) : Nat → Nat → List Nat
  | _, 0 => []
  | a, k + 1 => (m.read ctx a).toList ++ (m.read ctx (a + 1)).toList ++ memEls ctx m (a + 2) k

theorem memEls_len (ctx : Nat) (m : Mem) : ∀ (K a : Nat), (memEls ctx m a K).length = 8 * K
  | 0, _ => rfl
  | K + 1, a => by
    simp only [memEls, List.length_append, memEls_len ctx m K (a + 2), Word.toList, List.length_cons, List.length_nil]
    omega

theorem hashEven_step (ctx : Nat) (m : Mem) (i a : Nat) (v : List Nat) :
    hashEven ctx m (i + 1) a v = hashEven ctx m i (a + 2) (absorb ctx m v a) := by
  rw [hashEven]

theorem rpo_absorb_full (fuel : Nat) (st els : List Nat) (h : els.length ≥ 8) :
    Rpo.absorb (fuel + 1) st els = Rpo.absorb fuel (Rpo.permute (st.take 4 ++ els.take 8)) (els.drop 8) := by
  rw [Rpo.absorb, if_pos h]

theorem memEls_succ (ctx : Nat) (m : Mem) (a K : Nat) :
    memEls ctx m a (K + 1) = (m.read ctx a).toList ++ (m.read ctx (a + 1)).toList ++ memEls ctx m (a + 2) K := by
  rw [memEls]

theorem absorb_memEls (ctx : Nat) (m : Mem) : ∀ (K a : Nat) (st : List Nat) (fuel : Nat), K < fuel →
    Rpo.absorb fuel st (memEls ctx m a K) = hashEven ctx m K a st
  | 0, a, st, fuel + 1, _ => by simp [Rpo.absorb, memEls, hashEven]
  | K + 1, a, st, fuel + 1, h => by
    have ih := absorb_memEls ctx m K (a + 2) (absorb ctx m st a) fuel (by omega)
    have hl : (memEls ctx m a (K + 1)).length ≥ 8 := by rw [memEls_len]; omega
    have e1 : (memEls ctx m a (K + 1)).take 8 = (m.read ctx a).toList ++ (m.read ctx (a + 1)).toList := by
      rw [memEls_succ]; simp only [Word.toList, List.cons_append, List.nil_append, List.take_succ_cons, List.take_zero]
    have e2 : (memEls ctx m a (K + 1)).drop 8 = memEls ctx m (a + 2) K := by
      rw [memEls_succ]; simp only [Word.toList, List.cons_append, List.nil_append, List.drop_succ_cons, List.drop_zero]
    have e3 : Rpo.permute (st.take 4 ++ (memEls ctx m a (K + 1)).take 8) = absorb ctx m st a := by
      rw [e1, absorb, List.append_assoc]
    exact (rpo_absorb_full _ _ _ hl).trans ((by rw [e2, e3] : _ = Rpo.absorb fuel (absorb ctx m st a) (memEls ctx m (a + 2) K)).trans
      (ih.trans (hashEven_step ctx m K a st).symm))

/-- Started from the all-zero sponge state, the digest of the `K`-step state is
    `Rpo256::hash_elements` of the `8K` memory elements (the model's `Rpo.hashElements`). -/
theorem hashEven_is_hashElements (ctx : Nat) (m : Mem) (K a : Nat) :
    Rpo.digestOf (hashEven ctx m K a (List.replicate 12 0)) = Rpo.hashElements (memEls ctx m a K) := by
  have h8 : (memEls ctx m a K).length % 8 = 0 := by rw [memEls_len]; omega
  simp only [Rpo.hashElements, h8, if_true]
  rw [absorb_memEls ctx m K a _ _ (by rw [memEls_len]; omega)]
  rfl

/-- One iteration of the hashing loop. -/
theorem bodyB_run (ctx v0 v1 v2 v3 v4 v5 v6 v7 v8 v9 v10 v11 a e : Nat) (rest : List Nat) (f : Nat) (m : Mem)
    (ha : a + 1 ≤ u32max) (hrest : 1 ≤ rest.length) :
    runM ctx (deRespan (spanRows bodyB))
      ⟨v11 :: v10 :: v9 :: v8 :: v7 :: v6 :: v5 :: v4 :: v3 :: v2 :: v1 :: v0 :: a :: e :: rest, f, m⟩
      = .ok ⟨(1 - (if e = a + 2 then 1 else 0))
              :: (absorb ctx m [v0, v1, v2, v3, v4, v5, v6, v7, v8, v9, v10, v11] a).reverse ++ (a + 2) :: e :: rest, f, m⟩ := by
  obtain ⟨o0, o1, o2, o3, o4, o5, o6, o7, o8, o9, o10, o11, ho⟩ :=
    eq12 (absorb_len ctx m [v0, v1, v2, v3, v4, v5, v6, v7, v8, v9, v10, v11] a)
  rw [ho, rowsB]
  have ho' : Rpo.permute [v0, v1, v2, v3, (m.read ctx a).w0, (m.read ctx a).w1, (m.read ctx a).w2, (m.read ctx a).w3,
      (m.read ctx (a + 1)).w0, (m.read ctx (a + 1)).w1, (m.read ctx (a + 1)).w2, (m.read ctx (a + 1)).w3]
      = [o0, o1, o2, o3, o4, o5, o6, o7, o8, o9, o10, o11] := ho
  simp only [bodyB]
  rw [rm_mstream _ _ _ _ _ _ _ _ _ _ _ _ _ _ _ _ _ _ ha]
  rw [rm_pure _ _ _ _ _ _ (by decide), ps_hperm, Except.bind_ok', ho']
  simp only [List.reverse_cons, List.reverse_nil, List.nil_append, List.cons_append]
  rw [rm_pure _ _ _ _ _ _ (by decide), ps_dup13, Except.bind_ok']
  rw [rm_pure _ _ _ _ _ _ (by decide), ps_dup13, Except.bind_ok']
  rw [rm_pure _ _ _ _ _ _ (by decide), ps_eq, Except.bind_ok']
  simp only [padN_cons, padN_zero]
  rw [rm_pure _ _ _ _ _ _ (by decide), ps_not _ _ (by split <;> omega), Except.bind_ok', runM_nil]
  rw [padN_of_le hrest]

theorem proA_run (ctx v0 v1 v2 v3 v4 v5 v6 v7 v8 v9 v10 v11 a e : Nat) (rest : List Nat) (f : Nat) (m : Mem)
    (hrest : 1 ≤ rest.length) :
    runM ctx (deRespan (spanRows proA))
      ⟨v11 :: v10 :: v9 :: v8 :: v7 :: v6 :: v5 :: v4 :: v3 :: v2 :: v1 :: v0 :: a :: e :: rest, f, m⟩
      = .ok ⟨(1 - (if e = a then 1 else 0))
              :: v11 :: v10 :: v9 :: v8 :: v7 :: v6 :: v5 :: v4 :: v3 :: v2 :: v1 :: v0 :: a :: e :: rest, f, m⟩ := by
  rw [rowsA]
  simp only [proA]
  rw [rm_pure _ _ _ _ _ _ (by decide), ps_dup13, Except.bind_ok']
  rw [rm_pure _ _ _ _ _ _ (by decide), ps_dup13, Except.bind_ok']
  rw [rm_pure _ _ _ _ _ _ (by decide), ps_eq, Except.bind_ok']
  simp only [padN_cons, padN_zero]
  rw [rm_pure _ _ _ _ _ _ (by decide), ps_not _ _ (by split <;> omega), Except.bind_ok', runM_nil]
  rw [padN_of_le hrest]

/-- State below the loop condition when `k` double words remain. -/
def J (ctx start e : Nat) (rest : List Nat) (f0 : Nat) (m0 : Mem) (v0 : List Nat) (K : Nat)
    (k : Nat) (t : List Nat) (f : Nat) (m : Mem) : Prop :=
  ∃ i, t = (hashEven ctx m0 i start v0).reverse ++ (start + 2 * i) :: e :: rest ∧ i + k = K ∧ f = f0 ∧ m = m0

theorem hashEven_len (ctx : Nat) (m : Mem) : ∀ (k a : Nat) (v : List Nat), v.length = 12 → (hashEven ctx m k a v).length = 12
  | 0, _, _, h => h
  | k + 1, a, v, _ => hashEven_len ctx m k (a + 2) _ (absorb_len ctx m v a)

theorem hashEven_succ (ctx : Nat) (m : Mem) (i : Nat) : ∀ (a : Nat) (v : List Nat),
    hashEven ctx m (i + 1) a v = absorb ctx m (hashEven ctx m i a v) (a + 2 * i) := by
  induction i with
  | zero => intro a v; rw [hashEven_step, hashEven, hashEven, Nat.mul_zero, Nat.add_zero]
  | succ i ih =>
    intro a v
    rw [hashEven_step, ih (a + 2) (absorb ctx m v a), hashEven_step ctx m i a v]
    have e : a + 2 + 2 * i = a + 2 * (i + 1) := by omega
    rw [e]

/-- **`std::crypto::hashes::native::hash_memory_even`** (MAST compiled from native.masm): for every
    initial hasher state, every start address and every number `K` of double words below 2^32, a
    completed execution leaves the state obtained by `K` sponge steps of the VM's own RPO permutation
    over the memory words (`hashEven`), both pointers equal to the end address, and memory, frame
    pointer and the rest of the stack untouched. -/
theorem hash_memory_even_spec (env : Env) (fuel : Nat) (vm vm' : Vm) (v : List Nat) (start K : Nat)
    (rest : List Nat) (hv : v.length = 12)
    (hs : vm.stack = v.reverse ++ start :: (start + 2 * K) :: rest) (hrest : 2 ≤ rest.length)
    (he : start + 2 * K ≤ 4294967296)
    (h : Vm.exec env fuel native_hash_memory_even vm = .ok vm') :
    vm'.stack = (hashEven vm.ctx vm.mem K start v).reverse ++ (start + 2 * K) :: (start + 2 * K) :: rest ∧
      vm'.mem = vm.mem ∧ vm'.fmp = vm.fmp ∧ vm'.ctx = vm.ctx := by
  rw [shape] at h
  have hd : D vm vm.stack vm.fmp vm.mem vm.ctx := ⟨rfl, rfl, rfl, rfl⟩
  rw [hs] at hd
  cases fuel with
  | zero => simp only [Vm.exec] at h; cases h
  | succ fuel =>
  obtain ⟨v1, v2, v3, hj1, hj2, hj3, hj4⟩ := exec_join_inv h
  have hd1 := execRow_noop_D hj1 hd
  cases fuel with
  | zero => simp only [Vm.exec] at hj2; cases hj2
  | succ fuel =>
  obtain ⟨x0, x1, x2, x3, x4, x5, x6, x7, x8, x9, x10, x11, hxv⟩ := eq12 hv
  subst hxv
  simp only [List.reverse_cons, List.reverse_nil, List.nil_append, List.cons_append] at hd1
  obtain ⟨st, hst, hd2⟩ := exec_span_D noclkA msA hj2 hd1
  rw [proA_run _ _ _ _ _ _ _ _ _ _ _ _ _ _ _ _ _ _ (by omega)] at hst
  cases hst
  simp only at hd2
  -- loop
  let e := start + 2 * K
  have hlen : ∀ k t f m, J vm.ctx start e rest vm.fmp vm.mem [x0, x1, x2, x3, x4, x5, x6, x7, x8, x9, x10, x11] K k t f m → 16 ≤ t.length := by
    intro k t f m ⟨i, ht, _⟩
    rw [ht]
    simp only [List.length_append, List.length_reverse, List.length_cons, hashEven_len vm.ctx vm.mem i start [x0, x1, x2, x3, x4, x5, x6, x7, x8, x9, x10, x11] rfl]
    omega
  have hstep : ∀ k t f m, J vm.ctx start e rest vm.fmp vm.mem [x0, x1, x2, x3, x4, x5, x6, x7, x8, x9, x10, x11] K (k + 1) t f m → ∃ c t' f' m',
      runM vm.ctx (deRespan (spanRows bodyB)) ⟨t, f, m⟩ = .ok ⟨c :: t', f', m'⟩ ∧
      J vm.ctx start e rest vm.fmp vm.mem [x0, x1, x2, x3, x4, x5, x6, x7, x8, x9, x10, x11] K k t' f' m' ∧ (c = 1 ↔ k ≠ 0) ∧ (c = 0 ↔ k = 0) := by
    intro k t f m ⟨i, ht, hik, hf, hmm⟩
    obtain ⟨y0, y1, y2, y3, y4, y5, y6, y7, y8, y9, y10, y11, hy⟩ := eq12 (hashEven_len vm.ctx vm.mem i start [x0, x1, x2, x3, x4, x5, x6, x7, x8, x9, x10, x11] rfl)
    rw [hy] at ht
    simp only [List.reverse_cons, List.reverse_nil, List.nil_append, List.cons_append] at ht
    subst ht hmm hf
    have ha : start + 2 * i + 1 ≤ u32max := by simp only [u32max]; omega
    refine ⟨_, _, _, _, bodyB_run vm.ctx y0 y1 y2 y3 y4 y5 y6 y7 y8 y9 y10 y11 (start + 2 * i) e rest vm.fmp vm.mem ha (by omega), ?_, ?_, ?_⟩
    · refine ⟨i + 1, ?_, by omega, rfl, rfl⟩
      rw [hashEven_succ, hy]
      congr 2
    · constructor
      · intro hc; split at hc <;> omega
      · intro hk; rw [if_neg (by show ¬ (start + 2 * K = start + 2 * i + 2); omega)]
    · constructor
      · intro hc; split at hc <;> omega
      · intro hk; rw [if_pos (by show start + 2 * K = start + 2 * i + 2; omega)]
  have hJ0 : J vm.ctx start e rest vm.fmp vm.mem [x0, x1, x2, x3, x4, x5, x6, x7, x8, x9, x10, x11] K K
      (x11 :: x10 :: x9 :: x8 :: x7 :: x6 :: x5 :: x4 :: x3 :: x2 :: x1 :: x0 :: start :: e :: rest) vm.fmp vm.mem :=
    ⟨0, by simp [hashEven], by omega, rfl, rfl⟩
  have hc1 : (1 - (if e = start then 1 else 0)) = 1 ↔ K ≠ 0 := by
    constructor
    · intro hc; split at hc <;> omega
    · intro hk; rw [if_neg (by show ¬ (start + 2 * K = start); omega)]
  have hc0 : (1 - (if e = start then 1 else 0)) = 0 ↔ K = 0 := by
    constructor
    · intro hc; split at hc <;> omega
    · intro hk; rw [if_pos (by show start + 2 * K = start; omega)]
  obtain ⟨t', f', m', hd3, hJe⟩ := loop_rule env bodyB noclkB msB vm.ctx _ hlen hstep K (fuel + 1) v2 v3 _ _ _ _ hd2 hJ0 hc1 hc0 hj3
  have hfin := execRow_noop_D hj4 hd3
  obtain ⟨i, ht, hik, hf, hmm⟩ := hJe
  obtain ⟨e1, e2, e3, e4⟩ := hfin
  have hi : i = K := by omega
  subst hi
  exact ⟨by rw [e1, ht], by rw [e3, hmm], by rw [e2, hf], e4⟩
end HashMem
end Miden
