/-
  `std::mem::pipe_double_words_to_memory` over the MAST regenerated from mem.masm, on the
  advice-aware symbolic executor (`Lemmas/AdvExec.lean`): whole-procedure theorem for every number of
  double words and every tape, read-back and frame lemmas for the memory written, and the link from
  the sponge state to `Rpo.hashElements`.
-/
import Miden.Lemmas.AdvExec
import Miden.Lemmas.HashMem
namespace Miden
namespace PipeMem
open Generated Trunc Memcopy
set_option linter.unusedSimpArgs false
set_option linter.unusedVariables false

def proA : List Op := [Op.dup13, Op.dup13, Op.eq, Op.not]
def bodyP : List Op := [Op.pipe, Op.hperm, Op.dup13, Op.dup13, Op.eq, Op.not]
def epiP : List Op := [Op.swapdw, Op.movup5, Op.swapdw, Op.movup8, Op.drop]

theorem shape : mem_pipe_double_words_to_memory = .join (.join (.span proA) (.loop (.span bodyP))) (.span epiP) := rfl
theorem rowsA : deRespan (spanRows proA) = proA := by decide
theorem rowsP : deRespan (spanRows bodyP) = bodyP := by decide
theorem rowsE : deRespan (spanRows epiP) = epiP := by decide
theorem noclkA : Op.clk ∉ spanRows proA := by decide
theorem noclkP : Op.clk ∉ spanRows bodyP := by decide
theorem noclkE : Op.clk ∉ spanRows epiP := by decide
theorem asA : (deRespan (spanRows proA)).all Op.isASimple = true := by decide
theorem asP : (deRespan (spanRows bodyP)).all Op.isASimple = true := by decide
theorem asE : (deRespan (spanRows epiP)).all Op.isASimple = true := by decide

/-- Hasher state after absorbing `k` double words of the tape (overwrite mode). -/
def pipeState : Nat → List Nat → List Nat → List Nat
  | 0, v, _ => v
  | k + 1, v, tape => pipeState k (Rpo.permute (v.take 4 ++ tape.take 8)) (tape.drop 8)

/-- Memory after `k` double words of the tape were written from address `a` upwards. -/
def pipeMem (ctx : Nat) : Nat → Nat → Mem → List Nat → Mem
  | 0, _, m, _ => m
  | k + 1, a, m, tape =>
    pipeMem ctx k (a + 2)
      ((m.write ctx a (Word.ofList (tape.take 4))).write ctx (a + 1) (Word.ofList ((tape.drop 4).take 4))) (tape.drop 8)

theorem pipeState_len : ∀ (k : Nat) (v tape : List Nat), v.length = 12 → (pipeState k v tape).length = 12
  | 0, _, _, h => h
  | k + 1, v, tape, _ => pipeState_len k _ _ (Vm.permute_len _)

theorem pipeState_step (k : Nat) (v tape : List Nat) :
    pipeState (k + 1) v tape = pipeState k (Rpo.permute (v.take 4 ++ tape.take 8)) (tape.drop 8) := by
  rw [pipeState]

theorem pipeState_succ (i : Nat) : ∀ (v tape : List Nat),
    pipeState (i + 1) v tape = Rpo.permute ((pipeState i v tape).take 4 ++ (tape.drop (8 * i)).take 8) := by
  induction i with
  | zero => intro v tape; rw [pipeState_step, pipeState, pipeState]; simp
  | succ i ih =>
    intro v tape
    rw [pipeState_step, ih, pipeState_step i v tape, List.drop_drop]
    have e : 8 + 8 * i = 8 * (i + 1) := by omega
    rw [e]

theorem pipeMem_step (ctx k a : Nat) (m : Mem) (tape : List Nat) :
    pipeMem ctx (k + 1) a m tape = pipeMem ctx k (a + 2)
      ((m.write ctx a (Word.ofList (tape.take 4))).write ctx (a + 1) (Word.ofList ((tape.drop 4).take 4))) (tape.drop 8) := by
  rw [pipeMem]

theorem pipeMem_succ (ctx : Nat) (i : Nat) : ∀ (a : Nat) (m : Mem) (tape : List Nat),
    pipeMem ctx (i + 1) a m tape =
      ((pipeMem ctx i a m tape).write ctx (a + 2 * i) (Word.ofList ((tape.drop (8 * i)).take 4))).write ctx (a + 2 * i + 1)
        (Word.ofList ((tape.drop (8 * i + 4)).take 4)) := by
  induction i with
  | zero => intro a m tape; rw [pipeMem_step, pipeMem, pipeMem]; simp
  | succ i ih =>
    intro a m tape
    rw [pipeMem_step, ih, pipeMem_step ctx i a m tape, List.drop_drop, List.drop_drop]
    have e1 : 8 + 8 * i = 8 * (i + 1) := by omega
    have e2 : 8 + (8 * i + 4) = 8 * (i + 1) + 4 := by omega
    have e3 : a + 2 + 2 * i = a + 2 * (i + 1) := by omega
    rw [e1, e2, e3]


theorem proA_run (ctx v0 v1 v2 v3 v4 v5 v6 v7 v8 v9 v10 v11 a e : Nat) (rest : List Nat) (f : Nat) (m : Mem)
    (adv : List Nat) (hrest : 1 ≤ rest.length) :
    runA ctx (deRespan (spanRows proA))
      ⟨v11 :: v10 :: v9 :: v8 :: v7 :: v6 :: v5 :: v4 :: v3 :: v2 :: v1 :: v0 :: a :: e :: rest, f, m, adv⟩
      = .ok ⟨(1 - (if e = a then 1 else 0))
              :: v11 :: v10 :: v9 :: v8 :: v7 :: v6 :: v5 :: v4 :: v3 :: v2 :: v1 :: v0 :: a :: e :: rest, f, m, adv⟩ := by
  rw [rowsA]
  simp only [proA]
  rw [ra_pure _ _ _ _ _ _ _ (by decide), ps_dup13, Except.bind_ok']
  rw [ra_pure _ _ _ _ _ _ _ (by decide), ps_dup13, Except.bind_ok']
  rw [ra_pure _ _ _ _ _ _ _ (by decide), ps_eq, Except.bind_ok']
  simp only [padN_cons, padN_zero]
  rw [ra_pure _ _ _ _ _ _ _ (by decide), ps_not _ _ (by split <;> omega), Except.bind_ok', runA_nil]
  rw [padN_of_le hrest]

/-- One iteration of the piping loop, by inversion: a body run that completes found eight tape
    elements, wrote them to `a`, `a + 1`, absorbed them and compared the pointers. -/
theorem bodyP_inv (ctx v0 v1 v2 v3 v4 v5 v6 v7 v8 v9 v10 v11 a e : Nat) (rest : List Nat) (f : Nat) (m : Mem)
    (adv : List Nat) (st : ASt) (ha : a + 1 ≤ u32max) (hrest : 1 ≤ rest.length)
    (h : runA ctx (deRespan (spanRows bodyP))
      ⟨v11 :: v10 :: v9 :: v8 :: v7 :: v6 :: v5 :: v4 :: v3 :: v2 :: v1 :: v0 :: a :: e :: rest, f, m, adv⟩ = .ok st) :
    ∃ t0 t1 t2 t3 t4 t5 t6 t7 adv', adv = t0 :: t1 :: t2 :: t3 :: t4 :: t5 :: t6 :: t7 :: adv' ∧
      st = ⟨(1 - (if e = a + 2 then 1 else 0))
              :: ((Rpo.permute [v0, v1, v2, v3, t0, t1, t2, t3, t4, t5, t6, t7]).reverse ++ (a + 2) :: e :: rest), f,
            (m.write ctx a ⟨t0, t1, t2, t3⟩).write ctx (a + 1) ⟨t4, t5, t6, t7⟩, adv'⟩ := by
  rw [rowsP] at h
  simp only [bodyP] at h
  obtain ⟨t0, t1, t2, t3, t4, t5, t6, t7, adv', hadv, h⟩ := pipe_inv ha adv h
  refine ⟨t0, t1, t2, t3, t4, t5, t6, t7, adv', hadv, ?_⟩
  obtain ⟨o0, o1, o2, o3, o4, o5, o6, o7, o8, o9, o10, o11, ho⟩ :=
    HashMem.eq12 (Vm.permute_len [v0, v1, v2, v3, t0, t1, t2, t3, t4, t5, t6, t7])
  rw [ra_pure _ _ _ _ _ _ _ (by decide), HashMem.ps_hperm, Except.bind_ok', ho] at h
  simp only [List.reverse_cons, List.reverse_nil, List.nil_append, List.cons_append] at h
  rw [ra_pure _ _ _ _ _ _ _ (by decide), ps_dup13, Except.bind_ok'] at h
  rw [ra_pure _ _ _ _ _ _ _ (by decide), ps_dup13, Except.bind_ok'] at h
  rw [ra_pure _ _ _ _ _ _ _ (by decide), ps_eq, Except.bind_ok'] at h
  simp only [padN_cons, padN_zero] at h
  rw [ra_pure _ _ _ _ _ _ _ (by decide), ps_not _ _ (by split <;> omega), Except.bind_ok', runA_nil] at h
  rw [padN_of_le hrest] at h
  rw [ho]
  simp only [List.reverse_cons, List.reverse_nil, List.nil_append, List.cons_append]
  exact (Except.ok.inj h).symm


theorem epiP_run (ctx y0 y1 y2 y3 y4 y5 y6 y7 y8 y9 y10 y11 w e r0 r1 : Nat) (rest : List Nat) (f : Nat) (m : Mem)
    (adv : List Nat) :
    runA ctx (deRespan (spanRows epiP))
      ⟨y11 :: y10 :: y9 :: y8 :: y7 :: y6 :: y5 :: y4 :: y3 :: y2 :: y1 :: y0 :: w :: e :: r0 :: r1 :: rest, f, m, adv⟩
      = .ok ⟨padN 16 (y11 :: y10 :: y9 :: y8 :: y7 :: y6 :: y5 :: y4 :: y3 :: y2 :: y1 :: y0 :: w :: r0 :: r1 :: rest), f, m, adv⟩ := by
  rw [rowsE]
  simp only [epiP]
  rw [ra_pure _ _ _ _ _ _ _ (by decide), ps_swapdw, Except.bind_ok']
  rw [ra_pure _ _ _ _ _ _ _ (by decide), ps_movup5, Except.bind_ok']
  rw [ra_pure _ _ _ _ _ _ _ (by decide), ps_swapdw, Except.bind_ok']
  rw [ra_pure _ _ _ _ _ _ _ (by decide), ps_movup8, Except.bind_ok']
  rw [ra_pure _ _ _ _ _ _ _ (by decide), ps_drop, Except.bind_ok', runA_nil]

/-- State below the loop condition when `k` double words remain to be piped. -/
def J (ctx start e : Nat) (rest : List Nat) (f0 : Nat) (m0 : Mem) (v0 adv0 : List Nat) (K : Nat)
    (k : Nat) (t : List Nat) (f : Nat) (m : Mem) (a : List Nat) : Prop :=
  ∃ i, i + k = K ∧ 8 * i ≤ adv0.length ∧ a = adv0.drop (8 * i) ∧
    t = (pipeState i v0 adv0).reverse ++ (start + 2 * i) :: e :: rest ∧ f = f0 ∧ m = pipeMem ctx i start m0 adv0

theorem take8 {l : List Nat} {t0 t1 t2 t3 t4 t5 t6 t7 : Nat} {r : List Nat}
    (h : l = t0 :: t1 :: t2 :: t3 :: t4 :: t5 :: t6 :: t7 :: r) :
    l.take 8 = [t0, t1, t2, t3, t4, t5, t6, t7] ∧ l.take 4 = [t0, t1, t2, t3] ∧ (l.drop 4).take 4 = [t4, t5, t6, t7] ∧
      l.drop 8 = r ∧ 8 ≤ l.length := by
  subst h; simp

/-- **`std::mem::pipe_double_words_to_memory`** (MAST regenerated from mem.masm): for every initial
    hasher state, start address, number `K` of double words and advice tape, a completed execution
    found at least `8K` elements on the tape, consumed exactly those, wrote them to memory at
    `start .. start+2K-1` in order, left the hasher state of `K` overwrite-mode sponge steps over
    them, the write pointer at the end address, and did not touch fmp, ctx or the rest of the stack. -/
theorem pipe_double_words_spec (env : Env) (fuel : Nat) (vm vm' : Vm) (v : List Nat) (start K : Nat)
    (rest : List Nat) (hv : v.length = 12)
    (hs : vm.stack = v.reverse ++ start :: (start + 2 * K) :: rest) (hrest : 2 ≤ rest.length)
    (he : start + 2 * K ≤ 4294967296)
    (h : Vm.exec env fuel mem_pipe_double_words_to_memory vm = .ok vm') :
    8 * K ≤ vm.adv.length ∧ vm'.adv = vm.adv.drop (8 * K) ∧
      vm'.stack = padN 16 ((pipeState K v vm.adv).reverse ++ (start + 2 * K) :: rest) ∧
      vm'.mem = pipeMem vm.ctx K start vm.mem vm.adv ∧ vm'.fmp = vm.fmp ∧ vm'.ctx = vm.ctx := by
  rw [shape] at h
  have hd : DA vm vm.stack vm.fmp vm.mem vm.adv vm.ctx := ⟨rfl, rfl, rfl, rfl, rfl⟩
  rw [hs] at hd
  cases fuel with
  | zero => simp only [Vm.exec] at h; cases h
  | succ fuel =>
  obtain ⟨w1, w2, w3, hj1, hj2, hj3, hj4⟩ := exec_join_inv h
  have hdA := execRow_noop_DA hj1 hd
  cases fuel with
  | zero => simp only [Vm.exec] at hj2; cases hj2
  | succ fuel =>
  obtain ⟨v1, v2, v3, hk1, hk2, hk3, hk4⟩ := exec_join_inv hj2
  have hd1 := execRow_noop_DA hk1 hdA
  cases fuel with
  | zero => simp only [Vm.exec] at hk2; cases hk2
  | succ fuel =>
  obtain ⟨x0, x1, x2, x3, x4, x5, x6, x7, x8, x9, x10, x11, hxv⟩ := HashMem.eq12 hv
  subst hxv
  simp only [List.reverse_cons, List.reverse_nil, List.nil_append, List.cons_append] at hd1
  obtain ⟨st, hst, hd2⟩ := exec_span_DA noclkA asA hk2 hd1
  rw [proA_run _ _ _ _ _ _ _ _ _ _ _ _ _ _ _ _ _ _ _ (by omega)] at hst
  cases hst
  simp only at hd2
  let e := start + 2 * K
  have hlen : ∀ k t f m a, J vm.ctx start e rest vm.fmp vm.mem [x0, x1, x2, x3, x4, x5, x6, x7, x8, x9, x10, x11] vm.adv K k t f m a → 16 ≤ t.length := by
    intro k t f m a ⟨i, _, _, _, ht, _⟩
    rw [ht]
    simp only [List.length_append, List.length_reverse, List.length_cons, pipeState_len i [x0, x1, x2, x3, x4, x5, x6, x7, x8, x9, x10, x11] vm.adv rfl]
    omega
  have hstep : ∀ k t f m a st, J vm.ctx start e rest vm.fmp vm.mem [x0, x1, x2, x3, x4, x5, x6, x7, x8, x9, x10, x11] vm.adv K (k + 1) t f m a →
      runA vm.ctx (deRespan (spanRows bodyP)) ⟨t, f, m, a⟩ = .ok st →
      ∃ c t', st.stack = c :: t' ∧ J vm.ctx start e rest vm.fmp vm.mem [x0, x1, x2, x3, x4, x5, x6, x7, x8, x9, x10, x11] vm.adv K k t' st.fmp st.mem st.adv ∧
        (c = 1 ↔ k ≠ 0) ∧ (c = 0 ↔ k = 0) := by
    intro k t f m a st ⟨i, hik, hil, ha, ht, hf, hmm⟩ hrun
    obtain ⟨y0, y1, y2, y3, y4, y5, y6, y7, y8, y9, y10, y11, hy⟩ := HashMem.eq12 (pipeState_len i [x0, x1, x2, x3, x4, x5, x6, x7, x8, x9, x10, x11] vm.adv rfl)
    rw [hy] at ht
    simp only [List.reverse_cons, List.reverse_nil, List.nil_append, List.cons_append] at ht
    subst ht
    have haddr : start + 2 * i + 1 ≤ u32max := by simp only [u32max]; omega
    obtain ⟨t0, t1, t2, t3, t4, t5, t6, t7, adv', hadv, hst'⟩ :=
      bodyP_inv vm.ctx y0 y1 y2 y3 y4 y5 y6 y7 y8 y9 y10 y11 (start + 2 * i) e rest f m a st haddr (by omega) hrun
    subst hst'
    have hdrop : vm.adv.drop (8 * i) = t0 :: t1 :: t2 :: t3 :: t4 :: t5 :: t6 :: t7 :: adv' := by rw [← ha]; exact hadv
    obtain ⟨q8, q4, q44, qd, ql⟩ := take8 hdrop
    refine ⟨_, _, rfl, ?_, ?_, ?_⟩
    · refine ⟨i + 1, by omega, ?_, ?_, ?_, hf, ?_⟩
      · rw [List.length_drop] at ql; omega
      · show adv' = vm.adv.drop (8 * (i + 1))
        have : 8 * (i + 1) = 8 * i + 8 := by omega
        rw [this, ← List.drop_drop, qd]
      · rw [pipeState_succ, hy, q8]
        have e2 : start + 2 * i + 2 = start + 2 * (i + 1) := by omega
        rw [e2]
        rfl
      · show (m.write vm.ctx (start + 2 * i) ⟨t0, t1, t2, t3⟩).write vm.ctx (start + 2 * i + 1) ⟨t4, t5, t6, t7⟩ = _
        rw [pipeMem_succ, ← hmm, q4]
        have e4 : vm.adv.drop (8 * i + 4) = (vm.adv.drop (8 * i)).drop 4 := by rw [List.drop_drop]
        rw [e4, q44]
        rfl
    · constructor
      · intro hc; split at hc <;> omega
      · intro hk; rw [if_neg (by show ¬ (start + 2 * K = start + 2 * i + 2); omega)]
    · constructor
      · intro hc; split at hc <;> omega
      · intro hk; rw [if_pos (by show start + 2 * K = start + 2 * i + 2; omega)]
  have hJ0 : J vm.ctx start e rest vm.fmp vm.mem [x0, x1, x2, x3, x4, x5, x6, x7, x8, x9, x10, x11] vm.adv K K
      (x11 :: x10 :: x9 :: x8 :: x7 :: x6 :: x5 :: x4 :: x3 :: x2 :: x1 :: x0 :: start :: e :: rest) vm.fmp vm.mem vm.adv :=
    ⟨0, by omega, by omega, by simp, by simp [pipeState], rfl, by simp [pipeMem]⟩
  have hc1 : (1 - (if e = start then 1 else 0)) = 1 ↔ K ≠ 0 := by
    constructor
    · intro hc; split at hc <;> omega
    · intro hk; rw [if_neg (by show ¬ (start + 2 * K = start); omega)]
  have hc0 : (1 - (if e = start then 1 else 0)) = 0 ↔ K = 0 := by
    constructor
    · intro hc; split at hc <;> omega
    · intro hk; rw [if_pos (by show start + 2 * K = start; omega)]
  obtain ⟨t', f', m', a', hd3, hJe⟩ := loop_rule_a env bodyP noclkP asP vm.ctx _ hlen hstep K (fuel + 1) v2 v3 _ _ _ _ _ hd2 hJ0 hc1 hc0 hk3
  have hd4 := execRow_noop_DA hk4 hd3
  obtain ⟨i, hik, hil, ha, ht, hf, hmm⟩ := hJe
  have hi : i = K := by omega
  subst hi
  -- epilogue
  obtain ⟨y0, y1, y2, y3, y4, y5, y6, y7, y8, y9, y10, y11, hy⟩ := HashMem.eq12 (pipeState_len i [x0, x1, x2, x3, x4, x5, x6, x7, x8, x9, x10, x11] vm.adv rfl)
  obtain ⟨r0, r1, rest', hr'⟩ : ∃ r0 r1 rest', rest = r0 :: r1 :: rest' := by
    match rest, hrest with
    | r0 :: r1 :: rest', _ => exact ⟨r0, r1, rest', rfl⟩
  rw [ht, hy, hr'] at hd4
  simp only [List.reverse_cons, List.reverse_nil, List.nil_append, List.cons_append] at hd4
  obtain ⟨st, hst, hd5⟩ := exec_span_DA noclkE asE hj3 hd4
  rw [epiP_run] at hst
  cases hst
  simp only at hd5
  have hfin := execRow_noop_DA hj4 hd5
  obtain ⟨e1, e2, e3, e4, e5⟩ := hfin
  refine ⟨hil, by rw [e4, ha], ?_, by rw [e3, hmm], by rw [e2, hf], e5⟩
  rw [e1, hy, hr']
  simp only [List.reverse_cons, List.reverse_nil, List.nil_append, List.cons_append]


/-- What was piped can be read back: word `j < 2K` above `a` holds tape elements `4j .. 4j+3`; every
    other address of the context is untouched. -/
theorem pipeMem_read (ctx : Nat) (tape : List Nat) (a : Nat) (m : Mem) : ∀ (K j : Nat), j < 2 * K →
    (pipeMem ctx K a m tape).read ctx (a + j) = Word.ofList ((tape.drop (4 * j)).take 4) := by
  intro K
  induction K with
  | zero => intro j hj; omega
  | succ K ih =>
    intro j hj
    rw [pipeMem_succ]
    by_cases h1 : j = 2 * K + 1
    · subst h1
      have : a + (2 * K + 1) = a + 2 * K + 1 := by omega
      rw [this, Mem.read_write_same]
      have : 4 * (2 * K + 1) = 8 * K + 4 := by omega
      rw [this]
    · by_cases h2 : j = 2 * K
      · subst h2
        rw [Mem.read_write_ne _ _ _ _ _ (by omega), Mem.read_write_same]
        have : 4 * (2 * K) = 8 * K := by omega
        rw [this]
      · rw [Mem.read_write_ne _ _ _ _ _ (by omega), Mem.read_write_ne _ _ _ _ _ (by omega)]
        exact ih j (by omega)

theorem pipeMem_frame (ctx : Nat) (tape : List Nat) (a : Nat) (m : Mem) : ∀ (K b : Nat), (b < a ∨ a + 2 * K ≤ b) →
    (pipeMem ctx K a m tape).read ctx b = m.read ctx b := by
  intro K
  induction K with
  | zero => intro b _; rfl
  | succ K ih =>
    intro b hb
    rw [pipeMem_succ, Mem.read_write_ne _ _ _ _ _ (by omega), Mem.read_write_ne _ _ _ _ _ (by omega)]
    exact ih b (by omega)

theorem rpo_absorb_full (fuel : Nat) (st els : List Nat) (h : els.length ≥ 8) :
    Rpo.absorb (fuel + 1) st els = Rpo.absorb fuel (Rpo.permute (st.take 4 ++ els.take 8)) (els.drop 8) := by
  rw [Rpo.absorb, if_pos h]

theorem absorb_tape : ∀ (K : Nat) (st tape : List Nat) (fuel : Nat), K < fuel → 8 * K ≤ tape.length →
    Rpo.absorb fuel st (tape.take (8 * K)) = pipeState K st tape
  | 0, st, tape, fuel + 1, _, _ => by simp [Rpo.absorb, pipeState]
  | K + 1, st, tape, fuel + 1, h, hl => by
    have hlen : (tape.take (8 * (K + 1))).length ≥ 8 := by rw [List.length_take]; omega
    have e1 : (tape.take (8 * (K + 1))).take 8 = tape.take 8 := by
      rw [List.take_take]; congr 1
    have e2 : (tape.take (8 * (K + 1))).drop 8 = (tape.drop 8).take (8 * K) := by
      rw [List.drop_take]; congr 1
    have ih := absorb_tape K (Rpo.permute (st.take 4 ++ tape.take 8)) (tape.drop 8) fuel (by omega)
      (by rw [List.length_drop]; omega)
    exact (rpo_absorb_full _ _ _ hlen).trans ((by rw [e1, e2] : _ = Rpo.absorb fuel (Rpo.permute (st.take 4 ++ tape.take 8)) ((tape.drop 8).take (8 * K))).trans
      (ih.trans (pipeState_step K st tape).symm))

/-- From the all-zero sponge state, the digest of the piped state is `Rpo256::hash_elements` of the
    `8K` consumed tape elements. -/
theorem pipeState_is_hashElements (K : Nat) (tape : List Nat) (hl : 8 * K ≤ tape.length) :
    Rpo.digestOf (pipeState K (List.replicate 12 0) tape) = Rpo.hashElements (tape.take (8 * K)) := by
  have hlen : (tape.take (8 * K)).length = 8 * K := by rw [List.length_take]; omega
  have h8 : (tape.take (8 * K)).length % 8 = 0 := by rw [hlen]; omega
  simp only [Rpo.hashElements, h8, if_true]
  rw [absorb_tape K _ tape _ (by rw [hlen]; omega) hl]
  rfl

end PipeMem
end Miden
