/-
  Building blocks of the `std::sys::truncate_stack` theorems: the rows actually executed for its
  three spans (evaluated from the regenerated MAST), symbolic execution of prologue and epilogue
  on (stack, fmp, memory), executor inversion lemmas on the data view.
-/
import Miden.Lemmas.MemExec
import Miden.Lemmas.ClockErasure
import Miden.Generated.StdlibSys
namespace Miden
set_option linter.unusedSimpArgs false
set_option linter.unusedVariables false

/-! ### truncate_stack -/
namespace Trunc
open Generated

def proA : List Op := [Op.push 4, Op.fmpupdate, Op.push 18446744069414584318, Op.fmpadd, Op.mstorew, Op.drop, Op.drop, Op.drop, Op.drop, Op.push 18446744069414584319, Op.fmpadd, Op.mstorew, Op.drop, Op.drop, Op.drop, Op.drop, Op.push 18446744069414584320, Op.fmpadd, Op.mstorew, Op.drop, Op.drop, Op.drop, Op.drop, Op.pad, Op.fmpadd, Op.mstorew, Op.drop, Op.drop, Op.drop, Op.drop, Op.sdepth, Op.push 16, Op.eq, Op.not]
def bodyB : List Op := [Op.drop, Op.drop, Op.drop, Op.drop, Op.sdepth, Op.push 16, Op.eq, Op.not]
def epiC : List Op := [Op.pad, Op.fmpadd, Op.mloadw, Op.swapw3, Op.push 18446744069414584320, Op.fmpadd, Op.mloadw, Op.swapw2, Op.push 18446744069414584319, Op.fmpadd, Op.mloadw, Op.swapw, Op.push 18446744069414584318, Op.fmpadd, Op.mloadw, Op.push 18446744069414584317, Op.fmpupdate]

theorem shape : sys_truncate_stack = .join (.join (.span proA) (.loop (.span bodyB))) (.span epiC) := rfl

/-- rows actually executed (batching NOOPs included, RESPAN as NOOP) -/
theorem rowsA : deRespan (spanRows proA) = [Op.push 4, Op.fmpupdate, Op.push 18446744069414584318, Op.fmpadd, Op.mstorew, Op.drop, Op.drop, Op.drop, Op.drop, Op.push 18446744069414584319, Op.fmpadd, Op.mstorew, Op.drop, Op.drop, Op.drop, Op.drop, Op.push 18446744069414584320, Op.fmpadd, Op.mstorew, Op.drop, Op.drop, Op.drop, Op.drop, Op.pad, Op.fmpadd, Op.mstorew, Op.drop, Op.drop, Op.drop, Op.drop, Op.sdepth, Op.noop, Op.push 16, Op.eq, Op.not] := by decide
theorem rowsB : deRespan (spanRows bodyB) = bodyB := by decide
theorem rowsC : deRespan (spanRows epiC) = epiC ++ [Op.noop, Op.noop] := by decide
theorem noclkA : Op.clk ∉ spanRows proA := by decide
theorem noclkB : Op.clk ∉ spanRows bodyB := by decide
theorem noclkC : Op.clk ∉ spanRows epiC := by decide


/-- Symbolic executor for (stack, fmp, memory) code. -/
macro "mem_exec" "[" ts:Lean.Parser.Tactic.simpLemma,* "]" : tactic => `(tactic| (
  simp (disch := first | assumption | decide) only [rm_pure, rm_fmpadd, rm_fmpupdate, rm_mstorew,
    rm_mloadw, runM_nil, Except.bind_ok', ps_push, ps_drop, ps_pad, ps_sdepth, ps_eq, ps_noop, ps_swapw,
    ps_swapw2, ps_swapw3, padN_cons, padN_zero, padN_padN, $ts,*]))

def words (m : Mem) (ctx f : Nat) (a0 a1 a2 a3 a4 a5 a6 a7 a8 a9 a10 a11 a12 a13 a14 a15 : Nat) : Mem :=
  (((m.write ctx (f + 1) ⟨a3, a2, a1, a0⟩).write ctx (f + 2) ⟨a7, a6, a5, a4⟩).write ctx (f + 3)
    ⟨a11, a10, a9, a8⟩).write ctx (f + 4) ⟨a15, a14, a13, a12⟩

theorem fadd_small (f k : Nat) (h : f + k < P) : fadd f k = f + k := Nat.mod_eq_of_lt h
theorem fadd_m3 (f : Nat) (h : f + 4 < 4294967296) : fadd (f + 4) 18446744069414584318 = f + 1 := by
  simp only [fadd, P]; omega
theorem fadd_m2 (f : Nat) (h : f + 4 < 4294967296) : fadd (f + 4) 18446744069414584319 = f + 2 := by
  simp only [fadd, P]; omega
theorem fadd_m1 (f : Nat) (h : f + 4 < 4294967296) : fadd (f + 4) 18446744069414584320 = f + 3 := by
  simp only [fadd, P]; omega
theorem fadd_m4 (f : Nat) (h : f + 4 < 4294967296) : fadd (f + 4) 18446744069414584317 = f := by
  simp only [fadd, P]; omega

theorem proA_run (ctx a0 a1 a2 a3 a4 a5 a6 a7 a8 a9 a10 a11 a12 a13 a14 a15 : Nat) (r : List Nat)
    (f : Nat) (m : Mem) (hf1 : FMP_MIN ≤ f) (hf2 : f + 4 ≤ FMP_MAX) :
    ∃ c, runM ctx (deRespan (spanRows proA))
      ⟨a0 :: a1 :: a2 :: a3 :: a4 :: a5 :: a6 :: a7 :: a8 :: a9 :: a10 :: a11 :: a12 :: a13 :: a14 :: a15 :: r, f, m⟩
      = .ok ⟨c :: padN 16 r, f + 4, words m ctx f a0 a1 a2 a3 a4 a5 a6 a7 a8 a9 a10 a11 a12 a13 a14 a15⟩
      ∧ (c = 1 ↔ (padN 16 r).length ≠ 16) ∧ (c = 0 ↔ (padN 16 r).length = 16) := by
  have hlt : f + 4 < 4294967296 := by simp only [FMP_MAX] at hf2; omega
  have e0 : fadd f 4 = f + 4 := fadd_small f 4 (by simp only [P]; omega)
  have e1 := fadd_m3 f hlt
  have e2 := fadd_m2 f hlt
  have e3 := fadd_m1 f hlt
  have e4 : fadd (f + 4) 0 = f + 4 := fadd_small (f + 4) 0 (by simp only [P]; omega)
  have b1 : FMP_MIN ≤ fadd f 4 := by rw [e0]; simp only [FMP_MIN] at *; omega
  have b2 : fadd f 4 ≤ FMP_MAX := by rw [e0]; exact hf2
  have u1 : f + 1 ≤ u32max := by simp only [u32max]; omega
  have u2 : f + 2 ≤ u32max := by simp only [u32max]; omega
  have u3 : f + 3 ≤ u32max := by simp only [u32max]; omega
  have u4 : f + 4 ≤ u32max := by simp only [u32max]; omega
  rw [rowsA]
  rw [rm_pure _ _ _ _ _ _ (by decide), ps_push, Except.bind_ok']
  rw [rm_fmpupdate _ _ _ _ _ _ b1 b2, e0]
  simp only [padN_cons, padN_zero, padN_padN]
  rw [rm_pure _ _ _ _ _ _ (by decide), ps_push, Except.bind_ok']
  rw [rm_fmpadd, e1]
  rw [rm_mstorew _ _ _ _ _ _ _ _ _ _ u1]
  simp only [padN_cons, padN_zero, padN_padN]
  rw [rm_pure _ _ _ _ _ _ (by decide), ps_drop, Except.bind_ok']
  simp only [padN_cons, padN_zero, padN_padN]
  rw [rm_pure _ _ _ _ _ _ (by decide), ps_drop, Except.bind_ok']
  simp only [padN_cons, padN_zero, padN_padN]
  rw [rm_pure _ _ _ _ _ _ (by decide), ps_drop, Except.bind_ok']
  simp only [padN_cons, padN_zero, padN_padN]
  rw [rm_pure _ _ _ _ _ _ (by decide), ps_drop, Except.bind_ok']
  simp only [padN_cons, padN_zero, padN_padN]
  rw [rm_pure _ _ _ _ _ _ (by decide), ps_push, Except.bind_ok']
  rw [rm_fmpadd, e2]
  rw [rm_mstorew _ _ _ _ _ _ _ _ _ _ u2]
  simp only [padN_cons, padN_zero, padN_padN]
  rw [rm_pure _ _ _ _ _ _ (by decide), ps_drop, Except.bind_ok']
  simp only [padN_cons, padN_zero, padN_padN]
  rw [rm_pure _ _ _ _ _ _ (by decide), ps_drop, Except.bind_ok']
  simp only [padN_cons, padN_zero, padN_padN]
  rw [rm_pure _ _ _ _ _ _ (by decide), ps_drop, Except.bind_ok']
  simp only [padN_cons, padN_zero, padN_padN]
  rw [rm_pure _ _ _ _ _ _ (by decide), ps_drop, Except.bind_ok']
  simp only [padN_cons, padN_zero, padN_padN]
  rw [rm_pure _ _ _ _ _ _ (by decide), ps_push, Except.bind_ok']
  rw [rm_fmpadd, e3]
  rw [rm_mstorew _ _ _ _ _ _ _ _ _ _ u3]
  simp only [padN_cons, padN_zero, padN_padN]
  rw [rm_pure _ _ _ _ _ _ (by decide), ps_drop, Except.bind_ok']
  simp only [padN_cons, padN_zero, padN_padN]
  rw [rm_pure _ _ _ _ _ _ (by decide), ps_drop, Except.bind_ok']
  simp only [padN_cons, padN_zero, padN_padN]
  rw [rm_pure _ _ _ _ _ _ (by decide), ps_drop, Except.bind_ok']
  simp only [padN_cons, padN_zero, padN_padN]
  rw [rm_pure _ _ _ _ _ _ (by decide), ps_drop, Except.bind_ok']
  simp only [padN_cons, padN_zero, padN_padN]
  rw [rm_pure _ _ _ _ _ _ (by decide), ps_pad, Except.bind_ok']
  rw [rm_fmpadd, e4]
  rw [rm_mstorew _ _ _ _ _ _ _ _ _ _ u4]
  simp only [padN_cons, padN_zero, padN_padN]
  rw [rm_pure _ _ _ _ _ _ (by decide), ps_drop, Except.bind_ok']
  simp only [padN_cons, padN_zero, padN_padN]
  rw [rm_pure _ _ _ _ _ _ (by decide), ps_drop, Except.bind_ok']
  simp only [padN_cons, padN_zero, padN_padN]
  rw [rm_pure _ _ _ _ _ _ (by decide), ps_drop, Except.bind_ok']
  simp only [padN_cons, padN_zero, padN_padN]
  rw [rm_pure _ _ _ _ _ _ (by decide), ps_drop, Except.bind_ok']
  simp only [padN_cons, padN_zero, padN_padN]
  rw [rm_pure _ _ _ _ _ _ (by decide), ps_sdepth, Except.bind_ok']
  rw [rm_pure _ _ _ _ _ _ (by decide), ps_noop, Except.bind_ok']
  rw [rm_pure _ _ _ _ _ _ (by decide), ps_push, Except.bind_ok']
  rw [rm_pure _ _ _ _ _ _ (by decide), ps_eq, Except.bind_ok']
  simp only [Nat.max_def, Nat.reduceLeDiff, ↓reduceIte, padN_cons, padN_zero, padN_padN]
  by_cases h : (padN 16 r).length = 16
  · refine ⟨0, ?_, by simp [h], by simp [h]⟩
    rw [if_pos h, rm_pure _ _ _ _ _ _ (by decide), ps_not _ _ (by omega), Except.bind_ok', runM_nil]
    rfl
  · refine ⟨1, ?_, by simp [h], by simp [h]⟩
    rw [if_neg h, rm_pure _ _ _ _ _ _ (by decide), ps_not _ _ (by omega), Except.bind_ok', runM_nil]
    rfl

theorem epiC_run (ctx a0 a1 a2 a3 a4 a5 a6 a7 a8 a9 a10 a11 a12 a13 a14 a15 : Nat)
    (x0 x1 x2 x3 x4 x5 x6 x7 x8 x9 x10 x11 x12 x13 x14 x15 : Nat)
    (f : Nat) (m : Mem) (hf1 : FMP_MIN ≤ f) (hf2 : f + 4 ≤ FMP_MAX)
    (h1 : m.read ctx (f + 1) = ⟨a3, a2, a1, a0⟩) (h2 : m.read ctx (f + 2) = ⟨a7, a6, a5, a4⟩)
    (h3 : m.read ctx (f + 3) = ⟨a11, a10, a9, a8⟩) (h4 : m.read ctx (f + 4) = ⟨a15, a14, a13, a12⟩) :
    runM ctx (deRespan (spanRows epiC))
      ⟨[x0, x1, x2, x3, x4, x5, x6, x7, x8, x9, x10, x11, x12, x13, x14, x15], f + 4, m⟩
      = .ok ⟨[a0, a1, a2, a3, a4, a5, a6, a7, a8, a9, a10, a11, a12, a13, a14, a15], f, m⟩ := by
  have hlt : f + 4 < 4294967296 := by simp only [FMP_MAX] at hf2; omega
  have e1 := fadd_m3 f hlt
  have e2 := fadd_m2 f hlt
  have e3 := fadd_m1 f hlt
  have e4 : fadd (f + 4) 0 = f + 4 := fadd_small (f + 4) 0 (by simp only [P]; omega)
  have e5 := fadd_m4 f hlt
  have b1 : FMP_MIN ≤ fadd (f + 4) 18446744069414584317 := by rw [e5]; exact hf1
  have b2 : fadd (f + 4) 18446744069414584317 ≤ FMP_MAX := by rw [e5]; omega
  have u1 : f + 1 ≤ u32max := by simp only [u32max]; omega
  have u2 : f + 2 ≤ u32max := by simp only [u32max]; omega
  have u3 : f + 3 ≤ u32max := by simp only [u32max]; omega
  have u4 : f + 4 ≤ u32max := by simp only [u32max]; omega
  rw [rowsC]
  simp only [epiC, List.cons_append, List.nil_append]
  rw [rm_pure _ _ _ _ _ _ (by decide), ps_pad, Except.bind_ok']
  rw [rm_fmpadd, e4]
  rw [rm_mloadw _ _ _ _ _ _ _ _ _ _ u4, h4]
  simp only [padN_cons, padN_zero]
  rw [rm_pure _ _ _ _ _ _ (by decide), ps_swapw3, Except.bind_ok']
  rw [rm_pure _ _ _ _ _ _ (by decide), ps_push, Except.bind_ok']
  rw [rm_fmpadd, e3]
  rw [rm_mloadw _ _ _ _ _ _ _ _ _ _ u3, h3]
  simp only [padN_cons, padN_zero]
  rw [rm_pure _ _ _ _ _ _ (by decide), ps_swapw2, Except.bind_ok']
  rw [rm_pure _ _ _ _ _ _ (by decide), ps_push, Except.bind_ok']
  rw [rm_fmpadd, e2]
  rw [rm_mloadw _ _ _ _ _ _ _ _ _ _ u2, h2]
  simp only [padN_cons, padN_zero]
  rw [rm_pure _ _ _ _ _ _ (by decide), ps_swapw, Except.bind_ok']
  rw [rm_pure _ _ _ _ _ _ (by decide), ps_push, Except.bind_ok']
  rw [rm_fmpadd, e1]
  rw [rm_mloadw _ _ _ _ _ _ _ _ _ _ u1, h1]
  simp only [padN_cons, padN_zero]
  rw [rm_pure _ _ _ _ _ _ (by decide), ps_push, Except.bind_ok']
  rw [rm_fmpupdate _ _ _ _ _ _ b1 b2, e5]
  simp only [padN_cons, padN_zero]
  rw [rm_pure _ _ _ _ _ _ (by decide), ps_noop, Except.bind_ok']
  rw [rm_pure _ _ _ _ _ _ (by decide), ps_noop, Except.bind_ok']
  rw [runM_nil]

/-! #### Executor inversions and the data view -/

/-- Everything but the clock and the decoder history. -/
def D (vm : Vm) (s : List Nat) (f : Nat) (m : Mem) (c : Nat) : Prop :=
  vm.stack = s ∧ vm.fmp = f ∧ vm.mem = m ∧ vm.ctx = c

theorem D_reclk {vm v : Vm} {s f m c k t} (h : D v s f m c) (e : vm = v.reclk k t) : D vm s f m c := by
  subst e; exact h

theorem execRow_noop_D {env : Env} {vm vm' : Vm} {row : Op} {s f m c}
    (h : vm.execRow env .noop row = .ok vm') (hd : D vm s f m c) : D vm' s f m c :=
  D_reclk hd (execRow_noop_reclk h)

theorem execRow_drop_D {env : Env} {vm vm' : Vm} {row : Op} {x : Nat} {s : List Nat} {f m c}
    (h : vm.execRow env .drop row = .ok vm') (hd : D vm (x :: s) f m c) : D vm' (padN 16 s) f m c := by
  unfold Vm.execRow at h
  obtain ⟨hs, hf, hm, hc⟩ := hd
  rw [Vm.step_drop vm x s hs] at h
  have := tick_reclk h
  rw [this]
  exact ⟨by simp [Vm.reclk, pad16_eq], hf, hm, hc⟩

theorem exec_join_inv {env : Env} {fuel : Nat} {a b : Block} {vm vm' : Vm}
    (h : Vm.exec env (fuel + 1) (.join a b) vm = .ok vm') :
    ∃ v1 v2 v3, vm.execRow env .noop .join = .ok v1 ∧ Vm.exec env fuel a v1 = .ok v2 ∧
      Vm.exec env fuel b v2 = .ok v3 ∧ v3.execRow env .noop .end = .ok vm' := by
  simp only [Vm.exec] at h
  cases h1 : vm.execRow env .noop .join with
  | error e => rw [h1] at h; cases h
  | ok v1 =>
    rw [h1] at h; simp only at h
    cases h2 : Vm.exec env fuel a v1 with
    | error e => rw [h2] at h; cases h
    | ok v2 =>
      rw [h2] at h; simp only at h
      cases h3 : Vm.exec env fuel b v2 with
      | error e => rw [h3] at h; cases h
      | ok v3 =>
        rw [h3] at h; simp only at h
        exact ⟨v1, v2, v3, rfl, h2, h3, h⟩

/-- A span of (stack, fmp, memory) operations on the data view. -/
theorem exec_span_D {env : Env} {fuel : Nat} {ops : List Op} {vm vm' : Vm} {s f m c}
    (hc : Op.clk ∉ spanRows ops) (hm : (deRespan (spanRows ops)).all Op.isMSimple = true)
    (h : Vm.exec env (fuel + 1) (.span ops) vm = .ok vm') (hd : D vm s f m c) :
    ∃ st, runM c (deRespan (spanRows ops)) ⟨s, f, m⟩ = .ok st ∧ D vm' st.stack st.fmp st.mem c := by
  obtain ⟨v, hv, e⟩ := exec_span hc h
  rw [runOps_m _ hm vm] at hv
  obtain ⟨hs, hf, hmm, hcc⟩ := hd
  rw [hs, hf, hmm, hcc] at hv
  cases hr : runM c (deRespan (spanRows ops)) ⟨s, f, m⟩ with
  | error e => rw [hr] at hv; cases hv
  | ok st =>
    rw [hr] at hv
    simp only at hv
    cases hv
    refine ⟨st, rfl, ?_⟩
    rw [e]
    exact ⟨rfl, rfl, rfl, rfl⟩
theorem bodyB_run (ctx x0 x1 x2 x3 : Nat) (t : List Nat) (f : Nat) (m : Mem) :
    ∃ c, runM ctx (deRespan (spanRows bodyB)) ⟨x0 :: x1 :: x2 :: x3 :: t, f, m⟩ = .ok ⟨c :: padN 16 t, f, m⟩
      ∧ (c = 1 ↔ (padN 16 t).length ≠ 16) ∧ (c = 0 ↔ (padN 16 t).length = 16) := by
  rw [rowsB]
  simp only [bodyB]
  rw [rm_pure _ _ _ _ _ _ (by decide), ps_drop, Except.bind_ok']
  simp only [padN_cons, padN_zero, padN_padN]
  rw [rm_pure _ _ _ _ _ _ (by decide), ps_drop, Except.bind_ok']
  simp only [padN_cons, padN_zero, padN_padN]
  rw [rm_pure _ _ _ _ _ _ (by decide), ps_drop, Except.bind_ok']
  simp only [padN_cons, padN_zero, padN_padN]
  rw [rm_pure _ _ _ _ _ _ (by decide), ps_drop, Except.bind_ok']
  simp only [padN_cons, padN_zero, padN_padN]
  rw [rm_pure _ _ _ _ _ _ (by decide), ps_sdepth, Except.bind_ok']
  rw [rm_pure _ _ _ _ _ _ (by decide), ps_push, Except.bind_ok']
  rw [rm_pure _ _ _ _ _ _ (by decide), ps_eq, Except.bind_ok']
  simp only [Nat.max_def, Nat.reduceLeDiff, ↓reduceIte, padN_cons, padN_zero, padN_padN]
  by_cases h : (padN 16 t).length = 16
  · refine ⟨0, ?_, by simp [h], by simp [h]⟩
    rw [if_pos h, rm_pure _ _ _ _ _ _ (by decide), ps_not _ _ (by omega), Except.bind_ok', runM_nil]
  · refine ⟨1, ?_, by simp [h], by simp [h]⟩
    rw [if_neg h, rm_pure _ _ _ _ _ _ (by decide), ps_not _ _ (by omega), Except.bind_ok', runM_nil]

theorem msA : (deRespan (spanRows proA)).all Op.isMSimple = true := by decide
theorem msB : (deRespan (spanRows bodyB)).all Op.isMSimple = true := by decide
theorem msC : (deRespan (spanRows epiC)).all Op.isMSimple = true := by decide

theorem padN_len (n : Nat) (l : List Nat) : (padN n l).length = max n l.length := by
  unfold padN; simp only [List.length_append, List.length_replicate]; omega

/-- The `while.true` tail of `truncate_stack`: whatever the depth, it terminates with depth exactly
    16 and leaves frame pointer, memory and context alone. -/
theorem loopIter_spec (env : Env) : ∀ (n fuel : Nat) (vm vm' : Vm) (c : Nat) (t : List Nat) (F : Nat) (M : Mem) (C : Nat),
    D vm (c :: t) F M C → 16 ≤ t.length → t.length ≤ n → (c = 1 ↔ t.length ≠ 16) → (c = 0 ↔ t.length = 16) →
    Vm.loopIter env fuel (.span bodyB) vm = .ok vm' → ∃ s', D vm' s' F M C ∧ s'.length = 16 := by
  intro n
  induction n with
  | zero => intro fuel vm vm' c t F M C _ h16 hn; omega
  | succ n ih =>
    intro fuel vm vm' c t F M C hd h16 hn h1 h0 h
    cases fuel with
    | zero => simp only [Vm.loopIter] at h; cases h
    | succ fuel =>
      simp only [Vm.loopIter] at h
      have hpeek : vm.peek = c := by unfold Vm.peek; rw [hd.1]; rfl
      rw [hpeek] at h
      by_cases hc1 : c = 1
      · -- another iteration
        rw [if_pos hc1] at h
        cases hr : vm.execRow env .drop .repeat with
        | error e => rw [hr] at h; cases h
        | ok v1 =>
          rw [hr] at h; simp only at h
          have hd1 := execRow_drop_D hr hd
          have hlen : t.length ≠ 16 := h1.mp hc1
          rw [padN_of_le h16] at hd1
          cases hb : Vm.exec env fuel (.span bodyB) v1 with
          | error e => rw [hb] at h; cases h
          | ok v2 =>
            rw [hb] at h; simp only at h
            cases fuel with
            | zero => simp only [Vm.exec] at hb; cases hb
            | succ fuel =>
              match t, h16, hlen, hn, hd1 with
              | x0 :: x1 :: x2 :: x3 :: t', h16, hlen, hn, hd1 =>
                obtain ⟨st, hst, hd2⟩ := exec_span_D noclkB msB hb hd1
                obtain ⟨c', hrun, hc1', hc0'⟩ := bodyB_run C x0 x1 x2 x3 t' F M
                rw [hrun] at hst
                cases hst
                simp only at hd2
                simp only [List.length_cons] at h16 hlen hn
                have hl' : 16 ≤ (padN 16 t').length := by rw [padN_len]; omega
                have hn' : (padN 16 t').length ≤ n := by rw [padN_len]; omega
                exact ih (fuel + 1) v2 vm' c' (padN 16 t') F M C hd2 hl' hn' hc1' hc0' h
      · rw [if_neg hc1] at h
        by_cases hc0 : c = 0
        · rw [if_pos hc0] at h
          have hd' := execRow_drop_D h hd
          have hl : t.length = 16 := h0.mp hc0
          rw [padN_of_le (by omega)] at hd'
          exact ⟨t, hd', hl⟩
        · exfalso
          by_cases hl : t.length = 16
          · exact hc0 (h0.mpr hl)
          · exact hc1 (h1.mpr hl)

/-- The whole `while.true` block. -/
theorem loop_spec (env : Env) (fuel : Nat) (vm vm' : Vm) (c : Nat) (t : List Nat) (F : Nat) (M : Mem) (C : Nat)
    (hd : D vm (c :: t) F M C) (h16 : 16 ≤ t.length) (h1 : c = 1 ↔ t.length ≠ 16) (h0 : c = 0 ↔ t.length = 16)
    (h : Vm.exec env fuel (.loop (.span bodyB)) vm = .ok vm') : ∃ s', D vm' s' F M C ∧ s'.length = 16 := by
  cases fuel with
  | zero => simp only [Vm.exec] at h; cases h
  | succ fuel =>
    simp only [Vm.exec] at h
    have hpeek : vm.peek = c := by unfold Vm.peek; rw [hd.1]; rfl
    rw [hpeek] at h
    cases hr : vm.execRow env .drop .loop with
    | error e => rw [hr] at h; cases h
    | ok v1 =>
      rw [hr] at h; simp only at h
      have hd1 := execRow_drop_D hr hd
      rw [padN_of_le h16] at hd1
      by_cases hc1 : c = 1
      · rw [if_pos hc1] at h
        have hlen : t.length ≠ 16 := h1.mp hc1
        cases hb : Vm.exec env fuel (.span bodyB) v1 with
        | error e => rw [hb] at h; cases h
        | ok v2 =>
          rw [hb] at h; simp only at h
          cases fuel with
          | zero => simp only [Vm.exec] at hb; cases hb
          | succ fuel =>
            match t, h16, hlen, hd1 with
            | x0 :: x1 :: x2 :: x3 :: t', h16, hlen, hd1 =>
              obtain ⟨st, hst, hd2⟩ := exec_span_D noclkB msB hb hd1
              obtain ⟨c', hrun, hc1', hc0'⟩ := bodyB_run C x0 x1 x2 x3 t' F M
              rw [hrun] at hst
              cases hst
              simp only at hd2
              have hl' : 16 ≤ (padN 16 t').length := by rw [padN_len]; omega
              exact loopIter_spec env (padN 16 t').length (fuel + 1) v2 vm' c' (padN 16 t') F M C hd2 hl'
                (Nat.le_refl _) hc1' hc0' h
      · rw [if_neg hc1] at h
        by_cases hc0 : c = 0
        · rw [if_pos hc0] at h
          have hd' := execRow_noop_D h hd1
          exact ⟨t, hd', h0.mp hc0⟩
        · exfalso
          by_cases hl : t.length = 16
          · exact hc0 (h0.mpr hl)
          · exact hc1 (h1.mpr hl)

theorem exists16 {s : List Nat} (h : 16 ≤ s.length) :
    ∃ a0 a1 a2 a3 a4 a5 a6 a7 a8 a9 a10 a11 a12 a13 a14 a15 r,
      s = a0 :: a1 :: a2 :: a3 :: a4 :: a5 :: a6 :: a7 :: a8 :: a9 :: a10 :: a11 :: a12 :: a13 :: a14 :: a15 :: r := by
  match s, h with
  | a0 :: a1 :: a2 :: a3 :: a4 :: a5 :: a6 :: a7 :: a8 :: a9 :: a10 :: a11 :: a12 :: a13 :: a14 :: a15 :: r, _ =>
    exact ⟨_, _, _, _, _, _, _, _, _, _, _, _, _, _, _, _, _, rfl⟩

theorem eq16 {s : List Nat} (h : s.length = 16) :
    ∃ a0 a1 a2 a3 a4 a5 a6 a7 a8 a9 a10 a11 a12 a13 a14 a15,
      s = [a0, a1, a2, a3, a4, a5, a6, a7, a8, a9, a10, a11, a12, a13, a14, a15] := by
  obtain ⟨a0, a1, a2, a3, a4, a5, a6, a7, a8, a9, a10, a11, a12, a13, a14, a15, r, hs⟩ := exists16 (Nat.le_of_eq h.symm)
  subst hs
  simp only [List.length_cons] at h
  have : r = [] := List.eq_nil_of_length_eq_zero (by omega)
  subst this
  exact ⟨_, _, _, _, _, _, _, _, _, _, _, _, _, _, _, _, rfl⟩

/-- **`std::sys::truncate_stack`** (the MAST compiled from stdlib/asm/sys.masm): from any state whose
    stack is at least 16 deep — any depth, any contents — and whose frame pointer leaves room for
    the four locals, a completed execution leaves exactly the original top 16 elements, the frame
    pointer and the context as they were. -/
theorem truncate_stack_spec (env : Env) (fuel : Nat) (vm vm' : Vm) (hl : 16 ≤ vm.stack.length)
    (hf1 : FMP_MIN ≤ vm.fmp) (hf2 : vm.fmp + 4 ≤ FMP_MAX)
    (h : Vm.exec env fuel sys_truncate_stack vm = .ok vm') :
    vm'.stack = vm.stack.take 16 ∧ vm'.fmp = vm.fmp ∧ vm'.ctx = vm.ctx := by
  rw [shape] at h
  obtain ⟨a0, a1, a2, a3, a4, a5, a6, a7, a8, a9, a10, a11, a12, a13, a14, a15, r, hs⟩ := exists16 hl
  have hd : D vm vm.stack vm.fmp vm.mem vm.ctx := ⟨rfl, rfl, rfl, rfl⟩
  rw [hs] at hd
  cases fuel with
  | zero => simp only [Vm.exec] at h; cases h
  | succ fuel =>
  obtain ⟨v1, v2, v3, hj1, hj2, hj3, hj4⟩ := exec_join_inv h
  have hd1 := execRow_noop_D hj1 hd
  cases fuel with
  | zero => simp only [Vm.exec] at hj2; cases hj2
  | succ fuel =>
  obtain ⟨w1, w2, w3, hk1, hk2, hk3, hk4⟩ := exec_join_inv hj2
  have hdw1 := execRow_noop_D hk1 hd1
  cases fuel with
  | zero => simp only [Vm.exec] at hk2; cases hk2
  | succ fuel =>
  -- prologue
  obtain ⟨st, hst, hdw2⟩ := exec_span_D noclkA msA hk2 hdw1
  obtain ⟨c, hrun, hc1, hc0⟩ := proA_run vm.ctx a0 a1 a2 a3 a4 a5 a6 a7 a8 a9 a10 a11 a12 a13 a14 a15 r vm.fmp vm.mem hf1 hf2
  rw [hrun] at hst
  cases hst
  simp only at hdw2
  -- loop
  have hp16 : 16 ≤ (padN 16 r).length := by rw [padN_len]; omega
  obtain ⟨s', hdw3, hs'⟩ := loop_spec env (fuel + 1) w2 w3 c (padN 16 r) _ _ _ hdw2 hp16 hc1 hc0 hk3
  have hdv2 := execRow_noop_D hk4 hdw3
  -- epilogue
  obtain ⟨x0, x1, x2, x3, x4, x5, x6, x7, x8, x9, x10, x11, x12, x13, x14, x15, hx⟩ := eq16 hs'
  rw [hx] at hdv2
  obtain ⟨st, hst, hdv3⟩ := exec_span_D noclkC msC hj3 hdv2
  have r1 : (words vm.mem vm.ctx vm.fmp a0 a1 a2 a3 a4 a5 a6 a7 a8 a9 a10 a11 a12 a13 a14 a15).read vm.ctx (vm.fmp + 1) = ⟨a3, a2, a1, a0⟩ := by
    unfold words
    rw [Mem.read_write_ne _ _ _ _ _ (by omega), Mem.read_write_ne _ _ _ _ _ (by omega), Mem.read_write_ne _ _ _ _ _ (by omega), Mem.read_write_same]
  have r2 : (words vm.mem vm.ctx vm.fmp a0 a1 a2 a3 a4 a5 a6 a7 a8 a9 a10 a11 a12 a13 a14 a15).read vm.ctx (vm.fmp + 2) = ⟨a7, a6, a5, a4⟩ := by
    unfold words
    rw [Mem.read_write_ne _ _ _ _ _ (by omega), Mem.read_write_ne _ _ _ _ _ (by omega), Mem.read_write_same]
  have r3 : (words vm.mem vm.ctx vm.fmp a0 a1 a2 a3 a4 a5 a6 a7 a8 a9 a10 a11 a12 a13 a14 a15).read vm.ctx (vm.fmp + 3) = ⟨a11, a10, a9, a8⟩ := by
    unfold words
    rw [Mem.read_write_ne _ _ _ _ _ (by omega), Mem.read_write_same]
  have r4 : (words vm.mem vm.ctx vm.fmp a0 a1 a2 a3 a4 a5 a6 a7 a8 a9 a10 a11 a12 a13 a14 a15).read vm.ctx (vm.fmp + 4) = ⟨a15, a14, a13, a12⟩ := by
    unfold words
    rw [Mem.read_write_same]
  rw [epiC_run vm.ctx a0 a1 a2 a3 a4 a5 a6 a7 a8 a9 a10 a11 a12 a13 a14 a15 x0 x1 x2 x3 x4 x5 x6 x7 x8 x9 x10 x11 x12 x13 x14 x15
    vm.fmp _ hf1 hf2 r1 r2 r3 r4] at hst
  cases hst
  simp only at hdv3
  have hfin := execRow_noop_D hj4 hdv3
  obtain ⟨e1, e2, _, e4⟩ := hfin
  refine ⟨?_, e2, e4⟩
  rw [e1, hs]
  rfl
end Trunc
end Miden
