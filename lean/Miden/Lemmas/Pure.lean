/-
  Stack-only view of straight-line code: for operations whose effect is a function of the operand
  stack alone, running them on a machine state is running `pureStep` on its stack
  (`stackRun_pure`).  The evaluation lemmas `ps_*` give the result of each such operation on a
  stack whose top elements are explicit; they are the rewrite rules of the symbolic executor used
  for the longer standard-library procedures (`pure_exec`).
-/
import Miden.Lemmas.RunOps
import Miden.Lemmas.PureAttr
namespace Miden
set_option linter.unusedSimpArgs false

/-- Operations whose effect is a function of the operand stack alone. -/
def Op.isStackOnly : Op → Bool
  | .fmpadd | .fmpupdate | .caller | .clk | .advpop | .advpopw | .mloadw | .mstorew | .mload
  | .mstore | .mstream | .pipe | .mpverify | .mrupdate | .frie2f4 | .rcombbase => false
  | .join | .split | .loop | .call | .dyn | .syscall | .span | .end | .repeat | .respan | .halt => false
  | _ => true

def pureStep (op : Op) (s : List Nat) : Except Err (List Nat) :=
  match Vm.stepCore { stack := s } op with
  | .ok v => .ok v.stack
  | .error e => .error e

def runPure : List Op → List Nat → Except Err (List Nat)
  | [], s => .ok s
  | op :: rest, s => match pureStep op s with
    | .ok s' => runPure rest s'
    | .error e => .error e

set_option maxHeartbeats 1000000 in
theorem stepCore_pure (vm : Vm) (op : Op) (h : op.isStackOnly = true) :
    vm.stepCore op = match pureStep op vm.stack with
      | .ok s => .ok { vm with stack := s }
      | .error e => .error e := by
  cases op <;> simp only [Op.isStackOnly] at h <;> (try contradiction) <;>
    simp only [pureStep, Vm.stepCore, Vm.setStack, Vm.dup, Vm.movup, Vm.movdn] <;>
    (repeat' split) <;> simp_all <;> (cases vm; simp_all)

theorem step_pure (vm : Vm) (op : Op) (h : op.isStackOnly = true) :
    vm.step op = match pureStep op vm.stack with
      | .ok s => .ok { vm with stack := s }
      | .error e => .error e := by
  unfold Vm.step
  rw [stepCore_pure vm op h]
  cases pureStep op vm.stack <;> rfl

theorem stackRun_pure (ops : List Op) (h : ops.all Op.isStackOnly = true) (vm : Vm) :
    stackRun ops vm = runPure ops vm.stack := by
  unfold stackRun
  induction ops generalizing vm with
  | nil => rfl
  | cons op rest ih =>
    simp only [List.all_cons, Bool.and_eq_true] at h
    simp only [runOps, runPure, step_pure vm op h.1]
    cases hp : pureStep op vm.stack with
    | error e => rfl
    | ok s => exact ih h.2 { vm with stack := s }


/-! ### Evaluation lemmas -/

theorem ps_sdepth (r : List Nat) :
    pureStep .sdepth r = .ok (r.length :: r) := by
  simp [pureStep, Vm.stepCore, Vm.setStack]

theorem ps_noop (r : List Nat) :
    pureStep .noop (r) = .ok (r) := by
  simp [pureStep, Vm.stepCore, Vm.dup, Vm.movup, Vm.movdn, Vm.setStack, insertAt, pad16_eq]

theorem ps_dup0 (x0 : Nat) (r : List Nat) :
    pureStep .dup0 (x0 :: r) = .ok (x0 :: x0 :: r) := by
  simp [pureStep, Vm.stepCore, Vm.dup, Vm.movup, Vm.movdn, Vm.setStack, insertAt, pad16_eq]

theorem ps_dup1 (x0 x1 : Nat) (r : List Nat) :
    pureStep .dup1 (x0 :: x1 :: r) = .ok (x1 :: x0 :: x1 :: r) := by
  simp [pureStep, Vm.stepCore, Vm.dup, Vm.movup, Vm.movdn, Vm.setStack, insertAt, pad16_eq]

theorem ps_dup2 (x0 x1 x2 : Nat) (r : List Nat) :
    pureStep .dup2 (x0 :: x1 :: x2 :: r) = .ok (x2 :: x0 :: x1 :: x2 :: r) := by
  simp [pureStep, Vm.stepCore, Vm.dup, Vm.movup, Vm.movdn, Vm.setStack, insertAt, pad16_eq]

theorem ps_dup3 (x0 x1 x2 x3 : Nat) (r : List Nat) :
    pureStep .dup3 (x0 :: x1 :: x2 :: x3 :: r) = .ok (x3 :: x0 :: x1 :: x2 :: x3 :: r) := by
  simp [pureStep, Vm.stepCore, Vm.dup, Vm.movup, Vm.movdn, Vm.setStack, insertAt, pad16_eq]

theorem ps_dup4 (x0 x1 x2 x3 x4 : Nat) (r : List Nat) :
    pureStep .dup4 (x0 :: x1 :: x2 :: x3 :: x4 :: r) = .ok (x4 :: x0 :: x1 :: x2 :: x3 :: x4 :: r) := by
  simp [pureStep, Vm.stepCore, Vm.dup, Vm.movup, Vm.movdn, Vm.setStack, insertAt, pad16_eq]

theorem ps_dup5 (x0 x1 x2 x3 x4 x5 : Nat) (r : List Nat) :
    pureStep .dup5 (x0 :: x1 :: x2 :: x3 :: x4 :: x5 :: r) = .ok (x5 :: x0 :: x1 :: x2 :: x3 :: x4 :: x5 :: r) := by
  simp [pureStep, Vm.stepCore, Vm.dup, Vm.movup, Vm.movdn, Vm.setStack, insertAt, pad16_eq]

theorem ps_dup6 (x0 x1 x2 x3 x4 x5 x6 : Nat) (r : List Nat) :
    pureStep .dup6 (x0 :: x1 :: x2 :: x3 :: x4 :: x5 :: x6 :: r) = .ok (x6 :: x0 :: x1 :: x2 :: x3 :: x4 :: x5 :: x6 :: r) := by
  simp [pureStep, Vm.stepCore, Vm.dup, Vm.movup, Vm.movdn, Vm.setStack, insertAt, pad16_eq]

theorem ps_dup7 (x0 x1 x2 x3 x4 x5 x6 x7 : Nat) (r : List Nat) :
    pureStep .dup7 (x0 :: x1 :: x2 :: x3 :: x4 :: x5 :: x6 :: x7 :: r) = .ok (x7 :: x0 :: x1 :: x2 :: x3 :: x4 :: x5 :: x6 :: x7 :: r) := by
  simp [pureStep, Vm.stepCore, Vm.dup, Vm.movup, Vm.movdn, Vm.setStack, insertAt, pad16_eq]

theorem ps_dup9 (x0 x1 x2 x3 x4 x5 x6 x7 x8 x9 : Nat) (r : List Nat) :
    pureStep .dup9 (x0 :: x1 :: x2 :: x3 :: x4 :: x5 :: x6 :: x7 :: x8 :: x9 :: r) = .ok (x9 :: x0 :: x1 :: x2 :: x3 :: x4 :: x5 :: x6 :: x7 :: x8 :: x9 :: r) := by
  simp [pureStep, Vm.stepCore, Vm.dup, Vm.movup, Vm.movdn, Vm.setStack, insertAt, pad16_eq]

theorem ps_dup11 (x0 x1 x2 x3 x4 x5 x6 x7 x8 x9 x10 x11 : Nat) (r : List Nat) :
    pureStep .dup11 (x0 :: x1 :: x2 :: x3 :: x4 :: x5 :: x6 :: x7 :: x8 :: x9 :: x10 :: x11 :: r) = .ok (x11 :: x0 :: x1 :: x2 :: x3 :: x4 :: x5 :: x6 :: x7 :: x8 :: x9 :: x10 :: x11 :: r) := by
  simp [pureStep, Vm.stepCore, Vm.dup, Vm.movup, Vm.movdn, Vm.setStack, insertAt, pad16_eq]

theorem ps_dup13 (x0 x1 x2 x3 x4 x5 x6 x7 x8 x9 x10 x11 x12 x13 : Nat) (r : List Nat) :
    pureStep .dup13 (x0 :: x1 :: x2 :: x3 :: x4 :: x5 :: x6 :: x7 :: x8 :: x9 :: x10 :: x11 :: x12 :: x13 :: r) = .ok (x13 :: x0 :: x1 :: x2 :: x3 :: x4 :: x5 :: x6 :: x7 :: x8 :: x9 :: x10 :: x11 :: x12 :: x13 :: r) := by
  simp [pureStep, Vm.stepCore, Vm.dup, Vm.movup, Vm.movdn, Vm.setStack, insertAt, pad16_eq]

theorem ps_dup15 (x0 x1 x2 x3 x4 x5 x6 x7 x8 x9 x10 x11 x12 x13 x14 x15 : Nat) (r : List Nat) :
    pureStep .dup15 (x0 :: x1 :: x2 :: x3 :: x4 :: x5 :: x6 :: x7 :: x8 :: x9 :: x10 :: x11 :: x12 :: x13 :: x14 :: x15 :: r) = .ok (x15 :: x0 :: x1 :: x2 :: x3 :: x4 :: x5 :: x6 :: x7 :: x8 :: x9 :: x10 :: x11 :: x12 :: x13 :: x14 :: x15 :: r) := by
  simp [pureStep, Vm.stepCore, Vm.dup, Vm.movup, Vm.movdn, Vm.setStack, insertAt, pad16_eq]

theorem ps_swap (x0 x1 : Nat) (r : List Nat) :
    pureStep .swap (x0 :: x1 :: r) = .ok (x1 :: x0 :: r) := by
  simp [pureStep, Vm.stepCore, Vm.dup, Vm.movup, Vm.movdn, Vm.setStack, insertAt, pad16_eq]

theorem ps_swapw (x0 x1 x2 x3 x4 x5 x6 x7 : Nat) (r : List Nat) :
    pureStep .swapw (x0 :: x1 :: x2 :: x3 :: x4 :: x5 :: x6 :: x7 :: r) = .ok (x4 :: x5 :: x6 :: x7 :: x0 :: x1 :: x2 :: x3 :: r) := by
  simp [pureStep, Vm.stepCore, Vm.dup, Vm.movup, Vm.movdn, Vm.setStack, insertAt, pad16_eq]

theorem ps_swapw2 (x0 x1 x2 x3 x4 x5 x6 x7 x8 x9 x10 x11 : Nat) (r : List Nat) :
    pureStep .swapw2 (x0 :: x1 :: x2 :: x3 :: x4 :: x5 :: x6 :: x7 :: x8 :: x9 :: x10 :: x11 :: r) = .ok (x8 :: x9 :: x10 :: x11 :: x4 :: x5 :: x6 :: x7 :: x0 :: x1 :: x2 :: x3 :: r) := by
  simp [pureStep, Vm.stepCore, Vm.dup, Vm.movup, Vm.movdn, Vm.setStack, insertAt, pad16_eq]

theorem ps_swapw3 (x0 x1 x2 x3 x4 x5 x6 x7 x8 x9 x10 x11 x12 x13 x14 x15 : Nat) (r : List Nat) :
    pureStep .swapw3 (x0 :: x1 :: x2 :: x3 :: x4 :: x5 :: x6 :: x7 :: x8 :: x9 :: x10 :: x11 :: x12 :: x13 :: x14 :: x15 :: r) = .ok (x12 :: x13 :: x14 :: x15 :: x4 :: x5 :: x6 :: x7 :: x8 :: x9 :: x10 :: x11 :: x0 :: x1 :: x2 :: x3 :: r) := by
  simp [pureStep, Vm.stepCore, Vm.dup, Vm.movup, Vm.movdn, Vm.setStack, insertAt, pad16_eq]

theorem ps_swapdw (x0 x1 x2 x3 x4 x5 x6 x7 x8 x9 x10 x11 x12 x13 x14 x15 : Nat) (r : List Nat) :
    pureStep .swapdw (x0 :: x1 :: x2 :: x3 :: x4 :: x5 :: x6 :: x7 :: x8 :: x9 :: x10 :: x11 :: x12 :: x13 :: x14 :: x15 :: r) = .ok (x8 :: x9 :: x10 :: x11 :: x12 :: x13 :: x14 :: x15 :: x0 :: x1 :: x2 :: x3 :: x4 :: x5 :: x6 :: x7 :: r) := by
  simp [pureStep, Vm.stepCore, Vm.dup, Vm.movup, Vm.movdn, Vm.setStack, insertAt, pad16_eq]

theorem ps_movup2 (x0 x1 x2 : Nat) (r : List Nat) :
    pureStep .movup2 (x0 :: x1 :: x2 :: r) = .ok (x2 :: x0 :: x1 :: r) := by
  simp [pureStep, Vm.stepCore, Vm.dup, Vm.movup, Vm.movdn, Vm.setStack, insertAt, pad16_eq]

theorem ps_movdn2 (x0 x1 x2 : Nat) (r : List Nat) :
    pureStep .movdn2 (x0 :: x1 :: x2 :: r) = .ok (x1 :: x2 :: x0 :: r) := by
  simp [pureStep, Vm.stepCore, Vm.dup, Vm.movup, Vm.movdn, Vm.setStack, insertAt, pad16_eq]

theorem ps_movup3 (x0 x1 x2 x3 : Nat) (r : List Nat) :
    pureStep .movup3 (x0 :: x1 :: x2 :: x3 :: r) = .ok (x3 :: x0 :: x1 :: x2 :: r) := by
  simp [pureStep, Vm.stepCore, Vm.dup, Vm.movup, Vm.movdn, Vm.setStack, insertAt, pad16_eq]

theorem ps_movdn3 (x0 x1 x2 x3 : Nat) (r : List Nat) :
    pureStep .movdn3 (x0 :: x1 :: x2 :: x3 :: r) = .ok (x1 :: x2 :: x3 :: x0 :: r) := by
  simp [pureStep, Vm.stepCore, Vm.dup, Vm.movup, Vm.movdn, Vm.setStack, insertAt, pad16_eq]

theorem ps_movup4 (x0 x1 x2 x3 x4 : Nat) (r : List Nat) :
    pureStep .movup4 (x0 :: x1 :: x2 :: x3 :: x4 :: r) = .ok (x4 :: x0 :: x1 :: x2 :: x3 :: r) := by
  simp [pureStep, Vm.stepCore, Vm.dup, Vm.movup, Vm.movdn, Vm.setStack, insertAt, pad16_eq]

theorem ps_movdn4 (x0 x1 x2 x3 x4 : Nat) (r : List Nat) :
    pureStep .movdn4 (x0 :: x1 :: x2 :: x3 :: x4 :: r) = .ok (x1 :: x2 :: x3 :: x4 :: x0 :: r) := by
  simp [pureStep, Vm.stepCore, Vm.dup, Vm.movup, Vm.movdn, Vm.setStack, insertAt, pad16_eq]

theorem ps_movup5 (x0 x1 x2 x3 x4 x5 : Nat) (r : List Nat) :
    pureStep .movup5 (x0 :: x1 :: x2 :: x3 :: x4 :: x5 :: r) = .ok (x5 :: x0 :: x1 :: x2 :: x3 :: x4 :: r) := by
  simp [pureStep, Vm.stepCore, Vm.dup, Vm.movup, Vm.movdn, Vm.setStack, insertAt, pad16_eq]

theorem ps_movdn5 (x0 x1 x2 x3 x4 x5 : Nat) (r : List Nat) :
    pureStep .movdn5 (x0 :: x1 :: x2 :: x3 :: x4 :: x5 :: r) = .ok (x1 :: x2 :: x3 :: x4 :: x5 :: x0 :: r) := by
  simp [pureStep, Vm.stepCore, Vm.dup, Vm.movup, Vm.movdn, Vm.setStack, insertAt, pad16_eq]

theorem ps_movup6 (x0 x1 x2 x3 x4 x5 x6 : Nat) (r : List Nat) :
    pureStep .movup6 (x0 :: x1 :: x2 :: x3 :: x4 :: x5 :: x6 :: r) = .ok (x6 :: x0 :: x1 :: x2 :: x3 :: x4 :: x5 :: r) := by
  simp [pureStep, Vm.stepCore, Vm.dup, Vm.movup, Vm.movdn, Vm.setStack, insertAt, pad16_eq]

theorem ps_movdn6 (x0 x1 x2 x3 x4 x5 x6 : Nat) (r : List Nat) :
    pureStep .movdn6 (x0 :: x1 :: x2 :: x3 :: x4 :: x5 :: x6 :: r) = .ok (x1 :: x2 :: x3 :: x4 :: x5 :: x6 :: x0 :: r) := by
  simp [pureStep, Vm.stepCore, Vm.dup, Vm.movup, Vm.movdn, Vm.setStack, insertAt, pad16_eq]

theorem ps_movup7 (x0 x1 x2 x3 x4 x5 x6 x7 : Nat) (r : List Nat) :
    pureStep .movup7 (x0 :: x1 :: x2 :: x3 :: x4 :: x5 :: x6 :: x7 :: r) = .ok (x7 :: x0 :: x1 :: x2 :: x3 :: x4 :: x5 :: x6 :: r) := by
  simp [pureStep, Vm.stepCore, Vm.dup, Vm.movup, Vm.movdn, Vm.setStack, insertAt, pad16_eq]

theorem ps_movdn7 (x0 x1 x2 x3 x4 x5 x6 x7 : Nat) (r : List Nat) :
    pureStep .movdn7 (x0 :: x1 :: x2 :: x3 :: x4 :: x5 :: x6 :: x7 :: r) = .ok (x1 :: x2 :: x3 :: x4 :: x5 :: x6 :: x7 :: x0 :: r) := by
  simp [pureStep, Vm.stepCore, Vm.dup, Vm.movup, Vm.movdn, Vm.setStack, insertAt, pad16_eq]

theorem ps_movup8 (x0 x1 x2 x3 x4 x5 x6 x7 x8 : Nat) (r : List Nat) :
    pureStep .movup8 (x0 :: x1 :: x2 :: x3 :: x4 :: x5 :: x6 :: x7 :: x8 :: r) = .ok (x8 :: x0 :: x1 :: x2 :: x3 :: x4 :: x5 :: x6 :: x7 :: r) := by
  simp [pureStep, Vm.stepCore, Vm.dup, Vm.movup, Vm.movdn, Vm.setStack, insertAt, pad16_eq]

theorem ps_movdn8 (x0 x1 x2 x3 x4 x5 x6 x7 x8 : Nat) (r : List Nat) :
    pureStep .movdn8 (x0 :: x1 :: x2 :: x3 :: x4 :: x5 :: x6 :: x7 :: x8 :: r) = .ok (x1 :: x2 :: x3 :: x4 :: x5 :: x6 :: x7 :: x8 :: x0 :: r) := by
  simp [pureStep, Vm.stepCore, Vm.dup, Vm.movup, Vm.movdn, Vm.setStack, insertAt, pad16_eq]

theorem ps_pad (r : List Nat) :
    pureStep .pad (r) = .ok (0 :: r) := by
  simp [pureStep, Vm.stepCore, Vm.dup, Vm.movup, Vm.movdn, Vm.setStack, insertAt, pad16_eq]

theorem ps_drop (x0 : Nat) (r : List Nat) :
    pureStep .drop (x0 :: r) = .ok (padN 16 (r)) := by
  simp [pureStep, Vm.stepCore, Vm.dup, Vm.movup, Vm.movdn, Vm.setStack, insertAt, pad16_eq]

theorem ps_push (v : Nat) (r : List Nat) :
    pureStep (.push v) (r) = .ok (v :: r) := by
  simp [pureStep, Vm.stepCore, Vm.dup, Vm.movup, Vm.movdn, Vm.setStack, insertAt, pad16_eq]

theorem ps_add (x0 x1 : Nat) (r : List Nat) :
    pureStep .add (x0 :: x1 :: r) = .ok (padN 16 (fadd x1 x0 :: r)) := by
  simp [pureStep, Vm.stepCore, Vm.dup, Vm.movup, Vm.movdn, Vm.setStack, insertAt, pad16_eq]

theorem ps_mul (x0 x1 : Nat) (r : List Nat) :
    pureStep .mul (x0 :: x1 :: r) = .ok (padN 16 (fmul x1 x0 :: r)) := by
  simp [pureStep, Vm.stepCore, Vm.dup, Vm.movup, Vm.movdn, Vm.setStack, insertAt, pad16_eq]

theorem ps_neg (x0 : Nat) (r : List Nat) :
    pureStep .neg (x0 :: r) = .ok (fneg x0 :: r) := by
  simp [pureStep, Vm.stepCore, Vm.dup, Vm.movup, Vm.movdn, Vm.setStack, insertAt, pad16_eq]

theorem ps_incr (x0 : Nat) (r : List Nat) :
    pureStep .incr (x0 :: r) = .ok (fadd x0 1 :: r) := by
  simp [pureStep, Vm.stepCore, Vm.dup, Vm.movup, Vm.movdn, Vm.setStack, insertAt, pad16_eq]

theorem ps_eq (x0 x1 : Nat) (r : List Nat) :
    pureStep .eq (x0 :: x1 :: r) = .ok (padN 16 ((if x1 = x0 then 1 else 0) :: r)) := by
  simp [pureStep, Vm.stepCore, Vm.dup, Vm.movup, Vm.movdn, Vm.setStack, insertAt, pad16_eq]

theorem ps_eqz (x0 : Nat) (r : List Nat) :
    pureStep .eqz (x0 :: r) = .ok ((if x0 = 0 then 1 else 0) :: r) := by
  simp [pureStep, Vm.stepCore, Vm.dup, Vm.movup, Vm.movdn, Vm.setStack, insertAt, pad16_eq]

theorem ps_u32split (x0 : Nat) (r : List Nat) :
    pureStep .u32split (x0 :: r) = .ok (splitHi x0 :: splitLo x0 :: r) := by
  simp [pureStep, Vm.stepCore, Vm.dup, Vm.movup, Vm.movdn, Vm.setStack, insertAt, pad16_eq]

theorem ps_u32add (x0 x1 : Nat) (r : List Nat) :
    pureStep .u32add (x0 :: x1 :: r) = .ok (splitHi (fadd x1 x0) :: splitLo (fadd x1 x0) :: r) := by
  simp [pureStep, Vm.stepCore, Vm.dup, Vm.movup, Vm.movdn, Vm.setStack, insertAt, pad16_eq]

theorem ps_u32add3 (x0 x1 x2 : Nat) (r : List Nat) :
    pureStep .u32add3 (x0 :: x1 :: x2 :: r) = .ok (padN 16 (splitHi ((x2 + x1 + x0) % two64 % P) :: splitLo ((x2 + x1 + x0) % two64 % P) :: r)) := by
  simp [pureStep, Vm.stepCore, Vm.dup, Vm.movup, Vm.movdn, Vm.setStack, insertAt, pad16_eq]

theorem ps_u32sub (x0 x1 : Nat) (r : List Nat) :
    pureStep .u32sub (x0 :: x1 :: r) = .ok ((x1 + two64 - x0) % two64 / 2 ^ 63 :: (x1 + two64 - x0) % two64 % two32 :: r) := by
  simp [pureStep, Vm.stepCore, Vm.dup, Vm.movup, Vm.movdn, Vm.setStack, insertAt, pad16_eq]

theorem ps_u32mul (x0 x1 : Nat) (r : List Nat) :
    pureStep .u32mul (x0 :: x1 :: r) = .ok (splitHi (x1 * x0 % two64 % P) :: splitLo (x1 * x0 % two64 % P) :: r) := by
  simp [pureStep, Vm.stepCore, Vm.dup, Vm.movup, Vm.movdn, Vm.setStack, insertAt, pad16_eq]

theorem ps_u32madd (x0 x1 x2 : Nat) (r : List Nat) :
    pureStep .u32madd (x0 :: x1 :: x2 :: r) = .ok (padN 16 (splitHi ((x1 * x0 + x2) % two64 % P) :: splitLo ((x1 * x0 + x2) % two64 % P) :: r)) := by
  simp [pureStep, Vm.stepCore, Vm.dup, Vm.movup, Vm.movdn, Vm.setStack, insertAt, pad16_eq]

theorem ps_u32div (x0 x1 : Nat) (r : List Nat) (h0 : x0 ≠ 0) :
    pureStep .u32div (x0 :: x1 :: r) = .ok (x1 % x0 :: x1 / x0 :: r) := by
  simp [pureStep, Vm.stepCore, Vm.dup, Vm.movup, Vm.movdn, Vm.setStack, insertAt, pad16_eq, h0]

theorem ps_u32and (x0 x1 : Nat) (r : List Nat) (h1 : x1 < two32) (h0 : x0 < two32) :
    pureStep .u32and (x0 :: x1 :: r) = .ok (padN 16 (Nat.land x1 x0 :: r)) := by
  simp [pureStep, Vm.stepCore, Vm.dup, Vm.movup, Vm.movdn, Vm.setStack, insertAt, pad16_eq, Nat.not_le.mpr h1, Nat.not_le.mpr h0]

theorem ps_u32xor (x0 x1 : Nat) (r : List Nat) (h1 : x1 < two32) (h0 : x0 < two32) :
    pureStep .u32xor (x0 :: x1 :: r) = .ok (padN 16 (Nat.xor x1 x0 :: r)) := by
  simp [pureStep, Vm.stepCore, Vm.dup, Vm.movup, Vm.movdn, Vm.setStack, insertAt, pad16_eq, Nat.not_le.mpr h1, Nat.not_le.mpr h0]

theorem ps_u32assert2 (x0 x1 : Nat) (c : Nat) (r : List Nat) (h0 : x0 < two32) (h1 : x1 < two32) :
    pureStep (.u32assert2 c) (x0 :: x1 :: r) = .ok (x0 :: x1 :: r) := by
  simp [pureStep, Vm.stepCore, Vm.dup, Vm.movup, Vm.movdn, Vm.setStack, insertAt, pad16_eq, Nat.not_le.mpr h1, Nat.not_le.mpr h0]

theorem ps_not (x0 : Nat) (r : List Nat) (h0 : x0 ≤ 1) :
    pureStep .not (x0 :: r) = .ok ((1 - x0) :: r) := by
  simp [pureStep, Vm.stepCore, Vm.dup, Vm.movup, Vm.movdn, Vm.setStack, insertAt, pad16_eq, Nat.not_lt.mpr h0]

theorem ps_and (x0 x1 : Nat) (r : List Nat) (h1 : x1 ≤ 1) (h0 : x0 ≤ 1) :
    pureStep .and (x0 :: x1 :: r) = .ok (padN 16 ((if x1 = 1 ∧ x0 = 1 then 1 else 0) :: r)) := by
  simp [pureStep, Vm.stepCore, Vm.dup, Vm.movup, Vm.movdn, Vm.setStack, insertAt, pad16_eq, Nat.not_lt.mpr h0, Nat.not_lt.mpr h1]

theorem ps_or (x0 x1 : Nat) (r : List Nat) (h1 : x1 ≤ 1) (h0 : x0 ≤ 1) :
    pureStep .or (x0 :: x1 :: r) = .ok (padN 16 ((if x1 = 1 ∨ x0 = 1 then 1 else 0) :: r)) := by
  simp [pureStep, Vm.stepCore, Vm.dup, Vm.movup, Vm.movdn, Vm.setStack, insertAt, pad16_eq, Nat.not_lt.mpr h0, Nat.not_lt.mpr h1]

theorem ps_assert (x0 : Nat) (c : Nat) (r : List Nat) (h0 : x0 = 1) :
    pureStep (.assert c) (x0 :: r) = .ok (padN 16 (r)) := by
  simp [pureStep, Vm.stepCore, Vm.dup, Vm.movup, Vm.movdn, Vm.setStack, insertAt, pad16_eq, h0]

theorem ps_cswap0 (x0 x1 x2 : Nat) (r : List Nat) (h0 : x0 = 0) :
    pureStep .cswap (x0 :: x1 :: x2 :: r) = .ok (padN 16 (x1 :: x2 :: r)) := by
  simp [pureStep, Vm.stepCore, Vm.dup, Vm.movup, Vm.movdn, Vm.setStack, insertAt, pad16_eq, h0]

theorem ps_cswap1 (x0 x1 x2 : Nat) (r : List Nat) (h0 : x0 = 1) :
    pureStep .cswap (x0 :: x1 :: x2 :: r) = .ok (padN 16 (x2 :: x1 :: r)) := by
  simp [pureStep, Vm.stepCore, Vm.dup, Vm.movup, Vm.movdn, Vm.setStack, insertAt, pad16_eq, h0]

theorem runPure_nil (s : List Nat) : runPure [] s = .ok s := rfl
theorem runPure_cons_ok {op : Op} {rest : List Op} {s s' : List Nat} (h : pureStep op s = .ok s') :
    runPure (op :: rest) s = runPure rest s' := by simp [runPure, h]
theorem runPure_cons (op : Op) (rest : List Op) (s : List Nat) :
    runPure (op :: rest) s = (pureStep op s).bind (runPure rest) := by
  simp only [runPure]; cases pureStep op s <;> rfl

/-! ### One rewrite rule per operation for `runPure` -/

@[pure_exec] theorem rp_sdepth (r : List Nat) (rest : List Op) :
    runPure (.sdepth :: rest) r = runPure rest (r.length :: r) :=
  runPure_cons_ok (ps_sdepth r)

@[pure_exec] theorem rp_noop (r : List Nat) (rest : List Op) :
    runPure (.noop :: rest) (r) = runPure rest (r) :=
  runPure_cons_ok (ps_noop r)

@[pure_exec] theorem rp_dup0 (x0 : Nat) (r : List Nat) (rest : List Op) :
    runPure (.dup0 :: rest) (x0 :: r) = runPure rest (x0 :: x0 :: r) :=
  runPure_cons_ok (ps_dup0 x0 r)

@[pure_exec] theorem rp_dup1 (x0 x1 : Nat) (r : List Nat) (rest : List Op) :
    runPure (.dup1 :: rest) (x0 :: x1 :: r) = runPure rest (x1 :: x0 :: x1 :: r) :=
  runPure_cons_ok (ps_dup1 x0 x1 r)

@[pure_exec] theorem rp_dup2 (x0 x1 x2 : Nat) (r : List Nat) (rest : List Op) :
    runPure (.dup2 :: rest) (x0 :: x1 :: x2 :: r) = runPure rest (x2 :: x0 :: x1 :: x2 :: r) :=
  runPure_cons_ok (ps_dup2 x0 x1 x2 r)

@[pure_exec] theorem rp_dup3 (x0 x1 x2 x3 : Nat) (r : List Nat) (rest : List Op) :
    runPure (.dup3 :: rest) (x0 :: x1 :: x2 :: x3 :: r) = runPure rest (x3 :: x0 :: x1 :: x2 :: x3 :: r) :=
  runPure_cons_ok (ps_dup3 x0 x1 x2 x3 r)

@[pure_exec] theorem rp_dup4 (x0 x1 x2 x3 x4 : Nat) (r : List Nat) (rest : List Op) :
    runPure (.dup4 :: rest) (x0 :: x1 :: x2 :: x3 :: x4 :: r) = runPure rest (x4 :: x0 :: x1 :: x2 :: x3 :: x4 :: r) :=
  runPure_cons_ok (ps_dup4 x0 x1 x2 x3 x4 r)

@[pure_exec] theorem rp_dup5 (x0 x1 x2 x3 x4 x5 : Nat) (r : List Nat) (rest : List Op) :
    runPure (.dup5 :: rest) (x0 :: x1 :: x2 :: x3 :: x4 :: x5 :: r) = runPure rest (x5 :: x0 :: x1 :: x2 :: x3 :: x4 :: x5 :: r) :=
  runPure_cons_ok (ps_dup5 x0 x1 x2 x3 x4 x5 r)

@[pure_exec] theorem rp_dup6 (x0 x1 x2 x3 x4 x5 x6 : Nat) (r : List Nat) (rest : List Op) :
    runPure (.dup6 :: rest) (x0 :: x1 :: x2 :: x3 :: x4 :: x5 :: x6 :: r) = runPure rest (x6 :: x0 :: x1 :: x2 :: x3 :: x4 :: x5 :: x6 :: r) :=
  runPure_cons_ok (ps_dup6 x0 x1 x2 x3 x4 x5 x6 r)

@[pure_exec] theorem rp_dup7 (x0 x1 x2 x3 x4 x5 x6 x7 : Nat) (r : List Nat) (rest : List Op) :
    runPure (.dup7 :: rest) (x0 :: x1 :: x2 :: x3 :: x4 :: x5 :: x6 :: x7 :: r) = runPure rest (x7 :: x0 :: x1 :: x2 :: x3 :: x4 :: x5 :: x6 :: x7 :: r) :=
  runPure_cons_ok (ps_dup7 x0 x1 x2 x3 x4 x5 x6 x7 r)

@[pure_exec] theorem rp_dup9 (x0 x1 x2 x3 x4 x5 x6 x7 x8 x9 : Nat) (r : List Nat) (rest : List Op) :
    runPure (.dup9 :: rest) (x0 :: x1 :: x2 :: x3 :: x4 :: x5 :: x6 :: x7 :: x8 :: x9 :: r) = runPure rest (x9 :: x0 :: x1 :: x2 :: x3 :: x4 :: x5 :: x6 :: x7 :: x8 :: x9 :: r) :=
  runPure_cons_ok (ps_dup9 x0 x1 x2 x3 x4 x5 x6 x7 x8 x9 r)

@[pure_exec] theorem rp_dup11 (x0 x1 x2 x3 x4 x5 x6 x7 x8 x9 x10 x11 : Nat) (r : List Nat) (rest : List Op) :
    runPure (.dup11 :: rest) (x0 :: x1 :: x2 :: x3 :: x4 :: x5 :: x6 :: x7 :: x8 :: x9 :: x10 :: x11 :: r) = runPure rest (x11 :: x0 :: x1 :: x2 :: x3 :: x4 :: x5 :: x6 :: x7 :: x8 :: x9 :: x10 :: x11 :: r) :=
  runPure_cons_ok (ps_dup11 x0 x1 x2 x3 x4 x5 x6 x7 x8 x9 x10 x11 r)

@[pure_exec] theorem rp_dup13 (x0 x1 x2 x3 x4 x5 x6 x7 x8 x9 x10 x11 x12 x13 : Nat) (r : List Nat) (rest : List Op) :
    runPure (.dup13 :: rest) (x0 :: x1 :: x2 :: x3 :: x4 :: x5 :: x6 :: x7 :: x8 :: x9 :: x10 :: x11 :: x12 :: x13 :: r) = runPure rest (x13 :: x0 :: x1 :: x2 :: x3 :: x4 :: x5 :: x6 :: x7 :: x8 :: x9 :: x10 :: x11 :: x12 :: x13 :: r) :=
  runPure_cons_ok (ps_dup13 x0 x1 x2 x3 x4 x5 x6 x7 x8 x9 x10 x11 x12 x13 r)

@[pure_exec] theorem rp_dup15 (x0 x1 x2 x3 x4 x5 x6 x7 x8 x9 x10 x11 x12 x13 x14 x15 : Nat) (r : List Nat) (rest : List Op) :
    runPure (.dup15 :: rest) (x0 :: x1 :: x2 :: x3 :: x4 :: x5 :: x6 :: x7 :: x8 :: x9 :: x10 :: x11 :: x12 :: x13 :: x14 :: x15 :: r) = runPure rest (x15 :: x0 :: x1 :: x2 :: x3 :: x4 :: x5 :: x6 :: x7 :: x8 :: x9 :: x10 :: x11 :: x12 :: x13 :: x14 :: x15 :: r) :=
  runPure_cons_ok (ps_dup15 x0 x1 x2 x3 x4 x5 x6 x7 x8 x9 x10 x11 x12 x13 x14 x15 r)

@[pure_exec] theorem rp_swap (x0 x1 : Nat) (r : List Nat) (rest : List Op) :
    runPure (.swap :: rest) (x0 :: x1 :: r) = runPure rest (x1 :: x0 :: r) :=
  runPure_cons_ok (ps_swap x0 x1 r)

@[pure_exec] theorem rp_swapw (x0 x1 x2 x3 x4 x5 x6 x7 : Nat) (r : List Nat) (rest : List Op) :
    runPure (.swapw :: rest) (x0 :: x1 :: x2 :: x3 :: x4 :: x5 :: x6 :: x7 :: r) = runPure rest (x4 :: x5 :: x6 :: x7 :: x0 :: x1 :: x2 :: x3 :: r) :=
  runPure_cons_ok (ps_swapw x0 x1 x2 x3 x4 x5 x6 x7 r)

@[pure_exec] theorem rp_swapw2 (x0 x1 x2 x3 x4 x5 x6 x7 x8 x9 x10 x11 : Nat) (r : List Nat) (rest : List Op) :
    runPure (.swapw2 :: rest) (x0 :: x1 :: x2 :: x3 :: x4 :: x5 :: x6 :: x7 :: x8 :: x9 :: x10 :: x11 :: r) = runPure rest (x8 :: x9 :: x10 :: x11 :: x4 :: x5 :: x6 :: x7 :: x0 :: x1 :: x2 :: x3 :: r) :=
  runPure_cons_ok (ps_swapw2 x0 x1 x2 x3 x4 x5 x6 x7 x8 x9 x10 x11 r)

@[pure_exec] theorem rp_swapw3 (x0 x1 x2 x3 x4 x5 x6 x7 x8 x9 x10 x11 x12 x13 x14 x15 : Nat) (r : List Nat) (rest : List Op) :
    runPure (.swapw3 :: rest) (x0 :: x1 :: x2 :: x3 :: x4 :: x5 :: x6 :: x7 :: x8 :: x9 :: x10 :: x11 :: x12 :: x13 :: x14 :: x15 :: r) = runPure rest (x12 :: x13 :: x14 :: x15 :: x4 :: x5 :: x6 :: x7 :: x8 :: x9 :: x10 :: x11 :: x0 :: x1 :: x2 :: x3 :: r) :=
  runPure_cons_ok (ps_swapw3 x0 x1 x2 x3 x4 x5 x6 x7 x8 x9 x10 x11 x12 x13 x14 x15 r)

@[pure_exec] theorem rp_swapdw (x0 x1 x2 x3 x4 x5 x6 x7 x8 x9 x10 x11 x12 x13 x14 x15 : Nat) (r : List Nat) (rest : List Op) :
    runPure (.swapdw :: rest) (x0 :: x1 :: x2 :: x3 :: x4 :: x5 :: x6 :: x7 :: x8 :: x9 :: x10 :: x11 :: x12 :: x13 :: x14 :: x15 :: r) = runPure rest (x8 :: x9 :: x10 :: x11 :: x12 :: x13 :: x14 :: x15 :: x0 :: x1 :: x2 :: x3 :: x4 :: x5 :: x6 :: x7 :: r) :=
  runPure_cons_ok (ps_swapdw x0 x1 x2 x3 x4 x5 x6 x7 x8 x9 x10 x11 x12 x13 x14 x15 r)

@[pure_exec] theorem rp_movup2 (x0 x1 x2 : Nat) (r : List Nat) (rest : List Op) :
    runPure (.movup2 :: rest) (x0 :: x1 :: x2 :: r) = runPure rest (x2 :: x0 :: x1 :: r) :=
  runPure_cons_ok (ps_movup2 x0 x1 x2 r)

@[pure_exec] theorem rp_movdn2 (x0 x1 x2 : Nat) (r : List Nat) (rest : List Op) :
    runPure (.movdn2 :: rest) (x0 :: x1 :: x2 :: r) = runPure rest (x1 :: x2 :: x0 :: r) :=
  runPure_cons_ok (ps_movdn2 x0 x1 x2 r)

@[pure_exec] theorem rp_movup3 (x0 x1 x2 x3 : Nat) (r : List Nat) (rest : List Op) :
    runPure (.movup3 :: rest) (x0 :: x1 :: x2 :: x3 :: r) = runPure rest (x3 :: x0 :: x1 :: x2 :: r) :=
  runPure_cons_ok (ps_movup3 x0 x1 x2 x3 r)

@[pure_exec] theorem rp_movdn3 (x0 x1 x2 x3 : Nat) (r : List Nat) (rest : List Op) :
    runPure (.movdn3 :: rest) (x0 :: x1 :: x2 :: x3 :: r) = runPure rest (x1 :: x2 :: x3 :: x0 :: r) :=
  runPure_cons_ok (ps_movdn3 x0 x1 x2 x3 r)

@[pure_exec] theorem rp_movup4 (x0 x1 x2 x3 x4 : Nat) (r : List Nat) (rest : List Op) :
    runPure (.movup4 :: rest) (x0 :: x1 :: x2 :: x3 :: x4 :: r) = runPure rest (x4 :: x0 :: x1 :: x2 :: x3 :: r) :=
  runPure_cons_ok (ps_movup4 x0 x1 x2 x3 x4 r)

@[pure_exec] theorem rp_movdn4 (x0 x1 x2 x3 x4 : Nat) (r : List Nat) (rest : List Op) :
    runPure (.movdn4 :: rest) (x0 :: x1 :: x2 :: x3 :: x4 :: r) = runPure rest (x1 :: x2 :: x3 :: x4 :: x0 :: r) :=
  runPure_cons_ok (ps_movdn4 x0 x1 x2 x3 x4 r)

@[pure_exec] theorem rp_movup5 (x0 x1 x2 x3 x4 x5 : Nat) (r : List Nat) (rest : List Op) :
    runPure (.movup5 :: rest) (x0 :: x1 :: x2 :: x3 :: x4 :: x5 :: r) = runPure rest (x5 :: x0 :: x1 :: x2 :: x3 :: x4 :: r) :=
  runPure_cons_ok (ps_movup5 x0 x1 x2 x3 x4 x5 r)

@[pure_exec] theorem rp_movdn5 (x0 x1 x2 x3 x4 x5 : Nat) (r : List Nat) (rest : List Op) :
    runPure (.movdn5 :: rest) (x0 :: x1 :: x2 :: x3 :: x4 :: x5 :: r) = runPure rest (x1 :: x2 :: x3 :: x4 :: x5 :: x0 :: r) :=
  runPure_cons_ok (ps_movdn5 x0 x1 x2 x3 x4 x5 r)

@[pure_exec] theorem rp_movup6 (x0 x1 x2 x3 x4 x5 x6 : Nat) (r : List Nat) (rest : List Op) :
    runPure (.movup6 :: rest) (x0 :: x1 :: x2 :: x3 :: x4 :: x5 :: x6 :: r) = runPure rest (x6 :: x0 :: x1 :: x2 :: x3 :: x4 :: x5 :: r) :=
  runPure_cons_ok (ps_movup6 x0 x1 x2 x3 x4 x5 x6 r)

@[pure_exec] theorem rp_movdn6 (x0 x1 x2 x3 x4 x5 x6 : Nat) (r : List Nat) (rest : List Op) :
    runPure (.movdn6 :: rest) (x0 :: x1 :: x2 :: x3 :: x4 :: x5 :: x6 :: r) = runPure rest (x1 :: x2 :: x3 :: x4 :: x5 :: x6 :: x0 :: r) :=
  runPure_cons_ok (ps_movdn6 x0 x1 x2 x3 x4 x5 x6 r)

@[pure_exec] theorem rp_movup7 (x0 x1 x2 x3 x4 x5 x6 x7 : Nat) (r : List Nat) (rest : List Op) :
    runPure (.movup7 :: rest) (x0 :: x1 :: x2 :: x3 :: x4 :: x5 :: x6 :: x7 :: r) = runPure rest (x7 :: x0 :: x1 :: x2 :: x3 :: x4 :: x5 :: x6 :: r) :=
  runPure_cons_ok (ps_movup7 x0 x1 x2 x3 x4 x5 x6 x7 r)

@[pure_exec] theorem rp_movdn7 (x0 x1 x2 x3 x4 x5 x6 x7 : Nat) (r : List Nat) (rest : List Op) :
    runPure (.movdn7 :: rest) (x0 :: x1 :: x2 :: x3 :: x4 :: x5 :: x6 :: x7 :: r) = runPure rest (x1 :: x2 :: x3 :: x4 :: x5 :: x6 :: x7 :: x0 :: r) :=
  runPure_cons_ok (ps_movdn7 x0 x1 x2 x3 x4 x5 x6 x7 r)

@[pure_exec] theorem rp_movup8 (x0 x1 x2 x3 x4 x5 x6 x7 x8 : Nat) (r : List Nat) (rest : List Op) :
    runPure (.movup8 :: rest) (x0 :: x1 :: x2 :: x3 :: x4 :: x5 :: x6 :: x7 :: x8 :: r) = runPure rest (x8 :: x0 :: x1 :: x2 :: x3 :: x4 :: x5 :: x6 :: x7 :: r) :=
  runPure_cons_ok (ps_movup8 x0 x1 x2 x3 x4 x5 x6 x7 x8 r)

@[pure_exec] theorem rp_movdn8 (x0 x1 x2 x3 x4 x5 x6 x7 x8 : Nat) (r : List Nat) (rest : List Op) :
    runPure (.movdn8 :: rest) (x0 :: x1 :: x2 :: x3 :: x4 :: x5 :: x6 :: x7 :: x8 :: r) = runPure rest (x1 :: x2 :: x3 :: x4 :: x5 :: x6 :: x7 :: x8 :: x0 :: r) :=
  runPure_cons_ok (ps_movdn8 x0 x1 x2 x3 x4 x5 x6 x7 x8 r)

@[pure_exec] theorem rp_pad (r : List Nat) (rest : List Op) :
    runPure (.pad :: rest) (r) = runPure rest (0 :: r) :=
  runPure_cons_ok (ps_pad r)

@[pure_exec] theorem rp_drop (x0 : Nat) (r : List Nat) (rest : List Op) :
    runPure (.drop :: rest) (x0 :: r) = runPure rest (padN 16 (r)) :=
  runPure_cons_ok (ps_drop x0 r)

@[pure_exec] theorem rp_push (v : Nat) (r : List Nat) (rest : List Op) :
    runPure ((.push v) :: rest) (r) = runPure rest (v :: r) :=
  runPure_cons_ok (ps_push v r)

@[pure_exec] theorem rp_add (x0 x1 : Nat) (r : List Nat) (rest : List Op) :
    runPure (.add :: rest) (x0 :: x1 :: r) = runPure rest (padN 16 (fadd x1 x0 :: r)) :=
  runPure_cons_ok (ps_add x0 x1 r)

@[pure_exec] theorem rp_mul (x0 x1 : Nat) (r : List Nat) (rest : List Op) :
    runPure (.mul :: rest) (x0 :: x1 :: r) = runPure rest (padN 16 (fmul x1 x0 :: r)) :=
  runPure_cons_ok (ps_mul x0 x1 r)

@[pure_exec] theorem rp_neg (x0 : Nat) (r : List Nat) (rest : List Op) :
    runPure (.neg :: rest) (x0 :: r) = runPure rest (fneg x0 :: r) :=
  runPure_cons_ok (ps_neg x0 r)

@[pure_exec] theorem rp_incr (x0 : Nat) (r : List Nat) (rest : List Op) :
    runPure (.incr :: rest) (x0 :: r) = runPure rest (fadd x0 1 :: r) :=
  runPure_cons_ok (ps_incr x0 r)

@[pure_exec] theorem rp_eq (x0 x1 : Nat) (r : List Nat) (rest : List Op) :
    runPure (.eq :: rest) (x0 :: x1 :: r) = runPure rest (padN 16 ((if x1 = x0 then 1 else 0) :: r)) :=
  runPure_cons_ok (ps_eq x0 x1 r)

@[pure_exec] theorem rp_eqz (x0 : Nat) (r : List Nat) (rest : List Op) :
    runPure (.eqz :: rest) (x0 :: r) = runPure rest ((if x0 = 0 then 1 else 0) :: r) :=
  runPure_cons_ok (ps_eqz x0 r)

@[pure_exec] theorem rp_u32split (x0 : Nat) (r : List Nat) (rest : List Op) :
    runPure (.u32split :: rest) (x0 :: r) = runPure rest (splitHi x0 :: splitLo x0 :: r) :=
  runPure_cons_ok (ps_u32split x0 r)

@[pure_exec] theorem rp_u32add (x0 x1 : Nat) (r : List Nat) (rest : List Op) :
    runPure (.u32add :: rest) (x0 :: x1 :: r) = runPure rest (splitHi (fadd x1 x0) :: splitLo (fadd x1 x0) :: r) :=
  runPure_cons_ok (ps_u32add x0 x1 r)

@[pure_exec] theorem rp_u32add3 (x0 x1 x2 : Nat) (r : List Nat) (rest : List Op) :
    runPure (.u32add3 :: rest) (x0 :: x1 :: x2 :: r) = runPure rest (padN 16 (splitHi ((x2 + x1 + x0) % two64 % P) :: splitLo ((x2 + x1 + x0) % two64 % P) :: r)) :=
  runPure_cons_ok (ps_u32add3 x0 x1 x2 r)

@[pure_exec] theorem rp_u32sub (x0 x1 : Nat) (r : List Nat) (rest : List Op) :
    runPure (.u32sub :: rest) (x0 :: x1 :: r) = runPure rest ((x1 + two64 - x0) % two64 / 2 ^ 63 :: (x1 + two64 - x0) % two64 % two32 :: r) :=
  runPure_cons_ok (ps_u32sub x0 x1 r)

@[pure_exec] theorem rp_u32mul (x0 x1 : Nat) (r : List Nat) (rest : List Op) :
    runPure (.u32mul :: rest) (x0 :: x1 :: r) = runPure rest (splitHi (x1 * x0 % two64 % P) :: splitLo (x1 * x0 % two64 % P) :: r) :=
  runPure_cons_ok (ps_u32mul x0 x1 r)

@[pure_exec] theorem rp_u32madd (x0 x1 x2 : Nat) (r : List Nat) (rest : List Op) :
    runPure (.u32madd :: rest) (x0 :: x1 :: x2 :: r) = runPure rest (padN 16 (splitHi ((x1 * x0 + x2) % two64 % P) :: splitLo ((x1 * x0 + x2) % two64 % P) :: r)) :=
  runPure_cons_ok (ps_u32madd x0 x1 x2 r)

@[pure_exec] theorem rp_u32div (x0 x1 : Nat) (r : List Nat) (h0 : x0 ≠ 0) (rest : List Op) :
    runPure (.u32div :: rest) (x0 :: x1 :: r) = runPure rest (x1 % x0 :: x1 / x0 :: r) :=
  runPure_cons_ok (ps_u32div x0 x1 r h0)

@[pure_exec] theorem rp_u32and (x0 x1 : Nat) (r : List Nat) (h1 : x1 < two32) (h0 : x0 < two32) (rest : List Op) :
    runPure (.u32and :: rest) (x0 :: x1 :: r) = runPure rest (padN 16 (Nat.land x1 x0 :: r)) :=
  runPure_cons_ok (ps_u32and x0 x1 r h1 h0)

@[pure_exec] theorem rp_u32xor (x0 x1 : Nat) (r : List Nat) (h1 : x1 < two32) (h0 : x0 < two32) (rest : List Op) :
    runPure (.u32xor :: rest) (x0 :: x1 :: r) = runPure rest (padN 16 (Nat.xor x1 x0 :: r)) :=
  runPure_cons_ok (ps_u32xor x0 x1 r h1 h0)

@[pure_exec] theorem rp_u32assert2 (x0 x1 : Nat) (c : Nat) (r : List Nat) (h0 : x0 < two32) (h1 : x1 < two32) (rest : List Op) :
    runPure ((.u32assert2 c) :: rest) (x0 :: x1 :: r) = runPure rest (x0 :: x1 :: r) :=
  runPure_cons_ok (ps_u32assert2 x0 x1 c r h0 h1)

@[pure_exec] theorem rp_not (x0 : Nat) (r : List Nat) (h0 : x0 ≤ 1) (rest : List Op) :
    runPure (.not :: rest) (x0 :: r) = runPure rest ((1 - x0) :: r) :=
  runPure_cons_ok (ps_not x0 r h0)

@[pure_exec] theorem rp_and (x0 x1 : Nat) (r : List Nat) (h1 : x1 ≤ 1) (h0 : x0 ≤ 1) (rest : List Op) :
    runPure (.and :: rest) (x0 :: x1 :: r) = runPure rest (padN 16 ((if x1 = 1 ∧ x0 = 1 then 1 else 0) :: r)) :=
  runPure_cons_ok (ps_and x0 x1 r h1 h0)

@[pure_exec] theorem rp_or (x0 x1 : Nat) (r : List Nat) (h1 : x1 ≤ 1) (h0 : x0 ≤ 1) (rest : List Op) :
    runPure (.or :: rest) (x0 :: x1 :: r) = runPure rest (padN 16 ((if x1 = 1 ∨ x0 = 1 then 1 else 0) :: r)) :=
  runPure_cons_ok (ps_or x0 x1 r h1 h0)

@[pure_exec] theorem rp_assert (x0 : Nat) (c : Nat) (r : List Nat) (h0 : x0 = 1) (rest : List Op) :
    runPure ((.assert c) :: rest) (x0 :: r) = runPure rest (padN 16 (r)) :=
  runPure_cons_ok (ps_assert x0 c r h0)

@[pure_exec] theorem rp_cswap0 (x0 x1 x2 : Nat) (r : List Nat) (h0 : x0 = 0) (rest : List Op) :
    runPure (.cswap :: rest) (x0 :: x1 :: x2 :: r) = runPure rest (padN 16 (x1 :: x2 :: r)) :=
  runPure_cons_ok (ps_cswap0 x0 x1 x2 r h0)

@[pure_exec] theorem rp_cswap1 (x0 x1 x2 : Nat) (r : List Nat) (h0 : x0 = 1) (rest : List Op) :
    runPure (.cswap :: rest) (x0 :: x1 :: x2 :: r) = runPure rest (padN 16 (x2 :: x1 :: r)) :=
  runPure_cons_ok (ps_cswap1 x0 x1 x2 r h0)

attribute [pure_exec] runPure_nil padN_cons padN_zero

end Miden
