/-
  Simp set used by the symbolic executor for straight-line stack code (`Lemmas/Pure.lean`):
  one rewrite rule per operation (`runPure (op :: rest) (x₀ :: … :: r) = runPure rest (…)`), and
  higher-priority fused rules for the operation sequences some instructions compile to
  (`u32rotr.k`, `u32shr.k`, `u32not`).
-/
import Lean
register_simp_attr pure_exec
