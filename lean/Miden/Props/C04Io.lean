/-
  C04 (continued) — operations whose values travel over a bus or come from the host (memory,
  advice, hasher, kernel): the stack AIR must still pin every cell they leave alone ("frame"
  theorems), for PIPE / MSTREAM also the pointer increment; plus EXT2MUL and CSWAPW.
  The CALLER / PIPE / MSTREAM statements became provable with /repo fixes 26b9d40 and d403189.
-/
import Miden.Lemmas.AirTac
namespace Miden.C04
open Miden Miden.Air
variable {F : Type} [Field F]

/-- EXT2MUL (25): the top two items stay, the next two become the product of the two quadratic
    extension elements (`x² = x − 2` arithmetic of the docs), the rest is unchanged. -/
theorem air_sound_ext2mul (cur nxt : Row F) (hop : cur.opcode = 25) (h : Holds cur nxt) :
    nxt.st 0 = cur.st 0 ∧ nxt.st 1 = cur.st 1 ∧
    nxt.st 2 = (cur.st 3 + cur.st 2) * (cur.st 0 + cur.st 1) - cur.st 3 * cur.st 1 ∧
    nxt.st 3 = cur.st 3 * cur.st 1 - 2 * cur.st 2 * cur.st 0 ∧ CopyFrom cur nxt 4 := by
  air_simp hop h
  exact ⟨hf.1, hf.2.1, hf.2.2.1, hf.2.2.2, by shift_tac⟩

/-- CSWAPW (43): condition binary, the two words below are exchanged exactly when it is 1, the rest
    moves up by one. -/
theorem air_sound_cswapw (cur nxt : Row F) (hop : cur.opcode = 43) (h : Holds cur nxt) :
    (cur.st 0 = 0 ∧ (∀ i, i < 8 → nxt.st i = cur.st (i + 1)) ∨
     cur.st 0 = 1 ∧ (∀ i, i < 4 → nxt.st i = cur.st (i + 5) ∧ nxt.st (i + 4) = cur.st (i + 1))) ∧
    LeftFrom cur nxt 9 := by
  air_simp hop h
  refine ⟨?_, by shift_tac⟩
  have hb := hg.2.2.2.2.2.2.2
  have : cur.st 0 * (cur.st 0 - 1) = 0 := by linear_combination hb
  obtain ⟨m0, m1, m2, m3, m4, m5, m6, m7⟩ := hm
  rcases mul_eq_zero.mp this with h0 | h1
  · left
    rw [h0] at m0 m1 m2 m3 m4 m5 m6 m7
    refine ⟨h0, ?_⟩
    intro i hi
    interval_cases i
    · linear_combination m0
    · linear_combination m1
    · linear_combination m2
    · linear_combination m3
    · linear_combination m4
    · linear_combination m5
    · linear_combination m6
    · linear_combination m7
  · right
    have h1' : cur.st 0 = 1 := by linear_combination h1
    rw [h1'] at m0 m1 m2 m3 m4 m5 m6 m7
    refine ⟨h1', ?_⟩
    intro i hi
    interval_cases i
    · exact ⟨by linear_combination m0, by linear_combination m4⟩
    · exact ⟨by linear_combination m1, by linear_combination m5⟩
    · exact ⟨by linear_combination m2, by linear_combination m6⟩
    · exact ⟨by linear_combination m3, by linear_combination m7⟩

theorem air_frame_mload (cur nxt : Row F) (hop : cur.opcode = 7) (h : Holds cur nxt) : CopyFrom cur nxt 1 := by
  air_simp hop h
  shift_tac

theorem air_frame_caller (cur nxt : Row F) (hop : cur.opcode = 9) (h : Holds cur nxt) : CopyFrom cur nxt 4 := by
  air_simp hop h
  shift_tac

theorem air_frame_advpopw (cur nxt : Row F) (hop : cur.opcode = 14) (h : Holds cur nxt) : CopyFrom cur nxt 4 := by
  air_simp hop h
  shift_tac

theorem air_frame_u32and (cur nxt : Row F) (hop : cur.opcode = 38) (h : Holds cur nxt) : LeftFrom cur nxt 2 := by
  air_simp hop h
  shift_tac

theorem air_frame_u32xor (cur nxt : Row F) (hop : cur.opcode = 39) (h : Holds cur nxt) : LeftFrom cur nxt 2 := by
  air_simp hop h
  shift_tac

theorem air_frame_mloadw (cur nxt : Row F) (hop : cur.opcode = 44) (h : Holds cur nxt) : LeftFrom cur nxt 5 := by
  air_simp hop h
  shift_tac

theorem air_frame_mstore (cur nxt : Row F) (hop : cur.opcode = 45) (h : Holds cur nxt) : LeftFrom cur nxt 1 := by
  air_simp hop h
  shift_tac

theorem air_frame_mstorew (cur nxt : Row F) (hop : cur.opcode = 46) (h : Holds cur nxt) : LeftFrom cur nxt 1 := by
  air_simp hop h
  shift_tac

theorem air_frame_hperm (cur nxt : Row F) (hop : cur.opcode = 80) (h : Holds cur nxt) : CopyFrom cur nxt 12 := by
  air_simp hop h
  shift_tac

theorem air_frame_mpverify (cur nxt : Row F) (hop : cur.opcode = 81) (h : Holds cur nxt) : CopyFrom cur nxt 0 := by
  air_simp hop h
  shift_tac

theorem air_frame_mrupdate (cur nxt : Row F) (hop : cur.opcode = 96) (h : Holds cur nxt) : CopyFrom cur nxt 4 := by
  air_simp hop h
  shift_tac

theorem air_frame_pipe (cur nxt : Row F) (hop : cur.opcode = 82) (h : Holds cur nxt) :
    CopyFrom cur nxt 13 ∧ (∀ i, 8 ≤ i → i < 12 → nxt.st i = cur.st i) ∧ nxt.st 12 = cur.st 12 + 2 := by
  air_simp hop h
  refine ⟨by shift_tac, ?_, ?_⟩
  · intro i h1 h2
    interval_cases i <;> simp_all
  · simp_all

theorem air_frame_mstream (cur nxt : Row F) (hop : cur.opcode = 83) (h : Holds cur nxt) :
    CopyFrom cur nxt 13 ∧ (∀ i, 8 ≤ i → i < 12 → nxt.st i = cur.st i) ∧ nxt.st 12 = cur.st 12 + 2 := by
  air_simp hop h
  refine ⟨by shift_tac, ?_, ?_⟩
  · intro i h1 h2
    interval_cases i <;> simp_all
  · simp_all
end Miden.C04
