/-
  Completeness of the stack AIR on honest rows: operations that can fail, and operations whose
  results come from memory, the advice provider or the hasher (the stack AIR pins the cells they leave
  alone; see `Props/C03Air.lean`).
-/
import Miden.Lemmas.HonestAir2
namespace Miden.C03
open Miden Miden.Air Miden.Vm

set_option maxHeartbeats 1000000 in
theorem honest_push (v : Nat) (vm vm' : Vm) (hl : 16 ≤ vm.stack.length) (h : vm.step (.push v) = .ok vm') :
    HonestHolds vm vm' (.push v) := by honest_tac

set_option maxHeartbeats 1000000 in
theorem honest_assert (code : Nat) (vm vm' : Vm) (hl : 16 ≤ vm.stack.length) (h : vm.step (.assert code) = .ok vm') :
    HonestHolds vm vm' (.assert code) := by honest_tac_split

set_option maxHeartbeats 1000000 in
theorem honest_fmpupdate (vm vm' : Vm) (hl : 16 ≤ vm.stack.length) (h : vm.step .fmpupdate = .ok vm') :
    HonestHolds vm vm' .fmpupdate := by honest_tac_split

set_option maxHeartbeats 1000000 in
theorem honest_advpop (vm vm' : Vm) (hl : 16 ≤ vm.stack.length) (h : vm.step .advpop = .ok vm') :
    HonestHolds vm vm' .advpop := by honest_tac_split

set_option maxHeartbeats 1000000 in
theorem honest_caller (vm vm' : Vm) (hl : 16 ≤ vm.stack.length) (h : vm.step .caller = .ok vm') :
    HonestHolds vm vm' .caller := by honest_tac_split

set_option maxHeartbeats 1000000 in
theorem honest_mload (vm vm' : Vm) (hl : 16 ≤ vm.stack.length) (h : vm.step .mload = .ok vm') :
    HonestHolds vm vm' .mload := by honest_tac_addr x0

set_option maxHeartbeats 1000000 in
theorem honest_mloadw (vm vm' : Vm) (hl : 16 ≤ vm.stack.length) (h : vm.step .mloadw = .ok vm') :
    HonestHolds vm vm' .mloadw := by honest_tac_addr x0

end Miden.C03
