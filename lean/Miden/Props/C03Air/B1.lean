/-
  Completeness of the stack AIR on honest rows: operations that can fail or whose result is not a
  polynomial of the operands (see `Props/C03Air.lean`).
-/
import Miden.Lemmas.HonestAir2
namespace Miden.C03
open Miden Miden.Air Miden.Vm

theorem honest_push (v : Nat) (vm vm' : Vm) (hl : 16 ≤ vm.stack.length) (h : vm.step (.push v) = .ok vm') :
    HonestHolds vm vm' (.push v) := by honest_tac

theorem honest_assert (code : Nat) (vm vm' : Vm) (hl : 16 ≤ vm.stack.length) (h : vm.step (.assert code) = .ok vm') :
    HonestHolds vm vm' (.assert code) := by honest_tac_split

theorem honest_fmpupdate (vm vm' : Vm) (hl : 16 ≤ vm.stack.length) (h : vm.step .fmpupdate = .ok vm') :
    HonestHolds vm vm' .fmpupdate := by honest_tac_split

theorem honest_advpop (vm vm' : Vm) (hl : 16 ≤ vm.stack.length) (h : vm.step .advpop = .ok vm') :
    HonestHolds vm vm' .advpop := by honest_tac_split

theorem honest_advpopw (vm vm' : Vm) (hl : 16 ≤ vm.stack.length) (h : vm.step .advpopw = .ok vm') :
    HonestHolds vm vm' .advpopw := by honest_tac_split

theorem honest_mload (vm vm' : Vm) (hl : 16 ≤ vm.stack.length) (h : vm.step .mload = .ok vm') :
    HonestHolds vm vm' .mload := by honest_tac_split

theorem honest_mloadw (vm vm' : Vm) (hl : 16 ≤ vm.stack.length) (h : vm.step .mloadw = .ok vm') :
    HonestHolds vm vm' .mloadw := by honest_tac_split

theorem honest_mstore (vm vm' : Vm) (hl : 16 ≤ vm.stack.length) (h : vm.step .mstore = .ok vm') :
    HonestHolds vm vm' .mstore := by honest_tac_split

theorem honest_mstorew (vm vm' : Vm) (hl : 16 ≤ vm.stack.length) (h : vm.step .mstorew = .ok vm') :
    HonestHolds vm vm' .mstorew := by honest_tac_split

end Miden.C03
