/-
  Completeness of the stack AIR on honest rows: operations on binary operands (AND, OR, NOT, CSWAP,
  CSWAPW).  The failing branches of the operation contradict the hypothesis that it succeeded.
-/
import Miden.Lemmas.HonestAir2
namespace Miden.C03
open Miden Miden.Air Miden.Vm

set_option maxHeartbeats 1000000 in
theorem honest_and (vm vm' : Vm) (hl : 16 ≤ vm.stack.length) (h : vm.step .and = .ok vm') :
    HonestHolds vm vm' .and := by
  honest_intro
  split at hcore
  · cases hcore
  · split at hcore
    · cases hcore
    · rename_i hb0 ha0
      cases hcore
      have e0 : x0 = 0 ∨ x0 = 1 := by omega
      have e1 : x1 = 0 ∨ x1 = 1 := by omega
      rcases e0 with rfl | rfl <;> rcases e1 with rfl | rfl <;> rcases t with _ | ⟨t0, t⟩ <;>
        honest_simp <;> honest_close

set_option maxHeartbeats 1000000 in
theorem honest_or (vm vm' : Vm) (hl : 16 ≤ vm.stack.length) (h : vm.step .or = .ok vm') :
    HonestHolds vm vm' .or := by
  honest_intro
  split at hcore
  · cases hcore
  · split at hcore
    · cases hcore
    · rename_i hb0 ha0
      cases hcore
      have e0 : x0 = 0 ∨ x0 = 1 := by omega
      have e1 : x1 = 0 ∨ x1 = 1 := by omega
      rcases e0 with rfl | rfl <;> rcases e1 with rfl | rfl <;> rcases t with _ | ⟨t0, t⟩ <;>
        honest_simp <;> honest_close

set_option maxHeartbeats 1000000 in
theorem honest_not (vm vm' : Vm) (hl : 16 ≤ vm.stack.length) (h : vm.step .not = .ok vm') :
    HonestHolds vm vm' .not := by
  honest_intro
  split at hcore
  · cases hcore
  · rename_i ha0
    cases hcore
    have e0 : x0 = 0 ∨ x0 = 1 := by omega
    rcases e0 with rfl | rfl <;> rcases t with _ | ⟨t0, t⟩ <;> honest_simp <;> honest_close

set_option maxHeartbeats 1000000 in
theorem honest_cswap (vm vm' : Vm) (hl : 16 ≤ vm.stack.length) (h : vm.step .cswap = .ok vm') :
    HonestHolds vm vm' .cswap := by
  honest_intro
  split at hcore
  · rename_i hc0; subst hc0; cases hcore
    rcases t with _ | ⟨t0, t⟩ <;> honest_simp <;> honest_close
  · split at hcore
    · rename_i _ hc1; subst hc1; cases hcore
      rcases t with _ | ⟨t0, t⟩ <;> honest_simp <;> honest_close
    · cases hcore

set_option maxHeartbeats 1000000 in
theorem honest_cswapw (vm vm' : Vm) (hl : 16 ≤ vm.stack.length) (h : vm.step .cswapw = .ok vm') :
    HonestHolds vm vm' .cswapw := by
  honest_intro
  split at hcore
  · rename_i hc0; subst hc0; cases hcore
    rcases t with _ | ⟨t0, t⟩ <;> honest_simp <;> honest_close
  · split at hcore
    · rename_i _ hc1; subst hc1; cases hcore
      rcases t with _ | ⟨t0, t⟩ <;> honest_simp <;> honest_close
    · cases hcore

end Miden.C03
