/-
  Completeness of the stack AIR on honest rows: operations on binary operands (AND, OR, NOT, CSWAP,
  CSWAPW).  The failing branches of the operation contradict the hypothesis that it succeeded.
-/
import Miden.Lemmas.HonestAir2
namespace Miden.C03
open Miden Miden.Air Miden.Vm

theorem honest_and (vm vm' : Vm) (hl : 16 ≤ vm.stack.length) (h : vm.step .and = .ok vm') :
    HonestHolds vm vm' .and := by
  intro b1 b1' h0 h0' opn hlpn hh hb
  obtain ⟨x0, x1, x2, x3, x4, x5, x6, x7, x8, x9, x10, x11, x12, x13, x14, x15, t, hs⟩ := split16 _ hl
  simp only [step, stepCore, hs] at h
  split at h
  · cases h
  · split at h
    · cases h
    · rename_i hb0 ha0
      cases h
      have e0 : x0 = 0 ∨ x0 = 1 := by omega
      have e1 : x1 = 0 ∨ x1 = 1 := by omega
      rcases e0 with rfl | rfl <;> rcases e1 with rfl | rfl <;> rcases t with _ | ⟨t0, t⟩ <;>
        honest_simp <;> honest_close

theorem honest_or (vm vm' : Vm) (hl : 16 ≤ vm.stack.length) (h : vm.step .or = .ok vm') :
    HonestHolds vm vm' .or := by
  intro b1 b1' h0 h0' opn hlpn hh hb
  obtain ⟨x0, x1, x2, x3, x4, x5, x6, x7, x8, x9, x10, x11, x12, x13, x14, x15, t, hs⟩ := split16 _ hl
  simp only [step, stepCore, hs] at h
  split at h
  · cases h
  · split at h
    · cases h
    · rename_i hb0 ha0
      cases h
      have e0 : x0 = 0 ∨ x0 = 1 := by omega
      have e1 : x1 = 0 ∨ x1 = 1 := by omega
      rcases e0 with rfl | rfl <;> rcases e1 with rfl | rfl <;> rcases t with _ | ⟨t0, t⟩ <;>
        honest_simp <;> honest_close

theorem honest_not (vm vm' : Vm) (hl : 16 ≤ vm.stack.length) (h : vm.step .not = .ok vm') :
    HonestHolds vm vm' .not := by
  intro b1 b1' h0 h0' opn hlpn hh hb
  obtain ⟨x0, x1, x2, x3, x4, x5, x6, x7, x8, x9, x10, x11, x12, x13, x14, x15, t, hs⟩ := split16 _ hl
  simp only [step, stepCore, hs] at h
  split at h
  · cases h
  · rename_i ha0
    cases h
    have e0 : x0 = 0 ∨ x0 = 1 := by omega
    rcases e0 with rfl | rfl <;> rcases t with _ | ⟨t0, t⟩ <;> honest_simp <;> honest_close

theorem honest_cswap (vm vm' : Vm) (hl : 16 ≤ vm.stack.length) (h : vm.step .cswap = .ok vm') :
    HonestHolds vm vm' .cswap := by
  intro b1 b1' h0 h0' opn hlpn hh hb
  obtain ⟨x0, x1, x2, x3, x4, x5, x6, x7, x8, x9, x10, x11, x12, x13, x14, x15, t, hs⟩ := split16 _ hl
  simp only [step, stepCore, hs] at h
  split at h
  · rename_i hc; subst hc; cases h
    rcases t with _ | ⟨t0, t⟩ <;> honest_simp <;> honest_close
  · split at h
    · rename_i _ hc; subst hc; cases h
      rcases t with _ | ⟨t0, t⟩ <;> honest_simp <;> honest_close
    · cases h

theorem honest_cswapw (vm vm' : Vm) (hl : 16 ≤ vm.stack.length) (h : vm.step .cswapw = .ok vm') :
    HonestHolds vm vm' .cswapw := by
  intro b1 b1' h0 h0' opn hlpn hh hb
  obtain ⟨x0, x1, x2, x3, x4, x5, x6, x7, x8, x9, x10, x11, x12, x13, x14, x15, t, hs⟩ := split16 _ hl
  simp only [step, stepCore, hs] at h
  split at h
  · rename_i hc; subst hc; cases h
    rcases t with _ | ⟨t0, t⟩ <;> honest_simp <;> honest_close
  · split at h
    · rename_i _ hc; subst hc; cases h
      rcases t with _ | ⟨t0, t⟩ <;> honest_simp <;> honest_close
    · cases h

end Miden.C03
