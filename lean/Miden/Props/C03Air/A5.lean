/-
  Completeness of the stack AIR on honest rows, one theorem per operation (see `Props/C03Air.lean`).
  Statements follow one template; written by tools/gen_c03air.py at development time.
-/
import Miden.Lemmas.HonestAir
namespace Miden.C03
open Miden Miden.Air Miden.Vm

theorem honest_neg (vm vm' : Vm) (hl : 16 ≤ vm.stack.length) (h : vm.step .neg = .ok vm') :
    HonestHolds vm vm' .neg := by honest_tac

theorem honest_dup0 (vm vm' : Vm) (hl : 16 ≤ vm.stack.length) (h : vm.step .dup0 = .ok vm') :
    HonestHolds vm vm' .dup0 := by honest_tac

theorem honest_dup6 (vm vm' : Vm) (hl : 16 ≤ vm.stack.length) (h : vm.step .dup6 = .ok vm') :
    HonestHolds vm vm' .dup6 := by honest_tac

theorem honest_swap (vm vm' : Vm) (hl : 16 ≤ vm.stack.length) (h : vm.step .swap = .ok vm') :
    HonestHolds vm vm' .swap := by honest_tac

theorem honest_movup3 (vm vm' : Vm) (hl : 16 ≤ vm.stack.length) (h : vm.step .movup3 = .ok vm') :
    HonestHolds vm vm' .movup3 := by honest_tac

theorem honest_movdn2 (vm vm' : Vm) (hl : 16 ≤ vm.stack.length) (h : vm.step .movdn2 = .ok vm') :
    HonestHolds vm vm' .movdn2 := by honest_tac

theorem honest_movdn8 (vm vm' : Vm) (hl : 16 ≤ vm.stack.length) (h : vm.step .movdn8 = .ok vm') :
    HonestHolds vm vm' .movdn8 := by honest_tac

end Miden.C03
