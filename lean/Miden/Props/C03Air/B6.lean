/-
  Completeness of the stack AIR on honest rows: u32 operations whose helper registers carry 16-bit
  limbs (U32ADD, U32ADD3, U32ASSERT2, U32DIV) and ADVPOPW.  The limb identities are proved over the
  natural numbers (`omega`) and cast into `ZMod P`.  U32ADD / U32ADD3 need their operands to be u32
  values: on other operands the operations execute but the row is not provable (known finding of C03).
-/
import Miden.Lemmas.HonestAir2
namespace Miden.C03
open Miden Miden.Air Miden.Vm
attribute [local irreducible] finv fpow fpowAux

/-- A value is the recombination of its two 16-bit limbs. -/
theorem limb_eq (v : Nat) : (65536 : FP) * ((v / 65536 : Nat) : FP) + ((v % 65536 : Nat) : FP) = (v : FP) := by
  have h : 65536 * (v / 65536) + v % 65536 = v := Nat.div_add_mod v 65536
  have := congrArg (Nat.cast : ℕ → FP) h
  push_cast at this
  exact this

set_option hygiene false in
macro "u32_close" : tactic => `(tactic| (
  (repeat' apply And.intro) <;>
    first
      | done
      | ring1
      | linear_combination key
      | linear_combination (-1 : FP) * key
      | linear_combination key2
      | linear_combination (-1 : FP) * key2
      | linear_combination key3
      | linear_combination (-1 : FP) * key3
      | linear_combination hh
      | linear_combination (-1 : FP) * hh
      | (left; linear_combination hh)
      | (left; linear_combination (-1 : FP) * hh)))

theorem u32add3_key (x0 x1 x2 : Nat) (h0 : x0 < 4294967296) (h1 : x1 < 4294967296) (h2 : x2 < 4294967296) :
    (x0 : FP) + (x1 : FP) + (x2 : FP) =
      4294967296 * ((splitHi ((x2 + x1 + x0) % two64 % P) % 65536 : Nat) : FP)
        + ((splitLo ((x2 + x1 + x0) % two64 % P) : Nat) : FP) := by
  have hn : x0 + x1 + x2 = 4294967296 * (splitHi ((x2 + x1 + x0) % two64 % P) % 65536)
      + splitLo ((x2 + x1 + x0) % two64 % P) := by
    simp only [splitHi, splitLo, two32, two64, P]; omega
  have := congrArg (Nat.cast : ℕ → FP) hn
  push_cast at this
  exact this

theorem u32add_key (x0 x1 : Nat) (h0 : x0 < 4294967296) (h1 : x1 < 4294967296) :
    (x0 : FP) + (x1 : FP) = 4294967296 * ((splitHi (fadd x1 x0) % 65536 : Nat) : FP) + ((splitLo (fadd x1 x0) : Nat) : FP) := by
  have hn : x0 + x1 = 4294967296 * (splitHi (fadd x1 x0) % 65536) + splitLo (fadd x1 x0) := by
    simp only [splitHi, splitLo, fadd, two32, P]; omega
  have := congrArg (Nat.cast : ℕ → FP) hn
  push_cast at this
  exact this

set_option maxHeartbeats 1000000 in
theorem honest_u32add (vm vm' : Vm) (hl : 16 ≤ vm.stack.length)
    (hu : vm.stack.getD 0 0 < two32 ∧ vm.stack.getD 1 0 < two32)
    (h : vm.step .u32add = .ok vm') : HonestHolds vm vm' .u32add := by
  honest_intro
  cases hcore
  rw [hs] at hu
  simp only [List.getD_cons_zero, List.getD_cons_succ, two32] at hu
  obtain ⟨hu0, hu1⟩ := hu
  have key := u32add_key x0 x1 hu0 hu1
  have key2 := key
  have key3 := key
  rcases t with _ | ⟨u0, t⟩ <;>
    honest_simp_with [two16, two32, two48, limbs16, vLo, vHi, v48, v64, limb_eq] <;> u32_close

set_option maxHeartbeats 1000000 in
theorem honest_u32add3 (vm vm' : Vm) (hl : 16 ≤ vm.stack.length)
    (hu : vm.stack.getD 0 0 < two32 ∧ vm.stack.getD 1 0 < two32 ∧ vm.stack.getD 2 0 < two32)
    (h : vm.step .u32add3 = .ok vm') : HonestHolds vm vm' .u32add3 := by
  honest_intro
  cases hcore
  rw [hs] at hu
  simp only [List.getD_cons_zero, List.getD_cons_succ, two32] at hu
  obtain ⟨hu0, hu1, hu2⟩ := hu
  have key := u32add3_key x0 x1 x2 hu0 hu1 hu2
  have key2 := key
  have key3 := key
  rcases t with _ | ⟨u0, t⟩ <;>
    honest_simp_with [two16, two32, two48, limbs16, vLo, vHi, v48, v64, limb_eq] <;> u32_close

set_option maxHeartbeats 1000000 in
theorem honest_u32assert2 (code : Nat) (vm vm' : Vm) (hl : 16 ≤ vm.stack.length)
    (h : vm.step (.u32assert2 code) = .ok vm') : HonestHolds vm vm' (.u32assert2 code) := by
  honest_intro
  split at hcore
  · cases hcore
  · split at hcore
    · cases hcore
    · cases hcore
      have key : (0 : FP) = 0 := rfl
      have key2 := key
      have key3 := key
      rcases t with _ | ⟨u0, t⟩ <;>
        honest_simp_with [two16, two32, two48, limbs16, vLo, vHi, v48, v64, limb_eq] <;> u32_close

set_option maxHeartbeats 1000000 in
theorem honest_u32div (vm vm' : Vm) (hl : 16 ≤ vm.stack.length)
    (h : vm.step .u32div = .ok vm') : HonestHolds vm vm' .u32div := by
  honest_intro
  split at hcore
  · cases hcore
  · rename_i hb0
    cases hcore
    have key : (x0 : FP) * ((x1 / x0 : Nat) : FP) + ((x1 % x0 : Nat) : FP) = (x1 : FP) := by
      have := congrArg (Nat.cast : ℕ → FP) (Nat.div_add_mod x1 x0)
      push_cast at this
      exact this
    have key2 : ((x1 - x1 / x0 : Nat) : FP) = (x1 : FP) - ((x1 / x0 : Nat) : FP) :=
      Nat.cast_sub (Nat.div_le_self x1 x0)
    have key3 : ((x0 - x1 % x0 - 1 : Nat) : FP) + 1 = (x0 : FP) - ((x1 % x0 : Nat) : FP) := by
      have hr : x1 % x0 < x0 := Nat.mod_lt x1 (Nat.pos_of_ne_zero hb0)
      have hn : (x0 - x1 % x0 - 1) + 1 + x1 % x0 = x0 := by omega
      have := congrArg (Nat.cast : ℕ → FP) hn
      push_cast at this
      linear_combination this
    rcases t with _ | ⟨u0, t⟩ <;>
      honest_simp_with [two16, two32, two48, limbs16, vLo, vHi, v48, v64, limb_eq] <;> u32_close
set_option maxHeartbeats 1000000 in
theorem honest_advpopw (vm vm' : Vm) (hl : 16 ≤ vm.stack.length) (h : vm.step .advpopw = .ok vm') :
    HonestHolds vm vm' .advpopw := by
  intro b1 b1' h0 h0' opn hlpn hh hb
  obtain ⟨x0, x1, x2, x3, x4, x5, x6, x7, x8, x9, x10, x11, x12, x13, x14, x15, t, hs⟩ := split16 _ hl
  obtain ⟨r, hcore, rfl⟩ := step_ok h
  rcases hadv : vm.adv with _ | ⟨t0, _ | ⟨t1, _ | ⟨t2, _ | ⟨t3, rest⟩⟩⟩⟩ <;>
    simp only [stepCore, hs, hadv] at hcore <;> cases hcore
  rcases t with _ | ⟨u0, t⟩ <;> honest_simp <;> honest_close
end Miden.C03
