/-
  Completeness of the stack AIR on honest rows: operations that can fail or whose result is not a
  polynomial of the operands (see `Props/C03Air.lean`).
-/
import Miden.Lemmas.HonestAir2
namespace Miden.C03
open Miden Miden.Air Miden.Vm

theorem honest_mstream (vm vm' : Vm) (hl : 16 ≤ vm.stack.length) (h : vm.step .mstream = .ok vm') :
    HonestHolds vm vm' .mstream := by honest_tac_split

theorem honest_pipe (vm vm' : Vm) (hl : 16 ≤ vm.stack.length) (h : vm.step .pipe = .ok vm') :
    HonestHolds vm vm' .pipe := by honest_tac_split

theorem honest_caller (vm vm' : Vm) (hl : 16 ≤ vm.stack.length) (h : vm.step .caller = .ok vm') :
    HonestHolds vm vm' .caller := by honest_tac_split

theorem honest_u32and (vm vm' : Vm) (hl : 16 ≤ vm.stack.length) (h : vm.step .u32and = .ok vm') :
    HonestHolds vm vm' .u32and := by honest_tac_split

theorem honest_u32xor (vm vm' : Vm) (hl : 16 ≤ vm.stack.length) (h : vm.step .u32xor = .ok vm') :
    HonestHolds vm vm' .u32xor := by honest_tac_split

theorem honest_mpverify (vm vm' : Vm) (hl : 16 ≤ vm.stack.length) (h : vm.step .mpverify = .ok vm') :
    HonestHolds vm vm' .mpverify := by honest_tac_split

theorem honest_mrupdate (vm vm' : Vm) (hl : 16 ≤ vm.stack.length) (h : vm.step .mrupdate = .ok vm') :
    HonestHolds vm vm' .mrupdate := by honest_tac_split

end Miden.C03
