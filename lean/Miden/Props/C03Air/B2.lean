/-
  Completeness of the stack AIR on honest rows: operations that can fail, and operations whose
  results come from memory, the advice provider or the hasher (the stack AIR pins the cells they leave
  alone; see `Props/C03Air.lean`).
-/
import Miden.Lemmas.HonestAir2
namespace Miden.C03
open Miden Miden.Air Miden.Vm

set_option maxHeartbeats 1000000 in
theorem honest_mstore (vm vm' : Vm) (hl : 16 ≤ vm.stack.length) (h : vm.step .mstore = .ok vm') :
    HonestHolds vm vm' .mstore := by honest_tac_addr x0

set_option maxHeartbeats 1000000 in
theorem honest_mstorew (vm vm' : Vm) (hl : 16 ≤ vm.stack.length) (h : vm.step .mstorew = .ok vm') :
    HonestHolds vm vm' .mstorew := by honest_tac_addr x0

set_option maxHeartbeats 1000000 in
theorem honest_mstream (vm vm' : Vm) (hl : 16 ≤ vm.stack.length) (h : vm.step .mstream = .ok vm') :
    HonestHolds vm vm' .mstream := by honest_tac_addr x12

set_option maxHeartbeats 1000000 in
theorem honest_pipe (vm vm' : Vm) (hl : 16 ≤ vm.stack.length) (h : vm.step .pipe = .ok vm') :
    HonestHolds vm vm' .pipe := by honest_tac_addr x12

end Miden.C03
