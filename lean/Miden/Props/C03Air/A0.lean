/-
  Completeness of the stack AIR on honest rows, one theorem per operation (see `Props/C03Air.lean`).
  Statements follow one template; written by tools/gen_c03air.py at development time.
-/
import Miden.Lemmas.HonestAir
namespace Miden.C03
open Miden Miden.Air Miden.Vm

theorem honest_noop (vm vm' : Vm) (hl : 16 ≤ vm.stack.length) (h : vm.step .noop = .ok vm') :
    HonestHolds vm vm' .noop := by honest_tac

theorem honest_mul (vm vm' : Vm) (hl : 16 ≤ vm.stack.length) (h : vm.step .mul = .ok vm') :
    HonestHolds vm vm' .mul := by honest_tac

theorem honest_dup1 (vm vm' : Vm) (hl : 16 ≤ vm.stack.length) (h : vm.step .dup1 = .ok vm') :
    HonestHolds vm vm' .dup1 := by honest_tac

theorem honest_dup7 (vm vm' : Vm) (hl : 16 ≤ vm.stack.length) (h : vm.step .dup7 = .ok vm') :
    HonestHolds vm vm' .dup7 := by honest_tac

theorem honest_swapw (vm vm' : Vm) (hl : 16 ≤ vm.stack.length) (h : vm.step .swapw = .ok vm') :
    HonestHolds vm vm' .swapw := by honest_tac

theorem honest_movup4 (vm vm' : Vm) (hl : 16 ≤ vm.stack.length) (h : vm.step .movup4 = .ok vm') :
    HonestHolds vm vm' .movup4 := by honest_tac

theorem honest_movdn3 (vm vm' : Vm) (hl : 16 ≤ vm.stack.length) (h : vm.step .movdn3 = .ok vm') :
    HonestHolds vm vm' .movdn3 := by honest_tac

end Miden.C03
