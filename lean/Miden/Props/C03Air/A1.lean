/-
  Completeness of the stack AIR on honest rows, one theorem per operation (see `Props/C03Air.lean`).
  Statements follow one template; written by tools/gen_c03air.py at development time.
-/
import Miden.Lemmas.HonestAir
namespace Miden.C03
open Miden Miden.Air Miden.Vm

theorem honest_fmpadd (vm vm' : Vm) (hl : 16 ≤ vm.stack.length) (h : vm.step .fmpadd = .ok vm') :
    HonestHolds vm vm' .fmpadd := by honest_tac

theorem honest_incr (vm vm' : Vm) (hl : 16 ≤ vm.stack.length) (h : vm.step .incr = .ok vm') :
    HonestHolds vm vm' .incr := by honest_tac

theorem honest_dup2 (vm vm' : Vm) (hl : 16 ≤ vm.stack.length) (h : vm.step .dup2 = .ok vm') :
    HonestHolds vm vm' .dup2 := by honest_tac

theorem honest_dup9 (vm vm' : Vm) (hl : 16 ≤ vm.stack.length) (h : vm.step .dup9 = .ok vm') :
    HonestHolds vm vm' .dup9 := by honest_tac

theorem honest_swapw2 (vm vm' : Vm) (hl : 16 ≤ vm.stack.length) (h : vm.step .swapw2 = .ok vm') :
    HonestHolds vm vm' .swapw2 := by honest_tac

theorem honest_movup5 (vm vm' : Vm) (hl : 16 ≤ vm.stack.length) (h : vm.step .movup5 = .ok vm') :
    HonestHolds vm vm' .movup5 := by honest_tac

theorem honest_movdn4 (vm vm' : Vm) (hl : 16 ≤ vm.stack.length) (h : vm.step .movdn4 = .ok vm') :
    HonestHolds vm vm' .movdn4 := by honest_tac

end Miden.C03
