/-
  Completeness of the stack AIR on honest rows, one theorem per operation (see `Props/C03Air.lean`).
  Statements follow one template; written by tools/gen_c03air.py at development time.
-/
import Miden.Lemmas.HonestAir
namespace Miden.C03
open Miden Miden.Air Miden.Vm

theorem honest_clk (vm vm' : Vm) (hl : 16 ≤ vm.stack.length) (h : vm.step .clk = .ok vm') :
    HonestHolds vm vm' .clk := by honest_tac

theorem honest_pad (vm vm' : Vm) (hl : 16 ≤ vm.stack.length) (h : vm.step .pad = .ok vm') :
    HonestHolds vm vm' .pad := by honest_tac

theorem honest_dup4 (vm vm' : Vm) (hl : 16 ≤ vm.stack.length) (h : vm.step .dup4 = .ok vm') :
    HonestHolds vm vm' .dup4 := by honest_tac

theorem honest_dup13 (vm vm' : Vm) (hl : 16 ≤ vm.stack.length) (h : vm.step .dup13 = .ok vm') :
    HonestHolds vm vm' .dup13 := by honest_tac

theorem honest_swapdw (vm vm' : Vm) (hl : 16 ≤ vm.stack.length) (h : vm.step .swapdw = .ok vm') :
    HonestHolds vm vm' .swapdw := by honest_tac

theorem honest_movup7 (vm vm' : Vm) (hl : 16 ≤ vm.stack.length) (h : vm.step .movup7 = .ok vm') :
    HonestHolds vm vm' .movup7 := by honest_tac

theorem honest_movdn6 (vm vm' : Vm) (hl : 16 ≤ vm.stack.length) (h : vm.step .movdn6 = .ok vm') :
    HonestHolds vm vm' .movdn6 := by honest_tac

end Miden.C03
