/-
  Completeness of the stack AIR on honest rows, one theorem per operation (see `Props/C03Air.lean`).
  Statements follow one template; written by tools/gen_c03air.py at development time.
-/
import Miden.Lemmas.HonestAir
namespace Miden.C03
open Miden Miden.Air Miden.Vm

theorem honest_sdepth (vm vm' : Vm) (hl : 16 ≤ vm.stack.length) (h : vm.step .sdepth = .ok vm') :
    HonestHolds vm vm' .sdepth := by honest_tac

theorem honest_ext2mul (vm vm' : Vm) (hl : 16 ≤ vm.stack.length) (h : vm.step .ext2mul = .ok vm') :
    HonestHolds vm vm' .ext2mul := by honest_tac

theorem honest_dup3 (vm vm' : Vm) (hl : 16 ≤ vm.stack.length) (h : vm.step .dup3 = .ok vm') :
    HonestHolds vm vm' .dup3 := by honest_tac

theorem honest_dup11 (vm vm' : Vm) (hl : 16 ≤ vm.stack.length) (h : vm.step .dup11 = .ok vm') :
    HonestHolds vm vm' .dup11 := by honest_tac

theorem honest_swapw3 (vm vm' : Vm) (hl : 16 ≤ vm.stack.length) (h : vm.step .swapw3 = .ok vm') :
    HonestHolds vm vm' .swapw3 := by honest_tac

theorem honest_movup6 (vm vm' : Vm) (hl : 16 ≤ vm.stack.length) (h : vm.step .movup6 = .ok vm') :
    HonestHolds vm vm' .movup6 := by honest_tac

theorem honest_movdn5 (vm vm' : Vm) (hl : 16 ≤ vm.stack.length) (h : vm.step .movdn5 = .ok vm') :
    HonestHolds vm vm' .movdn5 := by honest_tac

end Miden.C03
