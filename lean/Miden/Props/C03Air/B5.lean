/-
  Completeness of the stack AIR on honest rows: operations that can fail, and operations whose
  results come from memory, the advice provider or the hasher (the stack AIR pins the cells they leave
  alone; see `Props/C03Air.lean`).
-/
import Miden.Lemmas.HonestAir2
namespace Miden.C03
open Miden Miden.Air Miden.Vm

set_option maxHeartbeats 1000000 in
theorem honest_u32and (vm vm' : Vm) (hl : 16 ≤ vm.stack.length) (h : vm.step .u32and = .ok vm') :
    HonestHolds vm vm' .u32and := by honest_tac_split

set_option maxHeartbeats 1000000 in
theorem honest_u32xor (vm vm' : Vm) (hl : 16 ≤ vm.stack.length) (h : vm.step .u32xor = .ok vm') :
    HonestHolds vm vm' .u32xor := by honest_tac_split

set_option maxHeartbeats 1000000 in
theorem honest_mpverify (vm vm' : Vm) (hl : 16 ≤ vm.stack.length) (h : vm.step .mpverify = .ok vm') :
    HonestHolds vm vm' .mpverify := by honest_tac_split

set_option maxHeartbeats 1000000 in
theorem honest_mrupdate (vm vm' : Vm) (hl : 16 ≤ vm.stack.length) (h : vm.step .mrupdate = .ok vm') :
    HonestHolds vm vm' .mrupdate := by honest_tac_split

end Miden.C03
