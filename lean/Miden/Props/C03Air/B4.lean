/-
  Completeness of the stack AIR on honest rows: INV, EQ, EQZ (the prover's helper register carries a
  field inverse, computed by the model's Fermat exponentiation) and EXPACC.
-/
import Miden.Lemmas.HonestAir2
namespace Miden.C03
open Miden Miden.Air Miden.Vm

attribute [local irreducible] finv fpow fpowAux

set_option maxHeartbeats 1000000 in
theorem honest_inv (vm vm' : Vm) (hl : 16 ≤ vm.stack.length) (hc : Canon vm)
    (h : vm.step .inv = .ok vm') : HonestHolds vm vm' .inv := by
  honest_intro
  have hx0 : x0 < P := by apply hc; rw [hs]; simp
  split at hcore
  · cases hcore
  · rename_i hne0
    cases hcore
    have hne : (x0 : FP) ≠ 0 := cast_ne_zero x0 hx0 hne0
    rcases t with _ | ⟨t0, t⟩ <;>
      honest_simp_with [cast_finv _ hne, mul_inv_cancel₀ hne] <;> honest_close

set_option maxHeartbeats 1000000 in
theorem honest_eqz (vm vm' : Vm) (hl : 16 ≤ vm.stack.length) (hc : Canon vm)
    (h : vm.step .eqz = .ok vm') : HonestHolds vm vm' .eqz := by
  honest_intro
  have hx0 : x0 < P := by apply hc; rw [hs]; simp
  cases hcore
  by_cases e : x0 = 0
  · subst e
    rcases t with _ | ⟨t0, t⟩ <;> honest_simp <;> honest_close
  · have hne : (x0 : FP) ≠ 0 := cast_ne_zero x0 hx0 e
    rcases t with _ | ⟨t0, t⟩ <;>
      honest_simp_with [e, hne, cast_finv _ hne, mul_inv_cancel₀ hne] <;> honest_close

set_option maxHeartbeats 1000000 in
theorem honest_eq (vm vm' : Vm) (hl : 16 ≤ vm.stack.length) (hc : Canon vm)
    (h : vm.step .eq = .ok vm') : HonestHolds vm vm' .eq := by
  honest_intro
  have hx0 : x0 < P := by apply hc; rw [hs]; simp
  have hx1 : x1 < P := by apply hc; rw [hs]; simp
  cases hcore
  by_cases e : x0 = x1
  · subst e
    rcases t with _ | ⟨t0, t⟩ <;> honest_simp <;> honest_close
  · have e' : ¬ x1 = x0 := fun h => e h.symm
    have hne' : ((x0 : FP) - (x1 : FP)) ≠ 0 := by
      intro hz
      exact e (cast_inj x0 x1 hx0 hx1 (sub_eq_zero.mp hz))
    have hne : ((fsub x0 x1 : Nat) : FP) ≠ 0 := by rw [cast_fsub]; exact hne'
    have hfi : ((finv (fsub x0 x1) : Nat) : FP) = ((x0 : FP) - (x1 : FP))⁻¹ := by
      rw [cast_finv _ hne, cast_fsub]
    rcases t with _ | ⟨t0, t⟩ <;>
      honest_simp_with [e, e', hfi, hne', mul_inv_cancel₀ hne'] <;> honest_close

set_option maxHeartbeats 1000000 in
theorem honest_expacc (vm vm' : Vm) (hl : 16 ≤ vm.stack.length)
    (h : vm.step .expacc = .ok vm') : HonestHolds vm vm' .expacc := by
  honest_intro
  cases hcore
  have key : (x3 : FP) = ((x3 / 2 : Nat) : FP) * 2 + ((x3 % 2 : Nat) : FP) := by
    have h2 : x3 = x3 / 2 * 2 + x3 % 2 := (Nat.div_add_mod' x3 2).symm
    exact_mod_cast congrArg (Nat.cast : ℕ → FP) h2
  rcases Nat.mod_two_eq_zero_or_one x3 with hm | hm <;> rw [hm] at key <;>
    rcases t with _ | ⟨t0, t⟩ <;> honest_simp_with [hm] <;>
    (first
      | honest_close
      | ((repeat' apply And.intro) <;>
          first
            | done
            | ring1
            | linear_combination key
            | linear_combination (-1 : FP) * key
            | linear_combination hh
            | linear_combination (-1 : FP) * hh
            | (left; linear_combination hh)
            | (left; linear_combination (-1 : FP) * hh)))

end Miden.C03
