/-
  Completeness of the stack AIR on honest rows, one theorem per operation (see `Props/C03Air.lean`).
  Statements follow one template; written by tools/gen_c03air.py at development time.
-/
import Miden.Lemmas.HonestAir
namespace Miden.C03
open Miden Miden.Air Miden.Vm

theorem honest_add (vm vm' : Vm) (hl : 16 ≤ vm.stack.length) (h : vm.step .add = .ok vm') :
    HonestHolds vm vm' .add := by honest_tac

theorem honest_drop (vm vm' : Vm) (hl : 16 ≤ vm.stack.length) (h : vm.step .drop = .ok vm') :
    HonestHolds vm vm' .drop := by honest_tac

theorem honest_dup5 (vm vm' : Vm) (hl : 16 ≤ vm.stack.length) (h : vm.step .dup5 = .ok vm') :
    HonestHolds vm vm' .dup5 := by honest_tac

theorem honest_dup15 (vm vm' : Vm) (hl : 16 ≤ vm.stack.length) (h : vm.step .dup15 = .ok vm') :
    HonestHolds vm vm' .dup15 := by honest_tac

theorem honest_movup2 (vm vm' : Vm) (hl : 16 ≤ vm.stack.length) (h : vm.step .movup2 = .ok vm') :
    HonestHolds vm vm' .movup2 := by honest_tac

theorem honest_movup8 (vm vm' : Vm) (hl : 16 ≤ vm.stack.length) (h : vm.step .movup8 = .ok vm') :
    HonestHolds vm vm' .movup8 := by honest_tac

theorem honest_movdn7 (vm vm' : Vm) (hl : 16 ≤ vm.stack.length) (h : vm.step .movdn7 = .ok vm') :
    HonestHolds vm vm' .movdn7 := by honest_tac

end Miden.C03
