import Miden.Props.C03Air.B6
/-
  Completeness of the stack AIR on honest rows: U32SUB (borrow bit), U32MUL, U32MADD, U32SPLIT (four
  16-bit limbs and the element-validity helper `m = 1/(2^32 - 1 - hi)`; when `hi = 2^32 - 1` the low
  half is zero, which is the other factor of the validity constraint).
-/
namespace Miden.C03
open Miden Miden.Air Miden.Vm
attribute [local irreducible] finv fpow fpowAux

set_option hygiene false in
macro "u32_close2" : tactic => `(tactic| (
  (try subst hb)
  (repeat' apply And.intro) <;>
    first
      | done
      | ring1
      | linear_combination key
      | linear_combination (-1 : FP) * key
      | linear_combination key2
      | linear_combination (-1 : FP) * key2
      | linear_combination key3
      | linear_combination (-1 : FP) * key3
      | linear_combination hh
      | linear_combination (-1 : FP) * hh
      | (left; linear_combination hh)
      | (left; linear_combination (-1 : FP) * hh)
      | (left; linear_combination key2)
      | (left; linear_combination (-1 : FP) * key2)
      | (right; linear_combination key3)
      | (right; exact key3)
      | (right; exact key2)
      | (with_reducible exact keyz)
      | linear_combination key + 4294967296 * key3
      | linear_combination key - 4294967296 * key3))

/-- The validity helper `m` is the inverse of `2^32 - 1 - hi` whenever `hi` is not `2^32 - 1`. -/
theorem validity_ok (hi : Nat) (h : hi < 4294967295) :
    ((validityHelper hi : Nat) : FP) * (4294967295 - (hi : FP)) = 1 := by
  unfold validityHelper
  have hsub : ((fsub u32max hi : Nat) : FP) = 4294967295 - (hi : FP) := by
    rw [cast_fsub]; unfold u32max; norm_num
  have hne : ((fsub u32max hi : Nat) : FP) ≠ 0 := by
    rw [hsub]
    have h2 : (4294967295 - (hi : FP)) = ((4294967295 - hi : Nat) : FP) := by
      rw [Nat.cast_sub (Nat.le_of_lt h)]; norm_num
    rw [h2]
    exact cast_ne_zero _ (by unfold P; omega) (by omega)
  rw [cast_finv _ hne, hsub]
  rw [hsub] at hne
  exact inv_mul_cancel₀ hne

theorem u32sub_key (x0 x1 : Nat) (h0 : x0 < 4294967296) (h1 : x1 < 4294967296) :
    ((x1 : FP) + 4294967296 * (((x1 + 18446744073709551616 - x0) % 18446744073709551616 / 9223372036854775808 : Nat) : FP)
      = (x0 : FP) + (((x1 + 18446744073709551616 - x0) % 4294967296 : Nat) : FP))
    ∧ ((((x1 + 18446744073709551616 - x0) % 4294967296 : Nat) : FP)
        = 65536 * (((x1 + 18446744073709551616 - x0) % 4294967296 / 65536 : Nat) : FP)
          + (((x1 + 18446744073709551616 - x0) % 65536 : Nat) : FP))
    ∧ ((x1 + 18446744073709551616 - x0) % 18446744073709551616 / 9223372036854775808 = 0
        ∨ (x1 + 18446744073709551616 - x0) % 18446744073709551616 / 9223372036854775808 = 1) := by
  have hn : x1 + 4294967296 * ((x1 + 18446744073709551616 - x0) % 18446744073709551616 / 9223372036854775808)
      = x0 + (x1 + 18446744073709551616 - x0) % 4294967296 := by omega
  have hl : (x1 + 18446744073709551616 - x0) % 4294967296
      = 65536 * ((x1 + 18446744073709551616 - x0) % 4294967296 / 65536) + (x1 + 18446744073709551616 - x0) % 65536 := by
    omega
  have hb : (x1 + 18446744073709551616 - x0) % 18446744073709551616 / 9223372036854775808 = 0
      ∨ (x1 + 18446744073709551616 - x0) % 18446744073709551616 / 9223372036854775808 = 1 := by omega
  refine ⟨?_, ?_, hb⟩
  · have := congrArg (Nat.cast : ℕ → FP) hn
    push_cast at this
    exact this
  · have := congrArg (Nat.cast : ℕ → FP) hl
    push_cast at this
    exact this

set_option maxHeartbeats 1000000 in
theorem honest_u32sub (vm vm' : Vm) (hl : 16 ≤ vm.stack.length)
    (hu : vm.stack.getD 0 0 < two32 ∧ vm.stack.getD 1 0 < two32)
    (h : vm.step .u32sub = .ok vm') : HonestHolds vm vm' .u32sub := by
  honest_intro
  cases hcore
  rw [hs] at hu
  simp only [List.getD_cons_zero, List.getD_cons_succ, two32] at hu
  obtain ⟨hu0, hu1⟩ := hu
  obtain ⟨key, key3, hbin⟩ := u32sub_key x0 x1 hu0 hu1
  have key2 := key
  have keyz : (0 : FP) = 0 := rfl
  rcases hbin with hb0 | hb0 <;> rw [hb0] at key key2 <;>
    rcases t with _ | ⟨u0, t⟩ <;>
    honest_simp_with [two16, two32, two64, two48, limbs16, vLo, vHi, v48, v64, hb0] <;> u32_close2

theorem u32mul_key (x0 x1 : Nat) (h0 : x0 < 4294967296) (h1 : x1 < 4294967296) :
    (x0 : FP) * (x1 : FP) =
      4294967296 * ((splitHi (x1 * x0 % two64 % P) : Nat) : FP) + ((splitLo (x1 * x0 % two64 % P) : Nat) : FP)
    ∧ splitHi (x1 * x0 % two64 % P) < 4294967295 := by
  have hp : x1 * x0 ≤ 4294967295 * 4294967295 := Nat.mul_le_mul (by omega) (by omega)
  have hn : x1 * x0 = 4294967296 * splitHi (x1 * x0 % two64 % P) + splitLo (x1 * x0 % two64 % P) := by
    simp only [splitHi, splitLo, two32, two64, P]; omega
  have hlt : splitHi (x1 * x0 % two64 % P) < 4294967295 := by
    simp only [splitHi, two32, two64, P]; omega
  refine ⟨?_, hlt⟩
  have := congrArg (Nat.cast : ℕ → FP) hn
  push_cast at this
  linear_combination this

set_option maxHeartbeats 1000000 in
theorem honest_u32mul (vm vm' : Vm) (hl : 16 ≤ vm.stack.length)
    (hu : vm.stack.getD 0 0 < two32 ∧ vm.stack.getD 1 0 < two32)
    (h : vm.step .u32mul = .ok vm') : HonestHolds vm vm' .u32mul := by
  honest_intro
  cases hcore
  rw [hs] at hu
  simp only [List.getD_cons_zero, List.getD_cons_succ, two32] at hu
  obtain ⟨hu0, hu1⟩ := hu
  obtain ⟨key, hlt⟩ := u32mul_key x0 x1 hu0 hu1
  have key2 := validity_ok _ hlt
  have keyz : (0 : FP) = 0 := rfl
  have key3 := limb_eq (splitHi (x1 * x0 % two64 % P))
  rcases t with _ | ⟨u0, t⟩ <;>
    honest_simp_with [two16, two32, two48, limbs16, vLo, vHi, v48, v64, limb_eq] <;> u32_close2

theorem u32madd_key (x0 x1 x2 : Nat) (h0 : x0 < 4294967296) (h1 : x1 < 4294967296) (h2 : x2 < 4294967296) :
    (x0 : FP) * (x1 : FP) + (x2 : FP) =
      4294967296 * ((splitHi ((x1 * x0 + x2) % two64 % P) : Nat) : FP) + ((splitLo ((x1 * x0 + x2) % two64 % P) : Nat) : FP)
    ∧ (splitHi ((x1 * x0 + x2) % two64 % P) < 4294967295 ∨ splitLo ((x1 * x0 + x2) % two64 % P) = 0) := by
  have hp : x1 * x0 ≤ 4294967295 * 4294967295 := Nat.mul_le_mul (by omega) (by omega)
  have hn : x1 * x0 + x2 = 4294967296 * splitHi ((x1 * x0 + x2) % two64 % P) + splitLo ((x1 * x0 + x2) % two64 % P) := by
    simp only [splitHi, splitLo, two32, two64, P]; omega
  have hlt : splitHi ((x1 * x0 + x2) % two64 % P) < 4294967295 ∨ splitLo ((x1 * x0 + x2) % two64 % P) = 0 := by
    simp only [splitHi, splitLo, two32, two64, P]; omega
  refine ⟨?_, hlt⟩
  have := congrArg (Nat.cast : ℕ → FP) hn
  push_cast at this
  linear_combination this

set_option maxHeartbeats 1000000 in
theorem honest_u32madd (vm vm' : Vm) (hl : 16 ≤ vm.stack.length)
    (hu : vm.stack.getD 0 0 < two32 ∧ vm.stack.getD 1 0 < two32 ∧ vm.stack.getD 2 0 < two32)
    (h : vm.step .u32madd = .ok vm') : HonestHolds vm vm' .u32madd := by
  honest_intro
  cases hcore
  rw [hs] at hu
  simp only [List.getD_cons_zero, List.getD_cons_succ, two32] at hu
  obtain ⟨hu0, hu1, hu2⟩ := hu
  obtain ⟨key, hcase⟩ := u32madd_key x0 x1 x2 hu0 hu1 hu2
  rcases hcase with hlt | hz
  · have key2 := validity_ok _ hlt
    have keyz : (0 : FP) = 0 := rfl
    have key3 := limb_eq (splitHi ((x1 * x0 + x2) % two64 % P))
    rcases t with _ | ⟨u0, t⟩ <;>
      honest_simp_with [two16, two32, two48, limbs16, vLo, vHi, v48, v64, limb_eq] <;> u32_close2
  · have keyz : ((splitLo ((x1 * x0 + x2) % two64 % P) : Nat) : FP) = 0 := by rw [hz]; simp
    rw [keyz, add_zero] at key
    have key2 := key
    have key3 := limb_eq (splitHi ((x1 * x0 + x2) % two64 % P))
    rcases t with _ | ⟨u0, t⟩ <;>
      honest_simp_with [two16, two32, two48, limbs16, vLo, vHi, v48, v64, limb_eq, hz] <;> u32_close2

theorem u32split_key (x0 : Nat) (h0 : x0 < P) :
    (x0 : FP) = 4294967296 * ((splitHi x0 : Nat) : FP) + ((splitLo x0 : Nat) : FP)
    ∧ (splitHi x0 < 4294967295 ∨ splitLo x0 = 0) := by
  have hn : x0 = 4294967296 * splitHi x0 + splitLo x0 := by
    simp only [splitHi, splitLo, two32]; omega
  have hlt : splitHi x0 < 4294967295 ∨ splitLo x0 = 0 := by
    simp only [splitHi, splitLo, two32]; unfold P at h0; omega
  refine ⟨?_, hlt⟩
  have := congrArg (Nat.cast : ℕ → FP) hn
  push_cast at this
  exact this

set_option maxHeartbeats 1000000 in
theorem honest_u32split (vm vm' : Vm) (hl : 16 ≤ vm.stack.length) (hc : Canon vm)
    (h : vm.step .u32split = .ok vm') : HonestHolds vm vm' .u32split := by
  honest_intro
  have hx0 : x0 < P := by apply hc; rw [hs]; simp
  cases hcore
  obtain ⟨key, hcase⟩ := u32split_key x0 hx0
  rcases hcase with hlt | hz
  · have key2 := validity_ok _ hlt
    have keyz : (0 : FP) = 0 := rfl
    have key3 := limb_eq (splitHi x0)
    rcases t with _ | ⟨u0, t⟩ <;>
      honest_simp_with [two16, two32, two48, limbs16, vLo, vHi, v48, v64, limb_eq] <;> u32_close2
  · have keyz : ((splitLo x0 : Nat) : FP) = 0 := by rw [hz]; simp
    rw [keyz, add_zero] at key
    have key2 := key
    have key3 := limb_eq (splitHi x0)
    rcases t with _ | ⟨u0, t⟩ <;>
      honest_simp_with [two16, two32, two48, limbs16, vLo, vHi, v48, v64, limb_eq, hz] <;> u32_close2
theorem list12 (l : List Nat) (h : l.length = 12) :
    ∃ o0 o1 o2 o3 o4 o5 o6 o7 o8 o9 o10 o11, l = [o0, o1, o2, o3, o4, o5, o6, o7, o8, o9, o10, o11] := by
  match l, h with
  | [o0, o1, o2, o3, o4, o5, o6, o7, o8, o9, o10, o11], _ => exact ⟨o0, o1, o2, o3, o4, o5, o6, o7, o8, o9, o10, o11, rfl⟩

set_option maxHeartbeats 1000000 in
theorem honest_hperm (vm vm' : Vm) (hl : 16 ≤ vm.stack.length) (h : vm.step .hperm = .ok vm') :
    HonestHolds vm vm' .hperm := by
  honest_intro
  have hlen12 : ¬ (x0 :: x1 :: x2 :: x3 :: x4 :: x5 :: x6 :: x7 :: x8 :: x9 :: x10 :: x11 :: x12 :: x13 :: x14 :: x15 :: t).length < 12 := by
    simp
  simp only [hlen12, if_false, List.take, List.drop, List.reverse_cons, List.reverse_nil, List.nil_append, List.cons_append] at hcore
  generalize hout : Rpo.permute _ = out at hcore
  have hlen : out.length = 12 := by rw [← hout]; exact permute_len _
  obtain ⟨o0, o1, o2, o3, o4, o5, o6, o7, o8, o9, o10, o11, rfl⟩ := list12 out hlen
  cases hcore
  rcases t with _ | ⟨u0, t⟩ <;> honest_simp <;> honest_close
end Miden.C03
