/-
  C16 — standard-library integer arithmetic is exact.
  Theorems are about `Generated.u64_*`: the operation lists the real assembler produces for
  `exec.u64::<proc>` (regenerated on every run).  Stack layout `[b_hi, b_lo, a_hi, a_lo, rest…]`,
  all limbs < 2^32, `rest` arbitrary (≥ 16 deep so that no zero padding is involved) and returned
  untouched.
-/
import Miden.Lemmas.U64Tac
import Miden.Lemmas.U64Pure
import Miden.Lemmas.U64Mul
import Miden.Lemmas.U64Div
import Miden.Lemmas.U256
namespace Miden.C16
open Miden

/-- `overflowing_add`: `[b_hi, b_lo, a_hi, a_lo] → [carry, c_hi, c_lo]`, `c = (a + b) mod 2^64`. -/
theorem u64_overflowing_add_exact : ∀ (vm : Vm) (bh bl ah al : Nat) (rest : List Nat),
    vm.stack = bh :: bl :: ah :: al :: rest → bh < two32 → bl < two32 → ah < two32 → al < two32 →
    16 ≤ rest.length →
    stackRun Generated.u64_overflowing_add vm =
      .ok ((u64of ah al + u64of bh bl) / two64 :: (u64of ah al + u64of bh bl) % two64 / two32
            :: (u64of ah al + u64of bh bl) % two32 :: rest) := by
  u64_tac Generated.u64_overflowing_add

/-- `wrapping_add`: `c = (a + b) mod 2^64`. -/
theorem u64_wrapping_add_exact : ∀ (vm : Vm) (bh bl ah al : Nat) (rest : List Nat),
    vm.stack = bh :: bl :: ah :: al :: rest → bh < two32 → bl < two32 → ah < two32 → al < two32 →
    16 ≤ rest.length →
    stackRun Generated.u64_wrapping_add vm =
      .ok ((u64of ah al + u64of bh bl) % two64 / two32 :: (u64of ah al + u64of bh bl) % two32 :: rest) := by
  u64_tac Generated.u64_wrapping_add

theorem u64_eq_exact : ∀ (vm : Vm) (bh bl ah al : Nat) (rest : List Nat),
    vm.stack = bh :: bl :: ah :: al :: rest → bh < two32 → bl < two32 → ah < two32 → al < two32 →
    16 ≤ rest.length →
    stackRun Generated.u64_eq vm = .ok ((if u64of ah al = u64of bh bl then 1 else 0) :: rest) := by
  u64_tac Generated.u64_eq

theorem u64_neq_exact : ∀ (vm : Vm) (bh bl ah al : Nat) (rest : List Nat),
    vm.stack = bh :: bl :: ah :: al :: rest → bh < two32 → bl < two32 → ah < two32 → al < two32 →
    16 ≤ rest.length →
    stackRun Generated.u64_neq vm = .ok ((if u64of ah al ≠ u64of bh bl then 1 else 0) :: rest) := by
  u64_tac Generated.u64_neq

/-- Bitwise procedures act limb-wise (AND / XOR of the 32-bit limbs). -/
theorem u64_and_exact : ∀ (vm : Vm) (bh bl ah al : Nat) (rest : List Nat),
    vm.stack = bh :: bl :: ah :: al :: rest → bh < two32 → bl < two32 → ah < two32 → al < two32 →
    16 ≤ rest.length →
    stackRun Generated.u64_and vm = .ok (Nat.land bh ah :: Nat.land bl al :: rest) := by
  u64_tac Generated.u64_and

theorem u64_xor_exact : ∀ (vm : Vm) (bh bl ah al : Nat) (rest : List Nat),
    vm.stack = bh :: bl :: ah :: al :: rest → bh < two32 → bl < two32 → ah < two32 → al < two32 →
    16 ≤ rest.length →
    stackRun Generated.u64_xor vm = .ok (Nat.xor bh ah :: Nat.xor bl al :: rest) := by
  u64_tac Generated.u64_xor

/-! ### Subtraction and comparisons (stack-only symbolic executor + borrow normal forms) -/
set_option linter.unusedSimpArgs false
set_option linter.unusedVariables false

theorem u64_wrapping_sub_pure (bh bl ah al : Nat) (r : List Nat) (h3 : bh < two32) (h2 : bl < two32) (h1 : ah < two32) (h0 : al < two32) (hr : 16 ≤ r.length) :
    runPure Generated.u64_wrapping_sub (bh :: bl :: ah :: al :: r)
      = .ok ((u64of ah al + two64 - u64of bh bl) % two64 / two32 :: (u64of ah al + two64 - u64of bh bl) % two32 :: r) := by
  u64_pre r hr
  u64_exec Generated.u64_wrapping_sub
  u64_fin ah al bh bl

/-- `wrapping_sub` on machine states: limbs below 2^32, at least 16 further elements, rest untouched. -/
theorem u64_wrapping_sub_exact (vm : Vm) (bh bl ah al : Nat) (r : List Nat) (hs : vm.stack = bh :: bl :: ah :: al :: r)
    (h3 : bh < two32) (h2 : bl < two32) (h1 : ah < two32) (h0 : al < two32) (hr : 16 ≤ r.length) :
    stackRun Generated.u64_wrapping_sub vm = .ok ((u64of ah al + two64 - u64of bh bl) % two64 / two32 :: (u64of ah al + two64 - u64of bh bl) % two32 :: r) := by
  rw [stackRun_pure _ (by decide), hs]; exact u64_wrapping_sub_pure bh bl ah al r h3 h2 h1 h0 hr

theorem u64_overflowing_sub_pure (bh bl ah al : Nat) (r : List Nat) (h3 : bh < two32) (h2 : bl < two32) (h1 : ah < two32) (h0 : al < two32) (hr : 16 ≤ r.length) :
    runPure Generated.u64_overflowing_sub (bh :: bl :: ah :: al :: r)
      = .ok ((if u64of ah al < u64of bh bl then 1 else 0) :: (u64of ah al + two64 - u64of bh bl) % two64 / two32 :: (u64of ah al + two64 - u64of bh bl) % two32 :: r) := by
  u64_pre r hr
  u64_exec Generated.u64_overflowing_sub
  u64_fin ah al bh bl

/-- `overflowing_sub` on machine states: limbs below 2^32, at least 16 further elements, rest untouched. -/
theorem u64_overflowing_sub_exact (vm : Vm) (bh bl ah al : Nat) (r : List Nat) (hs : vm.stack = bh :: bl :: ah :: al :: r)
    (h3 : bh < two32) (h2 : bl < two32) (h1 : ah < two32) (h0 : al < two32) (hr : 16 ≤ r.length) :
    stackRun Generated.u64_overflowing_sub vm = .ok ((if u64of ah al < u64of bh bl then 1 else 0) :: (u64of ah al + two64 - u64of bh bl) % two64 / two32 :: (u64of ah al + two64 - u64of bh bl) % two32 :: r) := by
  rw [stackRun_pure _ (by decide), hs]; exact u64_overflowing_sub_pure bh bl ah al r h3 h2 h1 h0 hr

theorem u64_lt_pure (bh bl ah al : Nat) (r : List Nat) (h3 : bh < two32) (h2 : bl < two32) (h1 : ah < two32) (h0 : al < two32) (hr : 16 ≤ r.length) :
    runPure Generated.u64_lt (bh :: bl :: ah :: al :: r) = .ok ((if u64of ah al < u64of bh bl then 1 else 0) :: r) := by
  u64_pre r hr
  u64_exec Generated.u64_lt
  u64_fin ah al bh bl
/-- `lt` on machine states: limbs below 2^32, at least 16 further elements, rest untouched. -/
theorem u64_lt_exact (vm : Vm) (bh bl ah al : Nat) (r : List Nat) (hs : vm.stack = bh :: bl :: ah :: al :: r)
    (h3 : bh < two32) (h2 : bl < two32) (h1 : ah < two32) (h0 : al < two32) (hr : 16 ≤ r.length) :
    stackRun Generated.u64_lt vm = .ok ((if u64of ah al < u64of bh bl then 1 else 0) :: r) := by
  rw [stackRun_pure _ (by decide), hs]; exact u64_lt_pure bh bl ah al r h3 h2 h1 h0 hr

theorem u64_gt_pure (bh bl ah al : Nat) (r : List Nat) (h3 : bh < two32) (h2 : bl < two32) (h1 : ah < two32) (h0 : al < two32) (hr : 16 ≤ r.length) :
    runPure Generated.u64_gt (bh :: bl :: ah :: al :: r) = .ok ((if u64of ah al > u64of bh bl then 1 else 0) :: r) := by
  u64_pre r hr
  u64_exec Generated.u64_gt
  u64_fin ah al bh bl
/-- `gt` on machine states: limbs below 2^32, at least 16 further elements, rest untouched. -/
theorem u64_gt_exact (vm : Vm) (bh bl ah al : Nat) (r : List Nat) (hs : vm.stack = bh :: bl :: ah :: al :: r)
    (h3 : bh < two32) (h2 : bl < two32) (h1 : ah < two32) (h0 : al < two32) (hr : 16 ≤ r.length) :
    stackRun Generated.u64_gt vm = .ok ((if u64of ah al > u64of bh bl then 1 else 0) :: r) := by
  rw [stackRun_pure _ (by decide), hs]; exact u64_gt_pure bh bl ah al r h3 h2 h1 h0 hr

theorem u64_lte_pure (bh bl ah al : Nat) (r : List Nat) (h3 : bh < two32) (h2 : bl < two32) (h1 : ah < two32) (h0 : al < two32) (hr : 16 ≤ r.length) :
    runPure Generated.u64_lte (bh :: bl :: ah :: al :: r) = .ok ((if u64of ah al ≤ u64of bh bl then 1 else 0) :: r) := by
  u64_pre r hr
  u64_exec Generated.u64_lte
  u64_fin ah al bh bl
/-- `lte` on machine states: limbs below 2^32, at least 16 further elements, rest untouched. -/
theorem u64_lte_exact (vm : Vm) (bh bl ah al : Nat) (r : List Nat) (hs : vm.stack = bh :: bl :: ah :: al :: r)
    (h3 : bh < two32) (h2 : bl < two32) (h1 : ah < two32) (h0 : al < two32) (hr : 16 ≤ r.length) :
    stackRun Generated.u64_lte vm = .ok ((if u64of ah al ≤ u64of bh bl then 1 else 0) :: r) := by
  rw [stackRun_pure _ (by decide), hs]; exact u64_lte_pure bh bl ah al r h3 h2 h1 h0 hr

theorem u64_gte_pure (bh bl ah al : Nat) (r : List Nat) (h3 : bh < two32) (h2 : bl < two32) (h1 : ah < two32) (h0 : al < two32) (hr : 16 ≤ r.length) :
    runPure Generated.u64_gte (bh :: bl :: ah :: al :: r) = .ok ((if u64of ah al ≥ u64of bh bl then 1 else 0) :: r) := by
  u64_pre r hr
  u64_exec Generated.u64_gte
  u64_fin ah al bh bl
set_option maxRecDepth 4000 in
/-- `gte` on machine states: limbs below 2^32, at least 16 further elements, rest untouched. -/
theorem u64_gte_exact (vm : Vm) (bh bl ah al : Nat) (r : List Nat) (hs : vm.stack = bh :: bl :: ah :: al :: r)
    (h3 : bh < two32) (h2 : bl < two32) (h1 : ah < two32) (h0 : al < two32) (hr : 16 ≤ r.length) :
    stackRun Generated.u64_gte vm = .ok ((if u64of ah al ≥ u64of bh bl then 1 else 0) :: r) := by
  rw [stackRun_pure _ (by decide), hs]; exact u64_gte_pure bh bl ah al r h3 h2 h1 h0 hr


/-! ### Multiplication, zero test, min / max -/

/-- `wrapping_mul`: `[b_hi, b_lo, a_hi, a_lo] → [c_hi, c_lo]`, `c = (a · b) mod 2^64`, for all limbs < 2^32. -/
theorem u64_wrapping_mul_exact (vm : Vm) (bh bl ah al : Nat) (r : List Nat) (hs : vm.stack = bh :: bl :: ah :: al :: r)
    (h3 : bh < two32) (h2 : bl < two32) (h1 : ah < two32) (h0 : al < two32) (hr : 16 ≤ r.length) :
    stackRun Generated.u64_wrapping_mul vm
      = .ok ((u64of ah al * u64of bh bl) % two64 / two32 :: (u64of ah al * u64of bh bl) % two32 :: r) := by
  rw [stackRun_pure _ (by decide), hs]; exact U64Mul.u64_wrapping_mul_pure bh bl ah al r h3 h2 h1 h0 hr

/-- `overflowing_mul`: the full 128-bit product `a · b` in four 32-bit limbs, most significant first. -/
theorem u64_overflowing_mul_exact (vm : Vm) (bh bl ah al : Nat) (r : List Nat) (hs : vm.stack = bh :: bl :: ah :: al :: r)
    (h3 : bh < two32) (h2 : bl < two32) (h1 : ah < two32) (h0 : al < two32) (hr : 16 ≤ r.length) :
    stackRun Generated.u64_overflowing_mul vm
      = .ok ((u64of ah al * u64of bh bl) / 79228162514264337593543950336
          :: (u64of ah al * u64of bh bl) / two64 % two32
          :: (u64of ah al * u64of bh bl) / two32 % two32
          :: (u64of ah al * u64of bh bl) % two32 :: r) := by
  rw [stackRun_pure _ (by decide), hs]; exact U64Mul.u64_overflowing_mul_pure bh bl ah al r h3 h2 h1 h0 hr

/-- `eqz`: `[a_hi, a_lo] → [a = 0]`. -/
theorem u64_eqz_exact (vm : Vm) (ah al : Nat) (r : List Nat) (hs : vm.stack = ah :: al :: r)
    (h1 : ah < two32) (h0 : al < two32) (hr : 16 ≤ r.length) :
    stackRun Generated.u64_eqz vm = .ok ((if u64of ah al = 0 then 1 else 0) :: r) := by
  rw [stackRun_pure _ (by decide), hs]; exact U64Mul.u64_eqz_pure ah al r h1 h0 hr

/-- `min`: leaves the limbs of the smaller operand (`a` when `a ≤ b`, else `b`). -/
theorem u64_min_exact (vm : Vm) (bh bl ah al : Nat) (r : List Nat) (hs : vm.stack = bh :: bl :: ah :: al :: r)
    (h3 : bh < two32) (h2 : bl < two32) (h1 : ah < two32) (h0 : al < two32) (hr : 16 ≤ r.length) :
    stackRun Generated.u64_min vm
      = .ok (if u64of ah al ≤ u64of bh bl then ah :: al :: r else bh :: bl :: r) := by
  rw [stackRun_pure _ (by decide), hs]; exact U64Mul.u64_min_pure bh bl ah al r h3 h2 h1 h0 hr

/-- `max`: leaves the limbs of the larger operand (`a` when `a ≥ b`, else `b`). -/
theorem u64_max_exact (vm : Vm) (bh bl ah al : Nat) (r : List Nat) (hs : vm.stack = bh :: bl :: ah :: al :: r)
    (h3 : bh < two32) (h2 : bl < two32) (h1 : ah < two32) (h0 : al < two32) (hr : 16 ≤ r.length) :
    stackRun Generated.u64_max vm
      = .ok (if u64of ah al ≥ u64of bh bl then ah :: al :: r else bh :: bl :: r) := by
  rw [stackRun_pure _ (by decide), hs]; exact U64Mul.u64_max_pure bh bl ah al r h3 h2 h1 h0 hr

example : (stackRun Generated.u64_overflowing_mul
    { stack := [4294967295, 4294967295, 4294967295, 4294967295] ++ List.replicate 16 9 }).toOption
    = some ([4294967295, 4294967294, 0, 1] ++ List.replicate 16 9) := by decide


/-! ### Division: exact for every advice tape (the hinted quotient and remainder are checked in-VM) -/

/-- `div`: whatever the host supplies as hint (any field elements, any tape length), a completed run
    has a non-zero divisor and leaves exactly `⌊a / b⌋`; the rest of the stack is untouched. -/
theorem u64_div_exact_for_every_hint (vm : Vm) (bh bl ah al : Nat) (r out : List Nat)
    (hs : vm.stack = bh :: bl :: ah :: al :: r)
    (h3 : bh < two32) (h2 : bl < two32) (h1 : ah < two32) (h0 : al < two32) (hr : 16 ≤ r.length)
    (h : stackRun Generated.u64_div vm = .ok out) :
    u64of bh bl ≠ 0 ∧
      out = (u64of ah al / u64of bh bl) / two32 :: (u64of ah al / u64of bh bl) % two32 :: r :=
  U64Div.u64_div_sound vm bh bl ah al r out hs h3 h2 h1 h0 hr h

/-- `mod`: a completed run leaves exactly `a mod b`, for every advice tape. -/
theorem u64_mod_exact_for_every_hint (vm : Vm) (bh bl ah al : Nat) (r out : List Nat)
    (hs : vm.stack = bh :: bl :: ah :: al :: r)
    (h3 : bh < two32) (h2 : bl < two32) (h1 : ah < two32) (h0 : al < two32) (hr : 16 ≤ r.length)
    (h : stackRun Generated.u64_mod vm = .ok out) :
    u64of bh bl ≠ 0 ∧
      out = (u64of ah al % u64of bh bl) / two32 :: (u64of ah al % u64of bh bl) % two32 :: r :=
  U64Div.u64_mod_sound vm bh bl ah al r out hs h3 h2 h1 h0 hr h

/-- `divmod`: a completed run leaves `[r_hi, r_lo, q_hi, q_lo]` with `q = ⌊a / b⌋`, `r = a mod b`,
    for every advice tape. -/
theorem u64_divmod_exact_for_every_hint (vm : Vm) (bh bl ah al : Nat) (r out : List Nat)
    (hs : vm.stack = bh :: bl :: ah :: al :: r)
    (h3 : bh < two32) (h2 : bl < two32) (h1 : ah < two32) (h0 : al < two32) (hr : 16 ≤ r.length)
    (h : stackRun Generated.u64_divmod vm = .ok out) :
    u64of bh bl ≠ 0 ∧
      out = (u64of ah al % u64of bh bl) / two32 :: (u64of ah al % u64of bh bl) % two32 ::
        (u64of ah al / u64of bh bl) / two32 :: (u64of ah al / u64of bh bl) % two32 :: r :=
  U64Div.u64_divmod_sound vm bh bl ah al r out hs h3 h2 h1 h0 hr h

-- the honest hint is accepted (the hypothesis of the three theorems is satisfiable)
example : (stackRun Generated.u64_divmod
    { stack := [0, 7, 0, 100] ++ List.replicate 16 9, adv := [14, 0, 2, 0] }).toOption
    = some ([0, 2, 0, 14] ++ List.replicate 16 9) := by decide
-- and a forged one is refused
example : (stackRun Generated.u64_divmod
    { stack := [0, 7, 0, 100] ++ List.replicate 16 9, adv := [13, 0, 9, 0] }).toOption = none := by decide


/-! ### 256-bit arithmetic (eight limbs, most significant first) -/

/-- `u256::add_unsafe`: `[b, a] → [c]` with `c = (a + b) mod 2^256`, for all limbs < 2^32; the rest of
    the stack is untouched. -/
theorem u256_add_exact (vm : Vm) (y0 y1 y2 y3 y4 y5 y6 y7 x0 x1 x2 x3 x4 x5 x6 x7 r0 r1 r2 : Nat) (r : List Nat)
    (hs : vm.stack = y0 :: y1 :: y2 :: y3 :: y4 :: y5 :: y6 :: y7 :: x0 :: x1 :: x2 :: x3 :: x4 :: x5 :: x6 :: x7 :: r0 :: r1 :: r2 :: r)
    (hr : 13 ≤ r.length) (hx0 : x0 < 4294967296) (hy0 : y0 < 4294967296) (hx1 : x1 < 4294967296) (hy1 : y1 < 4294967296) (hx2 : x2 < 4294967296) (hy2 : y2 < 4294967296) (hx3 : x3 < 4294967296) (hy3 : y3 < 4294967296) (hx4 : x4 < 4294967296) (hy4 : y4 < 4294967296) (hx5 : x5 < 4294967296) (hy5 : y5 < 4294967296) (hx6 : x6 < 4294967296) (hy6 : y6 < 4294967296) (hx7 : x7 < 4294967296) (hy7 : y7 < 4294967296) :
    stackRun Generated.u256_add_unsafe vm = .ok ((U256.u256of x0 x1 x2 x3 x4 x5 x6 x7 + U256.u256of y0 y1 y2 y3 y4 y5 y6 y7) / 26959946667150639794667015087019630673637144422540572481103610249216 % 4294967296 :: (U256.u256of x0 x1 x2 x3 x4 x5 x6 x7 + U256.u256of y0 y1 y2 y3 y4 y5 y6 y7) / 6277101735386680763835789423207666416102355444464034512896 % 4294967296 :: (U256.u256of x0 x1 x2 x3 x4 x5 x6 x7 + U256.u256of y0 y1 y2 y3 y4 y5 y6 y7) / 1461501637330902918203684832716283019655932542976 % 4294967296 :: (U256.u256of x0 x1 x2 x3 x4 x5 x6 x7 + U256.u256of y0 y1 y2 y3 y4 y5 y6 y7) / 340282366920938463463374607431768211456 % 4294967296 :: (U256.u256of x0 x1 x2 x3 x4 x5 x6 x7 + U256.u256of y0 y1 y2 y3 y4 y5 y6 y7) / 79228162514264337593543950336 % 4294967296 :: (U256.u256of x0 x1 x2 x3 x4 x5 x6 x7 + U256.u256of y0 y1 y2 y3 y4 y5 y6 y7) / 18446744073709551616 % 4294967296 :: (U256.u256of x0 x1 x2 x3 x4 x5 x6 x7 + U256.u256of y0 y1 y2 y3 y4 y5 y6 y7) / 4294967296 % 4294967296 :: (U256.u256of x0 x1 x2 x3 x4 x5 x6 x7 + U256.u256of y0 y1 y2 y3 y4 y5 y6 y7) / 1 % 4294967296 :: r0 :: r1 :: r2 :: r) := by
  rw [stackRun_pure _ (by decide), hs]
  exact U256.u256_add_pure y0 y1 y2 y3 y4 y5 y6 y7 x0 x1 x2 x3 x4 x5 x6 x7 r0 r1 r2 r hr hx0 hy0 hx1 hy1 hx2 hy2 hx3 hy3 hx4 hy4 hx5 hy5 hx6 hy6 hx7 hy7

/-- `u256::sub_unsafe`: `[b, a] → [c]` with `c = (a − b) mod 2^256`, for all limbs < 2^32 (every
    borrow pattern, a subtrahend limb 2^32−1 with an incoming borrow included). -/
theorem u256_sub_exact (vm : Vm) (y0 y1 y2 y3 y4 y5 y6 y7 x0 x1 x2 x3 x4 x5 x6 x7 r0 r1 r2 : Nat) (r : List Nat)
    (hs : vm.stack = y0 :: y1 :: y2 :: y3 :: y4 :: y5 :: y6 :: y7 :: x0 :: x1 :: x2 :: x3 :: x4 :: x5 :: x6 :: x7 :: r0 :: r1 :: r2 :: r)
    (hr : 13 ≤ r.length) (hx0 : x0 < 4294967296) (hy0 : y0 < 4294967296) (hx1 : x1 < 4294967296) (hy1 : y1 < 4294967296) (hx2 : x2 < 4294967296) (hy2 : y2 < 4294967296) (hx3 : x3 < 4294967296) (hy3 : y3 < 4294967296) (hx4 : x4 < 4294967296) (hy4 : y4 < 4294967296) (hx5 : x5 < 4294967296) (hy5 : y5 < 4294967296) (hx6 : x6 < 4294967296) (hy6 : y6 < 4294967296) (hx7 : x7 < 4294967296) (hy7 : y7 < 4294967296) :
    stackRun Generated.u256_sub_unsafe vm = .ok (((U256.u256of x0 x1 x2 x3 x4 x5 x6 x7 + 115792089237316195423570985008687907853269984665640564039457584007913129639936 - U256.u256of y0 y1 y2 y3 y4 y5 y6 y7) % 115792089237316195423570985008687907853269984665640564039457584007913129639936) / 26959946667150639794667015087019630673637144422540572481103610249216 % 4294967296 :: ((U256.u256of x0 x1 x2 x3 x4 x5 x6 x7 + 115792089237316195423570985008687907853269984665640564039457584007913129639936 - U256.u256of y0 y1 y2 y3 y4 y5 y6 y7) % 115792089237316195423570985008687907853269984665640564039457584007913129639936) / 6277101735386680763835789423207666416102355444464034512896 % 4294967296 :: ((U256.u256of x0 x1 x2 x3 x4 x5 x6 x7 + 115792089237316195423570985008687907853269984665640564039457584007913129639936 - U256.u256of y0 y1 y2 y3 y4 y5 y6 y7) % 115792089237316195423570985008687907853269984665640564039457584007913129639936) / 1461501637330902918203684832716283019655932542976 % 4294967296 :: ((U256.u256of x0 x1 x2 x3 x4 x5 x6 x7 + 115792089237316195423570985008687907853269984665640564039457584007913129639936 - U256.u256of y0 y1 y2 y3 y4 y5 y6 y7) % 115792089237316195423570985008687907853269984665640564039457584007913129639936) / 340282366920938463463374607431768211456 % 4294967296 :: ((U256.u256of x0 x1 x2 x3 x4 x5 x6 x7 + 115792089237316195423570985008687907853269984665640564039457584007913129639936 - U256.u256of y0 y1 y2 y3 y4 y5 y6 y7) % 115792089237316195423570985008687907853269984665640564039457584007913129639936) / 79228162514264337593543950336 % 4294967296 :: ((U256.u256of x0 x1 x2 x3 x4 x5 x6 x7 + 115792089237316195423570985008687907853269984665640564039457584007913129639936 - U256.u256of y0 y1 y2 y3 y4 y5 y6 y7) % 115792089237316195423570985008687907853269984665640564039457584007913129639936) / 18446744073709551616 % 4294967296 :: ((U256.u256of x0 x1 x2 x3 x4 x5 x6 x7 + 115792089237316195423570985008687907853269984665640564039457584007913129639936 - U256.u256of y0 y1 y2 y3 y4 y5 y6 y7) % 115792089237316195423570985008687907853269984665640564039457584007913129639936) / 4294967296 % 4294967296 :: ((U256.u256of x0 x1 x2 x3 x4 x5 x6 x7 + 115792089237316195423570985008687907853269984665640564039457584007913129639936 - U256.u256of y0 y1 y2 y3 y4 y5 y6 y7) % 115792089237316195423570985008687907853269984665640564039457584007913129639936) / 1 % 4294967296 :: r0 :: r1 :: r2 :: r) := by
  rw [stackRun_pure _ (by decide), hs]
  exact U256.u256_sub_pure y0 y1 y2 y3 y4 y5 y6 y7 x0 x1 x2 x3 x4 x5 x6 x7 r0 r1 r2 r hr hx0 hy0 hx1 hy1 hx2 hy2 hx3 hy3 hx4 hy4 hx5 hy5 hx6 hy6 hx7 hy7

-- Non-vacuity: the hypotheses are met by a concrete state and the procedure really runs.
example : (stackRun Generated.u64_overflowing_add
    { stack := [4294967295, 4294967295, 0, 1] ++ List.replicate 16 9 }).toOption
    = some ([1, 0, 0] ++ List.replicate 16 9) := by decide

end Miden.C16
