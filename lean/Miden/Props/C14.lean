/-
  C14 — execution is deterministic; the `clk` instruction pushes the clock.
  The model has no capacity hints, tracing flags or decorators at all: their irrelevance is a
  statement about the Rust code and is decided by the correspondence/metamorphic run.
-/
import Miden.Lemmas.ExecInv
import Miden.Lemmas.ClockErasure
namespace Miden.C14
open Miden.Vm

/-- `clk` pushes the current clock value and changes nothing else. -/
theorem clk_pushes_clock (vm : Vm) :
    vm.step .clk = .ok { vm with stack := vm.clk :: vm.stack } := by
  simp [step, stepCore, setStack]

/-- Operations never advance the clock or write trace rows themselves: every row is accounted for
    by exactly one `tick`. -/
theorem ops_do_not_touch_clock (vm vm' : Vm) (op : Op) (h : vm.step op = .ok vm') :
    vm'.clk = vm.clk ∧ vm'.trace = vm.trace := step_clk h

/-- The result of executing a block is independent of the fuel (the model's only resource bound,
    the analogue of a capacity hint) once there is enough of it. -/
theorem fuel_irrelevant (env : Env) : ∀ (fuel : Nat),
    (∀ b vm vm', exec env fuel b vm = .ok vm' → exec env (fuel + 1) b vm = .ok vm') ∧
    (∀ vm vm', execDyn env fuel vm = .ok vm' → execDyn env (fuel + 1) vm = .ok vm') ∧
    (∀ body vm vm', loopIter env fuel body vm = .ok vm' →
      loopIter env (fuel + 1) body vm = .ok vm') := by
  intro fuel
  induction fuel with
  | zero =>
    refine ⟨?_, ?_, ?_⟩
    · intro b vm vm' h; simp [exec] at h
    · intro vm vm' h; simp [execDyn] at h
    · intro b vm vm' h; simp [loopIter] at h
  | succ n ih =>
    obtain ⟨ihE, ihD, ihL⟩ := ih
    refine ⟨?_, ?_, ?_⟩
    · intro b vm vm' h
      cases b with
      | span ops => simpa [exec] using h
      | join a b =>
        simp only [exec] at h
        rw [exec]
        split at h
        · cases h
        · rename_i v1 h1
          try simp only [h1]
          split at h
          · cases h
          · rename_i v2 h2
            simp only [ihE _ _ _ h2]
            split at h
            · cases h
            · rename_i v3 h3
              simp only [ihE _ _ _ h3]
              exact h
      | split t f =>
        simp only [exec] at h
        rw [exec]
        split at h
        · cases h
        · rename_i v1 h1
          try simp only [h1]
          split at h
          · rename_i hc
            try simp only [hc, if_true]
            split at h
            · cases h
            · rename_i v2 h2
              simp only [ihE _ _ _ h2]; exact h
          · rename_i hc
            try simp only [hc, if_false]
            split at h
            · rename_i hc0
              try simp only [hc0, if_true]
              split at h
              · cases h
              · rename_i v2 h2
                simp only [ihE _ _ _ h2]; exact h
            · cases h
      | loop body =>
        simp only [exec] at h
        rw [exec]
        split at h
        · cases h
        · rename_i v1 h1
          try simp only [h1]
          split at h
          · rename_i hc
            try simp only [hc, if_true]
            split at h
            · cases h
            · rename_i v2 h2
              simp only [ihE _ _ _ h2]; exact ihL _ _ _ h
          · rename_i hc
            try simp only [hc, if_false]
            split at h
            · rename_i hc0; (try simp only [hc0, if_true]); exact h
            · cases h
      | call target isSyscall =>
        simp only [exec] at h
        rw [exec]
        split at h
        · cases h
        · rename_i hk
          try simp only [hk, if_false]
          split at h
          · cases h
          · rename_i v1 h1
            try simp only [h1]
            split at h
            · cases h
            · rename_i v2 h2
              split at h2
              · rename_i hd
                simp only [hd, if_true] at h2 ⊢
                simp only [ihD _ _ h2]
                exact h
              · rename_i hd
                simp only [hd, if_false]
                split at h2
                · cases h2
                · rename_i blk hl
                  simp only [ihE _ _ _ h2]
                  exact h
      | dyn =>
        simp only [exec] at h
        rw [exec]
        exact ihD _ _ h
      | proxy t => simp [exec] at h
    · intro vm vm' h
      simp only [execDyn] at h
      rw [execDyn]
      split at h
      · split at h
        · cases h
        · rename_i v1 h1
          try simp only [h1]
          split at h
          · cases h
          · rename_i blk hl
            try simp only [hl]
            split at h
            · cases h
            · rename_i v2 h2
              simp only [ihE _ _ _ h2]; exact h
      · cases h
    · intro body vm vm' h
      simp only [loopIter] at h
      rw [loopIter]
      split at h
      · rename_i hc
        try simp only [hc, if_true]
        split at h
        · cases h
        · rename_i v1 h1
          try simp only [h1]
          split at h
          · cases h
          · rename_i v2 h2
            simp only [ihE _ _ _ h2]; exact ihL _ _ _ h
      · rename_i hc
        try simp only [hc, if_false]
        exact h

/-- Determinism across resource bounds: two sufficiently fuelled runs give the same result. -/
theorem exec_deterministic (env : Env) (b : Block) (vm v1 v2 : Vm) (f1 f2 : Nat)
    (h1 : exec env f1 b vm = .ok v1) (h2 : exec env f2 b vm = .ok v2) : v1 = v2 := by
  have lift : ∀ k f v, exec env f b vm = .ok v → exec env (f + k) b vm = .ok v := by
    intro k
    induction k with
    | zero => intro f v h; exact h
    | succ k ih => intro f v h; exact (fuel_irrelevant env (f + k)).1 _ _ _ (ih f v h)
  have a := lift f2 f1 v1 h1
  have b' := lift f1 f2 v2 h2
  rw [Nat.add_comm f2 f1] at b'
  rw [a] at b'
  cases b'; rfl

example : (({ stack := List.replicate 16 0, clk := 41 } : Vm).step .clk).toOption.map (·.stack.head!) = some 41 := by
  decide


/-! ### The clock is invisible to everything but CLK -/

/-- An operation other than CLK gives the same result at every clock value and decoder history:
    running it on the re-clocked state is re-clocking its result. -/
theorem op_result_independent_of_clock (vm : Vm) (op : Op) (c : Nat) (t : List Op) (h : op ≠ .clk) :
    (vm.reclk c t).step op = (vm.step op).map (fun r => r.reclk c t) :=
  step_reclk vm op c t h

/-- Executing a span that does not read the clock (SPAN row, batches with RESPAN rows and alignment
    NOOPs, END row — each row followed by a clock tick and the cycle-limit check) produces, up to clock
    and decoder history, exactly the state obtained by running its rows without any tick. -/
theorem span_result_independent_of_clock {env : Env} {fuel : Nat} {ops : List Op} {vm vm' : Vm}
    (hc : Op.clk ∉ spanRows ops) (h : Vm.exec env (fuel + 1) (.span ops) vm = .ok vm') :
    ∃ v, runOps (deRespan (spanRows ops)) vm = .ok v ∧ vm' = v.reclk vm'.clk vm'.trace :=
  exec_span hc h


end Miden.C14
