/-
  C06 — control flow follows the documented semantics (MAST level: `if` = SPLIT, `while` = LOOP).
  `repeat.n` and `exec` do not exist at MAST level (the assembler unrolls / inlines them); their
  equivalence with textual copies is checked on the real assembler by the correspondence run.
-/
import Miden.Lemmas.ExecInv
namespace Miden.C06
open Miden.Vm

/-- A non-binary condition at an `if` never takes either branch: execution fails. -/
theorem if_nonbinary_fails (env : Env) (fuel : Nat) (t f : Block) (vm : Vm)
    (h0 : vm.peek ≠ 0) (h1 : vm.peek ≠ 1) : ∀ vm', exec env fuel (.split t f) vm ≠ .ok vm' := by
  intro vm' h
  cases fuel with
  | zero => simp [exec] at h
  | succ n =>
    simp only [exec] at h
    split at h
    · cases h
    · simp only [h0, h1, if_false] at h
      cases h

/-- `if` executes exactly the branch selected by the popped value. -/
theorem if_selects (env : Env) (n : Nat) (t f : Block) (vm v1 : Vm)
    (hrow : vm.execRow env .drop .split = .ok v1) :
    (vm.peek = 1 → exec env (n + 1) (.split t f) vm =
        (match exec env n t v1 with | .error e => .error e | .ok v => v.execRow env .noop .end)) ∧
    (vm.peek = 0 → exec env (n + 1) (.split t f) vm =
        (match exec env n f v1 with | .error e => .error e | .ok v => v.execRow env .noop .end)) := by
  constructor
  · intro h; simp [exec, hrow, h]; cases exec env n t v1 <;> rfl
  · intro h; simp [exec, hrow, h]; cases exec env n f v1 <;> rfl

/-- A non-binary condition at loop entry fails. -/
theorem while_entry_nonbinary_fails (env : Env) (fuel : Nat) (body : Block) (vm : Vm)
    (h0 : vm.peek ≠ 0) (h1 : vm.peek ≠ 1) : ∀ vm', exec env fuel (.loop body) vm ≠ .ok vm' := by
  intro vm' h
  cases fuel with
  | zero => simp [exec] at h
  | succ n =>
    simp only [exec] at h
    split at h
    · cases h
    · simp only [h0, h1, if_false] at h
      cases h

/-- A non-binary value left on the stack by a loop iteration fails (it neither repeats nor exits). -/
theorem while_exit_nonbinary_fails (env : Env) (fuel : Nat) (body : Block) (vm : Vm)
    (h0 : vm.peek ≠ 0) (h1 : vm.peek ≠ 1) : ∀ vm', loopIter env fuel body vm ≠ .ok vm' := by
  intro vm' h
  cases fuel with
  | zero => simp [loopIter] at h
  | succ n =>
    simp only [loopIter, h0, h1, if_false] at h
    cases h

/-- A loop iterates exactly as long as the popped value is 1: with 0 at entry the body is skipped,
    with 1 the body runs and the decision is taken again on what it leaves on the stack. -/
theorem while_iterates (env : Env) (n : Nat) (body : Block) (vm v1 : Vm)
    (hrow : vm.execRow env .drop .loop = .ok v1) :
    (vm.peek = 0 → exec env (n + 1) (.loop body) vm = v1.execRow env .noop .end) ∧
    (vm.peek = 1 → exec env (n + 1) (.loop body) vm =
        (match exec env n body v1 with | .error e => .error e | .ok v => loopIter env n body v)) ∧
    (∀ v : Vm, v.peek = 0 → loopIter env (n + 1) body v = v.execRow env .drop .end) ∧
    (∀ v : Vm, v.peek = 1 → loopIter env (n + 1) body v =
        (match v.execRow env .drop .repeat with
         | .error e => .error e
         | .ok v' => match exec env n body v' with
           | .error e => .error e
           | .ok v'' => loopIter env n body v'')) := by
  refine ⟨?_, ?_, ?_, ?_⟩
  · intro h; simp [exec, hrow, h]
  · intro h; simp [exec, hrow, h]; cases exec env n body v1 <;> rfl
  · intro v h; simp [loopIter, h]
  · intro v h; simp [loopIter, h]
    cases execRow env v Op.drop Op.repeat with
    | error e => rfl
    | ok v' => simp only []; cases exec env n body v' <;> rfl

/-- JOIN runs its children in order on each other's result; nested structures therefore compose. -/
theorem join_sequences (env : Env) (n : Nat) (a b : Block) (vm v1 : Vm)
    (hrow : vm.execRow env .noop .join = .ok v1) :
    exec env (n + 1) (.join a b) vm =
      (match exec env n a v1 with
       | .error e => .error e
       | .ok v2 => match exec env n b v2 with
         | .error e => .error e
         | .ok v3 => v3.execRow env .noop .end) := by
  simp [exec, hrow]
  cases exec env n a v1 with
  | error e => rfl
  | ok v2 => simp only []; cases exec env n b v2 <;> rfl

-- Non-vacuity: concrete programs for each clause.
example : (exec {} 10 (.split (.span [.pad]) (.span [.incr])) { stack := 2 :: List.replicate 15 0 }).toOption = none := by
  decide
example : ((exec {} 10 (.loop (.span [.pad, .pad, .incr, .incr])) { stack := 1 :: List.replicate 15 0 }).toOption.map (·.clk)) = none := by
  decide
example : ((exec {} 10 (.loop (.span [.pad])) { stack := 1 :: List.replicate 15 0 }).toOption.map (·.clk)) = some 5 := by
  decide

end Miden.C06
