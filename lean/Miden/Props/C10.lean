/-
  C10 — serialised code and data round-trip.

  The instruction (de)serialisation tables are regenerated from the *source text* of
  `assembly/src/ast/nodes/serde/{mod,serialization,deserialization}.rs` on every run
  (`translators/serde_table.py`); the theorems below are re-checked against them.
  Byte-level round trips of whole ASTs, libraries, kernels, program info, stack inputs/outputs
  and proofs are run on the real code by the correspondence harness.
-/
import Miden.Generated.SerdeTable
import Miden.Model.Serde
namespace Miden.C10
open Miden Miden.Generated

/-- Every instruction variant is written with an opcode that the decoder maps back to the same
    variant, reading exactly the payload kinds that were written, in the same order. -/
theorem table_consistent :
    ∀ w ∈ serdeWriteTable, (w.2.1, w.1, w.2.2) ∈ serdeReadTable := by
  decide +kernel

/-- Conversely the decoder produces no variant the encoder would write differently. -/
theorem table_consistent_converse :
    ∀ r ∈ serdeReadTable, (r.2.1, r.1, r.2.2) ∈ serdeWriteTable := by
  decide +kernel

/-- Opcode bytes are pairwise distinct and fit in a byte; every written opcode has a byte. -/
theorem opcode_bytes_distinct :
    (serdeOpcodeBytes.map (·.2)).Nodup ∧ (serdeOpcodeBytes.map (·.1)).Nodup ∧
    (serdeOpcodeBytes.all (fun p => p.2 < 256) = true) ∧
    (∀ w ∈ serdeWriteTable, w.2.1 ∈ serdeOpcodeBytes.map (·.1)) := by
  decide +kernel

/-- No two instruction variants share an opcode. -/
theorem write_opcodes_distinct : (serdeWriteTable.map (·.2.1)).Nodup ∧ (serdeWriteTable.map (·.1)).Nodup := by
  decide +kernel

/-- Primitive payload encodings round-trip for every value in range. -/
theorem u16_roundtrip (v : Nat) (h : v < 65536) (rest : List Nat) :
    Serde.readU16 (Serde.writeU16 v ++ rest) = some (v, rest) := Serde.readU16_writeU16 v h rest

theorem u32_roundtrip (v : Nat) (h : v < 4294967296) (rest : List Nat) :
    Serde.readU32 (Serde.writeU32 v ++ rest) = some (v, rest) := Serde.readU32_writeU32 v h rest

theorem u64_roundtrip (v : Nat) (h : v < 18446744073709551616) (rest : List Nat) :
    Serde.readU64 (Serde.writeU64 v ++ rest) = some (v, rest) := Serde.readU64_writeU64 v h rest

/-- Stack inputs: length-prefixed canonical field elements; decode ∘ encode = id. -/
theorem stack_inputs_roundtrip (vals : List Nat) (hc : ∀ v ∈ vals, v < P) (hl : vals.length < 4294967296) :
    Serde.decodeStackInputs (Serde.encodeStackInputs vals) = some vals :=
  Serde.decodeStackInputs_encode vals hc hl

example : Serde.decodeStackInputs (Serde.encodeStackInputs [1, 2, 18446744069414584320]) = some [1, 2, 18446744069414584320] := by
  decide

end Miden.C10
