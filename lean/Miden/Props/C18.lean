/-
  C18 — standard-library memory, stack and collection utilities keep their contracts.

  Theorems are about `Generated.sys_truncate_stack` (the MAST the real assembler produces for
  `exec.sys::truncate_stack`, regenerated on every run).
-/
import Miden.Lemmas.Pure
import Miden.Lemmas.Trunc
import Miden.Lemmas.Memcopy
import Miden.Lemmas.PipeMem
import Miden.Lemmas.Forward
import Miden.Lemmas.ForwardAdv
import Miden.Lemmas.TruncTotal
import Miden.Generated.StdlibSys
namespace Miden.C18
open Miden
set_option linter.unusedSimpArgs false

/-- The MAST of `truncate_stack` has the documented shape: prologue span (save the top 16 in four
    locals, drop them, test the depth), the `while.true` loop, epilogue span (reload the locals). -/
def truncLoopBody : List Op :=
  [Op.drop, Op.drop, Op.drop, Op.drop, Op.sdepth, Op.push 16, Op.eq, Op.not]

theorem truncate_stack_shape :
    ∃ pro epi, Generated.sys_truncate_stack = .join (.join (.span pro) (.loop (.span truncLoopBody))) (.span epi) :=
  ⟨_, _, rfl⟩

/-- One iteration of the loop of `truncate_stack`: on any stack of depth ≥ 16 it removes four
    elements without going below 16 (zeros are shifted in) and leaves the continuation flag
    `depth ≠ 16` on top. -/
theorem truncate_loop_body_spec (a b c d : Nat) (r : List Nat) :
    runPure truncLoopBody (a :: b :: c :: d :: r)
      = .ok ((if (padN 16 r).length = 16 then 0 else 1) :: padN 16 r) := by
  have e1 : max 16 (max 15 (max 14 13)) = 16 := by decide
  have e2 : max 15 (max 16 (max 15 (max 14 13))) = 16 := by decide
  simp only [truncLoopBody, pure_exec, padN_padN, e1, e2]
  split
  · rw [rp_not _ _ (by omega) _, runPure_nil]; rfl
  · rw [rp_not _ _ (by omega) _, runPure_nil]; rfl

/-- The loop terminates: the depth strictly decreases while it is above 16. -/
theorem truncate_loop_measure (r : List Nat) (h : (padN 16 r).length ≠ 16) :
    (padN 16 r).length < r.length + 4 ∧ 16 < (padN 16 r).length := by
  unfold padN at *
  simp only [List.length_append, List.length_replicate] at *
  omega

/-- **truncate_stack leaves exactly the original top 16 elements for any deeper stack.**
    `Generated.sys_truncate_stack` is the MAST the real assembler produces for
    `exec.sys::truncate_stack` (regenerated on every run); `Vm.exec` is the executor model with clock,
    cycle limit and decoder rows.  For every environment, fuel, initial state whose stack is at least
    16 deep (any depth, any contents) and whose frame pointer leaves room for the procedure's four
    locals: if the execution completes, the final stack is the original top 16 elements, and the frame
    pointer and the context are restored.  (Proof: clock erasure for the three spans, symbolic
    execution of prologue and epilogue on (stack, fmp, memory) with memory as a map, induction on the
    depth for the `while.true` loop.) -/
theorem truncate_stack_exact (env : Env) (fuel : Nat) (vm vm' : Vm) (hl : 16 ≤ vm.stack.length)
    (hf1 : FMP_MIN ≤ vm.fmp) (hf2 : vm.fmp + 4 ≤ FMP_MAX)
    (h : Vm.exec env fuel Generated.sys_truncate_stack vm = .ok vm') :
    vm'.stack = vm.stack.take 16 ∧ vm'.fmp = vm.fmp ∧ vm'.ctx = vm.ctx :=
  Trunc.truncate_stack_spec env fuel vm vm' hl hf1 hf2 h

/-- The loop alone: from any depth it ends with depth exactly 16 (frame pointer, memory, context
    untouched). -/
theorem truncate_loop_exact (env : Env) (fuel : Nat) (vm vm' : Vm) (c : Nat) (t : List Nat) (F : Nat) (M : Mem)
    (C : Nat) (hd : Trunc.D vm (c :: t) F M C) (h16 : 16 ≤ t.length) (h1 : c = 1 ↔ t.length ≠ 16)
    (h0 : c = 0 ↔ t.length = 16) (h : Vm.exec env fuel (.loop (.span Trunc.bodyB)) vm = .ok vm') :
    ∃ s', Trunc.D vm' s' F M C ∧ s'.length = 16 :=
  Trunc.loop_spec env fuel vm vm' c t F M C hd h16 h1 h0 h

/-- **memcopy moves exactly the requested words.**  `Generated.mem_memcopy` is the MAST the real
    assembler produces for `exec.mem::memcopy` (regenerated on every run).  For every word count `n`
    (zero included) and every read / write pointer whose windows lie in the 32-bit address space —
    disjoint, overlapping either way, or identical — a completed execution consumes exactly
    `[n, read_ptr, write_ptr]`, leaves the rest of the stack (zero-padded to depth 16) untouched and
    leaves memory equal to `Memcopy.copyFwd`: the documented word-by-word copy, lowest address
    first; all other memory, the frame pointer and the context are unchanged. -/
theorem memcopy_exact (env : Env) (fuel : Nat) (vm vm' : Vm) (n r0 w0 : Nat) (rest : List Nat)
    (hs : vm.stack = n :: r0 :: w0 :: rest) (hrest : 13 ≤ rest.length)
    (hr : r0 + n ≤ 4294967296) (hw : w0 + n ≤ 4294967296)
    (h : Vm.exec env fuel Generated.mem_memcopy vm = .ok vm') :
    vm'.stack = padN 16 rest ∧ vm'.mem = Memcopy.copyFwd vm.ctx n r0 w0 vm.mem ∧ vm'.fmp = vm.fmp ∧
      vm'.ctx = vm.ctx :=
  Memcopy.memcopy_spec env fuel vm vm' n r0 w0 rest hs hrest hr hw h


/-! ### `mem::pipe_double_words_to_memory` -/

/-- For every initial hasher state `v` (capacity, rate), start address, number `K` of double words
    (end address at most 2^32) and EVERY advice tape: a completed execution of the MAST regenerated
    from stdlib/asm/mem.masm found at least `8K` elements on the tape, consumed exactly those, left
    memory equal to `PipeMem.pipeMem` (the tape written word by word from `start` upwards), the hasher
    state of `K` overwrite-mode sponge steps over the consumed elements, the write pointer at the end
    address, and frame pointer, context and the rest of the stack untouched. -/
theorem pipe_double_words_to_memory_exact (env : Env) (fuel : Nat) (vm vm' : Vm) (v : List Nat) (start K : Nat)
    (rest : List Nat) (hv : v.length = 12)
    (hs : vm.stack = v.reverse ++ start :: (start + 2 * K) :: rest) (hrest : 2 ≤ rest.length)
    (he : start + 2 * K ≤ 4294967296)
    (h : Vm.exec env fuel Generated.mem_pipe_double_words_to_memory vm = .ok vm') :
    8 * K ≤ vm.adv.length ∧ vm'.adv = vm.adv.drop (8 * K) ∧
      vm'.stack = padN 16 ((PipeMem.pipeState K v vm.adv).reverse ++ (start + 2 * K) :: rest) ∧
      vm'.mem = PipeMem.pipeMem vm.ctx K start vm.mem vm.adv ∧ vm'.fmp = vm.fmp ∧ vm'.ctx = vm.ctx :=
  PipeMem.pipe_double_words_spec env fuel vm vm' v start K rest hv hs hrest he h

/-- **`pipe_double_words_to_memory` completes exactly when the tape is long enough**: with fuel
    `≥ K + 4` and a cycle budget of `9·K + 22`, the executor completes if and only if the advice tape
    holds at least `8K` elements. -/
theorem pipe_double_words_completes_iff (env : Env) (fuel : Nat) (vm : Vm) (v : List Nat) (start K : Nat)
    (rest : List Nat) (hv : v.length = 12)
    (hs : vm.stack = v.reverse ++ start :: (start + 2 * K) :: rest) (hrest : 2 ≤ rest.length)
    (he : start + 2 * K ≤ 4294967296)
    (hf : K + 4 ≤ fuel) (hb : vm.clk + 9 * K + 22 ≤ env.maxCycles) :
    (∃ vm', Vm.exec env fuel Generated.mem_pipe_double_words_to_memory vm = .ok vm') ↔ 8 * K ≤ vm.adv.length :=
  ⟨fun ⟨vm', h⟩ => (PipeMem.pipe_double_words_spec env fuel vm vm' v start K rest hv hs hrest he h).1,
   fun ht => PipeMem.pipe_double_words_total env fuel vm v start K rest hv hs hrest he ht hf hb⟩

/-- What was piped can be read back: word `j < 2K` above `start` holds tape elements `4j .. 4j+3`. -/
theorem piped_memory_holds_the_tape (ctx : Nat) (tape : List Nat) (a : Nat) (m : Mem) (K j : Nat) (hj : j < 2 * K) :
    (PipeMem.pipeMem ctx K a m tape).read ctx (a + j) = Word.ofList ((tape.drop (4 * j)).take 4) :=
  PipeMem.pipeMem_read ctx tape a m K j hj

/-- Addresses outside `[start, start + 2K)` are untouched. -/
theorem piped_memory_frame (ctx : Nat) (tape : List Nat) (a : Nat) (m : Mem) (K b : Nat) (hb : b < a ∨ a + 2 * K ≤ b) :
    (PipeMem.pipeMem ctx K a m tape).read ctx b = m.read ctx b :=
  PipeMem.pipeMem_frame ctx tape a m K b hb

/-- From the all-zero state the digest part of the piped hasher state is `Rpo256::hash_elements` of
    the consumed tape elements - the commitment `pipe_preimage_to_memory` compares. -/
theorem piped_state_is_hash_elements (K : Nat) (tape : List Nat) (hl : 8 * K ≤ tape.length) :
    Rpo.digestOf (PipeMem.pipeState K (List.replicate 12 0) tape) = Rpo.hashElements (tape.take (8 * K)) :=
  PipeMem.pipeState_is_hashElements K tape hl

-- the hypotheses are met and the loop really runs (one double word); a short tape makes it fail
example : ((Vm.exec {} 20 Generated.mem_pipe_double_words_to_memory
      { stack := List.replicate 12 0 ++ [100, 102, 5, 6], adv := [1, 2, 3, 4, 5, 6, 7, 8, 9] }).toOption.map
      (fun v => (v.adv, v.mem.read 0 100, v.mem.read 0 101, v.stack.drop 12)))
    = some ([9], ⟨1, 2, 3, 4⟩, ⟨5, 6, 7, 8⟩, [102, 5, 6, 0]) := by decide +kernel
example : (Vm.exec {} 20 Generated.mem_pipe_double_words_to_memory
      { stack := List.replicate 12 0 ++ [100, 102, 5, 6], adv := [1, 2, 3, 4, 5, 6, 7] }).toOption = none := by
  decide +kernel

/-- **`truncate_stack` terminates**: for every stack at least 16 deep and a frame pointer with room
    for the four locals, with fuel `≥ (depth − 13)/4 + 4` and a cycle budget of
    `11·((depth − 13)/4) + 80`, the executor completes and leaves exactly the original top 16. -/
theorem truncate_stack_terminates (env : Env) (fuel : Nat) (vm : Vm) (hl : 16 ≤ vm.stack.length)
    (hf1 : FMP_MIN ≤ vm.fmp) (hf2 : vm.fmp + 4 ≤ FMP_MAX)
    (hf : (vm.stack.length - 13) / 4 + 4 ≤ fuel)
    (hb : vm.clk + 11 * ((vm.stack.length - 13) / 4) + 80 ≤ env.maxCycles) :
    ∃ vm', Vm.exec env fuel Generated.sys_truncate_stack vm = .ok vm' ∧ vm'.stack = vm.stack.take 16 := by
  obtain ⟨vm', h⟩ := Trunc.truncate_stack_total env fuel vm hl hf1 hf2 hf hb
  exact ⟨vm', h, (Trunc.truncate_stack_spec env fuel vm vm' hl hf1 hf2 h).1⟩

/-- **`memcopy` terminates**: for every word count `n`, pointers in the 32-bit address space, fuel
    `≥ n + 4` and a cycle budget of `19·n + 25`, the executor completes (the result is then the one of
    `memcopy_exact`): total correctness, not only partial. -/
theorem memcopy_terminates (env : Env) (fuel : Nat) (vm : Vm) (n r0 w0 : Nat) (rest : List Nat)
    (hs : vm.stack = n :: r0 :: w0 :: rest) (hrest : 13 ≤ rest.length)
    (hr : r0 + n ≤ 4294967296) (hw : w0 + n ≤ 4294967296)
    (hf : n + 4 ≤ fuel) (hb : vm.clk + 19 * n + 25 ≤ env.maxCycles) :
    ∃ vm', Vm.exec env fuel Generated.mem_memcopy vm = .ok vm' ∧
      vm'.stack = padN 16 rest ∧ vm'.mem = Memcopy.copyFwd vm.ctx n r0 w0 vm.mem := by
  obtain ⟨vm', h⟩ := Memcopy.memcopy_total env fuel vm n r0 w0 rest hs hrest hr hw hf hb
  obtain ⟨h1, h2, _⟩ := Memcopy.memcopy_spec env fuel vm vm' n r0 w0 rest hs hrest hr hw h
  exact ⟨vm', h, h1, h2⟩

/-- Zero length copies nothing; one more word is one more write after the shorter copy. -/
theorem copyFwd_zero (ctx r w : Nat) (m : Mem) : Memcopy.copyFwd ctx 0 r w m = m := rfl
theorem copyFwd_succ (ctx i r w : Nat) (m : Mem) :
    Memcopy.copyFwd ctx (i + 1) r w m
      = (Memcopy.copyFwd ctx i r w m).write ctx (w + i) ((Memcopy.copyFwd ctx i r w m).read ctx (r + i)) := rfl

/-- With disjoint windows every copied word is the original word of the source. -/
theorem copyFwd_disjoint (ctx r w : Nat) (m : Mem) (n : Nat) (hd : r + n ≤ w ∨ w + n ≤ r) :
    ∀ j, j < n → (Memcopy.copyFwd ctx n r w m).read ctx (w + j) = m.read ctx (r + j) := by
  -- reads of the source window are never affected by the writes
  have src : ∀ i, i ≤ n → ∀ a, (a < w ∨ w + i ≤ a) → (Memcopy.copyFwd ctx i r w m).read ctx a = m.read ctx a := by
    intro i
    induction i with
    | zero => intro _ a _; rfl
    | succ i ih =>
      intro hi a ha
      rw [copyFwd_succ, Mem.read_write_ne _ _ _ _ _ (by omega)]
      exact ih (by omega) a (by omega)
  induction n with
  | zero => intro j hj; omega
  | succ n ih =>
    intro j hj
    rw [copyFwd_succ]
    by_cases hjn : j = n
    · subst hjn
      rw [Mem.read_write_same]
      exact src j (by omega) (r + j) (by omega)
    · rw [Mem.read_write_ne _ _ _ _ _ (by omega)]
      exact ih (by omega) (fun i hi a ha => src i (by omega) a ha) j (by omega)

-- Non-vacuity: an overlapping copy (read window 10..11, write window 11..12) on the executor model.
example :
    ((Vm.exec {} 60 Generated.mem_memcopy
        { stack := [2, 10, 11] ++ List.replicate 13 7,
          mem := [((0, 10), ⟨1, 2, 3, 4⟩), ((0, 11), ⟨5, 6, 7, 8⟩)] }).toOption.map
      (fun v => (v.stack, v.mem.read 0 10, v.mem.read 0 11, v.mem.read 0 12)))
    = some (List.replicate 13 7 ++ [0, 0, 0], ⟨1, 2, 3, 4⟩, ⟨1, 2, 3, 4⟩, ⟨1, 2, 3, 4⟩) := by decide

-- Non-vacuity: a concrete run of the executor model on the regenerated MAST completes and truncates.
example : ((Vm.exec {} 40 Generated.sys_truncate_stack { stack := List.range 23 }).toOption.map (·.stack))
    = some (List.range 16) := by decide

example : (runPure truncLoopBody (List.range 23)).toOption = some (1 :: (List.range 23).drop 4) := by decide
example : (runPure truncLoopBody (List.range 18)).toOption
    = some (0 :: ((List.range 18).drop 4 ++ [0, 0])) := by decide

end Miden.C18
