/-
  C18 — standard-library memory, stack and collection utilities keep their contracts.

  Theorems are about `Generated.sys_truncate_stack` (the MAST the real assembler produces for
  `exec.sys::truncate_stack`, regenerated on every run).
-/
import Miden.Lemmas.Pure
import Miden.Generated.StdlibSys
namespace Miden.C18
open Miden
set_option linter.unusedSimpArgs false

/-- The MAST of `truncate_stack` has the documented shape: prologue span (save the top 16 in four
    locals, drop them, test the depth), the `while.true` loop, epilogue span (reload the locals). -/
def truncLoopBody : List Op :=
  [Op.drop, Op.drop, Op.drop, Op.drop, Op.sdepth, Op.push 16, Op.eq, Op.not]

theorem truncate_stack_shape :
    ∃ pro epi, Generated.sys_truncate_stack = .join (.join (.span pro) (.loop (.span truncLoopBody))) (.span epi) :=
  ⟨_, _, rfl⟩

/-- One iteration of the loop of `truncate_stack`: on any stack of depth ≥ 16 it removes four
    elements without going below 16 (zeros are shifted in) and leaves the continuation flag
    `depth ≠ 16` on top. -/
theorem truncate_loop_body_spec (a b c d : Nat) (r : List Nat) :
    runPure truncLoopBody (a :: b :: c :: d :: r)
      = .ok ((if (padN 16 r).length = 16 then 0 else 1) :: padN 16 r) := by
  have e1 : max 16 (max 15 (max 14 13)) = 16 := by decide
  have e2 : max 15 (max 16 (max 15 (max 14 13))) = 16 := by decide
  simp only [truncLoopBody, pure_exec, padN_padN, e1, e2]
  split
  · rw [rp_not _ _ (by omega) _, runPure_nil]; rfl
  · rw [rp_not _ _ (by omega) _, runPure_nil]; rfl

/-- The loop terminates: the depth strictly decreases while it is above 16. -/
theorem truncate_loop_measure (r : List Nat) (h : (padN 16 r).length ≠ 16) :
    (padN 16 r).length < r.length + 4 ∧ 16 < (padN 16 r).length := by
  unfold padN at *
  simp only [List.length_append, List.length_replicate] at *
  omega

example : (runPure truncLoopBody (List.range 23)).toOption = some (1 :: (List.range 23).drop 4) := by decide
example : (runPure truncLoopBody (List.range 18)).toOption
    = some (0 :: ((List.range 18).drop 4 ++ [0, 0])) := by decide

end Miden.C18
