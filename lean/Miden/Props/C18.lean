/-
  C18 — standard-library memory, stack and collection utilities keep their contracts.

  Theorems are about `Generated.sys_truncate_stack` (the MAST the real assembler produces for
  `exec.sys::truncate_stack`, regenerated on every run).
-/
import Miden.Lemmas.Pure
import Miden.Lemmas.Trunc
import Miden.Generated.StdlibSys
namespace Miden.C18
open Miden
set_option linter.unusedSimpArgs false

/-- The MAST of `truncate_stack` has the documented shape: prologue span (save the top 16 in four
    locals, drop them, test the depth), the `while.true` loop, epilogue span (reload the locals). -/
def truncLoopBody : List Op :=
  [Op.drop, Op.drop, Op.drop, Op.drop, Op.sdepth, Op.push 16, Op.eq, Op.not]

theorem truncate_stack_shape :
    ∃ pro epi, Generated.sys_truncate_stack = .join (.join (.span pro) (.loop (.span truncLoopBody))) (.span epi) :=
  ⟨_, _, rfl⟩

/-- One iteration of the loop of `truncate_stack`: on any stack of depth ≥ 16 it removes four
    elements without going below 16 (zeros are shifted in) and leaves the continuation flag
    `depth ≠ 16` on top. -/
theorem truncate_loop_body_spec (a b c d : Nat) (r : List Nat) :
    runPure truncLoopBody (a :: b :: c :: d :: r)
      = .ok ((if (padN 16 r).length = 16 then 0 else 1) :: padN 16 r) := by
  have e1 : max 16 (max 15 (max 14 13)) = 16 := by decide
  have e2 : max 15 (max 16 (max 15 (max 14 13))) = 16 := by decide
  simp only [truncLoopBody, pure_exec, padN_padN, e1, e2]
  split
  · rw [rp_not _ _ (by omega) _, runPure_nil]; rfl
  · rw [rp_not _ _ (by omega) _, runPure_nil]; rfl

/-- The loop terminates: the depth strictly decreases while it is above 16. -/
theorem truncate_loop_measure (r : List Nat) (h : (padN 16 r).length ≠ 16) :
    (padN 16 r).length < r.length + 4 ∧ 16 < (padN 16 r).length := by
  unfold padN at *
  simp only [List.length_append, List.length_replicate] at *
  omega

/-- **truncate_stack leaves exactly the original top 16 elements for any deeper stack.**
    `Generated.sys_truncate_stack` is the MAST the real assembler produces for
    `exec.sys::truncate_stack` (regenerated on every run); `Vm.exec` is the executor model with clock,
    cycle limit and decoder rows.  For every environment, fuel, initial state whose stack is at least
    16 deep (any depth, any contents) and whose frame pointer leaves room for the procedure's four
    locals: if the execution completes, the final stack is the original top 16 elements, and the frame
    pointer and the context are restored.  (Proof: clock erasure for the three spans, symbolic
    execution of prologue and epilogue on (stack, fmp, memory) with memory as a map, induction on the
    depth for the `while.true` loop.) -/
theorem truncate_stack_exact (env : Env) (fuel : Nat) (vm vm' : Vm) (hl : 16 ≤ vm.stack.length)
    (hf1 : FMP_MIN ≤ vm.fmp) (hf2 : vm.fmp + 4 ≤ FMP_MAX)
    (h : Vm.exec env fuel Generated.sys_truncate_stack vm = .ok vm') :
    vm'.stack = vm.stack.take 16 ∧ vm'.fmp = vm.fmp ∧ vm'.ctx = vm.ctx :=
  Trunc.truncate_stack_spec env fuel vm vm' hl hf1 hf2 h

/-- The loop alone: from any depth it ends with depth exactly 16 (frame pointer, memory, context
    untouched). -/
theorem truncate_loop_exact (env : Env) (fuel : Nat) (vm vm' : Vm) (c : Nat) (t : List Nat) (F : Nat) (M : Mem)
    (C : Nat) (hd : Trunc.D vm (c :: t) F M C) (h16 : 16 ≤ t.length) (h1 : c = 1 ↔ t.length ≠ 16)
    (h0 : c = 0 ↔ t.length = 16) (h : Vm.exec env fuel (.loop (.span Trunc.bodyB)) vm = .ok vm') :
    ∃ s', Trunc.D vm' s' F M C ∧ s'.length = 16 :=
  Trunc.loop_spec env fuel vm vm' c t F M C hd h16 h1 h0 h

-- Non-vacuity: a concrete run of the executor model on the regenerated MAST completes and truncates.
example : ((Vm.exec {} 40 Generated.sys_truncate_stack { stack := List.range 23 }).toOption.map (·.stack))
    = some (List.range 16) := by decide

example : (runPure truncLoopBody (List.range 23)).toOption = some (1 :: (List.range 23).drop 4) := by decide
example : (runPure truncLoopBody (List.range 18)).toOption
    = some (0 :: ((List.range 18).drop 4 ++ [0, 0])) := by decide

end Miden.C18
