/-
  C01 — every successful execution is provable and its proof verifies.

  Completeness of the STARK itself (winterfell's prover/verifier: FRI, DEEP-ALI, random coin) is not
  modelled: it is exercised on every run (real `prove` → bytes → `verify` for every generated
  program and each of the four option sets).  Proved here is what Miden adds on top: the option
  sets the prover uses are exactly ones the verifier accepts for the tag the prover writes, their
  conjectured security level (winterfell's formula) is at least the configured one for every trace
  length that can occur, and the proof envelope survives the byte round trip.
-/
import Miden.Generated.ProvingOpts
import Miden.Props.C03
import Mathlib.Tactic.NormNum
namespace Miden.C01
open Miden

/-- Each standard proving option set is accepted by the verifier under the hash-function tag the
    prover attaches to it (the tables are the ones compiled into the crates, regenerated each run). -/
theorem accepted_options_cover_prover :
    ∀ s ∈ Generated.provingOptionSets, s.2.2.2 ∈ acceptable s.2.1 := by
  decide

/-- The security level winterfell reports for the 96-bit sets is ≥ 96 for every trace of up to 2^28
    rows, and for the 128-bit sets ≥ 128 for every trace length up to 2^32. -/
theorem security_level_ge (logLen : Nat) :
    (logLen ≤ 28 → 96 ≤ conjecturedSecurity REGULAR_96 logLen 96 ∧
                    96 ≤ conjecturedSecurity RECURSIVE_96 logLen 128) ∧
    (logLen ≤ 32 → 128 ≤ conjecturedSecurity REGULAR_128 logLen 128 ∧
                    128 ≤ conjecturedSecurity RECURSIVE_128 logLen 128) := by
  have l8 : Nat.log2 8 = 3 := by decide
  have l16 : Nat.log2 16 = 4 := by decide
  constructor
  · intro h
    simp only [conjecturedSecurity, REGULAR_96, RECURSIVE_96, l8]
    norm_num
    omega
  · intro h
    simp only [conjecturedSecurity, REGULAR_128, RECURSIVE_128, l16]
    norm_num
    omega

/-- The reported level for the generated sets, with the generated collision resistances, at the
    trace lengths the quick run actually proves (2^6 … 2^14). -/
theorem generated_sets_meet_their_level :
    ∀ s ∈ Generated.provingOptionSets, ∀ k ∈ [6, 7, 8, 9, 10, 11, 12, 13, 14],
      s.2.2.1 ≤ conjecturedSecurity s.2.2.2 k (Generated.collisionResistance.getD s.2.1 0) := by
  decide

/-- The proof envelope round-trips: tag byte first, any non-empty body. -/
theorem proof_envelope_roundtrip (tag : Nat) (body : List Nat) (ht : tag ≤ 2) (hb : body ≠ []) :
    proofFromBytes (proofToBytes tag body) = some (tag, body) := by
  cases body with
  | nil => exact absurd rfl hb
  | cons b rest => simp [proofFromBytes, proofToBytes, hashTag, ht]

/-- The trace a proof is generated from always has room: see `C03.trace_len_ok`. -/
theorem trace_has_room (clk r c : Nat) : clk + 2 ≤ traceLen clk r c :=
  (C03.trace_len_ok clk r c).1

example : (Generated.provingOptionSets.map (·.2.1)) = [0, 1, 2, 2] := by decide

end Miden.C01
