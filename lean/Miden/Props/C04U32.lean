/-
  C04 (continued) — soundness of the stack AIR for the remaining u32 operations and the operations
  whose pushed value is not a stack-AIR matter (PUSH, ADVPOP: only the shift is enforced).
  The u32 statements are the field-level contract: the helper registers `hp 0..3` are the 16-bit
  limbs (range-checked through the range checker, C03/C12) whose aggregation the operands / results
  must equal; the integer reading of these equations is the range-check contract named in DESIGN.md.
-/
import Miden.Lemmas.AirTac
namespace Miden.C04
open Miden Miden.Air
variable {F : Type} [Field F]
open Classical

/-- U32ADD3 (76): `a + b + c` equals the 48-bit aggregation of the limbs; low 32 bits and carry are
    the results; the rest shifts left by one. -/
theorem air_sound_u32add3 (cur nxt : Row F) (hop : cur.opcode = 76) (h : Holds cur nxt) :
    cur.st 0 + cur.st 1 + cur.st 2 = 4294967296 * cur.hp 2 + (65536 * cur.hp 1 + cur.hp 0) ∧
    nxt.st 1 = 65536 * cur.hp 1 + cur.hp 0 ∧ nxt.st 0 = 65536 * cur.hp 3 + cur.hp 2 ∧
    LeftFrom cur nxt 3 := by
  air_simp hop h
  simp only [vLo, vHi, v48, c, two16, two32] at hu
  obtain ⟨u1, u2, u3⟩ := hu
  exact ⟨by simpa using u3, by simpa using u1, by simpa using u2, by shift_tac⟩

/-- U32SUB (66): `b = a + diff - 2^32 * borrow` with a binary borrow; the difference is the 32-bit
    aggregation of the limbs. -/
theorem air_sound_u32sub (cur nxt : Row F) (hop : cur.opcode = 66) (h : Holds cur nxt) :
    cur.st 1 = cur.st 0 + nxt.st 1 - 4294967296 * nxt.st 0 ∧ (nxt.st 0 = 0 ∨ nxt.st 0 = 1) ∧
    nxt.st 1 = 65536 * cur.hp 1 + cur.hp 0 ∧ CopyFrom cur nxt 2 := by
  air_simp hop h
  simp only [vLo, vHi, c, two16, two32] at hu
  obtain ⟨u1, u2, u3⟩ := hu
  refine ⟨by simpa using u2, ?_, by simpa using u1, by shift_tac⟩
  have hb : nxt.st 0 * (nxt.st 0 - 1) = 0 := by linear_combination u3
  rcases mul_eq_zero.mp hb with h0 | h1
  · exact Or.inl h0
  · exact Or.inr (by linear_combination h1)

/-- U32MUL (68): the product equals the 64-bit aggregation of the four limbs; the two 32-bit halves
    are the results. -/
theorem air_sound_u32mul (cur nxt : Row F) (hop : cur.opcode = 68) (h : Holds cur nxt) :
    cur.st 0 * cur.st 1 = 4294967296 * (65536 * cur.hp 3 + cur.hp 2) + (65536 * cur.hp 1 + cur.hp 0) ∧
    nxt.st 1 = 65536 * cur.hp 1 + cur.hp 0 ∧ nxt.st 0 = 65536 * cur.hp 3 + cur.hp 2 ∧
    CopyFrom cur nxt 2 := by
  air_simp hop h
  simp only [vLo, vHi, v64, v48, c, two16, two32, two48] at hu
  obtain ⟨_, u1, u2, u3⟩ := hu
  exact ⟨by push_cast at u3; linear_combination u3, by simpa using u1, by simpa using u2, by shift_tac⟩

/-- U32MADD (78): `a * b + c` equals the 64-bit aggregation; the rest shifts left by one. -/
theorem air_sound_u32madd (cur nxt : Row F) (hop : cur.opcode = 78) (h : Holds cur nxt) :
    cur.st 0 * cur.st 1 + cur.st 2
      = 4294967296 * (65536 * cur.hp 3 + cur.hp 2) + (65536 * cur.hp 1 + cur.hp 0) ∧
    nxt.st 1 = 65536 * cur.hp 1 + cur.hp 0 ∧ nxt.st 0 = 65536 * cur.hp 3 + cur.hp 2 ∧
    LeftFrom cur nxt 3 := by
  air_simp hop h
  simp only [vLo, vHi, v64, v48, c, two16, two32, two48] at hu
  obtain ⟨_, u1, u2, u3⟩ := hu
  exact ⟨by push_cast at u3; linear_combination u3, by simpa using u1, by simpa using u2, by shift_tac⟩

/-- U32SPLIT (72): the operand equals the 64-bit aggregation of the limbs; the halves are pushed. -/
theorem air_sound_u32split (cur nxt : Row F) (hop : cur.opcode = 72) (h : Holds cur nxt) :
    cur.st 0 = 4294967296 * (65536 * cur.hp 3 + cur.hp 2) + (65536 * cur.hp 1 + cur.hp 0) ∧
    nxt.st 1 = 65536 * cur.hp 1 + cur.hp 0 ∧ nxt.st 0 = 65536 * cur.hp 3 + cur.hp 2 ∧
    RightFrom cur nxt 1 ∧ nxt.b0 = cur.b0 + 1 := by
  air_simp hop h
  simp only [vLo, vHi, v64, v48, c, two16, two32, two48] at hu
  obtain ⟨_, u1, u2, u3⟩ := hu
  exact ⟨by push_cast at u3; linear_combination u3, by simpa using u1, by simpa using u2, by shift_tac, by linear_combination ho.1⟩

/-- U32DIV (70): `b = a * q + r` with `b - q` and `a - r - 1` equal to range-checked aggregations
    (i.e. `q ≤ b` and `r < a` under the range-check contract). -/
theorem air_sound_u32div (cur nxt : Row F) (hop : cur.opcode = 70) (h : Holds cur nxt) :
    cur.st 0 * nxt.st 1 + nxt.st 0 = cur.st 1 ∧
    cur.st 1 - nxt.st 1 = 65536 * cur.hp 1 + cur.hp 0 ∧
    cur.st 0 - nxt.st 0 = 65536 * cur.hp 3 + cur.hp 2 + 1 ∧ CopyFrom cur nxt 2 := by
  air_simp hop h
  simp only [vLo, vHi, c, two16] at hu
  obtain ⟨u1, u2, u3⟩ := hu
  exact ⟨by simpa using u1, by linear_combination u2, by linear_combination u3, by shift_tac⟩

/-- PUSH (100) and ADVPOP (61): everything moves one slot down, depth and overflow address follow
    (the pushed value itself comes from the decoder / advice provider, not from the stack AIR). -/
theorem air_sound_push (cur nxt : Row F) (hop : cur.opcode = 100) (h : Holds cur nxt) :
    RightFrom cur nxt 0 ∧ nxt.b0 = cur.b0 + 1 ∧ nxt.b1 = cur.clk := by
  air_simp hop h
  exact ⟨by shift_tac, by linear_combination ho.1, ho.2.2⟩

theorem air_sound_advpop (cur nxt : Row F) (hop : cur.opcode = 61) (h : Holds cur nxt) :
    RightFrom cur nxt 0 ∧ nxt.b0 = cur.b0 + 1 ∧ nxt.b1 = cur.clk := by
  air_simp hop h
  exact ⟨by shift_tac, by linear_combination ho.1, ho.2.2⟩

end Miden.C04
