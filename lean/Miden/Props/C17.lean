/-
  C17 — standard-library hash functions agree with their reference definitions.

  Theorems are about `Generated.sha256_*` / `Generated.native_*`: the operation lists the real
  assembler produces from stdlib/asm/crypto/hashes/*.masm (regenerated on every run), against the
  reference definitions of `Spec/Hashes.lean` (FIPS 180-4, transcribed independently of the code).
  They hold for every 32-bit input word and every stack below (≥ 16 deep so that no zero padding
  is involved), which is returned untouched.

  `native::hash_memory_even` (the RPO sponge loop over memory) is proved whole, for every number of
  double words, and tied to the model's `Rpo.hashElements` (= `Rpo256::hash_elements`, itself
  compared with miden-crypto on every run).  The other whole-function statements (`hash_2to1`,
  `hash_1to1`, sha256 `hash_memory`, BLAKE3, Keccak-256) are not
  proved: they are decided by the three-way correspondence run (real VM = reference crates = Lean
  reference = Lean executor on the compiled MAST); see `sha256_compress_partial` below for what is
  missing.
-/
import Miden.Lemmas.HashTac
import Miden.Lemmas.HashMem
import Miden.Lemmas.Forward
namespace Miden.C17
open Miden Spec.H
set_option linter.unusedSimpArgs false
set_option linter.unusedVariables false


macro "pads" r:ident hr:ident : tactic => `(tactic| (
  have p1 : padN 1 $r = $r := padN_of_le (by omega)
  have p2 : padN 2 $r = $r := padN_of_le (by omega)
  have p3 : padN 3 $r = $r := padN_of_le (by omega)
  have p4 : padN 4 $r = $r := padN_of_le (by omega)
  have p5 : padN 5 $r = $r := padN_of_le (by omega)
  have p6 : padN 6 $r = $r := padN_of_le (by omega)
  have p7 : padN 7 $r = $r := padN_of_le (by omega)
  have p8 : padN 8 $r = $r := padN_of_le (by omega)
  have p9 : padN 9 $r = $r := padN_of_le (by omega)
  have p10 : padN 10 $r = $r := padN_of_le (by omega)
  have p11 : padN 11 $r = $r := padN_of_le (by omega)
  have p12 : padN 12 $r = $r := padN_of_le (by omega)
  have p13 : padN 13 $r = $r := padN_of_le (by omega)
  have p14 : padN 14 $r = $r := padN_of_le (by omega)
  have p15 : padN 15 $r = $r := padN_of_le (by omega)
  have p16 : padN 16 $r = $r := padN_of_le (by omega)))

theorem xor_assoc_nat (a b c : Nat) : Nat.xor (Nat.xor a b) c = Nat.xor a (Nat.xor b c) := Nat.xor_assoc a b c
theorem land_comm_nat (a b : Nat) : Nat.land a b = Nat.land b a := Nat.and_comm a b

/-- adding 32-bit words the way the VM does (`u32add3 drop u32add drop`) is addition modulo 2^32 -/
theorem add3_mod (b s1 s0 d : Nat) (hb : b < two32) (h1 : s1 < two32) (h0 : s0 < two32) (hd : d < two32) :
    splitLo (fadd d (splitLo ((b + s1 + s0) % two64 % P))) = (s1 + b + s0 + d) % m32 := by
  simp only [splitLo, fadd, two64, two32, P, m32] at *
  omega

theorem sched_pure (a b c d : Nat) (r : List Nat) (ha : a < two32) (hb : b < two32) (hc : c < two32) (hd : d < two32) (hr : 16 ≤ r.length) :
    runPure Generated.sha256_compute_message_schedule_word (a :: b :: c :: d :: r)
      = .ok ((Sha256.ssig1 a + b + Sha256.ssig0 c + d) % m32 :: r) := by
  pads r hr
  pure_exec Generated.sha256_compute_message_schedule_word
  rw [add3_mod _ _ _ _ hb (by u32b) (by u32b) hd]
  simp only [Sha256.ssig0, Sha256.ssig1, xor3, xor_assoc_nat]


theorem round_arith (CH k w BS1 h d MJ BS0 : Nat) (h1 : CH < two32) (h2 : k < two32) (h3 : w < two32)
    (h4 : BS1 < two32) (h5 : h < two32) (h6 : d < two32) (h7 : MJ < two32) (h8 : BS0 < two32) :
    splitLo (fadd d (splitLo ((splitLo ((CH + k + w) % two64 % P) + BS1 + h) % two64 % P)))
      = (d + (h + BS1 + CH + k + w)) % m32 ∧
    splitLo (fadd (splitLo ((splitLo ((CH + k + w) % two64 % P) + BS1 + h) % two64 % P)) (splitLo (fadd MJ BS0)))
      = ((h + BS1 + CH + k + w) + (BS0 + MJ)) % m32 := by
  simp only [splitLo, fadd, two64, two32, P, m32] at *
  omega

theorem ch_lt (x y z : Nat) (hx : x < two32) (hz : z < two32) : Sha256.ch x y z < two32 := by
  unfold Sha256.ch; u32b
theorem maj_lt (x y z : Nat) (hx : x < two32) (hy : y < two32) : Sha256.maj x y z < two32 := by
  unfold Sha256.maj xor3; u32b
theorem bsig0_lt (x : Nat) (hx : x < two32) : Sha256.bsig0 x < two32 := by
  unfold Sha256.bsig0 xor3; u32b
theorem bsig1_lt (x : Nat) (hx : x < two32) : Sha256.bsig1 x < two32 := by
  unfold Sha256.bsig1 xor3; u32b

theorem round_pure (a b c d e f g h k w : Nat) (r : List Nat) (ha : a < two32) (hb : b < two32) (hc : c < two32) (hd : d < two32)
   (he : e < two32) (hf : f < two32) (hg : g < two32) (hh : h < two32) (hk : k < two32) (hw : w < two32)
   (x0 x1 x2 x3 x4 x5 : Nat) (hr : 16 ≤ r.length) :
    runPure Generated.sha256_consume_message_word (a :: b :: c :: d :: e :: f :: g :: h :: k :: w :: x0 :: x1 :: x2 :: x3 :: x4 :: x5 :: r)
      = .ok (Sha256.round [a, b, c, d, e, f, g, h] (k, w) ++ x0 :: x1 :: x2 :: x3 :: x4 :: x5 :: r) := by
  pads r hr
  pure_exec Generated.sha256_consume_message_word
  have h_ch : (Nat.land f e).xor ((not32 e).land g) = Sha256.ch e f g := by
    simp only [Sha256.ch]; rw [land_comm_nat f e]
  have h_bs1 : (rotr32 e 6).xor ((rotr32 e 11).xor (rotr32 e 25)) = Sha256.bsig1 e := by
    simp only [Sha256.bsig1, xor3, xor_assoc_nat]
  have h_mj : (Nat.land b a).xor ((Nat.land a c).xor (Nat.land b c)) = Sha256.maj a b c := by
    simp only [Sha256.maj, xor3, xor_assoc_nat]; rw [land_comm_nat b a]
  have h_bs0 : (rotr32 a 2).xor ((rotr32 a 13).xor (rotr32 a 22)) = Sha256.bsig0 a := by
    simp only [Sha256.bsig0, xor3, xor_assoc_nat]
  rw [h_ch, h_bs1, h_mj, h_bs0]
  obtain ⟨e1, e2⟩ := round_arith (Sha256.ch e f g) k w (Sha256.bsig1 e) h d (Sha256.maj a b c) (Sha256.bsig0 a)
    (ch_lt _ _ _ he hg) hk hw (bsig1_lt _ he) hh hd (maj_lt _ _ _ ha hb) (bsig0_lt _ ha)
  rw [e1, e2]
  simp only [Sha256.round, List.cons_append, List.nil_append, Nat.add_comm d]

theorem small_sigma_0_pure (x : Nat) (r : List Nat) (hx : x < two32) (hr : 16 ≤ r.length) :
    runPure Generated.sha256_small_sigma_0 (x :: r) = .ok (Sha256.ssig0 x :: r) := by
  pads r hr
  pure_exec Generated.sha256_small_sigma_0
  simp only [Sha256.ssig0, xor3, xor_assoc_nat]

theorem small_sigma_1_pure (x : Nat) (r : List Nat) (hx : x < two32) (hr : 16 ≤ r.length) :
    runPure Generated.sha256_small_sigma_1 (x :: r) = .ok (Sha256.ssig1 x :: r) := by
  pads r hr
  pure_exec Generated.sha256_small_sigma_1
  simp only [Sha256.ssig1, xor3, xor_assoc_nat]

theorem cap_sigma_0_pure (x : Nat) (r : List Nat) (hx : x < two32) (hr : 16 ≤ r.length) :
    runPure Generated.sha256_cap_sigma_0 (x :: r) = .ok (Sha256.bsig0 x :: r) := by
  pads r hr
  pure_exec Generated.sha256_cap_sigma_0
  simp only [Sha256.bsig0, xor3, xor_assoc_nat]

theorem cap_sigma_1_pure (x : Nat) (r : List Nat) (hx : x < two32) (hr : 16 ≤ r.length) :
    runPure Generated.sha256_cap_sigma_1 (x :: r) = .ok (Sha256.bsig1 x :: r) := by
  pads r hr
  pure_exec Generated.sha256_cap_sigma_1
  simp only [Sha256.bsig1, xor3, xor_assoc_nat]

theorem ch_pure (x y z : Nat) (r : List Nat) (hx : x < two32) (hy : y < two32) (hz : z < two32)
    (hr : 16 ≤ r.length) :
    runPure Generated.sha256_ch (x :: y :: z :: r) = .ok (Sha256.ch x y z :: r) := by
  pads r hr
  pure_exec Generated.sha256_ch
  simp only [Sha256.ch]; rw [land_comm_nat y x]

theorem maj_pure (x y z : Nat) (r : List Nat) (hx : x < two32) (hy : y < two32) (hz : z < two32)
    (hr : 16 ≤ r.length) :
    runPure Generated.sha256_maj (x :: y :: z :: r) = .ok (Sha256.maj x y z :: r) := by
  pads r hr
  pure_exec Generated.sha256_maj
  simp only [Sha256.maj, xor3, xor_assoc_nat]; rw [land_comm_nat y x]

/-! ### The same statements about machine states (`stackRun` on an arbitrary `Vm`) -/

/-- σ0 of the SHA-256 message schedule. -/
theorem sha256_small_sigma_0_spec (vm : Vm) (x : Nat) (r : List Nat) (hs : vm.stack = x :: r)
    (hx : x < two32) (hr : 16 ≤ r.length) :
    stackRun Generated.sha256_small_sigma_0 vm = .ok (Sha256.ssig0 x :: r) := by
  rw [stackRun_pure _ (by decide), hs]; exact small_sigma_0_pure x r hx hr

/-- σ1 of the SHA-256 message schedule. -/
theorem sha256_small_sigma_1_spec (vm : Vm) (x : Nat) (r : List Nat) (hs : vm.stack = x :: r)
    (hx : x < two32) (hr : 16 ≤ r.length) :
    stackRun Generated.sha256_small_sigma_1 vm = .ok (Sha256.ssig1 x :: r) := by
  rw [stackRun_pure _ (by decide), hs]; exact small_sigma_1_pure x r hx hr

/-- Σ0 of the SHA-256 compression function. -/
theorem sha256_cap_sigma_0_spec (vm : Vm) (x : Nat) (r : List Nat) (hs : vm.stack = x :: r)
    (hx : x < two32) (hr : 16 ≤ r.length) :
    stackRun Generated.sha256_cap_sigma_0 vm = .ok (Sha256.bsig0 x :: r) := by
  rw [stackRun_pure _ (by decide), hs]; exact cap_sigma_0_pure x r hx hr

/-- Σ1 of the SHA-256 compression function. -/
theorem sha256_cap_sigma_1_spec (vm : Vm) (x : Nat) (r : List Nat) (hs : vm.stack = x :: r)
    (hx : x < two32) (hr : 16 ≤ r.length) :
    stackRun Generated.sha256_cap_sigma_1 vm = .ok (Sha256.bsig1 x :: r) := by
  rw [stackRun_pure _ (by decide), hs]; exact cap_sigma_1_pure x r hx hr

theorem sha256_ch_spec (vm : Vm) (x y z : Nat) (r : List Nat) (hs : vm.stack = x :: y :: z :: r)
    (hx : x < two32) (hy : y < two32) (hz : z < two32) (hr : 16 ≤ r.length) :
    stackRun Generated.sha256_ch vm = .ok (Sha256.ch x y z :: r) := by
  rw [stackRun_pure _ (by decide), hs]; exact ch_pure x y z r hx hy hz hr

theorem sha256_maj_spec (vm : Vm) (x y z : Nat) (r : List Nat) (hs : vm.stack = x :: y :: z :: r)
    (hx : x < two32) (hy : y < two32) (hz : z < two32) (hr : 16 ≤ r.length) :
    stackRun Generated.sha256_maj vm = .ok (Sha256.maj x y z :: r) := by
  rw [stackRun_pure _ (by decide), hs]; exact maj_pure x y z r hx hy hz hr

/-- `compute_message_schedule_word`: `W[t] = σ1(W[t-2]) + W[t-7] + σ0(W[t-15]) + W[t-16] mod 2^32`. -/
theorem sha256_message_schedule_word_spec (vm : Vm) (a b c d : Nat) (r : List Nat)
    (hs : vm.stack = a :: b :: c :: d :: r) (ha : a < two32) (hb : b < two32) (hc : c < two32)
    (hd : d < two32) (hr : 16 ≤ r.length) :
    stackRun Generated.sha256_compute_message_schedule_word vm
      = .ok ((Sha256.ssig1 a + b + Sha256.ssig0 c + d) % m32 :: r) := by
  rw [stackRun_pure _ (by decide), hs]; exact sched_pure a b c d r ha hb hc hd hr

/-- `consume_message_word` is exactly one round of the SHA-256 compression function
    (`Spec.H.Sha256.round`, FIPS 180-4 §6.2.2 step 3) on the eight working variables, for every
    32-bit state, round constant and message word; the rest of the stack is untouched. -/
theorem sha256_round_spec (vm : Vm) (a b c d e f g h k w x0 x1 x2 x3 x4 x5 : Nat) (r : List Nat)
    (hs : vm.stack = a :: b :: c :: d :: e :: f :: g :: h :: k :: w :: x0 :: x1 :: x2 :: x3 :: x4 :: x5 :: r)
    (ha : a < two32) (hb : b < two32) (hc : c < two32) (hd : d < two32) (he : e < two32)
    (hf : f < two32) (hg : g < two32) (hh : h < two32) (hk : k < two32) (hw : w < two32)
    (hr : 16 ≤ r.length) :
    stackRun Generated.sha256_consume_message_word vm
      = .ok (Sha256.round [a, b, c, d, e, f, g, h] (k, w) ++ x0 :: x1 :: x2 :: x3 :: x4 :: x5 :: r) := by
  rw [stackRun_pure _ (by decide), hs]
  exact round_pure a b c d e f g h k w r ha hb hc hd he hf hg hh hk hw x0 x1 x2 x3 x4 x5 hr

/-- `rev_element_order` reverses the top four elements. -/
theorem sha256_rev_element_order_spec (vm : Vm) (a b c d : Nat) (r : List Nat)
    (hs : vm.stack = a :: b :: c :: d :: r) :
    stackRun Generated.sha256_rev_element_order vm = .ok (d :: c :: b :: a :: r) := by
  rw [stackRun_pure _ (by decide), hs]
  simp only [Generated.sha256_rev_element_order, pure_exec]

/-- `native::state_to_digest`: the digest of an RPO state `[C, B, A, …]` is its middle word `B`. -/
theorem native_state_to_digest_spec (vm : Vm) (c0 c1 c2 c3 b0 b1 b2 b3 a0 a1 a2 a3 : Nat) (r : List Nat)
    (hs : vm.stack = c0 :: c1 :: c2 :: c3 :: b0 :: b1 :: b2 :: b3 :: a0 :: a1 :: a2 :: a3 :: r)
    (hr : 16 ≤ r.length) :
    stackRun Generated.native_state_to_digest vm = .ok (b0 :: b1 :: b2 :: b3 :: r) := by
  pads r hr
  rw [stackRun_pure _ (by decide), hs]
  simp only [Generated.native_state_to_digest, pure_exec, *]


/-- **`native::hash_memory_even`** (MAST regenerated from native.masm): for every initial hasher state
    `v` (capacity, rate — natural order; on the stack reversed), every start address and every number
    `K` of double words with the end address at most 2^32, a completed execution leaves the state after
    `K` sponge steps of the RPO permutation over the memory words `start .. start+2K-1` in address
    order (`HashMem.hashEven`), both pointers equal to the end address, and memory, frame pointer,
    context and the rest of the stack untouched. -/
theorem native_hash_memory_even_spec (env : Env) (fuel : Nat) (vm vm' : Vm) (v : List Nat) (start K : Nat)
    (rest : List Nat) (hv : v.length = 12)
    (hs : vm.stack = v.reverse ++ start :: (start + 2 * K) :: rest) (hrest : 2 ≤ rest.length)
    (he : start + 2 * K ≤ 4294967296)
    (h : Vm.exec env fuel Generated.native_hash_memory_even vm = .ok vm') :
    vm'.stack = (HashMem.hashEven vm.ctx vm.mem K start v).reverse ++ (start + 2 * K) :: (start + 2 * K) :: rest ∧
      vm'.mem = vm.mem ∧ vm'.fmp = vm.fmp ∧ vm'.ctx = vm.ctx :=
  HashMem.hash_memory_even_spec env fuel vm vm' v start K rest hv hs hrest he h

/-- Started from the all-zero state (what `hash_memory` sets up for an even number of words), the
    digest part of the final state is `Rpo256::hash_elements` of the `8K` field elements stored in
    memory at `start .. start+2K-1`. -/
theorem native_hash_memory_even_is_hash_elements (env : Env) (fuel : Nat) (vm vm' : Vm) (start K : Nat)
    (rest : List Nat)
    (hs : vm.stack = List.replicate 12 0 ++ start :: (start + 2 * K) :: rest) (hrest : 2 ≤ rest.length)
    (he : start + 2 * K ≤ 4294967296)
    (h : Vm.exec env fuel Generated.native_hash_memory_even vm = .ok vm') :
    Rpo.digestOf ((vm'.stack.take 12).reverse) = Rpo.hashElements (HashMem.memEls vm.ctx vm.mem start K) := by
  have hs2 : vm.stack = (List.replicate 12 0).reverse ++ start :: (start + 2 * K) :: rest := by
    rw [hs, List.reverse_replicate]
  obtain ⟨h1, _⟩ := HashMem.hash_memory_even_spec env fuel vm vm' _ start K rest (by simp) hs2 hrest he h
  have hl := HashMem.hashEven_len vm.ctx vm.mem K start (List.replicate 12 0) (by simp)
  rw [h1, List.take_append_of_le_length (by rw [List.length_reverse, hl]; exact Nat.le_refl _),
    List.take_of_length_le (by rw [List.length_reverse, hl]; exact Nat.le_refl _), List.reverse_reverse]
  exact HashMem.hashEven_is_hashElements vm.ctx vm.mem K start

/-- **`native::hash_memory_even` terminates**: with fuel `≥ K + 3` and a cycle budget of `9·K + 12` the
    executor completes for every hasher state, start address and number `K` of double words, and the
    state is the one of `native_hash_memory_even_spec`. -/
theorem native_hash_memory_even_terminates (env : Env) (fuel : Nat) (vm : Vm) (v : List Nat) (start K : Nat)
    (rest : List Nat) (hv : v.length = 12)
    (hs : vm.stack = v.reverse ++ start :: (start + 2 * K) :: rest) (hrest : 2 ≤ rest.length)
    (he : start + 2 * K ≤ 4294967296)
    (hf : K + 3 ≤ fuel) (hb : vm.clk + 9 * K + 12 ≤ env.maxCycles) :
    ∃ vm', Vm.exec env fuel Generated.native_hash_memory_even vm = .ok vm' ∧
      vm'.stack = (HashMem.hashEven vm.ctx vm.mem K start v).reverse ++ (start + 2 * K) :: (start + 2 * K) :: rest := by
  obtain ⟨vm', h⟩ := HashMem.hash_memory_even_total env fuel vm v start K rest hv hs hrest he hf hb
  exact ⟨vm', h, (HashMem.hash_memory_even_spec env fuel vm vm' v start K rest hv hs hrest he h).1⟩

/-- The sponge steps, spelled out: no word absorbed leaves the state alone; one more double word is
    one more overwrite-mode absorption followed by the permutation. -/
theorem hashEven_zero (ctx : Nat) (m : Mem) (a : Nat) (v : List Nat) : HashMem.hashEven ctx m 0 a v = v := rfl
theorem hashEven_succ (ctx : Nat) (m : Mem) (i a : Nat) (v : List Nat) :
    HashMem.hashEven ctx m (i + 1) a v
      = Rpo.permute ((HashMem.hashEven ctx m i a v).take 4 ++ (m.read ctx (a + 2 * i)).toList
          ++ (m.read ctx (a + 2 * i + 1)).toList) :=
  HashMem.hashEven_succ ctx m i a v

/-! What is missing for the whole compression function: `Spec.H.Sha256.compress` is 64 applications
    of `Sha256.round` (proved above for the compiled `consume_message_word`) to words produced by the
    schedule recurrence (proved above for `compute_message_schedule_word`); the composition through
    the unrolled `prepare_message_schedule_and_consume`, which keeps the schedule in procedure locals
    (memory), is not proved — it is covered by the correspondence run only. -/

/-! Non-vacuity: the hypotheses are met by concrete states and the procedures really run. -/
example : (stackRun Generated.sha256_small_sigma_0 { stack := 0x12345678 :: List.replicate 16 7 }).toOption
    = some (Sha256.ssig0 0x12345678 :: List.replicate 16 7) := by decide
example : (stackRun Generated.sha256_consume_message_word
    { stack := [1, 2, 3, 4, 5, 6, 7, 8, 0x428a2f98, 0x61626380] ++ List.replicate 22 9 }).toOption
    = some (Sha256.round [1, 2, 3, 4, 5, 6, 7, 8] (0x428a2f98, 0x61626380) ++ List.replicate 22 9) := by decide

-- the hash_memory_even hypotheses are met and the loop really runs (two double words)
example : ((Vm.exec {} 20 Generated.native_hash_memory_even
      { stack := List.replicate 12 0 ++ [100, 104, 5, 6],
        mem := [((0, 100), ⟨1, 2, 3, 4⟩), ((0, 101), ⟨5, 6, 7, 8⟩), ((0, 102), ⟨9, 10, 11, 12⟩)] }).toOption.map
      (fun v => (Rpo.digestOf ((v.stack.take 12).reverse), v.stack.drop 12)))
    = some (Rpo.hashElements [1, 2, 3, 4, 5, 6, 7, 8, 9, 10, 11, 12, 0, 0, 0, 0], [104, 104, 5, 6]) := by decide +kernel

end Miden.C17
