/-
  C03 — honest execution traces satisfy the AIR: completeness of the stack AIR on honest rows.

  For every operation in `airProved` (76 of the 78 non-control operations - all that the executor model executes; u32 arithmetic on u32 operands), every machine state of
  depth ≥ 16 with canonical stack elements and every successful step `vm.step op = .ok vm'`, the row
  pair the processor writes — current row: clock, fmp, opcode, the helper registers of
  `Model.helpersOf`, the top 16 stack cells, depth `b0`, any overflow address `b1`, the depth helper
  `h0 = 1/(b0 - 16)` (0 at depth 16); next row: the state after the step, with `b1' = clk` on right
  shifts — makes all 111 stack transition constraints of `Air.stackConstraints` vanish over the trace's
  base field `ZMod P` (`P` prime: `Lemmas/Prime.lean`).  This is the converse of the soundness theorems
  of C04, about the same constraint system, which is compared with `miden_air::stack::enforce_constraints`
  slot by slot on every run; `helpersOf`, `h0Of` and the next-row cells are compared with the rows of
  real traces on every run (`hrow` requests of the C03 generator).

  Not covered (left to the monitor on real traces): FRIE2F4 and RCOMBBASE (not in the executor model)
  and the rows of control operations.
-/

import Miden.Props.C03Air.A0
import Miden.Props.C03Air.A1
import Miden.Props.C03Air.A2
import Miden.Props.C03Air.A3
import Miden.Props.C03Air.A4
import Miden.Props.C03Air.A5
import Miden.Props.C03Air.B1
import Miden.Props.C03Air.B2
import Miden.Props.C03Air.B3
import Miden.Props.C03Air.B4
import Miden.Props.C03Air.B5
import Miden.Props.C03Air.B6
import Miden.Props.C03Air.B7
namespace Miden.C03
open Miden Miden.Air Miden.Vm

/-- Operations whose honest rows are proved to satisfy the stack AIR. -/
def airProved : Op → Bool
  | .frie2f4 | .rcombbase => false
  | op => !op.isControl

/-- The u32 arithmetic operations are defined on u32 operands only (on other operands they execute, but the row
    is not provable: known finding C03-u32-arith-on-non-u32-operands). -/
def U32Operands (vm : Vm) : Op → Prop
  | .u32add | .u32sub | .u32mul => vm.stack.getD 0 0 < two32 ∧ vm.stack.getD 1 0 < two32
  | .u32add3 | .u32madd => vm.stack.getD 0 0 < two32 ∧ vm.stack.getD 1 0 < two32 ∧ vm.stack.getD 2 0 < two32
  | _ => True

theorem honest_step_satisfies_stack_air (vm vm' : Vm) (op : Op) (hp : airProved op = true)
    (hl : 16 ≤ vm.stack.length) (hc : Canon vm) (hu : U32Operands vm op) (h : vm.step op = .ok vm') :
    HonestHolds vm vm' op := by
  cases op with
  | noop => exact honest_noop vm vm' hl h
  | fmpadd => exact honest_fmpadd vm vm' hl h
  | sdepth => exact honest_sdepth vm vm' hl h
  | clk => exact honest_clk vm vm' hl h
  | add => exact honest_add vm vm' hl h
  | neg => exact honest_neg vm vm' hl h
  | mul => exact honest_mul vm vm' hl h
  | incr => exact honest_incr vm vm' hl h
  | ext2mul => exact honest_ext2mul vm vm' hl h
  | pad => exact honest_pad vm vm' hl h
  | drop => exact honest_drop vm vm' hl h
  | dup0 => exact honest_dup0 vm vm' hl h
  | dup1 => exact honest_dup1 vm vm' hl h
  | dup2 => exact honest_dup2 vm vm' hl h
  | dup3 => exact honest_dup3 vm vm' hl h
  | dup4 => exact honest_dup4 vm vm' hl h
  | dup5 => exact honest_dup5 vm vm' hl h
  | dup6 => exact honest_dup6 vm vm' hl h
  | dup7 => exact honest_dup7 vm vm' hl h
  | dup9 => exact honest_dup9 vm vm' hl h
  | dup11 => exact honest_dup11 vm vm' hl h
  | dup13 => exact honest_dup13 vm vm' hl h
  | dup15 => exact honest_dup15 vm vm' hl h
  | swap => exact honest_swap vm vm' hl h
  | swapw => exact honest_swapw vm vm' hl h
  | swapw2 => exact honest_swapw2 vm vm' hl h
  | swapw3 => exact honest_swapw3 vm vm' hl h
  | swapdw => exact honest_swapdw vm vm' hl h
  | movup2 => exact honest_movup2 vm vm' hl h
  | movup3 => exact honest_movup3 vm vm' hl h
  | movup4 => exact honest_movup4 vm vm' hl h
  | movup5 => exact honest_movup5 vm vm' hl h
  | movup6 => exact honest_movup6 vm vm' hl h
  | movup7 => exact honest_movup7 vm vm' hl h
  | movup8 => exact honest_movup8 vm vm' hl h
  | movdn2 => exact honest_movdn2 vm vm' hl h
  | movdn3 => exact honest_movdn3 vm vm' hl h
  | movdn4 => exact honest_movdn4 vm vm' hl h
  | movdn5 => exact honest_movdn5 vm vm' hl h
  | movdn6 => exact honest_movdn6 vm vm' hl h
  | movdn7 => exact honest_movdn7 vm vm' hl h
  | movdn8 => exact honest_movdn8 vm vm' hl h
  | fmpupdate => exact honest_fmpupdate vm vm' hl h
  | advpop => exact honest_advpop vm vm' hl h
  | advpopw => exact honest_advpopw vm vm' hl h
  | mload => exact honest_mload vm vm' hl h
  | mloadw => exact honest_mloadw vm vm' hl h
  | mstore => exact honest_mstore vm vm' hl h
  | mstorew => exact honest_mstorew vm vm' hl h
  | mstream => exact honest_mstream vm vm' hl h
  | pipe => exact honest_pipe vm vm' hl h
  | caller => exact honest_caller vm vm' hl h
  | u32and => exact honest_u32and vm vm' hl h
  | u32xor => exact honest_u32xor vm vm' hl h
  | mpverify => exact honest_mpverify vm vm' hl h
  | mrupdate => exact honest_mrupdate vm vm' hl h
  | and => exact honest_and vm vm' hl h
  | or => exact honest_or vm vm' hl h
  | not => exact honest_not vm vm' hl h
  | cswap => exact honest_cswap vm vm' hl h
  | cswapw => exact honest_cswapw vm vm' hl h
  | expacc => exact honest_expacc vm vm' hl h
  | inv => exact honest_inv vm vm' hl hc h
  | eqz => exact honest_eqz vm vm' hl hc h
  | eq => exact honest_eq vm vm' hl hc h
  | push v => exact honest_push v vm vm' hl h
  | assert code => exact honest_assert code vm vm' hl h
  | u32assert2 code => exact honest_u32assert2 code vm vm' hl h
  | u32split => exact honest_u32split vm vm' hl hc h
  | u32add => exact honest_u32add vm vm' hl hu h
  | u32add3 => exact honest_u32add3 vm vm' hl hu h
  | u32sub => exact honest_u32sub vm vm' hl hu h
  | u32mul => exact honest_u32mul vm vm' hl hu h
  | u32madd => exact honest_u32madd vm vm' hl hu h
  | u32div => exact honest_u32div vm vm' hl h
  | hperm => exact honest_hperm vm vm' hl h
  | frie2f4 => exact absurd hp (by decide)
  | rcombbase => exact absurd hp (by decide)
  | join => exact absurd hp (by decide)
  | split => exact absurd hp (by decide)
  | loop => exact absurd hp (by decide)
  | call => exact absurd hp (by decide)
  | dyn => exact absurd hp (by decide)
  | syscall => exact absurd hp (by decide)
  | span => exact absurd hp (by decide)
  | «end» => exact absurd hp (by decide)
  | «repeat» => exact absurd hp (by decide)
  | respan => exact absurd hp (by decide)
  | halt => exact absurd hp (by decide)

/-- The depth helper the processor writes meets the hypothesis `H0ok` of `HonestHolds` at every
    reachable depth, so the theorem is not vacuous. -/
example : H0ok 16 ((h0Of 16 : Nat) : FP) ∧ H0ok 23 ((h0Of 23 : Nat) : FP) :=
  ⟨h0Of_ok 16 (by decide) (by decide), h0Of_ok 23 (by decide) (by decide)⟩

example : airProved .add = true ∧ airProved .mstream = true ∧ airProved (.push 7) = true
    ∧ airProved .u32mul = true ∧ airProved .hperm = true ∧ airProved .frie2f4 = false ∧ airProved .join = false := by decide

/-- Number of operations covered. -/
example : (Op.all.filter airProved).length = 76 := by decide

end Miden.C03
