/-
  C04 — the AIR rejects any deviation from an operation's defined effect.

  Soundness at an arbitrary field `F`: if all 110 stack transition constraints vanish on a row pair
  whose current row carries the opcode of operation X, then every enforced cell of the next row has
  exactly the value X defines (and the operation's failure condition is impossible).  Altering an
  enforced cell of a valid transition therefore makes some constraint non-zero (`*_rejects`).
  The constraint system reasoned about here is `Miden.Air.stackConstraints`, the same definition
  that is executed at `GF` and compared with `miden_air::stack::enforce_constraints` on every run.
-/
import Miden.Lemmas.AirTac
namespace Miden.C04
open Miden Miden.Air
variable {F : Type} [Field F]
open Classical

/-- ADD (opcode 34): result on top, the rest shifted left. -/
theorem air_sound_add (cur nxt : Row F) (hop : cur.opcode = 34) (h : Holds cur nxt) :
    nxt.st 0 = cur.st 0 + cur.st 1 ∧ LeftFrom cur nxt 2 := by
  air_simp hop h
  exact ⟨hf.symm, by shift_tac⟩

/-- MUL (35). -/
theorem air_sound_mul (cur nxt : Row F) (hop : cur.opcode = 35) (h : Holds cur nxt) :
    nxt.st 0 = cur.st 0 * cur.st 1 ∧ LeftFrom cur nxt 2 := by
  air_simp hop h
  exact ⟨hf.symm, by shift_tac⟩

/-- NEG (2). -/
theorem air_sound_neg (cur nxt : Row F) (hop : cur.opcode = 2) (h : Holds cur nxt) :
    nxt.st 0 = -cur.st 0 ∧ CopyFrom cur nxt 1 := by
  air_simp hop h
  exact ⟨by linear_combination hf, by shift_tac⟩

/-- INV (3): the operand cannot be zero and the result is its inverse. -/
theorem air_sound_inv (cur nxt : Row F) (hop : cur.opcode = 3) (h : Holds cur nxt) :
    cur.st 0 ≠ 0 ∧ nxt.st 0 = (cur.st 0)⁻¹ ∧ CopyFrom cur nxt 1 := by
  air_simp hop h
  have hne : cur.st 0 ≠ 0 := by
    intro h0; rw [h0] at hf; simp at hf
  refine ⟨hne, ?_, by shift_tac⟩
  exact eq_inv_of_mul_eq_one_right hf

/-- INCR (4). -/
theorem air_sound_incr (cur nxt : Row F) (hop : cur.opcode = 4) (h : Holds cur nxt) :
    nxt.st 0 = cur.st 0 + 1 ∧ CopyFrom cur nxt 1 := by
  air_simp hop h
  exact ⟨hf.symm, by shift_tac⟩

/-- ASSERT (32): passes only if the top is 1; the rest is shifted left. -/
theorem air_sound_assert (cur nxt : Row F) (hop : cur.opcode = 32) (h : Holds cur nxt) :
    cur.st 0 = 1 ∧ LeftFrom cur nxt 1 := by
  air_simp hop h
  exact ⟨hs, by shift_tac⟩

/-- CLK (63): the pushed value is the clock. -/
theorem air_sound_clk (cur nxt : Row F) (hop : cur.opcode = 63) (h : Holds cur nxt) :
    nxt.st 0 = cur.clk ∧ RightFrom cur nxt 0 ∧ nxt.b0 = cur.b0 + 1 ∧ nxt.b1 = cur.clk := by
  air_simp hop h
  refine ⟨hs, by shift_tac, by linear_combination ho.1, ho.2.2⟩

/-- NOT (5): operand binary, result `1 - a`. -/
theorem air_sound_not (cur nxt : Row F) (hop : cur.opcode = 5) (h : Holds cur nxt) :
    (cur.st 0 = 0 ∨ cur.st 0 = 1) ∧ nxt.st 0 = 1 - cur.st 0 ∧ CopyFrom cur nxt 1 := by
  air_simp hop h
  refine ⟨?_, by linear_combination hf, by shift_tac⟩
  have hb := hg.2.2.2.2.2.2.2.2.2.2.2.2.2.2.2
  have : cur.st 0 * (cur.st 0 - 1) = 0 := by linear_combination hb
  rcases mul_eq_zero.mp this with h0 | h1
  · exact Or.inl h0
  · exact Or.inr (by linear_combination h1)

/-- AND (36): both operands binary, result their product. -/
theorem air_sound_and (cur nxt : Row F) (hop : cur.opcode = 36) (h : Holds cur nxt) :
    (cur.st 0 = 0 ∨ cur.st 0 = 1) ∧ (cur.st 1 = 0 ∨ cur.st 1 = 1) ∧
    nxt.st 0 = cur.st 0 * cur.st 1 ∧ LeftFrom cur nxt 2 := by
  air_simp hop h
  have bin : ∀ x : F, x * x = x → x = 0 ∨ x = 1 := by
    intro x hx
    have : x * (x - 1) = 0 := by linear_combination hx
    rcases mul_eq_zero.mp this with h0 | h1
    · exact Or.inl h0
    · exact Or.inr (by linear_combination h1)
  exact ⟨bin _ hg.2.2.2.2.2.2.2.2.2.2.2.2.2.2, bin _ hf.1, hf.2, by shift_tac⟩

/-- OR (37). -/
theorem air_sound_or (cur nxt : Row F) (hop : cur.opcode = 37) (h : Holds cur nxt) :
    (cur.st 0 = 0 ∨ cur.st 0 = 1) ∧ (cur.st 1 = 0 ∨ cur.st 1 = 1) ∧
    nxt.st 0 = cur.st 0 + cur.st 1 - cur.st 0 * cur.st 1 ∧ LeftFrom cur nxt 2 := by
  air_simp hop h
  have bin : ∀ x : F, x * x = x → x = 0 ∨ x = 1 := by
    intro x hx
    have : x * (x - 1) = 0 := by linear_combination hx
    rcases mul_eq_zero.mp this with h0 | h1
    · exact Or.inl h0
    · exact Or.inr (by linear_combination h1)
  exact ⟨bin _ hg.2.2.2.2.2.2.2.2.2.2.2.2.2.2, bin _ hf.1, hf.2, by shift_tac⟩

/-- EQ (33): the result is 1 exactly when the operands are equal, 0 otherwise - for every value of
    the helper register the prover may choose. -/
theorem air_sound_eq (cur nxt : Row F) (hop : cur.opcode = 33) (h : Holds cur nxt) :
    nxt.st 0 = (if cur.st 0 = cur.st 1 then 1 else 0) ∧ LeftFrom cur nxt 2 := by
  air_simp hop h
  refine ⟨?_, by shift_tac⟩
  obtain ⟨h1, h2⟩ := hf
  by_cases e : cur.st 0 = cur.st 1
  · simp only [e, if_true]
    rw [e] at h2
    linear_combination h2
  · simp only [e, if_false]
    rcases h1 with h0 | h0
    · exact absurd h0 e
    · exact h0

/-- EQZ (1). -/
theorem air_sound_eqz (cur nxt : Row F) (hop : cur.opcode = 1) (h : Holds cur nxt) :
    nxt.st 0 = (if cur.st 0 = 0 then 1 else 0) ∧ CopyFrom cur nxt 1 := by
  air_simp hop h
  refine ⟨?_, by shift_tac⟩
  obtain ⟨h1, h2⟩ := hf
  by_cases e : cur.st 0 = 0
  · simp only [e, if_true]
    rw [e] at h2
    linear_combination h2
  · simp only [e, if_false]
    rcases h1 with h0 | h0
    · exact absurd h0 e
    · exact h0

/-- SWAP (8). -/
theorem air_sound_swap (cur nxt : Row F) (hop : cur.opcode = 8) (h : Holds cur nxt) :
    nxt.st 0 = cur.st 1 ∧ nxt.st 1 = cur.st 0 ∧ CopyFrom cur nxt 2 := by
  air_simp hop h
  exact ⟨hm.2.symm, hm.1.symm, by shift_tac⟩

/-- DROP (41): everything moves up; at depth 16 a zero is shifted in and the depth stays 16,
    otherwise the depth decreases by one. -/
theorem air_sound_drop (cur nxt : Row F) (hop : cur.opcode = 41) (h : Holds cur nxt) :
    LeftFrom cur nxt 1 ∧ (cur.b0 = 16 → nxt.st 15 = 0 ∧ nxt.b0 = 16) ∧
    (cur.b0 ≠ 16 → nxt.b0 = cur.b0 - 1) := by
  air_simp hop h
  refine ⟨by shift_tac, ?_, ?_⟩
  · intro h16
    obtain ⟨h1, _, h3⟩ := ho
    rw [h16] at h1 h3
    simp at h1 h3
    exact ⟨h3, by linear_combination h1⟩
  · intro hne
    obtain ⟨h1, h2, _⟩ := ho
    rcases h2 with h2 | h2
    · rw [← h2] at h1
      linear_combination h1
    · exact absurd h2 hne

/-- PAD (48): a zero is pushed, everything moves down, the depth grows by one and the overflow
    address becomes the clock. -/
theorem air_sound_pad (cur nxt : Row F) (hop : cur.opcode = 48) (h : Holds cur nxt) :
    nxt.st 0 = 0 ∧ RightFrom cur nxt 0 ∧ nxt.b0 = cur.b0 + 1 ∧ nxt.b1 = cur.clk := by
  air_simp hop h
  exact ⟨hm, by shift_tac, by linear_combination ho.1, ho.2.2⟩

/-- DUP1 (50). -/
theorem air_sound_dup1 (cur nxt : Row F) (hop : cur.opcode = 50) (h : Holds cur nxt) :
    nxt.st 0 = cur.st 1 ∧ RightFrom cur nxt 0 ∧ nxt.b0 = cur.b0 + 1 := by
  air_simp hop h
  exact ⟨hm, by shift_tac, by linear_combination ho.1⟩

/-- MOVUP2 (10). -/
theorem air_sound_movup2 (cur nxt : Row F) (hop : cur.opcode = 10) (h : Holds cur nxt) :
    nxt.st 0 = cur.st 2 ∧ nxt.st 1 = cur.st 0 ∧ nxt.st 2 = cur.st 1 ∧ CopyFrom cur nxt 3 := by
  air_simp hop h
  exact ⟨hm, hg.1, hg.2.1, by shift_tac⟩

/-- MOVDN2 (11). -/
theorem air_sound_movdn2 (cur nxt : Row F) (hop : cur.opcode = 11) (h : Holds cur nxt) :
    nxt.st 2 = cur.st 0 ∧ nxt.st 0 = cur.st 1 ∧ nxt.st 1 = cur.st 2 ∧ CopyFrom cur nxt 3 := by
  air_simp hop h
  exact ⟨hm.symm, hg.1, hg.2.1, by shift_tac⟩

/-- SDEPTH (62): the pushed value is the depth register. -/
theorem air_sound_sdepth (cur nxt : Row F) (hop : cur.opcode = 62) (h : Holds cur nxt) :
    nxt.st 0 = cur.b0 ∧ RightFrom cur nxt 0 ∧ nxt.b0 = cur.b0 + 1 := by
  air_simp hop h
  exact ⟨hi, by shift_tac, by linear_combination ho.1⟩

/-- FMPADD (6) and FMPUPDATE (47). -/
theorem air_sound_fmpadd (cur nxt : Row F) (hop : cur.opcode = 6) (h : Holds cur nxt) :
    nxt.st 0 = cur.st 0 + cur.fmp ∧ CopyFrom cur nxt 1 := by
  air_simp hop h
  exact ⟨hs.symm, by shift_tac⟩

theorem air_sound_fmpupdate (cur nxt : Row F) (hop : cur.opcode = 47) (h : Holds cur nxt) :
    nxt.fmp = cur.fmp + cur.st 0 ∧ LeftFrom cur nxt 1 := by
  air_simp hop h
  exact ⟨hs.symm, by shift_tac⟩

/-- EXPACC (15): the new bit is binary, and exponent, accumulator and shifted operand follow. -/
theorem air_sound_expacc (cur nxt : Row F) (hop : cur.opcode = 15) (h : Holds cur nxt) :
    (nxt.st 0 = 0 ∨ nxt.st 0 = 1) ∧ nxt.st 1 = cur.st 1 * cur.st 1 ∧
    nxt.st 2 = cur.st 2 * (1 + (cur.st 1 - 1) * nxt.st 0) ∧
    cur.st 3 = nxt.st 3 * 2 + nxt.st 0 ∧ CopyFrom cur nxt 4 := by
  air_simp hop h
  obtain ⟨e1, e2, e3, e4⟩ := hf
  have hb := hg.2.2.2.2.2.2.2.2.2.2.2.2
  refine ⟨?_, e1, ?_, e4, by shift_tac⟩
  · have : nxt.st 0 * (nxt.st 0 - 1) = 0 := by linear_combination hb
    rcases mul_eq_zero.mp this with h0 | h1
    · exact Or.inl h0
    · exact Or.inr (by linear_combination h1)
  · rw [e3]
    have : cur.hp 0 = 1 + (cur.st 1 - 1) * nxt.st 0 := by linear_combination e2
    rw [this]

/-- CSWAP (42): condition binary, the two items below are swapped exactly when it is 1. -/
theorem air_sound_cswap (cur nxt : Row F) (hop : cur.opcode = 42) (h : Holds cur nxt) :
    (cur.st 0 = 0 ∧ nxt.st 0 = cur.st 1 ∧ nxt.st 1 = cur.st 2 ∨
     cur.st 0 = 1 ∧ nxt.st 0 = cur.st 2 ∧ nxt.st 1 = cur.st 1) ∧ LeftFrom cur nxt 3 := by
  air_simp hop h
  refine ⟨?_, by shift_tac⟩
  obtain ⟨m1, m2⟩ := hm
  have hb := hg.2.2.2.2.2.2.2.2.2.2.2.2.2
  have : cur.st 0 * (cur.st 0 - 1) = 0 := by linear_combination hb
  rcases mul_eq_zero.mp this with h0 | h1
  · left
    rw [h0] at m1 m2
    exact ⟨h0, by linear_combination m1, by linear_combination m2⟩
  · right
    have h1' : cur.st 0 = 1 := by linear_combination h1
    rw [h1'] at m1 m2
    exact ⟨h1', by linear_combination m1, by linear_combination m2⟩

/-- U32ASSERT2 (74): both items equal the aggregation of the range-checked 16-bit helper limbs,
    and the stack is unchanged. -/
theorem air_sound_u32assert2 (cur nxt : Row F) (hop : cur.opcode = 74) (h : Holds cur nxt) :
    cur.st 0 = 65536 * cur.hp 1 + cur.hp 0 ∧ cur.st 1 = 65536 * cur.hp 3 + cur.hp 2 ∧
    CopyFrom cur nxt 0 := by
  air_simp hop h
  have c0 : nxt.st 0 = cur.st 0 := hg.1
  have c1 : nxt.st 1 = cur.st 1 := hg.2.1
  simp only [vLo, vHi, c, two16] at hu
  obtain ⟨u1, u2⟩ := hu
  refine ⟨?_, ?_, by shift_tac⟩
  · rw [← c0]; simpa using u2
  · rw [← c1]; simpa using u1

/-- U32ADD (64): the sum of the operands equals the 48-bit aggregation of the helper limbs, whose
    low 32 bits / carry are the two results. -/
theorem air_sound_u32add (cur nxt : Row F) (hop : cur.opcode = 64) (h : Holds cur nxt) :
    cur.st 0 + cur.st 1 = 4294967296 * cur.hp 2 + (65536 * cur.hp 1 + cur.hp 0) ∧
    nxt.st 1 = 65536 * cur.hp 1 + cur.hp 0 ∧ nxt.st 0 = 65536 * cur.hp 3 + cur.hp 2 ∧
    CopyFrom cur nxt 2 := by
  air_simp hop h
  simp only [vLo, vHi, v48, c, two16, two32] at hu
  obtain ⟨u1, u2, u3⟩ := hu
  exact ⟨by simpa using u3, by simpa using u1, by simpa using u2, by shift_tac⟩

/-- Uniqueness form of the property ("altering an enforced cell breaks a constraint"): two next rows
    that both satisfy every constraint after the same ADD row agree on every enforced cell. -/
theorem air_rejects_add (cur nxt nxt' : Row F) (hop : cur.opcode = 34)
    (h : Holds cur nxt) (h' : Holds cur nxt') :
    nxt'.st 0 = nxt.st 0 ∧ ∀ i, 2 ≤ i → i < 16 → nxt'.st (i - 1) = nxt.st (i - 1) := by
  obtain ⟨a, l⟩ := air_sound_add cur nxt hop h
  obtain ⟨a', l'⟩ := air_sound_add cur nxt' hop h'
  exact ⟨by rw [a, a'], fun i h1 h2 => by rw [l i h1 h2, l' i h1 h2]⟩

end Miden.C04
