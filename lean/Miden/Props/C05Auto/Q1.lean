/-
  Refinement theorems for further instruction forms (same template as C05Auto/P*.lean), proved with
  `instr_tac_mod`.  Written by a development-time script; the proofs are checked by Lean.
-/
import Miden.Lemmas.InstrTac
namespace Miden.C05
open Miden Miden.Spec

theorem refines_u32wrapping_sub : ∀ vm : Vm, 16 ≤ vm.stack.length → (∀ x ∈ vm.stack, x < P) →
    Refines (stackRun Generated.ops_u32wrapping_sub vm) (sem .u32wrappingSub vm.stack) := by
  instr_tac_mod Generated.ops_u32wrapping_sub

theorem refines_u32rotl_0 : ∀ vm : Vm, 16 ≤ vm.stack.length → (∀ x ∈ vm.stack, x < P) →
    Refines (stackRun Generated.ops_u32rotl_0 vm) (sem (.u32rotlImm 0) vm.stack) := by
  instr_tac_mod Generated.ops_u32rotl_0

theorem refines_u32rotl_4 : ∀ vm : Vm, 16 ≤ vm.stack.length → (∀ x ∈ vm.stack, x < P) →
    Refines (stackRun Generated.ops_u32rotl_4 vm) (sem (.u32rotlImm 4) vm.stack) := by
  instr_tac_mod Generated.ops_u32rotl_4

theorem refines_u32rotl_8 : ∀ vm : Vm, 16 ≤ vm.stack.length → (∀ x ∈ vm.stack, x < P) →
    Refines (stackRun Generated.ops_u32rotl_8 vm) (sem (.u32rotlImm 8) vm.stack) := by
  instr_tac_mod Generated.ops_u32rotl_8

theorem refines_u32rotl_12 : ∀ vm : Vm, 16 ≤ vm.stack.length → (∀ x ∈ vm.stack, x < P) →
    Refines (stackRun Generated.ops_u32rotl_12 vm) (sem (.u32rotlImm 12) vm.stack) := by
  instr_tac_mod Generated.ops_u32rotl_12

theorem refines_u32rotl_16 : ∀ vm : Vm, 16 ≤ vm.stack.length → (∀ x ∈ vm.stack, x < P) →
    Refines (stackRun Generated.ops_u32rotl_16 vm) (sem (.u32rotlImm 16) vm.stack) := by
  instr_tac_mod Generated.ops_u32rotl_16

theorem refines_u32rotl_20 : ∀ vm : Vm, 16 ≤ vm.stack.length → (∀ x ∈ vm.stack, x < P) →
    Refines (stackRun Generated.ops_u32rotl_20 vm) (sem (.u32rotlImm 20) vm.stack) := by
  instr_tac_mod Generated.ops_u32rotl_20

theorem refines_u32rotl_24 : ∀ vm : Vm, 16 ≤ vm.stack.length → (∀ x ∈ vm.stack, x < P) →
    Refines (stackRun Generated.ops_u32rotl_24 vm) (sem (.u32rotlImm 24) vm.stack) := by
  instr_tac_mod Generated.ops_u32rotl_24

theorem refines_u32rotl_28 : ∀ vm : Vm, 16 ≤ vm.stack.length → (∀ x ∈ vm.stack, x < P) →
    Refines (stackRun Generated.ops_u32rotl_28 vm) (sem (.u32rotlImm 28) vm.stack) := by
  instr_tac_mod Generated.ops_u32rotl_28

theorem refines_mul_9223372036854775813 : ∀ vm : Vm, 16 ≤ vm.stack.length → (∀ x ∈ vm.stack, x < P) →
    Refines (stackRun Generated.ops_mul_9223372036854775813 vm) (sem (.mulImm 9223372036854775813) vm.stack) := by
  instr_tac_mod Generated.ops_mul_9223372036854775813

end Miden.C05
