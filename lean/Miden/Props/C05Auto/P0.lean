/-
  GENERATED at development time by tools/gen_c05_theorems.py (statements follow one template; the
  proofs are checked by Lean like any other).  One theorem per instruction form: the operations
  the real assembler emits (Generated/InstrOps.lean, regenerated on every run) refine the
  instruction reference (Spec/Instr.lean) on every stack of depth >= 16, every other component of
  the machine state being arbitrary.
-/
import Miden.Lemmas.InstrTac
namespace Miden.C05
open Miden Miden.Spec

theorem refines_add : ∀ vm : Vm, 16 ≤ vm.stack.length →
    Refines (stackRun Generated.ops_add vm) (sem .add vm.stack) := by
  instr_tac Generated.ops_add

theorem refines_assert : ∀ vm : Vm, 16 ≤ vm.stack.length →
    Refines (stackRun Generated.ops_assert vm) (sem (.assert 0) vm.stack) := by
  instr_tac Generated.ops_assert

theorem refines_assertz : ∀ vm : Vm, 16 ≤ vm.stack.length →
    Refines (stackRun Generated.ops_assertz vm) (sem (.assertz 0) vm.stack) := by
  instr_tac Generated.ops_assertz

theorem refines_cswap : ∀ vm : Vm, 16 ≤ vm.stack.length →
    Refines (stackRun Generated.ops_cswap vm) (sem .cswap vm.stack) := by
  instr_tac Generated.ops_cswap

theorem refines_dropw : ∀ vm : Vm, 16 ≤ vm.stack.length →
    Refines (stackRun Generated.ops_dropw vm) (sem .dropw vm.stack) := by
  instr_tac Generated.ops_dropw

theorem refines_dup_11 : ∀ vm : Vm, 16 ≤ vm.stack.length →
    Refines (stackRun Generated.ops_dup_11 vm) (sem (.dup 11) vm.stack) := by
  instr_tac Generated.ops_dup_11

theorem refines_dup_4 : ∀ vm : Vm, 16 ≤ vm.stack.length →
    Refines (stackRun Generated.ops_dup_4 vm) (sem (.dup 4) vm.stack) := by
  instr_tac Generated.ops_dup_4

theorem refines_dup_9 : ∀ vm : Vm, 16 ≤ vm.stack.length →
    Refines (stackRun Generated.ops_dup_9 vm) (sem (.dup 9) vm.stack) := by
  instr_tac Generated.ops_dup_9

theorem refines_dupw_2 : ∀ vm : Vm, 16 ≤ vm.stack.length →
    Refines (stackRun Generated.ops_dupw_2 vm) (sem (.dupw 2) vm.stack) := by
  instr_tac Generated.ops_dupw_2

theorem refines_eq_1 : ∀ vm : Vm, 16 ≤ vm.stack.length →
    Refines (stackRun Generated.ops_eq_1 vm) (sem (.eqImm 1) vm.stack) := by
  instr_tac Generated.ops_eq_1

theorem refines_eq_4294967295 : ∀ vm : Vm, 16 ≤ vm.stack.length →
    Refines (stackRun Generated.ops_eq_4294967295 vm) (sem (.eqImm 4294967295) vm.stack) := by
  instr_tac Generated.ops_eq_4294967295

theorem refines_eq_9223372036854775813 : ∀ vm : Vm, 16 ≤ vm.stack.length →
    Refines (stackRun Generated.ops_eq_9223372036854775813 vm) (sem (.eqImm 9223372036854775813) vm.stack) := by
  instr_tac Generated.ops_eq_9223372036854775813

theorem refines_movdn_11 : ∀ vm : Vm, 16 ≤ vm.stack.length →
    Refines (stackRun Generated.ops_movdn_11 vm) (sem (.movdn 11) vm.stack) := by
  instr_tac Generated.ops_movdn_11

theorem refines_movdn_15 : ∀ vm : Vm, 16 ≤ vm.stack.length →
    Refines (stackRun Generated.ops_movdn_15 vm) (sem (.movdn 15) vm.stack) := by
  instr_tac Generated.ops_movdn_15

theorem refines_movdn_5 : ∀ vm : Vm, 16 ≤ vm.stack.length →
    Refines (stackRun Generated.ops_movdn_5 vm) (sem (.movdn 5) vm.stack) := by
  instr_tac Generated.ops_movdn_5

theorem refines_movdn_9 : ∀ vm : Vm, 16 ≤ vm.stack.length →
    Refines (stackRun Generated.ops_movdn_9 vm) (sem (.movdn 9) vm.stack) := by
  instr_tac Generated.ops_movdn_9

theorem refines_movup_11 : ∀ vm : Vm, 16 ≤ vm.stack.length →
    Refines (stackRun Generated.ops_movup_11 vm) (sem (.movup 11) vm.stack) := by
  instr_tac Generated.ops_movup_11

theorem refines_movup_15 : ∀ vm : Vm, 16 ≤ vm.stack.length →
    Refines (stackRun Generated.ops_movup_15 vm) (sem (.movup 15) vm.stack) := by
  instr_tac Generated.ops_movup_15

theorem refines_movup_5 : ∀ vm : Vm, 16 ≤ vm.stack.length →
    Refines (stackRun Generated.ops_movup_5 vm) (sem (.movup 5) vm.stack) := by
  instr_tac Generated.ops_movup_5

theorem refines_movup_9 : ∀ vm : Vm, 16 ≤ vm.stack.length →
    Refines (stackRun Generated.ops_movup_9 vm) (sem (.movup 9) vm.stack) := by
  instr_tac Generated.ops_movup_9

theorem refines_mul_0 : ∀ vm : Vm, 16 ≤ vm.stack.length →
    Refines (stackRun Generated.ops_mul_0 vm) (sem (.mulImm 0) vm.stack) := by
  instr_tac Generated.ops_mul_0

theorem refines_neg : ∀ vm : Vm, 16 ≤ vm.stack.length →
    Refines (stackRun Generated.ops_neg vm) (sem .neg vm.stack) := by
  instr_tac Generated.ops_neg

theorem refines_neq_18446744069414584320 : ∀ vm : Vm, 16 ≤ vm.stack.length →
    Refines (stackRun Generated.ops_neq_18446744069414584320 vm) (sem (.neqImm 18446744069414584320) vm.stack) := by
  instr_tac Generated.ops_neq_18446744069414584320

theorem refines_neq_4294967296 : ∀ vm : Vm, 16 ≤ vm.stack.length →
    Refines (stackRun Generated.ops_neq_4294967296 vm) (sem (.neqImm 4294967296) vm.stack) := by
  instr_tac Generated.ops_neq_4294967296

theorem refines_not : ∀ vm : Vm, 16 ≤ vm.stack.length →
    Refines (stackRun Generated.ops_not vm) (sem .not vm.stack) := by
  instr_tac Generated.ops_not

theorem refines_push_2 : ∀ vm : Vm, 16 ≤ vm.stack.length →
    Refines (stackRun Generated.ops_push_2 vm) (sem (.push [2]) vm.stack) := by
  instr_tac Generated.ops_push_2

theorem refines_push_65536 : ∀ vm : Vm, 16 ≤ vm.stack.length →
    Refines (stackRun Generated.ops_push_65536 vm) (sem (.push [65536]) vm.stack) := by
  instr_tac Generated.ops_push_65536

theorem refines_sub : ∀ vm : Vm, 16 ≤ vm.stack.length →
    Refines (stackRun Generated.ops_sub vm) (sem .sub vm.stack) := by
  instr_tac Generated.ops_sub

theorem refines_swap_11 : ∀ vm : Vm, 16 ≤ vm.stack.length →
    Refines (stackRun Generated.ops_swap_11 vm) (sem (.swap 11) vm.stack) := by
  instr_tac Generated.ops_swap_11

theorem refines_swap_15 : ∀ vm : Vm, 16 ≤ vm.stack.length →
    Refines (stackRun Generated.ops_swap_15 vm) (sem (.swap 15) vm.stack) := by
  instr_tac Generated.ops_swap_15

theorem refines_swap_5 : ∀ vm : Vm, 16 ≤ vm.stack.length →
    Refines (stackRun Generated.ops_swap_5 vm) (sem (.swap 5) vm.stack) := by
  instr_tac Generated.ops_swap_5

theorem refines_swap_9 : ∀ vm : Vm, 16 ≤ vm.stack.length →
    Refines (stackRun Generated.ops_swap_9 vm) (sem (.swap 9) vm.stack) := by
  instr_tac Generated.ops_swap_9

theorem refines_swapw_2 : ∀ vm : Vm, 16 ≤ vm.stack.length →
    Refines (stackRun Generated.ops_swapw_2 vm) (sem (.swapw 2) vm.stack) := by
  instr_tac Generated.ops_swapw_2

theorem refines_u32div : ∀ vm : Vm, 16 ≤ vm.stack.length →
    Refines (stackRun Generated.ops_u32div vm) (sem .u32div vm.stack) := by
  instr_tac Generated.ops_u32div

theorem refines_u32div_65536 : ∀ vm : Vm, 16 ≤ vm.stack.length →
    Refines (stackRun Generated.ops_u32div_65536 vm) (sem (.u32divImm 65536) vm.stack) := by
  instr_tac Generated.ops_u32div_65536

theorem refines_u32divmod_3 : ∀ vm : Vm, 16 ≤ vm.stack.length →
    Refines (stackRun Generated.ops_u32divmod_3 vm) (sem (.u32divmodImm 3) vm.stack) := by
  instr_tac Generated.ops_u32divmod_3

theorem refines_u32mod : ∀ vm : Vm, 16 ≤ vm.stack.length →
    Refines (stackRun Generated.ops_u32mod vm) (sem .u32mod vm.stack) := by
  instr_tac Generated.ops_u32mod

theorem refines_u32mod_65536 : ∀ vm : Vm, 16 ≤ vm.stack.length →
    Refines (stackRun Generated.ops_u32mod_65536 vm) (sem (.u32modImm 65536) vm.stack) := by
  instr_tac Generated.ops_u32mod_65536

theorem refines_u32shr_10 : ∀ vm : Vm, 16 ≤ vm.stack.length →
    Refines (stackRun Generated.ops_u32shr_10 vm) (sem (.u32shrImm 10) vm.stack) := by
  instr_tac Generated.ops_u32shr_10

theorem refines_u32shr_14 : ∀ vm : Vm, 16 ≤ vm.stack.length →
    Refines (stackRun Generated.ops_u32shr_14 vm) (sem (.u32shrImm 14) vm.stack) := by
  instr_tac Generated.ops_u32shr_14

theorem refines_u32shr_18 : ∀ vm : Vm, 16 ≤ vm.stack.length →
    Refines (stackRun Generated.ops_u32shr_18 vm) (sem (.u32shrImm 18) vm.stack) := by
  instr_tac Generated.ops_u32shr_18

theorem refines_u32shr_21 : ∀ vm : Vm, 16 ≤ vm.stack.length →
    Refines (stackRun Generated.ops_u32shr_21 vm) (sem (.u32shrImm 21) vm.stack) := by
  instr_tac Generated.ops_u32shr_21

theorem refines_u32shr_25 : ∀ vm : Vm, 16 ≤ vm.stack.length →
    Refines (stackRun Generated.ops_u32shr_25 vm) (sem (.u32shrImm 25) vm.stack) := by
  instr_tac Generated.ops_u32shr_25

theorem refines_u32shr_29 : ∀ vm : Vm, 16 ≤ vm.stack.length →
    Refines (stackRun Generated.ops_u32shr_29 vm) (sem (.u32shrImm 29) vm.stack) := by
  instr_tac Generated.ops_u32shr_29

theorem refines_u32shr_4 : ∀ vm : Vm, 16 ≤ vm.stack.length →
    Refines (stackRun Generated.ops_u32shr_4 vm) (sem (.u32shrImm 4) vm.stack) := by
  instr_tac Generated.ops_u32shr_4

theorem refines_u32shr_8 : ∀ vm : Vm, 16 ≤ vm.stack.length →
    Refines (stackRun Generated.ops_u32shr_8 vm) (sem (.u32shrImm 8) vm.stack) := by
  instr_tac Generated.ops_u32shr_8

end Miden.C05
