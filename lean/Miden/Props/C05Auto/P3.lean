/-
  GENERATED at development time by tools/gen_c05_theorems.py (statements follow one template; the
  proofs are checked by Lean like any other).  One theorem per instruction form: the operations
  the real assembler emits (Generated/InstrOps.lean, regenerated on every run) refine the
  instruction reference (Spec/Instr.lean) on every stack of depth >= 16, every other component of
  the machine state being arbitrary.
-/
import Miden.Lemmas.InstrTac
namespace Miden.C05
open Miden Miden.Spec

theorem refines_add_7 : ∀ vm : Vm, 16 ≤ vm.stack.length →
    Refines (stackRun Generated.ops_add_7 vm) (sem (.addImm 7) vm.stack) := by
  instr_tac Generated.ops_add_7

theorem refines_assert_eq_err_9 : ∀ vm : Vm, 16 ≤ vm.stack.length →
    Refines (stackRun Generated.ops_assert_eq_err_9 vm) (sem (.assertEq 9) vm.stack) := by
  instr_tac Generated.ops_assert_eq_err_9

theorem refines_cdropw : ∀ vm : Vm, 16 ≤ vm.stack.length →
    Refines (stackRun Generated.ops_cdropw vm) (sem .cdropw vm.stack) := by
  instr_tac Generated.ops_cdropw

theorem refines_drop : ∀ vm : Vm, 16 ≤ vm.stack.length →
    Refines (stackRun Generated.ops_drop vm) (sem .drop vm.stack) := by
  instr_tac Generated.ops_drop

theorem refines_dup_1 : ∀ vm : Vm, 16 ≤ vm.stack.length →
    Refines (stackRun Generated.ops_dup_1 vm) (sem (.dup 1) vm.stack) := by
  instr_tac Generated.ops_dup_1

theorem refines_dup_3 : ∀ vm : Vm, 16 ≤ vm.stack.length →
    Refines (stackRun Generated.ops_dup_3 vm) (sem (.dup 3) vm.stack) := by
  instr_tac Generated.ops_dup_3

theorem refines_dup_7 : ∀ vm : Vm, 16 ≤ vm.stack.length →
    Refines (stackRun Generated.ops_dup_7 vm) (sem (.dup 7) vm.stack) := by
  instr_tac Generated.ops_dup_7

theorem refines_dupw_1 : ∀ vm : Vm, 16 ≤ vm.stack.length →
    Refines (stackRun Generated.ops_dupw_1 vm) (sem (.dupw 1) vm.stack) := by
  instr_tac Generated.ops_dupw_1

theorem refines_eq_0 : ∀ vm : Vm, 16 ≤ vm.stack.length →
    Refines (stackRun Generated.ops_eq_0 vm) (sem (.eqImm 0) vm.stack) := by
  instr_tac Generated.ops_eq_0

theorem refines_eq_3 : ∀ vm : Vm, 16 ≤ vm.stack.length →
    Refines (stackRun Generated.ops_eq_3 vm) (sem (.eqImm 3) vm.stack) := by
  instr_tac Generated.ops_eq_3

theorem refines_eq_7 : ∀ vm : Vm, 16 ≤ vm.stack.length →
    Refines (stackRun Generated.ops_eq_7 vm) (sem (.eqImm 7) vm.stack) := by
  instr_tac Generated.ops_eq_7

theorem refines_movdn_10 : ∀ vm : Vm, 16 ≤ vm.stack.length →
    Refines (stackRun Generated.ops_movdn_10 vm) (sem (.movdn 10) vm.stack) := by
  instr_tac Generated.ops_movdn_10

theorem refines_movdn_14 : ∀ vm : Vm, 16 ≤ vm.stack.length →
    Refines (stackRun Generated.ops_movdn_14 vm) (sem (.movdn 14) vm.stack) := by
  instr_tac Generated.ops_movdn_14

theorem refines_movdn_4 : ∀ vm : Vm, 16 ≤ vm.stack.length →
    Refines (stackRun Generated.ops_movdn_4 vm) (sem (.movdn 4) vm.stack) := by
  instr_tac Generated.ops_movdn_4

theorem refines_movdn_8 : ∀ vm : Vm, 16 ≤ vm.stack.length →
    Refines (stackRun Generated.ops_movdn_8 vm) (sem (.movdn 8) vm.stack) := by
  instr_tac Generated.ops_movdn_8

theorem refines_movup_10 : ∀ vm : Vm, 16 ≤ vm.stack.length →
    Refines (stackRun Generated.ops_movup_10 vm) (sem (.movup 10) vm.stack) := by
  instr_tac Generated.ops_movup_10

theorem refines_movup_14 : ∀ vm : Vm, 16 ≤ vm.stack.length →
    Refines (stackRun Generated.ops_movup_14 vm) (sem (.movup 14) vm.stack) := by
  instr_tac Generated.ops_movup_14

theorem refines_movup_4 : ∀ vm : Vm, 16 ≤ vm.stack.length →
    Refines (stackRun Generated.ops_movup_4 vm) (sem (.movup 4) vm.stack) := by
  instr_tac Generated.ops_movup_4

theorem refines_movup_8 : ∀ vm : Vm, 16 ≤ vm.stack.length →
    Refines (stackRun Generated.ops_movup_8 vm) (sem (.movup 8) vm.stack) := by
  instr_tac Generated.ops_movup_8

theorem refines_mul : ∀ vm : Vm, 16 ≤ vm.stack.length →
    Refines (stackRun Generated.ops_mul vm) (sem .mul vm.stack) := by
  instr_tac Generated.ops_mul

theorem refines_mul_7 : ∀ vm : Vm, 16 ≤ vm.stack.length →
    Refines (stackRun Generated.ops_mul_7 vm) (sem (.mulImm 7) vm.stack) := by
  instr_tac Generated.ops_mul_7

theorem refines_neq_1 : ∀ vm : Vm, 16 ≤ vm.stack.length →
    Refines (stackRun Generated.ops_neq_1 vm) (sem (.neqImm 1) vm.stack) := by
  instr_tac Generated.ops_neq_1

theorem refines_neq_4294967295 : ∀ vm : Vm, 16 ≤ vm.stack.length →
    Refines (stackRun Generated.ops_neq_4294967295 vm) (sem (.neqImm 4294967295) vm.stack) := by
  instr_tac Generated.ops_neq_4294967295

theorem refines_neq_9223372036854775813 : ∀ vm : Vm, 16 ≤ vm.stack.length →
    Refines (stackRun Generated.ops_neq_9223372036854775813 vm) (sem (.neqImm 9223372036854775813) vm.stack) := by
  instr_tac Generated.ops_neq_9223372036854775813

theorem refines_push_18446744069414584320 : ∀ vm : Vm, 16 ≤ vm.stack.length →
    Refines (stackRun Generated.ops_push_18446744069414584320 vm) (sem (.push [18446744069414584320]) vm.stack) := by
  instr_tac Generated.ops_push_18446744069414584320

theorem refines_push_4294967296 : ∀ vm : Vm, 16 ≤ vm.stack.length →
    Refines (stackRun Generated.ops_push_4294967296 vm) (sem (.push [4294967296]) vm.stack) := by
  instr_tac Generated.ops_push_4294967296

theorem refines_sdepth : ∀ vm : Vm, 16 ≤ vm.stack.length →
    Refines (stackRun Generated.ops_sdepth vm) (sem .sdepth vm.stack) := by
  instr_tac Generated.ops_sdepth

theorem refines_swap_10 : ∀ vm : Vm, 16 ≤ vm.stack.length →
    Refines (stackRun Generated.ops_swap_10 vm) (sem (.swap 10) vm.stack) := by
  instr_tac Generated.ops_swap_10

theorem refines_swap_14 : ∀ vm : Vm, 16 ≤ vm.stack.length →
    Refines (stackRun Generated.ops_swap_14 vm) (sem (.swap 14) vm.stack) := by
  instr_tac Generated.ops_swap_14

theorem refines_swap_4 : ∀ vm : Vm, 16 ≤ vm.stack.length →
    Refines (stackRun Generated.ops_swap_4 vm) (sem (.swap 4) vm.stack) := by
  instr_tac Generated.ops_swap_4

theorem refines_swap_8 : ∀ vm : Vm, 16 ≤ vm.stack.length →
    Refines (stackRun Generated.ops_swap_8 vm) (sem (.swap 8) vm.stack) := by
  instr_tac Generated.ops_swap_8

theorem refines_swapw_1 : ∀ vm : Vm, 16 ≤ vm.stack.length →
    Refines (stackRun Generated.ops_swapw_1 vm) (sem (.swapw 1) vm.stack) := by
  instr_tac Generated.ops_swapw_1

theorem refines_u32assert2_err_5 : ∀ vm : Vm, 16 ≤ vm.stack.length →
    Refines (stackRun Generated.ops_u32assert2_err_5 vm) (sem (.u32assert2 5) vm.stack) := by
  instr_tac Generated.ops_u32assert2_err_5

theorem refines_u32div_4294967295 : ∀ vm : Vm, 16 ≤ vm.stack.length →
    Refines (stackRun Generated.ops_u32div_4294967295 vm) (sem (.u32divImm 4294967295) vm.stack) := by
  instr_tac Generated.ops_u32div_4294967295

theorem refines_u32divmod_2 : ∀ vm : Vm, 16 ≤ vm.stack.length →
    Refines (stackRun Generated.ops_u32divmod_2 vm) (sem (.u32divmodImm 2) vm.stack) := by
  instr_tac Generated.ops_u32divmod_2

theorem refines_u32divmod_7 : ∀ vm : Vm, 16 ≤ vm.stack.length →
    Refines (stackRun Generated.ops_u32divmod_7 vm) (sem (.u32divmodImm 7) vm.stack) := by
  instr_tac Generated.ops_u32divmod_7

theorem refines_u32mod_4294967295 : ∀ vm : Vm, 16 ≤ vm.stack.length →
    Refines (stackRun Generated.ops_u32mod_4294967295 vm) (sem (.u32modImm 4294967295) vm.stack) := by
  instr_tac Generated.ops_u32mod_4294967295

theorem refines_u32shr_1 : ∀ vm : Vm, 16 ≤ vm.stack.length →
    Refines (stackRun Generated.ops_u32shr_1 vm) (sem (.u32shrImm 1) vm.stack) := by
  instr_tac Generated.ops_u32shr_1

theorem refines_u32shr_13 : ∀ vm : Vm, 16 ≤ vm.stack.length →
    Refines (stackRun Generated.ops_u32shr_13 vm) (sem (.u32shrImm 13) vm.stack) := by
  instr_tac Generated.ops_u32shr_13

theorem refines_u32shr_17 : ∀ vm : Vm, 16 ≤ vm.stack.length →
    Refines (stackRun Generated.ops_u32shr_17 vm) (sem (.u32shrImm 17) vm.stack) := by
  instr_tac Generated.ops_u32shr_17

theorem refines_u32shr_20 : ∀ vm : Vm, 16 ≤ vm.stack.length →
    Refines (stackRun Generated.ops_u32shr_20 vm) (sem (.u32shrImm 20) vm.stack) := by
  instr_tac Generated.ops_u32shr_20

theorem refines_u32shr_24 : ∀ vm : Vm, 16 ≤ vm.stack.length →
    Refines (stackRun Generated.ops_u32shr_24 vm) (sem (.u32shrImm 24) vm.stack) := by
  instr_tac Generated.ops_u32shr_24

theorem refines_u32shr_28 : ∀ vm : Vm, 16 ≤ vm.stack.length →
    Refines (stackRun Generated.ops_u32shr_28 vm) (sem (.u32shrImm 28) vm.stack) := by
  instr_tac Generated.ops_u32shr_28

theorem refines_u32shr_31 : ∀ vm : Vm, 16 ≤ vm.stack.length →
    Refines (stackRun Generated.ops_u32shr_31 vm) (sem (.u32shrImm 31) vm.stack) := by
  instr_tac Generated.ops_u32shr_31

theorem refines_u32shr_7 : ∀ vm : Vm, 16 ≤ vm.stack.length →
    Refines (stackRun Generated.ops_u32shr_7 vm) (sem (.u32shrImm 7) vm.stack) := by
  instr_tac Generated.ops_u32shr_7

end Miden.C05
