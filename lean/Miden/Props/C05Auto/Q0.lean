/-
  Refinement theorems for further instruction forms (same template as C05Auto/P*.lean), proved with
  `instr_tac_mod`.  Written by a development-time script; the proofs are checked by Lean.
-/
import Miden.Lemmas.InstrTac
namespace Miden.C05
open Miden Miden.Spec

theorem refines_u32wrapping_add3 : ∀ vm : Vm, 16 ≤ vm.stack.length → (∀ x ∈ vm.stack, x < P) →
    Refines (stackRun Generated.ops_u32wrapping_add3 vm) (sem .u32wrappingAdd3 vm.stack) := by
  instr_tac_mod Generated.ops_u32wrapping_add3

theorem refines_u32shl_0 : ∀ vm : Vm, 16 ≤ vm.stack.length → (∀ x ∈ vm.stack, x < P) →
    Refines (stackRun Generated.ops_u32shl_0 vm) (sem (.u32shlImm 0) vm.stack) := by
  instr_tac_mod Generated.ops_u32shl_0

theorem refines_u32shl_4 : ∀ vm : Vm, 16 ≤ vm.stack.length → (∀ x ∈ vm.stack, x < P) →
    Refines (stackRun Generated.ops_u32shl_4 vm) (sem (.u32shlImm 4) vm.stack) := by
  instr_tac_mod Generated.ops_u32shl_4

theorem refines_u32shl_8 : ∀ vm : Vm, 16 ≤ vm.stack.length → (∀ x ∈ vm.stack, x < P) →
    Refines (stackRun Generated.ops_u32shl_8 vm) (sem (.u32shlImm 8) vm.stack) := by
  instr_tac_mod Generated.ops_u32shl_8

theorem refines_u32shl_12 : ∀ vm : Vm, 16 ≤ vm.stack.length → (∀ x ∈ vm.stack, x < P) →
    Refines (stackRun Generated.ops_u32shl_12 vm) (sem (.u32shlImm 12) vm.stack) := by
  instr_tac_mod Generated.ops_u32shl_12

theorem refines_u32shl_16 : ∀ vm : Vm, 16 ≤ vm.stack.length → (∀ x ∈ vm.stack, x < P) →
    Refines (stackRun Generated.ops_u32shl_16 vm) (sem (.u32shlImm 16) vm.stack) := by
  instr_tac_mod Generated.ops_u32shl_16

theorem refines_u32shl_20 : ∀ vm : Vm, 16 ≤ vm.stack.length → (∀ x ∈ vm.stack, x < P) →
    Refines (stackRun Generated.ops_u32shl_20 vm) (sem (.u32shlImm 20) vm.stack) := by
  instr_tac_mod Generated.ops_u32shl_20

theorem refines_u32shl_24 : ∀ vm : Vm, 16 ≤ vm.stack.length → (∀ x ∈ vm.stack, x < P) →
    Refines (stackRun Generated.ops_u32shl_24 vm) (sem (.u32shlImm 24) vm.stack) := by
  instr_tac_mod Generated.ops_u32shl_24

theorem refines_u32shl_28 : ∀ vm : Vm, 16 ≤ vm.stack.length → (∀ x ∈ vm.stack, x < P) →
    Refines (stackRun Generated.ops_u32shl_28 vm) (sem (.u32shlImm 28) vm.stack) := by
  instr_tac_mod Generated.ops_u32shl_28

theorem refines_sub_3 : ∀ vm : Vm, 16 ≤ vm.stack.length → (∀ x ∈ vm.stack, x < P) →
    Refines (stackRun Generated.ops_sub_3 vm) (sem (.subImm 3) vm.stack) := by
  instr_tac_mod Generated.ops_sub_3

theorem refines_sub_9223372036854775813 : ∀ vm : Vm, 16 ≤ vm.stack.length → (∀ x ∈ vm.stack, x < P) →
    Refines (stackRun Generated.ops_sub_9223372036854775813 vm) (sem (.subImm 9223372036854775813) vm.stack) := by
  instr_tac_mod Generated.ops_sub_9223372036854775813

theorem refines_u32wrapping_sub_1 : ∀ vm : Vm, 16 ≤ vm.stack.length → (∀ x ∈ vm.stack, x < P) →
    Refines (stackRun Generated.ops_u32wrapping_sub_1 vm) (sem (.u32wrappingSubImm 1) vm.stack) := by
  instr_tac_mod Generated.ops_u32wrapping_sub_1

theorem refines_u32wrapping_add_3 : ∀ vm : Vm, 16 ≤ vm.stack.length → (∀ x ∈ vm.stack, x < P) →
    Refines (stackRun Generated.ops_u32wrapping_add_3 vm) (sem (.u32wrappingAddImm 3) vm.stack) := by
  instr_tac_mod Generated.ops_u32wrapping_add_3

theorem refines_u32wrapping_add_65536 : ∀ vm : Vm, 16 ≤ vm.stack.length → (∀ x ∈ vm.stack, x < P) →
    Refines (stackRun Generated.ops_u32wrapping_add_65536 vm) (sem (.u32wrappingAddImm 65536) vm.stack) := by
  instr_tac_mod Generated.ops_u32wrapping_add_65536

end Miden.C05
