/-
  GENERATED at development time by tools/gen_c05_theorems.py (statements follow one template; the
  proofs are checked by Lean like any other).  One theorem per instruction form: the operations
  the real assembler emits (Generated/InstrOps.lean, regenerated on every run) refine the
  instruction reference (Spec/Instr.lean) on every stack of depth >= 16, every other component of
  the machine state being arbitrary.
-/
import Miden.Lemmas.InstrTac
namespace Miden.C05
open Miden Miden.Spec

theorem refines_add_1 : ∀ vm : Vm, 16 ≤ vm.stack.length →
    Refines (stackRun Generated.ops_add_1 vm) (sem (.addImm 1) vm.stack) := by
  instr_tac Generated.ops_add_1

theorem refines_assert_err_7 : ∀ vm : Vm, 16 ≤ vm.stack.length →
    Refines (stackRun Generated.ops_assert_err_7 vm) (sem (.assert 7) vm.stack) := by
  instr_tac Generated.ops_assert_err_7

theorem refines_assertz_err_8 : ∀ vm : Vm, 16 ≤ vm.stack.length →
    Refines (stackRun Generated.ops_assertz_err_8 vm) (sem (.assertz 8) vm.stack) := by
  instr_tac Generated.ops_assertz_err_8

theorem refines_cswapw : ∀ vm : Vm, 16 ≤ vm.stack.length →
    Refines (stackRun Generated.ops_cswapw vm) (sem .cswapw vm.stack) := by
  instr_tac Generated.ops_cswapw

theorem refines_dup : ∀ vm : Vm, 16 ≤ vm.stack.length →
    Refines (stackRun Generated.ops_dup vm) (sem (.dup 0) vm.stack) := by
  instr_tac Generated.ops_dup

theorem refines_dup_15 : ∀ vm : Vm, 16 ≤ vm.stack.length →
    Refines (stackRun Generated.ops_dup_15 vm) (sem (.dup 15) vm.stack) := by
  instr_tac Generated.ops_dup_15

theorem refines_dup_5 : ∀ vm : Vm, 16 ≤ vm.stack.length →
    Refines (stackRun Generated.ops_dup_5 vm) (sem (.dup 5) vm.stack) := by
  instr_tac Generated.ops_dup_5

theorem refines_dupw : ∀ vm : Vm, 16 ≤ vm.stack.length →
    Refines (stackRun Generated.ops_dupw vm) (sem (.dupw 0) vm.stack) := by
  instr_tac Generated.ops_dupw

theorem refines_dupw_3 : ∀ vm : Vm, 16 ≤ vm.stack.length →
    Refines (stackRun Generated.ops_dupw_3 vm) (sem (.dupw 3) vm.stack) := by
  instr_tac Generated.ops_dupw_3

theorem refines_eq_18446744069414584320 : ∀ vm : Vm, 16 ≤ vm.stack.length →
    Refines (stackRun Generated.ops_eq_18446744069414584320 vm) (sem (.eqImm 18446744069414584320) vm.stack) := by
  instr_tac Generated.ops_eq_18446744069414584320

theorem refines_eq_4294967296 : ∀ vm : Vm, 16 ≤ vm.stack.length →
    Refines (stackRun Generated.ops_eq_4294967296 vm) (sem (.eqImm 4294967296) vm.stack) := by
  instr_tac Generated.ops_eq_4294967296

theorem refines_ext2neg : ∀ vm : Vm, 16 ≤ vm.stack.length →
    Refines (stackRun Generated.ops_ext2neg vm) (sem .ext2neg vm.stack) := by
  instr_tac Generated.ops_ext2neg

theorem refines_movdn_12 : ∀ vm : Vm, 16 ≤ vm.stack.length →
    Refines (stackRun Generated.ops_movdn_12 vm) (sem (.movdn 12) vm.stack) := by
  instr_tac Generated.ops_movdn_12

theorem refines_movdn_2 : ∀ vm : Vm, 16 ≤ vm.stack.length →
    Refines (stackRun Generated.ops_movdn_2 vm) (sem (.movdn 2) vm.stack) := by
  instr_tac Generated.ops_movdn_2

theorem refines_movdn_6 : ∀ vm : Vm, 16 ≤ vm.stack.length →
    Refines (stackRun Generated.ops_movdn_6 vm) (sem (.movdn 6) vm.stack) := by
  instr_tac Generated.ops_movdn_6

theorem refines_movdnw_2 : ∀ vm : Vm, 16 ≤ vm.stack.length →
    Refines (stackRun Generated.ops_movdnw_2 vm) (sem (.movdnw 2) vm.stack) := by
  instr_tac Generated.ops_movdnw_2

theorem refines_movup_12 : ∀ vm : Vm, 16 ≤ vm.stack.length →
    Refines (stackRun Generated.ops_movup_12 vm) (sem (.movup 12) vm.stack) := by
  instr_tac Generated.ops_movup_12

theorem refines_movup_2 : ∀ vm : Vm, 16 ≤ vm.stack.length →
    Refines (stackRun Generated.ops_movup_2 vm) (sem (.movup 2) vm.stack) := by
  instr_tac Generated.ops_movup_2

theorem refines_movup_6 : ∀ vm : Vm, 16 ≤ vm.stack.length →
    Refines (stackRun Generated.ops_movup_6 vm) (sem (.movup 6) vm.stack) := by
  instr_tac Generated.ops_movup_6

theorem refines_movupw_2 : ∀ vm : Vm, 16 ≤ vm.stack.length →
    Refines (stackRun Generated.ops_movupw_2 vm) (sem (.movupw 2) vm.stack) := by
  instr_tac Generated.ops_movupw_2

theorem refines_mul_2 : ∀ vm : Vm, 16 ≤ vm.stack.length →
    Refines (stackRun Generated.ops_mul_2 vm) (sem (.mulImm 2) vm.stack) := by
  instr_tac Generated.ops_mul_2

theorem refines_neq : ∀ vm : Vm, 16 ≤ vm.stack.length →
    Refines (stackRun Generated.ops_neq vm) (sem .neq vm.stack) := by
  instr_tac Generated.ops_neq

theorem refines_neq_2 : ∀ vm : Vm, 16 ≤ vm.stack.length →
    Refines (stackRun Generated.ops_neq_2 vm) (sem (.neqImm 2) vm.stack) := by
  instr_tac Generated.ops_neq_2

theorem refines_neq_65536 : ∀ vm : Vm, 16 ≤ vm.stack.length →
    Refines (stackRun Generated.ops_neq_65536 vm) (sem (.neqImm 65536) vm.stack) := by
  instr_tac Generated.ops_neq_65536

theorem refines_padw : ∀ vm : Vm, 16 ≤ vm.stack.length →
    Refines (stackRun Generated.ops_padw vm) (sem .padw vm.stack) := by
  instr_tac Generated.ops_padw

theorem refines_push_3 : ∀ vm : Vm, 16 ≤ vm.stack.length →
    Refines (stackRun Generated.ops_push_3 vm) (sem (.push [3]) vm.stack) := by
  instr_tac Generated.ops_push_3

theorem refines_push_7 : ∀ vm : Vm, 16 ≤ vm.stack.length →
    Refines (stackRun Generated.ops_push_7 vm) (sem (.push [7]) vm.stack) := by
  instr_tac Generated.ops_push_7

theorem refines_swap : ∀ vm : Vm, 16 ≤ vm.stack.length →
    Refines (stackRun Generated.ops_swap vm) (sem (.swap 1) vm.stack) := by
  instr_tac Generated.ops_swap

theorem refines_swap_12 : ∀ vm : Vm, 16 ≤ vm.stack.length →
    Refines (stackRun Generated.ops_swap_12 vm) (sem (.swap 12) vm.stack) := by
  instr_tac Generated.ops_swap_12

theorem refines_swap_2 : ∀ vm : Vm, 16 ≤ vm.stack.length →
    Refines (stackRun Generated.ops_swap_2 vm) (sem (.swap 2) vm.stack) := by
  instr_tac Generated.ops_swap_2

theorem refines_swap_6 : ∀ vm : Vm, 16 ≤ vm.stack.length →
    Refines (stackRun Generated.ops_swap_6 vm) (sem (.swap 6) vm.stack) := by
  instr_tac Generated.ops_swap_6

theorem refines_swapdw : ∀ vm : Vm, 16 ≤ vm.stack.length →
    Refines (stackRun Generated.ops_swapdw vm) (sem .swapdw vm.stack) := by
  instr_tac Generated.ops_swapdw

theorem refines_swapw_3 : ∀ vm : Vm, 16 ≤ vm.stack.length →
    Refines (stackRun Generated.ops_swapw_3 vm) (sem (.swapw 3) vm.stack) := by
  instr_tac Generated.ops_swapw_3

theorem refines_u32div_2 : ∀ vm : Vm, 16 ≤ vm.stack.length →
    Refines (stackRun Generated.ops_u32div_2 vm) (sem (.u32divImm 2) vm.stack) := by
  instr_tac Generated.ops_u32div_2

theorem refines_u32div_7 : ∀ vm : Vm, 16 ≤ vm.stack.length →
    Refines (stackRun Generated.ops_u32div_7 vm) (sem (.u32divImm 7) vm.stack) := by
  instr_tac Generated.ops_u32div_7

theorem refines_u32divmod_4294967295 : ∀ vm : Vm, 16 ≤ vm.stack.length →
    Refines (stackRun Generated.ops_u32divmod_4294967295 vm) (sem (.u32divmodImm 4294967295) vm.stack) := by
  instr_tac Generated.ops_u32divmod_4294967295

theorem refines_u32mod_2 : ∀ vm : Vm, 16 ≤ vm.stack.length →
    Refines (stackRun Generated.ops_u32mod_2 vm) (sem (.u32modImm 2) vm.stack) := by
  instr_tac Generated.ops_u32mod_2

theorem refines_u32mod_7 : ∀ vm : Vm, 16 ≤ vm.stack.length →
    Refines (stackRun Generated.ops_u32mod_7 vm) (sem (.u32modImm 7) vm.stack) := by
  instr_tac Generated.ops_u32mod_7

theorem refines_u32shr_11 : ∀ vm : Vm, 16 ≤ vm.stack.length →
    Refines (stackRun Generated.ops_u32shr_11 vm) (sem (.u32shrImm 11) vm.stack) := by
  instr_tac Generated.ops_u32shr_11

theorem refines_u32shr_15 : ∀ vm : Vm, 16 ≤ vm.stack.length →
    Refines (stackRun Generated.ops_u32shr_15 vm) (sem (.u32shrImm 15) vm.stack) := by
  instr_tac Generated.ops_u32shr_15

theorem refines_u32shr_19 : ∀ vm : Vm, 16 ≤ vm.stack.length →
    Refines (stackRun Generated.ops_u32shr_19 vm) (sem (.u32shrImm 19) vm.stack) := by
  instr_tac Generated.ops_u32shr_19

theorem refines_u32shr_22 : ∀ vm : Vm, 16 ≤ vm.stack.length →
    Refines (stackRun Generated.ops_u32shr_22 vm) (sem (.u32shrImm 22) vm.stack) := by
  instr_tac Generated.ops_u32shr_22

theorem refines_u32shr_26 : ∀ vm : Vm, 16 ≤ vm.stack.length →
    Refines (stackRun Generated.ops_u32shr_26 vm) (sem (.u32shrImm 26) vm.stack) := by
  instr_tac Generated.ops_u32shr_26

theorem refines_u32shr_3 : ∀ vm : Vm, 16 ≤ vm.stack.length →
    Refines (stackRun Generated.ops_u32shr_3 vm) (sem (.u32shrImm 3) vm.stack) := by
  instr_tac Generated.ops_u32shr_3

theorem refines_u32shr_5 : ∀ vm : Vm, 16 ≤ vm.stack.length →
    Refines (stackRun Generated.ops_u32shr_5 vm) (sem (.u32shrImm 5) vm.stack) := by
  instr_tac Generated.ops_u32shr_5

theorem refines_u32shr_9 : ∀ vm : Vm, 16 ≤ vm.stack.length →
    Refines (stackRun Generated.ops_u32shr_9 vm) (sem (.u32shrImm 9) vm.stack) := by
  instr_tac Generated.ops_u32shr_9

end Miden.C05
