/-
  Refinement theorems for further instruction forms (same template as C05Auto/P*.lean), proved with
  `instr_tac_mod`.  Written by a development-time script; the proofs are checked by Lean.
-/
import Miden.Lemmas.InstrTac
namespace Miden.C05
open Miden Miden.Spec

theorem refines_u32rotl_1 : ∀ vm : Vm, 16 ≤ vm.stack.length → (∀ x ∈ vm.stack, x < P) →
    Refines (stackRun Generated.ops_u32rotl_1 vm) (sem (.u32rotlImm 1) vm.stack) := by
  instr_tac_mod Generated.ops_u32rotl_1

theorem refines_u32rotl_5 : ∀ vm : Vm, 16 ≤ vm.stack.length → (∀ x ∈ vm.stack, x < P) →
    Refines (stackRun Generated.ops_u32rotl_5 vm) (sem (.u32rotlImm 5) vm.stack) := by
  instr_tac_mod Generated.ops_u32rotl_5

theorem refines_u32rotl_9 : ∀ vm : Vm, 16 ≤ vm.stack.length → (∀ x ∈ vm.stack, x < P) →
    Refines (stackRun Generated.ops_u32rotl_9 vm) (sem (.u32rotlImm 9) vm.stack) := by
  instr_tac_mod Generated.ops_u32rotl_9

theorem refines_u32rotl_13 : ∀ vm : Vm, 16 ≤ vm.stack.length → (∀ x ∈ vm.stack, x < P) →
    Refines (stackRun Generated.ops_u32rotl_13 vm) (sem (.u32rotlImm 13) vm.stack) := by
  instr_tac_mod Generated.ops_u32rotl_13

theorem refines_u32rotl_17 : ∀ vm : Vm, 16 ≤ vm.stack.length → (∀ x ∈ vm.stack, x < P) →
    Refines (stackRun Generated.ops_u32rotl_17 vm) (sem (.u32rotlImm 17) vm.stack) := by
  instr_tac_mod Generated.ops_u32rotl_17

theorem refines_u32rotl_21 : ∀ vm : Vm, 16 ≤ vm.stack.length → (∀ x ∈ vm.stack, x < P) →
    Refines (stackRun Generated.ops_u32rotl_21 vm) (sem (.u32rotlImm 21) vm.stack) := by
  instr_tac_mod Generated.ops_u32rotl_21

theorem refines_u32rotl_25 : ∀ vm : Vm, 16 ≤ vm.stack.length → (∀ x ∈ vm.stack, x < P) →
    Refines (stackRun Generated.ops_u32rotl_25 vm) (sem (.u32rotlImm 25) vm.stack) := by
  instr_tac_mod Generated.ops_u32rotl_25

theorem refines_u32rotl_29 : ∀ vm : Vm, 16 ≤ vm.stack.length → (∀ x ∈ vm.stack, x < P) →
    Refines (stackRun Generated.ops_u32rotl_29 vm) (sem (.u32rotlImm 29) vm.stack) := by
  instr_tac_mod Generated.ops_u32rotl_29

theorem refines_mul_4294967296 : ∀ vm : Vm, 16 ≤ vm.stack.length → (∀ x ∈ vm.stack, x < P) →
    Refines (stackRun Generated.ops_mul_4294967296 vm) (sem (.mulImm 4294967296) vm.stack) := by
  instr_tac_mod Generated.ops_mul_4294967296

theorem refines_u32wrapping_add_0 : ∀ vm : Vm, 16 ≤ vm.stack.length → (∀ x ∈ vm.stack, x < P) →
    Refines (stackRun Generated.ops_u32wrapping_add_0 vm) (sem (.u32wrappingAddImm 0) vm.stack) := by
  instr_tac_mod Generated.ops_u32wrapping_add_0

theorem refines_u32div_1 : ∀ vm : Vm, 16 ≤ vm.stack.length → (∀ x ∈ vm.stack, x < P) →
    Refines (stackRun Generated.ops_u32div_1 vm) (sem (.u32divImm 1) vm.stack) := by
  instr_tac_mod Generated.ops_u32div_1

theorem refines_u32wrapping_mul_3 : ∀ vm : Vm, 16 ≤ vm.stack.length → (∀ x ∈ vm.stack, x < P) →
    Refines (stackRun Generated.ops_u32wrapping_mul_3 vm) (sem (.u32wrappingMulImm 3) vm.stack) := by
  instr_tac_mod Generated.ops_u32wrapping_mul_3

theorem refines_u32wrapping_mul_65536 : ∀ vm : Vm, 16 ≤ vm.stack.length → (∀ x ∈ vm.stack, x < P) →
    Refines (stackRun Generated.ops_u32wrapping_mul_65536 vm) (sem (.u32wrappingMulImm 65536) vm.stack) := by
  instr_tac_mod Generated.ops_u32wrapping_mul_65536

end Miden.C05
