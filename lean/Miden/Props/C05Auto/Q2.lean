/-
  Refinement theorems for further instruction forms (same template as C05Auto/P*.lean), proved with
  `instr_tac_mod`.  Written by a development-time script; the proofs are checked by Lean.
-/
import Miden.Lemmas.InstrTac
namespace Miden.C05
open Miden Miden.Spec

theorem refines_u32overflowing_sub : ∀ vm : Vm, 16 ≤ vm.stack.length → (∀ x ∈ vm.stack, x < P) →
    Refines (stackRun Generated.ops_u32overflowing_sub vm) (sem .u32overflowingSub vm.stack) := by
  instr_tac_mod Generated.ops_u32overflowing_sub

theorem refines_u32rotr_0 : ∀ vm : Vm, 16 ≤ vm.stack.length → (∀ x ∈ vm.stack, x < P) →
    Refines (stackRun Generated.ops_u32rotr_0 vm) (sem (.u32rotrImm 0) vm.stack) := by
  instr_tac_mod Generated.ops_u32rotr_0

theorem refines_u32rotr_4 : ∀ vm : Vm, 16 ≤ vm.stack.length → (∀ x ∈ vm.stack, x < P) →
    Refines (stackRun Generated.ops_u32rotr_4 vm) (sem (.u32rotrImm 4) vm.stack) := by
  instr_tac_mod Generated.ops_u32rotr_4

theorem refines_u32rotr_8 : ∀ vm : Vm, 16 ≤ vm.stack.length → (∀ x ∈ vm.stack, x < P) →
    Refines (stackRun Generated.ops_u32rotr_8 vm) (sem (.u32rotrImm 8) vm.stack) := by
  instr_tac_mod Generated.ops_u32rotr_8

theorem refines_u32rotr_12 : ∀ vm : Vm, 16 ≤ vm.stack.length → (∀ x ∈ vm.stack, x < P) →
    Refines (stackRun Generated.ops_u32rotr_12 vm) (sem (.u32rotrImm 12) vm.stack) := by
  instr_tac_mod Generated.ops_u32rotr_12

theorem refines_u32rotr_16 : ∀ vm : Vm, 16 ≤ vm.stack.length → (∀ x ∈ vm.stack, x < P) →
    Refines (stackRun Generated.ops_u32rotr_16 vm) (sem (.u32rotrImm 16) vm.stack) := by
  instr_tac_mod Generated.ops_u32rotr_16

theorem refines_u32rotr_20 : ∀ vm : Vm, 16 ≤ vm.stack.length → (∀ x ∈ vm.stack, x < P) →
    Refines (stackRun Generated.ops_u32rotr_20 vm) (sem (.u32rotrImm 20) vm.stack) := by
  instr_tac_mod Generated.ops_u32rotr_20

theorem refines_u32rotr_24 : ∀ vm : Vm, 16 ≤ vm.stack.length → (∀ x ∈ vm.stack, x < P) →
    Refines (stackRun Generated.ops_u32rotr_24 vm) (sem (.u32rotrImm 24) vm.stack) := by
  instr_tac_mod Generated.ops_u32rotr_24

theorem refines_u32rotr_28 : ∀ vm : Vm, 16 ≤ vm.stack.length → (∀ x ∈ vm.stack, x < P) →
    Refines (stackRun Generated.ops_u32rotr_28 vm) (sem (.u32rotrImm 28) vm.stack) := by
  instr_tac_mod Generated.ops_u32rotr_28

theorem refines_add_4294967296 : ∀ vm : Vm, 16 ≤ vm.stack.length → (∀ x ∈ vm.stack, x < P) →
    Refines (stackRun Generated.ops_add_4294967296 vm) (sem (.addImm 4294967296) vm.stack) := by
  instr_tac_mod Generated.ops_add_4294967296

theorem refines_u32wrapping_mul_1 : ∀ vm : Vm, 16 ≤ vm.stack.length → (∀ x ∈ vm.stack, x < P) →
    Refines (stackRun Generated.ops_u32wrapping_mul_1 vm) (sem (.u32wrappingMulImm 1) vm.stack) := by
  instr_tac_mod Generated.ops_u32wrapping_mul_1

theorem refines_u32wrapping_sub_3 : ∀ vm : Vm, 16 ≤ vm.stack.length → (∀ x ∈ vm.stack, x < P) →
    Refines (stackRun Generated.ops_u32wrapping_sub_3 vm) (sem (.u32wrappingSubImm 3) vm.stack) := by
  instr_tac_mod Generated.ops_u32wrapping_sub_3

theorem refines_u32wrapping_sub_65536 : ∀ vm : Vm, 16 ≤ vm.stack.length → (∀ x ∈ vm.stack, x < P) →
    Refines (stackRun Generated.ops_u32wrapping_sub_65536 vm) (sem (.u32wrappingSubImm 65536) vm.stack) := by
  instr_tac_mod Generated.ops_u32wrapping_sub_65536

end Miden.C05
