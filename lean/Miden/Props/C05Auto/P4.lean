/-
  GENERATED at development time by tools/gen_c05_theorems.py: refinement theorems that need the
  stack elements to be canonical field elements (hypothesis `∀ x ∈ vm.stack, x < P`).
-/
import Miden.Lemmas.InstrTac
namespace Miden.C05
open Miden Miden.Spec

theorem refines_ext2add : ∀ vm : Vm, 16 ≤ vm.stack.length → (∀ x ∈ vm.stack, x < P) →
    Refines (stackRun Generated.ops_ext2add vm) (sem .ext2add vm.stack) := by
  instr_tac_canon Generated.ops_ext2add

theorem refines_ext2sub : ∀ vm : Vm, 16 ≤ vm.stack.length → (∀ x ∈ vm.stack, x < P) →
    Refines (stackRun Generated.ops_ext2sub vm) (sem .ext2sub vm.stack) := by
  instr_tac_canon Generated.ops_ext2sub

theorem refines_u32test : ∀ vm : Vm, 16 ≤ vm.stack.length → (∀ x ∈ vm.stack, x < P) →
    Refines (stackRun Generated.ops_u32test vm) (sem .u32test vm.stack) := by
  instr_tac_canon Generated.ops_u32test

theorem refines_u32assert : ∀ vm : Vm, 16 ≤ vm.stack.length → (∀ x ∈ vm.stack, x < P) →
    Refines (stackRun Generated.ops_u32assert vm) (sem (.u32assert 0) vm.stack) := by
  instr_tac_canon Generated.ops_u32assert

theorem refines_u32assert_err_3 : ∀ vm : Vm, 16 ≤ vm.stack.length → (∀ x ∈ vm.stack, x < P) →
    Refines (stackRun Generated.ops_u32assert_err_3 vm) (sem (.u32assert 3) vm.stack) := by
  instr_tac_canon Generated.ops_u32assert_err_3

theorem refines_u32cast : ∀ vm : Vm, 16 ≤ vm.stack.length → (∀ x ∈ vm.stack, x < P) →
    Refines (stackRun Generated.ops_u32cast vm) (sem .u32cast vm.stack) := by
  instr_tac_canon Generated.ops_u32cast

theorem refines_u32and : ∀ vm : Vm, 16 ≤ vm.stack.length → (∀ x ∈ vm.stack, x < P) →
    Refines (stackRun Generated.ops_u32and vm) (sem .u32and vm.stack) := by
  instr_tac_canon Generated.ops_u32and

theorem refines_u32xor : ∀ vm : Vm, 16 ≤ vm.stack.length → (∀ x ∈ vm.stack, x < P) →
    Refines (stackRun Generated.ops_u32xor vm) (sem .u32xor vm.stack) := by
  instr_tac_canon Generated.ops_u32xor

theorem refines_dup_8 : ∀ vm : Vm, 16 ≤ vm.stack.length → (∀ x ∈ vm.stack, x < P) →
    Refines (stackRun Generated.ops_dup_8 vm) (sem (.dup 8) vm.stack) := by
  instr_tac_canon Generated.ops_dup_8

theorem refines_dup_10 : ∀ vm : Vm, 16 ≤ vm.stack.length → (∀ x ∈ vm.stack, x < P) →
    Refines (stackRun Generated.ops_dup_10 vm) (sem (.dup 10) vm.stack) := by
  instr_tac_canon Generated.ops_dup_10

theorem refines_dup_12 : ∀ vm : Vm, 16 ≤ vm.stack.length → (∀ x ∈ vm.stack, x < P) →
    Refines (stackRun Generated.ops_dup_12 vm) (sem (.dup 12) vm.stack) := by
  instr_tac_canon Generated.ops_dup_12

theorem refines_dup_13 : ∀ vm : Vm, 16 ≤ vm.stack.length → (∀ x ∈ vm.stack, x < P) →
    Refines (stackRun Generated.ops_dup_13 vm) (sem (.dup 13) vm.stack) := by
  instr_tac_canon Generated.ops_dup_13

theorem refines_dup_14 : ∀ vm : Vm, 16 ≤ vm.stack.length → (∀ x ∈ vm.stack, x < P) →
    Refines (stackRun Generated.ops_dup_14 vm) (sem (.dup 14) vm.stack) := by
  instr_tac_canon Generated.ops_dup_14

theorem refines_add_0 : ∀ vm : Vm, 16 ≤ vm.stack.length → (∀ x ∈ vm.stack, x < P) →
    Refines (stackRun Generated.ops_add_0 vm) (sem (.addImm 0) vm.stack) := by
  instr_tac_canon Generated.ops_add_0

theorem refines_sub_0 : ∀ vm : Vm, 16 ≤ vm.stack.length → (∀ x ∈ vm.stack, x < P) →
    Refines (stackRun Generated.ops_sub_0 vm) (sem (.subImm 0) vm.stack) := by
  instr_tac_canon Generated.ops_sub_0

theorem refines_exp_0 : ∀ vm : Vm, 16 ≤ vm.stack.length → (∀ x ∈ vm.stack, x < P) →
    Refines (stackRun Generated.ops_exp_0 vm) (sem (.expImm 0) vm.stack) := by
  instr_tac_canon Generated.ops_exp_0

theorem refines_push_1 : ∀ vm : Vm, 16 ≤ vm.stack.length → (∀ x ∈ vm.stack, x < P) →
    Refines (stackRun Generated.ops_push_1 vm) (sem (.push [1]) vm.stack) := by
  instr_tac_canon Generated.ops_push_1

theorem refines_add_2 : ∀ vm : Vm, 16 ≤ vm.stack.length → (∀ x ∈ vm.stack, x < P) →
    Refines (stackRun Generated.ops_add_2 vm) (sem (.addImm 2) vm.stack) := by
  instr_tac_canon Generated.ops_add_2

theorem refines_add_65536 : ∀ vm : Vm, 16 ≤ vm.stack.length → (∀ x ∈ vm.stack, x < P) →
    Refines (stackRun Generated.ops_add_65536 vm) (sem (.addImm 65536) vm.stack) := by
  instr_tac_canon Generated.ops_add_65536

theorem refines_mul_65536 : ∀ vm : Vm, 16 ≤ vm.stack.length → (∀ x ∈ vm.stack, x < P) →
    Refines (stackRun Generated.ops_mul_65536 vm) (sem (.mulImm 65536) vm.stack) := by
  instr_tac_canon Generated.ops_mul_65536

theorem refines_sub_18446744069414584320 : ∀ vm : Vm, 16 ≤ vm.stack.length → (∀ x ∈ vm.stack, x < P) →
    Refines (stackRun Generated.ops_sub_18446744069414584320 vm) (sem (.subImm 18446744069414584320) vm.stack) := by
  instr_tac_canon Generated.ops_sub_18446744069414584320

theorem refines_u32mod_1 : ∀ vm : Vm, 16 ≤ vm.stack.length → (∀ x ∈ vm.stack, x < P) →
    Refines (stackRun Generated.ops_u32mod_1 vm) (sem (.u32modImm 1) vm.stack) := by
  instr_tac_canon Generated.ops_u32mod_1

theorem refines_push_1_2 : ∀ vm : Vm, 16 ≤ vm.stack.length → (∀ x ∈ vm.stack, x < P) →
    Refines (stackRun Generated.ops_push_1_2 vm) (sem (.push [1, 2]) vm.stack) := by
  instr_tac_canon Generated.ops_push_1_2

theorem refines_push_1_2_3_4 : ∀ vm : Vm, 16 ≤ vm.stack.length → (∀ x ∈ vm.stack, x < P) →
    Refines (stackRun Generated.ops_push_1_2_3_4 vm) (sem (.push [1, 2, 3, 4]) vm.stack) := by
  instr_tac_canon Generated.ops_push_1_2_3_4

theorem refines_push_18446744069414584320_0_4294967296_1_2_3_4_5_6_7_8_9_10_11_12_13 : ∀ vm : Vm, 16 ≤ vm.stack.length → (∀ x ∈ vm.stack, x < P) →
    Refines (stackRun Generated.ops_push_18446744069414584320_0_4294967296_1_2_3_4_5_6_7_8_9_10_11_12_13 vm) (sem (.push [18446744069414584320, 0, 4294967296, 1, 2, 3, 4, 5, 6, 7, 8, 9, 10, 11, 12, 13]) vm.stack) := by
  instr_tac_canon Generated.ops_push_18446744069414584320_0_4294967296_1_2_3_4_5_6_7_8_9_10_11_12_13

end Miden.C05
