/-
  Refinement theorems for further instruction forms (same template as C05Auto/P*.lean), proved with
  `instr_tac_mod`.  Written by a development-time script; the proofs are checked by Lean.
-/
import Miden.Lemmas.InstrTac
namespace Miden.C05
open Miden Miden.Spec

theorem refines_u32rotr_1 : ∀ vm : Vm, 16 ≤ vm.stack.length → (∀ x ∈ vm.stack, x < P) →
    Refines (stackRun Generated.ops_u32rotr_1 vm) (sem (.u32rotrImm 1) vm.stack) := by
  instr_tac_mod Generated.ops_u32rotr_1

theorem refines_u32rotr_5 : ∀ vm : Vm, 16 ≤ vm.stack.length → (∀ x ∈ vm.stack, x < P) →
    Refines (stackRun Generated.ops_u32rotr_5 vm) (sem (.u32rotrImm 5) vm.stack) := by
  instr_tac_mod Generated.ops_u32rotr_5

theorem refines_u32rotr_9 : ∀ vm : Vm, 16 ≤ vm.stack.length → (∀ x ∈ vm.stack, x < P) →
    Refines (stackRun Generated.ops_u32rotr_9 vm) (sem (.u32rotrImm 9) vm.stack) := by
  instr_tac_mod Generated.ops_u32rotr_9

theorem refines_u32rotr_13 : ∀ vm : Vm, 16 ≤ vm.stack.length → (∀ x ∈ vm.stack, x < P) →
    Refines (stackRun Generated.ops_u32rotr_13 vm) (sem (.u32rotrImm 13) vm.stack) := by
  instr_tac_mod Generated.ops_u32rotr_13

theorem refines_u32rotr_17 : ∀ vm : Vm, 16 ≤ vm.stack.length → (∀ x ∈ vm.stack, x < P) →
    Refines (stackRun Generated.ops_u32rotr_17 vm) (sem (.u32rotrImm 17) vm.stack) := by
  instr_tac_mod Generated.ops_u32rotr_17

theorem refines_u32rotr_21 : ∀ vm : Vm, 16 ≤ vm.stack.length → (∀ x ∈ vm.stack, x < P) →
    Refines (stackRun Generated.ops_u32rotr_21 vm) (sem (.u32rotrImm 21) vm.stack) := by
  instr_tac_mod Generated.ops_u32rotr_21

theorem refines_u32rotr_25 : ∀ vm : Vm, 16 ≤ vm.stack.length → (∀ x ∈ vm.stack, x < P) →
    Refines (stackRun Generated.ops_u32rotr_25 vm) (sem (.u32rotrImm 25) vm.stack) := by
  instr_tac_mod Generated.ops_u32rotr_25

theorem refines_u32rotr_29 : ∀ vm : Vm, 16 ≤ vm.stack.length → (∀ x ∈ vm.stack, x < P) →
    Refines (stackRun Generated.ops_u32rotr_29 vm) (sem (.u32rotrImm 29) vm.stack) := by
  instr_tac_mod Generated.ops_u32rotr_29

theorem refines_sub_1 : ∀ vm : Vm, 16 ≤ vm.stack.length → (∀ x ∈ vm.stack, x < P) →
    Refines (stackRun Generated.ops_sub_1 vm) (sem (.subImm 1) vm.stack) := by
  instr_tac_mod Generated.ops_sub_1

theorem refines_u32overflowing_add_0 : ∀ vm : Vm, 16 ≤ vm.stack.length → (∀ x ∈ vm.stack, x < P) →
    Refines (stackRun Generated.ops_u32overflowing_add_0 vm) (sem (.u32overflowingAddImm 0) vm.stack) := by
  instr_tac_mod Generated.ops_u32overflowing_add_0

end Miden.C05
