/-
  Refinement theorems for further instruction forms (same template as C05Auto/P*.lean), proved with
  `instr_tac_mod`.  Written by a development-time script; the proofs are checked by Lean.
-/
import Miden.Lemmas.InstrTac
namespace Miden.C05
open Miden Miden.Spec

theorem refines_u32assertw : ∀ vm : Vm, 16 ≤ vm.stack.length → (∀ x ∈ vm.stack, x < P) →
    Refines (stackRun Generated.ops_u32assertw vm) (sem (.u32assertw 0) vm.stack) := by
  instr_tac_mod Generated.ops_u32assertw

theorem refines_u32lt : ∀ vm : Vm, 16 ≤ vm.stack.length → (∀ x ∈ vm.stack, x < P) →
    Refines (stackRun Generated.ops_u32lt vm) (sem .u32lt vm.stack) := by
  instr_tac_mod Generated.ops_u32lt

theorem refines_u32shl_2 : ∀ vm : Vm, 16 ≤ vm.stack.length → (∀ x ∈ vm.stack, x < P) →
    Refines (stackRun Generated.ops_u32shl_2 vm) (sem (.u32shlImm 2) vm.stack) := by
  instr_tac_mod Generated.ops_u32shl_2

theorem refines_u32shl_6 : ∀ vm : Vm, 16 ≤ vm.stack.length → (∀ x ∈ vm.stack, x < P) →
    Refines (stackRun Generated.ops_u32shl_6 vm) (sem (.u32shlImm 6) vm.stack) := by
  instr_tac_mod Generated.ops_u32shl_6

theorem refines_u32shl_10 : ∀ vm : Vm, 16 ≤ vm.stack.length → (∀ x ∈ vm.stack, x < P) →
    Refines (stackRun Generated.ops_u32shl_10 vm) (sem (.u32shlImm 10) vm.stack) := by
  instr_tac_mod Generated.ops_u32shl_10

theorem refines_u32shl_14 : ∀ vm : Vm, 16 ≤ vm.stack.length → (∀ x ∈ vm.stack, x < P) →
    Refines (stackRun Generated.ops_u32shl_14 vm) (sem (.u32shlImm 14) vm.stack) := by
  instr_tac_mod Generated.ops_u32shl_14

theorem refines_u32shl_18 : ∀ vm : Vm, 16 ≤ vm.stack.length → (∀ x ∈ vm.stack, x < P) →
    Refines (stackRun Generated.ops_u32shl_18 vm) (sem (.u32shlImm 18) vm.stack) := by
  instr_tac_mod Generated.ops_u32shl_18

theorem refines_u32shl_22 : ∀ vm : Vm, 16 ≤ vm.stack.length → (∀ x ∈ vm.stack, x < P) →
    Refines (stackRun Generated.ops_u32shl_22 vm) (sem (.u32shlImm 22) vm.stack) := by
  instr_tac_mod Generated.ops_u32shl_22

theorem refines_u32shl_26 : ∀ vm : Vm, 16 ≤ vm.stack.length → (∀ x ∈ vm.stack, x < P) →
    Refines (stackRun Generated.ops_u32shl_26 vm) (sem (.u32shlImm 26) vm.stack) := by
  instr_tac_mod Generated.ops_u32shl_26

theorem refines_u32shl_30 : ∀ vm : Vm, 16 ≤ vm.stack.length → (∀ x ∈ vm.stack, x < P) →
    Refines (stackRun Generated.ops_u32shl_30 vm) (sem (.u32shlImm 30) vm.stack) := by
  instr_tac_mod Generated.ops_u32shl_30

theorem refines_mul_1 : ∀ vm : Vm, 16 ≤ vm.stack.length → (∀ x ∈ vm.stack, x < P) →
    Refines (stackRun Generated.ops_mul_1 vm) (sem (.mulImm 1) vm.stack) := by
  instr_tac_mod Generated.ops_mul_1

theorem refines_sub_65536 : ∀ vm : Vm, 16 ≤ vm.stack.length → (∀ x ∈ vm.stack, x < P) →
    Refines (stackRun Generated.ops_sub_65536 vm) (sem (.subImm 65536) vm.stack) := by
  instr_tac_mod Generated.ops_sub_65536

theorem refines_u32wrapping_sub_0 : ∀ vm : Vm, 16 ≤ vm.stack.length → (∀ x ∈ vm.stack, x < P) →
    Refines (stackRun Generated.ops_u32wrapping_sub_0 vm) (sem (.u32wrappingSubImm 0) vm.stack) := by
  instr_tac_mod Generated.ops_u32wrapping_sub_0

theorem refines_u32wrapping_add_2 : ∀ vm : Vm, 16 ≤ vm.stack.length → (∀ x ∈ vm.stack, x < P) →
    Refines (stackRun Generated.ops_u32wrapping_add_2 vm) (sem (.u32wrappingAddImm 2) vm.stack) := by
  instr_tac_mod Generated.ops_u32wrapping_add_2

theorem refines_u32wrapping_add_7 : ∀ vm : Vm, 16 ≤ vm.stack.length → (∀ x ∈ vm.stack, x < P) →
    Refines (stackRun Generated.ops_u32wrapping_add_7 vm) (sem (.u32wrappingAddImm 7) vm.stack) := by
  instr_tac_mod Generated.ops_u32wrapping_add_7

theorem refines_u32wrapping_add_4294967295 : ∀ vm : Vm, 16 ≤ vm.stack.length → (∀ x ∈ vm.stack, x < P) →
    Refines (stackRun Generated.ops_u32wrapping_add_4294967295 vm) (sem (.u32wrappingAddImm 4294967295) vm.stack) := by
  instr_tac_mod Generated.ops_u32wrapping_add_4294967295

end Miden.C05
