/-
  Refinement theorems for further instruction forms (same template as C05Auto/P*.lean), proved with
  `instr_tac_mod`.  Written by a development-time script; the proofs are checked by Lean.
-/
import Miden.Lemmas.InstrTac
namespace Miden.C05
open Miden Miden.Spec

theorem refines_u32shl_1 : ∀ vm : Vm, 16 ≤ vm.stack.length → (∀ x ∈ vm.stack, x < P) →
    Refines (stackRun Generated.ops_u32shl_1 vm) (sem (.u32shlImm 1) vm.stack) := by
  instr_tac_mod Generated.ops_u32shl_1

theorem refines_u32shl_5 : ∀ vm : Vm, 16 ≤ vm.stack.length → (∀ x ∈ vm.stack, x < P) →
    Refines (stackRun Generated.ops_u32shl_5 vm) (sem (.u32shlImm 5) vm.stack) := by
  instr_tac_mod Generated.ops_u32shl_5

theorem refines_u32shl_9 : ∀ vm : Vm, 16 ≤ vm.stack.length → (∀ x ∈ vm.stack, x < P) →
    Refines (stackRun Generated.ops_u32shl_9 vm) (sem (.u32shlImm 9) vm.stack) := by
  instr_tac_mod Generated.ops_u32shl_9

theorem refines_u32shl_13 : ∀ vm : Vm, 16 ≤ vm.stack.length → (∀ x ∈ vm.stack, x < P) →
    Refines (stackRun Generated.ops_u32shl_13 vm) (sem (.u32shlImm 13) vm.stack) := by
  instr_tac_mod Generated.ops_u32shl_13

theorem refines_u32shl_17 : ∀ vm : Vm, 16 ≤ vm.stack.length → (∀ x ∈ vm.stack, x < P) →
    Refines (stackRun Generated.ops_u32shl_17 vm) (sem (.u32shlImm 17) vm.stack) := by
  instr_tac_mod Generated.ops_u32shl_17

theorem refines_u32shl_21 : ∀ vm : Vm, 16 ≤ vm.stack.length → (∀ x ∈ vm.stack, x < P) →
    Refines (stackRun Generated.ops_u32shl_21 vm) (sem (.u32shlImm 21) vm.stack) := by
  instr_tac_mod Generated.ops_u32shl_21

theorem refines_u32shl_25 : ∀ vm : Vm, 16 ≤ vm.stack.length → (∀ x ∈ vm.stack, x < P) →
    Refines (stackRun Generated.ops_u32shl_25 vm) (sem (.u32shlImm 25) vm.stack) := by
  instr_tac_mod Generated.ops_u32shl_25

theorem refines_u32shl_29 : ∀ vm : Vm, 16 ≤ vm.stack.length → (∀ x ∈ vm.stack, x < P) →
    Refines (stackRun Generated.ops_u32shl_29 vm) (sem (.u32shlImm 29) vm.stack) := by
  instr_tac_mod Generated.ops_u32shl_29

theorem refines_sub_7 : ∀ vm : Vm, 16 ≤ vm.stack.length → (∀ x ∈ vm.stack, x < P) →
    Refines (stackRun Generated.ops_sub_7 vm) (sem (.subImm 7) vm.stack) := by
  instr_tac_mod Generated.ops_sub_7

theorem refines_sub_4294967296 : ∀ vm : Vm, 16 ≤ vm.stack.length → (∀ x ∈ vm.stack, x < P) →
    Refines (stackRun Generated.ops_sub_4294967296 vm) (sem (.subImm 4294967296) vm.stack) := by
  instr_tac_mod Generated.ops_sub_4294967296

theorem refines_u32overflowing_mul_1 : ∀ vm : Vm, 16 ≤ vm.stack.length → (∀ x ∈ vm.stack, x < P) →
    Refines (stackRun Generated.ops_u32overflowing_mul_1 vm) (sem (.u32overflowingMulImm 1) vm.stack) := by
  instr_tac_mod Generated.ops_u32overflowing_mul_1

theorem refines_u32overflowing_sub_3 : ∀ vm : Vm, 16 ≤ vm.stack.length → (∀ x ∈ vm.stack, x < P) →
    Refines (stackRun Generated.ops_u32overflowing_sub_3 vm) (sem (.u32overflowingSubImm 3) vm.stack) := by
  instr_tac_mod Generated.ops_u32overflowing_sub_3

theorem refines_u32overflowing_sub_65536 : ∀ vm : Vm, 16 ≤ vm.stack.length → (∀ x ∈ vm.stack, x < P) →
    Refines (stackRun Generated.ops_u32overflowing_sub_65536 vm) (sem (.u32overflowingSubImm 65536) vm.stack) := by
  instr_tac_mod Generated.ops_u32overflowing_sub_65536

end Miden.C05
