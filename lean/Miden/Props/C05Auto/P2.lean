/-
  GENERATED at development time by tools/gen_c05_theorems.py (statements follow one template; the
  proofs are checked by Lean like any other).  One theorem per instruction form: the operations
  the real assembler emits (Generated/InstrOps.lean, regenerated on every run) refine the
  instruction reference (Spec/Instr.lean) on every stack of depth >= 16, every other component of
  the machine state being arbitrary.
-/
import Miden.Lemmas.InstrTac
namespace Miden.C05
open Miden Miden.Spec

theorem refines_add_3 : ∀ vm : Vm, 16 ≤ vm.stack.length →
    Refines (stackRun Generated.ops_add_3 vm) (sem (.addImm 3) vm.stack) := by
  instr_tac Generated.ops_add_3

theorem refines_assert_eq : ∀ vm : Vm, 16 ≤ vm.stack.length →
    Refines (stackRun Generated.ops_assert_eq vm) (sem (.assertEq 0) vm.stack) := by
  instr_tac Generated.ops_assert_eq

theorem refines_cdrop : ∀ vm : Vm, 16 ≤ vm.stack.length →
    Refines (stackRun Generated.ops_cdrop vm) (sem .cdrop vm.stack) := by
  instr_tac Generated.ops_cdrop

theorem refines_div : ∀ vm : Vm, 16 ≤ vm.stack.length →
    Refines (stackRun Generated.ops_div vm) (sem .div vm.stack) := by
  instr_tac Generated.ops_div

theorem refines_dup_0 : ∀ vm : Vm, 16 ≤ vm.stack.length →
    Refines (stackRun Generated.ops_dup_0 vm) (sem (.dup 0) vm.stack) := by
  instr_tac Generated.ops_dup_0

theorem refines_dup_2 : ∀ vm : Vm, 16 ≤ vm.stack.length →
    Refines (stackRun Generated.ops_dup_2 vm) (sem (.dup 2) vm.stack) := by
  instr_tac Generated.ops_dup_2

theorem refines_dup_6 : ∀ vm : Vm, 16 ≤ vm.stack.length →
    Refines (stackRun Generated.ops_dup_6 vm) (sem (.dup 6) vm.stack) := by
  instr_tac Generated.ops_dup_6

theorem refines_dupw_0 : ∀ vm : Vm, 16 ≤ vm.stack.length →
    Refines (stackRun Generated.ops_dupw_0 vm) (sem (.dupw 0) vm.stack) := by
  instr_tac Generated.ops_dupw_0

theorem refines_eq : ∀ vm : Vm, 16 ≤ vm.stack.length →
    Refines (stackRun Generated.ops_eq vm) (sem .eq vm.stack) := by
  instr_tac Generated.ops_eq

theorem refines_eq_2 : ∀ vm : Vm, 16 ≤ vm.stack.length →
    Refines (stackRun Generated.ops_eq_2 vm) (sem (.eqImm 2) vm.stack) := by
  instr_tac Generated.ops_eq_2

theorem refines_eq_65536 : ∀ vm : Vm, 16 ≤ vm.stack.length →
    Refines (stackRun Generated.ops_eq_65536 vm) (sem (.eqImm 65536) vm.stack) := by
  instr_tac Generated.ops_eq_65536

theorem refines_inv : ∀ vm : Vm, 16 ≤ vm.stack.length →
    Refines (stackRun Generated.ops_inv vm) (sem .inv vm.stack) := by
  instr_tac Generated.ops_inv

theorem refines_movdn_13 : ∀ vm : Vm, 16 ≤ vm.stack.length →
    Refines (stackRun Generated.ops_movdn_13 vm) (sem (.movdn 13) vm.stack) := by
  instr_tac Generated.ops_movdn_13

theorem refines_movdn_3 : ∀ vm : Vm, 16 ≤ vm.stack.length →
    Refines (stackRun Generated.ops_movdn_3 vm) (sem (.movdn 3) vm.stack) := by
  instr_tac Generated.ops_movdn_3

theorem refines_movdn_7 : ∀ vm : Vm, 16 ≤ vm.stack.length →
    Refines (stackRun Generated.ops_movdn_7 vm) (sem (.movdn 7) vm.stack) := by
  instr_tac Generated.ops_movdn_7

theorem refines_movdnw_3 : ∀ vm : Vm, 16 ≤ vm.stack.length →
    Refines (stackRun Generated.ops_movdnw_3 vm) (sem (.movdnw 3) vm.stack) := by
  instr_tac Generated.ops_movdnw_3

theorem refines_movup_13 : ∀ vm : Vm, 16 ≤ vm.stack.length →
    Refines (stackRun Generated.ops_movup_13 vm) (sem (.movup 13) vm.stack) := by
  instr_tac Generated.ops_movup_13

theorem refines_movup_3 : ∀ vm : Vm, 16 ≤ vm.stack.length →
    Refines (stackRun Generated.ops_movup_3 vm) (sem (.movup 3) vm.stack) := by
  instr_tac Generated.ops_movup_3

theorem refines_movup_7 : ∀ vm : Vm, 16 ≤ vm.stack.length →
    Refines (stackRun Generated.ops_movup_7 vm) (sem (.movup 7) vm.stack) := by
  instr_tac Generated.ops_movup_7

theorem refines_movupw_3 : ∀ vm : Vm, 16 ≤ vm.stack.length →
    Refines (stackRun Generated.ops_movupw_3 vm) (sem (.movupw 3) vm.stack) := by
  instr_tac Generated.ops_movupw_3

theorem refines_mul_3 : ∀ vm : Vm, 16 ≤ vm.stack.length →
    Refines (stackRun Generated.ops_mul_3 vm) (sem (.mulImm 3) vm.stack) := by
  instr_tac Generated.ops_mul_3

theorem refines_neq_0 : ∀ vm : Vm, 16 ≤ vm.stack.length →
    Refines (stackRun Generated.ops_neq_0 vm) (sem (.neqImm 0) vm.stack) := by
  instr_tac Generated.ops_neq_0

theorem refines_neq_3 : ∀ vm : Vm, 16 ≤ vm.stack.length →
    Refines (stackRun Generated.ops_neq_3 vm) (sem (.neqImm 3) vm.stack) := by
  instr_tac Generated.ops_neq_3

theorem refines_neq_7 : ∀ vm : Vm, 16 ≤ vm.stack.length →
    Refines (stackRun Generated.ops_neq_7 vm) (sem (.neqImm 7) vm.stack) := by
  instr_tac Generated.ops_neq_7

theorem refines_push_0 : ∀ vm : Vm, 16 ≤ vm.stack.length →
    Refines (stackRun Generated.ops_push_0 vm) (sem (.push [0]) vm.stack) := by
  instr_tac Generated.ops_push_0

theorem refines_push_4294967295 : ∀ vm : Vm, 16 ≤ vm.stack.length →
    Refines (stackRun Generated.ops_push_4294967295 vm) (sem (.push [4294967295]) vm.stack) := by
  instr_tac Generated.ops_push_4294967295

theorem refines_push_9223372036854775813 : ∀ vm : Vm, 16 ≤ vm.stack.length →
    Refines (stackRun Generated.ops_push_9223372036854775813 vm) (sem (.push [9223372036854775813]) vm.stack) := by
  instr_tac Generated.ops_push_9223372036854775813

theorem refines_swap_1 : ∀ vm : Vm, 16 ≤ vm.stack.length →
    Refines (stackRun Generated.ops_swap_1 vm) (sem (.swap 1) vm.stack) := by
  instr_tac Generated.ops_swap_1

theorem refines_swap_13 : ∀ vm : Vm, 16 ≤ vm.stack.length →
    Refines (stackRun Generated.ops_swap_13 vm) (sem (.swap 13) vm.stack) := by
  instr_tac Generated.ops_swap_13

theorem refines_swap_3 : ∀ vm : Vm, 16 ≤ vm.stack.length →
    Refines (stackRun Generated.ops_swap_3 vm) (sem (.swap 3) vm.stack) := by
  instr_tac Generated.ops_swap_3

theorem refines_swap_7 : ∀ vm : Vm, 16 ≤ vm.stack.length →
    Refines (stackRun Generated.ops_swap_7 vm) (sem (.swap 7) vm.stack) := by
  instr_tac Generated.ops_swap_7

theorem refines_swapw : ∀ vm : Vm, 16 ≤ vm.stack.length →
    Refines (stackRun Generated.ops_swapw vm) (sem (.swapw 1) vm.stack) := by
  instr_tac Generated.ops_swapw

theorem refines_u32assert2 : ∀ vm : Vm, 16 ≤ vm.stack.length →
    Refines (stackRun Generated.ops_u32assert2 vm) (sem (.u32assert2 0) vm.stack) := by
  instr_tac Generated.ops_u32assert2

theorem refines_u32div_3 : ∀ vm : Vm, 16 ≤ vm.stack.length →
    Refines (stackRun Generated.ops_u32div_3 vm) (sem (.u32divImm 3) vm.stack) := by
  instr_tac Generated.ops_u32div_3

theorem refines_u32divmod : ∀ vm : Vm, 16 ≤ vm.stack.length →
    Refines (stackRun Generated.ops_u32divmod vm) (sem .u32divmod vm.stack) := by
  instr_tac Generated.ops_u32divmod

theorem refines_u32divmod_65536 : ∀ vm : Vm, 16 ≤ vm.stack.length →
    Refines (stackRun Generated.ops_u32divmod_65536 vm) (sem (.u32divmodImm 65536) vm.stack) := by
  instr_tac Generated.ops_u32divmod_65536

theorem refines_u32mod_3 : ∀ vm : Vm, 16 ≤ vm.stack.length →
    Refines (stackRun Generated.ops_u32mod_3 vm) (sem (.u32modImm 3) vm.stack) := by
  instr_tac Generated.ops_u32mod_3

theorem refines_u32shr_0 : ∀ vm : Vm, 16 ≤ vm.stack.length →
    Refines (stackRun Generated.ops_u32shr_0 vm) (sem (.u32shrImm 0) vm.stack) := by
  instr_tac Generated.ops_u32shr_0

theorem refines_u32shr_12 : ∀ vm : Vm, 16 ≤ vm.stack.length →
    Refines (stackRun Generated.ops_u32shr_12 vm) (sem (.u32shrImm 12) vm.stack) := by
  instr_tac Generated.ops_u32shr_12

theorem refines_u32shr_16 : ∀ vm : Vm, 16 ≤ vm.stack.length →
    Refines (stackRun Generated.ops_u32shr_16 vm) (sem (.u32shrImm 16) vm.stack) := by
  instr_tac Generated.ops_u32shr_16

theorem refines_u32shr_2 : ∀ vm : Vm, 16 ≤ vm.stack.length →
    Refines (stackRun Generated.ops_u32shr_2 vm) (sem (.u32shrImm 2) vm.stack) := by
  instr_tac Generated.ops_u32shr_2

theorem refines_u32shr_23 : ∀ vm : Vm, 16 ≤ vm.stack.length →
    Refines (stackRun Generated.ops_u32shr_23 vm) (sem (.u32shrImm 23) vm.stack) := by
  instr_tac Generated.ops_u32shr_23

theorem refines_u32shr_27 : ∀ vm : Vm, 16 ≤ vm.stack.length →
    Refines (stackRun Generated.ops_u32shr_27 vm) (sem (.u32shrImm 27) vm.stack) := by
  instr_tac Generated.ops_u32shr_27

theorem refines_u32shr_30 : ∀ vm : Vm, 16 ≤ vm.stack.length →
    Refines (stackRun Generated.ops_u32shr_30 vm) (sem (.u32shrImm 30) vm.stack) := by
  instr_tac Generated.ops_u32shr_30

theorem refines_u32shr_6 : ∀ vm : Vm, 16 ≤ vm.stack.length →
    Refines (stackRun Generated.ops_u32shr_6 vm) (sem (.u32shrImm 6) vm.stack) := by
  instr_tac Generated.ops_u32shr_6

end Miden.C05
