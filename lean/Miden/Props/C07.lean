/-
  C07 — contexts isolate memory and stack; memory is zero-initialised word RAM.
-/
import Miden.Lemmas.ExecInv
namespace Miden.C07
open Miden.Vm

/-- Memory is a map from (context, address) to words with default zero: a never-written address
    reads zeros, a read returns the last word written to that (context, address), and writes to
    another context or address are invisible. -/
theorem memory_is_zero_initialised_ram (m : Mem) (c a c' a' : Nat) (w : Word) :
    (Mem.read [] c a = Word.zero) ∧
    ((m.write c a w).read c a = w) ∧
    ((c', a') ≠ (c, a) → (m.write c a w).read c' a' = m.read c' a') := by
  refine ⟨rfl, ?_, ?_⟩
  · simp [Mem.write, Mem.read, List.lookup]
  · intro h
    have : ((c', a') == (c, a)) = false := by simpa using h
    simp [Mem.write, Mem.read, List.lookup, this]

/-- An element store changes only element 0 of the word, in the current context only. -/
theorem mstore_changes_only_element_zero (vm vm' : Vm) (a v : Nat) (r : List Nat)
    (hs : vm.stack = a :: v :: r) (ha : a ≤ u32max) (h : vm.step .mstore = .ok vm') :
    vm'.mem.read vm.ctx a = { vm.mem.read vm.ctx a with w0 := v } ∧
    (∀ c' a', (c', a') ≠ (vm.ctx, a) → vm'.mem.read c' a' = vm.mem.read c' a') := by
  have hna : ¬ a > u32max := by omega
  simp only [step, stepCore, hs, validAddr, hna, if_false] at h
  cases h
  constructor
  · simp [Mem.write, Mem.read, List.lookup]
  · intro c' a' hne
    have : ((c', a') == (vm.ctx, a)) = false := by simpa using hne
    simp [Mem.write, Mem.read, List.lookup, this]

/-- Addresses of 2^32 or more fail for every memory operation, before any state change. -/
theorem address_out_of_bounds_fails (vm : Vm) (a : Nat) (r : List Nat) (hs : vm.stack = a :: r)
    (ha : u32max < a) :
    vm.step .mload = .error (.addrOOB a) ∧
    (∀ s1 s2 s3 s4 r', r = s1 :: s2 :: s3 :: s4 :: r' →
      vm.step .mloadw = .error (.addrOOB a) ∧ vm.step .mstorew = .error (.addrOOB a)) ∧
    (∀ v r', r = v :: r' → vm.step .mstore = .error (.addrOOB a)) := by
  have hgt : a > u32max := ha
  refine ⟨by simp [step, stepCore, hs, validAddr, hgt], ?_, ?_⟩
  · intro s1 s2 s3 s4 r' hr
    subst hr
    constructor <;> simp [step, stepCore, hs, validAddr, hgt]
  · intro v r' hr
    subst hr
    simp [step, stepCore, hs, validAddr, hgt]

/-- The two-word operations also fail when only their *second* word falls at 2^32. -/
theorem second_word_out_of_bounds_fails (vm : Vm) (s : List Nat) (r : List Nat)
    (hs : vm.stack = s ++ u32max :: r) (hlen : s.length = 12) :
    vm.step .mstream = .error (.addrOOB (u32max + 1)) ∧
    vm.step .pipe = .error (.addrOOB (u32max + 1)) := by
  match s, hlen with
  | [s0, s1, s2, s3, s4, s5, s6, s7, s8, s9, s10, s11], _ =>
    simp only [List.cons_append, List.nil_append] at hs
    constructor <;> simp [step, stepCore, hs, validAddr, u32max]

/-- CALL frame: whatever the callee does, if the call returns then the caller's stack below the
    top 16, its context id, its free-memory pointer and its function hash are exactly as before,
    and the visible stack is again at least 16 deep. -/
theorem call_restores_caller (env : Env) (fuel : Nat) (target : Word) (sc : Bool) (vm vm' : Vm)
    (hl : 16 ≤ vm.stack.length) (h : exec env fuel (.call target sc) vm = .ok vm') :
    vm'.stack.drop 16 = vm.stack.drop 16 ∧ vm'.ctx = vm.ctx ∧ vm'.fmp = vm.fmp ∧
    vm'.fnHash = vm.fnHash ∧ 16 ≤ vm'.stack.length := by
  have hlen := exec_len hl h
  cases fuel with
  | zero => simp [exec] at h
  | succ n =>
    simp only [exec] at h
    split at h
    · cases h
    · split at h
      · cases h
      · rename_i v1 h1
        split at h
        · cases h
        · rename_i v2 h2
          split at h
          · cases h
          · rename_i hd
            have l1 : 16 ≤ v1.stack.length := by
              refine execRow_len ?_ h1
              split <;> simp <;> omega
            have l2 : 16 ≤ v2.stack.length := by
              split at h2
              · exact (exec_len_all env n).2.1 _ _ l1 h2
              · split at h2
                · cases h2
                · exact (exec_len_all env n).1 _ _ _ l1 h2
            have e16 : v2.stack.length = 16 := by omega
            have := execRow_noop h
            subst this
            refine ⟨?_, rfl, rfl, rfl, hlen⟩
            simp [e16]

/-- The callee of a CALL starts in a fresh context: context id `clk + 1`, free-memory pointer 2^30,
    and a visible stack that is exactly the caller's top 16; a SYSCALL callee starts in the root
    context with free-memory pointer 2^31.  (Shown on the state in which the CALL row executes.) -/
theorem callee_frame (vm : Vm) (target : Word) :
    let callee : Vm := { vm with stack := vm.stack.take 16, ctx := vm.clk + 1, fmp := FMP_MIN,
                                 fnHash := target }
    let sys : Vm := { vm with stack := vm.stack.take 16, ctx := 0, fmp := SYSCALL_FMP_MIN,
                              inSyscall := true }
    (16 ≤ vm.stack.length → callee.stack.length = 16) ∧ callee.fmp = 2 ^ 30 ∧ sys.fmp = 2 ^ 31 ∧
    sys.ctx = 0 := by
  refine ⟨?_, by show FMP_MIN = 2 ^ 30; decide, by show SYSCALL_FMP_MIN = 2 ^ 31; decide, rfl⟩
  intro h; simp; omega

/-- A SYSCALL whose target is not a kernel procedure fails before any row is executed. -/
theorem syscall_only_kernel (env : Env) (fuel : Nat) (target : Word) (vm : Vm)
    (hk : env.kernel.contains target = false) :
    exec env (fuel + 1) (.call target true) vm = .error .notInKernel := by
  have hk' : ¬ target ∈ env.kernel := by simpa using hk
  simp [exec, hk']

/-- A callee that returns with more than 16 visible elements makes the execution fail. -/
theorem call_depth_checked (env : Env) (fuel : Nat) (target : Word) (sc : Bool) (vm vm' : Vm)
    (hl : 16 ≤ vm.stack.length) (h : exec env fuel (.call target sc) vm = .ok vm') :
    vm'.stack.length = 16 + (vm.stack.length - 16) := by
  obtain ⟨h1, _, _, _, h5⟩ := call_restores_caller env fuel target sc vm vm' hl h
  have : (vm'.stack.drop 16).length = (vm.stack.drop 16).length := by rw [h1]
  simp at this
  omega

/-- `caller` fails outside a SYSCALL and yields the saved function hash inside one. -/
theorem caller_semantics (vm : Vm) (s0 s1 s2 s3 : Nat) (r : List Nat)
    (hs : vm.stack = s0 :: s1 :: s2 :: s3 :: r) :
    (vm.inSyscall = false → vm.step .caller = .error .callerNotInSyscall) ∧
    (vm.inSyscall = true → vm.step .caller =
      .ok { vm with stack := vm.fnHash.w3 :: vm.fnHash.w2 :: vm.fnHash.w1 :: vm.fnHash.w0 :: r }) := by
  constructor
  · intro h; simp [step, stepCore, h]
  · intro h; simp [step, stepCore, h, hs, setStack]

-- Non-vacuity: a state with a 20-deep stack calling an (absent) target is a real input.
example : (exec {} 5 (.call ⟨1, 2, 3, 4⟩ false) { stack := List.replicate 20 7 }).toOption = none := by
  decide

end Miden.C07
