/-
  C02 — a proof binds to its statement; altered statements or proofs are rejected.

  Soundness of the STARK (that a proof for one statement does not verify against another) is
  winterfell's; it is exercised on every run by altering every field of real statements and
  flipping / truncating real proof bytes.  Proved here is Miden's own binding layer: the tag and
  option-set logic and the totality of the envelope decoder.
-/
import Miden.Generated.ProvingOpts
namespace Miden.C02
open Miden

/-- Relabelling the hash function never turns an option set into an acceptable one: for each
    standard set and each *other* tag the verifier's list for that tag does not contain it. -/
theorem tag_relabel_rejected :
    ∀ s ∈ Generated.provingOptionSets, ∀ t ∈ [0, 1, 2, 3, 4, 255], t ≠ s.2.1 →
      s.2.2.2 ∉ acceptable t := by
  decide

/-- Nothing outside the four standard option tuples is acceptable under any tag
    (weaker parameters are refused before any cryptographic check). -/
theorem only_standard_options_acceptable (t : Nat) (o : ProofOpts) (h : o ∈ acceptable t) :
    o = REGULAR_96 ∨ o = REGULAR_128 ∨ o = RECURSIVE_96 ∨ o = RECURSIVE_128 := by
  unfold acceptable at h
  split at h
  · simp at h; exact Or.inl h
  · split at h
    · simp at h; exact Or.inr (Or.inl h)
    · split at h
      · simp at h
        rcases h with h | h
        · exact Or.inr (Or.inr (Or.inl h))
        · exact Or.inr (Or.inr (Or.inr h))
      · simp at h

/-- The envelope decoder is total and refuses short inputs and unknown tags. -/
theorem from_bytes_total (bs : List Nat) :
    (bs.length < 2 → proofFromBytes bs = none) ∧
    (∀ t rest, bs = t :: rest → 2 < t → proofFromBytes bs = none) := by
  constructor
  · intro h; simp [proofFromBytes, h]
  · intro t rest hb ht
    subst hb
    have : ¬ t ≤ 2 := by omega
    simp only [proofFromBytes, hashTag, this, if_false]
    split <;> rfl

/-- Whatever is accepted by the decoder re-encodes to the same bytes. -/
theorem decode_then_encode (bs : List Nat) (tag : Nat) (body : List Nat)
    (h : proofFromBytes bs = some (tag, body)) : proofToBytes tag body = bs := by
  unfold proofFromBytes at h
  split at h
  · cases h
  · cases bs with
    | nil => cases h
    | cons t rest =>
      simp only [hashTag] at h
      split at h
      · rename_i tg ht
        split at ht
        · cases ht; cases h; rfl
        · cases ht
      · cases h

example : proofFromBytes [1, 9, 9] = some (1, [9, 9]) := by decide

end Miden.C02
