/-
  C11 — assembly is deterministic, history-independent and self-contained (call-set logic).

  Model: `Miden.Model.Asm` — the call-set bookkeeping of `AssemblyContext` / `ProcedureCache`
  abstracted to the call graph; `cbTable` is compared with the keys of `Program::cb_table()` of the
  real assembler on generated module graphs (libraries, re-exports, kernels, local procedures).
-/
import Miden.Lemmas.Asm

namespace Miden.Asm

theorem mem_foldl_union (ps : List (List Ref)) (l : List Nat) (acc : List Nat) (x : Nat) :
    x ∈ l.foldl (fun acc i => union acc ((compileAll ps).getD i [])) acc
      ↔ x ∈ acc ∨ ∃ i ∈ l, x ∈ cs ps i := by
  induction l generalizing acc with
  | nil => simp
  | cons i is ih =>
    simp only [List.foldl_cons, ih, mem_union, List.mem_cons, exists_eq_or_imp, cs]
    grind

theorem mem_cbTable (ps : List (List Ref)) (mainLocal : List Nat) (mainRefs : List Ref) (x : Nat) :
    x ∈ cbTable ps mainLocal mainRefs
      ↔ x ∈ bodyCallset (compileAll ps) mainRefs ∨ ∃ i ∈ mainLocal, x ∈ cs ps i := by
  unfold cbTable
  exact mem_foldl_union ps mainLocal _ x

/-- Every call / syscall / procref target needed by the program body (through any depth of inlined
    procedures) has an entry in the code block table. -/
theorem main_targets_in_table (ps : List (List Ref)) (hwf : wellFormed ps = true)
    (mainLocal : List Nat) (mainRefs : List Ref) (hm : ∀ r ∈ mainRefs, r.idx < ps.length)
    (fuel : Nat) : ∀ x ∈ needed ps fuel mainRefs, x ∈ cbTable ps mainLocal mainRefs := by
  intro x hx
  rw [mem_cbTable]
  exact Or.inl (needed_subset ps hwf fuel mainRefs ps.length (Nat.le_refl _) hm x hx)

/-- The table is closed: every entry is a compiled procedure, and every target needed by the body
    of an entry is again an entry — execution never meets a statically referenced procedure whose
    body is missing. -/
theorem table_closed (ps : List (List Ref)) (hwf : wellFormed ps = true)
    (mainLocal : List Nat) (mainRefs : List Ref) (hm : ∀ r ∈ mainRefs, r.idx < ps.length)
    (hl : ∀ i ∈ mainLocal, i < ps.length) :
    ∀ j ∈ cbTable ps mainLocal mainRefs, j < ps.length ∧
      ∀ fuel, ∀ x ∈ needed ps fuel (ps.getD j []), x ∈ cbTable ps mainLocal mainRefs := by
  intro j hj
  -- j is a compiled procedure and its call set is inside the table
  have key : j < ps.length ∧ ∀ x ∈ cs ps j, x ∈ cbTable ps mainLocal mainRefs := by
    rcases (mem_cbTable ps mainLocal mainRefs j).mp hj with h | ⟨i, hi, h⟩
    · obtain ⟨r, hr, hx⟩ := (mem_bodyCallset _ _ _).mp h
      have hrl := hm r hr
      rcases (mem_contrib ps r j).mp hx with h1 | h1
      · subst h1
        refine ⟨hrl, ?_⟩
        intro x hxj
        rw [mem_cbTable]
        exact Or.inl ((mem_bodyCallset _ _ _).mpr ⟨_, hr, (mem_contrib ps _ x).mpr (Or.inr hxj)⟩)
      · obtain ⟨hlt, hsub⟩ := cs_closed ps hwf r.idx hrl j h1
        refine ⟨by omega, ?_⟩
        intro x hxj
        rw [mem_cbTable]
        exact Or.inl ((mem_bodyCallset _ _ _).mpr ⟨_, hr, (mem_contrib ps _ x).mpr (Or.inr (hsub x hxj))⟩)
    · obtain ⟨hlt, hsub⟩ := cs_closed ps hwf i (hl i hi) j h
      refine ⟨by have := hl i hi; omega, ?_⟩
      intro x hxj
      rw [mem_cbTable]
      exact Or.inr ⟨i, hi, hsub x hxj⟩
  refine ⟨key.1, ?_⟩
  intro fuel x hx
  have h1 := needed_subset ps hwf fuel (ps.getD j []) j (by omega)
    ((wellFormed_iff ps).mp hwf j key.1) x hx
  rw [← cs_eq ps hwf j key.1] at h1
  exact key.2 x h1

/-! ### History independence of the procedure cache -/

/-- Every cached call set is the one a fresh compilation produces. -/
def Consistent (ps : List (List Ref)) (c : Cache) : Prop :=
  ∀ e ∈ c, e.1 < ps.length ∧ e.2 = cs ps e.1

theorem Cache.get?_some (c : Cache) (i : Nat) (v : List Nat) (h : c.get? i = some v) : (i, v) ∈ c := by
  unfold Cache.get? at h
  cases hf : c.find? (fun e => e.1 == i) with
  | none => simp [hf] at h
  | some e =>
    simp only [hf, Option.map_some, Option.some.injEq] at h
    have hp := List.find?_some hf
    have hm := List.mem_of_find?_eq_some hf
    simp only [beq_iff_eq] at hp
    obtain ⟨a, b⟩ := e
    simp only at hp h
    subst hp; subst h
    exact hm

/-- One look-up-or-compile step: on a consistent cache it returns exactly the call set of a fresh
    compilation and leaves the cache consistent (it only grows by correct entries). -/
theorem ensure_spec (ps : List (List Ref)) (hwf : wellFormed ps = true) (fuel : Nat) :
    ∀ (c : Cache) (i : Nat), Consistent ps c → i < ps.length → i < fuel →
      (ensure ps fuel c i).1 = cs ps i ∧ Consistent ps (ensure ps fuel c i).2 := by
  induction fuel with
  | zero => intro c i _ _ h; omega
  | succ fuel ih =>
    intro c i hc hi hf
    simp only [ensure]
    cases hg : c.get? i with
    | some v =>
      simp only
      have := hc _ (Cache.get?_some c i v hg)
      exact ⟨this.2, hc⟩
    | none =>
      simp only
      -- the fold over the references computes `foldl (register done)` and keeps the cache consistent
      have fold : ∀ (refs : List Ref) (st : List Nat × Cache), (∀ r ∈ refs, r.idx < i) → Consistent ps st.2 →
          (refs.foldl (ensureStep (ensure ps fuel)) st).1 = refs.foldl (register (compileAll ps)) st.1
          ∧ Consistent ps (refs.foldl (ensureStep (ensure ps fuel)) st).2 := by
        intro refs
        induction refs with
        | nil => intro st _ hst; exact ⟨rfl, hst⟩
        | cons r rs ihr =>
          intro st hb hst
          simp only [List.foldl_cons]
          have hr : r.idx < i := hb r (by simp)
          obtain ⟨h1, h2⟩ := ih st.2 r.idx hst (by omega) (by omega)
          have hstep : (ensureStep (ensure ps fuel) st r).1 = register (compileAll ps) st.1 r := by
            unfold ensureStep
            simp only [h1]
            cases r <;> simp [register, cs, Ref.idx]
          have hstep2 : (ensureStep (ensure ps fuel) st r).2 = (ensure ps fuel st.2 r.idx).2 := rfl
          have := ihr (ensureStep (ensure ps fuel) st r) (fun r' hr' => hb r' (by simp [hr'])) (by rw [hstep2]; exact h2)
          rw [hstep] at this
          exact this
      obtain ⟨f1, f2⟩ := fold (ps.getD i []) ([], c) ((wellFormed_iff ps).mp hwf i hi) hc
      have hres : ((ps.getD i []).foldl (ensureStep (ensure ps fuel)) ([], c)).1 = cs ps i := by
        rw [f1, cs_eq ps hwf i hi]; rfl
      refine ⟨hres, ?_⟩
      intro e he
      simp only [List.mem_cons] at he
      rcases he with he | he
      · subst he
        exact ⟨hi, hres⟩
      · exact f2 e he

/-- History independence: whatever was compiled before on the same cache (any sequence of
    procedures, starting from the empty cache), compiling procedure `i` yields the call set of a
    fresh compilation. -/
theorem history_independent (ps : List (List Ref)) (hwf : wellFormed ps = true)
    (before : List Nat) (hb : ∀ k ∈ before, k < ps.length) (i : Nat) (hi : i < ps.length) :
    (ensure ps ps.length (history ps ps.length [] before) i).1 = (ensure ps ps.length [] i).1 := by
  have hcons : ∀ (l : List Nat) (c : Cache), (∀ k ∈ l, k < ps.length) → Consistent ps c →
      Consistent ps (history ps ps.length c l) := by
    intro l
    induction l with
    | nil => intro c _ hc; exact hc
    | cons k ks ihk =>
      intro c hl hc
      simp only [history]
      exact ihk _ (fun k' hk' => hl k' (by simp [hk'])) (ensure_spec ps hwf ps.length c k hc (hl k (by simp)) (hl k (by simp))).2
  have hempty : Consistent ps [] := by intro e he; simp at he
  rw [(ensure_spec ps hwf ps.length _ i (hcons before [] hb hempty) hi hi).1,
    (ensure_spec ps hwf ps.length [] i hempty hi hi).1]

/-! Non-vacuity: a concrete graph (p0; p1 calls p0; p2 execs p1 and procrefs p0; main execs p2). -/

example : wellFormed [[], [.call 0], [.exec 1, .call 0]] = true := by decide
example : cbTable [[], [.call 0], [.exec 1, .call 0]] [] [.exec 2] = [0] := by decide
example : cbTable [[], [.call 0], [.call 1]] [] [.call 2] = [0, 1, 2] := by decide
example : (ensure [[], [.call 0], [.call 1]] 3 [] 2).1 = [0, 1] := by decide

end Miden.Asm
