/-
  C09 — prover-supplied hints cannot change results.
  The host is an oracle: the advice tape and the Merkle paths it answers with are universally
  quantified.
-/
import Miden.Lemmas.Merkle
import Miden.Lemmas.Step
import Miden.Lemmas.U64Div
namespace Miden.C09
open Miden.Vm Miden.Merkle

/-- MPVERIFY (mtree_verify / mtree_get) completes only if the host's path has exactly the length
    given by the depth operand and folds the claimed node to the root on the stack. -/
theorem mpverify_checks (vm vm' : Vm) (v0 v1 v2 v3 d i r0 r1 r2 r3 : Nat) (rest : List Nat)
    (path : List Word) (paths : List (List Word))
    (hs : vm.stack = v0 :: v1 :: v2 :: v3 :: d :: i :: r0 :: r1 :: r2 :: r3 :: rest)
    (hp : vm.paths = path :: paths) (h : vm.step .mpverify = .ok vm') :
    path.length = d ∧ merkleRoot [v3, v2, v1, v0] path i = [r3, r2, r1, r0] ∧
    vm'.stack = vm.stack := by
  simp only [step, stepCore, hs, hp] at h
  split at h
  · cases h
  · rename_i r hr
    cases h
    split at hr
    · cases hr
    · split at hr
      · cases hr
      · split at hr
        · cases hr
          rename_i h1 h2 h3
          refine ⟨by simpa using h1, h3, ?_⟩
          simp [hs]
        · cases hr

/-- **No hint can make MPVERIFY accept a wrong node**: for every tree `t` whose root is on the
    stack and every path the host may answer with, if MPVERIFY completes then the claimed value is
    the tree's node at (depth, index) — or the proof exhibits an RPO `merge` collision. -/
theorem mpverify_sound (t : Tree) (vm vm' : Vm) (v0 v1 v2 v3 d i r0 r1 r2 r3 : Nat) (rest : List Nat)
    (path : List Word) (paths : List (List Word)) (w : List Nat)
    (hs : vm.stack = v0 :: v1 :: v2 :: v3 :: d :: i :: r0 :: r1 :: r2 :: r3 :: rest)
    (hp : vm.paths = path :: paths)
    (hroot : Tree.root Rpo.merge t = [r3, r2, r1, r0])
    (hnode : Tree.nodeAt Rpo.merge t d i = some w)
    (h : vm.step .mpverify = .ok vm') :
    w = [v3, v2, v1, v0] ∨ Collision Rpo.merge := by
  obtain ⟨hl, hf, _⟩ := mpverify_checks vm vm' v0 v1 v2 v3 d i r0 r1 r2 r3 rest path paths hs hp h
  rw [merkleRoot_eq_fold] at hf
  exact path_sound Rpo.merge d t (path.map Word.toList) [v3, v2, v1, v0] i w (by simp [hl])
    (by rw [hf, hroot]) hnode

/-- MRUPDATE (mtree_set): completes only with a path of the stated depth that folds the *old* value
    to the old root; the new root it pushes is the fold of the new value along the same path. -/
theorem mrupdate_checks (vm vm' : Vm) (v0 v1 v2 v3 d i r0 r1 r2 r3 n0 n1 n2 n3 : Nat)
    (rest : List Nat) (path : List Word) (paths : List (List Word))
    (hs : vm.stack = v0 :: v1 :: v2 :: v3 :: d :: i :: r0 :: r1 :: r2 :: r3 :: n0 :: n1 :: n2 :: n3 :: rest)
    (hp : vm.paths = path :: paths) (h : vm.step .mrupdate = .ok vm') :
    path.length = d % two64 ∧ merkleRoot [v3, v2, v1, v0] path i = [r3, r2, r1, r0] ∧
    ∃ q0 q1 q2 q3, merkleRoot [n3, n2, n1, n0] path i = [q0, q1, q2, q3] ∧
      vm'.stack = q3 :: q2 :: q1 :: q0 :: d :: i :: r0 :: r1 :: r2 :: r3 :: n0 :: n1 :: n2 :: n3 :: rest := by
  simp only [step, stepCore, hs, hp] at h
  split at h
  · cases h
  · rename_i r hr
    cases h
    split at hr
    · cases hr
    · rename_i hc
      split at hr
      · cases hr
      · rename_i hroot
        split at hr
        · rename_i q0 q1 q2 q3 hq
          cases hr
          have hc' : path.length = d % two64 := by
            have := hc
            simp only [not_or, Decidable.not_not] at this
            exact this.1
          have hroot' : merkleRoot [v3, v2, v1, v0] path i = [r3, r2, r1, r0] := by
            simpa using hroot
          exact ⟨hc', hroot', q0, q1, q2, q3, hq, rfl⟩
        · cases hr

/-- The old value MRUPDATE was given is the tree's node at (depth, index), or a collision is
    exhibited — whatever path the host supplied. -/
theorem mrupdate_sound (t : Tree) (vm vm' : Vm) (v0 v1 v2 v3 d i r0 r1 r2 r3 n0 n1 n2 n3 : Nat)
    (rest : List Nat) (path : List Word) (paths : List (List Word)) (w : List Nat)
    (hs : vm.stack = v0 :: v1 :: v2 :: v3 :: d :: i :: r0 :: r1 :: r2 :: r3 :: n0 :: n1 :: n2 :: n3 :: rest)
    (hp : vm.paths = path :: paths) (hd : d < two64)
    (hroot : Tree.root Rpo.merge t = [r3, r2, r1, r0])
    (hnode : Tree.nodeAt Rpo.merge t d i = some w)
    (h : vm.step .mrupdate = .ok vm') :
    w = [v3, v2, v1, v0] ∨ Collision Rpo.merge := by
  obtain ⟨hl, hf, _⟩ := mrupdate_checks vm vm' v0 v1 v2 v3 d i r0 r1 r2 r3 n0 n1 n2 n3 rest path paths hs hp h
  rw [Nat.mod_eq_of_lt hd] at hl
  rw [merkleRoot_eq_fold] at hf
  exact path_sound Rpo.merge d t (path.map Word.toList) [v3, v2, v1, v0] i w (by simp [hl])
    (by rw [hf, hroot]) hnode

/-- Advice values arrive in the documented order: `adv_push` (ADVPOP) takes the top of the advice
    stack; `adv_loadw` (ADVPOPW) overwrites the top word so that the first value popped ends up
    deepest; `adv_pipe` (PIPE) does the same for two words and writes them to memory in pop order. -/
theorem advice_order (vm : Vm) (t0 t1 t2 t3 t4 t5 t6 t7 : Nat) (adv : List Nat)
    (ha : vm.adv = t0 :: t1 :: t2 :: t3 :: t4 :: t5 :: t6 :: t7 :: adv) :
    (vm.step .advpop = .ok { vm with adv := t1 :: t2 :: t3 :: t4 :: t5 :: t6 :: t7 :: adv,
                                      stack := t0 :: vm.stack }) ∧
    (∀ s0 s1 s2 s3 r, vm.stack = s0 :: s1 :: s2 :: s3 :: r →
      vm.step .advpopw = .ok { vm with adv := t4 :: t5 :: t6 :: t7 :: adv,
                                       stack := t3 :: t2 :: t1 :: t0 :: r }) ∧
    (∀ s0 s1 s2 s3 s4 s5 s6 s7 s8 s9 s10 s11 a r,
      vm.stack = s0 :: s1 :: s2 :: s3 :: s4 :: s5 :: s6 :: s7 :: s8 :: s9 :: s10 :: s11 :: a :: r →
      a + 1 ≤ u32max →
      vm.step .pipe = .ok { vm with
        adv := adv
        mem := (vm.mem.write vm.ctx a ⟨t0, t1, t2, t3⟩).write vm.ctx (a + 1) ⟨t4, t5, t6, t7⟩
        stack := t7 :: t6 :: t5 :: t4 :: t3 :: t2 :: t1 :: t0 :: s8 :: s9 :: s10 :: s11 :: (a + 2) :: r }) := by
  refine ⟨by simp [step, stepCore, ha], ?_, ?_⟩
  · intro s0 s1 s2 s3 r hs
    simp [step, stepCore, ha, hs]
  · intro s0 s1 s2 s3 s4 s5 s6 s7 s8 s9 s10 s11 a r hs hle
    have h1 : ¬ a > u32max := by omega
    have h2 : ¬ a + 1 > u32max := by omega
    simp [step, stepCore, ha, hs, validAddr, h1, h2]

/-- A short advice stack makes the popping operations fail (they never invent values). -/
theorem advice_exhausted (vm : Vm) (ha : vm.adv = []) :
    vm.step .advpop = .error .adviceExhausted := by
  simp [step, stepCore, ha]


/-! ### The u64 division hint cannot change the result

`std::math::u64::div / mod / divmod` take quotient and remainder from the advice stack
(`adv.push_u64div`) and check them in-VM.  For the operation lists regenerated from u64.masm: two
machine states that differ only in what the host supplies (any tapes of any length, any field
elements) and both complete, complete with the same stack — the exact quotient / remainder (the
`…_sound` theorems of `Lemmas/U64Div.lean`, restated in `Props/C16.lean`). -/

theorem u64_div_result_independent_of_hint (vm vm2 : Vm) (bh bl ah al : Nat) (r out out2 : List Nat)
    (hs : vm.stack = bh :: bl :: ah :: al :: r) (hs2 : vm2.stack = bh :: bl :: ah :: al :: r)
    (h3 : bh < two32) (h2 : bl < two32) (h1 : ah < two32) (h0 : al < two32) (hr : 16 ≤ r.length)
    (h : stackRun Generated.u64_div vm = .ok out) (h' : stackRun Generated.u64_div vm2 = .ok out2) :
    out = out2 := by
  rw [(U64Div.u64_div_sound vm bh bl ah al r out hs h3 h2 h1 h0 hr h).2,
    (U64Div.u64_div_sound vm2 bh bl ah al r out2 hs2 h3 h2 h1 h0 hr h').2]

theorem u64_mod_result_independent_of_hint (vm vm2 : Vm) (bh bl ah al : Nat) (r out out2 : List Nat)
    (hs : vm.stack = bh :: bl :: ah :: al :: r) (hs2 : vm2.stack = bh :: bl :: ah :: al :: r)
    (h3 : bh < two32) (h2 : bl < two32) (h1 : ah < two32) (h0 : al < two32) (hr : 16 ≤ r.length)
    (h : stackRun Generated.u64_mod vm = .ok out) (h' : stackRun Generated.u64_mod vm2 = .ok out2) :
    out = out2 := by
  rw [(U64Div.u64_mod_sound vm bh bl ah al r out hs h3 h2 h1 h0 hr h).2,
    (U64Div.u64_mod_sound vm2 bh bl ah al r out2 hs2 h3 h2 h1 h0 hr h').2]

theorem u64_divmod_result_independent_of_hint (vm vm2 : Vm) (bh bl ah al : Nat) (r out out2 : List Nat)
    (hs : vm.stack = bh :: bl :: ah :: al :: r) (hs2 : vm2.stack = bh :: bl :: ah :: al :: r)
    (h3 : bh < two32) (h2 : bl < two32) (h1 : ah < two32) (h0 : al < two32) (hr : 16 ≤ r.length)
    (h : stackRun Generated.u64_divmod vm = .ok out) (h' : stackRun Generated.u64_divmod vm2 = .ok out2) :
    out = out2 := by
  rw [(U64Div.u64_divmod_sound vm bh bl ah al r out hs h3 h2 h1 h0 hr h).2,
    (U64Div.u64_divmod_sound vm2 bh bl ah al r out2 hs2 h3 h2 h1 h0 hr h').2]

-- Non-vacuity: a state satisfying the hypotheses of `advice_order` exists and pops in order.
example : (({ stack := List.replicate 16 0, adv := [11, 12, 13, 14, 15, 16, 17, 18] } : Vm).step
    .advpopw).toOption.map (·.stack.take 4) = some [14, 13, 12, 11] := by
  decide

end Miden.C09
