/-
  C12 — all lookups between trace components balance.

  Model: `Miden.Model.Lookup` (`buildAuxColumn` = `AuxColumnBuilder::build_aux_column`,
  `logUpColumn` = the range checker's `b_range`), executed by the driver on the rows recounted from
  real traces and compared with the columns built by the implementation.
  The theorems hold over every field, hence for the Goldilocks field and its extensions, for every
  challenge and every number of rows.
-/
import Miden.Lemmas.Lookup
import Mathlib.LinearAlgebra.Lagrange
import Mathlib.Algebra.Polynomial.Roots
import Mathlib.Tactic.NormNum

namespace Miden.Lookup
open Polynomial

variable {F : Type} [Field F]

/-- `build_aux_column` (prefix products, ONE inversion, backward pass) computes the running product
    `init · ∏_{k<i} resp k / ∏_{k<i} req k` whenever no request multiplicand is zero. -/
theorem buildAuxColumn_eq_spec (v q0 : F) (resp req : List F) (h : resp.length = req.length)
    (hne : ∀ q ∈ req, q ≠ 0) :
    buildAuxColumn v q0 resp req = specColumn v 1 resp req :=
  buildAuxColumn_eq_spec_aux v q0 resp req h hne

/-- Every row of the column in closed form. -/
theorem column_value (v q0 : F) (resp req : List F) (h : resp.length = req.length)
    (hne : ∀ q ∈ req, q ≠ 0) (i : Nat) (hi : i < (buildAuxColumn v q0 resp req).length) :
    (buildAuxColumn v q0 resp req)[i]
      = v * (resp.take i).prod * ((req.take i).prod)⁻¹ := by
  have he := buildAuxColumn_eq_spec v q0 resp req h hne
  have hi' : i < (specColumn v 1 resp req).length := by rw [← he]; exact hi
  have : (buildAuxColumn v q0 resp req)[i] = (specColumn v 1 resp req)[i] := by
    simp only [he]
  rw [this, specColumn_getElem v 1 resp req h i hi', one_mul]

/-- If the rows removed are a rearrangement of the rows added (and no reduced row is zero), the
    column returns to its initial value. -/
theorem specColumn_balanced (v : F) (resp req : List F) (hperm : resp.Perm req)
    (hne : ∀ q ∈ req, q ≠ 0) :
    (specColumn v 1 resp req).getLast (specColumn_ne_nil v 1 resp req) = v := by
  rw [specColumn_getLast v 1 resp req hperm.length_eq, hperm.prod_eq]
  have hprod : req.prod ≠ 0 := List.prod_ne_zero (fun h0 => hne 0 h0 rfl)
  field_simp

/-- Converse for a single value: if the column returns to its (non-zero) initial value then the
    product of the added rows equals the product of the removed rows. -/
theorem products_equal_of_returns (v : F) (hv : v ≠ 0) (resp req : List F) (h : resp.length = req.length)
    (hne : ∀ q ∈ req, q ≠ 0)
    (hret : (specColumn v 1 resp req).getLast (specColumn_ne_nil v 1 resp req) = v) :
    resp.prod = req.prod := by
  rw [specColumn_getLast v 1 resp req h] at hret
  have hprod : req.prod ≠ 0 := List.prod_ne_zero (fun h0 => hne 0 h0 rfl)
  field_simp at hret
  exact hret

/-- Schwartz–Zippel for one variable, stated deterministically: two multisets of (reduced) rows
    whose challenge products `∏ (α + c)` agree for more challenges `α` than either has elements are
    equal. -/
theorem multiset_eq_of_products_agree (a b : Multiset F) (S : Finset F)
    (ha : a.card < S.card) (hb : b.card < S.card)
    (hagree : ∀ α ∈ S, (a.map (fun c => α + c)).prod = (b.map (fun c => α + c)).prod) :
    a = b := by
  classical
  let P : F[X] := ((a.map Neg.neg).map (fun c => X - C c)).prod
  let Q : F[X] := ((b.map Neg.neg).map (fun c => X - C c)).prod
  have hevalP : ∀ α, P.eval α = (a.map (fun c => α + c)).prod := by
    intro α
    simp only [P, Polynomial.eval_multiset_prod, Multiset.map_map, Function.comp]
    congr 1
    apply Multiset.map_congr rfl
    intro c _
    simp [sub_neg_eq_add]
  have hevalQ : ∀ α, Q.eval α = (b.map (fun c => α + c)).prod := by
    intro α
    simp only [Q, Polynomial.eval_multiset_prod, Multiset.map_map, Function.comp]
    congr 1
    apply Multiset.map_congr rfl
    intro c _
    simp [sub_neg_eq_add]
  have hdegP : P.degree ≤ a.card := by
    refine le_trans Polynomial.degree_le_natDegree ?_
    simp only [P]
    rw [Polynomial.natDegree_multiset_prod_X_sub_C_eq_card]
    simp
  have hdegQ : Q.degree ≤ b.card := by
    refine le_trans Polynomial.degree_le_natDegree ?_
    simp only [Q]
    rw [Polynomial.natDegree_multiset_prod_X_sub_C_eq_card]
    simp
  have hPQ : P = Q := by
    apply Polynomial.eq_of_degree_sub_lt_of_eval_finset_eq S
    · refine lt_of_le_of_lt (Polynomial.degree_sub_le P Q) ?_
      exact max_lt (lt_of_le_of_lt hdegP (by exact_mod_cast ha)) (lt_of_le_of_lt hdegQ (by exact_mod_cast hb))
    · intro α hα
      rw [hevalP, hevalQ, hagree α hα]
  have hroots : (a.map Neg.neg) = (b.map Neg.neg) := by
    have h1 := Polynomial.roots_multiset_prod_X_sub_C (a.map Neg.neg)
    have h2 := Polynomial.roots_multiset_prod_X_sub_C (b.map Neg.neg)
    simp only [P, Q] at hPQ
    rw [hPQ] at h1
    rw [← h1, h2]
  have := congrArg (Multiset.map Neg.neg) hroots
  simpa [Multiset.map_map, Function.comp] using this


/-- The property for the columns built by the implementation: when the rows removed from a virtual
    table / requested from a bus are a rearrangement of the rows added / provided, the column built
    by `build_aux_column` ends at its initial value, whatever the challenges were. -/
theorem aux_column_balanced (v q0 : F) (resp req : List F) (hperm : resp.Perm req)
    (hne : ∀ q ∈ req, q ≠ 0) :
    ∃ hnil, (buildAuxColumn v q0 resp req).getLast hnil = v := by
  have he := buildAuxColumn_eq_spec v q0 resp req hperm.length_eq hne
  refine ⟨by rw [he]; exact specColumn_ne_nil _ _ _ _, ?_⟩
  simp only [he]
  exact specColumn_balanced v resp req hperm hne

/-- A table updated by additions and removals (a removal needs the row to be present). -/
def applyEvents [DecidableEq F] : Multiset F → List (Bool × F) → Option (Multiset F)
  | t, [] => some t
  | t, (true, x) :: es => applyEvents (x ::ₘ t) es
  | t, (false, x) :: es => if x ∈ t then applyEvents (t.erase x) es else none

omit [Field F] in
/-- Virtual tables: if a table goes from state `t0` to state `t1` through a sequence of additions
    and removals, then `t0 + added = t1 + removed` as multisets; in particular a table that starts
    and ends empty has added exactly what it removed. -/
theorem table_events_balance [DecidableEq F] (t0 t1 : Multiset F) (es : List (Bool × F))
    (h : applyEvents t0 es = some t1) :
    t0 + ((es.filter (·.1)).map (·.2) : Multiset F) = t1 + ((es.filter (fun e => !e.1)).map (·.2) : Multiset F) := by
  induction es generalizing t0 with
  | nil => simp [applyEvents] at h; simp [h]
  | cons e es ih =>
    obtain ⟨b, x⟩ := e
    cases b with
    | true =>
      simp only [applyEvents] at h
      have := ih (x ::ₘ t0) h
      simp only [List.filter_cons, Bool.not_true] at this ⊢
      simp only [if_true, Bool.false_eq_true, if_false, List.map_cons] at this ⊢
      rw [← this]
      simp [Multiset.cons_add, ← Multiset.cons_coe]
    | false =>
      simp only [applyEvents] at h
      split at h
      · rename_i hx
        have := ih (t0.erase x) h
        simp only [List.filter_cons, Bool.not_false] at this ⊢
        simp only [Bool.false_eq_true, if_false, if_true, List.map_cons] at this ⊢
        rw [← Multiset.cons_coe, Multiset.add_cons, ← this, ← Multiset.cons_add, Multiset.cons_erase hx]
      · exact absurd h (by simp)

omit [Field F] in
theorem table_empty_to_empty [DecidableEq F] (es : List (Bool × F))
    (h : applyEvents (0 : Multiset F) es = some 0) :
    ((es.filter (·.1)).map (·.2)).Perm ((es.filter (fun e => !e.1)).map (·.2)) := by
  have := table_events_balance 0 0 es h
  simp only [zero_add] at this
  exact Multiset.coe_eq_coe.mp this

/-- If the values looked up (by the stack and the memory chiplet, over all rows) are exactly the
    table values repeated according to their multiplicities, the bus returns to its initial value,
    for every challenge `alpha`. -/
theorem logUp_balanced (alpha b : F) (rows : List (List (ℕ × F) × List F))
    (hperm : (rows.flatMap (·.2)).Perm
      ((rows.flatMap (·.1)).flatMap (fun mv => List.replicate mv.1 mv.2))) :
    (logUpColumn alpha b (rows.map (fun r => (r.1.map (fun mv => ((mv.1 : F), mv.2)), r.2)))).getLast
      (logUpColumn_ne_nil _ _ _) = b := by
  rw [logUpColumn_getLast, sum_rowDelta]
  rw [flatMap_snd_cast, flatMap_fst_cast, List.map_map]
  have h3 := (hperm.map (fun l => (alpha - l)⁻¹)).sum_eq
  rw [h3, sum_replicate_terms]
  simp only [Function.comp_def]
  rw [sub_self, add_zero]


/-! Non-vacuity: concrete columns over `ℚ`. -/

example : buildAuxColumn (1 : ℚ) 1 [2, 3, 1] [1, 3, 2] = [1, 2, 2, 1] := by
  norm_num [buildAuxColumn, prefixProds, backward, prod]

example : ([2, 3, 1] : List ℚ).Perm [1, 3, 2] ∧ ∀ q ∈ ([1, 3, 2] : List ℚ), q ≠ 0 := by
  refine ⟨by decide, ?_⟩
  intro q hq; simp at hq; rcases hq with h | h | h <;> simp [h]

example : applyEvents (0 : Multiset ℚ) [(true, 5), (true, 7), (false, 7), (false, 5)] = some 0 := by
  decide

end Miden.Lookup
