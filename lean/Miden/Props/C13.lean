/-
  C13 — the decoded operation stream is exactly the program.
-/
import Miden.Lemmas.Runs
namespace Miden.C13
open Miden.Vm

/-- For every program, state and decision sequence: the rows a successful execution appends to the
    trace form a depth-first run of the MAST (`Runs`): each block contributes its start row, the
    rows of the children actually executed (the taken branch; the loop body once per iteration,
    separated by REPEAT; the callee found in the code-block table), and an END row; a span
    contributes SPAN, its batched operations with the alignment NOOPs and RESPANs of `spanRows`, END. -/
theorem decoded_stream_is_dfs (env : Env) (fuel : Nat) (b : Block) (vm vm' : Vm)
    (h : exec env fuel b vm = .ok vm') :
    ∃ rows, Runs env b rows ∧ vm'.trace = rows.reverse ++ vm.trace :=
  (exec_runs_all env fuel).1 b vm vm' h

/-- Starting from the initial state, the trace has exactly one row per clock cycle. -/
theorem one_row_per_cycle (env : Env) (fuel : Nat) (b : Block) (vm vm' : Vm)
    (h0 : vm.clk = 0) (ht : vm.trace = []) (h : exec env fuel b vm = .ok vm') :
    vm'.trace.length = vm'.clk := by
  obtain ⟨l, t, c⟩ := (exec_prog h).1
  rw [t, c, h0, ht]; simp

-- Non-vacuity: a concrete two-span join runs to completion and its trace is the expected stream.
example : ((exec {} 10 (.join (.span [.pad]) (.span [.incr])) { stack := List.replicate 16 0 }).toOption.map
    (fun v => v.trace.reverse.map Op.code)) = some [87, 86, 48, 112, 86, 4, 112, 112] := by
  decide

end Miden.C13
