/-
  C13 — the decoded operation stream is exactly the program.
-/
import Miden.Lemmas.Runs
import Miden.Lemmas.Nest
namespace Miden.C13
open Miden.Vm

/-- For every program, state and decision sequence: the rows a successful execution appends to the
    trace form a depth-first run of the MAST (`Runs`): each block contributes its start row, the
    rows of the children actually executed (the taken branch; the loop body once per iteration,
    separated by REPEAT; the callee found in the code-block table), and an END row; a span
    contributes SPAN, its batched operations with the alignment NOOPs and RESPANs of `spanRows`, END. -/
theorem decoded_stream_is_dfs (env : Env) (fuel : Nat) (b : Block) (vm vm' : Vm)
    (h : exec env fuel b vm = .ok vm') :
    ∃ rows, Runs env b rows ∧ vm'.trace = rows.reverse ++ vm.trace :=
  (exec_runs_all env fuel).1 b vm vm' h

/-- Starting from the initial state, the trace has exactly one row per clock cycle. -/
theorem one_row_per_cycle (env : Env) (fuel : Nat) (b : Block) (vm vm' : Vm)
    (h0 : vm.clk = 0) (ht : vm.trace = []) (h : exec env fuel b vm = .ok vm') :
    vm'.trace.length = vm'.clk := by
  obtain ⟨l, t, c⟩ := (exec_prog h).1
  rw [t, c, h0, ht]; simp

/-- The user operations decoded from the rows of any span are exactly the span's operations, in order:
    batching only inserts alignment NOOPs and RESPAN markers (`Nest.keep` drops exactly those, on both
    sides), for every operation list of any length and any mix of immediates. -/
theorem span_rows_are_the_operations (ops : List Op) :
    (spanRows ops).filter Nest.keep = ops.filter Nest.keep :=
  Nest.spanRows_user_ops ops

/-- Every row of a span is one of its operations, an alignment NOOP or a RESPAN. -/
theorem span_rows_only_ops_noop_respan (ops : List Op) (o : Op) (h : o ∈ spanRows ops) :
    o ∈ ops ∨ o = .noop ∨ o = .respan :=
  Nest.spanRows_mem h

/-- The row stream is properly nested: for every program whose spans hold no control operations
    (`Nest.clean`, also required of the procedures in the code-block table), every state and every
    successful execution, the rows appended to the trace bring the nesting depth (block starts +1,
    END −1, never below zero: `Nest.nest`) back to where it started, from any starting depth — so
    each JOIN / SPLIT / LOOP / CALL / SYSCALL / DYN / SPAN is closed by its own END. -/
theorem decoded_stream_properly_nested (env : Env) (fuel : Nat) (b : Block) (vm vm' : Vm)
    (he : Nest.EnvClean env) (hb : Nest.clean b = true)
    (h : exec env fuel b vm = .ok vm') :
    ∃ rows, vm'.trace = rows.reverse ++ vm.trace ∧ ∀ d, Nest.nest rows d = some d := by
  obtain ⟨rows, hr, ht⟩ := (exec_runs_all env fuel).1 b vm vm' h
  exact ⟨rows, ht, Nest.runs_nest he hr hb⟩

/-- An END with nothing to close, or a block left open, is detected by `Nest.nest` (the checker is
    not vacuous). -/
example : Nest.nest [.span, .pad, .end, .end] 0 = none ∧ Nest.nest [.join, .span, .pad, .end] 0 = some 1 := by
  decide

-- Non-vacuity: a concrete two-span join runs to completion and its trace is the expected stream.
example : ((exec {} 10 (.join (.span [.pad]) (.span [.incr])) { stack := List.replicate 16 0 }).toOption.map
    (fun v => v.trace.reverse.map Op.code)) = some [87, 86, 48, 112, 86, 4, 112, 112] := by
  decide

end Miden.C13
