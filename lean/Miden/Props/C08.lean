/-
  C08 — the program commitment is the specified MAST hash of the executable code.
  Property theorems only; helper lemmas live in `Miden/Lemmas/Batch.lean`.
-/
import Miden.Lemmas.Batch
import Miden.Lemmas.BatchDecode
import Miden.Model.Mast
import Miden.Generated.OpTableLinked

namespace Miden.C08

/-- The hand-written operation table (`Op.code`, `Op.hasImm`, `Op.isControl`) is, row by row, the
    table exported from the crate that is linked into the harness (i.e. from /repo as it is now). -/
theorem opcode_table_agrees :
    Op.all.map (fun o => (o.code, o.hasImm, o.isControl))
      = Generated.opTableLinked.map (fun r => r.2) := by
  decide

/-- Opcodes fit in 7 bits and are pairwise distinct. -/
theorem opcodes_7bit_distinct :
    (Op.all.map Op.code).all (· < 128) = true ∧ (Op.all.map Op.code).Nodup := by
  decide

/-- Every batch produced for any operation sequence respects the documented limits: exactly 8 group
    slots, at most 8 used groups, at most 9 operations per group, and every group value is a
    sequence of at most 9 seven-bit opcodes (hence < 2^63 and never wraps modulo p). -/
theorem batch_wf (ops : List Op) : ∀ b ∈ batchOps ops, OpBatch.WF b :=
  batchOps_wf ops

/-- Batching neither drops, duplicates nor reorders operations. -/
theorem batch_total (ops : List Op) : (batchOps ops).flatMap (·.ops) = ops :=
  batchOps_flatten ops

/-- Every batch holds at least one operation (no empty batches are hashed). -/
theorem batch_nonempty (ops : List Op) : ∀ b ∈ batchOps ops, b.ops ≠ [] :=
  batchOps_nonempty ops

/-- The control-block hashes are the domain-separated merges of the specification, with the block's
    opcode as domain and a zero word as second child for `loop`, `call` and `syscall`. -/
theorem mast_hash_spec (a b : Block) (w : Word) :
    (Block.join a b).hash = Rpo.mergeInDomain a.hash b.hash 87 ∧
    (Block.split a b).hash = Rpo.mergeInDomain a.hash b.hash 84 ∧
    (Block.loop a).hash = Rpo.mergeInDomain a.hash [0, 0, 0, 0] 85 ∧
    (Block.call w false).hash = Rpo.mergeInDomain w.toList [0, 0, 0, 0] 108 ∧
    (Block.call w true).hash = Rpo.mergeInDomain w.toList [0, 0, 0, 0] 104 ∧
    Block.dyn.hash = Rpo.mergeInDomain [0, 0, 0, 0] [0, 0, 0, 0] 88 := by
  refine ⟨rfl, rfl, rfl, rfl, rfl, rfl⟩

/-- A span's hash is the RPO hash of all of its batches' group elements, 8 per batch. -/
theorem span_hash_spec (ops : List Op) :
    (Block.span ops).hash = Rpo.hashElements ((batchOps ops).flatMap (·.groups)) ∧
    ((batchOps ops).flatMap (·.groups)).length = 8 * (batchOps ops).length := by
  refine ⟨rfl, ?_⟩
  exact groups_length ops

/-- Groups decode back to the operations: reading `opCounts[i]` seven-bit opcodes (least significant
    first) out of every group `i` of a batch, in group order, yields exactly the opcodes of the batch's
    operations - for every operation sequence. Groups that hold immediates have count 0. -/
theorem batch_decode (ops : List Op) :
    ∀ b ∈ batchOps ops, codesOf b.groups b.opCounts = b.ops.map Op.code :=
  batchOps_decodes ops

/-- Whole span: the groups of all batches decode to the opcode sequence of the span. -/
theorem span_decode (ops : List Op) :
    (batchOps ops).flatMap (fun b => codesOf b.groups b.opCounts) = ops.map Op.code := by
  have h : ∀ bs : List OpBatch, (∀ b ∈ bs, codesOf b.groups b.opCounts = b.ops.map Op.code) →
      bs.flatMap (fun b => codesOf b.groups b.opCounts) = (bs.flatMap (·.ops)).map Op.code := by
    intro bs
    induction bs with
    | nil => intro _; rfl
    | cons b bs ih =>
      intro hb
      simp only [List.flatMap_cons, List.map_append]
      rw [hb b (by simp), ih (fun b' hb' => hb b' (by simp [hb']))]
  rw [h _ (batch_decode ops), batch_total]

/-- Up to NOOP padding: the slots of an operation group beyond its operation count hold opcode 0
    (NOOP), so decoding all nine slots of the group yields its operations followed by NOOPs only. -/
theorem batch_padding_is_noop (ops : List Op) :
    ∀ b ∈ batchOps ops, ∀ i, b.opCounts.getD i 0 ≠ 0 →
      decodeGroup 9 (b.groups.getD i 0)
        = decodeGroup (b.opCounts.getD i 0) (b.groups.getD i 0)
          ++ List.replicate (9 - b.opCounts.getD i 0) 0 := by
  intro b hb i hi
  have hlt := batchOps_pad ops b hb i hi
  have hle : b.opCounts.getD i 0 ≤ 9 := by
    have hw := (batch_wf ops b hb).2.2.2.2
    by_cases hlen : i < b.opCounts.length
    · have := hw (b.opCounts[i]) (List.getElem_mem hlen)
      simpa [List.getD_eq_getElem?_getD, List.getElem?_eq_getElem hlen] using this
    · exfalso
      apply hi
      simp [List.getD_eq_getElem?_getD, List.getElem?_eq_none (by omega : b.opCounts.length ≤ i)]
  have := decodeGroup_pad (b.opCounts.getD i 0) (9 - b.opCounts.getD i 0) (b.groups.getD i 0) hlt
  rwa [Nat.add_sub_cancel' hle] at this

/-- Immediates are placed in the groups that follow their operation's group: the groups of a batch
    below `numGroups` that hold no operations (count 0) hold exactly the immediates of the batch's
    operations, in order - for every operation sequence. -/
theorem batch_immediates (ops : List Op) :
    ∀ b ∈ batchOps ops, immsOf b.groups b.opCounts b.numGroups b.numGroups = b.ops.filterMap Op.imm :=
  batchOps_imm ops

-- Non-vacuity: a batch with pushes (immediate groups have count 0) and a partially filled last group.
example : (batchOps [Op.push 1, .add, .push 2, .mul]).map (fun b => (b.groups, b.opCounts, codesOf b.groups b.opCounts, immsOf b.groups b.opCounts b.numGroups b.numGroups))
    = [([(100 + 34 * 128 + 100 * 128 ^ 2 + 35 * 128 ^ 3), 1, 2, 0, 0, 0, 0, 0], [4, 0, 0, 0, 0, 0, 0, 0], [100, 34, 100, 35], [1, 2])] := by
  decide

-- Non-vacuity: a concrete span with pushes crossing a group boundary satisfies the statements.
example : (batchOps [Op.push 1, .add, .push 2, .push 3, .push 4, .push 5, .push 6, .push 7,
    .push 8, .add]).length = 2 := by decide

end Miden.C08
