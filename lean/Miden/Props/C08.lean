/-
  C08 — the program commitment is the specified MAST hash of the executable code.
  Property theorems only; helper lemmas live in `Miden/Lemmas/Batch.lean`.
-/
import Miden.Lemmas.Batch
import Miden.Model.Mast
import Miden.Generated.OpTableLinked

namespace Miden.C08

/-- The hand-written operation table (`Op.code`, `Op.hasImm`, `Op.isControl`) is, row by row, the
    table exported from the crate that is linked into the harness (i.e. from /repo as it is now). -/
theorem opcode_table_agrees :
    Op.all.map (fun o => (o.code, o.hasImm, o.isControl))
      = Generated.opTableLinked.map (fun r => r.2) := by
  decide

/-- Opcodes fit in 7 bits and are pairwise distinct. -/
theorem opcodes_7bit_distinct :
    (Op.all.map Op.code).all (· < 128) = true ∧ (Op.all.map Op.code).Nodup := by
  decide

/-- Every batch produced for any operation sequence respects the documented limits: exactly 8 group
    slots, at most 8 used groups, at most 9 operations per group, and every group value is a
    sequence of at most 9 seven-bit opcodes (hence < 2^63 and never wraps modulo p). -/
theorem batch_wf (ops : List Op) : ∀ b ∈ batchOps ops, OpBatch.WF b :=
  batchOps_wf ops

/-- Batching neither drops, duplicates nor reorders operations. -/
theorem batch_total (ops : List Op) : (batchOps ops).flatMap (·.ops) = ops :=
  batchOps_flatten ops

/-- Every batch holds at least one operation (no empty batches are hashed). -/
theorem batch_nonempty (ops : List Op) : ∀ b ∈ batchOps ops, b.ops ≠ [] :=
  batchOps_nonempty ops

/-- The control-block hashes are the domain-separated merges of the specification, with the block's
    opcode as domain and a zero word as second child for `loop`, `call` and `syscall`. -/
theorem mast_hash_spec (a b : Block) (w : Word) :
    (Block.join a b).hash = Rpo.mergeInDomain a.hash b.hash 87 ∧
    (Block.split a b).hash = Rpo.mergeInDomain a.hash b.hash 84 ∧
    (Block.loop a).hash = Rpo.mergeInDomain a.hash [0, 0, 0, 0] 85 ∧
    (Block.call w false).hash = Rpo.mergeInDomain w.toList [0, 0, 0, 0] 108 ∧
    (Block.call w true).hash = Rpo.mergeInDomain w.toList [0, 0, 0, 0] 104 ∧
    Block.dyn.hash = Rpo.mergeInDomain [0, 0, 0, 0] [0, 0, 0, 0] 88 := by
  refine ⟨rfl, rfl, rfl, rfl, rfl, rfl⟩

/-- A span's hash is the RPO hash of all of its batches' group elements, 8 per batch. -/
theorem span_hash_spec (ops : List Op) :
    (Block.span ops).hash = Rpo.hashElements ((batchOps ops).flatMap (·.groups)) ∧
    ((batchOps ops).flatMap (·.groups)).length = 8 * (batchOps ops).length := by
  refine ⟨rfl, ?_⟩
  exact groups_length ops

-- Non-vacuity: a concrete span with pushes crossing a group boundary satisfies the statements.
example : (batchOps [Op.push 1, .add, .push 2, .push 3, .push 4, .push 5, .push 6, .push 7,
    .push 8, .add]).length = 2 := by decide

end Miden.C08
