/-
  C03 — honest execution traces satisfy the entire AIR.

  What is *proved* here is the part of the statement that the abstract executor model carries:
  the clock column (`clk' = clk + 1` on every row of every execution), the stack-depth column
  (`b0` changes exactly as the AIR's shift flags demand, for each of the 77 non-control operations
  and every state) and the trace-length rule.  That the remaining columns of the *real* trace
  satisfy the remaining constraints is decided on every run by evaluating the real
  `ProcessorAir` (all 182 main + auxiliary constraints and all boundary assertions, two random
  challenge vectors) on every row of every generated trace — see DESIGN.md §4 C03.
-/
import Miden.Lemmas.Depth
import Miden.Lemmas.Exec
import Miden.Model.Options
namespace Miden.C03
open Miden Miden.Vm

/-- AIR constraint 0 on honest rows: every executed row advances the clock by exactly one. -/
theorem clk_constraint_holds (env : Env) (vm vm' : Vm) (op row : Op)
    (h : vm.execRow env op row = .ok vm') : vm'.clk = vm.clk + 1 :=
  (execRow_ok h).1

/-- The depth column on honest rows: for every operation and every state of depth ≥ 16, the depth
    after the operation is `b0 + 1` for right-shifting operations, `b0 - 1` for left-shifting ones
    unless the depth is already 16 (then it stays 16: this is the `overflow` factor of the AIR's
    depth constraint), and `b0` otherwise. -/
theorem depth_constraint_holds (vm vm' : Vm) (op : Op) (hl : 16 ≤ vm.stack.length)
    (h : vm.step op = .ok vm') :
    vm'.stack.length = (if isRight op then vm.stack.length + 1
      else if isLeft op then max 16 (vm.stack.length - 1) else vm.stack.length) := by
  unfold step at h
  split at h
  · cases h
  · rename_i r hr
    cases h
    exact stepCore_depth (r := r) hl hr

/-- Trace length: the least power of two that holds the executed cycles, the range-checker table,
    the chiplet rows and one random row; no capacity hint enters the formula. -/
def traceLen (clk rangeRows chipletRows : Nat) : Nat :=
  nextPow2Nat (max (max rangeRows clk) chipletRows + 1)

theorem nextPow2Nat_spec (n : Nat) (hn : 1 ≤ n) :
    n ≤ nextPow2Nat n ∧ ∃ k, nextPow2Nat n = 2 ^ k := by
  unfold nextPow2Nat
  by_cases h1 : n ≤ 1
  · simp only [h1, if_true]
    refine ⟨?_, 0, rfl⟩
    first | trivial | exact h1
  · simp only [h1, if_false]
    refine ⟨?_, _, rfl⟩
    have hlt : n - 1 < 2 ^ (Nat.log2 (n - 1) + 1) := Nat.lt_log2_self
    omega

theorem trace_len_ok (clk r c : Nat) :
    clk + 1 ≤ traceLen clk r c ∧ r + 1 ≤ traceLen clk r c ∧ c + 1 ≤ traceLen clk r c ∧
    ∃ k, traceLen clk r c = 2 ^ k := by
  unfold traceLen
  obtain ⟨h1, h2⟩ := nextPow2Nat_spec (max (max r clk) c + 1) (by omega)
  refine ⟨by omega, by omega, by omega, h2⟩

-- Non-vacuity / sanity of the shift classification against concrete operations.
example : isLeft Op.add = true ∧ isRight Op.pad = true ∧ isLeft Op.swap = false ∧ isRight Op.swap = false
    ∧ isRight (Op.push 5) = true ∧ isRight Op.u32split = true ∧ isLeft Op.u32madd = true := by decide

end Miden.C03
