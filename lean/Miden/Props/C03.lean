/-
  C03 — honest execution traces satisfy the entire AIR.

  What is *proved* here is the part of the statement that the abstract executor model carries:
  the clock column (`clk' = clk + 1` on every row of every execution), the stack-depth column
  (`b0` changes exactly as the AIR's shift flags demand, for each of the 77 non-control operations
  and every state) and the trace-length rule.  That the remaining columns of the *real* trace
  satisfy the remaining constraints is decided on every run by evaluating the real
  `ProcessorAir` (all 182 main + auxiliary constraints and all boundary assertions, two random
  challenge vectors) on every row of every generated trace — see DESIGN.md §4 C03.
-/
import Miden.Lemmas.Depth
import Miden.Lemmas.Exec
import Miden.Model.Options
namespace Miden.C03
open Miden Miden.Vm

/-- AIR constraint 0 on honest rows: every executed row advances the clock by exactly one. -/
theorem clk_constraint_holds (env : Env) (vm vm' : Vm) (op row : Op)
    (h : vm.execRow env op row = .ok vm') : vm'.clk = vm.clk + 1 :=
  (execRow_ok h).1

/-- The depth column on honest rows: for every operation and every state of depth ≥ 16, the depth
    after the operation is `b0 + 1` for right-shifting operations, `b0 - 1` for left-shifting ones
    unless the depth is already 16 (then it stays 16: this is the `overflow` factor of the AIR's
    depth constraint), and `b0` otherwise. -/
theorem depth_constraint_holds (vm vm' : Vm) (op : Op) (hl : 16 ≤ vm.stack.length)
    (h : vm.step op = .ok vm') :
    vm'.stack.length = (if isRight op then vm.stack.length + 1
      else if isLeft op then max 16 (vm.stack.length - 1) else vm.stack.length) := by
  unfold step at h
  split at h
  · cases h
  · rename_i r hr
    cases h
    exact stepCore_depth (r := r) hl hr

theorem nextPow2Nat_spec (n : Nat) (hn : 1 ≤ n) :
    n ≤ nextPow2Nat n ∧ ∃ k, nextPow2Nat n = 2 ^ k := by
  unfold nextPow2Nat
  by_cases h1 : n ≤ 1
  · simp only [h1, if_true]
    refine ⟨?_, 0, rfl⟩
    first | trivial | exact h1
  · simp only [h1, if_false]
    refine ⟨?_, _, rfl⟩
    have hlt : n - 1 < 2 ^ (Nat.log2 (n - 1) + 1) := Nat.lt_log2_self
    omega

/-- The trace length rule of `finalize_trace` (`Model.traceLen`, compared with the length of every
    real trace by the harness): a power of two, at least 64, with room for the HALT row after the
    executed cycles, the padding row after the chiplets and the random last row — and the *least*
    such power of two, so that no component is padded more than necessary. -/
theorem trace_len_ok (clk r c : Nat) :
    clk + 2 ≤ traceLen clk r c ∧ r + 1 ≤ traceLen clk r c ∧ c + 2 ≤ traceLen clk r c ∧
    64 ≤ traceLen clk r c ∧ ∃ k, traceLen clk r c = 2 ^ k := by
  unfold traceLen MIN_TRACE_LEN
  obtain ⟨h1, k, h2⟩ := nextPow2Nat_spec (max (max r (clk + 1)) (c + 1) + 1) (by omega)
  refine ⟨by omega, by omega, by omega, by omega, ?_⟩
  by_cases h : 64 ≤ nextPow2Nat (max (max r (clk + 1)) (c + 1) + 1)
  · exact ⟨k, by omega⟩
  · exact ⟨6, by omega⟩

theorem nextPow2Nat_least (n m : Nat) (hn : 2 ≤ n) (hm : n ≤ 2 ^ m) : nextPow2Nat n ≤ 2 ^ m := by
  unfold nextPow2Nat
  have h1 : ¬ n ≤ 1 := by omega
  simp only [h1, if_false]
  have hlog : Nat.log2 (n - 1) < m := by
    have hne : n - 1 ≠ 0 := by omega
    rw [Nat.log2_lt hne]
    omega
  exact Nat.pow_le_pow_right (by omega) (by omega)

/-- Minimality: any power of two that is at least 64 and has room for all components is at least
    the trace length — the trace is never longer than the rule requires. -/
theorem trace_len_least (clk r c m : Nat) (h64 : 64 ≤ 2 ^ m) (hc : clk + 2 ≤ 2 ^ m)
    (hr : r + 1 ≤ 2 ^ m) (hch : c + 2 ≤ 2 ^ m) : traceLen clk r c ≤ 2 ^ m := by
  unfold traceLen MIN_TRACE_LEN
  have := nextPow2Nat_least (max (max r (clk + 1)) (c + 1) + 1) m (by omega) (by omega)
  omega

example : traceLen 63 10 8 = 128 ∧ traceLen 62 10 8 = 64 ∧ traceLen 20 30 62 = 64 ∧ traceLen 20 30 63 = 128
    ∧ traceLen 20 63 8 = 64 ∧ traceLen 20 64 8 = 128 := by decide

-- Non-vacuity / sanity of the shift classification against concrete operations.
example : isLeft Op.add = true ∧ isRight Op.pad = true ∧ isLeft Op.swap = false ∧ isRight Op.swap = false
    ∧ isRight (Op.push 5) = true ∧ isRight Op.u32split = true ∧ isLeft Op.u32madd = true := by decide

end Miden.C03
