/-
  C15 — the cycle limit is enforced exactly.
-/
import Miden.Lemmas.Exec
import Miden.Lemmas.LimitMono
import Miden.Model.Options
namespace Miden.C15
open Miden.Vm

/-- A row is refused exactly when it would be row number `max + 1`; the error names the limit. -/
theorem tick_refuses_exactly (env : Env) (vm : Vm) (row : Op) :
    ((∃ e, vm.tick env row = .error e) ↔ env.maxCycles < vm.clk + 1) ∧
    (∀ e, vm.tick env row = .error e → e = .cycleLimit env.maxCycles) :=
  ⟨tick_err_iff env vm row, fun _ h => (tick_err h).1⟩

/-- Whatever block is executed, from whatever state: if execution succeeds, the clock never exceeded
    the limit and at least one cycle was spent. -/
theorem exec_within_limit (env : Env) (fuel : Nat) (b : Block) (vm vm' : Vm)
    (h : exec env fuel b vm = .ok vm') : vm'.clk ≤ env.maxCycles ∧ vm.clk < vm'.clk :=
  let p := exec_prog h; ⟨p.2.1, p.2.2⟩

/-- One cycle per trace row: the number of rows appended equals the clock advance. -/
theorem clock_counts_rows (env : Env) (fuel : Nat) (b : Block) (vm vm' : Vm)
    (h : exec env fuel b vm = .ok vm') :
    ∃ rows : List Op, vm'.trace = rows ++ vm.trace ∧ vm'.clk = vm.clk + rows.length :=
  (exec_prog h).1

/-- A program needing more than `m` cycles cannot succeed under limit `m`. -/
theorem over_limit_never_succeeds (env : Env) (fuel : Nat) (b : Block) (vm vm' : Vm) (n : Nat)
    (hn : env.maxCycles < n) (h : exec env fuel b vm = .ok vm') : vm'.clk ≠ n := by
  have := (exec_within_limit env fuel b vm vm' h).1
  omega

/-- **The limit is enforced exactly**: if a program completes from `vm` under some limit with final
    clock `c`, then under ANY limit `m` it completes if and only if `c ≤ m`, and when it does the result
    is the very same state - for every program (all block kinds, calls, syscalls, dyn), state and fuel. -/
theorem limit_exact (env : Env) (fuel : Nat) (b : Block) (vm vm' : Vm) (m : Nat)
    (h : exec env fuel b vm = .ok vm') :
    ((∃ v, exec (env.withMax m) fuel b vm = .ok v) ↔ vm'.clk ≤ m) ∧
    (∀ v, exec (env.withMax m) fuel b vm = .ok v → v = vm') := by
  have key : ∀ v, exec (env.withMax m) fuel b vm = .ok v → v = vm' ∧ vm'.clk ≤ m := by
    intro v hv
    have hvm : v.clk ≤ m := (exec_prog hv).2.1
    by_cases hle : m ≤ env.maxCycles
    · -- lower the run under `m` back to the original limit: same state, hence `c ≤ m`
      have hback := exec_limit_mono (env := env.withMax m) env.maxCycles hv (Nat.le_trans hvm hle)
      have henv : (env.withMax m).withMax env.maxCycles = env := rfl
      rw [henv, h] at hback
      have e : vm' = v := Except.ok.inj hback
      subst e
      exact ⟨rfl, hvm⟩
    · have hc : vm'.clk ≤ m := Nat.le_trans (exec_prog h).2.1 (by omega)
      have hup := exec_limit_mono m h hc
      rw [hup] at hv
      exact ⟨(Except.ok.inj hv).symm, hc⟩
  refine ⟨⟨fun ⟨v, hv⟩ => (key v hv).2, fun hc => ⟨vm', exec_limit_mono m h hc⟩⟩, fun v hv => (key v hv).1⟩

/-- Option sets are refused exactly when the maximum is below the minimum trace length (64) or
    below the expected number of cycles. -/
theorem options_refused_iff (m : Option Nat) (e : Nat) :
    execOptionsNew m e = none ↔ (m.getD U32_MAX < 64 ∨ m.getD U32_MAX < e) := by
  unfold execOptionsNew MIN_TRACE_LEN
  simp only
  by_cases h1 : m.getD U32_MAX < 64
  · simp [h1]
  · by_cases h2 : m.getD U32_MAX < e
    · simp [h1, h2]
    · simp [h1, h2]

/-- Accepted option sets keep the requested maximum. -/
theorem options_accept (m : Option Nat) (e : Nat) (h1 : 64 ≤ m.getD U32_MAX)
    (h2 : e ≤ m.getD U32_MAX) : ∃ e', execOptionsNew m e = some (m.getD U32_MAX, e') ∧ 64 ≤ e' := by
  unfold execOptionsNew MIN_TRACE_LEN
  simp only
  have a : ¬ m.getD U32_MAX < 64 := by omega
  have b : ¬ m.getD U32_MAX < e := by omega
  simp only [a, b, if_false]
  exact ⟨_, rfl, by omega⟩

-- `limit_exact` on a concrete program: 8 rows fit under 8 and 9, not under 7
example : ((exec { maxCycles := 8 } 10 (.join (.span [.pad]) (.span [.incr])) { stack := List.replicate 16 0 }).toOption.map (·.clk),
    (exec { maxCycles := 7 } 10 (.join (.span [.pad]) (.span [.incr])) { stack := List.replicate 16 0 }).toOption.map (·.clk))
    = (some 8, none) := by decide

-- Non-vacuity: a concrete state at the limit is refused, one below it is accepted.
example : (∃ e, ({ stack := [], clk := 64 } : Vm).tick { maxCycles := 64 } .noop = .error e) := by
  exact ⟨_, rfl⟩
example : (∃ v, ({ stack := [], clk := 63 } : Vm).tick { maxCycles := 64 } .noop = .ok v) := by
  exact ⟨_, rfl⟩

end Miden.C15
