/-
  C15 — the cycle limit is enforced exactly.
-/
import Miden.Lemmas.Exec
import Miden.Model.Options
namespace Miden.C15
open Miden.Vm

/-- A row is refused exactly when it would be row number `max + 1`; the error names the limit. -/
theorem tick_refuses_exactly (env : Env) (vm : Vm) (row : Op) :
    ((∃ e, vm.tick env row = .error e) ↔ env.maxCycles < vm.clk + 1) ∧
    (∀ e, vm.tick env row = .error e → e = .cycleLimit env.maxCycles) :=
  ⟨tick_err_iff env vm row, fun _ h => (tick_err h).1⟩

/-- Whatever block is executed, from whatever state: if execution succeeds, the clock never exceeded
    the limit and at least one cycle was spent. -/
theorem exec_within_limit (env : Env) (fuel : Nat) (b : Block) (vm vm' : Vm)
    (h : exec env fuel b vm = .ok vm') : vm'.clk ≤ env.maxCycles ∧ vm.clk < vm'.clk :=
  let p := exec_prog h; ⟨p.2.1, p.2.2⟩

/-- One cycle per trace row: the number of rows appended equals the clock advance. -/
theorem clock_counts_rows (env : Env) (fuel : Nat) (b : Block) (vm vm' : Vm)
    (h : exec env fuel b vm = .ok vm') :
    ∃ rows : List Op, vm'.trace = rows ++ vm.trace ∧ vm'.clk = vm.clk + rows.length :=
  (exec_prog h).1

/-- A program needing more than `m` cycles cannot succeed under limit `m`. -/
theorem over_limit_never_succeeds (env : Env) (fuel : Nat) (b : Block) (vm vm' : Vm) (n : Nat)
    (hn : env.maxCycles < n) (h : exec env fuel b vm = .ok vm') : vm'.clk ≠ n := by
  have := (exec_within_limit env fuel b vm vm' h).1
  omega

/-- Option sets are refused exactly when the maximum is below the minimum trace length (64) or
    below the expected number of cycles. -/
theorem options_refused_iff (m : Option Nat) (e : Nat) :
    execOptionsNew m e = none ↔ (m.getD U32_MAX < 64 ∨ m.getD U32_MAX < e) := by
  unfold execOptionsNew MIN_TRACE_LEN
  simp only
  by_cases h1 : m.getD U32_MAX < 64
  · simp [h1]
  · by_cases h2 : m.getD U32_MAX < e
    · simp [h1, h2]
    · simp [h1, h2]

/-- Accepted option sets keep the requested maximum. -/
theorem options_accept (m : Option Nat) (e : Nat) (h1 : 64 ≤ m.getD U32_MAX)
    (h2 : e ≤ m.getD U32_MAX) : ∃ e', execOptionsNew m e = some (m.getD U32_MAX, e') ∧ 64 ≤ e' := by
  unfold execOptionsNew MIN_TRACE_LEN
  simp only
  have a : ¬ m.getD U32_MAX < 64 := by omega
  have b : ¬ m.getD U32_MAX < e := by omega
  simp only [a, b, if_false]
  exact ⟨_, rfl, by omega⟩

-- Non-vacuity: a concrete state at the limit is refused, one below it is accepted.
example : (∃ e, ({ stack := [], clk := 64 } : Vm).tick { maxCycles := 64 } .noop = .error e) := by
  exact ⟨_, rfl⟩
example : (∃ v, ({ stack := [], clk := 63 } : Vm).tick { maxCycles := 64 } .noop = .ok v) := by
  exact ⟨_, rfl⟩

end Miden.C15
