/-
  C04 (continued) — soundness of the stack AIR for every operation that only rearranges or
  duplicates stack items: if all stack transition constraints vanish on a row pair carrying the
  operation's opcode, every one of the 16 next-row stack cells equals the cell of the current row the
  operation is defined to put there (and, for DUPn, depth and overflow address follow the right
  shift).  Generated uniformly; same constraint system as `Props/C04.lean`.
-/
import Miden.Lemmas.AirTac
namespace Miden.C04
open Miden Miden.Air
variable {F : Type} [Field F]
open Classical

/-- MOVUPn: item `n` comes to the top, items `0..n-1` move one slot down. -/
def permMovup (n i : Nat) : Nat := if i = 0 then n else if i ≤ n then i - 1 else i
/-- MOVDNn: the top item goes to position `n`, items `1..n` move one slot up. -/
def permMovdn (n i : Nat) : Nat := if i = n then 0 else if i < n then i + 1 else i
/-- Exchange of the `len` items starting at `a` with the `len` items starting at `b`. -/
def permSwap (a b len i : Nat) : Nat :=
  if a ≤ i ∧ i < a + len then i - a + b else if b ≤ i ∧ i < b + len then i - b + a else i

theorem air_sound_movup3 (cur nxt : Row F) (hop : cur.opcode = 12) (h : Holds cur nxt) :
    ∀ i, i < 16 → nxt.st i = cur.st (permMovup 3 i) := by
  air_simp hop h
  intro i hi
  interval_cases i <;> simp_all [permMovup]

theorem air_sound_movdn3 (cur nxt : Row F) (hop : cur.opcode = 13) (h : Holds cur nxt) :
    ∀ i, i < 16 → nxt.st i = cur.st (permMovdn 3 i) := by
  air_simp hop h
  intro i hi
  interval_cases i <;> simp_all [permMovdn]

theorem air_sound_movup4 (cur nxt : Row F) (hop : cur.opcode = 16) (h : Holds cur nxt) :
    ∀ i, i < 16 → nxt.st i = cur.st (permMovup 4 i) := by
  air_simp hop h
  intro i hi
  interval_cases i <;> simp_all [permMovup]

theorem air_sound_movdn4 (cur nxt : Row F) (hop : cur.opcode = 17) (h : Holds cur nxt) :
    ∀ i, i < 16 → nxt.st i = cur.st (permMovdn 4 i) := by
  air_simp hop h
  intro i hi
  interval_cases i <;> simp_all [permMovdn]

theorem air_sound_movup5 (cur nxt : Row F) (hop : cur.opcode = 18) (h : Holds cur nxt) :
    ∀ i, i < 16 → nxt.st i = cur.st (permMovup 5 i) := by
  air_simp hop h
  intro i hi
  interval_cases i <;> simp_all [permMovup]

theorem air_sound_movdn5 (cur nxt : Row F) (hop : cur.opcode = 19) (h : Holds cur nxt) :
    ∀ i, i < 16 → nxt.st i = cur.st (permMovdn 5 i) := by
  air_simp hop h
  intro i hi
  interval_cases i <;> simp_all [permMovdn]

theorem air_sound_movup6 (cur nxt : Row F) (hop : cur.opcode = 20) (h : Holds cur nxt) :
    ∀ i, i < 16 → nxt.st i = cur.st (permMovup 6 i) := by
  air_simp hop h
  intro i hi
  interval_cases i <;> simp_all [permMovup]

theorem air_sound_movdn6 (cur nxt : Row F) (hop : cur.opcode = 21) (h : Holds cur nxt) :
    ∀ i, i < 16 → nxt.st i = cur.st (permMovdn 6 i) := by
  air_simp hop h
  intro i hi
  interval_cases i <;> simp_all [permMovdn]

theorem air_sound_movup7 (cur nxt : Row F) (hop : cur.opcode = 22) (h : Holds cur nxt) :
    ∀ i, i < 16 → nxt.st i = cur.st (permMovup 7 i) := by
  air_simp hop h
  intro i hi
  interval_cases i <;> simp_all [permMovup]

theorem air_sound_movdn7 (cur nxt : Row F) (hop : cur.opcode = 23) (h : Holds cur nxt) :
    ∀ i, i < 16 → nxt.st i = cur.st (permMovdn 7 i) := by
  air_simp hop h
  intro i hi
  interval_cases i <;> simp_all [permMovdn]

theorem air_sound_movup8 (cur nxt : Row F) (hop : cur.opcode = 26) (h : Holds cur nxt) :
    ∀ i, i < 16 → nxt.st i = cur.st (permMovup 8 i) := by
  air_simp hop h
  intro i hi
  interval_cases i <;> simp_all [permMovup]

theorem air_sound_movdn8 (cur nxt : Row F) (hop : cur.opcode = 27) (h : Holds cur nxt) :
    ∀ i, i < 16 → nxt.st i = cur.st (permMovdn 8 i) := by
  air_simp hop h
  intro i hi
  interval_cases i <;> simp_all [permMovdn]

theorem air_sound_swapw (cur nxt : Row F) (hop : cur.opcode = 24) (h : Holds cur nxt) :
    ∀ i, i < 16 → nxt.st i = cur.st (permSwap 0 4 4 i) := by
  air_simp hop h
  intro i hi
  interval_cases i <;> simp_all [permSwap]

theorem air_sound_swapw2 (cur nxt : Row F) (hop : cur.opcode = 28) (h : Holds cur nxt) :
    ∀ i, i < 16 → nxt.st i = cur.st (permSwap 0 8 4 i) := by
  air_simp hop h
  intro i hi
  interval_cases i <;> simp_all [permSwap]

theorem air_sound_swapw3 (cur nxt : Row F) (hop : cur.opcode = 29) (h : Holds cur nxt) :
    ∀ i, i < 16 → nxt.st i = cur.st (permSwap 0 12 4 i) := by
  air_simp hop h
  intro i hi
  interval_cases i <;> simp_all [permSwap]

theorem air_sound_swapdw (cur nxt : Row F) (hop : cur.opcode = 30) (h : Holds cur nxt) :
    ∀ i, i < 16 → nxt.st i = cur.st (permSwap 0 8 8 i) := by
  air_simp hop h
  intro i hi
  interval_cases i <;> simp_all [permSwap]

theorem air_sound_noop (cur nxt : Row F) (hop : cur.opcode = 0) (h : Holds cur nxt) :
    ∀ i, i < 16 → nxt.st i = cur.st (i) := by
  air_simp hop h
  intro i hi
  interval_cases i <;> simp_all

theorem air_sound_dup0 (cur nxt : Row F) (hop : cur.opcode = 49) (h : Holds cur nxt) :
    nxt.st 0 = cur.st 0 ∧ RightFrom cur nxt 0 ∧ nxt.b0 = cur.b0 + 1 ∧ nxt.b1 = cur.clk := by
  air_simp hop h
  exact ⟨hm, by shift_tac, by linear_combination ho.1, ho.2.2⟩

theorem air_sound_dup2 (cur nxt : Row F) (hop : cur.opcode = 51) (h : Holds cur nxt) :
    nxt.st 0 = cur.st 2 ∧ RightFrom cur nxt 0 ∧ nxt.b0 = cur.b0 + 1 ∧ nxt.b1 = cur.clk := by
  air_simp hop h
  exact ⟨hm, by shift_tac, by linear_combination ho.1, ho.2.2⟩

theorem air_sound_dup3 (cur nxt : Row F) (hop : cur.opcode = 52) (h : Holds cur nxt) :
    nxt.st 0 = cur.st 3 ∧ RightFrom cur nxt 0 ∧ nxt.b0 = cur.b0 + 1 ∧ nxt.b1 = cur.clk := by
  air_simp hop h
  exact ⟨hm, by shift_tac, by linear_combination ho.1, ho.2.2⟩

theorem air_sound_dup4 (cur nxt : Row F) (hop : cur.opcode = 53) (h : Holds cur nxt) :
    nxt.st 0 = cur.st 4 ∧ RightFrom cur nxt 0 ∧ nxt.b0 = cur.b0 + 1 ∧ nxt.b1 = cur.clk := by
  air_simp hop h
  exact ⟨hm, by shift_tac, by linear_combination ho.1, ho.2.2⟩

theorem air_sound_dup5 (cur nxt : Row F) (hop : cur.opcode = 54) (h : Holds cur nxt) :
    nxt.st 0 = cur.st 5 ∧ RightFrom cur nxt 0 ∧ nxt.b0 = cur.b0 + 1 ∧ nxt.b1 = cur.clk := by
  air_simp hop h
  exact ⟨hm, by shift_tac, by linear_combination ho.1, ho.2.2⟩

theorem air_sound_dup6 (cur nxt : Row F) (hop : cur.opcode = 55) (h : Holds cur nxt) :
    nxt.st 0 = cur.st 6 ∧ RightFrom cur nxt 0 ∧ nxt.b0 = cur.b0 + 1 ∧ nxt.b1 = cur.clk := by
  air_simp hop h
  exact ⟨hm, by shift_tac, by linear_combination ho.1, ho.2.2⟩

theorem air_sound_dup7 (cur nxt : Row F) (hop : cur.opcode = 56) (h : Holds cur nxt) :
    nxt.st 0 = cur.st 7 ∧ RightFrom cur nxt 0 ∧ nxt.b0 = cur.b0 + 1 ∧ nxt.b1 = cur.clk := by
  air_simp hop h
  exact ⟨hm, by shift_tac, by linear_combination ho.1, ho.2.2⟩

theorem air_sound_dup9 (cur nxt : Row F) (hop : cur.opcode = 57) (h : Holds cur nxt) :
    nxt.st 0 = cur.st 9 ∧ RightFrom cur nxt 0 ∧ nxt.b0 = cur.b0 + 1 ∧ nxt.b1 = cur.clk := by
  air_simp hop h
  exact ⟨hm, by shift_tac, by linear_combination ho.1, ho.2.2⟩

theorem air_sound_dup11 (cur nxt : Row F) (hop : cur.opcode = 58) (h : Holds cur nxt) :
    nxt.st 0 = cur.st 11 ∧ RightFrom cur nxt 0 ∧ nxt.b0 = cur.b0 + 1 ∧ nxt.b1 = cur.clk := by
  air_simp hop h
  exact ⟨hm, by shift_tac, by linear_combination ho.1, ho.2.2⟩

theorem air_sound_dup13 (cur nxt : Row F) (hop : cur.opcode = 59) (h : Holds cur nxt) :
    nxt.st 0 = cur.st 13 ∧ RightFrom cur nxt 0 ∧ nxt.b0 = cur.b0 + 1 ∧ nxt.b1 = cur.clk := by
  air_simp hop h
  exact ⟨hm, by shift_tac, by linear_combination ho.1, ho.2.2⟩

theorem air_sound_dup15 (cur nxt : Row F) (hop : cur.opcode = 60) (h : Holds cur nxt) :
    nxt.st 0 = cur.st 15 ∧ RightFrom cur nxt 0 ∧ nxt.b0 = cur.b0 + 1 ∧ nxt.b1 = cur.clk := by
  air_simp hop h
  exact ⟨hm, by shift_tac, by linear_combination ho.1, ho.2.2⟩

/-- Non-vacuity of the index maps. -/
example : (List.range 16).map (permMovup 3) = [3, 0, 1, 2, 4, 5, 6, 7, 8, 9, 10, 11, 12, 13, 14, 15] := by decide
example : (List.range 16).map (permMovdn 3) = [1, 2, 3, 0, 4, 5, 6, 7, 8, 9, 10, 11, 12, 13, 14, 15] := by decide
example : (List.range 16).map (permSwap 0 12 4) = [12, 13, 14, 15, 4, 5, 6, 7, 8, 9, 10, 11, 0, 1, 2, 3] := by decide

end Miden.C04
