/-
  C05 — instruction semantics match the instruction reference on every stack state.

  The per-instruction refinement theorems (`Miden.C05.refines_*`, one per instruction form, about the
  operation lists regenerated from the real assembler) live in `Props/C05Auto/P*.lean`; this file
  holds the stack-discipline theorems that hold for every operation sequence.
-/
import Miden.Props.C05Auto
import Miden.Lemmas.ExecInv
namespace Miden.C05
open Miden Miden.Vm

theorem runOps_append (a b : List Op) (vm : Vm) :
    runOps (a ++ b) vm = (match runOps a vm with | .error e => .error e | .ok v => runOps b v) := by
  induction a generalizing vm with
  | nil => rfl
  | cons op rest ih =>
    simp only [List.cons_append, runOps]
    cases vm.step op with
    | error e => rfl
    | ok v => exact ih v

/-- The stack depth never drops below 16, for every sequence of operations and every start state. -/
theorem depth_never_below_16 : ∀ (ops : List Op) (vm vm' : Vm), 16 ≤ vm.stack.length →
    runOps ops vm = .ok vm' → 16 ≤ vm'.stack.length
  | [], vm, vm', hl, h => by cases h; exact hl
  | op :: rest, vm, vm', hl, h => by
    simp only [runOps] at h
    split at h
    · cases h
    · rename_i v hs
      exact depth_never_below_16 rest v vm' (step_len hl hs) h

/-- At depth exactly 16 a left shift brings a zero in at the bottom. -/
theorem left_shift_brings_zero (vm : Vm) (x : Nat) (r : List Nat) (hs : vm.stack = x :: r)
    (hl : vm.stack.length = 16) : vm.step .drop = .ok { vm with stack := r ++ [0] } := by
  rw [step_drop vm x r hs]
  have : r.length = 15 := by rw [hs] at hl; simpa using hl
  simp [pad16, this]

/-- Elements pushed beyond position 15 come back in LIFO order: pushing any values onto a stack of
    depth ≥ 16 and dropping as many restores exactly the original stack (nothing below 15 is lost or
    reordered). -/
theorem overflow_is_lifo : ∀ (vs : List Nat) (vm : Vm), 16 ≤ vm.stack.length →
    runOps (vs.map Op.push ++ List.replicate vs.length Op.drop) vm = .ok vm
  | [], vm, _ => rfl
  | v :: vs, vm, hl => by
    have e : (v :: vs).map Op.push ++ List.replicate (v :: vs).length Op.drop
        = [Op.push v] ++ ((vs.map Op.push ++ List.replicate vs.length Op.drop) ++ [Op.drop]) := by
      simp [List.replicate_succ']
    rw [e, runOps_append]
    have hp : vm.step (.push v) = .ok { vm with stack := v :: vm.stack } := by
      simp [step, stepCore, setStack]
    simp only [runOps, hp]
    rw [runOps_append, overflow_is_lifo vs _ (by simp; omega)]
    simp only [runOps]
    rw [step_drop _ v vm.stack rfl]
    simp [pad16_of_ge hl]

-- Non-vacuity: a 17-deep stack, three pushes and three drops.
example : (runOps ([1, 2, 3].map Op.push ++ List.replicate 3 Op.drop)
    { stack := List.range 17 }).toOption.map (·.stack) = some (List.range 17) := by
  decide

end Miden.C05
