import Miden.Props.C05Auto.P0
import Miden.Props.C05Auto.P1
import Miden.Props.C05Auto.P2
import Miden.Props.C05Auto.P3
import Miden.Props.C05Auto.P4
