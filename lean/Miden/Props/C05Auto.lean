/-
  GENERATED at development time by tools/gen_c05_theorems.py (statements only follow a fixed
  template; the proofs are checked by Lean like any other).  One theorem per instruction form:
  the operations the real assembler emits (Generated/InstrOps.lean, regenerated on every run) refine
  the instruction reference (Spec/Instr.lean) on every stack of depth >= 16, with every other
  component of the machine state arbitrary.
-/
import Miden.Lemmas.InstrTac
namespace Miden.C05
open Miden Miden.Spec

theorem refines_assert : ∀ vm : Vm, 16 ≤ vm.stack.length →
    Refines (stackRun Generated.ops_assert vm) (sem (.assert 0) vm.stack) := by
  instr_tac Generated.ops_assert

theorem refines_assertz : ∀ vm : Vm, 16 ≤ vm.stack.length →
    Refines (stackRun Generated.ops_assertz vm) (sem (.assertz 0) vm.stack) := by
  instr_tac Generated.ops_assertz

theorem refines_assert_eq : ∀ vm : Vm, 16 ≤ vm.stack.length →
    Refines (stackRun Generated.ops_assert_eq vm) (sem (.assertEq 0) vm.stack) := by
  instr_tac Generated.ops_assert_eq

theorem refines_assert_eqw : ∀ vm : Vm, 16 ≤ vm.stack.length →
    Refines (stackRun Generated.ops_assert_eqw vm) (sem (.assertEqw 0) vm.stack) := by
  instr_tac Generated.ops_assert_eqw

theorem refines_assert_err_7 : ∀ vm : Vm, 16 ≤ vm.stack.length →
    Refines (stackRun Generated.ops_assert_err_7 vm) (sem (.assert 7) vm.stack) := by
  instr_tac Generated.ops_assert_err_7

theorem refines_assertz_err_8 : ∀ vm : Vm, 16 ≤ vm.stack.length →
    Refines (stackRun Generated.ops_assertz_err_8 vm) (sem (.assertz 8) vm.stack) := by
  instr_tac Generated.ops_assertz_err_8

theorem refines_assert_eq_err_9 : ∀ vm : Vm, 16 ≤ vm.stack.length →
    Refines (stackRun Generated.ops_assert_eq_err_9 vm) (sem (.assertEq 9) vm.stack) := by
  instr_tac Generated.ops_assert_eq_err_9

theorem refines_assert_eqw_err_4294967295 : ∀ vm : Vm, 16 ≤ vm.stack.length →
    Refines (stackRun Generated.ops_assert_eqw_err_4294967295 vm) (sem (.assertEqw 4294967295) vm.stack) := by
  instr_tac Generated.ops_assert_eqw_err_4294967295

theorem refines_add : ∀ vm : Vm, 16 ≤ vm.stack.length →
    Refines (stackRun Generated.ops_add vm) (sem .add vm.stack) := by
  instr_tac Generated.ops_add

theorem refines_sub : ∀ vm : Vm, 16 ≤ vm.stack.length →
    Refines (stackRun Generated.ops_sub vm) (sem .sub vm.stack) := by
  instr_tac Generated.ops_sub

theorem refines_mul : ∀ vm : Vm, 16 ≤ vm.stack.length →
    Refines (stackRun Generated.ops_mul vm) (sem .mul vm.stack) := by
  instr_tac Generated.ops_mul

theorem refines_div : ∀ vm : Vm, 16 ≤ vm.stack.length →
    Refines (stackRun Generated.ops_div vm) (sem .div vm.stack) := by
  instr_tac Generated.ops_div

theorem refines_neg : ∀ vm : Vm, 16 ≤ vm.stack.length →
    Refines (stackRun Generated.ops_neg vm) (sem .neg vm.stack) := by
  instr_tac Generated.ops_neg

theorem refines_inv : ∀ vm : Vm, 16 ≤ vm.stack.length →
    Refines (stackRun Generated.ops_inv vm) (sem .inv vm.stack) := by
  instr_tac Generated.ops_inv

theorem refines_pow2 : ∀ vm : Vm, 16 ≤ vm.stack.length →
    Refines (stackRun Generated.ops_pow2 vm) (sem .pow2 vm.stack) := by
  instr_tac Generated.ops_pow2

theorem refines_exp : ∀ vm : Vm, 16 ≤ vm.stack.length →
    Refines (stackRun Generated.ops_exp vm) (sem .exp vm.stack) := by
  instr_tac Generated.ops_exp

theorem refines_ilog2 : ∀ vm : Vm, 16 ≤ vm.stack.length →
    Refines (stackRun Generated.ops_ilog2 vm) (sem .ilog2 vm.stack) := by
  instr_tac Generated.ops_ilog2

theorem refines_not : ∀ vm : Vm, 16 ≤ vm.stack.length →
    Refines (stackRun Generated.ops_not vm) (sem .not vm.stack) := by
  instr_tac Generated.ops_not

theorem refines_and : ∀ vm : Vm, 16 ≤ vm.stack.length →
    Refines (stackRun Generated.ops_and vm) (sem .and vm.stack) := by
  instr_tac Generated.ops_and

theorem refines_or : ∀ vm : Vm, 16 ≤ vm.stack.length →
    Refines (stackRun Generated.ops_or vm) (sem .or vm.stack) := by
  instr_tac Generated.ops_or

theorem refines_xor : ∀ vm : Vm, 16 ≤ vm.stack.length →
    Refines (stackRun Generated.ops_xor vm) (sem .xor vm.stack) := by
  instr_tac Generated.ops_xor

theorem refines_eq : ∀ vm : Vm, 16 ≤ vm.stack.length →
    Refines (stackRun Generated.ops_eq vm) (sem .eq vm.stack) := by
  instr_tac Generated.ops_eq

theorem refines_neq : ∀ vm : Vm, 16 ≤ vm.stack.length →
    Refines (stackRun Generated.ops_neq vm) (sem .neq vm.stack) := by
  instr_tac Generated.ops_neq

theorem refines_lt : ∀ vm : Vm, 16 ≤ vm.stack.length →
    Refines (stackRun Generated.ops_lt vm) (sem .lt vm.stack) := by
  instr_tac Generated.ops_lt

theorem refines_lte : ∀ vm : Vm, 16 ≤ vm.stack.length →
    Refines (stackRun Generated.ops_lte vm) (sem .lte vm.stack) := by
  instr_tac Generated.ops_lte

theorem refines_gt : ∀ vm : Vm, 16 ≤ vm.stack.length →
    Refines (stackRun Generated.ops_gt vm) (sem .gt vm.stack) := by
  instr_tac Generated.ops_gt

theorem refines_gte : ∀ vm : Vm, 16 ≤ vm.stack.length →
    Refines (stackRun Generated.ops_gte vm) (sem .gte vm.stack) := by
  instr_tac Generated.ops_gte

theorem refines_is_odd : ∀ vm : Vm, 16 ≤ vm.stack.length →
    Refines (stackRun Generated.ops_is_odd vm) (sem .isOdd vm.stack) := by
  instr_tac Generated.ops_is_odd

theorem refines_eqw : ∀ vm : Vm, 16 ≤ vm.stack.length →
    Refines (stackRun Generated.ops_eqw vm) (sem .eqw vm.stack) := by
  instr_tac Generated.ops_eqw

theorem refines_ext2add : ∀ vm : Vm, 16 ≤ vm.stack.length →
    Refines (stackRun Generated.ops_ext2add vm) (sem .ext2add vm.stack) := by
  instr_tac Generated.ops_ext2add

theorem refines_ext2sub : ∀ vm : Vm, 16 ≤ vm.stack.length →
    Refines (stackRun Generated.ops_ext2sub vm) (sem .ext2sub vm.stack) := by
  instr_tac Generated.ops_ext2sub

theorem refines_ext2mul : ∀ vm : Vm, 16 ≤ vm.stack.length →
    Refines (stackRun Generated.ops_ext2mul vm) (sem .ext2mul vm.stack) := by
  instr_tac Generated.ops_ext2mul

theorem refines_ext2div : ∀ vm : Vm, 16 ≤ vm.stack.length →
    Refines (stackRun Generated.ops_ext2div vm) (sem .ext2div vm.stack) := by
  instr_tac Generated.ops_ext2div

theorem refines_ext2neg : ∀ vm : Vm, 16 ≤ vm.stack.length →
    Refines (stackRun Generated.ops_ext2neg vm) (sem .ext2neg vm.stack) := by
  instr_tac Generated.ops_ext2neg

theorem refines_ext2inv : ∀ vm : Vm, 16 ≤ vm.stack.length →
    Refines (stackRun Generated.ops_ext2inv vm) (sem .ext2inv vm.stack) := by
  instr_tac Generated.ops_ext2inv

theorem refines_u32test : ∀ vm : Vm, 16 ≤ vm.stack.length →
    Refines (stackRun Generated.ops_u32test vm) (sem .u32test vm.stack) := by
  instr_tac Generated.ops_u32test

theorem refines_u32testw : ∀ vm : Vm, 16 ≤ vm.stack.length →
    Refines (stackRun Generated.ops_u32testw vm) (sem .u32testw vm.stack) := by
  instr_tac Generated.ops_u32testw

theorem refines_u32assert : ∀ vm : Vm, 16 ≤ vm.stack.length →
    Refines (stackRun Generated.ops_u32assert vm) (sem (.u32assert 0) vm.stack) := by
  instr_tac Generated.ops_u32assert

theorem refines_u32assert2 : ∀ vm : Vm, 16 ≤ vm.stack.length →
    Refines (stackRun Generated.ops_u32assert2 vm) (sem (.u32assert2 0) vm.stack) := by
  instr_tac Generated.ops_u32assert2

theorem refines_u32assertw : ∀ vm : Vm, 16 ≤ vm.stack.length →
    Refines (stackRun Generated.ops_u32assertw vm) (sem (.u32assertw 0) vm.stack) := by
  instr_tac Generated.ops_u32assertw

theorem refines_u32assert_err_3 : ∀ vm : Vm, 16 ≤ vm.stack.length →
    Refines (stackRun Generated.ops_u32assert_err_3 vm) (sem (.u32assert 3) vm.stack) := by
  instr_tac Generated.ops_u32assert_err_3

theorem refines_u32assert2_err_5 : ∀ vm : Vm, 16 ≤ vm.stack.length →
    Refines (stackRun Generated.ops_u32assert2_err_5 vm) (sem (.u32assert2 5) vm.stack) := by
  instr_tac Generated.ops_u32assert2_err_5

theorem refines_u32assertw_err_6 : ∀ vm : Vm, 16 ≤ vm.stack.length →
    Refines (stackRun Generated.ops_u32assertw_err_6 vm) (sem (.u32assertw 6) vm.stack) := by
  instr_tac Generated.ops_u32assertw_err_6

theorem refines_u32cast : ∀ vm : Vm, 16 ≤ vm.stack.length →
    Refines (stackRun Generated.ops_u32cast vm) (sem .u32cast vm.stack) := by
  instr_tac Generated.ops_u32cast

theorem refines_u32split : ∀ vm : Vm, 16 ≤ vm.stack.length →
    Refines (stackRun Generated.ops_u32split vm) (sem .u32split vm.stack) := by
  instr_tac Generated.ops_u32split

theorem refines_u32wrapping_add : ∀ vm : Vm, 16 ≤ vm.stack.length →
    Refines (stackRun Generated.ops_u32wrapping_add vm) (sem .u32wrappingAdd vm.stack) := by
  instr_tac Generated.ops_u32wrapping_add

theorem refines_u32overflowing_add : ∀ vm : Vm, 16 ≤ vm.stack.length →
    Refines (stackRun Generated.ops_u32overflowing_add vm) (sem .u32overflowingAdd vm.stack) := by
  instr_tac Generated.ops_u32overflowing_add

theorem refines_u32overflowing_add3 : ∀ vm : Vm, 16 ≤ vm.stack.length →
    Refines (stackRun Generated.ops_u32overflowing_add3 vm) (sem .u32overflowingAdd3 vm.stack) := by
  instr_tac Generated.ops_u32overflowing_add3

theorem refines_u32wrapping_add3 : ∀ vm : Vm, 16 ≤ vm.stack.length →
    Refines (stackRun Generated.ops_u32wrapping_add3 vm) (sem .u32wrappingAdd3 vm.stack) := by
  instr_tac Generated.ops_u32wrapping_add3

theorem refines_u32wrapping_sub : ∀ vm : Vm, 16 ≤ vm.stack.length →
    Refines (stackRun Generated.ops_u32wrapping_sub vm) (sem .u32wrappingSub vm.stack) := by
  instr_tac Generated.ops_u32wrapping_sub

theorem refines_u32overflowing_sub : ∀ vm : Vm, 16 ≤ vm.stack.length →
    Refines (stackRun Generated.ops_u32overflowing_sub vm) (sem .u32overflowingSub vm.stack) := by
  instr_tac Generated.ops_u32overflowing_sub

theorem refines_u32wrapping_mul : ∀ vm : Vm, 16 ≤ vm.stack.length →
    Refines (stackRun Generated.ops_u32wrapping_mul vm) (sem .u32wrappingMul vm.stack) := by
  instr_tac Generated.ops_u32wrapping_mul

theorem refines_u32overflowing_mul : ∀ vm : Vm, 16 ≤ vm.stack.length →
    Refines (stackRun Generated.ops_u32overflowing_mul vm) (sem .u32overflowingMul vm.stack) := by
  instr_tac Generated.ops_u32overflowing_mul

theorem refines_u32overflowing_madd : ∀ vm : Vm, 16 ≤ vm.stack.length →
    Refines (stackRun Generated.ops_u32overflowing_madd vm) (sem .u32overflowingMadd vm.stack) := by
  instr_tac Generated.ops_u32overflowing_madd

theorem refines_u32wrapping_madd : ∀ vm : Vm, 16 ≤ vm.stack.length →
    Refines (stackRun Generated.ops_u32wrapping_madd vm) (sem .u32wrappingMadd vm.stack) := by
  instr_tac Generated.ops_u32wrapping_madd

theorem refines_u32div : ∀ vm : Vm, 16 ≤ vm.stack.length →
    Refines (stackRun Generated.ops_u32div vm) (sem .u32div vm.stack) := by
  instr_tac Generated.ops_u32div

theorem refines_u32mod : ∀ vm : Vm, 16 ≤ vm.stack.length →
    Refines (stackRun Generated.ops_u32mod vm) (sem .u32mod vm.stack) := by
  instr_tac Generated.ops_u32mod

theorem refines_u32divmod : ∀ vm : Vm, 16 ≤ vm.stack.length →
    Refines (stackRun Generated.ops_u32divmod vm) (sem .u32divmod vm.stack) := by
  instr_tac Generated.ops_u32divmod

theorem refines_u32and : ∀ vm : Vm, 16 ≤ vm.stack.length →
    Refines (stackRun Generated.ops_u32and vm) (sem .u32and vm.stack) := by
  instr_tac Generated.ops_u32and

theorem refines_u32or : ∀ vm : Vm, 16 ≤ vm.stack.length →
    Refines (stackRun Generated.ops_u32or vm) (sem .u32or vm.stack) := by
  instr_tac Generated.ops_u32or

theorem refines_u32xor : ∀ vm : Vm, 16 ≤ vm.stack.length →
    Refines (stackRun Generated.ops_u32xor vm) (sem .u32xor vm.stack) := by
  instr_tac Generated.ops_u32xor

theorem refines_u32not : ∀ vm : Vm, 16 ≤ vm.stack.length →
    Refines (stackRun Generated.ops_u32not vm) (sem .u32not vm.stack) := by
  instr_tac Generated.ops_u32not

theorem refines_u32shl : ∀ vm : Vm, 16 ≤ vm.stack.length →
    Refines (stackRun Generated.ops_u32shl vm) (sem .u32shl vm.stack) := by
  instr_tac Generated.ops_u32shl

theorem refines_u32shr : ∀ vm : Vm, 16 ≤ vm.stack.length →
    Refines (stackRun Generated.ops_u32shr vm) (sem .u32shr vm.stack) := by
  instr_tac Generated.ops_u32shr

theorem refines_u32rotl : ∀ vm : Vm, 16 ≤ vm.stack.length →
    Refines (stackRun Generated.ops_u32rotl vm) (sem .u32rotl vm.stack) := by
  instr_tac Generated.ops_u32rotl

theorem refines_u32rotr : ∀ vm : Vm, 16 ≤ vm.stack.length →
    Refines (stackRun Generated.ops_u32rotr vm) (sem .u32rotr vm.stack) := by
  instr_tac Generated.ops_u32rotr

theorem refines_u32popcnt : ∀ vm : Vm, 16 ≤ vm.stack.length →
    Refines (stackRun Generated.ops_u32popcnt vm) (sem .u32popcnt vm.stack) := by
  instr_tac Generated.ops_u32popcnt

theorem refines_u32clz : ∀ vm : Vm, 16 ≤ vm.stack.length →
    Refines (stackRun Generated.ops_u32clz vm) (sem .u32clz vm.stack) := by
  instr_tac Generated.ops_u32clz

theorem refines_u32ctz : ∀ vm : Vm, 16 ≤ vm.stack.length →
    Refines (stackRun Generated.ops_u32ctz vm) (sem .u32ctz vm.stack) := by
  instr_tac Generated.ops_u32ctz

theorem refines_u32clo : ∀ vm : Vm, 16 ≤ vm.stack.length →
    Refines (stackRun Generated.ops_u32clo vm) (sem .u32clo vm.stack) := by
  instr_tac Generated.ops_u32clo

theorem refines_u32cto : ∀ vm : Vm, 16 ≤ vm.stack.length →
    Refines (stackRun Generated.ops_u32cto vm) (sem .u32cto vm.stack) := by
  instr_tac Generated.ops_u32cto

theorem refines_u32lt : ∀ vm : Vm, 16 ≤ vm.stack.length →
    Refines (stackRun Generated.ops_u32lt vm) (sem .u32lt vm.stack) := by
  instr_tac Generated.ops_u32lt

theorem refines_u32lte : ∀ vm : Vm, 16 ≤ vm.stack.length →
    Refines (stackRun Generated.ops_u32lte vm) (sem .u32lte vm.stack) := by
  instr_tac Generated.ops_u32lte

theorem refines_u32gt : ∀ vm : Vm, 16 ≤ vm.stack.length →
    Refines (stackRun Generated.ops_u32gt vm) (sem .u32gt vm.stack) := by
  instr_tac Generated.ops_u32gt

theorem refines_u32gte : ∀ vm : Vm, 16 ≤ vm.stack.length →
    Refines (stackRun Generated.ops_u32gte vm) (sem .u32gte vm.stack) := by
  instr_tac Generated.ops_u32gte

theorem refines_u32min : ∀ vm : Vm, 16 ≤ vm.stack.length →
    Refines (stackRun Generated.ops_u32min vm) (sem .u32min vm.stack) := by
  instr_tac Generated.ops_u32min

theorem refines_u32max : ∀ vm : Vm, 16 ≤ vm.stack.length →
    Refines (stackRun Generated.ops_u32max vm) (sem .u32max vm.stack) := by
  instr_tac Generated.ops_u32max

theorem refines_drop : ∀ vm : Vm, 16 ≤ vm.stack.length →
    Refines (stackRun Generated.ops_drop vm) (sem .drop vm.stack) := by
  instr_tac Generated.ops_drop

theorem refines_dropw : ∀ vm : Vm, 16 ≤ vm.stack.length →
    Refines (stackRun Generated.ops_dropw vm) (sem .dropw vm.stack) := by
  instr_tac Generated.ops_dropw

theorem refines_padw : ∀ vm : Vm, 16 ≤ vm.stack.length →
    Refines (stackRun Generated.ops_padw vm) (sem .padw vm.stack) := by
  instr_tac Generated.ops_padw

theorem refines_dup : ∀ vm : Vm, 16 ≤ vm.stack.length →
    Refines (stackRun Generated.ops_dup vm) (sem (.dup 0) vm.stack) := by
  instr_tac Generated.ops_dup

theorem refines_dupw : ∀ vm : Vm, 16 ≤ vm.stack.length →
    Refines (stackRun Generated.ops_dupw vm) (sem (.dupw 0) vm.stack) := by
  instr_tac Generated.ops_dupw

theorem refines_swap : ∀ vm : Vm, 16 ≤ vm.stack.length →
    Refines (stackRun Generated.ops_swap vm) (sem (.swap 1) vm.stack) := by
  instr_tac Generated.ops_swap

theorem refines_swapw : ∀ vm : Vm, 16 ≤ vm.stack.length →
    Refines (stackRun Generated.ops_swapw vm) (sem (.swapw 1) vm.stack) := by
  instr_tac Generated.ops_swapw

theorem refines_swapdw : ∀ vm : Vm, 16 ≤ vm.stack.length →
    Refines (stackRun Generated.ops_swapdw vm) (sem .swapdw vm.stack) := by
  instr_tac Generated.ops_swapdw

theorem refines_cswap : ∀ vm : Vm, 16 ≤ vm.stack.length →
    Refines (stackRun Generated.ops_cswap vm) (sem .cswap vm.stack) := by
  instr_tac Generated.ops_cswap

theorem refines_cswapw : ∀ vm : Vm, 16 ≤ vm.stack.length →
    Refines (stackRun Generated.ops_cswapw vm) (sem .cswapw vm.stack) := by
  instr_tac Generated.ops_cswapw

theorem refines_cdrop : ∀ vm : Vm, 16 ≤ vm.stack.length →
    Refines (stackRun Generated.ops_cdrop vm) (sem .cdrop vm.stack) := by
  instr_tac Generated.ops_cdrop

theorem refines_cdropw : ∀ vm : Vm, 16 ≤ vm.stack.length →
    Refines (stackRun Generated.ops_cdropw vm) (sem .cdropw vm.stack) := by
  instr_tac Generated.ops_cdropw

theorem refines_sdepth : ∀ vm : Vm, 16 ≤ vm.stack.length →
    Refines (stackRun Generated.ops_sdepth vm) (sem .sdepth vm.stack) := by
  instr_tac Generated.ops_sdepth

theorem refines_dup_0 : ∀ vm : Vm, 16 ≤ vm.stack.length →
    Refines (stackRun Generated.ops_dup_0 vm) (sem (.dup 0) vm.stack) := by
  instr_tac Generated.ops_dup_0

theorem refines_dup_1 : ∀ vm : Vm, 16 ≤ vm.stack.length →
    Refines (stackRun Generated.ops_dup_1 vm) (sem (.dup 1) vm.stack) := by
  instr_tac Generated.ops_dup_1

theorem refines_dup_2 : ∀ vm : Vm, 16 ≤ vm.stack.length →
    Refines (stackRun Generated.ops_dup_2 vm) (sem (.dup 2) vm.stack) := by
  instr_tac Generated.ops_dup_2

theorem refines_dup_3 : ∀ vm : Vm, 16 ≤ vm.stack.length →
    Refines (stackRun Generated.ops_dup_3 vm) (sem (.dup 3) vm.stack) := by
  instr_tac Generated.ops_dup_3

theorem refines_dup_4 : ∀ vm : Vm, 16 ≤ vm.stack.length →
    Refines (stackRun Generated.ops_dup_4 vm) (sem (.dup 4) vm.stack) := by
  instr_tac Generated.ops_dup_4

theorem refines_dup_5 : ∀ vm : Vm, 16 ≤ vm.stack.length →
    Refines (stackRun Generated.ops_dup_5 vm) (sem (.dup 5) vm.stack) := by
  instr_tac Generated.ops_dup_5

theorem refines_dup_6 : ∀ vm : Vm, 16 ≤ vm.stack.length →
    Refines (stackRun Generated.ops_dup_6 vm) (sem (.dup 6) vm.stack) := by
  instr_tac Generated.ops_dup_6

theorem refines_dup_7 : ∀ vm : Vm, 16 ≤ vm.stack.length →
    Refines (stackRun Generated.ops_dup_7 vm) (sem (.dup 7) vm.stack) := by
  instr_tac Generated.ops_dup_7

theorem refines_dup_8 : ∀ vm : Vm, 16 ≤ vm.stack.length →
    Refines (stackRun Generated.ops_dup_8 vm) (sem (.dup 8) vm.stack) := by
  instr_tac Generated.ops_dup_8

theorem refines_dup_9 : ∀ vm : Vm, 16 ≤ vm.stack.length →
    Refines (stackRun Generated.ops_dup_9 vm) (sem (.dup 9) vm.stack) := by
  instr_tac Generated.ops_dup_9

theorem refines_dup_10 : ∀ vm : Vm, 16 ≤ vm.stack.length →
    Refines (stackRun Generated.ops_dup_10 vm) (sem (.dup 10) vm.stack) := by
  instr_tac Generated.ops_dup_10

theorem refines_dup_11 : ∀ vm : Vm, 16 ≤ vm.stack.length →
    Refines (stackRun Generated.ops_dup_11 vm) (sem (.dup 11) vm.stack) := by
  instr_tac Generated.ops_dup_11

theorem refines_dup_12 : ∀ vm : Vm, 16 ≤ vm.stack.length →
    Refines (stackRun Generated.ops_dup_12 vm) (sem (.dup 12) vm.stack) := by
  instr_tac Generated.ops_dup_12

theorem refines_dup_13 : ∀ vm : Vm, 16 ≤ vm.stack.length →
    Refines (stackRun Generated.ops_dup_13 vm) (sem (.dup 13) vm.stack) := by
  instr_tac Generated.ops_dup_13

theorem refines_dup_14 : ∀ vm : Vm, 16 ≤ vm.stack.length →
    Refines (stackRun Generated.ops_dup_14 vm) (sem (.dup 14) vm.stack) := by
  instr_tac Generated.ops_dup_14

theorem refines_dup_15 : ∀ vm : Vm, 16 ≤ vm.stack.length →
    Refines (stackRun Generated.ops_dup_15 vm) (sem (.dup 15) vm.stack) := by
  instr_tac Generated.ops_dup_15

theorem refines_dupw_0 : ∀ vm : Vm, 16 ≤ vm.stack.length →
    Refines (stackRun Generated.ops_dupw_0 vm) (sem (.dupw 0) vm.stack) := by
  instr_tac Generated.ops_dupw_0

theorem refines_dupw_1 : ∀ vm : Vm, 16 ≤ vm.stack.length →
    Refines (stackRun Generated.ops_dupw_1 vm) (sem (.dupw 1) vm.stack) := by
  instr_tac Generated.ops_dupw_1

theorem refines_dupw_2 : ∀ vm : Vm, 16 ≤ vm.stack.length →
    Refines (stackRun Generated.ops_dupw_2 vm) (sem (.dupw 2) vm.stack) := by
  instr_tac Generated.ops_dupw_2

theorem refines_dupw_3 : ∀ vm : Vm, 16 ≤ vm.stack.length →
    Refines (stackRun Generated.ops_dupw_3 vm) (sem (.dupw 3) vm.stack) := by
  instr_tac Generated.ops_dupw_3

theorem refines_swap_1 : ∀ vm : Vm, 16 ≤ vm.stack.length →
    Refines (stackRun Generated.ops_swap_1 vm) (sem (.swap 1) vm.stack) := by
  instr_tac Generated.ops_swap_1

theorem refines_swap_2 : ∀ vm : Vm, 16 ≤ vm.stack.length →
    Refines (stackRun Generated.ops_swap_2 vm) (sem (.swap 2) vm.stack) := by
  instr_tac Generated.ops_swap_2

theorem refines_swap_3 : ∀ vm : Vm, 16 ≤ vm.stack.length →
    Refines (stackRun Generated.ops_swap_3 vm) (sem (.swap 3) vm.stack) := by
  instr_tac Generated.ops_swap_3

theorem refines_swap_4 : ∀ vm : Vm, 16 ≤ vm.stack.length →
    Refines (stackRun Generated.ops_swap_4 vm) (sem (.swap 4) vm.stack) := by
  instr_tac Generated.ops_swap_4

theorem refines_swap_5 : ∀ vm : Vm, 16 ≤ vm.stack.length →
    Refines (stackRun Generated.ops_swap_5 vm) (sem (.swap 5) vm.stack) := by
  instr_tac Generated.ops_swap_5

theorem refines_swap_6 : ∀ vm : Vm, 16 ≤ vm.stack.length →
    Refines (stackRun Generated.ops_swap_6 vm) (sem (.swap 6) vm.stack) := by
  instr_tac Generated.ops_swap_6

theorem refines_swap_7 : ∀ vm : Vm, 16 ≤ vm.stack.length →
    Refines (stackRun Generated.ops_swap_7 vm) (sem (.swap 7) vm.stack) := by
  instr_tac Generated.ops_swap_7

theorem refines_swap_8 : ∀ vm : Vm, 16 ≤ vm.stack.length →
    Refines (stackRun Generated.ops_swap_8 vm) (sem (.swap 8) vm.stack) := by
  instr_tac Generated.ops_swap_8

theorem refines_swap_9 : ∀ vm : Vm, 16 ≤ vm.stack.length →
    Refines (stackRun Generated.ops_swap_9 vm) (sem (.swap 9) vm.stack) := by
  instr_tac Generated.ops_swap_9

theorem refines_swap_10 : ∀ vm : Vm, 16 ≤ vm.stack.length →
    Refines (stackRun Generated.ops_swap_10 vm) (sem (.swap 10) vm.stack) := by
  instr_tac Generated.ops_swap_10

theorem refines_swap_11 : ∀ vm : Vm, 16 ≤ vm.stack.length →
    Refines (stackRun Generated.ops_swap_11 vm) (sem (.swap 11) vm.stack) := by
  instr_tac Generated.ops_swap_11

theorem refines_swap_12 : ∀ vm : Vm, 16 ≤ vm.stack.length →
    Refines (stackRun Generated.ops_swap_12 vm) (sem (.swap 12) vm.stack) := by
  instr_tac Generated.ops_swap_12

theorem refines_swap_13 : ∀ vm : Vm, 16 ≤ vm.stack.length →
    Refines (stackRun Generated.ops_swap_13 vm) (sem (.swap 13) vm.stack) := by
  instr_tac Generated.ops_swap_13

theorem refines_swap_14 : ∀ vm : Vm, 16 ≤ vm.stack.length →
    Refines (stackRun Generated.ops_swap_14 vm) (sem (.swap 14) vm.stack) := by
  instr_tac Generated.ops_swap_14

theorem refines_swap_15 : ∀ vm : Vm, 16 ≤ vm.stack.length →
    Refines (stackRun Generated.ops_swap_15 vm) (sem (.swap 15) vm.stack) := by
  instr_tac Generated.ops_swap_15

theorem refines_swapw_1 : ∀ vm : Vm, 16 ≤ vm.stack.length →
    Refines (stackRun Generated.ops_swapw_1 vm) (sem (.swapw 1) vm.stack) := by
  instr_tac Generated.ops_swapw_1

theorem refines_swapw_2 : ∀ vm : Vm, 16 ≤ vm.stack.length →
    Refines (stackRun Generated.ops_swapw_2 vm) (sem (.swapw 2) vm.stack) := by
  instr_tac Generated.ops_swapw_2

theorem refines_swapw_3 : ∀ vm : Vm, 16 ≤ vm.stack.length →
    Refines (stackRun Generated.ops_swapw_3 vm) (sem (.swapw 3) vm.stack) := by
  instr_tac Generated.ops_swapw_3

theorem refines_movup_2 : ∀ vm : Vm, 16 ≤ vm.stack.length →
    Refines (stackRun Generated.ops_movup_2 vm) (sem (.movup 2) vm.stack) := by
  instr_tac Generated.ops_movup_2

theorem refines_movdn_2 : ∀ vm : Vm, 16 ≤ vm.stack.length →
    Refines (stackRun Generated.ops_movdn_2 vm) (sem (.movdn 2) vm.stack) := by
  instr_tac Generated.ops_movdn_2

theorem refines_movup_3 : ∀ vm : Vm, 16 ≤ vm.stack.length →
    Refines (stackRun Generated.ops_movup_3 vm) (sem (.movup 3) vm.stack) := by
  instr_tac Generated.ops_movup_3

theorem refines_movdn_3 : ∀ vm : Vm, 16 ≤ vm.stack.length →
    Refines (stackRun Generated.ops_movdn_3 vm) (sem (.movdn 3) vm.stack) := by
  instr_tac Generated.ops_movdn_3

theorem refines_movup_4 : ∀ vm : Vm, 16 ≤ vm.stack.length →
    Refines (stackRun Generated.ops_movup_4 vm) (sem (.movup 4) vm.stack) := by
  instr_tac Generated.ops_movup_4

theorem refines_movdn_4 : ∀ vm : Vm, 16 ≤ vm.stack.length →
    Refines (stackRun Generated.ops_movdn_4 vm) (sem (.movdn 4) vm.stack) := by
  instr_tac Generated.ops_movdn_4

theorem refines_movup_5 : ∀ vm : Vm, 16 ≤ vm.stack.length →
    Refines (stackRun Generated.ops_movup_5 vm) (sem (.movup 5) vm.stack) := by
  instr_tac Generated.ops_movup_5

theorem refines_movdn_5 : ∀ vm : Vm, 16 ≤ vm.stack.length →
    Refines (stackRun Generated.ops_movdn_5 vm) (sem (.movdn 5) vm.stack) := by
  instr_tac Generated.ops_movdn_5

theorem refines_movup_6 : ∀ vm : Vm, 16 ≤ vm.stack.length →
    Refines (stackRun Generated.ops_movup_6 vm) (sem (.movup 6) vm.stack) := by
  instr_tac Generated.ops_movup_6

theorem refines_movdn_6 : ∀ vm : Vm, 16 ≤ vm.stack.length →
    Refines (stackRun Generated.ops_movdn_6 vm) (sem (.movdn 6) vm.stack) := by
  instr_tac Generated.ops_movdn_6

theorem refines_movup_7 : ∀ vm : Vm, 16 ≤ vm.stack.length →
    Refines (stackRun Generated.ops_movup_7 vm) (sem (.movup 7) vm.stack) := by
  instr_tac Generated.ops_movup_7

theorem refines_movdn_7 : ∀ vm : Vm, 16 ≤ vm.stack.length →
    Refines (stackRun Generated.ops_movdn_7 vm) (sem (.movdn 7) vm.stack) := by
  instr_tac Generated.ops_movdn_7

theorem refines_movup_8 : ∀ vm : Vm, 16 ≤ vm.stack.length →
    Refines (stackRun Generated.ops_movup_8 vm) (sem (.movup 8) vm.stack) := by
  instr_tac Generated.ops_movup_8

theorem refines_movdn_8 : ∀ vm : Vm, 16 ≤ vm.stack.length →
    Refines (stackRun Generated.ops_movdn_8 vm) (sem (.movdn 8) vm.stack) := by
  instr_tac Generated.ops_movdn_8

theorem refines_movup_9 : ∀ vm : Vm, 16 ≤ vm.stack.length →
    Refines (stackRun Generated.ops_movup_9 vm) (sem (.movup 9) vm.stack) := by
  instr_tac Generated.ops_movup_9

theorem refines_movdn_9 : ∀ vm : Vm, 16 ≤ vm.stack.length →
    Refines (stackRun Generated.ops_movdn_9 vm) (sem (.movdn 9) vm.stack) := by
  instr_tac Generated.ops_movdn_9

theorem refines_movup_10 : ∀ vm : Vm, 16 ≤ vm.stack.length →
    Refines (stackRun Generated.ops_movup_10 vm) (sem (.movup 10) vm.stack) := by
  instr_tac Generated.ops_movup_10

theorem refines_movdn_10 : ∀ vm : Vm, 16 ≤ vm.stack.length →
    Refines (stackRun Generated.ops_movdn_10 vm) (sem (.movdn 10) vm.stack) := by
  instr_tac Generated.ops_movdn_10

theorem refines_movup_11 : ∀ vm : Vm, 16 ≤ vm.stack.length →
    Refines (stackRun Generated.ops_movup_11 vm) (sem (.movup 11) vm.stack) := by
  instr_tac Generated.ops_movup_11

theorem refines_movdn_11 : ∀ vm : Vm, 16 ≤ vm.stack.length →
    Refines (stackRun Generated.ops_movdn_11 vm) (sem (.movdn 11) vm.stack) := by
  instr_tac Generated.ops_movdn_11

theorem refines_movup_12 : ∀ vm : Vm, 16 ≤ vm.stack.length →
    Refines (stackRun Generated.ops_movup_12 vm) (sem (.movup 12) vm.stack) := by
  instr_tac Generated.ops_movup_12

theorem refines_movdn_12 : ∀ vm : Vm, 16 ≤ vm.stack.length →
    Refines (stackRun Generated.ops_movdn_12 vm) (sem (.movdn 12) vm.stack) := by
  instr_tac Generated.ops_movdn_12

theorem refines_movup_13 : ∀ vm : Vm, 16 ≤ vm.stack.length →
    Refines (stackRun Generated.ops_movup_13 vm) (sem (.movup 13) vm.stack) := by
  instr_tac Generated.ops_movup_13

theorem refines_movdn_13 : ∀ vm : Vm, 16 ≤ vm.stack.length →
    Refines (stackRun Generated.ops_movdn_13 vm) (sem (.movdn 13) vm.stack) := by
  instr_tac Generated.ops_movdn_13

theorem refines_movup_14 : ∀ vm : Vm, 16 ≤ vm.stack.length →
    Refines (stackRun Generated.ops_movup_14 vm) (sem (.movup 14) vm.stack) := by
  instr_tac Generated.ops_movup_14

theorem refines_movdn_14 : ∀ vm : Vm, 16 ≤ vm.stack.length →
    Refines (stackRun Generated.ops_movdn_14 vm) (sem (.movdn 14) vm.stack) := by
  instr_tac Generated.ops_movdn_14

theorem refines_movup_15 : ∀ vm : Vm, 16 ≤ vm.stack.length →
    Refines (stackRun Generated.ops_movup_15 vm) (sem (.movup 15) vm.stack) := by
  instr_tac Generated.ops_movup_15

theorem refines_movdn_15 : ∀ vm : Vm, 16 ≤ vm.stack.length →
    Refines (stackRun Generated.ops_movdn_15 vm) (sem (.movdn 15) vm.stack) := by
  instr_tac Generated.ops_movdn_15

theorem refines_movupw_2 : ∀ vm : Vm, 16 ≤ vm.stack.length →
    Refines (stackRun Generated.ops_movupw_2 vm) (sem (.movupw 2) vm.stack) := by
  instr_tac Generated.ops_movupw_2

theorem refines_movdnw_2 : ∀ vm : Vm, 16 ≤ vm.stack.length →
    Refines (stackRun Generated.ops_movdnw_2 vm) (sem (.movdnw 2) vm.stack) := by
  instr_tac Generated.ops_movdnw_2

theorem refines_movupw_3 : ∀ vm : Vm, 16 ≤ vm.stack.length →
    Refines (stackRun Generated.ops_movupw_3 vm) (sem (.movupw 3) vm.stack) := by
  instr_tac Generated.ops_movupw_3

theorem refines_movdnw_3 : ∀ vm : Vm, 16 ≤ vm.stack.length →
    Refines (stackRun Generated.ops_movdnw_3 vm) (sem (.movdnw 3) vm.stack) := by
  instr_tac Generated.ops_movdnw_3

theorem refines_u32shl_0 : ∀ vm : Vm, 16 ≤ vm.stack.length →
    Refines (stackRun Generated.ops_u32shl_0 vm) (sem (.u32shlImm 0) vm.stack) := by
  instr_tac Generated.ops_u32shl_0

theorem refines_u32shr_0 : ∀ vm : Vm, 16 ≤ vm.stack.length →
    Refines (stackRun Generated.ops_u32shr_0 vm) (sem (.u32shrImm 0) vm.stack) := by
  instr_tac Generated.ops_u32shr_0

theorem refines_u32rotl_0 : ∀ vm : Vm, 16 ≤ vm.stack.length →
    Refines (stackRun Generated.ops_u32rotl_0 vm) (sem (.u32rotlImm 0) vm.stack) := by
  instr_tac Generated.ops_u32rotl_0

theorem refines_u32rotr_0 : ∀ vm : Vm, 16 ≤ vm.stack.length →
    Refines (stackRun Generated.ops_u32rotr_0 vm) (sem (.u32rotrImm 0) vm.stack) := by
  instr_tac Generated.ops_u32rotr_0

theorem refines_u32shl_1 : ∀ vm : Vm, 16 ≤ vm.stack.length →
    Refines (stackRun Generated.ops_u32shl_1 vm) (sem (.u32shlImm 1) vm.stack) := by
  instr_tac Generated.ops_u32shl_1

theorem refines_u32shr_1 : ∀ vm : Vm, 16 ≤ vm.stack.length →
    Refines (stackRun Generated.ops_u32shr_1 vm) (sem (.u32shrImm 1) vm.stack) := by
  instr_tac Generated.ops_u32shr_1

theorem refines_u32rotl_1 : ∀ vm : Vm, 16 ≤ vm.stack.length →
    Refines (stackRun Generated.ops_u32rotl_1 vm) (sem (.u32rotlImm 1) vm.stack) := by
  instr_tac Generated.ops_u32rotl_1

theorem refines_u32rotr_1 : ∀ vm : Vm, 16 ≤ vm.stack.length →
    Refines (stackRun Generated.ops_u32rotr_1 vm) (sem (.u32rotrImm 1) vm.stack) := by
  instr_tac Generated.ops_u32rotr_1

theorem refines_u32shl_2 : ∀ vm : Vm, 16 ≤ vm.stack.length →
    Refines (stackRun Generated.ops_u32shl_2 vm) (sem (.u32shlImm 2) vm.stack) := by
  instr_tac Generated.ops_u32shl_2

theorem refines_u32shr_2 : ∀ vm : Vm, 16 ≤ vm.stack.length →
    Refines (stackRun Generated.ops_u32shr_2 vm) (sem (.u32shrImm 2) vm.stack) := by
  instr_tac Generated.ops_u32shr_2

theorem refines_u32rotl_2 : ∀ vm : Vm, 16 ≤ vm.stack.length →
    Refines (stackRun Generated.ops_u32rotl_2 vm) (sem (.u32rotlImm 2) vm.stack) := by
  instr_tac Generated.ops_u32rotl_2

theorem refines_u32rotr_2 : ∀ vm : Vm, 16 ≤ vm.stack.length →
    Refines (stackRun Generated.ops_u32rotr_2 vm) (sem (.u32rotrImm 2) vm.stack) := by
  instr_tac Generated.ops_u32rotr_2

theorem refines_u32shl_3 : ∀ vm : Vm, 16 ≤ vm.stack.length →
    Refines (stackRun Generated.ops_u32shl_3 vm) (sem (.u32shlImm 3) vm.stack) := by
  instr_tac Generated.ops_u32shl_3

theorem refines_u32shr_3 : ∀ vm : Vm, 16 ≤ vm.stack.length →
    Refines (stackRun Generated.ops_u32shr_3 vm) (sem (.u32shrImm 3) vm.stack) := by
  instr_tac Generated.ops_u32shr_3

theorem refines_u32rotl_3 : ∀ vm : Vm, 16 ≤ vm.stack.length →
    Refines (stackRun Generated.ops_u32rotl_3 vm) (sem (.u32rotlImm 3) vm.stack) := by
  instr_tac Generated.ops_u32rotl_3

theorem refines_u32rotr_3 : ∀ vm : Vm, 16 ≤ vm.stack.length →
    Refines (stackRun Generated.ops_u32rotr_3 vm) (sem (.u32rotrImm 3) vm.stack) := by
  instr_tac Generated.ops_u32rotr_3

theorem refines_u32shl_4 : ∀ vm : Vm, 16 ≤ vm.stack.length →
    Refines (stackRun Generated.ops_u32shl_4 vm) (sem (.u32shlImm 4) vm.stack) := by
  instr_tac Generated.ops_u32shl_4

theorem refines_u32shr_4 : ∀ vm : Vm, 16 ≤ vm.stack.length →
    Refines (stackRun Generated.ops_u32shr_4 vm) (sem (.u32shrImm 4) vm.stack) := by
  instr_tac Generated.ops_u32shr_4

theorem refines_u32rotl_4 : ∀ vm : Vm, 16 ≤ vm.stack.length →
    Refines (stackRun Generated.ops_u32rotl_4 vm) (sem (.u32rotlImm 4) vm.stack) := by
  instr_tac Generated.ops_u32rotl_4

theorem refines_u32rotr_4 : ∀ vm : Vm, 16 ≤ vm.stack.length →
    Refines (stackRun Generated.ops_u32rotr_4 vm) (sem (.u32rotrImm 4) vm.stack) := by
  instr_tac Generated.ops_u32rotr_4

theorem refines_u32shl_5 : ∀ vm : Vm, 16 ≤ vm.stack.length →
    Refines (stackRun Generated.ops_u32shl_5 vm) (sem (.u32shlImm 5) vm.stack) := by
  instr_tac Generated.ops_u32shl_5

theorem refines_u32shr_5 : ∀ vm : Vm, 16 ≤ vm.stack.length →
    Refines (stackRun Generated.ops_u32shr_5 vm) (sem (.u32shrImm 5) vm.stack) := by
  instr_tac Generated.ops_u32shr_5

theorem refines_u32rotl_5 : ∀ vm : Vm, 16 ≤ vm.stack.length →
    Refines (stackRun Generated.ops_u32rotl_5 vm) (sem (.u32rotlImm 5) vm.stack) := by
  instr_tac Generated.ops_u32rotl_5

theorem refines_u32rotr_5 : ∀ vm : Vm, 16 ≤ vm.stack.length →
    Refines (stackRun Generated.ops_u32rotr_5 vm) (sem (.u32rotrImm 5) vm.stack) := by
  instr_tac Generated.ops_u32rotr_5

theorem refines_u32shl_6 : ∀ vm : Vm, 16 ≤ vm.stack.length →
    Refines (stackRun Generated.ops_u32shl_6 vm) (sem (.u32shlImm 6) vm.stack) := by
  instr_tac Generated.ops_u32shl_6

theorem refines_u32shr_6 : ∀ vm : Vm, 16 ≤ vm.stack.length →
    Refines (stackRun Generated.ops_u32shr_6 vm) (sem (.u32shrImm 6) vm.stack) := by
  instr_tac Generated.ops_u32shr_6

theorem refines_u32rotl_6 : ∀ vm : Vm, 16 ≤ vm.stack.length →
    Refines (stackRun Generated.ops_u32rotl_6 vm) (sem (.u32rotlImm 6) vm.stack) := by
  instr_tac Generated.ops_u32rotl_6

theorem refines_u32rotr_6 : ∀ vm : Vm, 16 ≤ vm.stack.length →
    Refines (stackRun Generated.ops_u32rotr_6 vm) (sem (.u32rotrImm 6) vm.stack) := by
  instr_tac Generated.ops_u32rotr_6

theorem refines_u32shl_7 : ∀ vm : Vm, 16 ≤ vm.stack.length →
    Refines (stackRun Generated.ops_u32shl_7 vm) (sem (.u32shlImm 7) vm.stack) := by
  instr_tac Generated.ops_u32shl_7

theorem refines_u32shr_7 : ∀ vm : Vm, 16 ≤ vm.stack.length →
    Refines (stackRun Generated.ops_u32shr_7 vm) (sem (.u32shrImm 7) vm.stack) := by
  instr_tac Generated.ops_u32shr_7

theorem refines_u32rotl_7 : ∀ vm : Vm, 16 ≤ vm.stack.length →
    Refines (stackRun Generated.ops_u32rotl_7 vm) (sem (.u32rotlImm 7) vm.stack) := by
  instr_tac Generated.ops_u32rotl_7

theorem refines_u32rotr_7 : ∀ vm : Vm, 16 ≤ vm.stack.length →
    Refines (stackRun Generated.ops_u32rotr_7 vm) (sem (.u32rotrImm 7) vm.stack) := by
  instr_tac Generated.ops_u32rotr_7

theorem refines_u32shl_8 : ∀ vm : Vm, 16 ≤ vm.stack.length →
    Refines (stackRun Generated.ops_u32shl_8 vm) (sem (.u32shlImm 8) vm.stack) := by
  instr_tac Generated.ops_u32shl_8

theorem refines_u32shr_8 : ∀ vm : Vm, 16 ≤ vm.stack.length →
    Refines (stackRun Generated.ops_u32shr_8 vm) (sem (.u32shrImm 8) vm.stack) := by
  instr_tac Generated.ops_u32shr_8

theorem refines_u32rotl_8 : ∀ vm : Vm, 16 ≤ vm.stack.length →
    Refines (stackRun Generated.ops_u32rotl_8 vm) (sem (.u32rotlImm 8) vm.stack) := by
  instr_tac Generated.ops_u32rotl_8

theorem refines_u32rotr_8 : ∀ vm : Vm, 16 ≤ vm.stack.length →
    Refines (stackRun Generated.ops_u32rotr_8 vm) (sem (.u32rotrImm 8) vm.stack) := by
  instr_tac Generated.ops_u32rotr_8

theorem refines_u32shl_9 : ∀ vm : Vm, 16 ≤ vm.stack.length →
    Refines (stackRun Generated.ops_u32shl_9 vm) (sem (.u32shlImm 9) vm.stack) := by
  instr_tac Generated.ops_u32shl_9

theorem refines_u32shr_9 : ∀ vm : Vm, 16 ≤ vm.stack.length →
    Refines (stackRun Generated.ops_u32shr_9 vm) (sem (.u32shrImm 9) vm.stack) := by
  instr_tac Generated.ops_u32shr_9

theorem refines_u32rotl_9 : ∀ vm : Vm, 16 ≤ vm.stack.length →
    Refines (stackRun Generated.ops_u32rotl_9 vm) (sem (.u32rotlImm 9) vm.stack) := by
  instr_tac Generated.ops_u32rotl_9

theorem refines_u32rotr_9 : ∀ vm : Vm, 16 ≤ vm.stack.length →
    Refines (stackRun Generated.ops_u32rotr_9 vm) (sem (.u32rotrImm 9) vm.stack) := by
  instr_tac Generated.ops_u32rotr_9

theorem refines_u32shl_10 : ∀ vm : Vm, 16 ≤ vm.stack.length →
    Refines (stackRun Generated.ops_u32shl_10 vm) (sem (.u32shlImm 10) vm.stack) := by
  instr_tac Generated.ops_u32shl_10

theorem refines_u32shr_10 : ∀ vm : Vm, 16 ≤ vm.stack.length →
    Refines (stackRun Generated.ops_u32shr_10 vm) (sem (.u32shrImm 10) vm.stack) := by
  instr_tac Generated.ops_u32shr_10

theorem refines_u32rotl_10 : ∀ vm : Vm, 16 ≤ vm.stack.length →
    Refines (stackRun Generated.ops_u32rotl_10 vm) (sem (.u32rotlImm 10) vm.stack) := by
  instr_tac Generated.ops_u32rotl_10

theorem refines_u32rotr_10 : ∀ vm : Vm, 16 ≤ vm.stack.length →
    Refines (stackRun Generated.ops_u32rotr_10 vm) (sem (.u32rotrImm 10) vm.stack) := by
  instr_tac Generated.ops_u32rotr_10

theorem refines_u32shl_11 : ∀ vm : Vm, 16 ≤ vm.stack.length →
    Refines (stackRun Generated.ops_u32shl_11 vm) (sem (.u32shlImm 11) vm.stack) := by
  instr_tac Generated.ops_u32shl_11

theorem refines_u32shr_11 : ∀ vm : Vm, 16 ≤ vm.stack.length →
    Refines (stackRun Generated.ops_u32shr_11 vm) (sem (.u32shrImm 11) vm.stack) := by
  instr_tac Generated.ops_u32shr_11

theorem refines_u32rotl_11 : ∀ vm : Vm, 16 ≤ vm.stack.length →
    Refines (stackRun Generated.ops_u32rotl_11 vm) (sem (.u32rotlImm 11) vm.stack) := by
  instr_tac Generated.ops_u32rotl_11

theorem refines_u32rotr_11 : ∀ vm : Vm, 16 ≤ vm.stack.length →
    Refines (stackRun Generated.ops_u32rotr_11 vm) (sem (.u32rotrImm 11) vm.stack) := by
  instr_tac Generated.ops_u32rotr_11

theorem refines_u32shl_12 : ∀ vm : Vm, 16 ≤ vm.stack.length →
    Refines (stackRun Generated.ops_u32shl_12 vm) (sem (.u32shlImm 12) vm.stack) := by
  instr_tac Generated.ops_u32shl_12

theorem refines_u32shr_12 : ∀ vm : Vm, 16 ≤ vm.stack.length →
    Refines (stackRun Generated.ops_u32shr_12 vm) (sem (.u32shrImm 12) vm.stack) := by
  instr_tac Generated.ops_u32shr_12

theorem refines_u32rotl_12 : ∀ vm : Vm, 16 ≤ vm.stack.length →
    Refines (stackRun Generated.ops_u32rotl_12 vm) (sem (.u32rotlImm 12) vm.stack) := by
  instr_tac Generated.ops_u32rotl_12

theorem refines_u32rotr_12 : ∀ vm : Vm, 16 ≤ vm.stack.length →
    Refines (stackRun Generated.ops_u32rotr_12 vm) (sem (.u32rotrImm 12) vm.stack) := by
  instr_tac Generated.ops_u32rotr_12

theorem refines_u32shl_13 : ∀ vm : Vm, 16 ≤ vm.stack.length →
    Refines (stackRun Generated.ops_u32shl_13 vm) (sem (.u32shlImm 13) vm.stack) := by
  instr_tac Generated.ops_u32shl_13

theorem refines_u32shr_13 : ∀ vm : Vm, 16 ≤ vm.stack.length →
    Refines (stackRun Generated.ops_u32shr_13 vm) (sem (.u32shrImm 13) vm.stack) := by
  instr_tac Generated.ops_u32shr_13

theorem refines_u32rotl_13 : ∀ vm : Vm, 16 ≤ vm.stack.length →
    Refines (stackRun Generated.ops_u32rotl_13 vm) (sem (.u32rotlImm 13) vm.stack) := by
  instr_tac Generated.ops_u32rotl_13

theorem refines_u32rotr_13 : ∀ vm : Vm, 16 ≤ vm.stack.length →
    Refines (stackRun Generated.ops_u32rotr_13 vm) (sem (.u32rotrImm 13) vm.stack) := by
  instr_tac Generated.ops_u32rotr_13

theorem refines_u32shl_14 : ∀ vm : Vm, 16 ≤ vm.stack.length →
    Refines (stackRun Generated.ops_u32shl_14 vm) (sem (.u32shlImm 14) vm.stack) := by
  instr_tac Generated.ops_u32shl_14

theorem refines_u32shr_14 : ∀ vm : Vm, 16 ≤ vm.stack.length →
    Refines (stackRun Generated.ops_u32shr_14 vm) (sem (.u32shrImm 14) vm.stack) := by
  instr_tac Generated.ops_u32shr_14

theorem refines_u32rotl_14 : ∀ vm : Vm, 16 ≤ vm.stack.length →
    Refines (stackRun Generated.ops_u32rotl_14 vm) (sem (.u32rotlImm 14) vm.stack) := by
  instr_tac Generated.ops_u32rotl_14

theorem refines_u32rotr_14 : ∀ vm : Vm, 16 ≤ vm.stack.length →
    Refines (stackRun Generated.ops_u32rotr_14 vm) (sem (.u32rotrImm 14) vm.stack) := by
  instr_tac Generated.ops_u32rotr_14

theorem refines_u32shl_15 : ∀ vm : Vm, 16 ≤ vm.stack.length →
    Refines (stackRun Generated.ops_u32shl_15 vm) (sem (.u32shlImm 15) vm.stack) := by
  instr_tac Generated.ops_u32shl_15

theorem refines_u32shr_15 : ∀ vm : Vm, 16 ≤ vm.stack.length →
    Refines (stackRun Generated.ops_u32shr_15 vm) (sem (.u32shrImm 15) vm.stack) := by
  instr_tac Generated.ops_u32shr_15

theorem refines_u32rotl_15 : ∀ vm : Vm, 16 ≤ vm.stack.length →
    Refines (stackRun Generated.ops_u32rotl_15 vm) (sem (.u32rotlImm 15) vm.stack) := by
  instr_tac Generated.ops_u32rotl_15

theorem refines_u32rotr_15 : ∀ vm : Vm, 16 ≤ vm.stack.length →
    Refines (stackRun Generated.ops_u32rotr_15 vm) (sem (.u32rotrImm 15) vm.stack) := by
  instr_tac Generated.ops_u32rotr_15

theorem refines_u32shl_16 : ∀ vm : Vm, 16 ≤ vm.stack.length →
    Refines (stackRun Generated.ops_u32shl_16 vm) (sem (.u32shlImm 16) vm.stack) := by
  instr_tac Generated.ops_u32shl_16

theorem refines_u32shr_16 : ∀ vm : Vm, 16 ≤ vm.stack.length →
    Refines (stackRun Generated.ops_u32shr_16 vm) (sem (.u32shrImm 16) vm.stack) := by
  instr_tac Generated.ops_u32shr_16

theorem refines_u32rotl_16 : ∀ vm : Vm, 16 ≤ vm.stack.length →
    Refines (stackRun Generated.ops_u32rotl_16 vm) (sem (.u32rotlImm 16) vm.stack) := by
  instr_tac Generated.ops_u32rotl_16

theorem refines_u32rotr_16 : ∀ vm : Vm, 16 ≤ vm.stack.length →
    Refines (stackRun Generated.ops_u32rotr_16 vm) (sem (.u32rotrImm 16) vm.stack) := by
  instr_tac Generated.ops_u32rotr_16

theorem refines_u32shl_17 : ∀ vm : Vm, 16 ≤ vm.stack.length →
    Refines (stackRun Generated.ops_u32shl_17 vm) (sem (.u32shlImm 17) vm.stack) := by
  instr_tac Generated.ops_u32shl_17

theorem refines_u32shr_17 : ∀ vm : Vm, 16 ≤ vm.stack.length →
    Refines (stackRun Generated.ops_u32shr_17 vm) (sem (.u32shrImm 17) vm.stack) := by
  instr_tac Generated.ops_u32shr_17

theorem refines_u32rotl_17 : ∀ vm : Vm, 16 ≤ vm.stack.length →
    Refines (stackRun Generated.ops_u32rotl_17 vm) (sem (.u32rotlImm 17) vm.stack) := by
  instr_tac Generated.ops_u32rotl_17

theorem refines_u32rotr_17 : ∀ vm : Vm, 16 ≤ vm.stack.length →
    Refines (stackRun Generated.ops_u32rotr_17 vm) (sem (.u32rotrImm 17) vm.stack) := by
  instr_tac Generated.ops_u32rotr_17

theorem refines_u32shl_18 : ∀ vm : Vm, 16 ≤ vm.stack.length →
    Refines (stackRun Generated.ops_u32shl_18 vm) (sem (.u32shlImm 18) vm.stack) := by
  instr_tac Generated.ops_u32shl_18

theorem refines_u32shr_18 : ∀ vm : Vm, 16 ≤ vm.stack.length →
    Refines (stackRun Generated.ops_u32shr_18 vm) (sem (.u32shrImm 18) vm.stack) := by
  instr_tac Generated.ops_u32shr_18

theorem refines_u32rotl_18 : ∀ vm : Vm, 16 ≤ vm.stack.length →
    Refines (stackRun Generated.ops_u32rotl_18 vm) (sem (.u32rotlImm 18) vm.stack) := by
  instr_tac Generated.ops_u32rotl_18

theorem refines_u32rotr_18 : ∀ vm : Vm, 16 ≤ vm.stack.length →
    Refines (stackRun Generated.ops_u32rotr_18 vm) (sem (.u32rotrImm 18) vm.stack) := by
  instr_tac Generated.ops_u32rotr_18

theorem refines_u32shl_19 : ∀ vm : Vm, 16 ≤ vm.stack.length →
    Refines (stackRun Generated.ops_u32shl_19 vm) (sem (.u32shlImm 19) vm.stack) := by
  instr_tac Generated.ops_u32shl_19

theorem refines_u32shr_19 : ∀ vm : Vm, 16 ≤ vm.stack.length →
    Refines (stackRun Generated.ops_u32shr_19 vm) (sem (.u32shrImm 19) vm.stack) := by
  instr_tac Generated.ops_u32shr_19

theorem refines_u32rotl_19 : ∀ vm : Vm, 16 ≤ vm.stack.length →
    Refines (stackRun Generated.ops_u32rotl_19 vm) (sem (.u32rotlImm 19) vm.stack) := by
  instr_tac Generated.ops_u32rotl_19

theorem refines_u32rotr_19 : ∀ vm : Vm, 16 ≤ vm.stack.length →
    Refines (stackRun Generated.ops_u32rotr_19 vm) (sem (.u32rotrImm 19) vm.stack) := by
  instr_tac Generated.ops_u32rotr_19

theorem refines_u32shl_20 : ∀ vm : Vm, 16 ≤ vm.stack.length →
    Refines (stackRun Generated.ops_u32shl_20 vm) (sem (.u32shlImm 20) vm.stack) := by
  instr_tac Generated.ops_u32shl_20

theorem refines_u32shr_20 : ∀ vm : Vm, 16 ≤ vm.stack.length →
    Refines (stackRun Generated.ops_u32shr_20 vm) (sem (.u32shrImm 20) vm.stack) := by
  instr_tac Generated.ops_u32shr_20

theorem refines_u32rotl_20 : ∀ vm : Vm, 16 ≤ vm.stack.length →
    Refines (stackRun Generated.ops_u32rotl_20 vm) (sem (.u32rotlImm 20) vm.stack) := by
  instr_tac Generated.ops_u32rotl_20

theorem refines_u32rotr_20 : ∀ vm : Vm, 16 ≤ vm.stack.length →
    Refines (stackRun Generated.ops_u32rotr_20 vm) (sem (.u32rotrImm 20) vm.stack) := by
  instr_tac Generated.ops_u32rotr_20

theorem refines_u32shl_21 : ∀ vm : Vm, 16 ≤ vm.stack.length →
    Refines (stackRun Generated.ops_u32shl_21 vm) (sem (.u32shlImm 21) vm.stack) := by
  instr_tac Generated.ops_u32shl_21

theorem refines_u32shr_21 : ∀ vm : Vm, 16 ≤ vm.stack.length →
    Refines (stackRun Generated.ops_u32shr_21 vm) (sem (.u32shrImm 21) vm.stack) := by
  instr_tac Generated.ops_u32shr_21

theorem refines_u32rotl_21 : ∀ vm : Vm, 16 ≤ vm.stack.length →
    Refines (stackRun Generated.ops_u32rotl_21 vm) (sem (.u32rotlImm 21) vm.stack) := by
  instr_tac Generated.ops_u32rotl_21

theorem refines_u32rotr_21 : ∀ vm : Vm, 16 ≤ vm.stack.length →
    Refines (stackRun Generated.ops_u32rotr_21 vm) (sem (.u32rotrImm 21) vm.stack) := by
  instr_tac Generated.ops_u32rotr_21

theorem refines_u32shl_22 : ∀ vm : Vm, 16 ≤ vm.stack.length →
    Refines (stackRun Generated.ops_u32shl_22 vm) (sem (.u32shlImm 22) vm.stack) := by
  instr_tac Generated.ops_u32shl_22

theorem refines_u32shr_22 : ∀ vm : Vm, 16 ≤ vm.stack.length →
    Refines (stackRun Generated.ops_u32shr_22 vm) (sem (.u32shrImm 22) vm.stack) := by
  instr_tac Generated.ops_u32shr_22

theorem refines_u32rotl_22 : ∀ vm : Vm, 16 ≤ vm.stack.length →
    Refines (stackRun Generated.ops_u32rotl_22 vm) (sem (.u32rotlImm 22) vm.stack) := by
  instr_tac Generated.ops_u32rotl_22

theorem refines_u32rotr_22 : ∀ vm : Vm, 16 ≤ vm.stack.length →
    Refines (stackRun Generated.ops_u32rotr_22 vm) (sem (.u32rotrImm 22) vm.stack) := by
  instr_tac Generated.ops_u32rotr_22

theorem refines_u32shl_23 : ∀ vm : Vm, 16 ≤ vm.stack.length →
    Refines (stackRun Generated.ops_u32shl_23 vm) (sem (.u32shlImm 23) vm.stack) := by
  instr_tac Generated.ops_u32shl_23

theorem refines_u32shr_23 : ∀ vm : Vm, 16 ≤ vm.stack.length →
    Refines (stackRun Generated.ops_u32shr_23 vm) (sem (.u32shrImm 23) vm.stack) := by
  instr_tac Generated.ops_u32shr_23

theorem refines_u32rotl_23 : ∀ vm : Vm, 16 ≤ vm.stack.length →
    Refines (stackRun Generated.ops_u32rotl_23 vm) (sem (.u32rotlImm 23) vm.stack) := by
  instr_tac Generated.ops_u32rotl_23

theorem refines_u32rotr_23 : ∀ vm : Vm, 16 ≤ vm.stack.length →
    Refines (stackRun Generated.ops_u32rotr_23 vm) (sem (.u32rotrImm 23) vm.stack) := by
  instr_tac Generated.ops_u32rotr_23

theorem refines_u32shl_24 : ∀ vm : Vm, 16 ≤ vm.stack.length →
    Refines (stackRun Generated.ops_u32shl_24 vm) (sem (.u32shlImm 24) vm.stack) := by
  instr_tac Generated.ops_u32shl_24

theorem refines_u32shr_24 : ∀ vm : Vm, 16 ≤ vm.stack.length →
    Refines (stackRun Generated.ops_u32shr_24 vm) (sem (.u32shrImm 24) vm.stack) := by
  instr_tac Generated.ops_u32shr_24

theorem refines_u32rotl_24 : ∀ vm : Vm, 16 ≤ vm.stack.length →
    Refines (stackRun Generated.ops_u32rotl_24 vm) (sem (.u32rotlImm 24) vm.stack) := by
  instr_tac Generated.ops_u32rotl_24

theorem refines_u32rotr_24 : ∀ vm : Vm, 16 ≤ vm.stack.length →
    Refines (stackRun Generated.ops_u32rotr_24 vm) (sem (.u32rotrImm 24) vm.stack) := by
  instr_tac Generated.ops_u32rotr_24

theorem refines_u32shl_25 : ∀ vm : Vm, 16 ≤ vm.stack.length →
    Refines (stackRun Generated.ops_u32shl_25 vm) (sem (.u32shlImm 25) vm.stack) := by
  instr_tac Generated.ops_u32shl_25

theorem refines_u32shr_25 : ∀ vm : Vm, 16 ≤ vm.stack.length →
    Refines (stackRun Generated.ops_u32shr_25 vm) (sem (.u32shrImm 25) vm.stack) := by
  instr_tac Generated.ops_u32shr_25

theorem refines_u32rotl_25 : ∀ vm : Vm, 16 ≤ vm.stack.length →
    Refines (stackRun Generated.ops_u32rotl_25 vm) (sem (.u32rotlImm 25) vm.stack) := by
  instr_tac Generated.ops_u32rotl_25

theorem refines_u32rotr_25 : ∀ vm : Vm, 16 ≤ vm.stack.length →
    Refines (stackRun Generated.ops_u32rotr_25 vm) (sem (.u32rotrImm 25) vm.stack) := by
  instr_tac Generated.ops_u32rotr_25

theorem refines_u32shl_26 : ∀ vm : Vm, 16 ≤ vm.stack.length →
    Refines (stackRun Generated.ops_u32shl_26 vm) (sem (.u32shlImm 26) vm.stack) := by
  instr_tac Generated.ops_u32shl_26

theorem refines_u32shr_26 : ∀ vm : Vm, 16 ≤ vm.stack.length →
    Refines (stackRun Generated.ops_u32shr_26 vm) (sem (.u32shrImm 26) vm.stack) := by
  instr_tac Generated.ops_u32shr_26

theorem refines_u32rotl_26 : ∀ vm : Vm, 16 ≤ vm.stack.length →
    Refines (stackRun Generated.ops_u32rotl_26 vm) (sem (.u32rotlImm 26) vm.stack) := by
  instr_tac Generated.ops_u32rotl_26

theorem refines_u32rotr_26 : ∀ vm : Vm, 16 ≤ vm.stack.length →
    Refines (stackRun Generated.ops_u32rotr_26 vm) (sem (.u32rotrImm 26) vm.stack) := by
  instr_tac Generated.ops_u32rotr_26

theorem refines_u32shl_27 : ∀ vm : Vm, 16 ≤ vm.stack.length →
    Refines (stackRun Generated.ops_u32shl_27 vm) (sem (.u32shlImm 27) vm.stack) := by
  instr_tac Generated.ops_u32shl_27

theorem refines_u32shr_27 : ∀ vm : Vm, 16 ≤ vm.stack.length →
    Refines (stackRun Generated.ops_u32shr_27 vm) (sem (.u32shrImm 27) vm.stack) := by
  instr_tac Generated.ops_u32shr_27

theorem refines_u32rotl_27 : ∀ vm : Vm, 16 ≤ vm.stack.length →
    Refines (stackRun Generated.ops_u32rotl_27 vm) (sem (.u32rotlImm 27) vm.stack) := by
  instr_tac Generated.ops_u32rotl_27

theorem refines_u32rotr_27 : ∀ vm : Vm, 16 ≤ vm.stack.length →
    Refines (stackRun Generated.ops_u32rotr_27 vm) (sem (.u32rotrImm 27) vm.stack) := by
  instr_tac Generated.ops_u32rotr_27

theorem refines_u32shl_28 : ∀ vm : Vm, 16 ≤ vm.stack.length →
    Refines (stackRun Generated.ops_u32shl_28 vm) (sem (.u32shlImm 28) vm.stack) := by
  instr_tac Generated.ops_u32shl_28

theorem refines_u32shr_28 : ∀ vm : Vm, 16 ≤ vm.stack.length →
    Refines (stackRun Generated.ops_u32shr_28 vm) (sem (.u32shrImm 28) vm.stack) := by
  instr_tac Generated.ops_u32shr_28

theorem refines_u32rotl_28 : ∀ vm : Vm, 16 ≤ vm.stack.length →
    Refines (stackRun Generated.ops_u32rotl_28 vm) (sem (.u32rotlImm 28) vm.stack) := by
  instr_tac Generated.ops_u32rotl_28

theorem refines_u32rotr_28 : ∀ vm : Vm, 16 ≤ vm.stack.length →
    Refines (stackRun Generated.ops_u32rotr_28 vm) (sem (.u32rotrImm 28) vm.stack) := by
  instr_tac Generated.ops_u32rotr_28

theorem refines_u32shl_29 : ∀ vm : Vm, 16 ≤ vm.stack.length →
    Refines (stackRun Generated.ops_u32shl_29 vm) (sem (.u32shlImm 29) vm.stack) := by
  instr_tac Generated.ops_u32shl_29

theorem refines_u32shr_29 : ∀ vm : Vm, 16 ≤ vm.stack.length →
    Refines (stackRun Generated.ops_u32shr_29 vm) (sem (.u32shrImm 29) vm.stack) := by
  instr_tac Generated.ops_u32shr_29

theorem refines_u32rotl_29 : ∀ vm : Vm, 16 ≤ vm.stack.length →
    Refines (stackRun Generated.ops_u32rotl_29 vm) (sem (.u32rotlImm 29) vm.stack) := by
  instr_tac Generated.ops_u32rotl_29

theorem refines_u32rotr_29 : ∀ vm : Vm, 16 ≤ vm.stack.length →
    Refines (stackRun Generated.ops_u32rotr_29 vm) (sem (.u32rotrImm 29) vm.stack) := by
  instr_tac Generated.ops_u32rotr_29

theorem refines_u32shl_30 : ∀ vm : Vm, 16 ≤ vm.stack.length →
    Refines (stackRun Generated.ops_u32shl_30 vm) (sem (.u32shlImm 30) vm.stack) := by
  instr_tac Generated.ops_u32shl_30

theorem refines_u32shr_30 : ∀ vm : Vm, 16 ≤ vm.stack.length →
    Refines (stackRun Generated.ops_u32shr_30 vm) (sem (.u32shrImm 30) vm.stack) := by
  instr_tac Generated.ops_u32shr_30

theorem refines_u32rotl_30 : ∀ vm : Vm, 16 ≤ vm.stack.length →
    Refines (stackRun Generated.ops_u32rotl_30 vm) (sem (.u32rotlImm 30) vm.stack) := by
  instr_tac Generated.ops_u32rotl_30

theorem refines_u32rotr_30 : ∀ vm : Vm, 16 ≤ vm.stack.length →
    Refines (stackRun Generated.ops_u32rotr_30 vm) (sem (.u32rotrImm 30) vm.stack) := by
  instr_tac Generated.ops_u32rotr_30

theorem refines_u32shl_31 : ∀ vm : Vm, 16 ≤ vm.stack.length →
    Refines (stackRun Generated.ops_u32shl_31 vm) (sem (.u32shlImm 31) vm.stack) := by
  instr_tac Generated.ops_u32shl_31

theorem refines_u32shr_31 : ∀ vm : Vm, 16 ≤ vm.stack.length →
    Refines (stackRun Generated.ops_u32shr_31 vm) (sem (.u32shrImm 31) vm.stack) := by
  instr_tac Generated.ops_u32shr_31

theorem refines_u32rotl_31 : ∀ vm : Vm, 16 ≤ vm.stack.length →
    Refines (stackRun Generated.ops_u32rotl_31 vm) (sem (.u32rotlImm 31) vm.stack) := by
  instr_tac Generated.ops_u32rotl_31

theorem refines_u32rotr_31 : ∀ vm : Vm, 16 ≤ vm.stack.length →
    Refines (stackRun Generated.ops_u32rotr_31 vm) (sem (.u32rotrImm 31) vm.stack) := by
  instr_tac Generated.ops_u32rotr_31

theorem refines_exp_u0 : ∀ vm : Vm, 16 ≤ vm.stack.length →
    Refines (stackRun Generated.ops_exp_u0 vm) (sem (.expBits 0) vm.stack) := by
  instr_tac Generated.ops_exp_u0

theorem refines_exp_u1 : ∀ vm : Vm, 16 ≤ vm.stack.length →
    Refines (stackRun Generated.ops_exp_u1 vm) (sem (.expBits 1) vm.stack) := by
  instr_tac Generated.ops_exp_u1

theorem refines_exp_u2 : ∀ vm : Vm, 16 ≤ vm.stack.length →
    Refines (stackRun Generated.ops_exp_u2 vm) (sem (.expBits 2) vm.stack) := by
  instr_tac Generated.ops_exp_u2

theorem refines_exp_u3 : ∀ vm : Vm, 16 ≤ vm.stack.length →
    Refines (stackRun Generated.ops_exp_u3 vm) (sem (.expBits 3) vm.stack) := by
  instr_tac Generated.ops_exp_u3

theorem refines_exp_u4 : ∀ vm : Vm, 16 ≤ vm.stack.length →
    Refines (stackRun Generated.ops_exp_u4 vm) (sem (.expBits 4) vm.stack) := by
  instr_tac Generated.ops_exp_u4

theorem refines_exp_u5 : ∀ vm : Vm, 16 ≤ vm.stack.length →
    Refines (stackRun Generated.ops_exp_u5 vm) (sem (.expBits 5) vm.stack) := by
  instr_tac Generated.ops_exp_u5

theorem refines_exp_u6 : ∀ vm : Vm, 16 ≤ vm.stack.length →
    Refines (stackRun Generated.ops_exp_u6 vm) (sem (.expBits 6) vm.stack) := by
  instr_tac Generated.ops_exp_u6

theorem refines_exp_u7 : ∀ vm : Vm, 16 ≤ vm.stack.length →
    Refines (stackRun Generated.ops_exp_u7 vm) (sem (.expBits 7) vm.stack) := by
  instr_tac Generated.ops_exp_u7

theorem refines_exp_u8 : ∀ vm : Vm, 16 ≤ vm.stack.length →
    Refines (stackRun Generated.ops_exp_u8 vm) (sem (.expBits 8) vm.stack) := by
  instr_tac Generated.ops_exp_u8

theorem refines_exp_u9 : ∀ vm : Vm, 16 ≤ vm.stack.length →
    Refines (stackRun Generated.ops_exp_u9 vm) (sem (.expBits 9) vm.stack) := by
  instr_tac Generated.ops_exp_u9

theorem refines_exp_u10 : ∀ vm : Vm, 16 ≤ vm.stack.length →
    Refines (stackRun Generated.ops_exp_u10 vm) (sem (.expBits 10) vm.stack) := by
  instr_tac Generated.ops_exp_u10

theorem refines_exp_u11 : ∀ vm : Vm, 16 ≤ vm.stack.length →
    Refines (stackRun Generated.ops_exp_u11 vm) (sem (.expBits 11) vm.stack) := by
  instr_tac Generated.ops_exp_u11

theorem refines_exp_u12 : ∀ vm : Vm, 16 ≤ vm.stack.length →
    Refines (stackRun Generated.ops_exp_u12 vm) (sem (.expBits 12) vm.stack) := by
  instr_tac Generated.ops_exp_u12

theorem refines_exp_u13 : ∀ vm : Vm, 16 ≤ vm.stack.length →
    Refines (stackRun Generated.ops_exp_u13 vm) (sem (.expBits 13) vm.stack) := by
  instr_tac Generated.ops_exp_u13

theorem refines_exp_u14 : ∀ vm : Vm, 16 ≤ vm.stack.length →
    Refines (stackRun Generated.ops_exp_u14 vm) (sem (.expBits 14) vm.stack) := by
  instr_tac Generated.ops_exp_u14

theorem refines_exp_u15 : ∀ vm : Vm, 16 ≤ vm.stack.length →
    Refines (stackRun Generated.ops_exp_u15 vm) (sem (.expBits 15) vm.stack) := by
  instr_tac Generated.ops_exp_u15

theorem refines_exp_u16 : ∀ vm : Vm, 16 ≤ vm.stack.length →
    Refines (stackRun Generated.ops_exp_u16 vm) (sem (.expBits 16) vm.stack) := by
  instr_tac Generated.ops_exp_u16

theorem refines_exp_u17 : ∀ vm : Vm, 16 ≤ vm.stack.length →
    Refines (stackRun Generated.ops_exp_u17 vm) (sem (.expBits 17) vm.stack) := by
  instr_tac Generated.ops_exp_u17

theorem refines_exp_u18 : ∀ vm : Vm, 16 ≤ vm.stack.length →
    Refines (stackRun Generated.ops_exp_u18 vm) (sem (.expBits 18) vm.stack) := by
  instr_tac Generated.ops_exp_u18

theorem refines_exp_u19 : ∀ vm : Vm, 16 ≤ vm.stack.length →
    Refines (stackRun Generated.ops_exp_u19 vm) (sem (.expBits 19) vm.stack) := by
  instr_tac Generated.ops_exp_u19

theorem refines_exp_u20 : ∀ vm : Vm, 16 ≤ vm.stack.length →
    Refines (stackRun Generated.ops_exp_u20 vm) (sem (.expBits 20) vm.stack) := by
  instr_tac Generated.ops_exp_u20

theorem refines_exp_u21 : ∀ vm : Vm, 16 ≤ vm.stack.length →
    Refines (stackRun Generated.ops_exp_u21 vm) (sem (.expBits 21) vm.stack) := by
  instr_tac Generated.ops_exp_u21

theorem refines_exp_u22 : ∀ vm : Vm, 16 ≤ vm.stack.length →
    Refines (stackRun Generated.ops_exp_u22 vm) (sem (.expBits 22) vm.stack) := by
  instr_tac Generated.ops_exp_u22

theorem refines_exp_u23 : ∀ vm : Vm, 16 ≤ vm.stack.length →
    Refines (stackRun Generated.ops_exp_u23 vm) (sem (.expBits 23) vm.stack) := by
  instr_tac Generated.ops_exp_u23

theorem refines_exp_u24 : ∀ vm : Vm, 16 ≤ vm.stack.length →
    Refines (stackRun Generated.ops_exp_u24 vm) (sem (.expBits 24) vm.stack) := by
  instr_tac Generated.ops_exp_u24

theorem refines_exp_u25 : ∀ vm : Vm, 16 ≤ vm.stack.length →
    Refines (stackRun Generated.ops_exp_u25 vm) (sem (.expBits 25) vm.stack) := by
  instr_tac Generated.ops_exp_u25

theorem refines_exp_u26 : ∀ vm : Vm, 16 ≤ vm.stack.length →
    Refines (stackRun Generated.ops_exp_u26 vm) (sem (.expBits 26) vm.stack) := by
  instr_tac Generated.ops_exp_u26

theorem refines_exp_u27 : ∀ vm : Vm, 16 ≤ vm.stack.length →
    Refines (stackRun Generated.ops_exp_u27 vm) (sem (.expBits 27) vm.stack) := by
  instr_tac Generated.ops_exp_u27

theorem refines_exp_u28 : ∀ vm : Vm, 16 ≤ vm.stack.length →
    Refines (stackRun Generated.ops_exp_u28 vm) (sem (.expBits 28) vm.stack) := by
  instr_tac Generated.ops_exp_u28

theorem refines_exp_u29 : ∀ vm : Vm, 16 ≤ vm.stack.length →
    Refines (stackRun Generated.ops_exp_u29 vm) (sem (.expBits 29) vm.stack) := by
  instr_tac Generated.ops_exp_u29

theorem refines_exp_u30 : ∀ vm : Vm, 16 ≤ vm.stack.length →
    Refines (stackRun Generated.ops_exp_u30 vm) (sem (.expBits 30) vm.stack) := by
  instr_tac Generated.ops_exp_u30

theorem refines_exp_u31 : ∀ vm : Vm, 16 ≤ vm.stack.length →
    Refines (stackRun Generated.ops_exp_u31 vm) (sem (.expBits 31) vm.stack) := by
  instr_tac Generated.ops_exp_u31

theorem refines_exp_u32 : ∀ vm : Vm, 16 ≤ vm.stack.length →
    Refines (stackRun Generated.ops_exp_u32 vm) (sem (.expBits 32) vm.stack) := by
  instr_tac Generated.ops_exp_u32

theorem refines_exp_u33 : ∀ vm : Vm, 16 ≤ vm.stack.length →
    Refines (stackRun Generated.ops_exp_u33 vm) (sem (.expBits 33) vm.stack) := by
  instr_tac Generated.ops_exp_u33

theorem refines_exp_u34 : ∀ vm : Vm, 16 ≤ vm.stack.length →
    Refines (stackRun Generated.ops_exp_u34 vm) (sem (.expBits 34) vm.stack) := by
  instr_tac Generated.ops_exp_u34

theorem refines_exp_u35 : ∀ vm : Vm, 16 ≤ vm.stack.length →
    Refines (stackRun Generated.ops_exp_u35 vm) (sem (.expBits 35) vm.stack) := by
  instr_tac Generated.ops_exp_u35

theorem refines_exp_u36 : ∀ vm : Vm, 16 ≤ vm.stack.length →
    Refines (stackRun Generated.ops_exp_u36 vm) (sem (.expBits 36) vm.stack) := by
  instr_tac Generated.ops_exp_u36

theorem refines_exp_u37 : ∀ vm : Vm, 16 ≤ vm.stack.length →
    Refines (stackRun Generated.ops_exp_u37 vm) (sem (.expBits 37) vm.stack) := by
  instr_tac Generated.ops_exp_u37

theorem refines_exp_u38 : ∀ vm : Vm, 16 ≤ vm.stack.length →
    Refines (stackRun Generated.ops_exp_u38 vm) (sem (.expBits 38) vm.stack) := by
  instr_tac Generated.ops_exp_u38

theorem refines_exp_u39 : ∀ vm : Vm, 16 ≤ vm.stack.length →
    Refines (stackRun Generated.ops_exp_u39 vm) (sem (.expBits 39) vm.stack) := by
  instr_tac Generated.ops_exp_u39

theorem refines_exp_u40 : ∀ vm : Vm, 16 ≤ vm.stack.length →
    Refines (stackRun Generated.ops_exp_u40 vm) (sem (.expBits 40) vm.stack) := by
  instr_tac Generated.ops_exp_u40

theorem refines_exp_u41 : ∀ vm : Vm, 16 ≤ vm.stack.length →
    Refines (stackRun Generated.ops_exp_u41 vm) (sem (.expBits 41) vm.stack) := by
  instr_tac Generated.ops_exp_u41

theorem refines_exp_u42 : ∀ vm : Vm, 16 ≤ vm.stack.length →
    Refines (stackRun Generated.ops_exp_u42 vm) (sem (.expBits 42) vm.stack) := by
  instr_tac Generated.ops_exp_u42

theorem refines_exp_u43 : ∀ vm : Vm, 16 ≤ vm.stack.length →
    Refines (stackRun Generated.ops_exp_u43 vm) (sem (.expBits 43) vm.stack) := by
  instr_tac Generated.ops_exp_u43

theorem refines_exp_u44 : ∀ vm : Vm, 16 ≤ vm.stack.length →
    Refines (stackRun Generated.ops_exp_u44 vm) (sem (.expBits 44) vm.stack) := by
  instr_tac Generated.ops_exp_u44

theorem refines_exp_u45 : ∀ vm : Vm, 16 ≤ vm.stack.length →
    Refines (stackRun Generated.ops_exp_u45 vm) (sem (.expBits 45) vm.stack) := by
  instr_tac Generated.ops_exp_u45

theorem refines_exp_u46 : ∀ vm : Vm, 16 ≤ vm.stack.length →
    Refines (stackRun Generated.ops_exp_u46 vm) (sem (.expBits 46) vm.stack) := by
  instr_tac Generated.ops_exp_u46

theorem refines_exp_u47 : ∀ vm : Vm, 16 ≤ vm.stack.length →
    Refines (stackRun Generated.ops_exp_u47 vm) (sem (.expBits 47) vm.stack) := by
  instr_tac Generated.ops_exp_u47

theorem refines_exp_u48 : ∀ vm : Vm, 16 ≤ vm.stack.length →
    Refines (stackRun Generated.ops_exp_u48 vm) (sem (.expBits 48) vm.stack) := by
  instr_tac Generated.ops_exp_u48

theorem refines_exp_u49 : ∀ vm : Vm, 16 ≤ vm.stack.length →
    Refines (stackRun Generated.ops_exp_u49 vm) (sem (.expBits 49) vm.stack) := by
  instr_tac Generated.ops_exp_u49

theorem refines_exp_u50 : ∀ vm : Vm, 16 ≤ vm.stack.length →
    Refines (stackRun Generated.ops_exp_u50 vm) (sem (.expBits 50) vm.stack) := by
  instr_tac Generated.ops_exp_u50

theorem refines_exp_u51 : ∀ vm : Vm, 16 ≤ vm.stack.length →
    Refines (stackRun Generated.ops_exp_u51 vm) (sem (.expBits 51) vm.stack) := by
  instr_tac Generated.ops_exp_u51

theorem refines_exp_u52 : ∀ vm : Vm, 16 ≤ vm.stack.length →
    Refines (stackRun Generated.ops_exp_u52 vm) (sem (.expBits 52) vm.stack) := by
  instr_tac Generated.ops_exp_u52

theorem refines_exp_u53 : ∀ vm : Vm, 16 ≤ vm.stack.length →
    Refines (stackRun Generated.ops_exp_u53 vm) (sem (.expBits 53) vm.stack) := by
  instr_tac Generated.ops_exp_u53

theorem refines_exp_u54 : ∀ vm : Vm, 16 ≤ vm.stack.length →
    Refines (stackRun Generated.ops_exp_u54 vm) (sem (.expBits 54) vm.stack) := by
  instr_tac Generated.ops_exp_u54

theorem refines_exp_u55 : ∀ vm : Vm, 16 ≤ vm.stack.length →
    Refines (stackRun Generated.ops_exp_u55 vm) (sem (.expBits 55) vm.stack) := by
  instr_tac Generated.ops_exp_u55

theorem refines_exp_u56 : ∀ vm : Vm, 16 ≤ vm.stack.length →
    Refines (stackRun Generated.ops_exp_u56 vm) (sem (.expBits 56) vm.stack) := by
  instr_tac Generated.ops_exp_u56

theorem refines_exp_u57 : ∀ vm : Vm, 16 ≤ vm.stack.length →
    Refines (stackRun Generated.ops_exp_u57 vm) (sem (.expBits 57) vm.stack) := by
  instr_tac Generated.ops_exp_u57

theorem refines_exp_u58 : ∀ vm : Vm, 16 ≤ vm.stack.length →
    Refines (stackRun Generated.ops_exp_u58 vm) (sem (.expBits 58) vm.stack) := by
  instr_tac Generated.ops_exp_u58

theorem refines_exp_u59 : ∀ vm : Vm, 16 ≤ vm.stack.length →
    Refines (stackRun Generated.ops_exp_u59 vm) (sem (.expBits 59) vm.stack) := by
  instr_tac Generated.ops_exp_u59

theorem refines_exp_u60 : ∀ vm : Vm, 16 ≤ vm.stack.length →
    Refines (stackRun Generated.ops_exp_u60 vm) (sem (.expBits 60) vm.stack) := by
  instr_tac Generated.ops_exp_u60

theorem refines_exp_u61 : ∀ vm : Vm, 16 ≤ vm.stack.length →
    Refines (stackRun Generated.ops_exp_u61 vm) (sem (.expBits 61) vm.stack) := by
  instr_tac Generated.ops_exp_u61

theorem refines_exp_u62 : ∀ vm : Vm, 16 ≤ vm.stack.length →
    Refines (stackRun Generated.ops_exp_u62 vm) (sem (.expBits 62) vm.stack) := by
  instr_tac Generated.ops_exp_u62

theorem refines_exp_u63 : ∀ vm : Vm, 16 ≤ vm.stack.length →
    Refines (stackRun Generated.ops_exp_u63 vm) (sem (.expBits 63) vm.stack) := by
  instr_tac Generated.ops_exp_u63

theorem refines_exp_u64 : ∀ vm : Vm, 16 ≤ vm.stack.length →
    Refines (stackRun Generated.ops_exp_u64 vm) (sem (.expBits 64) vm.stack) := by
  instr_tac Generated.ops_exp_u64

theorem refines_add_0 : ∀ vm : Vm, 16 ≤ vm.stack.length →
    Refines (stackRun Generated.ops_add_0 vm) (sem (.addImm 0) vm.stack) := by
  instr_tac Generated.ops_add_0

theorem refines_sub_0 : ∀ vm : Vm, 16 ≤ vm.stack.length →
    Refines (stackRun Generated.ops_sub_0 vm) (sem (.subImm 0) vm.stack) := by
  instr_tac Generated.ops_sub_0

theorem refines_mul_0 : ∀ vm : Vm, 16 ≤ vm.stack.length →
    Refines (stackRun Generated.ops_mul_0 vm) (sem (.mulImm 0) vm.stack) := by
  instr_tac Generated.ops_mul_0

theorem refines_eq_0 : ∀ vm : Vm, 16 ≤ vm.stack.length →
    Refines (stackRun Generated.ops_eq_0 vm) (sem (.eqImm 0) vm.stack) := by
  instr_tac Generated.ops_eq_0

theorem refines_neq_0 : ∀ vm : Vm, 16 ≤ vm.stack.length →
    Refines (stackRun Generated.ops_neq_0 vm) (sem (.neqImm 0) vm.stack) := by
  instr_tac Generated.ops_neq_0

theorem refines_exp_0 : ∀ vm : Vm, 16 ≤ vm.stack.length →
    Refines (stackRun Generated.ops_exp_0 vm) (sem (.expImm 0) vm.stack) := by
  instr_tac Generated.ops_exp_0

theorem refines_push_0 : ∀ vm : Vm, 16 ≤ vm.stack.length →
    Refines (stackRun Generated.ops_push_0 vm) (sem (.push [0]) vm.stack) := by
  instr_tac Generated.ops_push_0

theorem refines_add_1 : ∀ vm : Vm, 16 ≤ vm.stack.length →
    Refines (stackRun Generated.ops_add_1 vm) (sem (.addImm 1) vm.stack) := by
  instr_tac Generated.ops_add_1

theorem refines_sub_1 : ∀ vm : Vm, 16 ≤ vm.stack.length →
    Refines (stackRun Generated.ops_sub_1 vm) (sem (.subImm 1) vm.stack) := by
  instr_tac Generated.ops_sub_1

theorem refines_mul_1 : ∀ vm : Vm, 16 ≤ vm.stack.length →
    Refines (stackRun Generated.ops_mul_1 vm) (sem (.mulImm 1) vm.stack) := by
  instr_tac Generated.ops_mul_1

theorem refines_div_1 : ∀ vm : Vm, 16 ≤ vm.stack.length →
    Refines (stackRun Generated.ops_div_1 vm) (sem (.divImm 1) vm.stack) := by
  instr_tac Generated.ops_div_1

theorem refines_eq_1 : ∀ vm : Vm, 16 ≤ vm.stack.length →
    Refines (stackRun Generated.ops_eq_1 vm) (sem (.eqImm 1) vm.stack) := by
  instr_tac Generated.ops_eq_1

theorem refines_neq_1 : ∀ vm : Vm, 16 ≤ vm.stack.length →
    Refines (stackRun Generated.ops_neq_1 vm) (sem (.neqImm 1) vm.stack) := by
  instr_tac Generated.ops_neq_1

theorem refines_exp_1 : ∀ vm : Vm, 16 ≤ vm.stack.length →
    Refines (stackRun Generated.ops_exp_1 vm) (sem (.expImm 1) vm.stack) := by
  instr_tac Generated.ops_exp_1

theorem refines_push_1 : ∀ vm : Vm, 16 ≤ vm.stack.length →
    Refines (stackRun Generated.ops_push_1 vm) (sem (.push [1]) vm.stack) := by
  instr_tac Generated.ops_push_1

theorem refines_add_2 : ∀ vm : Vm, 16 ≤ vm.stack.length →
    Refines (stackRun Generated.ops_add_2 vm) (sem (.addImm 2) vm.stack) := by
  instr_tac Generated.ops_add_2

theorem refines_sub_2 : ∀ vm : Vm, 16 ≤ vm.stack.length →
    Refines (stackRun Generated.ops_sub_2 vm) (sem (.subImm 2) vm.stack) := by
  instr_tac Generated.ops_sub_2

theorem refines_mul_2 : ∀ vm : Vm, 16 ≤ vm.stack.length →
    Refines (stackRun Generated.ops_mul_2 vm) (sem (.mulImm 2) vm.stack) := by
  instr_tac Generated.ops_mul_2

theorem refines_div_2 : ∀ vm : Vm, 16 ≤ vm.stack.length →
    Refines (stackRun Generated.ops_div_2 vm) (sem (.divImm 2) vm.stack) := by
  instr_tac Generated.ops_div_2

theorem refines_eq_2 : ∀ vm : Vm, 16 ≤ vm.stack.length →
    Refines (stackRun Generated.ops_eq_2 vm) (sem (.eqImm 2) vm.stack) := by
  instr_tac Generated.ops_eq_2

theorem refines_neq_2 : ∀ vm : Vm, 16 ≤ vm.stack.length →
    Refines (stackRun Generated.ops_neq_2 vm) (sem (.neqImm 2) vm.stack) := by
  instr_tac Generated.ops_neq_2

theorem refines_exp_2 : ∀ vm : Vm, 16 ≤ vm.stack.length →
    Refines (stackRun Generated.ops_exp_2 vm) (sem (.expImm 2) vm.stack) := by
  instr_tac Generated.ops_exp_2

theorem refines_push_2 : ∀ vm : Vm, 16 ≤ vm.stack.length →
    Refines (stackRun Generated.ops_push_2 vm) (sem (.push [2]) vm.stack) := by
  instr_tac Generated.ops_push_2

theorem refines_add_3 : ∀ vm : Vm, 16 ≤ vm.stack.length →
    Refines (stackRun Generated.ops_add_3 vm) (sem (.addImm 3) vm.stack) := by
  instr_tac Generated.ops_add_3

theorem refines_sub_3 : ∀ vm : Vm, 16 ≤ vm.stack.length →
    Refines (stackRun Generated.ops_sub_3 vm) (sem (.subImm 3) vm.stack) := by
  instr_tac Generated.ops_sub_3

theorem refines_mul_3 : ∀ vm : Vm, 16 ≤ vm.stack.length →
    Refines (stackRun Generated.ops_mul_3 vm) (sem (.mulImm 3) vm.stack) := by
  instr_tac Generated.ops_mul_3

theorem refines_div_3 : ∀ vm : Vm, 16 ≤ vm.stack.length →
    Refines (stackRun Generated.ops_div_3 vm) (sem (.divImm 3) vm.stack) := by
  instr_tac Generated.ops_div_3

theorem refines_eq_3 : ∀ vm : Vm, 16 ≤ vm.stack.length →
    Refines (stackRun Generated.ops_eq_3 vm) (sem (.eqImm 3) vm.stack) := by
  instr_tac Generated.ops_eq_3

theorem refines_neq_3 : ∀ vm : Vm, 16 ≤ vm.stack.length →
    Refines (stackRun Generated.ops_neq_3 vm) (sem (.neqImm 3) vm.stack) := by
  instr_tac Generated.ops_neq_3

theorem refines_exp_3 : ∀ vm : Vm, 16 ≤ vm.stack.length →
    Refines (stackRun Generated.ops_exp_3 vm) (sem (.expImm 3) vm.stack) := by
  instr_tac Generated.ops_exp_3

theorem refines_push_3 : ∀ vm : Vm, 16 ≤ vm.stack.length →
    Refines (stackRun Generated.ops_push_3 vm) (sem (.push [3]) vm.stack) := by
  instr_tac Generated.ops_push_3

theorem refines_add_7 : ∀ vm : Vm, 16 ≤ vm.stack.length →
    Refines (stackRun Generated.ops_add_7 vm) (sem (.addImm 7) vm.stack) := by
  instr_tac Generated.ops_add_7

theorem refines_sub_7 : ∀ vm : Vm, 16 ≤ vm.stack.length →
    Refines (stackRun Generated.ops_sub_7 vm) (sem (.subImm 7) vm.stack) := by
  instr_tac Generated.ops_sub_7

theorem refines_mul_7 : ∀ vm : Vm, 16 ≤ vm.stack.length →
    Refines (stackRun Generated.ops_mul_7 vm) (sem (.mulImm 7) vm.stack) := by
  instr_tac Generated.ops_mul_7

theorem refines_div_7 : ∀ vm : Vm, 16 ≤ vm.stack.length →
    Refines (stackRun Generated.ops_div_7 vm) (sem (.divImm 7) vm.stack) := by
  instr_tac Generated.ops_div_7

theorem refines_eq_7 : ∀ vm : Vm, 16 ≤ vm.stack.length →
    Refines (stackRun Generated.ops_eq_7 vm) (sem (.eqImm 7) vm.stack) := by
  instr_tac Generated.ops_eq_7

theorem refines_neq_7 : ∀ vm : Vm, 16 ≤ vm.stack.length →
    Refines (stackRun Generated.ops_neq_7 vm) (sem (.neqImm 7) vm.stack) := by
  instr_tac Generated.ops_neq_7

theorem refines_exp_7 : ∀ vm : Vm, 16 ≤ vm.stack.length →
    Refines (stackRun Generated.ops_exp_7 vm) (sem (.expImm 7) vm.stack) := by
  instr_tac Generated.ops_exp_7

theorem refines_push_7 : ∀ vm : Vm, 16 ≤ vm.stack.length →
    Refines (stackRun Generated.ops_push_7 vm) (sem (.push [7]) vm.stack) := by
  instr_tac Generated.ops_push_7

theorem refines_add_65536 : ∀ vm : Vm, 16 ≤ vm.stack.length →
    Refines (stackRun Generated.ops_add_65536 vm) (sem (.addImm 65536) vm.stack) := by
  instr_tac Generated.ops_add_65536

theorem refines_sub_65536 : ∀ vm : Vm, 16 ≤ vm.stack.length →
    Refines (stackRun Generated.ops_sub_65536 vm) (sem (.subImm 65536) vm.stack) := by
  instr_tac Generated.ops_sub_65536

theorem refines_mul_65536 : ∀ vm : Vm, 16 ≤ vm.stack.length →
    Refines (stackRun Generated.ops_mul_65536 vm) (sem (.mulImm 65536) vm.stack) := by
  instr_tac Generated.ops_mul_65536

theorem refines_div_65536 : ∀ vm : Vm, 16 ≤ vm.stack.length →
    Refines (stackRun Generated.ops_div_65536 vm) (sem (.divImm 65536) vm.stack) := by
  instr_tac Generated.ops_div_65536

theorem refines_eq_65536 : ∀ vm : Vm, 16 ≤ vm.stack.length →
    Refines (stackRun Generated.ops_eq_65536 vm) (sem (.eqImm 65536) vm.stack) := by
  instr_tac Generated.ops_eq_65536

theorem refines_neq_65536 : ∀ vm : Vm, 16 ≤ vm.stack.length →
    Refines (stackRun Generated.ops_neq_65536 vm) (sem (.neqImm 65536) vm.stack) := by
  instr_tac Generated.ops_neq_65536

theorem refines_exp_65536 : ∀ vm : Vm, 16 ≤ vm.stack.length →
    Refines (stackRun Generated.ops_exp_65536 vm) (sem (.expImm 65536) vm.stack) := by
  instr_tac Generated.ops_exp_65536

theorem refines_push_65536 : ∀ vm : Vm, 16 ≤ vm.stack.length →
    Refines (stackRun Generated.ops_push_65536 vm) (sem (.push [65536]) vm.stack) := by
  instr_tac Generated.ops_push_65536

theorem refines_add_4294967295 : ∀ vm : Vm, 16 ≤ vm.stack.length →
    Refines (stackRun Generated.ops_add_4294967295 vm) (sem (.addImm 4294967295) vm.stack) := by
  instr_tac Generated.ops_add_4294967295

theorem refines_sub_4294967295 : ∀ vm : Vm, 16 ≤ vm.stack.length →
    Refines (stackRun Generated.ops_sub_4294967295 vm) (sem (.subImm 4294967295) vm.stack) := by
  instr_tac Generated.ops_sub_4294967295

theorem refines_mul_4294967295 : ∀ vm : Vm, 16 ≤ vm.stack.length →
    Refines (stackRun Generated.ops_mul_4294967295 vm) (sem (.mulImm 4294967295) vm.stack) := by
  instr_tac Generated.ops_mul_4294967295

theorem refines_div_4294967295 : ∀ vm : Vm, 16 ≤ vm.stack.length →
    Refines (stackRun Generated.ops_div_4294967295 vm) (sem (.divImm 4294967295) vm.stack) := by
  instr_tac Generated.ops_div_4294967295

theorem refines_eq_4294967295 : ∀ vm : Vm, 16 ≤ vm.stack.length →
    Refines (stackRun Generated.ops_eq_4294967295 vm) (sem (.eqImm 4294967295) vm.stack) := by
  instr_tac Generated.ops_eq_4294967295

theorem refines_neq_4294967295 : ∀ vm : Vm, 16 ≤ vm.stack.length →
    Refines (stackRun Generated.ops_neq_4294967295 vm) (sem (.neqImm 4294967295) vm.stack) := by
  instr_tac Generated.ops_neq_4294967295

theorem refines_exp_4294967295 : ∀ vm : Vm, 16 ≤ vm.stack.length →
    Refines (stackRun Generated.ops_exp_4294967295 vm) (sem (.expImm 4294967295) vm.stack) := by
  instr_tac Generated.ops_exp_4294967295

theorem refines_push_4294967295 : ∀ vm : Vm, 16 ≤ vm.stack.length →
    Refines (stackRun Generated.ops_push_4294967295 vm) (sem (.push [4294967295]) vm.stack) := by
  instr_tac Generated.ops_push_4294967295

theorem refines_add_4294967296 : ∀ vm : Vm, 16 ≤ vm.stack.length →
    Refines (stackRun Generated.ops_add_4294967296 vm) (sem (.addImm 4294967296) vm.stack) := by
  instr_tac Generated.ops_add_4294967296

theorem refines_sub_4294967296 : ∀ vm : Vm, 16 ≤ vm.stack.length →
    Refines (stackRun Generated.ops_sub_4294967296 vm) (sem (.subImm 4294967296) vm.stack) := by
  instr_tac Generated.ops_sub_4294967296

theorem refines_mul_4294967296 : ∀ vm : Vm, 16 ≤ vm.stack.length →
    Refines (stackRun Generated.ops_mul_4294967296 vm) (sem (.mulImm 4294967296) vm.stack) := by
  instr_tac Generated.ops_mul_4294967296

theorem refines_div_4294967296 : ∀ vm : Vm, 16 ≤ vm.stack.length →
    Refines (stackRun Generated.ops_div_4294967296 vm) (sem (.divImm 4294967296) vm.stack) := by
  instr_tac Generated.ops_div_4294967296

theorem refines_eq_4294967296 : ∀ vm : Vm, 16 ≤ vm.stack.length →
    Refines (stackRun Generated.ops_eq_4294967296 vm) (sem (.eqImm 4294967296) vm.stack) := by
  instr_tac Generated.ops_eq_4294967296

theorem refines_neq_4294967296 : ∀ vm : Vm, 16 ≤ vm.stack.length →
    Refines (stackRun Generated.ops_neq_4294967296 vm) (sem (.neqImm 4294967296) vm.stack) := by
  instr_tac Generated.ops_neq_4294967296

theorem refines_exp_4294967296 : ∀ vm : Vm, 16 ≤ vm.stack.length →
    Refines (stackRun Generated.ops_exp_4294967296 vm) (sem (.expImm 4294967296) vm.stack) := by
  instr_tac Generated.ops_exp_4294967296

theorem refines_push_4294967296 : ∀ vm : Vm, 16 ≤ vm.stack.length →
    Refines (stackRun Generated.ops_push_4294967296 vm) (sem (.push [4294967296]) vm.stack) := by
  instr_tac Generated.ops_push_4294967296

theorem refines_add_18446744069414584320 : ∀ vm : Vm, 16 ≤ vm.stack.length →
    Refines (stackRun Generated.ops_add_18446744069414584320 vm) (sem (.addImm 18446744069414584320) vm.stack) := by
  instr_tac Generated.ops_add_18446744069414584320

theorem refines_sub_18446744069414584320 : ∀ vm : Vm, 16 ≤ vm.stack.length →
    Refines (stackRun Generated.ops_sub_18446744069414584320 vm) (sem (.subImm 18446744069414584320) vm.stack) := by
  instr_tac Generated.ops_sub_18446744069414584320

theorem refines_mul_18446744069414584320 : ∀ vm : Vm, 16 ≤ vm.stack.length →
    Refines (stackRun Generated.ops_mul_18446744069414584320 vm) (sem (.mulImm 18446744069414584320) vm.stack) := by
  instr_tac Generated.ops_mul_18446744069414584320

theorem refines_div_18446744069414584320 : ∀ vm : Vm, 16 ≤ vm.stack.length →
    Refines (stackRun Generated.ops_div_18446744069414584320 vm) (sem (.divImm 18446744069414584320) vm.stack) := by
  instr_tac Generated.ops_div_18446744069414584320

theorem refines_eq_18446744069414584320 : ∀ vm : Vm, 16 ≤ vm.stack.length →
    Refines (stackRun Generated.ops_eq_18446744069414584320 vm) (sem (.eqImm 18446744069414584320) vm.stack) := by
  instr_tac Generated.ops_eq_18446744069414584320

theorem refines_neq_18446744069414584320 : ∀ vm : Vm, 16 ≤ vm.stack.length →
    Refines (stackRun Generated.ops_neq_18446744069414584320 vm) (sem (.neqImm 18446744069414584320) vm.stack) := by
  instr_tac Generated.ops_neq_18446744069414584320

theorem refines_exp_18446744069414584320 : ∀ vm : Vm, 16 ≤ vm.stack.length →
    Refines (stackRun Generated.ops_exp_18446744069414584320 vm) (sem (.expImm 18446744069414584320) vm.stack) := by
  instr_tac Generated.ops_exp_18446744069414584320

theorem refines_push_18446744069414584320 : ∀ vm : Vm, 16 ≤ vm.stack.length →
    Refines (stackRun Generated.ops_push_18446744069414584320 vm) (sem (.push [18446744069414584320]) vm.stack) := by
  instr_tac Generated.ops_push_18446744069414584320

theorem refines_add_9223372036854775813 : ∀ vm : Vm, 16 ≤ vm.stack.length →
    Refines (stackRun Generated.ops_add_9223372036854775813 vm) (sem (.addImm 9223372036854775813) vm.stack) := by
  instr_tac Generated.ops_add_9223372036854775813

theorem refines_sub_9223372036854775813 : ∀ vm : Vm, 16 ≤ vm.stack.length →
    Refines (stackRun Generated.ops_sub_9223372036854775813 vm) (sem (.subImm 9223372036854775813) vm.stack) := by
  instr_tac Generated.ops_sub_9223372036854775813

theorem refines_mul_9223372036854775813 : ∀ vm : Vm, 16 ≤ vm.stack.length →
    Refines (stackRun Generated.ops_mul_9223372036854775813 vm) (sem (.mulImm 9223372036854775813) vm.stack) := by
  instr_tac Generated.ops_mul_9223372036854775813

theorem refines_div_9223372036854775813 : ∀ vm : Vm, 16 ≤ vm.stack.length →
    Refines (stackRun Generated.ops_div_9223372036854775813 vm) (sem (.divImm 9223372036854775813) vm.stack) := by
  instr_tac Generated.ops_div_9223372036854775813

theorem refines_eq_9223372036854775813 : ∀ vm : Vm, 16 ≤ vm.stack.length →
    Refines (stackRun Generated.ops_eq_9223372036854775813 vm) (sem (.eqImm 9223372036854775813) vm.stack) := by
  instr_tac Generated.ops_eq_9223372036854775813

theorem refines_neq_9223372036854775813 : ∀ vm : Vm, 16 ≤ vm.stack.length →
    Refines (stackRun Generated.ops_neq_9223372036854775813 vm) (sem (.neqImm 9223372036854775813) vm.stack) := by
  instr_tac Generated.ops_neq_9223372036854775813

theorem refines_exp_9223372036854775813 : ∀ vm : Vm, 16 ≤ vm.stack.length →
    Refines (stackRun Generated.ops_exp_9223372036854775813 vm) (sem (.expImm 9223372036854775813) vm.stack) := by
  instr_tac Generated.ops_exp_9223372036854775813

theorem refines_push_9223372036854775813 : ∀ vm : Vm, 16 ≤ vm.stack.length →
    Refines (stackRun Generated.ops_push_9223372036854775813 vm) (sem (.push [9223372036854775813]) vm.stack) := by
  instr_tac Generated.ops_push_9223372036854775813

theorem refines_u32wrapping_add_0 : ∀ vm : Vm, 16 ≤ vm.stack.length →
    Refines (stackRun Generated.ops_u32wrapping_add_0 vm) (sem (.u32wrappingAddImm 0) vm.stack) := by
  instr_tac Generated.ops_u32wrapping_add_0

theorem refines_u32overflowing_add_0 : ∀ vm : Vm, 16 ≤ vm.stack.length →
    Refines (stackRun Generated.ops_u32overflowing_add_0 vm) (sem (.u32overflowingAddImm 0) vm.stack) := by
  instr_tac Generated.ops_u32overflowing_add_0

theorem refines_u32wrapping_sub_0 : ∀ vm : Vm, 16 ≤ vm.stack.length →
    Refines (stackRun Generated.ops_u32wrapping_sub_0 vm) (sem (.u32wrappingSubImm 0) vm.stack) := by
  instr_tac Generated.ops_u32wrapping_sub_0

theorem refines_u32overflowing_sub_0 : ∀ vm : Vm, 16 ≤ vm.stack.length →
    Refines (stackRun Generated.ops_u32overflowing_sub_0 vm) (sem (.u32overflowingSubImm 0) vm.stack) := by
  instr_tac Generated.ops_u32overflowing_sub_0

theorem refines_u32wrapping_mul_0 : ∀ vm : Vm, 16 ≤ vm.stack.length →
    Refines (stackRun Generated.ops_u32wrapping_mul_0 vm) (sem (.u32wrappingMulImm 0) vm.stack) := by
  instr_tac Generated.ops_u32wrapping_mul_0

theorem refines_u32overflowing_mul_0 : ∀ vm : Vm, 16 ≤ vm.stack.length →
    Refines (stackRun Generated.ops_u32overflowing_mul_0 vm) (sem (.u32overflowingMulImm 0) vm.stack) := by
  instr_tac Generated.ops_u32overflowing_mul_0

theorem refines_u32wrapping_add_1 : ∀ vm : Vm, 16 ≤ vm.stack.length →
    Refines (stackRun Generated.ops_u32wrapping_add_1 vm) (sem (.u32wrappingAddImm 1) vm.stack) := by
  instr_tac Generated.ops_u32wrapping_add_1

theorem refines_u32overflowing_add_1 : ∀ vm : Vm, 16 ≤ vm.stack.length →
    Refines (stackRun Generated.ops_u32overflowing_add_1 vm) (sem (.u32overflowingAddImm 1) vm.stack) := by
  instr_tac Generated.ops_u32overflowing_add_1

theorem refines_u32wrapping_sub_1 : ∀ vm : Vm, 16 ≤ vm.stack.length →
    Refines (stackRun Generated.ops_u32wrapping_sub_1 vm) (sem (.u32wrappingSubImm 1) vm.stack) := by
  instr_tac Generated.ops_u32wrapping_sub_1

theorem refines_u32overflowing_sub_1 : ∀ vm : Vm, 16 ≤ vm.stack.length →
    Refines (stackRun Generated.ops_u32overflowing_sub_1 vm) (sem (.u32overflowingSubImm 1) vm.stack) := by
  instr_tac Generated.ops_u32overflowing_sub_1

theorem refines_u32wrapping_mul_1 : ∀ vm : Vm, 16 ≤ vm.stack.length →
    Refines (stackRun Generated.ops_u32wrapping_mul_1 vm) (sem (.u32wrappingMulImm 1) vm.stack) := by
  instr_tac Generated.ops_u32wrapping_mul_1

theorem refines_u32overflowing_mul_1 : ∀ vm : Vm, 16 ≤ vm.stack.length →
    Refines (stackRun Generated.ops_u32overflowing_mul_1 vm) (sem (.u32overflowingMulImm 1) vm.stack) := by
  instr_tac Generated.ops_u32overflowing_mul_1

theorem refines_u32div_1 : ∀ vm : Vm, 16 ≤ vm.stack.length →
    Refines (stackRun Generated.ops_u32div_1 vm) (sem (.u32divImm 1) vm.stack) := by
  instr_tac Generated.ops_u32div_1

theorem refines_u32mod_1 : ∀ vm : Vm, 16 ≤ vm.stack.length →
    Refines (stackRun Generated.ops_u32mod_1 vm) (sem (.u32modImm 1) vm.stack) := by
  instr_tac Generated.ops_u32mod_1

theorem refines_u32divmod_1 : ∀ vm : Vm, 16 ≤ vm.stack.length →
    Refines (stackRun Generated.ops_u32divmod_1 vm) (sem (.u32divmodImm 1) vm.stack) := by
  instr_tac Generated.ops_u32divmod_1

theorem refines_u32wrapping_add_2 : ∀ vm : Vm, 16 ≤ vm.stack.length →
    Refines (stackRun Generated.ops_u32wrapping_add_2 vm) (sem (.u32wrappingAddImm 2) vm.stack) := by
  instr_tac Generated.ops_u32wrapping_add_2

theorem refines_u32overflowing_add_2 : ∀ vm : Vm, 16 ≤ vm.stack.length →
    Refines (stackRun Generated.ops_u32overflowing_add_2 vm) (sem (.u32overflowingAddImm 2) vm.stack) := by
  instr_tac Generated.ops_u32overflowing_add_2

theorem refines_u32wrapping_sub_2 : ∀ vm : Vm, 16 ≤ vm.stack.length →
    Refines (stackRun Generated.ops_u32wrapping_sub_2 vm) (sem (.u32wrappingSubImm 2) vm.stack) := by
  instr_tac Generated.ops_u32wrapping_sub_2

theorem refines_u32overflowing_sub_2 : ∀ vm : Vm, 16 ≤ vm.stack.length →
    Refines (stackRun Generated.ops_u32overflowing_sub_2 vm) (sem (.u32overflowingSubImm 2) vm.stack) := by
  instr_tac Generated.ops_u32overflowing_sub_2

theorem refines_u32wrapping_mul_2 : ∀ vm : Vm, 16 ≤ vm.stack.length →
    Refines (stackRun Generated.ops_u32wrapping_mul_2 vm) (sem (.u32wrappingMulImm 2) vm.stack) := by
  instr_tac Generated.ops_u32wrapping_mul_2

theorem refines_u32overflowing_mul_2 : ∀ vm : Vm, 16 ≤ vm.stack.length →
    Refines (stackRun Generated.ops_u32overflowing_mul_2 vm) (sem (.u32overflowingMulImm 2) vm.stack) := by
  instr_tac Generated.ops_u32overflowing_mul_2

theorem refines_u32div_2 : ∀ vm : Vm, 16 ≤ vm.stack.length →
    Refines (stackRun Generated.ops_u32div_2 vm) (sem (.u32divImm 2) vm.stack) := by
  instr_tac Generated.ops_u32div_2

theorem refines_u32mod_2 : ∀ vm : Vm, 16 ≤ vm.stack.length →
    Refines (stackRun Generated.ops_u32mod_2 vm) (sem (.u32modImm 2) vm.stack) := by
  instr_tac Generated.ops_u32mod_2

theorem refines_u32divmod_2 : ∀ vm : Vm, 16 ≤ vm.stack.length →
    Refines (stackRun Generated.ops_u32divmod_2 vm) (sem (.u32divmodImm 2) vm.stack) := by
  instr_tac Generated.ops_u32divmod_2

theorem refines_u32wrapping_add_3 : ∀ vm : Vm, 16 ≤ vm.stack.length →
    Refines (stackRun Generated.ops_u32wrapping_add_3 vm) (sem (.u32wrappingAddImm 3) vm.stack) := by
  instr_tac Generated.ops_u32wrapping_add_3

theorem refines_u32overflowing_add_3 : ∀ vm : Vm, 16 ≤ vm.stack.length →
    Refines (stackRun Generated.ops_u32overflowing_add_3 vm) (sem (.u32overflowingAddImm 3) vm.stack) := by
  instr_tac Generated.ops_u32overflowing_add_3

theorem refines_u32wrapping_sub_3 : ∀ vm : Vm, 16 ≤ vm.stack.length →
    Refines (stackRun Generated.ops_u32wrapping_sub_3 vm) (sem (.u32wrappingSubImm 3) vm.stack) := by
  instr_tac Generated.ops_u32wrapping_sub_3

theorem refines_u32overflowing_sub_3 : ∀ vm : Vm, 16 ≤ vm.stack.length →
    Refines (stackRun Generated.ops_u32overflowing_sub_3 vm) (sem (.u32overflowingSubImm 3) vm.stack) := by
  instr_tac Generated.ops_u32overflowing_sub_3

theorem refines_u32wrapping_mul_3 : ∀ vm : Vm, 16 ≤ vm.stack.length →
    Refines (stackRun Generated.ops_u32wrapping_mul_3 vm) (sem (.u32wrappingMulImm 3) vm.stack) := by
  instr_tac Generated.ops_u32wrapping_mul_3

theorem refines_u32overflowing_mul_3 : ∀ vm : Vm, 16 ≤ vm.stack.length →
    Refines (stackRun Generated.ops_u32overflowing_mul_3 vm) (sem (.u32overflowingMulImm 3) vm.stack) := by
  instr_tac Generated.ops_u32overflowing_mul_3

theorem refines_u32div_3 : ∀ vm : Vm, 16 ≤ vm.stack.length →
    Refines (stackRun Generated.ops_u32div_3 vm) (sem (.u32divImm 3) vm.stack) := by
  instr_tac Generated.ops_u32div_3

theorem refines_u32mod_3 : ∀ vm : Vm, 16 ≤ vm.stack.length →
    Refines (stackRun Generated.ops_u32mod_3 vm) (sem (.u32modImm 3) vm.stack) := by
  instr_tac Generated.ops_u32mod_3

theorem refines_u32divmod_3 : ∀ vm : Vm, 16 ≤ vm.stack.length →
    Refines (stackRun Generated.ops_u32divmod_3 vm) (sem (.u32divmodImm 3) vm.stack) := by
  instr_tac Generated.ops_u32divmod_3

theorem refines_u32wrapping_add_7 : ∀ vm : Vm, 16 ≤ vm.stack.length →
    Refines (stackRun Generated.ops_u32wrapping_add_7 vm) (sem (.u32wrappingAddImm 7) vm.stack) := by
  instr_tac Generated.ops_u32wrapping_add_7

theorem refines_u32overflowing_add_7 : ∀ vm : Vm, 16 ≤ vm.stack.length →
    Refines (stackRun Generated.ops_u32overflowing_add_7 vm) (sem (.u32overflowingAddImm 7) vm.stack) := by
  instr_tac Generated.ops_u32overflowing_add_7

theorem refines_u32wrapping_sub_7 : ∀ vm : Vm, 16 ≤ vm.stack.length →
    Refines (stackRun Generated.ops_u32wrapping_sub_7 vm) (sem (.u32wrappingSubImm 7) vm.stack) := by
  instr_tac Generated.ops_u32wrapping_sub_7

theorem refines_u32overflowing_sub_7 : ∀ vm : Vm, 16 ≤ vm.stack.length →
    Refines (stackRun Generated.ops_u32overflowing_sub_7 vm) (sem (.u32overflowingSubImm 7) vm.stack) := by
  instr_tac Generated.ops_u32overflowing_sub_7

theorem refines_u32wrapping_mul_7 : ∀ vm : Vm, 16 ≤ vm.stack.length →
    Refines (stackRun Generated.ops_u32wrapping_mul_7 vm) (sem (.u32wrappingMulImm 7) vm.stack) := by
  instr_tac Generated.ops_u32wrapping_mul_7

theorem refines_u32overflowing_mul_7 : ∀ vm : Vm, 16 ≤ vm.stack.length →
    Refines (stackRun Generated.ops_u32overflowing_mul_7 vm) (sem (.u32overflowingMulImm 7) vm.stack) := by
  instr_tac Generated.ops_u32overflowing_mul_7

theorem refines_u32div_7 : ∀ vm : Vm, 16 ≤ vm.stack.length →
    Refines (stackRun Generated.ops_u32div_7 vm) (sem (.u32divImm 7) vm.stack) := by
  instr_tac Generated.ops_u32div_7

theorem refines_u32mod_7 : ∀ vm : Vm, 16 ≤ vm.stack.length →
    Refines (stackRun Generated.ops_u32mod_7 vm) (sem (.u32modImm 7) vm.stack) := by
  instr_tac Generated.ops_u32mod_7

theorem refines_u32divmod_7 : ∀ vm : Vm, 16 ≤ vm.stack.length →
    Refines (stackRun Generated.ops_u32divmod_7 vm) (sem (.u32divmodImm 7) vm.stack) := by
  instr_tac Generated.ops_u32divmod_7

theorem refines_u32wrapping_add_65536 : ∀ vm : Vm, 16 ≤ vm.stack.length →
    Refines (stackRun Generated.ops_u32wrapping_add_65536 vm) (sem (.u32wrappingAddImm 65536) vm.stack) := by
  instr_tac Generated.ops_u32wrapping_add_65536

theorem refines_u32overflowing_add_65536 : ∀ vm : Vm, 16 ≤ vm.stack.length →
    Refines (stackRun Generated.ops_u32overflowing_add_65536 vm) (sem (.u32overflowingAddImm 65536) vm.stack) := by
  instr_tac Generated.ops_u32overflowing_add_65536

theorem refines_u32wrapping_sub_65536 : ∀ vm : Vm, 16 ≤ vm.stack.length →
    Refines (stackRun Generated.ops_u32wrapping_sub_65536 vm) (sem (.u32wrappingSubImm 65536) vm.stack) := by
  instr_tac Generated.ops_u32wrapping_sub_65536

theorem refines_u32overflowing_sub_65536 : ∀ vm : Vm, 16 ≤ vm.stack.length →
    Refines (stackRun Generated.ops_u32overflowing_sub_65536 vm) (sem (.u32overflowingSubImm 65536) vm.stack) := by
  instr_tac Generated.ops_u32overflowing_sub_65536

theorem refines_u32wrapping_mul_65536 : ∀ vm : Vm, 16 ≤ vm.stack.length →
    Refines (stackRun Generated.ops_u32wrapping_mul_65536 vm) (sem (.u32wrappingMulImm 65536) vm.stack) := by
  instr_tac Generated.ops_u32wrapping_mul_65536

theorem refines_u32overflowing_mul_65536 : ∀ vm : Vm, 16 ≤ vm.stack.length →
    Refines (stackRun Generated.ops_u32overflowing_mul_65536 vm) (sem (.u32overflowingMulImm 65536) vm.stack) := by
  instr_tac Generated.ops_u32overflowing_mul_65536

theorem refines_u32div_65536 : ∀ vm : Vm, 16 ≤ vm.stack.length →
    Refines (stackRun Generated.ops_u32div_65536 vm) (sem (.u32divImm 65536) vm.stack) := by
  instr_tac Generated.ops_u32div_65536

theorem refines_u32mod_65536 : ∀ vm : Vm, 16 ≤ vm.stack.length →
    Refines (stackRun Generated.ops_u32mod_65536 vm) (sem (.u32modImm 65536) vm.stack) := by
  instr_tac Generated.ops_u32mod_65536

theorem refines_u32divmod_65536 : ∀ vm : Vm, 16 ≤ vm.stack.length →
    Refines (stackRun Generated.ops_u32divmod_65536 vm) (sem (.u32divmodImm 65536) vm.stack) := by
  instr_tac Generated.ops_u32divmod_65536

theorem refines_u32wrapping_add_4294967295 : ∀ vm : Vm, 16 ≤ vm.stack.length →
    Refines (stackRun Generated.ops_u32wrapping_add_4294967295 vm) (sem (.u32wrappingAddImm 4294967295) vm.stack) := by
  instr_tac Generated.ops_u32wrapping_add_4294967295

theorem refines_u32overflowing_add_4294967295 : ∀ vm : Vm, 16 ≤ vm.stack.length →
    Refines (stackRun Generated.ops_u32overflowing_add_4294967295 vm) (sem (.u32overflowingAddImm 4294967295) vm.stack) := by
  instr_tac Generated.ops_u32overflowing_add_4294967295

theorem refines_u32wrapping_sub_4294967295 : ∀ vm : Vm, 16 ≤ vm.stack.length →
    Refines (stackRun Generated.ops_u32wrapping_sub_4294967295 vm) (sem (.u32wrappingSubImm 4294967295) vm.stack) := by
  instr_tac Generated.ops_u32wrapping_sub_4294967295

theorem refines_u32overflowing_sub_4294967295 : ∀ vm : Vm, 16 ≤ vm.stack.length →
    Refines (stackRun Generated.ops_u32overflowing_sub_4294967295 vm) (sem (.u32overflowingSubImm 4294967295) vm.stack) := by
  instr_tac Generated.ops_u32overflowing_sub_4294967295

theorem refines_u32wrapping_mul_4294967295 : ∀ vm : Vm, 16 ≤ vm.stack.length →
    Refines (stackRun Generated.ops_u32wrapping_mul_4294967295 vm) (sem (.u32wrappingMulImm 4294967295) vm.stack) := by
  instr_tac Generated.ops_u32wrapping_mul_4294967295

theorem refines_u32overflowing_mul_4294967295 : ∀ vm : Vm, 16 ≤ vm.stack.length →
    Refines (stackRun Generated.ops_u32overflowing_mul_4294967295 vm) (sem (.u32overflowingMulImm 4294967295) vm.stack) := by
  instr_tac Generated.ops_u32overflowing_mul_4294967295

theorem refines_u32div_4294967295 : ∀ vm : Vm, 16 ≤ vm.stack.length →
    Refines (stackRun Generated.ops_u32div_4294967295 vm) (sem (.u32divImm 4294967295) vm.stack) := by
  instr_tac Generated.ops_u32div_4294967295

theorem refines_u32mod_4294967295 : ∀ vm : Vm, 16 ≤ vm.stack.length →
    Refines (stackRun Generated.ops_u32mod_4294967295 vm) (sem (.u32modImm 4294967295) vm.stack) := by
  instr_tac Generated.ops_u32mod_4294967295

theorem refines_u32divmod_4294967295 : ∀ vm : Vm, 16 ≤ vm.stack.length →
    Refines (stackRun Generated.ops_u32divmod_4294967295 vm) (sem (.u32divmodImm 4294967295) vm.stack) := by
  instr_tac Generated.ops_u32divmod_4294967295

theorem refines_push_1_2 : ∀ vm : Vm, 16 ≤ vm.stack.length →
    Refines (stackRun Generated.ops_push_1_2 vm) (sem (.push [1, 2]) vm.stack) := by
  instr_tac Generated.ops_push_1_2

theorem refines_push_1_2_3_4 : ∀ vm : Vm, 16 ≤ vm.stack.length →
    Refines (stackRun Generated.ops_push_1_2_3_4 vm) (sem (.push [1, 2, 3, 4]) vm.stack) := by
  instr_tac Generated.ops_push_1_2_3_4

theorem refines_push_18446744069414584320_0_4294967296_1_2_3_4_5_6_7_8_9_10_11_12_13 : ∀ vm : Vm, 16 ≤ vm.stack.length →
    Refines (stackRun Generated.ops_push_18446744069414584320_0_4294967296_1_2_3_4_5_6_7_8_9_10_11_12_13 vm) (sem (.push [18446744069414584320, 0, 4294967296, 1, 2, 3, 4, 5, 6, 7, 8, 9, 10, 11, 12, 13]) vm.stack) := by
  instr_tac Generated.ops_push_18446744069414584320_0_4294967296_1_2_3_4_5_6_7_8_9_10_11_12_13

end Miden.C05
