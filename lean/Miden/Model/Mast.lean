/-
  MAST hashing as specified in `docs/src/design/programs.md` and implemented by
  `core/src/program/blocks/*_block.rs`.
-/
import Miden.Model.Exec
namespace Miden

def zeroDigest : List Nat := [0, 0, 0, 0]

/-- Hash of a code block. -/
def Block.hash : Block → List Nat
  | .span ops => Rpo.hashElements (spanGroupElems (batchOps ops))
  | .join a b => Rpo.mergeInDomain a.hash b.hash Op.join.code
  | .split t f => Rpo.mergeInDomain t.hash f.hash Op.split.code
  | .loop body => Rpo.mergeInDomain body.hash zeroDigest Op.loop.code
  | .call target isSyscall =>
    Rpo.mergeInDomain target.toList zeroDigest (if isSyscall then Op.syscall.code else Op.call.code)
  | .dyn => Rpo.mergeInDomain zeroDigest zeroDigest Op.dyn.code
  | .proxy target => target.toList

end Miden
