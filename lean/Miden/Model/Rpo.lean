/-
  Rescue Prime Optimized permutation and the hashing modes the VM uses
  (miden-crypto 0.8.4 `hash/rescue/rpo/mod.rs`).  Round constants and the MDS matrix are exported
  from the linked crate on every run into `Miden/Generated/RpoConsts.lean`.
-/
import Miden.Model.Felt
import Miden.Generated.RpoConsts
namespace Miden
namespace Rpo

def applyMds (s : List Nat) : List Nat :=
  Generated.mds.map fun row => (List.zipWith (· * ·) row s).foldl (· + ·) 0 % P

def addConsts (s c : List Nat) : List Nat := List.zipWith fadd s c

def sbox (x : Nat) : Nat :=
  let x2 := fmul x x
  let x4 := fmul x2 x2
  let x3 := fmul x2 x
  fmul x4 x3

/-- `x ^ (1/7)`, i.e. `x ^ 10540996611094048183`. -/
def invSbox (x : Nat) : Nat := fpow x 10540996611094048183

def round (s : List Nat) (r : Nat) : List Nat :=
  let s := applyMds s
  let s := addConsts s (Generated.ark1.getD r [])
  let s := s.map sbox
  let s := applyMds s
  let s := addConsts s (Generated.ark2.getD r [])
  s.map invSbox

/-- `Rpo256::apply_permutation` on a 12-element state. -/
def permute (s : List Nat) : List Nat :=
  (List.range 7).foldl round s

def digestOf (s : List Nat) : List Nat := (s.drop 4).take 4

/-- `Rpo256::merge_in_domain([a, b], domain)`; `merge` is the case `domain = 0`. -/
def mergeInDomain (a b : List Nat) (domain : Nat) : List Nat :=
  digestOf (permute ([0, domain, 0, 0] ++ a ++ b))

def merge (a b : List Nat) : List Nat := mergeInDomain a b 0

/-- Absorb full 8-element chunks, then the padded remainder (`hash_elements`). -/
def absorb : Nat → List Nat → List Nat → List Nat
  | 0, st, _ => st
  | fuel + 1, st, els =>
    if els.length ≥ 8 then
      absorb fuel (permute (st.take 4 ++ els.take 8)) (els.drop 8)
    else if els.isEmpty then st
    else
      let padded := els ++ [1] ++ List.replicate (7 - els.length) 0
      permute (st.take 4 ++ padded)

/-- `Rpo256::hash_elements`. -/
def hashElements (els : List Nat) : List Nat :=
  let cap0 := if els.length % 8 = 0 then 0 else 1
  digestOf (absorb (els.length + 1) ([cap0, 0, 0, 0] ++ List.replicate 8 0) els)

end Rpo
end Miden
