/-
  The VM's native operations (`core/src/operations/mod.rs: enum Operation`), their 7-bit opcodes,
  immediates and the control-op predicate.  The opcode table is also regenerated from the Rust
  source on every run (`Miden/Generated/OpcodeTable.lean`); `Props/C08.lean` proves the two agree.
-/
namespace Miden

inductive Op where
  | noop | assert (code : Nat) | fmpadd | fmpupdate | sdepth | caller | clk
  | join | split | loop | call | dyn | syscall | span | «end» | «repeat» | respan | halt
  | add | neg | mul | inv | incr | and | or | not | eq | eqz | expacc
  | ext2mul
  | u32split | u32add | u32assert2 (code : Nat) | u32add3 | u32sub | u32mul | u32madd | u32div
  | u32and | u32xor
  | pad | drop
  | dup0 | dup1 | dup2 | dup3 | dup4 | dup5 | dup6 | dup7 | dup9 | dup11 | dup13 | dup15
  | swap | swapw | swapw2 | swapw3 | swapdw
  | movup2 | movup3 | movup4 | movup5 | movup6 | movup7 | movup8
  | movdn2 | movdn3 | movdn4 | movdn5 | movdn6 | movdn7 | movdn8
  | cswap | cswapw
  | push (v : Nat) | advpop | advpopw | mloadw | mstorew | mload | mstore | mstream | pipe
  | hperm | mpverify | mrupdate | frie2f4 | rcombbase
  deriving Repr, DecidableEq, Inhabited

namespace Op

/-- `Operation::op_code`. -/
def code : Op → Nat
  | noop => 0b0000000 | eqz => 0b0000001 | neg => 0b0000010 | inv => 0b0000011
  | incr => 0b0000100 | not => 0b0000101 | fmpadd => 0b0000110 | mload => 0b0000111
  | swap => 0b0001000 | caller => 0b0001001 | movup2 => 0b0001010 | movdn2 => 0b0001011
  | movup3 => 0b0001100 | movdn3 => 0b0001101 | advpopw => 0b0001110 | expacc => 0b0001111
  | movup4 => 0b0010000 | movdn4 => 0b0010001 | movup5 => 0b0010010 | movdn5 => 0b0010011
  | movup6 => 0b0010100 | movdn6 => 0b0010101 | movup7 => 0b0010110 | movdn7 => 0b0010111
  | swapw => 0b0011000 | ext2mul => 0b0011001 | movup8 => 0b0011010 | movdn8 => 0b0011011
  | swapw2 => 0b0011100 | swapw3 => 0b0011101 | swapdw => 0b0011110
  | assert _ => 0b0100000 | eq => 0b0100001 | add => 0b0100010 | mul => 0b0100011
  | and => 0b0100100 | or => 0b0100101 | u32and => 0b0100110 | u32xor => 0b0100111
  | frie2f4 => 0b0101000 | drop => 0b0101001 | cswap => 0b0101010 | cswapw => 0b0101011
  | mloadw => 0b0101100 | mstore => 0b0101101 | mstorew => 0b0101110 | fmpupdate => 0b0101111
  | pad => 0b0110000 | dup0 => 0b0110001 | dup1 => 0b0110010 | dup2 => 0b0110011
  | dup3 => 0b0110100 | dup4 => 0b0110101 | dup5 => 0b0110110 | dup6 => 0b0110111
  | dup7 => 0b0111000 | dup9 => 0b0111001 | dup11 => 0b0111010 | dup13 => 0b0111011
  | dup15 => 0b0111100 | advpop => 0b0111101 | sdepth => 0b0111110 | clk => 0b0111111
  | u32add => 0b1000000 | u32sub => 0b1000010 | u32mul => 0b1000100 | u32div => 0b1000110
  | u32split => 0b1001000 | u32assert2 _ => 0b1001010 | u32add3 => 0b1001100 | u32madd => 0b1001110
  | hperm => 0b1010000 | mpverify => 0b1010001 | pipe => 0b1010010 | mstream => 0b1010011
  | split => 0b1010100 | loop => 0b1010101 | span => 0b1010110 | join => 0b1010111
  | dyn => 0b1011000 | rcombbase => 0b1011001
  | mrupdate => 0b1100000 | push _ => 0b1100100 | syscall => 0b1101000 | call => 0b1101100
  | «end» => 0b1110000 | «repeat» => 0b1110100 | respan => 0b1111000 | halt => 0b1111100

/-- `Operation::imm_value`. -/
def imm : Op → Option Nat
  | push v => some v
  | _ => none

def hasImm : Op → Bool
  | push _ => true
  | _ => false

/-- `Operation::is_control_op`. -/
def isControl : Op → Bool
  | «end» | join | split | loop | «repeat» | respan | span | halt | call | syscall | dyn => true
  | _ => false

/-- Variant name as in the Rust enum (lower-cased), used by the line protocol and the generated
    opcode table. -/
def name : Op → String
  | noop => "noop" | assert _ => "assert" | fmpadd => "fmpadd" | fmpupdate => "fmpupdate"
  | sdepth => "sdepth" | caller => "caller" | clk => "clk"
  | join => "join" | split => "split" | loop => "loop" | call => "call" | dyn => "dyn"
  | syscall => "syscall" | span => "span" | «end» => "end" | «repeat» => "repeat"
  | respan => "respan" | halt => "halt"
  | add => "add" | neg => "neg" | mul => "mul" | inv => "inv" | incr => "incr" | and => "and"
  | or => "or" | not => "not" | eq => "eq" | eqz => "eqz" | expacc => "expacc"
  | ext2mul => "ext2mul"
  | u32split => "u32split" | u32add => "u32add" | u32assert2 _ => "u32assert2"
  | u32add3 => "u32add3" | u32sub => "u32sub" | u32mul => "u32mul" | u32madd => "u32madd"
  | u32div => "u32div" | u32and => "u32and" | u32xor => "u32xor"
  | pad => "pad" | drop => "drop"
  | dup0 => "dup0" | dup1 => "dup1" | dup2 => "dup2" | dup3 => "dup3" | dup4 => "dup4"
  | dup5 => "dup5" | dup6 => "dup6" | dup7 => "dup7" | dup9 => "dup9" | dup11 => "dup11"
  | dup13 => "dup13" | dup15 => "dup15"
  | swap => "swap" | swapw => "swapw" | swapw2 => "swapw2" | swapw3 => "swapw3"
  | swapdw => "swapdw"
  | movup2 => "movup2" | movup3 => "movup3" | movup4 => "movup4" | movup5 => "movup5"
  | movup6 => "movup6" | movup7 => "movup7" | movup8 => "movup8"
  | movdn2 => "movdn2" | movdn3 => "movdn3" | movdn4 => "movdn4" | movdn5 => "movdn5"
  | movdn6 => "movdn6" | movdn7 => "movdn7" | movdn8 => "movdn8"
  | cswap => "cswap" | cswapw => "cswapw"
  | push _ => "push" | advpop => "advpop" | advpopw => "advpopw" | mloadw => "mloadw"
  | mstorew => "mstorew" | mload => "mload" | mstore => "mstore" | mstream => "mstream"
  | pipe => "pipe"
  | hperm => "hperm" | mpverify => "mpverify" | mrupdate => "mrupdate" | frie2f4 => "frie2f4"
  | rcombbase => "rcombbase"

/-- One representative of every constructor (payload 0). -/
def all : List Op :=
  [noop, assert 0, fmpadd, fmpupdate, sdepth, caller, clk,
   join, split, loop, call, dyn, syscall, span, «end», «repeat», respan, halt,
   add, neg, mul, inv, incr, and, or, not, eq, eqz, expacc, ext2mul,
   u32split, u32add, u32assert2 0, u32add3, u32sub, u32mul, u32madd, u32div, u32and, u32xor,
   pad, drop, dup0, dup1, dup2, dup3, dup4, dup5, dup6, dup7, dup9, dup11, dup13, dup15,
   swap, swapw, swapw2, swapw3, swapdw,
   movup2, movup3, movup4, movup5, movup6, movup7, movup8,
   movdn2, movdn3, movdn4, movdn5, movdn6, movdn7, movdn8, cswap, cswapw,
   push 0, advpop, advpopw, mloadw, mstorew, mload, mstore, mstream, pipe,
   hperm, mpverify, mrupdate, frie2f4, rcombbase]

/-- Parse a protocol token: `name` or `name:payload`. -/
def ofToken (t : String) : Option Op :=
  match t.splitOn ":" with
  | [n] => all.find? (fun o => o.name == n && !(n == "push" || n == "assert" || n == "u32assert2"))
  | [n, p] =>
    match p.toNat? with
    | none => none
    | some v =>
      if n == "push" then some (push v)
      else if n == "assert" then some (assert v)
      else if n == "u32assert2" then some (u32assert2 v)
      else none
  | _ => none

def toToken : Op → String
  | push v => s!"push:{v}"
  | assert c => s!"assert:{c}"
  | u32assert2 c => s!"u32assert2:{c}"
  | o => o.name

end Op
end Miden
