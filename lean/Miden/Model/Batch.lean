/-
  Operation batching (`core/src/program/blocks/span_block.rs`): `OpBatchAccumulator`,
  `batch_ops`, `get_span_op_group_count`, and the decoding of group values back to opcodes.
-/
import Miden.Model.Op
namespace Miden

def GROUP_SIZE : Nat := 9
def BATCH_SIZE : Nat := 8

/-- `OpBatch`. `groups`/`opCounts` always have length 8. -/
structure OpBatch where
  ops : List Op
  groups : List Nat
  opCounts : List Nat
  numGroups : Nat
  deriving Repr, DecidableEq, Inhabited

/-- `OpBatchAccumulator`. -/
structure Acc where
  ops : List Op := []          -- stored in reverse order
  groups : List Nat := List.replicate 8 0
  opCounts : List Nat := List.replicate 8 0
  group : Nat := 0
  opIdx : Nat := 0
  groupIdx : Nat := 0
  nextGroupIdx : Nat := 1
  deriving Repr, Inhabited

namespace Acc

def canAccept (a : Acc) (op : Op) : Bool :=
  if op.hasImm then
    if a.opIdx < 8 then a.nextGroupIdx < 8
    else a.nextGroupIdx + 1 < 8
  else a.opIdx < 9 || a.nextGroupIdx < 8

def finalizeGroup (a : Acc) : Acc :=
  { a with
    groups := a.groups.set a.groupIdx a.group
    opCounts := a.opCounts.set a.groupIdx a.opIdx
    groupIdx := a.nextGroupIdx
    nextGroupIdx := a.nextGroupIdx + 1
    opIdx := 0
    group := 0 }

/-- First step of `add_op`: if the current group is full, finalize it and start a new one. -/
def startGroupIfFull (a : Acc) : Acc := if a.opIdx = 9 then a.finalizeGroup else a

/-- Second step of `add_op` for an operation carrying an immediate: such an operation may not be
    the last one of a group; its immediate goes into the next free group. -/
def placeImm (a : Acc) (v : Nat) : Acc :=
  let a := if a.opIdx = 8 then a.finalizeGroup else a
  { a with groups := a.groups.set a.nextGroupIdx v, nextGroupIdx := a.nextGroupIdx + 1 }

/-- Last step of `add_op`: append the opcode to the current group. -/
def pushOp (a : Acc) (op : Op) : Acc :=
  { a with group := a.group + op.code * 2 ^ (7 * a.opIdx), ops := op :: a.ops, opIdx := a.opIdx + 1 }

def addOp (a : Acc) (op : Op) : Acc :=
  let a := a.startGroupIfFull
  let a := match op.imm with
    | some v => a.placeImm v
    | none => a
  a.pushOp op

def intoBatch (a : Acc) : OpBatch :=
  let a := if a.group ≠ 0 ∨ a.opIdx ≠ 0 then
      { a with groups := a.groups.set a.groupIdx a.group,
               opCounts := a.opCounts.set a.groupIdx a.opIdx }
    else a
  { ops := a.ops.reverse, groups := a.groups, opCounts := a.opCounts, numGroups := a.nextGroupIdx }

end Acc

/-- The loop of `batch_ops` (without the final hash). -/
def batchLoop : List Op → Acc → List OpBatch → List OpBatch
  | [], acc, done => if acc.ops.isEmpty then done.reverse else (acc.intoBatch :: done).reverse
  | op :: rest, acc, done =>
    if acc.canAccept op then batchLoop rest (acc.addOp op) done
    else batchLoop rest (({} : Acc).addOp op) (acc.intoBatch :: done)

def batchOps (ops : List Op) : List OpBatch := batchLoop ops {} []

def nextPow2 (n : Nat) : Nat :=
  if n ≤ 1 then 1 else if n ≤ 2 then 2 else if n ≤ 4 then 4 else if n ≤ 8 then 8 else 16

/-- `get_span_op_group_count`. -/
def spanGroupCount (bs : List OpBatch) : Nat :=
  match bs.getLast? with
  | none => 0
  | some l => (bs.length - 1) * 8 + nextPow2 l.numGroups

/-- All group elements of a span, in hashing order. -/
def spanGroupElems (bs : List OpBatch) : List Nat := bs.flatMap (·.groups)

/-- Decode one op group value into its `n` 7-bit opcodes (least-significant first). -/
def decodeGroup : Nat → Nat → List Nat
  | 0, _ => []
  | n + 1, g => (g % 128) :: decodeGroup n (g / 128)

end Miden
