/-
  `ExecutionOptions::new` (`air/src/options.rs`).
-/
namespace Miden

def MIN_TRACE_LEN : Nat := 64
def U32_MAX : Nat := 4294967295

def nextPow2Nat (n : Nat) : Nat :=
  if n ≤ 1 then 1 else 2 ^ (Nat.log2 (n - 1) + 1)

/-- `u32::next_power_of_two` wraps to 0 on overflow in release builds.
    Returns `(max_cycles, expected_cycles)` or `none` when the option set is refused. -/
def execOptionsNew (maxCycles : Option Nat) (expected : Nat) : Option (Nat × Nat) :=
  let m := maxCycles.getD U32_MAX
  if m < MIN_TRACE_LEN then none
  else if m < expected then none
  else some (m, max (nextPow2Nat expected % 4294967296) MIN_TRACE_LEN)

end Miden
