/-
  `ExecutionOptions::new` (`air/src/options.rs`).
-/
namespace Miden

def MIN_TRACE_LEN : Nat := 64
def U32_MAX : Nat := 4294967295

def nextPow2Nat (n : Nat) : Nat :=
  if n ≤ 1 then 1 else 2 ^ (Nat.log2 (n - 1) + 1)

/-- `u32::next_power_of_two` wraps to 0 on overflow in release builds.
    Returns `(max_cycles, expected_cycles)` or `none` when the option set is refused. -/
def execOptionsNew (maxCycles : Option Nat) (expected : Nat) : Option (Nat × Nat) :=
  let m := maxCycles.getD U32_MAX
  if m < MIN_TRACE_LEN then none
  else if m < expected then none
  else some (m, max (nextPow2Nat expected % 4294967296) MIN_TRACE_LEN)

/-- `processor/src/trace/mod.rs: finalize_trace`: the length of the execution trace. `clk` executed
    cycles need one more row for HALT, the chiplet rows one more padding row, every component one
    random row at the end; the result is the next power of two (at least `MIN_TRACE_LEN`).
    No capacity hint enters the formula. -/
def traceLen (clk rangeRows chipletRows : Nat) : Nat :=
  max MIN_TRACE_LEN (nextPow2Nat (max (max rangeRows (clk + 1)) (chipletRows + 1) + 1))

end Miden
