/-
  Proof options, the verifier's acceptance sets (`verifier/src/lib.rs: verify`), winterfell's
  conjectured-security formula (`winter-air 0.8.3 proof/mod.rs: get_conjectured_security`) and the
  byte envelope of an execution proof (`air/src/proof.rs`).
-/
namespace Miden

/-- `winter_air::ProofOptions` (field extension given by its degree). -/
structure ProofOpts where
  numQueries : Nat
  blowup : Nat
  grinding : Nat
  extDegree : Nat
  friFolding : Nat
  friRemainderMaxDegree : Nat
  deriving DecidableEq, Repr, Inhabited

def REGULAR_96 : ProofOpts := ⟨27, 8, 16, 2, 8, 255⟩
def REGULAR_128 : ProofOpts := ⟨27, 16, 21, 3, 8, 255⟩
def RECURSIVE_96 : ProofOpts := ⟨27, 8, 16, 2, 4, 7⟩
def RECURSIVE_128 : ProofOpts := ⟨27, 16, 21, 3, 4, 7⟩

/-- `HashFunction::try_from(u8)`. -/
def hashTag (b : Nat) : Option Nat := if b ≤ 2 then some b else none

/-- The option sets `verify` accepts for a proof labelled with hash-function tag `t`. -/
def acceptable (t : Nat) : List ProofOpts :=
  if t = 0 then [REGULAR_96] else if t = 1 then [REGULAR_128]
  else if t = 2 then [RECURSIVE_96, RECURSIVE_128] else []

/-- `get_conjectured_security` for a trace of length `2^logLen` over the 64-bit field. -/
def conjecturedSecurity (o : ProofOpts) (logLen : Nat) (collisionResistance : Nat) : Nat :=
  let fieldSecurity := 64 * o.extDegree - (logLen + Nat.log2 o.blowup)
  let q := Nat.log2 o.blowup * o.numQueries
  let querySecurity := if q ≥ 80 then q + o.grinding else q
  min (min fieldSecurity querySecurity - 1) collisionResistance

/-- `ExecutionProof::to_bytes`: the tag byte followed by the STARK proof body. -/
def proofToBytes (tag : Nat) (body : List Nat) : List Nat := tag :: body

/-- `ExecutionProof::from_bytes` with the body decoder abstracted to the identity. -/
def proofFromBytes (bs : List Nat) : Option (Nat × List Nat) :=
  if bs.length < 2 then none
  else match bs with
    | t :: body => match hashTag t with
      | some tag => some (tag, body)
      | none => none
    | [] => none

end Miden
