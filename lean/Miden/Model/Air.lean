/-
  The stack part of the processor AIR (`air/src/constraints/stack/**`): 110 transition constraints
  in the order in which `stack::enforce_constraints` writes them.

  The model is generic over the coefficient type (`Add`, `Sub`, `Mul`, `NatCast` only), so the very
  same definition is *executed* at `GF` (canonical residues, for the correspondence with the Rust
  evaluator) and *reasoned about* at an arbitrary field in `Props/C04.lean`.

  Operation flags are modelled at the level the documentation specifies them: on a row whose seven
  op bits (and the two degree-reduction columns) encode opcode `k`, the flag of operation `j` is the
  indicator `k = j`.  The correspondence run therefore feeds both evaluators rows with valid op
  bits (all 88 opcodes) and random field elements everywhere else.
-/
import Miden.Model.Op
import Miden.Model.Felt
namespace Miden
namespace Air

/-- The cells of a trace row the stack constraints read. -/
structure Row (F : Type) where
  clk : F
  fmp : F
  opcode : Nat
  /-- user-operation helper registers h0..h5 (decoder hasher columns 2..7) -/
  hlp : List F
  /-- stack top s0..s15 -/
  s : List F
  b0 : F
  b1 : F
  h0 : F

variable {F : Type} [Add F] [Sub F] [Mul F] [NatCast F]

def c (n : Nat) : F := ((n : Nat) : F)

def Row.st (r : Row F) (i : Nat) : F := r.s.getD i (c 0)
def Row.hp (r : Row F) (i : Nat) : F := r.hlp.getD i (c 0)

/-- Indicator of opcode `k`. -/
def Row.is (r : Row F) (k : Nat) : F := if r.opcode = k then c 1 else c 0
/-- Indicator of an opcode range `lo ≤ opcode < hi`. -/
def Row.inR (r : Row F) (lo hi : Nat) : F := if lo ≤ r.opcode ∧ r.opcode < hi then c 1 else c 0

def isBinary (v : F) : F := v * v - v
def bnot (v : F) : F := c 1 - v

-- Decoder flags stored in the helper registers on END rows.
def Row.isLoopEnd (r : Row F) : F := r.hp 3
def Row.isCallEnd (r : Row F) : F := r.hp 4
def Row.isSyscallEnd (r : Row F) : F := r.hp 5

/-- `OpFlags::overflow`: `(b0 - 16) * h0`. -/
def Row.overflow (r : Row F) : F := (r.b0 - c 16) * r.h0

-- opcodes used below
def oEND : Nat := 112
def oREPEAT : Nat := 116

/-- `no_shift_flags[i]`. -/
def noShift (r : Row F) (i : Nat) : F :=
  let f0 : F := r.is 0 + r.is 74 + r.is 81 + r.is 86 + r.is 87 + r.is 120 + r.is 124 + r.is 108
            + r.is 112 * bnot r.isLoopEnd
  let f1 := f0 + r.inR 1 8
  let f2 := f1 + r.is 8 + r.inR 64 72
  let f3 := f2 + r.inR 10 12
  let f4 := f3 + r.inR 12 14 + r.inR 14 16 + r.inR 28 30 + r.is 25 + r.is 96 + r.is 9
  let f5 := f4 + r.inR 16 18
  let f6 := f5 + r.inR 18 20
  let f7 := f6 + r.inR 20 22
  -- PIPE, MSTREAM: no change from position 8 on, except the pointer in position 12
  let pm : F := r.is 82 + r.is 83
  let f8 := f7 + r.inR 22 24 + r.is 24 - r.is 28 + pm
  let f9 := f8 + r.inR 26 28
  let f12 := f9 - r.is 29 + r.is 28 + r.is 80 - pm
  let f13 := f12 + pm
  match i with
  | 0 => f0 | 1 => f1 | 2 => f2 | 3 => f3 | 4 => f4 | 5 => f5 | 6 => f6 | 7 => f7 | 8 => f8
  | 9 => f9 | 10 => f9 | 11 => f9 | 12 => f12 | _ => f13

/-- `left_shift_flags[i]` (defined for `1 ≤ i ≤ 15`). -/
def leftShift (r : Row F) (i : Nat) : F :=
  let movdnn : F := r.is 11 + r.is 13 + r.is 17 + r.is 19 + r.is 21 + r.is 23 + r.is 27
  let f1 : F := r.is 32 + movdnn + r.is 41 + r.is 45 + r.is 47 + r.is 46 + (r.is 84 + r.is 85)
            + r.is 116 + r.is 112 * r.isLoopEnd
  let f2 := f1 + r.inR 33 40
  let f3 := f2 + (r.is 76 + r.is 78) + r.is 42 - r.is 11
  let f4 := f3 - r.is 13
  let f5 := f4 + r.is 44 - r.is 17
  let f6 := f5 - r.is 19
  let f7 := f6 - r.is 21
  let f8 := f7 - r.is 23
  let f9 := f8 + r.is 43 - r.is 27
  match i with
  | 0 => c 0 | 1 => f1 | 2 => f2 | 3 => f3 | 4 => f4 | 5 => f5 | 6 => f6 | 7 => f7 | 8 => f8
  | _ => f9

/-- `right_shift_flags[i]`. -/
def rightShift (r : Row F) (i : Nat) : F :=
  let movupn : F := r.is 10 + r.is 12 + r.is 16 + r.is 18 + r.is 20 + r.is 22 + r.is 26
  let f0 : F := r.inR 48 64 + r.is 100 + movupn
  let f1 := f0 + r.is 72
  let f2 := f1 - r.is 10
  let f3 := f2 - r.is 12
  let f4 := f3 - r.is 16
  let f5 := f4 - r.is 18
  let f6 := f5 - r.is 20
  let f7 := f6 - r.is 22
  let f8 := f7 - r.is 26
  match i with
  | 0 => f0 | 1 => f1 | 2 => f2 | 3 => f3 | 4 => f4 | 5 => f5 | 6 => f6 | 7 => f7 | _ => f8

/-- Scalar `right_shift` flag (PUSH, U32SPLIT and the `011` block). -/
def rightShiftAny (r : Row F) : F := r.inR 48 64 + r.is 100 + r.is 72
/-- Scalar `left_shift` flag. -/
def leftShiftAny (r : Row F) : F :=
  r.inR 32 48 + (r.is 76 + r.is 78) + (r.is 84 + r.is 85) + r.is 116 + r.is 112 * r.isLoopEnd

def topBinary (r : Row F) : F := r.is 5 + r.is 15 + r.is 36 + r.is 37 + r.is 42 + r.is 43

def two16 : Nat := 65536
def two48 : Nat := 281474976710656

def vLo (r : Row F) : F := c two16 * r.hp 1 + r.hp 0
def vHi (r : Row F) : F := c two16 * r.hp 3 + r.hp 2
def v48 (r : Row F) : F := c two32 * r.hp 2 + vLo r
def v64 (r : Row F) : F := c two48 * r.hp 3 + v48 r

/-- Overflow-table bookkeeping (4 constraints). -/
def overflowCs (cur nxt : Row F) : List F :=
  let callOrSys : F := cur.is 108 + cur.is 104
  let callOrSysEnd : F := cur.is 112 * (cur.isCallEnd + cur.isSyscallEnd)
  [ (nxt.b0 - cur.b0) * (c 1 - callOrSys - callOrSysEnd) + leftShiftAny cur * cur.overflow
      - rightShiftAny cur + callOrSys * (nxt.b0 - c 16),
    (c 1 - cur.overflow) * (cur.b0 - c 16),
    (nxt.b1 - cur.clk) * rightShiftAny cur,
    (c 1 - cur.overflow) * leftShiftAny cur * nxt.st 15 ]

/-- System operations: ASSERT, FMPADD, FMPUPDATE, CLK (4 constraints). -/
def systemCs (cur nxt : Row F) : List F :=
  [ cur.is 32 * (cur.st 0 - c 1),
    cur.is 6 * (cur.st 0 + cur.fmp - nxt.st 0),
    cur.is 47 * (cur.fmp + cur.st 0 - nxt.fmp),
    cur.is 63 * (nxt.st 0 - cur.clk) ]

/-- Field operations (22 constraints). -/
def fieldCs (cur nxt : Row F) : List F :=
  let a := cur.st 0; let b := cur.st 1
  [ cur.is 34 * (a + b - nxt.st 0),
    cur.is 2 * (a + nxt.st 0 - c 0),
    cur.is 35 * (a * b - nxt.st 0),
    cur.is 3 * (a * nxt.st 0 - c 1),
    cur.is 4 * (a + c 1 - nxt.st 0),
    cur.is 5 * (a + nxt.st 0 - c 1),
    cur.is 36 * isBinary b,
    cur.is 36 * (nxt.st 0 - a * b),
    cur.is 37 * isBinary b,
    cur.is 37 * (nxt.st 0 - (a + b - a * b)),
    cur.is 33 * ((a - b) * nxt.st 0 - c 0),
    cur.is 33 * (nxt.st 0 - (c 1 - (a - b) * cur.hp 0)),
    cur.is 1 * (a * nxt.st 0 - c 0),
    cur.is 1 * (nxt.st 0 - (c 1 - a * cur.hp 0)),
    -- EXPACC
    cur.is 15 * (nxt.st 1 - cur.st 1 * cur.st 1),
    cur.is 15 * (cur.hp 0 - c 1 - (cur.st 1 - c 1) * nxt.st 0),
    cur.is 15 * (nxt.st 2 - cur.st 2 * cur.hp 0),
    cur.is 15 * (cur.st 3 - (nxt.st 3 * c 2 + nxt.st 0)),
    -- EXT2MUL: a1 = s0, a0 = s1, b1 = s2, b0 = s3
    cur.is 25 * (nxt.st 0 - cur.st 0),
    cur.is 25 * (nxt.st 1 - cur.st 1),
    cur.is 25 * (nxt.st 2 - ((cur.st 3 + cur.st 2) * (cur.st 0 + cur.st 1) - cur.st 3 * cur.st 1)),
    cur.is 25 * (nxt.st 3 - (cur.st 3 * cur.st 1 - c 2 * cur.st 2 * cur.st 0)) ]

/-- Stack manipulation (49 constraints). -/
def manipCs (cur nxt : Row F) : List F :=
  let dm (mv dp k : Nat) : F := (cur.is mv + cur.is dp) * (nxt.st 0 - cur.st k)
  let swapw : F := cur.is 24; let swapw2 : F := cur.is 28; let swapw3 : F := cur.is 29
  let swapdw : F := cur.is 30
  let w2dw := swapw2 + swapdw
  let swapwx := (swapw + swapw3) + w2dw
  let cond := cur.st 0
  let ncond := bnot (cur.st 0)
  [ cur.is 48 * (nxt.st 0 - c 0),
    cur.is 49 * (nxt.st 0 - cur.st 0),
    cur.is 50 * (nxt.st 0 - cur.st 1),
    dm 10 51 2, dm 12 52 3, dm 16 53 4, dm 18 54 5, dm 20 55 6, dm 22 56 7,
    cur.is 26 * (nxt.st 0 - cur.st 8),
    cur.is 57 * (nxt.st 0 - cur.st 9),
    cur.is 58 * (nxt.st 0 - cur.st 11),
    cur.is 59 * (nxt.st 0 - cur.st 13),
    cur.is 60 * (nxt.st 0 - cur.st 15),
    -- SWAP
    cur.is 8 * (cur.st 0 - nxt.st 1),
    cur.is 8 * (cur.st 1 - nxt.st 0) ]
  ++ (List.range 4).map (fun i =>
        swapw * nxt.st (i + 4) + w2dw * nxt.st (i + 8) + swapw3 * nxt.st (i + 12) - cur.st i * swapwx)
  ++ (List.range 4).map (fun i =>
        swapw * cur.st (i + 4) + w2dw * cur.st (i + 8) + swapw3 * cur.st (i + 12) - nxt.st i * swapwx)
  ++ (List.range 4).map (fun i => swapdw * (cur.st (i + 4) - nxt.st (i + 12)))
  ++ (List.range 4).map (fun i => swapdw * (cur.st (i + 12) - nxt.st (i + 4)))
  ++ [ cur.is 11 * (cur.st 0 - nxt.st 2), cur.is 13 * (cur.st 0 - nxt.st 3),
       cur.is 17 * (cur.st 0 - nxt.st 4), cur.is 19 * (cur.st 0 - nxt.st 5),
       cur.is 21 * (cur.st 0 - nxt.st 6), cur.is 23 * (cur.st 0 - nxt.st 7),
       cur.is 27 * (cur.st 0 - nxt.st 8),
       -- CSWAP
       cur.is 42 * (nxt.st 0 - (cur.st 1 * ncond + cur.st 2 * cond)),
       cur.is 42 * (nxt.st 1 - (cur.st 1 * cond + cur.st 2 * ncond)) ]
  ++ (List.range 4).map (fun i =>
        cur.is 43 * (nxt.st i - (cur.st (i + 1) * ncond + cur.st (i + 5) * cond)))
  ++ (List.range 4).map (fun i =>
        cur.is 43 * (nxt.st (i + 4) - (cur.st (i + 1) * cond + cur.st (i + 5) * ncond)))

/-- u32 operations (13 constraints). -/
def u32Cs (cur nxt : Row F) : List F :=
  let a := cur.st 0; let b := cur.st 1
  let rc : F := cur.inR 64 80
  let exDivAssert2 := rc - cur.is 70 - cur.is 74
  let exDivAssert2Sub := exDivAssert2 - cur.is 66
  [ (cur.is 68 + cur.is 72 + cur.is 78)
      * ((c 1 - cur.hp 4 * (c two32 - c 1 - vHi cur)) * vLo cur - c 0),
    exDivAssert2 * (nxt.st 1 - vLo cur) + cur.is 74 * (nxt.st 1 - vHi cur),
    exDivAssert2Sub * (nxt.st 0 - vHi cur) + cur.is 74 * (nxt.st 0 - vLo cur),
    cur.is 72 * (a - v64 cur),
    cur.is 64 * (a + b - v48 cur),
    cur.is 76 * (a + b + cur.st 2 - v48 cur),
    cur.is 66 * (b - (a + nxt.st 1 - c two32 * nxt.st 0)),
    cur.is 66 * isBinary (nxt.st 0),
    cur.is 68 * (a * b - v64 cur),
    cur.is 78 * (a * b + cur.st 2 - v64 cur),
    cur.is 70 * (a * nxt.st 1 + nxt.st 0 - b),
    cur.is 70 * (b - nxt.st 1 - vLo cur),
    cur.is 70 * (a - nxt.st 0 - (vHi cur + c 1)) ]

/-- SDEPTH (1 constraint). -/
def ioCs (cur nxt : Row F) : List F :=
  [ cur.is 62 * (nxt.st 0 - cur.b0),
    (cur.is 82 + cur.is 83) * (nxt.st 12 - (cur.st 12 + c 2)) ]

/-- General per-position constraints (16) and the top-binary constraint (1). -/
def generalCs (cur nxt : Row F) : List F :=
  [ nxt.st 0 * (noShift cur 0 + leftShift cur 1)
      - (noShift cur 0 * cur.st 0 + leftShift cur 1 * cur.st 1) ]
  ++ (List.range 14).map (fun j =>
        let i := j + 1
        nxt.st i * (noShift cur i + leftShift cur (i + 1) + rightShift cur (i - 1))
          - (noShift cur i * cur.st i + leftShift cur (i + 1) * cur.st (i + 1)
              + rightShift cur (i - 1) * cur.st (i - 1)))
  ++ [ nxt.st 15 * (noShift cur 15 + rightShift cur 14)
         - (noShift cur 15 * cur.st 15 + rightShift cur 14 * cur.st 14),
       (topBinary cur - cur.is 15) * isBinary (cur.st 0) + cur.is 15 * isBinary (nxt.st 0) ]

/-- All 110 stack transition constraints, in the order of `stack::enforce_constraints`. -/
def stackConstraints (cur nxt : Row F) : List F :=
  overflowCs cur nxt ++ systemCs cur nxt ++ fieldCs cur nxt ++ manipCs cur nxt ++ u32Cs cur nxt
    ++ ioCs cur nxt ++ generalCs cur nxt

end Air

/-- Canonical residues modulo `P` with ring operations: the type at which the AIR model is executed. -/
structure GF where
  v : Nat
  deriving DecidableEq, Repr, Inhabited

instance : Add GF := ⟨fun a b => ⟨fadd a.v b.v⟩⟩
instance : Sub GF := ⟨fun a b => ⟨fsub a.v b.v⟩⟩
instance : Mul GF := ⟨fun a b => ⟨fmul a.v b.v⟩⟩
instance : NatCast GF := ⟨fun n => ⟨n % P⟩⟩
instance : Inv GF := ⟨fun a => ⟨finv a.v⟩⟩
instance : One GF := ⟨⟨1⟩⟩
instance : Zero GF := ⟨⟨0⟩⟩

end Miden
