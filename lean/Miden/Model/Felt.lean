/-
  Goldilocks field arithmetic on canonical representatives (`Nat` values `< P`).
  Mirrors winter-math `f64::BaseElement` as observed through `as_int()`.
  Core Lean only (no Mathlib) so that the driver links as a `lean_exe`.
-/
namespace Miden

/-- The Goldilocks prime `2^64 - 2^32 + 1`. -/
def P : Nat := 18446744069414584321

theorem P_eq : P = 2 ^ 64 - 2 ^ 32 + 1 := by decide

@[inline] def fadd (a b : Nat) : Nat := (a + b) % P
@[inline] def fsub (a b : Nat) : Nat := (a + (P - b % P)) % P
@[inline] def fmul (a b : Nat) : Nat := (a * b) % P
@[inline] def fneg (a : Nat) : Nat := (P - a % P) % P

/-- Square-and-multiply modular exponentiation (structural on a fuel bound for the bit length). -/
def fpowAux : Nat → Nat → Nat → Nat → Nat
  | 0, _, _, acc => acc
  | fuel + 1, base, e, acc =>
    if e = 0 then acc
    else fpowAux fuel (fmul base base) (e / 2) (if e % 2 = 1 then fmul acc base else acc)

def fpow (a e : Nat) : Nat := fpowAux 64 (a % P) e 1

/-- Multiplicative inverse by Fermat (`a^(P-2)`); `finv 0 = 0` as in winter-math. -/
def finv (a : Nat) : Nat := fpow a (P - 2)

def u32max : Nat := 4294967295
def two32 : Nat := 4294967296

@[inline] def isU32 (a : Nat) : Bool := a < two32

/-- `split_element`: (hi, lo) 32-bit halves of the canonical representative. -/
@[inline] def splitHi (a : Nat) : Nat := a / two32
@[inline] def splitLo (a : Nat) : Nat := a % two32

end Miden
