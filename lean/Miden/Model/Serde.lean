/-
  Byte-level codecs of the plain data types (`winter_utils` little-endian primitives,
  `core/src/stack/{inputs,outputs}.rs`, `core/src/program/{mod,info}.rs`).
  Bytes are `Nat`s below 256.
-/
import Miden.Model.Felt
namespace Miden
namespace Serde

def writeLE : Nat → Nat → List Nat
  | 0, _ => []
  | n + 1, v => v % 256 :: writeLE n (v / 256)

def readLE : Nat → List Nat → Option (Nat × List Nat)
  | 0, bs => some (0, bs)
  | n + 1, b :: rest =>
    match readLE n rest with
    | some (v, r) => if b < 256 then some (b + 256 * v, r) else none
    | none => none
  | _ + 1, [] => none

def writeU8 (v : Nat) : List Nat := writeLE 1 v
def writeU16 (v : Nat) : List Nat := writeLE 2 v
def writeU32 (v : Nat) : List Nat := writeLE 4 v
def writeU64 (v : Nat) : List Nat := writeLE 8 v
def readU8 := readLE 1
def readU16 := readLE 2
def readU32 := readLE 4
def readU64 := readLE 8

theorem readLE_writeLE : ∀ (n v : Nat) (rest : List Nat), v < 256 ^ n →
    readLE n (writeLE n v ++ rest) = some (v, rest)
  | 0, v, rest, h => by
    have : v = 0 := by simpa using h
    subst this; rfl
  | n + 1, v, rest, h => by
    have hv : v / 256 < 256 ^ n := by
      rw [Nat.pow_succ] at h
      exact Nat.div_lt_of_lt_mul (by rw [Nat.mul_comm]; exact h)
    simp only [writeLE, List.cons_append, readLE, readLE_writeLE n (v / 256) rest hv]
    have hb : v % 256 < 256 := Nat.mod_lt _ (by decide)
    simp only [hb, if_true]
    congr 2
    omega

theorem readU16_writeU16 (v : Nat) (h : v < 65536) (rest : List Nat) :
    readU16 (writeU16 v ++ rest) = some (v, rest) := readLE_writeLE 2 v rest (by simpa using h)
theorem readU32_writeU32 (v : Nat) (h : v < 4294967296) (rest : List Nat) :
    readU32 (writeU32 v ++ rest) = some (v, rest) := readLE_writeLE 4 v rest (by simpa using h)
theorem readU64_writeU64 (v : Nat) (h : v < 18446744073709551616) (rest : List Nat) :
    readU64 (writeU64 v ++ rest) = some (v, rest) := readLE_writeLE 8 v rest (by simpa using h)

/-- Reads `n` canonical field elements (8 bytes each, rejecting values ≥ p). -/
def readFelts : Nat → List Nat → Option (List Nat × List Nat)
  | 0, bs => some ([], bs)
  | n + 1, bs =>
    match readU64 bs with
    | some (v, r) =>
      if v < P then
        match readFelts n r with
        | some (vs, r') => some (v :: vs, r')
        | none => none
      else none
    | none => none

def writeFelts (vals : List Nat) : List Nat := vals.flatMap writeU64

theorem readFelts_writeFelts : ∀ (vals : List Nat) (rest : List Nat), (∀ v ∈ vals, v < P) →
    readFelts vals.length (writeFelts vals ++ rest) = some (vals, rest)
  | [], rest, _ => rfl
  | v :: vs, rest, h => by
    have hv : v < P := h v (by simp)
    have h64 : v < 18446744073709551616 := by unfold P at hv; omega
    simp only [writeFelts, List.flatMap_cons, List.append_assoc, List.length_cons, readFelts,
      readU64_writeU64 v h64, hv, if_true]
    have ih := readFelts_writeFelts vs rest (fun x hx => h x (by simp [hx]))
    unfold writeFelts at ih
    rw [ih]

/-- `StackInputs::write_into`. -/
def encodeStackInputs (vals : List Nat) : List Nat := writeU32 vals.length ++ writeFelts vals

/-- `StackInputs::read_from_bytes`. -/
def decodeStackInputs (bs : List Nat) : Option (List Nat) :=
  match readU32 bs with
  | some (n, r) =>
    match readFelts n r with
    | some (vs, _) => some vs   -- trailing bytes are ignored by `read_from_bytes`
    | none => none
  | none => none

theorem decodeStackInputs_encode (vals : List Nat) (hc : ∀ v ∈ vals, v < P)
    (hl : vals.length < 4294967296) : decodeStackInputs (encodeStackInputs vals) = some vals := by
  unfold decodeStackInputs encodeStackInputs
  rw [readU32_writeU32 _ hl]
  have := readFelts_writeFelts vals [] hc
  simp only [List.append_nil] at this
  simp only [this]

theorem readLE_lt : ∀ (n : Nat) (bs : List Nat) (v : Nat) (r : List Nat),
    readLE n bs = some (v, r) → v < 256 ^ n
  | 0, bs, v, r, h => by
    simp only [readLE, Option.some.injEq, Prod.mk.injEq] at h
    omega
  | n + 1, [], v, r, h => by simp [readLE] at h
  | n + 1, b :: rest, v, r, h => by
    simp only [readLE] at h
    split at h
    · rename_i v' r' hv
      split at h
      · rename_i hb
        simp only [Option.some.injEq, Prod.mk.injEq] at h
        have := readLE_lt n rest v' r' hv
        rw [Nat.pow_succ]
        omega
      · cases h
    · cases h

theorem readFelts_spec : ∀ (n : Nat) (bs vs r : List Nat), readFelts n bs = some (vs, r) →
    vs.length = n ∧ ∀ v ∈ vs, v < P
  | 0, bs, vs, r, h => by
    simp only [readFelts, Option.some.injEq, Prod.mk.injEq] at h
    obtain ⟨rfl, _⟩ := h
    exact ⟨rfl, by intro v hv; cases hv⟩
  | n + 1, bs, vs, r, h => by
    simp only [readFelts] at h
    split at h
    · rename_i v r1 hv
      split at h
      · rename_i hlt
        split at h
        · rename_i vs' r' hr
          simp only [Option.some.injEq, Prod.mk.injEq] at h
          obtain ⟨rfl, _⟩ := h
          obtain ⟨hl, hc⟩ := readFelts_spec n r1 vs' r' hr
          refine ⟨by simp [hl], ?_⟩
          intro x hx
          rcases List.mem_cons.mp hx with rfl | hx
          · exact hlt
          · exact hc x hx
        · cases h
      · cases h
    · cases h

/-- Whatever `decodeStackInputs` accepts re-encodes to bytes that decode to the same value. -/
theorem decodeStackInputs_reencodable (bs vs : List Nat) (h : decodeStackInputs bs = some vs) :
    decodeStackInputs (encodeStackInputs vs) = some vs := by
  unfold decodeStackInputs at h
  split at h
  · rename_i n r hn
    split at h
    · rename_i vs' r' hr
      simp only [Option.some.injEq] at h
      subst h
      obtain ⟨hl, hc⟩ := readFelts_spec n r vs' r' hr
      have hn' := readLE_lt 4 bs n r hn
      exact decodeStackInputs_encode vs' hc (by rw [hl]; simpa using hn')
    · cases h
  · cases h

/-- Reads `n` raw little-endian u64 values. -/
def readU64s : Nat → List Nat → Option (List Nat × List Nat)
  | 0, bs => some ([], bs)
  | n + 1, bs =>
    match readU64 bs with
    | some (v, r) =>
      match readU64s n r with
      | some (vs, r') => some (v :: vs, r')
      | none => none
    | none => none

/-- `StackOutputs::write_into`: stack then overflow addresses, both as counted u64 lists. -/
def encodeStackOutputs (stack addrs : List Nat) : List Nat :=
  writeU32 stack.length ++ stack.flatMap writeU64 ++ (writeU32 addrs.length ++ addrs.flatMap writeU64)

/-- The checks of `StackOutputs::new` (after the `fix:` commit also applied to decoded values). -/
def outputsValid (stack addrs : List Nat) : Bool :=
  decide (16 ≤ stack.length) && decide (stack.length ≤ 65535) && stack.all (fun v => decide (v < P))
    && addrs.all (fun v => decide (v < P))
    && decide (addrs.length = if stack.length > 16 then stack.length + 1 - 16 else 0)

/-- `StackOutputs::read_from_bytes` with the validation of `StackOutputs::new`. -/
def decodeStackOutputs (bs : List Nat) : Option (List Nat × List Nat) :=
  match readU32 bs with
  | none => none
  | some (n, r) =>
    match readU64s n r with
    | none => none
    | some (stack, r1) =>
      match readU32 r1 with
      | none => none
      | some (m, r2) =>
        match readU64s m r2 with
        | some (addrs, _) => if outputsValid stack addrs then some (stack, addrs) else none
        | none => none

end Serde
end Miden
