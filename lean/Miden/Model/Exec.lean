/-
  Big-step execution of a MAST (`processor/src/lib.rs: execute_*_block`,
  `processor/src/decoder/mod.rs: start_*/end_*`, `processor/src/system/mod.rs`).
  Every decoder row costs one clock cycle; the clock check of `System::advance_clock` is applied
  after every row.  `fuel` bounds the number of block entries / loop iterations so that the
  function is total; the drivers give it more fuel than the cycle limit allows rows.
-/
import Miden.Model.Vm
import Miden.Model.Batch
namespace Miden

inductive Block where
  | span (ops : List Op)
  | join (a b : Block)
  | split (t f : Block)
  | loop (body : Block)
  | call (target : Word) (isSyscall : Bool)
  | dyn
  | proxy (target : Word)
  deriving Repr, Inhabited

/-- `Dyn::dyn_hash()` (constant; exported into `Generated/Consts.lean` and compared there). -/
structure Env where
  cbTable : List (Word × Block) := []
  kernel : List Word := []
  maxCycles : Nat := 4294967295
  dynHash : Word := Word.zero
  deriving Inhabited

/-- Operations actually executed for one batch, with the alignment NOOPs of `execute_op_batch`. -/
def batchExecOps (b : OpBatch) : List Op :=
  let numBatchGroups := nextPow2 b.numGroups
  let rec go : List Op → Nat → Nat → Nat → List Op → (List Op × Nat)
    | [], _, g, _, acc => (acc, g)
    | op :: rest, opIdx, g, ng, acc =>
      let acc := op :: acc
      let ng := if op.hasImm then ng + 1 else ng
      if opIdx + 1 = b.opCounts.getD g 0 then
        let acc := if op.hasImm then Op.noop :: acc else acc
        go rest 0 ng (ng + 1) acc
      else go rest (opIdx + 1) g ng acc
  let (acc, g) := go b.ops 0 0 1 []
  acc.reverse ++ List.replicate (numBatchGroups - g) Op.noop

/-- The complete row sequence of a span (without SPAN/END), RESPAN markers included. -/
def spanRows (ops : List Op) : List Op :=
  match batchOps ops with
  | [] => []
  | b :: bs => batchExecOps b ++ bs.flatMap (fun b => Op.respan :: batchExecOps b)

namespace Vm

/-- `advance_clock`: one more row, labelled with the decoder op `row`. -/
def tick (env : Env) (vm : Vm) (row : Op) : Except Err Vm :=
  let clk := vm.clk + 1
  if clk > env.maxCycles then .error (.cycleLimit env.maxCycles)
  else .ok { vm with clk := clk, trace := row :: vm.trace }

/-- `execute_op(op)` recorded under decoder op `row`. -/
def execRow (env : Env) (vm : Vm) (op row : Op) : Except Err Vm :=
  match vm.step op with
  | .error e => .error e
  | .ok vm' => vm'.tick env row

def peek (vm : Vm) : Nat := vm.stack.headD 0

/-- Execute the rows of a span body (user ops and RESPAN). -/
def execOps (env : Env) : List Op → Vm → Except Err Vm
  | [], vm => .ok vm
  | op :: rest, vm =>
    let r := if op = Op.respan then vm.execRow env .noop .respan else vm.execRow env op op
    match r with
    | .error e => .error e
    | .ok vm' => execOps env rest vm'

mutual
/-- `execute_code_block`. -/
def exec (env : Env) : Nat → Block → Vm → Except Err Vm
  | 0, _, _ => .error .outOfFuel
  | fuel + 1, blk, vm =>
    match blk with
    | .span ops =>
      match vm.execRow env .noop .span with
      | .error e => .error e
      | .ok vm =>
        match execOps env (spanRows ops) vm with
        | .error e => .error e
        | .ok vm => vm.execRow env .noop .end
    | .join a b =>
      match vm.execRow env .noop .join with
      | .error e => .error e
      | .ok vm =>
        match exec env fuel a vm with
        | .error e => .error e
        | .ok vm =>
          match exec env fuel b vm with
          | .error e => .error e
          | .ok vm => vm.execRow env .noop .end
    | .split t f =>
      let cond := vm.peek
      match vm.execRow env .drop .split with
      | .error e => .error e
      | .ok vm =>
        if cond = 1 then
          match exec env fuel t vm with
          | .error e => .error e
          | .ok vm => vm.execRow env .noop .end
        else if cond = 0 then
          match exec env fuel f vm with
          | .error e => .error e
          | .ok vm => vm.execRow env .noop .end
        else .error (.notBinary cond)
    | .loop body =>
      let cond := vm.peek
      match vm.execRow env .drop .loop with
      | .error e => .error e
      | .ok vm =>
        if cond = 1 then
          match exec env fuel body vm with
          | .error e => .error e
          | .ok vm => loopIter env fuel body vm
        else if cond = 0 then vm.execRow env .noop .end
        else .error (.notBinary cond)
    | .call target isSyscall =>
      if isSyscall ∧ !(env.kernel.contains target) then .error .notInKernel
      else
        let saved := vm
        let hidden := vm.stack.drop 16
        let vm := { vm with stack := vm.stack.take 16 }
        let vm := if isSyscall then
            { vm with ctx := 0, fmp := SYSCALL_FMP_MIN, inSyscall := true }
          else { vm with ctx := vm.clk + 1, fmp := FMP_MIN, fnHash := target }
        match vm.execRow env .noop (if isSyscall then .syscall else .call) with
        | .error e => .error e
        | .ok vm =>
          let body : Except Err Vm :=
            if target = env.dynHash then execDyn env fuel vm
            else match env.cbTable.lookup target with
              | none => .error .codeBlockNotFound
              | some b => exec env fuel b vm
          match body with
          | .error e => .error e
          | .ok vm =>
            if vm.stack.length > 16 then .error (.badDepthOnReturn vm.stack.length)
            else
              let vm := { vm with ctx := saved.ctx, fmp := saved.fmp, fnHash := saved.fnHash,
                                  inSyscall := false, stack := vm.stack ++ hidden }
              vm.execRow env .noop .end
    | .dyn => execDyn env fuel vm
    | .proxy _ => .error .unexecutable

/-- `execute_dyn_block`. -/
def execDyn (env : Env) : Nat → Vm → Except Err Vm
  | 0, _ => .error .outOfFuel
  | fuel + 1, vm =>
    match vm.stack with
    | s0 :: s1 :: s2 :: s3 :: _ =>
      let target : Word := ⟨s3, s2, s1, s0⟩
      match vm.execRow env .noop .dyn with
      | .error e => .error e
      | .ok vm =>
        match env.cbTable.lookup target with
        | none => .error .dynBlockNotFound
        | some b =>
          match exec env fuel b vm with
          | .error e => .error e
          | .ok vm => vm.execRow env .noop .end
    | _ => .error .stackUnderflow

/-- The `while self.stack.peek() == ONE` tail of `execute_loop_block`, then `end_loop_block`. -/
def loopIter (env : Env) : Nat → Block → Vm → Except Err Vm
  | 0, _, _ => .error .outOfFuel
  | fuel + 1, body, vm =>
    if vm.peek = 1 then
      match vm.execRow env .drop .repeat with
      | .error e => .error e
      | .ok vm =>
        match exec env fuel body vm with
        | .error e => .error e
        | .ok vm => loopIter env fuel body vm
    else if vm.peek = 0 then vm.execRow env .drop .end
    else .error (.notBinary vm.peek)
end

end Vm
end Miden
