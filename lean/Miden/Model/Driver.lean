/-
  Line-protocol driver: one request per input line, one answer per output line.
  The Rust harness writes the same request lines and the implementation's answers; `./check`
  diffs the two answer streams.
-/
import Miden.Model.Exec
import Miden.Model.Mast
import Miden.Model.Options
import Miden.Spec.Parse
import Miden.Model.Air
import Miden.Model.Honest
import Miden.Generated.ProvingOpts
import Miden.Model.Serde
import Miden.Model.Lookup
import Miden.Model.Asm
import Miden.Spec.Hashes
namespace Miden

def joinNats (l : List Nat) : String := ",".intercalate (l.map toString)

def parseNats (s : String) : List Nat :=
  if s.isEmpty then [] else (s.splitOn ",").filterMap (·.toNat?)

def parseWord (s : String) : Word := Word.ofList (parseNats s)

def Err.render : Err → String
  | .assertFailed c => s!"AssertFailed({c})"
  | .divZero => "DivZero"
  | .notBinary v => s!"NotBinary({v})"
  | .notU32 v c => s!"NotU32({v},{c})"
  | .addrOOB a => s!"AddrOOB({a})"
  | .fmpRange => "FmpRange"
  | .callerNotInSyscall => "CallerNotInSyscall"
  | .adviceExhausted => "AdviceExhausted"
  | .merklePathFailed => "MerklePathFailed"
  | .hostNoPath => "HostErr"
  | .hostPanic => "Panic"
  | .badDepthOnReturn d => s!"BadDepth({d})"
  | .notInKernel => "NotInKernel"
  | .codeBlockNotFound => "CodeBlockNotFound"
  | .dynBlockNotFound => "DynBlockNotFound"
  | .cycleLimit m => s!"CycleLimit({m})"
  | .unexecutable => "Unexecutable"
  | .stackUnderflow => "ModelStackUnderflow"
  | .unsupported w => s!"ModelUnsupported({w})"
  | .outOfFuel => "ModelOutOfFuel"

/-- Parse a block from a token list; returns the block and the remaining tokens. -/
partial def parseBlock : List String → Option (Block × List String)
  | [] => none
  | t :: rest =>
    if t == "span(" then
      let rec ops (ts : List String) (acc : List Op) : Option (List Op × List String) :=
        match ts with
        | [] => none
        | ")" :: r => some (acc.reverse, r)
        | x :: r => match Op.ofToken x with
          | some o => ops r (o :: acc)
          | none => none
      match ops rest [] with
      | some (os, r) => some (.span os, r)
      | none => none
    else if t == "join(" then
      match parseBlock rest with
      | some (a, r1) => match parseBlock r1 with
        | some (b, ")" :: r2) => some (.join a b, r2)
        | _ => none
      | none => none
    else if t == "split(" then
      match parseBlock rest with
      | some (a, r1) => match parseBlock r1 with
        | some (b, ")" :: r2) => some (.split a b, r2)
        | _ => none
      | none => none
    else if t == "loop(" then
      match parseBlock rest with
      | some (a, ")" :: r1) => some (.loop a, r1)
      | _ => none
    else if t == "dyn" then some (.dyn, rest)
    else match t.splitOn ":" with
      | ["call", h] => some (.call (parseWord h) false, rest)
      | ["syscall", h] => some (.call (parseWord h) true, rest)
      | ["proxy", h] => some (.proxy (parseWord h), rest)
      | _ => none

structure ExecReq where
  env : Env := {}
  vm : Vm := { stack := [] }
  prog : Option Block := none
  out : List String := []
  fuel : Nat := 100000

/-- Parse the sections of an `exec` request. -/
partial def parseExec : List String → ExecReq → Option ExecReq
  | [], r => some r
  | "MAX" :: n :: rest, r => parseExec rest { r with env := { r.env with maxCycles := n.toNat?.getD 0 } }
  | "FUEL" :: n :: rest, r => parseExec rest { r with fuel := n.toNat?.getD 0 }
  | "STACK" :: s :: rest, r => parseExec rest { r with vm := { r.vm with stack := pad16 (parseNats s) } }
  | "ADV" :: s :: rest, r => parseExec rest { r with vm := { r.vm with adv := parseNats s } }
  | "PATH" :: s :: rest, r =>
    let ws := if s == "-" then [] else (s.splitOn ";").map parseWord
    parseExec rest { r with vm := { r.vm with paths := r.vm.paths ++ [ws] } }
  | "KERNEL" :: s :: rest, r =>
    parseExec rest { r with env := { r.env with kernel := r.env.kernel ++ [parseWord s] } }
  | "DYNHASH" :: s :: rest, r => parseExec rest { r with env := { r.env with dynHash := parseWord s } }
  | "OUT" :: s :: rest, r => parseExec rest { r with out := s.splitOn "," }
  | "CB" :: h :: rest, r =>
    match parseBlock rest with
    | some (b, rest') =>
      parseExec rest' { r with env := { r.env with cbTable := r.env.cbTable ++ [(parseWord h, b)] } }
    | none => none
  | "PROG" :: rest, r =>
    match parseBlock rest with
    | some (b, rest') => parseExec rest' { r with prog := some b }
    | none => none
  | _, _ => none

/-- Canonical memory dump: latest binding per key, zero words dropped, sorted by (ctx, addr). -/
def memDump (m : Mem) : String :=
  let keys := (m.map (·.1)).eraseDups
  let live := keys.filterMap fun k =>
    let w := m.read k.1 k.2
    if w = Word.zero then none else some (k, w)
  let arr := live.toArray.qsort (fun a b => a.1.1 < b.1.1 || (a.1.1 == b.1.1 && a.1.2 < b.1.2))
  ";".intercalate (arr.toList.map fun (k, w) => s!"{k.1}:{k.2}:{joinNats w.toList}")

def runExec (r : ExecReq) : String :=
  match r.prog with
  | none => "bad-request"
  | some p =>
    match Vm.exec r.env r.fuel p r.vm with
    | .error e => s!"err {e.render}"
    | .ok vm =>
      let base := s!"ok clk={vm.clk} stack={joinNats vm.stack}"
      let base := if r.out.contains "sys" then
          base ++ s!" fmp={vm.fmp} ctx={vm.ctx} insys={boolToNat vm.inSyscall}" else base
      let base := if r.out.contains "mem" then base ++ s!" mem={memDump vm.mem}" else base
      let base := if r.out.contains "ops" then
          base ++ s!" ops={joinNats (vm.trace.reverse.map Op.code)}" else base
      let base := if r.out.contains "adv" then base ++ s!" advleft={vm.adv.length}" else base
      base

def renderBatch (b : OpBatch) : String :=
  s!"[{" ".intercalate (b.ops.map Op.toToken)}|{joinNats b.groups}|{joinNats b.opCounts}|{b.numGroups}]"

def parseOps (ts : List String) : Option (List Op) := ts.mapM Op.ofToken

def hexDigit (c : Char) : Option Nat :=
  if '0' ≤ c ∧ c ≤ '9' then some (c.toNat - '0'.toNat)
  else if 'a' ≤ c ∧ c ≤ 'f' then some (c.toNat - 'a'.toNat + 10) else none

def parseHex (s : String) : Option (List Nat) :=
  let rec go : List Char → List Nat → Option (List Nat)
    | [], acc => some acc.reverse
    | a :: b :: rest, acc =>
      match hexDigit a, hexDigit b with
      | some x, some y => go rest ((16 * x + y) :: acc)
      | _, _ => none
    | _, _ => none
  if s == "-" then some [] else go s.toList []

def toHex (bs : List Nat) : String :=
  let d (n : Nat) : Char := if n < 10 then Char.ofNat (48 + n) else Char.ofNat (87 + n)
  String.ofList (bs.flatMap fun b => [d (b / 16), d (b % 16)])

def natsOrDash (l : List Nat) : String := if l.isEmpty then "-" else joinNats l

def handle (line : String) : String :=
  let toks := (line.trimAscii.toString.splitOn " ").filter (· ≠ "")
  match toks with
  | "exec" :: rest =>
    match parseExec rest {} with
    | some r => runExec r
    | none => "bad-request"
  | "batch" :: rest =>
    match parseOps rest with
    | some ops =>
      let bs := batchOps ops
      s!"batches {" ".intercalate (bs.map renderBatch)} gc={spanGroupCount bs} hash={joinNats (Rpo.hashElements (spanGroupElems bs))}"
    | none => "bad-request"
  | "masthash" :: rest =>
    match parseBlock rest with
    | some (b, []) => s!"digest {joinNats b.hash}"
    | _ => "bad-request"
  | "spanrows" :: rest =>
    match parseOps rest with
    | some ops => s!"rows {joinNats ((spanRows ops).map Op.code)}"
    | none => "bad-request"
  | "instr" :: stack :: instrs =>
    match instrs.mapM Spec.Instr.parse with
    | none => "bad-request"
    | some is =>
      match Spec.semSeq is (pad16 (if stack == "-" then [] else parseNats stack)) with
      | .ok s => s!"ok stack={joinNats s}"
      | .error .undefined => "undefined"
      | .error (.fail (some e)) => s!"err {e.render}"
      | .error (.fail none) => "err *"
  | ["air", opc, cur, nxt] =>
    let mk (vals : List Nat) : Air.Row GF :=
      let g (i : Nat) : GF := ⟨vals.getD i 0⟩
      { clk := g 0, fmp := g 1, opcode := opc.toNat?.getD 0,
        hlp := (List.range 6).map (fun i => g (2 + i)),
        s := (List.range 16).map (fun i => g (8 + i)),
        b0 := g 24, b1 := g 25, h0 := g 26 }
    let cs := Air.stackConstraints (mk (parseNats cur)) (mk (parseNats nxt))
    s!"cs {joinNats (cs.map (·.v))}"
  | ["hrow", tok, clk, fmp, b0, st] =>
    -- honest row of a real trace: helper registers, depth helper column and the next row's stack
    -- cells as the model defines them (`Model/Honest.lean`; subject of `Props/C03Air.lean`)
    match Op.ofToken tok with
    | none => "bad-request"
    | some op =>
      let top := parseNats st
      let depth := b0.toNat?.getD 16
      let vm : Vm := { stack := top ++ List.replicate (depth - 16) 0, clk := clk.toNat?.getD 0,
                       fmp := fmp.toNat?.getD 0 }
      let hl := helpersOf op top
      let nxt := match vm.step op with
        | .ok v =>
          -- the cell entering position 15 on a left shift below depth 16 comes from the overflow
          -- table, which the request does not carry
          let masked := (Vm.isLeftB op && depth > 16)
          let cells := (v.stack.take 16).mapIdx fun i x =>
            if masked && i == 15 then "-" else toString x
          s!"{",".intercalate cells} {v.stack.length} {v.fmp}"
        | .error _ => "-"
      s!"hlp {joinNats hl} h0 {Air.h0Of depth} next {nxt}"
  | ["enc", "stackinputs", vals] =>
    s!"bytes {toHex (Serde.encodeStackInputs (if vals == "-" then [] else parseNats vals))}"
  | ["enc", "stackoutputs", st, ad] =>
    s!"bytes {toHex (Serde.encodeStackOutputs (parseNats st) (if ad == "-" then [] else parseNats ad))}"
  | ["dec", "stackinputs", h] =>
    match parseHex h with
    | none => "bad-request"
    | some bs => match Serde.decodeStackInputs bs with
      | some vs => s!"ok {natsOrDash vs}"
      | none => "reject"
  | ["dec", "stackoutputs", h] =>
    match parseHex h with
    | none => "bad-request"
    | some bs => match Serde.decodeStackOutputs bs with
      | some (st, ad) => s!"ok {joinNats st} {natsOrDash ad}"
      | none => "reject"
  | ["provingopts", name] =>
    match Generated.provingOptionSets.find? (fun r => r.1 == name) with
    | some (_, tag, _, o) =>
      let ext := if o.extDegree = 2 then 2 else if o.extDegree = 3 then 3 else 1
      s!"opts hash={tag} q={o.numQueries} blowup={o.blowup} grind={o.grinding} ext={ext} fold={o.friFolding} rem={o.friRemainderMaxDegree}"
    | none => "bad-request"
  | ["alteration", _] => "rejected"   -- the model's prediction for every altered statement / proof
  | ["hashtag", t] =>
    match hashTag (t.toNat?.getD 99) with
    | some h => s!"tag {h}"
    | none => "err"
  | ["options", m, e] =>
    match execOptionsNew (if m == "none" then none else m.toNat?) (e.toNat?.getD 0) with
    | some (mx, ex) => s!"ok max={mx} expected={ex}"
    | none => "refused"
  | ["merge", a, b, d] =>
    s!"digest {joinNats (Rpo.mergeInDomain (parseNats a) (parseNats b) (d.toNat?.getD 0))}"
  | ["permute", s] => s!"state {joinNats (Rpo.permute (parseNats s))}"
  | ["hashelems", s] => s!"digest {joinNats (Rpo.hashElements (parseNats (if s == "-" then "" else s)))}"
  | "callset" :: known :: mainLocal :: mainRefs :: procs =>
    let parseRefs (s : String) : List Asm.Ref :=
      if s == "-" then [] else (s.splitOn ",").filterMap (fun t =>
        if t.startsWith "e" then (t.drop 1).toString.toNat?.map Asm.Ref.exec
        else if t.startsWith "c" then (t.drop 1).toString.toNat?.map Asm.Ref.call else none)
    let ps := procs.map parseRefs
    let tbl := Asm.cbTable ps (parseNats (if mainLocal == "-" then "" else mainLocal)) (parseRefs mainRefs)
    let present := (parseNats (if known == "-" then "" else known)).filter (· ∈ tbl)
    if Asm.wellFormed ps then s!"cb {if present.isEmpty then "-" else joinNats present}" else "undefined"
  | ["auxcol", initResp, _n, resp, req] =>
    let g (s : String) : List GF := (parseNats (if s == "-" then "" else s)).map (fun v => (⟨v % P⟩ : GF))
    let col := Lookup.buildAuxColumn (⟨initResp.toNat?.getD 0⟩ : GF) 1 (g resp) (g req)
    s!"col {joinNats (col.map (·.v))}"
  | ["logup", alpha, b0, rows] =>
    let g (s : String) : List GF := (parseNats (if s == "-" then "" else s)).map (fun v => (⟨v % P⟩ : GF))
    let parseRow (r : String) : List (GF × GF) × List GF :=
      match r.splitOn "|" with
      | [mv, ls] =>
        (match g mv with
          | [m, v] => [(m, v)]
          | _ => [], g ls)
      | _ => ([], [])
    let rs := if rows == "-" then [] else (rows.splitOn ";").map parseRow
    let col := Lookup.logUpColumn (⟨alpha.toNat?.getD 0⟩ : GF) (⟨b0.toNat?.getD 0⟩ : GF) rs
    s!"col {joinNats (col.map (·.v))}"
  | ["refhash", "sha256", bs] =>
    s!"digest {joinNats (Spec.H.Sha256.hashWords (parseNats (if bs == "-" then "" else bs)))}"
  | ["refhash", "blake3", bs] =>
    let bytes := parseNats (if bs == "-" then "" else bs)
    s!"digest {joinNats (Spec.H.Blake3.hashWords (Spec.H.leWords (bytes ++ List.replicate (64 - bytes.length) 0)) bytes.length)}"
  | ["refhash", "keccak256", bs] =>
    let lanes := Spec.H.Keccak.hashLanes (parseNats (if bs == "-" then "" else bs))
    s!"digest {joinNats (lanes.flatMap fun l => [l / 4294967296, l % 4294967296])}"
  | ["tracelen", c, r, ch] =>
    s!"len {traceLen (c.toNat?.getD 0) (r.toNat?.getD 0) (ch.toNat?.getD 0)}"
  | ["felt", op, a, b] =>
    let a := a.toNat?.getD 0; let b := b.toNat?.getD 0
    let r := if op == "add" then fadd a b else if op == "sub" then fsub a b
      else if op == "mul" then fmul a b else if op == "neg" then fneg a
      else if op == "inv" then finv a else if op == "pow" then fpow a b else 0
    s!"felt {r}"
  | _ => "bad-request"

partial def loop (h : IO.FS.Stream) (out : IO.FS.Stream) : IO Unit := do
  let line ← h.getLine
  if line.isEmpty then return ()
  out.putStrLn (handle line)
  loop h out

def driverMain : IO Unit := do
  let stdin ← IO.getStdin
  let stdout ← IO.getStdout
  loop stdin stdout

end Miden
