/-
  Running-product / running-sum auxiliary columns (multiset checks and LogUp).

  `buildAuxColumn` is a functional rendering of `AuxColumnBuilder::build_aux_column`
  (processor/src/trace/utils.rs): a forward loop computes the prefix products of the responses
  and the product of all requests, ONE inversion is performed, and a backward loop multiplies every
  prefix product by the matching running divisor.  The definitions are generic in the field
  operations so that they are executed on Goldilocks representatives by the driver and reasoned
  about over an arbitrary field in `Miden.Props.C12`.
  Core Lean only.
-/
namespace Miden.Lookup

variable {F : Type} [Mul F] [One F] [Inv F]

/-- `responses_prod`: `[v, v*r₀, v*r₀*r₁, …]` (one more element than `resp`). -/
def prefixProds (v : F) : List F → List F
  | [] => [v]
  | r :: rs => v :: prefixProds (v * r) rs

/-- Product of a list (left to right, starting at one), `requests_running_prod`. -/
def prod (l : List F) : F := l.foldl (· * ·) 1

/-- The backward loop `for i in (0..n).rev()`: `result[i] = responses_prod[i] * divisor;
    divisor *= requests[i]`, as a right fold over the rows (the last row is processed first).
    Returns the finished column and the divisor left after the first row. -/
def backward : List (F × F) → F → List F × F
  | [], d => ([], d)
  | (rp, rq) :: rest, d =>
    let (out, d') := backward rest d
    ((rp * d') :: out, d' * rq)

/-- `build_aux_column`: `resp`/`req` are the per-row multiplicands for rows `0 … n-2`,
    `initResp`/`initReq` the values of `init_responses`/`init_requests`. -/
def buildAuxColumn (initResp initReq : F) (resp req : List F) : List F :=
  (backward ((prefixProds initResp resp).zip (initReq :: req)) (prod req)⁻¹).1

/-- The specification of a running-product column: value `i` is
    `init · ∏_{k<i} resp k / ∏_{k<i} req k`. `acc` is the product of the requests seen so far. -/
def specColumn (v acc : F) : List F → List F → List F
  | r :: rs, q :: qs => (v * acc⁻¹) :: specColumn (v * r) (acc * q) rs qs
  | _, _ => [v * acc⁻¹]

/-- Reduction of a tuple to one field element with the verifier challenges:
    `Σ αᵢ · eᵢ` (`build_value`, `OverflowTableRow::to_value`, …). -/
def reduce [Add F] [Zero F] (alphas elems : List F) : F :=
  (alphas.zip elems).foldl (fun acc p => acc + p.1 * p.2) 0

/-- LogUp running sum (`processor/src/range/aux_trace.rs`): value `i+1` is value `i` plus the
    multiplicity-weighted responses minus the requests of row `i`:
    `b' = b + Σ m/(α - v) - Σ 1/(α - lookup)`. Each row carries its table terms `(m, v)` and its
    looked-up values. -/
def logUpColumn [Add F] [Sub F] (alpha : F) (b : F) : List (List (F × F) × List F) → List F
  | [] => [b]
  | (table, lookups) :: rest =>
    let plus := table.foldl (fun acc mv => acc + mv.1 * (alpha - mv.2)⁻¹) b
    let next := lookups.foldl (fun acc l => acc - (alpha - l)⁻¹) plus
    b :: logUpColumn alpha next rest

end Miden.Lookup
