/-
  One-cycle semantics of every non-control operation on the abstract machine state
  (`processor/src/operations/*.rs`, `processor/src/stack/mod.rs`, `processor/src/system/mod.rs`,
  `processor/src/chiplets/memory`).

  The operand stack is the *visible* stack of the current context as a list (top first) whose
  length is always ≥ 16: a left shift at depth 16 shifts a zero in, exactly like
  `Stack::shift_left`; everything below position 15 is the overflow table in LIFO order.
  The host is an oracle: the advice tape is the sequence of values the host returns to pops and the
  list of Merkle paths it returns to MPVERIFY / MRUPDATE requests.
-/
import Miden.Model.Op
import Miden.Model.Rpo
namespace Miden

/-- Execution failures, canonicalised (clock values dropped). -/
inductive Err where
  | assertFailed (code : Nat)
  | divZero
  | notBinary (v : Nat)
  | notU32 (v : Nat) (code : Nat)
  | addrOOB (a : Nat)
  | fmpRange
  | callerNotInSyscall
  | adviceExhausted
  | merklePathFailed
  | hostNoPath
  | hostPanic            -- implementation panics (assert!) on this host answer
  | badDepthOnReturn (d : Nat)
  | notInKernel
  | codeBlockNotFound
  | dynBlockNotFound
  | cycleLimit (max : Nat)
  | unexecutable
  | stackUnderflow       -- unreachable when the depth ≥ 16 invariant holds
  | unsupported (what : String)
  | outOfFuel
  deriving Repr, DecidableEq, Inhabited

structure Word where
  w0 : Nat
  w1 : Nat
  w2 : Nat
  w3 : Nat
  deriving Repr, DecidableEq, Inhabited

def Word.zero : Word := ⟨0, 0, 0, 0⟩
def Word.toList (w : Word) : List Nat := [w.w0, w.w1, w.w2, w.w3]
def Word.ofList : List Nat → Word
  | [a, b, c, d] => ⟨a, b, c, d⟩
  | _ => Word.zero

/-- Memory: association list keyed by (context, address); newest binding first; unbound = zeros. -/
abbrev Mem := List ((Nat × Nat) × Word)

def Mem.read (m : Mem) (ctx addr : Nat) : Word :=
  match m.lookup (ctx, addr) with
  | some w => w
  | none => Word.zero

def Mem.write (m : Mem) (ctx addr : Nat) (w : Word) : Mem := ((ctx, addr), w) :: m

structure Vm where
  stack : List Nat
  clk : Nat := 0
  ctx : Nat := 0
  fmp : Nat := 1073741824
  inSyscall : Bool := false
  fnHash : Word := Word.zero
  mem : Mem := []
  adv : List Nat := []
  paths : List (List Word) := []
  /-- Decoder operation of every row executed so far, newest first. -/
  trace : List Op := []
  deriving Repr, Inhabited

def FMP_MIN : Nat := 1073741824
def FMP_MAX : Nat := 3221225471
def SYSCALL_FMP_MIN : Nat := 2147483648
def two64 : Nat := 18446744073709551616

/-- Keep the visible depth at 16 or more by shifting zeros in at the bottom. -/
def pad16 (l : List Nat) : List Nat := l ++ List.replicate (16 - l.length) 0

/-- Insert `x` at position `n` (after removing nothing): used by MOVDN. -/
def insertAt : Nat → Nat → List Nat → List Nat
  | 0, x, l => x :: l
  | n + 1, x, y :: l => y :: insertAt n x l
  | _ + 1, x, [] => [x]

def boolToNat (b : Bool) : Nat := if b then 1 else 0

/-- Fold a Merkle path from a node up to the root (`Hasher::verify_merkle_path`). -/
def merkleRoot : List Nat → List Word → Nat → List Nat
  | node, [], _ => node
  | node, sib :: rest, idx =>
    let n := if idx % 2 = 0 then Rpo.merge node sib.toList else Rpo.merge sib.toList node
    merkleRoot n rest (idx / 2)

namespace Vm

def setStack (vm : Vm) (s : List Nat) : Vm := { vm with stack := s }

def dup (vm : Vm) (n : Nat) : Except Err Vm :=
  match vm.stack[n]? with
  | some v => .ok (vm.setStack (v :: vm.stack))
  | none => .error .stackUnderflow

def movup (vm : Vm) (n : Nat) : Except Err Vm :=
  match vm.stack[n]? with
  | some v => .ok (vm.setStack (v :: vm.stack.eraseIdx n))
  | none => .error .stackUnderflow

def movdn (vm : Vm) (n : Nat) : Except Err Vm :=
  match vm.stack with
  | x :: rest => if n ≤ rest.length then .ok (vm.setStack (insertAt n x rest)) else .error .stackUnderflow
  | [] => .error .stackUnderflow

def validAddr (a : Nat) : Except Err Nat :=
  if a > u32max then .error (.addrOOB a) else .ok a

/-- Effect of one non-control operation on stack, memory, advice tape and `fmp`. -/
def stepCore (vm : Vm) (op : Op) : Except Err Vm :=
  match op with
  | .noop => .ok vm
  | .assert code =>
    match vm.stack with
    | a :: r => if a = 1 then .ok (vm.setStack (pad16 r)) else .error (.assertFailed code)
    | _ => .error .stackUnderflow
  | .fmpadd =>
    match vm.stack with
    | a :: r => .ok (vm.setStack (fadd vm.fmp a :: r))
    | _ => .error .stackUnderflow
  | .fmpupdate =>
    match vm.stack with
    | a :: r =>
      let n := fadd vm.fmp a
      if n < FMP_MIN ∨ n > FMP_MAX then .error .fmpRange
      else .ok { vm with fmp := n, stack := pad16 r }
    | _ => .error .stackUnderflow
  | .sdepth => .ok (vm.setStack (vm.stack.length :: vm.stack))
  | .caller =>
    if !vm.inSyscall then .error .callerNotInSyscall
    else match vm.stack with
      | _ :: _ :: _ :: _ :: r =>
        .ok (vm.setStack (vm.fnHash.w3 :: vm.fnHash.w2 :: vm.fnHash.w1 :: vm.fnHash.w0 :: r))
      | _ => .error .stackUnderflow
  | .clk => .ok (vm.setStack (vm.clk :: vm.stack))
  -- control operations are never executed through `step`
  | .join | .split | .loop | .call | .dyn | .syscall | .span | .end | .repeat | .respan | .halt =>
    .error (.unsupported "control op")
  | .add =>
    match vm.stack with
    | b :: a :: r => .ok (vm.setStack (pad16 (fadd a b :: r)))
    | _ => .error .stackUnderflow
  | .neg =>
    match vm.stack with
    | a :: r => .ok (vm.setStack (fneg a :: r))
    | _ => .error .stackUnderflow
  | .mul =>
    match vm.stack with
    | b :: a :: r => .ok (vm.setStack (pad16 (fmul a b :: r)))
    | _ => .error .stackUnderflow
  | .inv =>
    match vm.stack with
    | a :: r => if a = 0 then .error .divZero else .ok (vm.setStack (finv a :: r))
    | _ => .error .stackUnderflow
  | .incr =>
    match vm.stack with
    | a :: r => .ok (vm.setStack (fadd a 1 :: r))
    | _ => .error .stackUnderflow
  | .and =>
    match vm.stack with
    | b :: a :: r =>
      if b > 1 then .error (.notBinary b) else if a > 1 then .error (.notBinary a)
      else .ok (vm.setStack (pad16 ((if a = 1 ∧ b = 1 then 1 else 0) :: r)))
    | _ => .error .stackUnderflow
  | .or =>
    match vm.stack with
    | b :: a :: r =>
      if b > 1 then .error (.notBinary b) else if a > 1 then .error (.notBinary a)
      else .ok (vm.setStack (pad16 ((if a = 1 ∨ b = 1 then 1 else 0) :: r)))
    | _ => .error .stackUnderflow
  | .not =>
    match vm.stack with
    | a :: r => if a > 1 then .error (.notBinary a) else .ok (vm.setStack ((1 - a) :: r))
    | _ => .error .stackUnderflow
  | .eq =>
    match vm.stack with
    | b :: a :: r => .ok (vm.setStack (pad16 ((if a = b then 1 else 0) :: r)))
    | _ => .error .stackUnderflow
  | .eqz =>
    match vm.stack with
    | a :: r => .ok (vm.setStack ((if a = 0 then 1 else 0) :: r))
    | _ => .error .stackUnderflow
  | .expacc =>
    match vm.stack with
    | _ :: exp :: acc :: b :: r =>
      let bit := b % 2
      let value := if bit = 1 then exp else 1
      .ok (vm.setStack (bit :: fmul exp exp :: fmul acc value :: b / 2 :: r))
    | _ => .error .stackUnderflow
  | .ext2mul =>
    match vm.stack with
    | b1 :: b0 :: a1 :: a0 :: r =>
      let c2 := fsub (fmul (fadd b0 b1) (fadd a1 a0)) (fmul b0 a0)
      let c3 := fsub (fmul b0 a0) (fmul (fmul 2 b1) a1)
      .ok (vm.setStack (b1 :: b0 :: c2 :: c3 :: r))
    | _ => .error .stackUnderflow
  | .u32split =>
    match vm.stack with
    | a :: r => .ok (vm.setStack (splitHi a :: splitLo a :: r))
    | _ => .error .stackUnderflow
  | .u32assert2 code =>
    match vm.stack with
    | a :: b :: _ =>
      if a ≥ two32 then .error (.notU32 a code) else if b ≥ two32 then .error (.notU32 b code)
      else .ok vm
    | _ => .error .stackUnderflow
  | .u32add =>
    match vm.stack with
    | b :: a :: r => let s := fadd a b; .ok (vm.setStack (splitHi s :: splitLo s :: r))
    | _ => .error .stackUnderflow
  | .u32add3 =>
    match vm.stack with
    | c :: b :: a :: r =>
      let s := ((a + b + c) % two64) % P
      .ok (vm.setStack (pad16 (splitHi s :: splitLo s :: r)))
    | _ => .error .stackUnderflow
  | .u32sub =>
    match vm.stack with
    | b :: a :: r =>
      let res := (a + two64 - b) % two64
      .ok (vm.setStack (res / 2 ^ 63 :: res % two32 :: r))
    | _ => .error .stackUnderflow
  | .u32mul =>
    match vm.stack with
    | b :: a :: r => let s := ((a * b) % two64) % P; .ok (vm.setStack (splitHi s :: splitLo s :: r))
    | _ => .error .stackUnderflow
  | .u32madd =>
    match vm.stack with
    | b :: a :: c :: r =>
      let s := ((a * b + c) % two64) % P
      .ok (vm.setStack (pad16 (splitHi s :: splitLo s :: r)))
    | _ => .error .stackUnderflow
  | .u32div =>
    match vm.stack with
    | b :: a :: r =>
      if b = 0 then .error .divZero else .ok (vm.setStack (a % b :: a / b :: r))
    | _ => .error .stackUnderflow
  | .u32and =>
    match vm.stack with
    | b :: a :: r =>
      if a ≥ two32 then .error (.notU32 a 0) else if b ≥ two32 then .error (.notU32 b 0)
      else .ok (vm.setStack (pad16 (Nat.land a b :: r)))
    | _ => .error .stackUnderflow
  | .u32xor =>
    match vm.stack with
    | b :: a :: r =>
      if a ≥ two32 then .error (.notU32 a 0) else if b ≥ two32 then .error (.notU32 b 0)
      else .ok (vm.setStack (pad16 (Nat.xor a b :: r)))
    | _ => .error .stackUnderflow
  | .pad => .ok (vm.setStack (0 :: vm.stack))
  | .drop =>
    match vm.stack with
    | _ :: r => .ok (vm.setStack (pad16 r))
    | _ => .error .stackUnderflow
  | .dup0 => vm.dup 0 | .dup1 => vm.dup 1 | .dup2 => vm.dup 2 | .dup3 => vm.dup 3
  | .dup4 => vm.dup 4 | .dup5 => vm.dup 5 | .dup6 => vm.dup 6 | .dup7 => vm.dup 7
  | .dup9 => vm.dup 9 | .dup11 => vm.dup 11 | .dup13 => vm.dup 13 | .dup15 => vm.dup 15
  | .swap =>
    match vm.stack with
    | a :: b :: r => .ok (vm.setStack (b :: a :: r))
    | _ => .error .stackUnderflow
  | .swapw =>
    match vm.stack with
    | a0 :: a1 :: a2 :: a3 :: b0 :: b1 :: b2 :: b3 :: r =>
      .ok (vm.setStack (b0 :: b1 :: b2 :: b3 :: a0 :: a1 :: a2 :: a3 :: r))
    | _ => .error .stackUnderflow
  | .swapw2 =>
    match vm.stack with
    | a0 :: a1 :: a2 :: a3 :: b0 :: b1 :: b2 :: b3 :: c0 :: c1 :: c2 :: c3 :: r =>
      .ok (vm.setStack (c0 :: c1 :: c2 :: c3 :: b0 :: b1 :: b2 :: b3 :: a0 :: a1 :: a2 :: a3 :: r))
    | _ => .error .stackUnderflow
  | .swapw3 =>
    match vm.stack with
    | a0 :: a1 :: a2 :: a3 :: b0 :: b1 :: b2 :: b3 :: c0 :: c1 :: c2 :: c3
        :: d0 :: d1 :: d2 :: d3 :: r =>
      .ok (vm.setStack (d0 :: d1 :: d2 :: d3 :: b0 :: b1 :: b2 :: b3 :: c0 :: c1 :: c2 :: c3
        :: a0 :: a1 :: a2 :: a3 :: r))
    | _ => .error .stackUnderflow
  | .swapdw =>
    match vm.stack with
    | a0 :: a1 :: a2 :: a3 :: b0 :: b1 :: b2 :: b3 :: c0 :: c1 :: c2 :: c3
        :: d0 :: d1 :: d2 :: d3 :: r =>
      .ok (vm.setStack (c0 :: c1 :: c2 :: c3 :: d0 :: d1 :: d2 :: d3 :: a0 :: a1 :: a2 :: a3
        :: b0 :: b1 :: b2 :: b3 :: r))
    | _ => .error .stackUnderflow
  | .movup2 => vm.movup 2 | .movup3 => vm.movup 3 | .movup4 => vm.movup 4 | .movup5 => vm.movup 5
  | .movup6 => vm.movup 6 | .movup7 => vm.movup 7 | .movup8 => vm.movup 8
  | .movdn2 => vm.movdn 2 | .movdn3 => vm.movdn 3 | .movdn4 => vm.movdn 4 | .movdn5 => vm.movdn 5
  | .movdn6 => vm.movdn 6 | .movdn7 => vm.movdn 7 | .movdn8 => vm.movdn 8
  | .cswap =>
    match vm.stack with
    | c :: b :: a :: r =>
      if c = 0 then .ok (vm.setStack (pad16 (b :: a :: r)))
      else if c = 1 then .ok (vm.setStack (pad16 (a :: b :: r)))
      else .error (.notBinary c)
    | _ => .error .stackUnderflow
  | .cswapw =>
    match vm.stack with
    | c :: b0 :: b1 :: b2 :: b3 :: a0 :: a1 :: a2 :: a3 :: r =>
      if c = 0 then .ok (vm.setStack (pad16 (b0 :: b1 :: b2 :: b3 :: a0 :: a1 :: a2 :: a3 :: r)))
      else if c = 1 then
        .ok (vm.setStack (pad16 (a0 :: a1 :: a2 :: a3 :: b0 :: b1 :: b2 :: b3 :: r)))
      else .error (.notBinary c)
    | _ => .error .stackUnderflow
  | .push v => .ok (vm.setStack (v :: vm.stack))
  | .advpop =>
    match vm.adv with
    | v :: rest => .ok { vm with adv := rest, stack := v :: vm.stack }
    | [] => .error .adviceExhausted
  | .advpopw =>
    match vm.adv, vm.stack with
    | t0 :: t1 :: t2 :: t3 :: rest, _ :: _ :: _ :: _ :: r =>
      .ok { vm with adv := rest, stack := t3 :: t2 :: t1 :: t0 :: r }
    | _, _ :: _ :: _ :: _ :: _ => .error .adviceExhausted
    | _, _ => .error .stackUnderflow
  | .mloadw =>
    match vm.stack with
    | a :: _ :: _ :: _ :: _ :: r =>
      match validAddr a with
      | .error e => .error e
      | .ok addr =>
        let w := vm.mem.read vm.ctx addr
        .ok (vm.setStack (pad16 (w.w3 :: w.w2 :: w.w1 :: w.w0 :: r)))
    | _ => .error .stackUnderflow
  | .mload =>
    match vm.stack with
    | a :: r =>
      match validAddr a with
      | .error e => .error e
      | .ok addr => .ok (vm.setStack ((vm.mem.read vm.ctx addr).w0 :: r))
    | _ => .error .stackUnderflow
  | .mstorew =>
    match vm.stack with
    | a :: s1 :: s2 :: s3 :: s4 :: r =>
      match validAddr a with
      | .error e => .error e
      | .ok addr =>
        .ok { vm with mem := vm.mem.write vm.ctx addr ⟨s4, s3, s2, s1⟩,
                      stack := pad16 (s1 :: s2 :: s3 :: s4 :: r) }
    | _ => .error .stackUnderflow
  | .mstore =>
    match vm.stack with
    | a :: v :: r =>
      match validAddr a with
      | .error e => .error e
      | .ok addr =>
        let old := vm.mem.read vm.ctx addr
        .ok { vm with mem := vm.mem.write vm.ctx addr { old with w0 := v }, stack := pad16 (v :: r) }
    | _ => .error .stackUnderflow
  | .mstream =>
    match vm.stack with
    | _ :: _ :: _ :: _ :: _ :: _ :: _ :: _ :: s8 :: s9 :: s10 :: s11 :: a :: r =>
      match validAddr a with
      | .error e => .error e
      | .ok addr =>
        if addr + 1 > u32max then .error (.addrOOB (addr + 1)) else
        let w0 := vm.mem.read vm.ctx addr
        let w1 := vm.mem.read vm.ctx (addr + 1)
        .ok (vm.setStack (w1.w3 :: w1.w2 :: w1.w1 :: w1.w0 :: w0.w3 :: w0.w2 :: w0.w1 :: w0.w0
              :: s8 :: s9 :: s10 :: s11 :: (addr + 2) :: r))
    | _ => .error .stackUnderflow
  | .pipe =>
    match vm.stack with
    | _ :: _ :: _ :: _ :: _ :: _ :: _ :: _ :: s8 :: s9 :: s10 :: s11 :: a :: r =>
      match validAddr a with
      | .error e => .error e
      | .ok addr =>
        if addr + 1 > u32max then .error (.addrOOB (addr + 1)) else
        match vm.adv with
        | t0 :: t1 :: t2 :: t3 :: t4 :: t5 :: t6 :: t7 :: rest =>
          let m := (vm.mem.write vm.ctx addr ⟨t0, t1, t2, t3⟩).write vm.ctx (addr + 1)
                    ⟨t4, t5, t6, t7⟩
          .ok { vm with adv := rest, mem := m,
                        stack := t7 :: t6 :: t5 :: t4 :: t3 :: t2 :: t1 :: t0
                          :: s8 :: s9 :: s10 :: s11 :: (addr + 2) :: r }
        | _ => .error .adviceExhausted
    | _ => .error .stackUnderflow
  | .hperm =>
    if vm.stack.length < 12 then .error .stackUnderflow
    else
      let inp := (vm.stack.take 12).reverse
      let out := Rpo.permute inp
      .ok (vm.setStack (out.reverse ++ vm.stack.drop 12))
  | .mpverify =>
    match vm.stack with
    | v0 :: v1 :: v2 :: v3 :: d :: i :: r0 :: r1 :: r2 :: r3 :: _ =>
      match vm.paths with
      | [] => .error .hostNoPath
      | path :: rest =>
        if path.length ≠ d then .error .merklePathFailed
        else if path.isEmpty ∨ i / 2 ^ path.length ≠ 0 then .error .hostPanic
        else
          let root := merkleRoot [v3, v2, v1, v0] path i
          if root = [r3, r2, r1, r0] then .ok { vm with paths := rest }
          else .error .merklePathFailed
    | _ => .error .stackUnderflow
  | .mrupdate =>
    match vm.stack with
    | v0 :: v1 :: v2 :: v3 :: d :: i :: r0 :: r1 :: r2 :: r3 :: n0 :: n1 :: n2 :: n3 :: r =>
      match vm.paths with
      | [] => .error .hostNoPath
      | path :: rest =>
        if path.length ≠ d % two64 ∨ path.isEmpty ∨ i / 2 ^ path.length ≠ 0 then .error .hostPanic
        else
          let oldRoot := merkleRoot [v3, v2, v1, v0] path i
          if oldRoot ≠ [r3, r2, r1, r0] then .error .hostPanic
          else
            match merkleRoot [n3, n2, n1, n0] path i with
            | [q0, q1, q2, q3] =>
              .ok { vm with paths := rest,
                            stack := q3 :: q2 :: q1 :: q0 :: d :: i :: r0 :: r1 :: r2 :: r3
                              :: n0 :: n1 :: n2 :: n3 :: r }
            | _ => .error .hostPanic
    | _ => .error .stackUnderflow
  | .frie2f4 => .error (.unsupported "frie2f4")
  | .rcombbase => .error (.unsupported "rcombbase")

/-- Execute one non-control operation.  It never advances the clock nor writes a trace row (that is
    `tick`'s job); the projection makes this explicit so that it holds by construction. -/
def step (vm : Vm) (op : Op) : Except Err Vm :=
  match vm.stepCore op with
  | .error e => .error e
  | .ok r => .ok { r with clk := vm.clk, trace := vm.trace }

end Vm
end Miden
