/-
  The trace row the processor writes for a machine state (the cells the stack AIR reads), and the
  user-operation helper registers `h0..h5` it fills in
  (`processor/src/operations/{field_ops,u32_ops}.rs: set_user_op_helpers / add_range_checks`,
  `processor/src/stack/trace.rs: b0, b1, h0`).

  Core Lean only: executed at `GF` by the driver (request `hrow`, compared with rows of real traces)
  and reasoned about at `ZMod P` in `Props/C03Air.lean` (completeness of the stack AIR on honest rows).
-/
import Miden.Model.Vm
import Miden.Model.Air
namespace Miden

/-- `add_range_checks`: the four 16-bit limbs of `lo`, `hi` (low limb first) and the validity helper. -/
def limbs16 (lo hi m : Nat) : List Nat :=
  [lo % 65536, lo / 65536, hi % 65536, hi / 65536, m, 0]

/-- `m = (u32::MAX - hi).inv()` (zero when `hi = u32::MAX`, as `inv` of zero is zero). -/
def validityHelper (hi : Nat) : Nat := finv (fsub u32max hi)

/-- Helper registers written by operation `op` executed on operand stack `s` (top first).
    Operations that write no helper leave all six registers zero. -/
def helpersOf (op : Op) (s : List Nat) : List Nat :=
  let g (i : Nat) := s.getD i 0
  match op with
  | .eq => [if g 0 = g 1 then 0 else finv (fsub (g 0) (g 1)), 0, 0, 0, 0, 0]
  | .eqz => [if g 0 = 0 then 0 else finv (g 0), 0, 0, 0, 0, 0]
  | .expacc => [if g 3 % 2 = 1 then g 1 else 1, 0, 0, 0, 0, 0]
  | .u32split => limbs16 (splitLo (g 0)) (splitHi (g 0)) (validityHelper (splitHi (g 0)))
  | .u32assert2 _ => limbs16 (g 0) (g 1) 0
  | .u32add => let r := fadd (g 1) (g 0); limbs16 (splitLo r) (splitHi r) 0
  | .u32add3 => let r := ((g 2 + g 1 + g 0) % two64) % P; limbs16 (splitLo r) (splitHi r) 0
  | .u32sub => let r := (g 1 + two64 - g 0) % two64; limbs16 (r % two32) 0 0
  | .u32mul =>
    let r := ((g 1 * g 0) % two64) % P
    limbs16 (splitLo r) (splitHi r) (validityHelper (splitHi r))
  | .u32madd =>
    let r := ((g 1 * g 0 + g 2) % two64) % P
    limbs16 (splitLo r) (splitHi r) (validityHelper (splitHi r))
  | .u32div =>
    let b := g 0; let a := g 1
    let q := a / b; let r := a % b
    limbs16 (a - q) (b - r - 1) 0
  | _ => [0, 0, 0, 0, 0, 0]

/-- Left-shifting operations (the AIR's composite left-shift flag restricted to user operations). -/
def Vm.isLeftB (op : Op) : Bool := (32 ≤ op.code && op.code ≤ 47) || op.code = 76 || op.code = 78

namespace Air

/-- The row of machine state `vm` on which the decoder executes opcode `opcode` with helper
    registers `hlp`; `b1` is the address of the top overflow row, `h0` the depth helper column. -/
def rowWith {F : Type} [NatCast F] (vm : Vm) (opcode : Nat) (hlp : List Nat) (b1 h0 : F) : Row F :=
  { clk := (vm.clk : F), fmp := (vm.fmp : F), opcode := opcode,
    hlp := hlp.map (fun (x : Nat) => (x : F)),
    s := (vm.stack.take 16).map (fun (x : Nat) => (x : F)),
    b0 := (vm.stack.length : F), b1 := b1, h0 := h0 }

/-- `h0 = 1 / (depth - 16)`, zero at depth 16 (`StackTrace`). -/
def h0Of (depth : Nat) : Nat := if depth ≤ 16 then 0 else finv (depth - 16)

end Air
end Miden
