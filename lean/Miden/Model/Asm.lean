/-
  Call-set bookkeeping of the assembler (assembly/src/assembler/context.rs, procedure_cache.rs,
  instruction/procedures.rs), abstracted to the call graph.

  Procedures are numbered in compilation order (a procedure can only refer to procedures compiled
  before it: local procedures defined earlier, procedures of imported modules, kernel procedures).
  A reference either inlines the target (`exec`) or needs its body at run time (`call`, `syscall`,
  `procref`): `register_local_call` / `register_external_call` append the callee's call set and,
  unless inlined, insert the callee itself.  A procedure index stands for its MAST root.
  Core Lean only.
-/
namespace Miden.Asm

inductive Ref where
  | exec (j : Nat)
  | call (j : Nat)
  deriving Repr, DecidableEq

/-- `CallSet::append` (set union kept as a duplicate-free list). -/
def union (a b : List Nat) : List Nat := b.foldl (fun acc x => if x ∈ acc then acc else acc ++ [x]) a

def insert (x : Nat) (a : List Nat) : List Nat := if x ∈ a then a else a ++ [x]

/-- One `register_*_call`. -/
def register (done : List (List Nat)) (acc : List Nat) : Ref → List Nat
  | .exec j => union acc (done.getD j [])
  | .call j => insert j (union acc (done.getD j []))

/-- Call set of a procedure body given the call sets of the procedures compiled before it. -/
def bodyCallset (done : List (List Nat)) (refs : List Ref) : List Nat :=
  refs.foldl (register done) []

/-- Compile all procedures in order: the call set of each. -/
def compileAll (ps : List (List Ref)) : List (List Nat) :=
  ps.foldl (fun done refs => done ++ [bodyCallset done refs]) []

/-- `into_cb_table`: the call sets of every local procedure of the executable module
    (`complete_proc` appends each to the module call set, used or not) and of the program body. -/
def cbTable (ps : List (List Ref)) (mainLocal : List Nat) (mainRefs : List Ref) : List Nat :=
  let done := compileAll ps
  mainLocal.foldl (fun acc i => union acc (done.getD i [])) (bodyCallset done mainRefs)

/-- Targets whose body is needed when a procedure body runs (after inlining): `call`ed procedures
    directly, and those of inlined procedures. `fuel` bounds the inlining depth (indices decrease). -/
def needed (ps : List (List Ref)) : Nat → List Ref → List Nat
  | 0, _ => []
  | fuel + 1, refs =>
    refs.flatMap (fun r => match r with
      | .call j => [j]
      | .exec j => needed ps fuel (ps.getD j []))

/-- Well-formedness: procedure `i` refers only to procedures `j < i`. -/
def refsBelow (n : Nat) (refs : List Ref) : Bool :=
  refs.all (fun r => match r with | .exec j => j < n | .call j => j < n)

def wellFormed (ps : List (List Ref)) : Bool :=
  (List.range ps.length).all (fun i => refsBelow i (ps.getD i []))

def Ref.idx : Ref → Nat
  | .exec j => j
  | .call j => j

/-- The procedure cache, abstracted to "procedure ↦ its call set". -/
abbrev Cache := List (Nat × List Nat)

def Cache.get? (c : Cache) (i : Nat) : Option (List Nat) := (c.find? (fun e => e.1 == i)).map (·.2)

/-- One reference of a body being compiled: make sure the target is compiled (`f`), then register
    the call. -/
def ensureStep (f : Cache → Nat → List Nat × Cache) (st : List Nat × Cache) (r : Ref) :
    List Nat × Cache :=
  let res := f st.2 r.idx
  (match r with
    | .exec _ => union st.1 res.1
    | .call j => insert j (union st.1 res.1), res.2)

/-- `ensure_procedure_is_in_cache` followed by the use of the cached procedure: returns the call set
    of procedure `i`, compiling and caching whatever is not in the cache yet (recursively, as the
    assembler compiles imported modules on demand). -/
def ensure (ps : List (List Ref)) : Nat → Cache → Nat → List Nat × Cache
  | 0, c, _ => ([], c)
  | fuel + 1, c, i =>
    match c.get? i with
    | some v => (v, c)
    | none =>
      let st := (ps.getD i []).foldl (ensureStep (ensure ps fuel)) ([], c)
      (st.1, (i, st.1) :: st.2)

/-- A compilation history: the procedures requested one after the other on the same cache. -/
def history (ps : List (List Ref)) (fuel : Nat) (c : Cache) : List Nat → Cache
  | [] => c
  | i :: rest => history ps fuel (ensure ps fuel c i).2 rest

end Miden.Asm
