/-
  The instruction reference (`docs/src/user_docs/assembly/{field_operations,u32_operations,
  stack_manipulation,io_operations}.md`) as executable functions on the operand stack.

  This file is written from the documentation, not from the code: it is the oracle that the
  assembler's expansions (`Generated/InstrOps.lean`) are proved against and that the real VM is
  compared with.  "Undefined" rows of the reference are `SpecErr.undefined`; they are excluded from
  every comparison by exactly the documented guard.
-/
import Miden.Model.Vm
namespace Miden
namespace Spec

inductive SpecErr where
  | undefined
  | fail (kind : Option Err)
  deriving Repr, DecidableEq

abbrev R := Except SpecErr (List Nat)

def undef : R := .error .undefined
def failWith (e : Err) : R := .error (.fail (some e))
def failAny : R := .error (.fail none)

/-- Assembly instructions in the scope of C05 (field, comparison, ext2, u32, stack manipulation,
    constant push, environment).  Parameters are the instruction's immediates. -/
inductive Instr where
  | assert (c : Nat) | assertz (c : Nat) | assertEq (c : Nat) | assertEqw (c : Nat)
  | add | addImm (b : Nat) | sub | subImm (b : Nat) | mul | mulImm (b : Nat)
  | div | divImm (b : Nat) | neg | inv | pow2 | exp | expImm (b : Nat) | expBits (n : Nat)
  | ilog2 | not | and | or | xor
  | eq | eqImm (b : Nat) | neq | neqImm (b : Nat) | lt | lte | gt | gte | isOdd | eqw
  | ext2add | ext2sub | ext2mul | ext2div | ext2neg | ext2inv
  | u32test | u32testw | u32assert (c : Nat) | u32assert2 (c : Nat) | u32assertw (c : Nat)
  | u32cast | u32split
  | u32wrappingAdd | u32wrappingAddImm (b : Nat) | u32overflowingAdd | u32overflowingAddImm (b : Nat)
  | u32overflowingAdd3 | u32wrappingAdd3
  | u32wrappingSub | u32wrappingSubImm (b : Nat) | u32overflowingSub | u32overflowingSubImm (b : Nat)
  | u32wrappingMul | u32wrappingMulImm (b : Nat) | u32overflowingMul | u32overflowingMulImm (b : Nat)
  | u32overflowingMadd | u32wrappingMadd
  | u32div | u32divImm (b : Nat) | u32mod | u32modImm (b : Nat) | u32divmod | u32divmodImm (b : Nat)
  | u32and | u32or | u32xor | u32not
  | u32shl | u32shlImm (b : Nat) | u32shr | u32shrImm (b : Nat)
  | u32rotl | u32rotlImm (b : Nat) | u32rotr | u32rotrImm (b : Nat)
  | u32popcnt | u32clz | u32ctz | u32clo | u32cto
  | u32lt | u32lte | u32gt | u32gte | u32min | u32max
  | drop | dropw | padw | dup (n : Nat) | dupw (n : Nat) | swap (n : Nat) | swapw (n : Nat) | swapdw
  | movup (n : Nat) | movupw (n : Nat) | movdn (n : Nat) | movdnw (n : Nat)
  | cswap | cswapw | cdrop | cdropw
  | push (vs : List Nat) | sdepth
  deriving Repr, DecidableEq

def b2n (b : Bool) : Nat := if b then 1 else 0

def popcount : Nat → Nat → Nat
  | 0, _ => 0
  | fuel + 1, a => a % 2 + popcount fuel (a / 2)

/-- Number of leading zeros of a 32-bit value. -/
def clz32 (a : Nat) : Nat := if a = 0 then 32 else 31 - Nat.log2 a
/-- Number of trailing zeros of a 32-bit value. -/
def ctz32Aux : Nat → Nat → Nat
  | 0, _ => 0
  | fuel + 1, a => if a % 2 = 1 then 0 else 1 + ctz32Aux fuel (a / 2)
def ctz32 (a : Nat) : Nat := if a = 0 then 32 else ctz32Aux 32 a
def not32 (a : Nat) : Nat := u32max - a
def rotl32 (a b : Nat) : Nat := (a * 2 ^ b) % two32 + a / 2 ^ (32 - b)

/-- Quadratic extension `F_p[x]/(x² − x + 2)`: product and inverse. -/
def ext2mulS (a0 a1 b0 b1 : Nat) : Nat × Nat :=
  (fsub (fmul a0 b0) (fmul 2 (fmul a1 b1)),
   fsub (fmul (fadd a0 a1) (fadd b0 b1)) (fmul a0 b0))
/-- Inverse via the norm: for `a = a0 + a1·x`, the conjugate is `(a0 + a1) − a1·x` and
    `a · conj(a) = a0² + a0·a1 + 2·a1²` lies in the base field. -/
def ext2invS (a0 a1 : Nat) : Nat × Nat :=
  let n := fadd (fadd (fmul a0 a0) (fmul a0 a1)) (fmul 2 (fmul a1 a1))
  let ni := finv n
  (fmul (fadd a0 a1) ni, fmul (fneg a1) ni)

def isU32s (l : List Nat) : Bool := l.all (· < two32)

/-- Instruction forms the assembler must reject (parameter outside its documented range, division
    by a zero immediate). -/
def Instr.invalid : Instr → Bool
  | .divImm 0 | .u32divImm 0 | .u32modImm 0 | .u32divmodImm 0 => true
  | .u32shlImm b | .u32shrImm b | .u32rotlImm b | .u32rotrImm b => b > 31
  | .expBits n => n > 64
  | .dup n => n > 15
  | .dupw n => n > 3
  | .swap n => n = 0 ∨ n > 15
  | .swapw n => n = 0 ∨ n > 3
  | .movup n | .movdn n => n < 2 ∨ n > 15
  | .movupw n | .movdnw n => n < 2 ∨ n > 3
  | .push vs => vs.any (· ≥ P) ∨ vs.length > 16
  | _ => false

/-- The documented stack transition of every instruction (on a stack of depth ≥ 16). -/
def sem : Instr → List Nat → R
  | .assert c => fun stk => match stk with
    | a :: r =>   if a = 1 then .ok (pad16 r) else failWith (.assertFailed c)
    | _ => undef
  | .assertz c => fun stk => match stk with
    | a :: r =>   if a = 0 then .ok (pad16 r) else failWith (.assertFailed c)
    | _ => undef
  | .assertEq c => fun stk => match stk with
    | b :: a :: r =>   if a = b then .ok (pad16 r) else failWith (.assertFailed c)
    | _ => undef
  | .assertEqw c => fun stk => match stk with
    | b3 :: b2 :: b1 :: b0 :: a3 :: a2 :: a1 :: a0 :: r =>
      if a0 = b0 ∧ a1 = b1 ∧ a2 = b2 ∧ a3 = b3 then .ok (pad16 r) else failWith (.assertFailed c)
    | _ => undef
  | .add => fun stk => match stk with
    | b :: a :: r =>   .ok (pad16 (fadd a b :: r))
    | _ => undef
  | .addImm b => fun stk => match stk with
    | a :: r =>   .ok (fadd a b :: r)
    | _ => undef
  | .sub => fun stk => match stk with
    | b :: a :: r =>   .ok (pad16 (fsub a b :: r))
    | _ => undef
  | .subImm b => fun stk => match stk with
    | a :: r =>   .ok (fsub a b :: r)
    | _ => undef
  | .mul => fun stk => match stk with
    | b :: a :: r =>   .ok (pad16 (fmul a b :: r))
    | _ => undef
  -- `mul.0` and `exp.0` are documented as two cycles (drop, push): at depth 16 the drop shifts a
  -- zero in before the push, which is visible only through `sdepth`
  | .mulImm b => fun stk => match stk with
    | a :: r =>   if b = 0 then .ok (0 :: pad16 r) else .ok (fmul a b :: r)
    | _ => undef
  | .div => fun stk => match stk with
    | b :: a :: r =>   if b = 0 then failWith .divZero else .ok (pad16 (fmul a (finv b) :: r))
    | _ => undef
  | .divImm b => fun stk => match stk with
    | a :: r =>   if b = 0 then failAny else .ok (fmul a (finv b) :: r)
    | _ => undef
  | .neg => fun stk => match stk with
    | a :: r =>   .ok (fneg a :: r)
    | _ => undef
  | .inv => fun stk => match stk with
    | a :: r =>   if a = 0 then failWith .divZero else .ok (finv a :: r)
    | _ => undef
  | .pow2 => fun stk => match stk with
    | a :: r =>   if a > 63 then failAny else .ok (fpow 2 a :: r)
    | _ => undef
  | .exp => fun stk => match stk with
    | b :: a :: r =>   .ok (pad16 (fpow a b :: r))
    | _ => undef
  | .expImm b => fun stk => match stk with
    | a :: r =>   if b = 0 then .ok (1 :: pad16 r) else .ok (fpow a b :: r)
    | _ => undef
  | .expBits n => fun stk => match stk with
    | b :: a :: r =>
      if n > 64 then failAny else if b ≥ 2 ^ n then failAny else .ok (pad16 (fpow a b :: r))
    | _ => undef
  | .ilog2 => fun stk => match stk with
    | a :: r =>   if a = 0 then failAny else .ok (Nat.log2 a :: r)
    | _ => undef
  | .not => fun stk => match stk with
    | a :: r =>   if a > 1 then failWith (.notBinary a) else .ok ((1 - a) :: r)
    | _ => undef
  | .and => fun stk => match stk with
    | b :: a :: r =>
      if a > 1 ∨ b > 1 then failAny else .ok (pad16 (a * b :: r))
    | _ => undef
  | .or => fun stk => match stk with
    | b :: a :: r =>
      if a > 1 ∨ b > 1 then failAny else .ok (pad16 ((a + b - a * b) :: r))
    | _ => undef
  | .xor => fun stk => match stk with
    | b :: a :: r =>
      if a > 1 ∨ b > 1 then failAny else .ok (pad16 ((a + b - 2 * a * b) :: r))
    | _ => undef
  | .eq => fun stk => match stk with
    | b :: a :: r =>   .ok (pad16 (b2n (a = b) :: r))
    | _ => undef
  | .eqImm b => fun stk => match stk with
    | a :: r =>   .ok (b2n (a = b) :: r)
    | _ => undef
  | .neq => fun stk => match stk with
    | b :: a :: r =>   .ok (pad16 (b2n (a ≠ b) :: r))
    | _ => undef
  | .neqImm b => fun stk => match stk with
    | a :: r =>   .ok (b2n (a ≠ b) :: r)
    | _ => undef
  | .lt => fun stk => match stk with
    | b :: a :: r =>   .ok (pad16 (b2n (a < b) :: r))
    | _ => undef
  | .lte => fun stk => match stk with
    | b :: a :: r =>   .ok (pad16 (b2n (a ≤ b) :: r))
    | _ => undef
  | .gt => fun stk => match stk with
    | b :: a :: r =>   .ok (pad16 (b2n (a > b) :: r))
    | _ => undef
  | .gte => fun stk => match stk with
    | b :: a :: r =>   .ok (pad16 (b2n (a ≥ b) :: r))
    | _ => undef
  | .isOdd => fun stk => match stk with
    | a :: r =>   .ok (a % 2 :: r)
    | _ => undef
  | .eqw => fun stk => match stk with
    | a3 :: a2 :: a1 :: a0 :: b3 :: b2 :: b1 :: b0 :: r =>
      .ok (b2n (a0 = b0 ∧ a1 = b1 ∧ a2 = b2 ∧ a3 = b3)
            :: a3 :: a2 :: a1 :: a0 :: b3 :: b2 :: b1 :: b0 :: r)
    | _ => undef
  | .ext2add => fun stk => match stk with
    | b1 :: b0 :: a1 :: a0 :: r =>   .ok (pad16 (fadd a1 b1 :: fadd a0 b0 :: r))
    | _ => undef
  | .ext2sub => fun stk => match stk with
    | b1 :: b0 :: a1 :: a0 :: r =>   .ok (pad16 (fsub a1 b1 :: fsub a0 b0 :: r))
    | _ => undef
  | .ext2mul => fun stk => match stk with
    | b1 :: b0 :: a1 :: a0 :: r =>
      let c := ext2mulS a0 a1 b0 b1
      .ok (pad16 (c.2 :: c.1 :: r))
    | _ => undef
  | .ext2neg => fun stk => match stk with
    | a1 :: a0 :: r =>   .ok (fneg a1 :: fneg a0 :: r)
    | _ => undef
  | .ext2inv => fun stk => match stk with
    | a1 :: a0 :: r =>
      if a0 = 0 ∧ a1 = 0 then failAny else
      let c := ext2invS a0 a1
      .ok (c.2 :: c.1 :: r)
    | _ => undef
  | .ext2div => fun stk => match stk with
    | b1 :: b0 :: a1 :: a0 :: r =>
      if b0 = 0 ∧ b1 = 0 then failAny else
      let i := ext2invS b0 b1
      let c := ext2mulS a0 a1 i.1 i.2
      .ok (pad16 (c.2 :: c.1 :: r))
    | _ => undef
  | .u32test => fun stk => match stk with
    | a :: r =>   .ok (b2n (a < two32) :: a :: r)
    | _ => undef
  | .u32testw => fun stk => match stk with
    | a3 :: a2 :: a1 :: a0 :: r =>
      .ok (b2n (isU32s [a0, a1, a2, a3]) :: a3 :: a2 :: a1 :: a0 :: r)
    | _ => undef
  | .u32assert c => fun stk => match stk with
    | a :: r =>   if a < two32 then .ok (a :: r) else failWith (.notU32 a c)
    | _ => undef
  | .u32assert2 c => fun stk => match stk with
    | b :: a :: r =>
      if b ≥ two32 then failWith (.notU32 b c) else if a ≥ two32 then failWith (.notU32 a c)
      else .ok (b :: a :: r)
    | _ => undef
  | .u32assertw _ => fun stk => match stk with
    | a3 :: a2 :: a1 :: a0 :: r =>
      if isU32s [a0, a1, a2, a3] then .ok (a3 :: a2 :: a1 :: a0 :: r) else failAny
    | _ => undef
  | .u32cast => fun stk => match stk with
    | a :: r =>   .ok (a % two32 :: r)
    | _ => undef
  | .u32split => fun stk => match stk with
    | a :: r =>   .ok (a / two32 :: a % two32 :: r)
    | _ => undef
  | .u32wrappingAdd => fun stk => match stk with
    | b :: a :: r =>
      if isU32s [a, b] then .ok (pad16 ((a + b) % two32 :: r)) else undef
    | _ => undef
  | .u32wrappingAddImm b => fun stk => match stk with
    | a :: r =>   if isU32s [a, b] then .ok ((a + b) % two32 :: r) else undef
    | _ => undef
  | .u32overflowingAdd => fun stk => match stk with
    | b :: a :: r =>
      if isU32s [a, b] then .ok (b2n (a + b ≥ two32) :: (a + b) % two32 :: r) else undef
    | _ => undef
  | .u32overflowingAddImm b => fun stk => match stk with
    | a :: r =>
      if isU32s [a, b] then .ok (b2n (a + b ≥ two32) :: (a + b) % two32 :: r) else undef
    | _ => undef
  | .u32overflowingAdd3 => fun stk => match stk with
    | c :: b :: a :: r =>
      if isU32s [a, b, c] then .ok (pad16 ((a + b + c) / two32 :: (a + b + c) % two32 :: r)) else undef
    | _ => undef
  | .u32wrappingAdd3 => fun stk => match stk with
    | c :: b :: a :: r =>
      if isU32s [a, b, c] then .ok (pad16 ((a + b + c) % two32 :: r)) else undef
    | _ => undef
  | .u32wrappingSub => fun stk => match stk with
    | b :: a :: r =>
      if isU32s [a, b] then .ok (pad16 ((a + two32 - b) % two32 :: r)) else undef
    | _ => undef
  | .u32wrappingSubImm b => fun stk => match stk with
    | a :: r =>
      if isU32s [a, b] then .ok ((a + two32 - b) % two32 :: r) else undef
    | _ => undef
  | .u32overflowingSub => fun stk => match stk with
    | b :: a :: r =>
      if isU32s [a, b] then .ok (b2n (a < b) :: (a + two32 - b) % two32 :: r) else undef
    | _ => undef
  | .u32overflowingSubImm b => fun stk => match stk with
    | a :: r =>
      if isU32s [a, b] then .ok (b2n (a < b) :: (a + two32 - b) % two32 :: r) else undef
    | _ => undef
  | .u32wrappingMul => fun stk => match stk with
    | b :: a :: r =>
      if isU32s [a, b] then .ok (pad16 ((a * b) % two32 :: r)) else undef
    | _ => undef
  | .u32wrappingMulImm b => fun stk => match stk with
    | a :: r =>   if isU32s [a, b] then .ok ((a * b) % two32 :: r) else undef
    | _ => undef
  | .u32overflowingMul => fun stk => match stk with
    | b :: a :: r =>
      if isU32s [a, b] then .ok ((a * b) / two32 :: (a * b) % two32 :: r) else undef
    | _ => undef
  | .u32overflowingMulImm b => fun stk => match stk with
    | a :: r =>
      if isU32s [a, b] then .ok ((a * b) / two32 :: (a * b) % two32 :: r) else undef
    | _ => undef
  | .u32overflowingMadd => fun stk => match stk with
    | b :: a :: c :: r =>
      if isU32s [a, b, c] then .ok (pad16 ((a * b + c) / two32 :: (a * b + c) % two32 :: r)) else undef
    | _ => undef
  | .u32wrappingMadd => fun stk => match stk with
    | b :: a :: c :: r =>
      if isU32s [a, b, c] then .ok (pad16 ((a * b + c) % two32 :: r)) else undef
    | _ => undef
  | .u32div => fun stk => match stk with
    | b :: a :: r =>
      if b = 0 then failWith .divZero else if isU32s [a, b] then .ok (pad16 (a / b :: r)) else undef
    | _ => undef
  | .u32divImm b => fun stk => match stk with
    | a :: r =>
      if b = 0 then failAny else if isU32s [a, b] then .ok (a / b :: r) else undef
    | _ => undef
  | .u32mod => fun stk => match stk with
    | b :: a :: r =>
      if b = 0 then failWith .divZero else if isU32s [a, b] then .ok (pad16 (a % b :: r)) else undef
    | _ => undef
  | .u32modImm b => fun stk => match stk with
    | a :: r =>
      if b = 0 then failAny else if isU32s [a, b] then .ok (a % b :: r) else undef
    | _ => undef
  | .u32divmod => fun stk => match stk with
    | b :: a :: r =>
      if b = 0 then failWith .divZero else if isU32s [a, b] then .ok (a % b :: a / b :: r) else undef
    | _ => undef
  | .u32divmodImm b => fun stk => match stk with
    | a :: r =>
      if b = 0 then failAny else if isU32s [a, b] then .ok (a % b :: a / b :: r) else undef
    | _ => undef
  | .u32and => fun stk => match stk with
    | b :: a :: r =>   if isU32s [a, b] then .ok (pad16 (Nat.land a b :: r)) else failAny
    | _ => undef
  | .u32or => fun stk => match stk with
    | b :: a :: r =>   if isU32s [a, b] then .ok (pad16 (Nat.lor a b :: r)) else failAny
    | _ => undef
  | .u32xor => fun stk => match stk with
    | b :: a :: r =>   if isU32s [a, b] then .ok (pad16 (Nat.xor a b :: r)) else failAny
    | _ => undef
  | .u32not => fun stk => match stk with
    | a :: r =>   if a < two32 then .ok (not32 a :: r) else failAny
    | _ => undef
  | .u32shl => fun stk => match stk with
    | b :: a :: r =>
      if a < two32 ∧ b ≤ 31 then .ok (pad16 ((a * 2 ^ b) % two32 :: r)) else undef
    | _ => undef
  | .u32shlImm b => fun stk => match stk with
    | a :: r =>
      if b > 31 then failAny else if a < two32 then .ok ((a * 2 ^ b) % two32 :: r) else undef
    | _ => undef
  | .u32shr => fun stk => match stk with
    | b :: a :: r =>   if a < two32 ∧ b ≤ 31 then .ok (pad16 (a / 2 ^ b :: r)) else undef
    | _ => undef
  | .u32shrImm b => fun stk => match stk with
    | a :: r =>
      if b > 31 then failAny else if a < two32 then .ok (a / 2 ^ b :: r) else undef
    | _ => undef
  | .u32rotl => fun stk => match stk with
    | b :: a :: r =>   if a < two32 ∧ b ≤ 31 then .ok (pad16 (rotl32 a b :: r)) else undef
    | _ => undef
  | .u32rotlImm b => fun stk => match stk with
    | a :: r =>
      if b > 31 then failAny else if a < two32 then .ok (rotl32 a b :: r) else undef
    | _ => undef
  | .u32rotr => fun stk => match stk with
    | b :: a :: r =>
      if a < two32 ∧ b ≤ 31 then .ok (pad16 (rotl32 a ((32 - b) % 32) :: r)) else undef
    | _ => undef
  | .u32rotrImm b => fun stk => match stk with
    | a :: r =>
      if b > 31 then failAny else if a < two32 then .ok (rotl32 a ((32 - b) % 32) :: r) else undef
    | _ => undef
  | .u32popcnt => fun stk => match stk with
    | a :: r =>   if a < two32 then .ok (popcount 32 a :: r) else undef
    | _ => undef
  | .u32clz => fun stk => match stk with
    | a :: r =>   if a < two32 then .ok (clz32 a :: r) else undef
    | _ => undef
  | .u32ctz => fun stk => match stk with
    | a :: r =>   if a < two32 then .ok (ctz32 a :: r) else undef
    | _ => undef
  | .u32clo => fun stk => match stk with
    | a :: r =>   if a < two32 then .ok (clz32 (not32 a) :: r) else undef
    | _ => undef
  | .u32cto => fun stk => match stk with
    | a :: r =>   if a < two32 then .ok (ctz32 (not32 a) :: r) else undef
    | _ => undef
  | .u32lt => fun stk => match stk with
    | b :: a :: r =>   if isU32s [a, b] then .ok (pad16 (b2n (a < b) :: r)) else undef
    | _ => undef
  | .u32lte => fun stk => match stk with
    | b :: a :: r =>   if isU32s [a, b] then .ok (pad16 (b2n (a ≤ b) :: r)) else undef
    | _ => undef
  | .u32gt => fun stk => match stk with
    | b :: a :: r =>   if isU32s [a, b] then .ok (pad16 (b2n (a > b) :: r)) else undef
    | _ => undef
  | .u32gte => fun stk => match stk with
    | b :: a :: r =>   if isU32s [a, b] then .ok (pad16 (b2n (a ≥ b) :: r)) else undef
    | _ => undef
  | .u32min => fun stk => match stk with
    | b :: a :: r =>   if isU32s [a, b] then .ok (pad16 ((if a < b then a else b) :: r)) else undef
    | _ => undef
  | .u32max => fun stk => match stk with
    | b :: a :: r =>   if isU32s [a, b] then .ok (pad16 ((if a > b then a else b) :: r)) else undef
    | _ => undef
  | .drop => fun stk => match stk with
    | _ :: r =>   .ok (pad16 r)
    | _ => undef
  | .dropw => fun stk => match stk with
    | _ :: _ :: _ :: _ :: r =>   .ok (pad16 r)
    | _ => undef
  | .padw => fun s =>   .ok (0 :: 0 :: 0 :: 0 :: s)
  | .dup n => fun s =>   match s[n]? with
      | some v => if n ≤ 15 then .ok (v :: s) else failAny
      | none => undef
  | .dupw n => fun s =>
      if n > 3 then failAny else
      match s[4 * n]?, s[4 * n + 1]?, s[4 * n + 2]?, s[4 * n + 3]? with
      | some x0, some x1, some x2, some x3 => .ok (x0 :: x1 :: x2 :: x3 :: s)
      | _, _, _, _ => undef
  | .swap n => fun s =>
      if n = 0 ∨ n > 15 then failAny else
      match s, s[n]? with
      | x :: _, some y => .ok ((s.set 0 y).set n x)
      | _, _ => undef
  | .swapw n => fun s =>
      if n = 0 ∨ n > 3 then failAny else
      if s.length < 4 * n + 4 then undef else
      .ok (((s.drop (4 * n)).take 4) ++ ((s.drop 4).take (4 * n - 4)) ++ s.take 4 ++ s.drop (4 * n + 4))
  | .swapdw => fun s =>
      if s.length < 16 then undef else
      .ok (((s.drop 8).take 8) ++ s.take 8 ++ s.drop 16)
  | .movup n => fun s =>
      if n < 2 ∨ n > 15 then failAny else
      match s[n]? with
      | some v => .ok (v :: s.eraseIdx n)
      | none => undef
  | .movdn n => fun s =>
      if n < 2 ∨ n > 15 then failAny else
      match s with
      | x :: r => if n ≤ r.length then .ok (insertAt n x r) else undef
      | [] => undef
  | .movupw n => fun s =>
      if n < 2 ∨ n > 3 then failAny else
      if s.length < 4 * n + 4 then undef else
      .ok (((s.drop (4 * n)).take 4) ++ s.take (4 * n) ++ s.drop (4 * n + 4))
  | .movdnw n => fun s =>
      if n < 2 ∨ n > 3 then failAny else
      if s.length < 4 * n + 4 then undef else
      .ok (((s.drop 4).take (4 * n)) ++ s.take 4 ++ s.drop (4 * n + 4))
  | .cswap => fun stk => match stk with
    | c :: b :: a :: r =>
      if c = 0 then .ok (pad16 (b :: a :: r)) else if c = 1 then .ok (pad16 (a :: b :: r))
      else failWith (.notBinary c)
    | _ => undef
  | .cswapw => fun stk => match stk with
    | c :: b0 :: b1 :: b2 :: b3 :: a0 :: a1 :: a2 :: a3 :: r =>
      if c = 0 then .ok (pad16 (b0 :: b1 :: b2 :: b3 :: a0 :: a1 :: a2 :: a3 :: r))
      else if c = 1 then .ok (pad16 (a0 :: a1 :: a2 :: a3 :: b0 :: b1 :: b2 :: b3 :: r))
      else failWith (.notBinary c)
    | _ => undef
  | .cdrop => fun stk => match stk with
    | c :: b :: a :: r =>
      if c = 0 then .ok (pad16 (a :: r)) else if c = 1 then .ok (pad16 (b :: r))
      else failWith (.notBinary c)
    | _ => undef
  | .cdropw => fun stk => match stk with
    | c :: b0 :: b1 :: b2 :: b3 :: a0 :: a1 :: a2 :: a3 :: r =>
      if c = 0 then .ok (pad16 (a0 :: a1 :: a2 :: a3 :: r))
      else if c = 1 then .ok (pad16 (b0 :: b1 :: b2 :: b3 :: r))
      else failWith (.notBinary c)
    | _ => undef
  | .push vs => fun s =>   .ok (vs.reverse ++ s)
  | .sdepth => fun s =>   .ok (s.length :: s)


end Spec
end Miden
