/-
  Reference definitions of SHA-256 (FIPS 180-4), BLAKE3 (single-chunk inputs of at most 64 bytes)
  and Keccak-256 (Keccak[512] with the original 0x01 padding), transcribed from the standards —
  independent of the `.masm` code.  Words are `Nat`s kept below 2^32 / 2^64 by explicit reduction.
  Core Lean only (executable in the driver).  The harness compares these with the reference crates
  (`sha2`, `blake3`, `sha3`) and with the real VM running the standard-library procedures.
-/
namespace Miden.Spec.H

def m32 : Nat := 4294967296
def m64 : Nat := 18446744073709551616

/-- 32-bit rotate right of a value `< 2^32` (as integer arithmetic). -/
def rotr32 (x n : Nat) : Nat := x / 2 ^ n + (x % 2 ^ n) * 2 ^ (32 - n)
def rotl32 (x n : Nat) : Nat := rotr32 x (32 - n)
def not32 (x : Nat) : Nat := 4294967295 - x
def xor3 (a b c : Nat) : Nat := Nat.xor (Nat.xor a b) c

def beWords (bs : List Nat) : List Nat :=
  match bs with
  | a :: b :: c :: d :: rest => (((a * 256 + b) * 256 + c) * 256 + d) :: beWords rest
  | _ => []
def leWords (bs : List Nat) : List Nat :=
  match bs with
  | a :: b :: c :: d :: rest => (((d * 256 + c) * 256 + b) * 256 + a) :: leWords rest
  | _ => []
def beBytes32 (w : Nat) : List Nat := [w / 16777216 % 256, w / 65536 % 256, w / 256 % 256, w % 256]
def leBytes32 (w : Nat) : List Nat := [w % 256, w / 256 % 256, w / 65536 % 256, w / 16777216 % 256]

/-! ### SHA-256 -/
namespace Sha256

def ssig0 (x : Nat) : Nat := xor3 (rotr32 x 7) (rotr32 x 18) (x / 2 ^ 3)
def ssig1 (x : Nat) : Nat := xor3 (rotr32 x 17) (rotr32 x 19) (x / 2 ^ 10)
def bsig0 (x : Nat) : Nat := xor3 (rotr32 x 2) (rotr32 x 13) (rotr32 x 22)
def bsig1 (x : Nat) : Nat := xor3 (rotr32 x 6) (rotr32 x 11) (rotr32 x 25)
def ch (x y z : Nat) : Nat := Nat.xor (Nat.land x y) (Nat.land (not32 x) z)
def maj (x y z : Nat) : Nat := xor3 (Nat.land x y) (Nat.land x z) (Nat.land y z)

def K : List Nat :=
  [0x428a2f98, 0x71374491, 0xb5c0fbcf, 0xe9b5dba5, 0x3956c25b, 0x59f111f1, 0x923f82a4, 0xab1c5ed5,
   0xd807aa98, 0x12835b01, 0x243185be, 0x550c7dc3, 0x72be5d74, 0x80deb1fe, 0x9bdc06a7, 0xc19bf174,
   0xe49b69c1, 0xefbe4786, 0x0fc19dc6, 0x240ca1cc, 0x2de92c6f, 0x4a7484aa, 0x5cb0a9dc, 0x76f988da,
   0x983e5152, 0xa831c66d, 0xb00327c8, 0xbf597fc7, 0xc6e00bf3, 0xd5a79147, 0x06ca6351, 0x14292967,
   0x27b70a85, 0x2e1b2138, 0x4d2c6dfc, 0x53380d13, 0x650a7354, 0x766a0abb, 0x81c2c92e, 0x92722c85,
   0xa2bfe8a1, 0xa81a664b, 0xc24b8b70, 0xc76c51a3, 0xd192e819, 0xd6990624, 0xf40e3585, 0x106aa070,
   0x19a4c116, 0x1e376c08, 0x2748774c, 0x34b0bcb5, 0x391c0cb3, 0x4ed8aa4a, 0x5b9cca4f, 0x682e6ff3,
   0x748f82ee, 0x78a5636f, 0x84c87814, 0x8cc70208, 0x90befffa, 0xa4506ceb, 0xbef9a3f7, 0xc67178f2]

def H0 : List Nat :=
  [0x6a09e667, 0xbb67ae85, 0x3c6ef372, 0xa54ff53a, 0x510e527f, 0x9b05688c, 0x1f83d9ab, 0x5be0cd19]

/-- Message schedule: extends the 16 block words to 64 (`w` is kept newest-first). -/
def schedule (block : List Nat) : List Nat :=
  let step (w : List Nat) : List Nat :=
    ((ssig1 (w.getD 1 0) + w.getD 6 0 + ssig0 (w.getD 14 0) + w.getD 15 0) % m32) :: w
  (Nat.repeat step 48 block.reverse).reverse

def round (st : List Nat) (kw : Nat × Nat) : List Nat :=
  match st with
  | [a, b, c, d, e, f, g, h] =>
    let t1 := h + bsig1 e + ch e f g + kw.1 + kw.2
    let t2 := bsig0 a + maj a b c
    [(t1 + t2) % m32, a, b, c, (d + t1) % m32, e, f, g]
  | _ => st

def compress (h : List Nat) (block : List Nat) : List Nat :=
  let st := (K.zip (schedule block)).foldl round h
  (h.zip st).map (fun p => (p.1 + p.2) % m32)

def pad (msg : List Nat) : List Nat :=
  let l := msg.length
  let zeros := (55 + 64 - l % 64) % 64
  let bits := l * 8
  msg ++ [0x80] ++ List.replicate zeros 0 ++
    (List.range 8).map (fun i => bits / 256 ^ (7 - i) % 256)

def chunks (n : Nat) : Nat → List Nat → List (List Nat)
  | 0, _ => []
  | fuel + 1, l => if l.isEmpty then [] else l.take n :: chunks n fuel (l.drop n)

/-- SHA-256 of a byte string, as eight 32-bit words. -/
def hashWords (msg : List Nat) : List Nat :=
  let p := pad msg
  (chunks 64 (p.length / 64 + 1) p).foldl (fun h blk => compress h (beWords blk)) H0

end Sha256

/-! ### BLAKE3 (one chunk, one block: inputs of at most 64 bytes) -/
namespace Blake3

def IV : List Nat :=
  [0x6A09E667, 0xBB67AE85, 0x3C6EF372, 0xA54FF53A, 0x510E527F, 0x9B05688C, 0x1F83D9AB, 0x5BE0CD19]

def msgPerm : List Nat := [2, 6, 3, 10, 7, 0, 4, 13, 1, 11, 12, 5, 9, 14, 15, 8]

def g (v : List Nat) (a b c d mx my : Nat) : List Nat :=
  let va := (v.getD a 0 + v.getD b 0 + mx) % m32
  let vd := rotr32 (Nat.xor (v.getD d 0) va) 16
  let vc := (v.getD c 0 + vd) % m32
  let vb := rotr32 (Nat.xor (v.getD b 0) vc) 12
  let va := (va + vb + my) % m32
  let vd := rotr32 (Nat.xor vd va) 8
  let vc := (vc + vd) % m32
  let vb := rotr32 (Nat.xor vb vc) 7
  (((v.set a va).set b vb).set c vc).set d vd

def roundFn (v m : List Nat) : List Nat :=
  let w (i : Nat) := m.getD i 0
  let v := g v 0 4 8 12 (w 0) (w 1)
  let v := g v 1 5 9 13 (w 2) (w 3)
  let v := g v 2 6 10 14 (w 4) (w 5)
  let v := g v 3 7 11 15 (w 6) (w 7)
  let v := g v 0 5 10 15 (w 8) (w 9)
  let v := g v 1 6 11 12 (w 10) (w 11)
  let v := g v 2 7 8 13 (w 12) (w 13)
  g v 3 4 9 14 (w 14) (w 15)

def permute (m : List Nat) : List Nat := msgPerm.map (fun i => m.getD i 0)

def compress (cv block : List Nat) (counter blockLen flags : Nat) : List Nat :=
  let v0 := cv ++ IV.take 4 ++ [counter % m32, counter / m32, blockLen, flags]
  let rec go : Nat → List Nat → List Nat → List Nat
    | 0, v, _ => v
    | n + 1, v, m => go n (roundFn v m) (permute m)
  let v := go 7 v0 block
  (List.range 8).map (fun i => Nat.xor (v.getD i 0) (v.getD (i + 8) 0))

/-- BLAKE3 hash (first 8 output words) of an input of `len ≤ 64` bytes given as 16 LE words
    (zero padded): flags = CHUNK_START | CHUNK_END | ROOT = 1 + 2 + 8. -/
def hashWords (words : List Nat) (len : Nat) : List Nat :=
  compress IV (words ++ List.replicate (16 - words.length) 0) 0 len 11

end Blake3

/-! ### Keccak-256 -/
namespace Keccak

def rotl64 (x n : Nat) : Nat := if n % 64 = 0 then x else (x * 2 ^ (n % 64)) % m64 + x / 2 ^ (64 - n % 64)
def not64 (x : Nat) : Nat := 18446744073709551615 - x

def RC : List Nat :=
  [0x0000000000000001, 0x0000000000008082, 0x800000000000808A, 0x8000000080008000,
   0x000000000000808B, 0x0000000080000001, 0x8000000080008081, 0x8000000000008009,
   0x000000000000008A, 0x0000000000000088, 0x0000000080008009, 0x000000008000000A,
   0x000000008000808B, 0x800000000000008B, 0x8000000000008089, 0x8000000000008003,
   0x8000000000008002, 0x8000000000000080, 0x000000000000800A, 0x800000008000000A,
   0x8000000080008081, 0x8000000000008080, 0x0000000080000001, 0x8000000080008008]

/-- rotation offsets, lane index `x + 5*y` -/
def ROT : List Nat :=
  [0, 1, 62, 28, 27, 36, 44, 6, 55, 20, 3, 10, 43, 25, 39, 41, 45, 15, 21, 8, 18, 2, 61, 56, 14]

def roundFn (a : List Nat) (rc : Nat) : List Nat :=
  let A (i : Nat) := a.getD i 0
  -- θ
  let c := (List.range 5).map (fun x => Nat.xor (Nat.xor (Nat.xor (Nat.xor (A x) (A (x + 5))) (A (x + 10))) (A (x + 15))) (A (x + 20)))
  let d := (List.range 5).map (fun x => Nat.xor (c.getD ((x + 4) % 5) 0) (rotl64 (c.getD ((x + 1) % 5) 0) 1))
  let a1 := (List.range 25).map (fun i => Nat.xor (A i) (d.getD (i % 5) 0))
  -- ρ and π:  B[y, 2x+3y] = rot(A[x,y])
  let b := (List.range 25).map (fun j =>
    -- j = X + 5*Y with X = y, Y = (2x+3y)%5  ⇒  y = X, x = (Y - 3X)/2 mod 5 = 3*(Y + 2X) mod 5
    let X := j % 5; let Y := j / 5
    let y := X; let x := (3 * (Y + 2 * X)) % 5
    rotl64 (a1.getD (x + 5 * y) 0) (ROT.getD (x + 5 * y) 0))
  -- χ
  let a2 := (List.range 25).map (fun i =>
    let x := i % 5; let y := i / 5
    Nat.xor (b.getD i 0) (Nat.land (not64 (b.getD ((x + 1) % 5 + 5 * y) 0)) (b.getD ((x + 2) % 5 + 5 * y) 0)))
  -- ι
  a2.set 0 (Nat.xor (a2.getD 0 0) rc)

def f1600 (a : List Nat) : List Nat := RC.foldl roundFn a

def leWord64 (bs : List Nat) : Nat := (bs.take 8).reverse.foldl (fun acc b => acc * 256 + b) 0

/-- Keccak-256 of a message shorter than the 136-byte rate, as four 64-bit lanes. -/
def hashLanes (msg : List Nat) : List Nat :=
  let padded := msg ++ [0x01] ++ List.replicate (136 - msg.length - 1) 0
  let padded := padded.set 135 (Nat.lor (padded.getD 135 0) 0x80)
  let lanes := (List.range 17).map (fun i => leWord64 (padded.drop (8 * i)))
  (f1600 (lanes ++ List.replicate 8 0)).take 4

end Keccak
end Miden.Spec.H
