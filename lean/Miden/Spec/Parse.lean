/-
  Parser from instruction text (decimal immediates only) to `Spec.Instr`, for the driver.
-/
import Miden.Spec.Instr
namespace Miden
namespace Spec

def parseErrCode (p : String) : Option Nat :=
  if p.startsWith "err=" then (p.drop 4).toString.toNat? else none

def Instr.parse (t : String) : Option Instr :=
  match t.splitOn "." with
  | ["assert"] => some (.assert 0) | ["assertz"] => some (.assertz 0)
  | ["assert_eq"] => some (.assertEq 0) | ["assert_eqw"] => some (.assertEqw 0)
  | ["assert", p] => (parseErrCode p).map .assert
  | ["assertz", p] => (parseErrCode p).map .assertz
  | ["assert_eq", p] => (parseErrCode p).map .assertEq
  | ["assert_eqw", p] => (parseErrCode p).map .assertEqw
  | ["add"] => some .add | ["add", b] => b.toNat?.map .addImm
  | ["sub"] => some .sub | ["sub", b] => b.toNat?.map .subImm
  | ["mul"] => some .mul | ["mul", b] => b.toNat?.map .mulImm
  | ["div"] => some .div | ["div", b] => b.toNat?.map .divImm
  | ["neg"] => some .neg | ["inv"] => some .inv | ["pow2"] => some .pow2
  | ["exp"] => some .exp
  | ["exp", b] =>
    if b.startsWith "u" then (b.drop 1).toString.toNat?.map .expBits else b.toNat?.map .expImm
  | ["ilog2"] => some .ilog2 | ["not"] => some .not | ["and"] => some .and | ["or"] => some .or
  | ["xor"] => some .xor
  | ["eq"] => some .eq | ["eq", b] => b.toNat?.map .eqImm
  | ["neq"] => some .neq | ["neq", b] => b.toNat?.map .neqImm
  | ["lt"] => some .lt | ["lte"] => some .lte | ["gt"] => some .gt | ["gte"] => some .gte
  | ["is_odd"] => some .isOdd | ["eqw"] => some .eqw
  | ["ext2add"] => some .ext2add | ["ext2sub"] => some .ext2sub | ["ext2mul"] => some .ext2mul
  | ["ext2div"] => some .ext2div | ["ext2neg"] => some .ext2neg | ["ext2inv"] => some .ext2inv
  | ["u32test"] => some .u32test | ["u32testw"] => some .u32testw
  | ["u32assert"] => some (.u32assert 0) | ["u32assert2"] => some (.u32assert2 0)
  | ["u32assertw"] => some (.u32assertw 0)
  | ["u32assert", p] => (parseErrCode p).map .u32assert
  | ["u32assert2", p] => (parseErrCode p).map .u32assert2
  | ["u32assertw", p] => (parseErrCode p).map .u32assertw
  | ["u32cast"] => some .u32cast | ["u32split"] => some .u32split
  | ["u32wrapping_add"] => some .u32wrappingAdd
  | ["u32wrapping_add", b] => b.toNat?.map .u32wrappingAddImm
  | ["u32overflowing_add"] => some .u32overflowingAdd
  | ["u32overflowing_add", b] => b.toNat?.map .u32overflowingAddImm
  | ["u32overflowing_add3"] => some .u32overflowingAdd3
  | ["u32wrapping_add3"] => some .u32wrappingAdd3
  | ["u32wrapping_sub"] => some .u32wrappingSub
  | ["u32wrapping_sub", b] => b.toNat?.map .u32wrappingSubImm
  | ["u32overflowing_sub"] => some .u32overflowingSub
  | ["u32overflowing_sub", b] => b.toNat?.map .u32overflowingSubImm
  | ["u32wrapping_mul"] => some .u32wrappingMul
  | ["u32wrapping_mul", b] => b.toNat?.map .u32wrappingMulImm
  | ["u32overflowing_mul"] => some .u32overflowingMul
  | ["u32overflowing_mul", b] => b.toNat?.map .u32overflowingMulImm
  | ["u32overflowing_madd"] => some .u32overflowingMadd
  | ["u32wrapping_madd"] => some .u32wrappingMadd
  | ["u32div"] => some .u32div | ["u32div", b] => b.toNat?.map .u32divImm
  | ["u32mod"] => some .u32mod | ["u32mod", b] => b.toNat?.map .u32modImm
  | ["u32divmod"] => some .u32divmod | ["u32divmod", b] => b.toNat?.map .u32divmodImm
  | ["u32and"] => some .u32and | ["u32or"] => some .u32or | ["u32xor"] => some .u32xor
  | ["u32not"] => some .u32not
  | ["u32shl"] => some .u32shl | ["u32shl", b] => b.toNat?.map .u32shlImm
  | ["u32shr"] => some .u32shr | ["u32shr", b] => b.toNat?.map .u32shrImm
  | ["u32rotl"] => some .u32rotl | ["u32rotl", b] => b.toNat?.map .u32rotlImm
  | ["u32rotr"] => some .u32rotr | ["u32rotr", b] => b.toNat?.map .u32rotrImm
  | ["u32popcnt"] => some .u32popcnt | ["u32clz"] => some .u32clz | ["u32ctz"] => some .u32ctz
  | ["u32clo"] => some .u32clo | ["u32cto"] => some .u32cto
  | ["u32lt"] => some .u32lt | ["u32lte"] => some .u32lte | ["u32gt"] => some .u32gt
  | ["u32gte"] => some .u32gte | ["u32min"] => some .u32min | ["u32max"] => some .u32max
  | ["drop"] => some .drop | ["dropw"] => some .dropw | ["padw"] => some .padw
  | ["dup"] => some (.dup 0) | ["dup", n] => n.toNat?.map .dup
  | ["dupw"] => some (.dupw 0) | ["dupw", n] => n.toNat?.map .dupw
  | ["swap"] => some (.swap 1) | ["swap", n] => n.toNat?.map .swap
  | ["swapw"] => some (.swapw 1) | ["swapw", n] => n.toNat?.map .swapw
  | ["swapdw"] => some .swapdw
  | ["movup", n] => n.toNat?.map .movup | ["movupw", n] => n.toNat?.map .movupw
  | ["movdn", n] => n.toNat?.map .movdn | ["movdnw", n] => n.toNat?.map .movdnw
  | ["cswap"] => some .cswap | ["cswapw"] => some .cswapw | ["cdrop"] => some .cdrop
  | ["cdropw"] => some .cdropw
  | ["sdepth"] => some .sdepth
  | "push" :: vs => if vs.isEmpty then none else (vs.mapM String.toNat?).map .push
  | _ => none

/-- Sequential composition of instruction semantics (first failure wins). -/
def semSeqRun : List Instr → List Nat → R
  | [], s => .ok s
  | i :: rest, s => match sem i s with
    | .ok s' => semSeqRun rest s'
    | .error e => .error e

/-- A program containing an invalid instruction form is rejected before anything runs. -/
def semSeq (is : List Instr) (s : List Nat) : R :=
  if is.any Instr.invalid then failAny else semSeqRun is s

end Spec
end Miden
