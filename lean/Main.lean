import Miden.Model.Driver
def main : IO Unit := Miden.driverMain
