import Miden.Model.Felt
import Miden.Model.Op
import Miden.Model.Batch
import Miden.Model.Rpo
import Miden.Model.Vm
import Miden.Model.Exec
import Miden.Model.Mast
import Miden.Model.Driver
