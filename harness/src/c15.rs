//! C15 — the cycle limit is enforced exactly; option sets below the minimum are refused.
use crate::execgen::*;
use crate::progs::*;
use crate::util::*;
use crate::Emitter;
use processor::ExecutionOptions;

fn options_case(em: &mut Emitter, max: Option<u32>, expected: u32) {
    let req = format!(
        "options {} {}",
        max.map(|m| m.to_string()).unwrap_or_else(|| "none".into()),
        expected
    );
    let ans = match ExecutionOptions::new(max, expected, false) {
        Ok(o) => format!("ok max={} expected={}", o.max_cycles(), o.expected_cycles()),
        Err(_) => "refused".to_string(),
    };
    // oracle (the property itself): refused iff max < 64 or max < expected
    let m = max.unwrap_or(u32::MAX);
    let should_refuse = m < 64 || m < expected;
    if should_refuse != (ans == "refused") {
        em.oracle_failures.push(format!(
            "C15 options: ExecutionOptions::new({:?}, {}) -> {} but the property demands {}",
            max, expected, ans, if should_refuse { "refusal" } else { "acceptance" }
        ));
    }
    em.emit(req, ans);
}

pub fn generate(em: &mut Emitter, seed: u64, thorough: bool) {
    let mut rng = Rng::new(seed ^ 0xC15);
    // (1) option validation around the boundaries
    for max in [None, Some(0u32), Some(1), Some(63), Some(64), Some(65), Some(127), Some(128), Some(1000), Some(u32::MAX)] {
        for exp in [0u32, 1, 63, 64, 65, 127, 128, 129, 999, 1000, 1001, 1 << 20, u32::MAX] {
            options_case(em, max, exp);
        }
    }
    for _ in 0..(if thorough { 2000 } else { 200 }) {
        let max = if rng.chance(1, 8) { None } else { Some(rng.below(300) as u32) };
        let exp = rng.below(300) as u32;
        options_case(em, max, exp);
    }
    // (2) programs with a known cycle count n, limits n-2 .. n+2 (and 64)
    let nprog = if thorough { 1500 } else { 120 };
    let (mut exact, mut unbounded) = (0u64, 0u64);
    for i in 0..nprog {
        let (k, src) = if i % 7 == 0 {
            // unbounded loop: must always stop with the cycle-limit error
            (None, format!("begin push.1 while.true {} push.1 end end", straight_total(&mut rng, 1 + (i % 5))))
        } else {
            let with_kernel = rng.chance(1, 4);
            let d = rng.below(3) as u32;
            let l = 1 + rng.below(4) as usize;
            gen_program(&mut rng, with_kernel, d, l)
        };
        let p = match assemble(k.as_deref(), &src, false) {
            Ok(p) => p,
            Err(_) => continue,
        };
        let st = random_stack(&mut rng);
        let adv = random_advice(&mut rng);
        if i % 7 == 0 {
            unbounded += 1;
            for m in [64u32, 65, 100, 1000, 4096 + (i as u32 % 17)] {
                let r = exec_case(em, &p, &st, &adv, Some(m), "");
                if r.answer != format!("err CycleLimit({})", m) {
                    em.oracle_failures.push(format!(
                        "C15 unbounded loop did not stop with the cycle-limit error at limit {}: `{}` -> {}",
                        m, src, r.answer
                    ));
                }
            }
            continue;
        }
        let base = run_impl(&p, &st, host_with_advice(&adv), Lies::default(), None, "");
        if !base.ok {
            continue;
        }
        let n: u32 = base.answer.split("clk=").nth(1).unwrap().split(' ').next().unwrap().parse().unwrap();
        exact += 1;
        for m in [n.saturating_sub(2), n.saturating_sub(1), n, n + 1, n + 2, 64] {
            if m < 64 {
                continue;
            }
            let r = exec_case(em, &p, &st, &adv, Some(m), "");
            let expect_ok = n <= m;
            let good = if expect_ok {
                r.answer == base.answer
            } else {
                r.answer == format!("err CycleLimit({})", m)
            };
            if !good {
                em.oracle_failures.push(format!(
                    "C15 limit not exact: program needs {} cycles, limit {}: got `{}` :: `{}`",
                    n, m, &r.answer[..r.answer.len().min(80)], src
                ));
            }
        }
    }
    em.stat("programs_with_exact_count", exact);
    em.stat("unbounded_programs", unbounded);
}

fn straight_total(rng: &mut Rng, n: usize) -> String {
    let mut g = ProgGen::new(rng);
    g.straight(n).0
}
