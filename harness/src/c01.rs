//! C01 — every successful execution is provable and its proof verifies (all four option sets,
//! after a byte round trip); C02 — altered statements / proofs are rejected without panicking.
use crate::execgen::*;
use crate::progs::*;
use crate::util::*;
use crate::Emitter;
use air::{ExecutionProof, HashFunction, ProvingOptions};
use processor::{ProgramInfo, StackInputs};
use std::panic::{catch_unwind, AssertUnwindSafe};
use vm_core::{Program, StackOutputs};
use winter_utils::{Deserializable, Serializable};

pub fn option_sets() -> Vec<(&'static str, ProvingOptions, u32)> {
    vec![
        ("96-blake3", ProvingOptions::with_96_bit_security(false), 96),
        ("128-blake3", ProvingOptions::with_128_bit_security(false), 128),
        ("96-rpo", ProvingOptions::with_96_bit_security(true), 96),
        ("128-rpo", ProvingOptions::with_128_bit_security(true), 128),
    ]
}

pub struct Proven {
    pub program: Program,
    pub inputs: StackInputs,
    pub outputs: StackOutputs,
    pub proof: ExecutionProof,
    pub src: String,
}

pub fn prove_one(program: &Program, st: &[u64], adv: &[u64], opts: ProvingOptions) -> Result<(StackInputs, StackOutputs, ExecutionProof), String> {
    let mut rev = st.to_vec();
    rev.reverse();
    let inputs = StackInputs::try_from_values(rev).map_err(|e| format!("{:?}", e))?;
    let host = host_with_advice(adv);
    let r = catch_unwind(AssertUnwindSafe(|| prover::prove(program, inputs.clone(), host, opts)));
    match r {
        Err(_) => Err("PANIC in prove".into()),
        Ok(Err(e)) => Err(format!("prove error: {}", canon_err(&e))),
        Ok(Ok((outputs, proof))) => Ok((inputs, outputs, proof)),
    }
}

pub fn verify_one(program: &Program, inputs: &StackInputs, outputs: &StackOutputs, proof: ExecutionProof) -> Result<u32, String> {
    let info = ProgramInfo::from(program.clone());
    let (i, o) = (inputs.clone(), outputs.clone());
    match catch_unwind(AssertUnwindSafe(|| verifier::verify(info, i, o, proof))) {
        Err(_) => Err("PANIC in verify".into()),
        Ok(Err(e)) => Err(format!("rejected: {:?}", e).chars().take(120).collect()),
        Ok(Ok(level)) => Ok(level),
    }
}

/// Programs covering the padding regimes and output depths named by the property.
pub fn program_pool(rng: &mut Rng, n: usize) -> Vec<(String, Option<String>, Vec<u64>, Vec<u64>)> {
    let mut v: Vec<(String, Option<String>, Vec<u64>, Vec<u64>)> = Vec::new();
    // deep outputs (17..40), explicit
    for d in [17usize, 20, 33, 40] {
        v.push((format!("begin {} end", (0..d).map(|i| format!("push.{}", i + 1)).collect::<Vec<_>>().join(" ")), None, vec![], vec![]));
    }
    // deep inputs and outputs
    v.push(("begin swap add push.9 end".into(), None, (1..=25).collect(), vec![]));
    // range-checker dominated
    v.push((format!("begin {} end", (0..60).map(|i| format!("push.{} u32split drop drop", (i as u64 * 7919 + 13) % 65536 + ((i as u64 * 104729) % 65536) * 65536)).collect::<Vec<_>>().join(" ")), None, vec![], vec![]));
    // chiplet dominated
    v.push((format!("begin {} end", vec!["hperm"; 40].join(" ")), None, vec![1, 2, 3], vec![]));
    // kernel + syscall + call + dyn
    v.push((
        "proc.f push.3 add end proc.g syscall.k1 end begin call.f call.g procref.f dynexec dropw procref.f dyncall dropw end".into(),
        Some("export.k1 caller dropw padw dropw push.1 drop end\nexport.k2 push.2 drop end\n".into()),
        vec![5, 6, 7],
        vec![],
    ));
    // stdlib call
    v.push(("use.std::math::u64\nbegin exec.u64::wrapping_mul exec.u64::div end".replace("exec.u64::div", "push.0.7 exec.u64::div"), None, vec![1, 2, 3, 4, 5, 6], vec![]));
    // power-of-two boundary shapes of every trace component (memory-last / kernel-last chiplets,
    // range table, cycles): the shapes where the trace-length rule puts constrained rows next to
    // the random row
    for (_, k, src, st) in crate::c03::boundary_programs(if n > 20 { 6 } else { 2 }) {
        v.push((src, k, st, vec![]));
    }
    // range-checker gaps of special sizes (powers of three, multiples of the largest stride)
    for (_, k, src, st) in crate::c03::range_gap_programs(rng.next(), if n > 20 { 40 } else { 6 }) {
        v.push((src, k, st, vec![]));
    }
    for i in 0..n {
        let d = rng.below(3) as u32;
        let l = 1 + rng.below(4) as usize;
        let (k, src) = gen_program_nb(rng, i % 3 == 0, d, l, 0);
        v.push((src, k, random_stack(rng), random_advice(rng)));
    }
    v
}

fn one_program(em: &mut Emitter, src: &String, k: &Option<String>, st: &Vec<u64>, adv: &Vec<u64>, counters: &mut [u64; 3], lens: &mut Vec<usize>) {
        let p = match assemble(k.as_deref(), src, false) {
            Ok(p) => p,
            Err(_) => return,
        };
        // execution must succeed for the property to apply
        let base = run_impl(&p, st, host_with_advice(adv), Lies::default(), None, "");
        if !base.ok {
            counters[1] += 1;
            return;
        }
        // executions that run u32 arithmetic on non-u32 operands are the known C03 finding
        if let Ok((trace, inputs)) = crate::airmon::execute_trace(&p, st, adv) {
            let ctx = crate::airmon::AirCtx::new(&trace, inputs);
            lens.push(ctx.len);
            if !ctx.honest_violations().is_empty() {
                counters[2] += 1;
                return;
            }
        }
        for (name, opts, level) in option_sets() {
            match prove_one(&p, st, adv, opts) {
                Err(e) => em.oracle_failures.push(format!("C01 {} with {}: `{}` stack={:?}", e, name, &src[..src.len().min(200)], &st[..st.len().min(8)])),
                Ok((inputs, outputs, proof)) => {
                    counters[0] += 1;
                    // the outputs reported by proving are those of the execution
                    let want: Vec<u64> = base.answer.split("stack=").nth(1).unwrap().split(' ').next().unwrap().split(',').filter_map(|x| x.parse().ok()).collect();
                    if outputs.stack() != &want[..] {
                        em.oracle_failures.push(format!("C01 prove reported other outputs than execute ({}): `{}`", name, src));
                    }
                    let bytes = proof.to_bytes();
                    let back = match ExecutionProof::from_bytes(&bytes) {
                        Ok(b) => b,
                        Err(e) => {
                            em.oracle_failures.push(format!("C01 proof does not deserialise ({}): {:?} `{}`", name, e, src));
                            continue;
                        }
                    };
                    if back != proof {
                        em.oracle_failures.push(format!("C01 proof changed by the byte round trip ({}): `{}`", name, src));
                    }
                    // Serializable/Deserializable (tag last) round trip as well
                    let mut b2 = Vec::new();
                    proof.write_into(&mut b2);
                    match ExecutionProof::read_from_bytes(&b2) {
                        Ok(x) if x == proof => {}
                        _ => em.oracle_failures.push(format!("C01 Serializable round trip of the proof failed ({}): `{}`", name, src)),
                    }
                    for (what, pr) in [("direct", proof.clone()), ("after-bytes", back)] {
                        match verify_one(&p, &inputs, &outputs, pr) {
                            Ok(l) => {
                                if l < level {
                                    em.oracle_failures.push(format!("C01 reported security level {} < {} ({} {}): `{}`", l, level, name, what, src));
                                }
                            }
                            Err(e) => em.oracle_failures.push(format!(
                                "C01 verifier did not accept an honest proof ({} {}): {} :: `{}` stack={:?}",
                                name, what, e, &src[..src.len().min(300)], &st[..st.len().min(8)]
                            )),
                        }
                    }
                }
            }
        }
        // model correspondence of the same run (outputs incl. everything below 16)
        exec_case(em, &p, st, adv, None, "");
    }

pub fn generate(em: &mut Emitter, seed: u64, thorough: bool) {
    let mut rng = Rng::new(seed ^ 0xC01);
    let pool = program_pool(&mut rng, if thorough { 60 } else { 6 });
    let (mut proved, mut skipped_exec_fail, mut undefined_u32) = (0u64, 0u64, 0u64);
    let mut lens: Vec<usize> = Vec::new();
    // proving is CPU bound: one thread per program, 14 at a time
    for chunk in pool.chunks(14) {
        let results: Vec<(Emitter, [u64; 3], Vec<usize>)> = std::thread::scope(|sc| {
            let handles: Vec<_> = chunk
                .iter()
                .map(|(src, k, st, adv)| {
                    sc.spawn(move || {
                        let mut e = Emitter::new();
                        let mut c = [0u64; 3];
                        let mut l = Vec::new();
                        one_program(&mut e, src, k, st, adv, &mut c, &mut l);
                        (e, c, l)
                    })
                })
                .collect();
            handles.into_iter().map(|h| h.join().expect("worker thread")).collect()
        });
        for (e, c, l) in results {
            em.req.extend(e.req);
            em.ans.extend(e.ans);
            em.oracle_failures.extend(e.oracle_failures);
            proved += c[0];
            skipped_exec_fail += c[1];
            undefined_u32 += c[2];
            lens.extend(l);
        }
    }
    // option-set logic as requests for the Lean model
    for (name, opts, _) in option_sets() {
        let wo: winter_air::ProofOptions = opts.clone().into();
        em.emit(
            format!("provingopts {}", name),
            format!(
                "opts hash={} q={} blowup={} grind={} ext={} fold={} rem={}",
                opts.hash_fn() as u8,
                wo.num_queries(),
                wo.blowup_factor(),
                wo.grinding_factor(),
                wo.field_extension() as u8,
                wo.to_fri_options().folding_factor(),
                wo.to_fri_options().remainder_max_degree()
            ),
        );
    }
    em.stat("proofs_generated_and_verified", proved);
    em.stat("programs_skipped_execution_failed", skipped_exec_fail);
    em.stat("programs_skipped_undefined_u32", undefined_u32);
    em.stat("trace_lengths", format!("{:?}", lens));
}
