//! C09 — prover-supplied hints cannot change results (lying host).
use crate::execgen::*;
use crate::util::*;
use crate::Emitter;
use processor::{
    crypto::{MerkleStore, MerkleTree},
    AdviceInputs, DefaultHost, MemAdviceProvider,
};
use vm_core::{Felt, StarkField, Word};

fn parse_stack(ans: &str) -> Vec<u64> {
    ans.split("stack=")
        .nth(1)
        .map(|s| s.split(' ').next().unwrap().split(',').filter_map(|x| x.parse().ok()).collect())
        .unwrap_or_default()
}

/// Runs `src` with a host that lies as described, emits the exec request for the model (which
/// sees exactly the answers the VM saw) and, if the run completed, the `instr` request whose
/// reference answer ignores hints altogether.
fn hint_case(em: &mut Emitter, instr: &str, stack: &[u64], lies: Lies, stats: &mut [u64; 3]) {
    let src = format!("begin {} end", instr);
    let p = match assemble(None, &src, false) {
        Ok(p) => p,
        Err(_) => return,
    };
    let run = run_impl(&p, stack, DefaultHost::default(), lies, None, "");
    let req = render_exec_request(&ExecReq { program: &p, stack: stack.to_vec(), max_cycles: None, out: "" }, &run.tape);
    if run.answer.starts_with("err Other") {
        em.emit(req, format!("skip {}", run.answer));
    } else {
        em.emit(req, run.answer.clone());
    }
    if run.ok {
        stats[0] += 1;
        let st = if stack.is_empty() { "-".to_string() } else { join_u64(stack.iter().copied()) };
        em.emit(format!("instr {} {}", st, instr), format!("ok stack={}", run.answer.split("stack=").nth(1).unwrap()));
    } else if run.panicked {
        stats[2] += 1;
    } else {
        stats[1] += 1;
    }
}

fn lie_values(rng: &mut Rng, honest_guess: u64) -> Vec<u64> {
    let mut v: Vec<u64> = (0..=65).collect();
    v.extend([honest_guess.wrapping_add(1) % P, honest_guess.wrapping_sub(1) % P, P - 1, P - 2, 1 << 32, (1 << 32) - 1, 1 << 63]);
    for _ in 0..6 {
        v.push(rng.next() % P);
    }
    v
}

pub fn generate(em: &mut Emitter, seed: u64, thorough: bool) {
    let mut rng = Rng::new(seed ^ 0xC09);
    let mut stats = [0u64; 3];
    // ---- (A) hint + in-VM check instructions ---------------------------------------------------
    let ops32: Vec<u64> = {
        let mut v = vec![0u64, 1, 2, 3, 0x8000_0000, 0xFFFF_FFFF, 0xFFFF_FFFE, 0x7FFF_FFFF, 0x0001_0000, 0x00FF_FF00];
        for s in (0..32).step_by(if thorough { 1 } else { 5 }) {
            v.push(1 << s);
            v.push((1u64 << s) - 1);
            v.push(0xFFFF_FFFF ^ ((1u64 << s) - 1));
        }
        for _ in 0..(if thorough { 40 } else { 6 }) {
            v.push(rng.below(1 << 32));
        }
        v
    };
    for instr in ["u32clz", "u32ctz", "u32clo", "u32cto", "ilog2"] {
        for &a in &ops32 {
            if instr == "ilog2" && a == 0 {
                continue;
            }
            // honest host first
            hint_case(em, instr, &[a, 7, 8], Lies::default(), &mut stats);
            let lies = lie_values(&mut rng, 16);
            let step = if thorough { 1 } else { 3 };
            for (j, l) in lies.iter().enumerate() {
                if j % step != (a as usize) % step {
                    continue;
                }
                hint_case(em, instr, &[a, 7, 8], Lies { adv_override: vec![(0, *l)], path_override: vec![] }, &mut stats);
            }
        }
    }
    // ilog2 on full field elements
    for _ in 0..(if thorough { 300 } else { 40 }) {
        let a = 1 + rng.next() % (P - 1);
        hint_case(em, "ilog2", &[a, 7, 8], Lies::default(), &mut stats);
        let l = rng.below(66);
        hint_case(em, "ilog2", &[a, 7, 8], Lies { adv_override: vec![(0, l)], path_override: vec![] }, &mut stats);
    }
    // ext2inv / ext2div: two hint elements
    for _ in 0..(if thorough { 1500 } else { 150 }) {
        let st: Vec<u64> = (0..6).map(|_| if rng.chance(1, 5) { rng.below(3) } else { rng.next() % P }).collect();
        for instr in ["ext2inv", "ext2div"] {
            hint_case(em, instr, &st, Lies::default(), &mut stats);
            let k = rng.below(2) as usize;
            let l = match rng.below(4) { 0 => 0, 1 => 1, 2 => P - 1, _ => rng.next() % P };
            hint_case(em, instr, &st, Lies { adv_override: vec![(k, l)], path_override: vec![] }, &mut stats);
            let l2 = rng.next() % P;
            hint_case(em, instr, &st, Lies { adv_override: vec![(0, l), (1, l2)], path_override: vec![] }, &mut stats);
        }
    }
    em.stat("hint_runs_completed", stats[0]);
    em.stat("hint_runs_rejected_by_vm", stats[1]);
    em.stat("hint_runs_panicked", stats[2]);

    // ---- (B) 64-bit division of the standard library ------------------------------------------------
    let mut divstats = [0u64; 3];
    let limbs: [u64; 7] = [0, 1, 2, 0xFFFF_FFFF, 0xFFFF_FFFE, 0x8000_0000, 0x1234_5678];
    let nd = if thorough { 4000 } else { 400 };
    // directed operand pairs: small dividends against divisors around 2^63 and 2^64 (the sum
    // q*b + r can then reach 2^64 with q*b < 2^64 and r < b), equal operands, divisor 1
    let mut directed: Vec<(u64, u64)> = Vec::new();
    for a in [0u64, 1, 2, 3, 0xFFFF_FFFF, 1 << 32, (1 << 32) + 5, 1 << 62, u64::MAX] {
        for b in [1u64, 2, (1 << 63) - 1, 1 << 63, (1 << 63) + 1, u64::MAX - 1, u64::MAX, 0xFFFF_FFFF_0000_0001, (1 << 62) + 1, 0x8000_0000_FFFF_FFFF] {
            directed.push((a, b));
        }
    }
    for case in 0..(nd + directed.len()) {
        let pick = |rng: &mut Rng| if rng.chance(2, 3) { limbs[rng.below(7) as usize] } else { rng.below(1 << 32) };
        let (mut ah, mut al, mut bh, mut bl) = (pick(&mut rng), pick(&mut rng), pick(&mut rng), pick(&mut rng));
        if case < directed.len() {
            let (a, b) = directed[case];
            ah = a >> 32;
            al = a & 0xFFFF_FFFF;
            bh = b >> 32;
            bl = b & 0xFFFF_FFFF;
        }
        let b = (bh << 32) | bl;
        // every fourth case: the divisor divides the dividend exactly (remainder 0 is the boundary of
        // the remainder-range check)
        if case >= directed.len() && rng.chance(1, 4) && b != 0 {
            let k = if rng.chance(1, 2) { rng.below(5) } else { rng.below(u64::MAX / b + 1) };
            let a0 = b.saturating_mul(k);
            ah = a0 >> 32;
            al = a0 & 0xFFFF_FFFF;
        }
        let a = (ah << 32) | al;
        for proc_ in ["div", "mod", "divmod"] {
            let src = format!("use.std::math::u64\nbegin exec.u64::{} end", proc_);
            let p = match assemble(None, &src, false) {
                Ok(p) => p,
                Err(e) => {
                    em.oracle_failures.push(format!("C09 stdlib source does not assemble: {}", e));
                    continue;
                }
            };
            let stack = [bh, bl, ah, al, 11, 12];
            // coordinated lies: (q', r') that still satisfy q' * b + r' = a (in the integers or modulo
            // 2^64) but not r' < b; the position of each limb on the tape is read off the honest run
            let mut honest_tape: Vec<u64> = Vec::new();
            let mut consistent: Vec<(u64, u64)> = Vec::new();
            if b != 0 {
                let (q, r) = (a / b, a % b);
                for k in 1..=2u64 {
                    if q >= k {
                        if let Some(r2) = b.checked_mul(k).and_then(|x| x.checked_add(r)) {
                            consistent.push((q - k, r2));
                        }
                    }
                }
                consistent.push((0, a));
                // consistent modulo 2^64 with a remainder in range: q' * b + r' = a + 2^64, r' < b
                // (q' * b itself stays below 2^64 when r' > a)
                for k in 1..=2u128 {
                    let t = a as u128 + (k << 64);
                    let (q2, r2) = (t / b as u128, t % b as u128);
                    if q2 < (1u128 << 64) {
                        consistent.push((q2 as u64, r2 as u64));
                        if q2 > 0 && r2 + (b as u128) < (1u128 << 64) {
                            consistent.push((q2 as u64 - 1, (r2 + b as u128) as u64));
                        }
                    }
                }
                consistent.push((q.wrapping_add(1), r.wrapping_sub(b)));
                consistent.push((q, r.wrapping_add(b)));
                consistent.push((q.wrapping_sub(1), r));
            }
            for variant in 0..(4 + consistent.len()) {
                let lies = match variant {
                    0 => Lies::default(),
                    1 => Lies { adv_override: vec![(rng.below(4) as usize, pick(&mut rng))], path_override: vec![] },
                    2 => Lies { adv_override: vec![(rng.below(4) as usize, rng.next() % P)], path_override: vec![] },
                    3 => Lies { adv_override: (0..4).map(|k| (k, pick(&mut rng))).collect(), path_override: vec![] },
                    v => {
                        if honest_tape.len() != 4 || b == 0 {
                            continue;
                        }
                        let (q, r) = (a / b, a % b);
                        let (q2, r2) = consistent[v - 4];
                        // which tape position carries which limb (ambiguous positions carry equal values)
                        let limb = |x: u64, hi: bool| if hi { x >> 32 } else { x & 0xFFFF_FFFF };
                        let roles: Vec<(u64, u64)> = vec![(limb(q, true), limb(q2, true)), (limb(q, false), limb(q2, false)), (limb(r, true), limb(r2, true)), (limb(r, false), limb(r2, false))];
                        let mut used = [false; 4];
                        let mut ov = Vec::new();
                        for (pos, hv) in honest_tape.iter().enumerate() {
                            // first the positional guess (q on the first two pops, r on the last two)
                            let order: [usize; 4] = if pos < 2 { [0, 1, 2, 3] } else { [2, 3, 0, 1] };
                            if let Some(&ri) = order.iter().find(|&&ri| !used[ri] && roles[ri].0 == *hv) {
                                used[ri] = true;
                                ov.push((pos, roles[ri].1));
                            }
                        }
                        Lies { adv_override: ov, path_override: vec![] }
                    }
                };
                let run = run_impl(&p, &stack, DefaultHost::default(), lies.clone(), None, "");
                let req = render_exec_request(&ExecReq { program: &p, stack: stack.to_vec(), max_cycles: None, out: "" }, &run.tape);
                em.emit(req, if run.answer.starts_with("err Other") { format!("skip {}", run.answer) } else { run.answer.clone() });
                if b == 0 {
                    if run.ok {
                        em.oracle_failures.push(format!("C09 u64::{} by zero completed: a={} lies={:?} -> {}", proc_, a, lies, run.answer));
                    }
                    continue;
                }
                if run.ok {
                    if variant == 0 {
                        honest_tape = run.tape.adv.clone();
                    }
                    divstats[0] += 1;
                    let st = parse_stack(&run.answer);
                    let (q, r) = (a / b, a % b);
                    let want: Vec<u64> = match proc_ {
                        "div" => vec![q >> 32, q & 0xFFFF_FFFF, 11, 12],
                        "mod" => vec![r >> 32, r & 0xFFFF_FFFF, 11, 12],
                        _ => vec![r >> 32, r & 0xFFFF_FFFF, q >> 32, q & 0xFFFF_FFFF, 11, 12],
                    };
                    if st[..want.len()] != want[..] {
                        em.oracle_failures.push(format!(
                            "C09 u64::{} returned a wrong result under hints {:?}: a={} b={} got {:?} want {:?}",
                            proc_, lies, a, b, &st[..want.len()], want
                        ));
                    }
                } else if variant == 0 {
                    em.oracle_failures.push(format!("C09 u64::{} failed with the honest host: a={} b={} -> {}", proc_, a, b, run.answer));
                } else {
                    divstats[1] += 1;
                }
            }
        }
    }
    em.stat("u64div_completed", divstats[0]);
    em.stat("u64div_rejected", divstats[1]);

    // ---- (C) Merkle reads / updates with lying paths and node values ----------------------------------
    merkle(em, &mut rng, if thorough { 400 } else { 60 });

    // ---- (D) order of values delivered by adv_push / adv_loadw / adv_pipe -------------------------------
    for n in 1..=16usize {
        let adv: Vec<u64> = (0..20).map(|i| 100 + i as u64).collect();
        let p = assemble(None, &format!("begin adv_push.{} end", n), false).unwrap();
        let r = exec_case(em, &p, &[], &adv, None, "");
        let want: Vec<u64> = (0..n).rev().map(|i| 100 + i as u64).collect();
        if parse_stack(&r.answer)[..n] != want[..] {
            em.oracle_failures.push(format!("C09 adv_push.{} delivered {:?}", n, &parse_stack(&r.answer)[..n]));
        }
    }
    {
        let adv: Vec<u64> = (0..20).map(|i| 100 + i as u64).collect();
        let p = assemble(None, "begin adv_loadw end", false).unwrap();
        let r = exec_case(em, &p, &[1, 2, 3, 4, 5], &adv, None, "");
        if parse_stack(&r.answer)[..5] != [103, 102, 101, 100, 5] {
            em.oracle_failures.push(format!("C09 adv_loadw delivered {:?}", &parse_stack(&r.answer)[..5]));
        }
        let p = assemble(None, "begin push.40 movdn.12 adv_pipe padw mem_loadw.40 padw mem_loadw.41 end", false).unwrap();
        let r = exec_case(em, &p, &[], &adv, None, "mem");
        let st = parse_stack(&r.answer);
        // memory: word 40 = [100..103], word 41 = [104..107]; stack after pipe: 107..100
        if st[..8] != [107, 106, 105, 104, 103, 102, 101, 100] || st[8..16] != [107, 106, 105, 104, 103, 102, 101, 100] {
            em.oracle_failures.push(format!("C09 adv_pipe delivered {:?}", &st[..16]));
        }
        // short advice stacks fail
        for (src, n) in [("begin adv_push.3 end", 2usize), ("begin adv_loadw end", 3), ("begin push.40 movdn.12 adv_pipe end", 7)] {
            let p = assemble(None, src, false).unwrap();
            let r = exec_case(em, &p, &[], &adv[..n], None, "");
            if r.ok {
                em.oracle_failures.push(format!("C09 `{}` completed with only {} advice elements", src, n));
            }
        }
    }
}

fn word(x: u64) -> Word {
    [Felt::new(x), Felt::new(x + 1), Felt::new(x * 3 + 7), Felt::new(x ^ 0x55)]
}

fn merkle(em: &mut Emitter, rng: &mut Rng, n: usize) {
    let (mut accepted, mut rejected, mut panicked) = (0u64, 0u64, 0u64);
    for case in 0..n {
        let depth = 1 + rng.below(3) as u32; // tree depth 1..3
        let nleaves = 1usize << depth;
        let leaves: Vec<Word> = (0..nleaves).map(|i| word(1000 * (case as u64 + 1) + 10 * i as u64)).collect();
        let tree = MerkleTree::new(leaves.clone()).unwrap();
        let other = MerkleTree::new((0..nleaves).map(|i| word(777_000 + case as u64 * 31 + i as u64)).collect::<Vec<_>>()).unwrap();
        let store = {
            let mut s = MerkleStore::from(&tree);
            s.extend(other.inner_nodes());
            s
        };
        let root: Word = tree.root().into();
        let mk_host = || {
            let inputs = AdviceInputs::default().with_merkle_store(store.clone());
            DefaultHost::new(MemAdviceProvider::from(inputs))
        };
        // the claim: node at (d, i)
        let d = 1 + rng.below(depth as u64) as u32;
        let i = rng.below(1 << d);
        let true_node: Word = tree.get_node(processor::crypto::NodeIndex::new(d as u8, i).unwrap()).unwrap().into();
        let honest_path: Vec<Word> = tree
            .get_path(processor::crypto::NodeIndex::new(d as u8, i).unwrap())
            .unwrap()
            .nodes()
            .iter()
            .map(|x| (*x).into())
            .collect();
        // candidate lying paths
        let mut paths: Vec<(String, Option<Vec<Word>>)> = vec![("honest".into(), None)];
        // a longer / shorter honest path for another depth
        for d2 in 1..=depth {
            if d2 != d {
                let i2 = if d2 > d { i << (d2 - d) } else { i >> (d - d2) };
                let pth: Vec<Word> = tree
                    .get_path(processor::crypto::NodeIndex::new(d2 as u8, i2).unwrap())
                    .unwrap()
                    .nodes()
                    .iter()
                    .map(|x| (*x).into())
                    .collect();
                paths.push((format!("path-of-depth-{}", d2), Some(pth)));
            }
        }
        let mut wrong_sib = honest_path.clone();
        wrong_sib[0][0] += Felt::new(1);
        paths.push(("wrong-sibling".into(), Some(wrong_sib)));
        let op: Vec<Word> = other
            .get_path(processor::crypto::NodeIndex::new(d as u8, i).unwrap())
            .unwrap()
            .nodes()
            .iter()
            .map(|x| (*x).into())
            .collect();
        paths.push(("other-tree".into(), Some(op)));
        let mut rev = honest_path.clone();
        rev.reverse();
        paths.push(("reversed".into(), Some(rev)));
        // claimed node values
        let claims: Vec<(String, Word)> = vec![
            ("true-node".into(), true_node),
            ("leaf0".into(), leaves[0]),
            ("leaf-last".into(), leaves[nleaves - 1]),
            ("child-level-node".into(), if d < depth { tree.get_node(processor::crypto::NodeIndex::new((d + 1) as u8, i << 1).unwrap()).unwrap().into() } else { leaves[0] }),
            ("random".into(), word(rng.below(1 << 40))),
        ];
        for (pname, pth) in &paths {
            for (cname, claim) in &claims {
                // mtree_verify: [V, d, i, R]
                let stack: Vec<u64> = claim
                    .iter()
                    .rev()
                    .map(|f| f.as_int())
                    .chain([d as u64, i])
                    .chain(root.iter().rev().map(|f| f.as_int()))
                    .chain([9, 9])
                    .collect();
                let p = assemble(None, "begin mtree_verify end", false).unwrap();
                let lies = Lies { adv_override: vec![], path_override: pth.clone().map(|x| vec![(0usize, x)]).unwrap_or_default() };
                let run = run_impl(&p, &stack, mk_host(), lies, None, "");
                let req = render_exec_request(&ExecReq { program: &p, stack: stack.clone(), max_cycles: None, out: "" }, &run.tape);
                em.emit(req, if run.answer.starts_with("err Other") { format!("skip {}", run.answer) } else { run.answer.clone() });
                if run.ok {
                    accepted += 1;
                    if *claim != true_node {
                        em.oracle_failures.push(format!(
                            "C09 mtree_verify accepted a node that is not at (depth {}, index {}): claim={} path={} tree-depth={}",
                            d, i, cname, pname, depth
                        ));
                    }
                } else if run.panicked {
                    panicked += 1;
                } else {
                    rejected += 1;
                    if pname == "honest" && cname == "true-node" {
                        em.oracle_failures.push(format!("C09 mtree_verify rejected the true node with the honest host: d={} i={} -> {}", d, i, run.answer));
                    }
                }
            }
            // mtree_get: [d, i, R] with the node value popped from the advice stack (may lie)
            for lie_node in [false, true] {
                let stack: Vec<u64> = [d as u64, i].into_iter().chain(root.iter().rev().map(|f| f.as_int())).chain([9, 9]).collect();
                let p = assemble(None, "begin mtree_get end", false).unwrap();
                let mut lies = Lies { adv_override: vec![], path_override: pth.clone().map(|x| vec![(0usize, x)]).unwrap_or_default() };
                if lie_node {
                    let w = if rng.chance(1, 2) { leaves[0] } else { word(rng.below(1 << 30)) };
                    // advice pops deliver the word top first: element k of the pops is word[3-k]
                    lies.adv_override = (0..4).map(|k| (k, w[3 - k].as_int())).collect();
                }
                let run = run_impl(&p, &stack, mk_host(), lies, None, "");
                let req = render_exec_request(&ExecReq { program: &p, stack: stack.clone(), max_cycles: None, out: "" }, &run.tape);
                em.emit(req, if run.answer.starts_with("err Other") { format!("skip {}", run.answer) } else { run.answer.clone() });
                if run.ok {
                    accepted += 1;
                    let st = parse_stack(&run.answer);
                    let got: Vec<u64> = st[..4].to_vec();
                    let want: Vec<u64> = true_node.iter().rev().map(|f| f.as_int()).collect();
                    if got != want {
                        em.oracle_failures.push(format!(
                            "C09 mtree_get returned a node that is not at (depth {}, index {}): path={} lie_node={} got {:?} want {:?}",
                            d, i, pname, lie_node, got, want
                        ));
                    }
                } else if run.panicked {
                    panicked += 1;
                } else {
                    rejected += 1;
                    if pname == "honest" && !lie_node {
                        em.oracle_failures.push(format!("C09 mtree_get failed with the honest host: d={} i={} -> {}", d, i, run.answer));
                    }
                }
            }
            // mtree_set: [d, i, R, V_new]
            {
                let newv = word(5_000_000 + case as u64);
                let stack: Vec<u64> = [d as u64, i]
                    .into_iter()
                    .chain(root.iter().rev().map(|f| f.as_int()))
                    .chain(newv.iter().rev().map(|f| f.as_int()))
                    .chain([9, 9])
                    .collect();
                let p = assemble(None, "begin mtree_set end", false).unwrap();
                let lies = Lies { adv_override: vec![], path_override: pth.clone().map(|x| vec![(0usize, x)]).unwrap_or_default() };
                let run = run_impl(&p, &stack, mk_host(), lies, None, "");
                let req = render_exec_request(&ExecReq { program: &p, stack: stack.clone(), max_cycles: None, out: "" }, &run.tape);
                em.emit(req, if run.answer.starts_with("err Other") { format!("skip {}", run.answer) } else { run.answer.clone() });
                if run.ok {
                    accepted += 1;
                    // expected new root: honest store update
                    let mut s2 = store.clone();
                    let want_root: Word = s2
                        .set_node(tree.root(), processor::crypto::NodeIndex::new(d as u8, i).unwrap(), newv.into())
                        .unwrap()
                        .root
                        .into();
                    let st = parse_stack(&run.answer);
                    // output: [V_old, R_new, ...]
                    let got_old: Vec<u64> = st[..4].to_vec();
                    let got_root: Vec<u64> = st[4..8].to_vec();
                    let want_old: Vec<u64> = true_node.iter().rev().map(|f| f.as_int()).collect();
                    let want_r: Vec<u64> = want_root.iter().rev().map(|f| f.as_int()).collect();
                    if got_old != want_old || got_root != want_r {
                        em.oracle_failures.push(format!(
                            "C09 mtree_set returned a wrong old value / new root under path={}: d={} i={} got {:?}/{:?} want {:?}/{:?}",
                            pname, d, i, got_old, got_root, want_old, want_r
                        ));
                    }
                } else if run.panicked {
                    panicked += 1;
                } else {
                    rejected += 1;
                    if pname == "honest" {
                        em.oracle_failures.push(format!("C09 mtree_set failed with the honest host: d={} i={} -> {}", d, i, run.answer));
                    }
                }
            }
        }
    }
    em.stat("merkle_accepted", accepted);
    em.stat("merkle_rejected", rejected);
    em.stat("merkle_panicked_(does_not_complete)", panicked);
}
