//! Execution-correspondence cases: the same program runs on the real processor and on the model.
#![allow(dead_code)]
use crate::progs::*;
use crate::util::*;
use crate::Emitter;
use assembly::Assembler;
use processor::{AdviceInputs, DefaultHost, MemAdviceProvider};
use vm_core::Program;

pub fn assemble(kernel: Option<&str>, src: &str, debug: bool) -> Result<Program, String> {
    let mut a = Assembler::default()
        .with_debug_mode(debug)
        .with_library(&stdlib::StdLibrary::default())
        .map_err(|e| format!("{:?}", e))?;
    if let Some(k) = kernel {
        a = a.with_kernel(k).map_err(|e| format!("{:?}", e))?;
    }
    // the assembler may panic on some inputs (recorded as such by the callers that care)
    match std::panic::catch_unwind(std::panic::AssertUnwindSafe(|| a.compile(src))) {
        Ok(r) => r.map_err(|e| format!("{:?}", e)),
        Err(_) => Err("PANIC".into()),
    }
}

pub fn host_with_advice(adv: &[u64]) -> DefaultHost<MemAdviceProvider> {
    let inputs = AdviceInputs::default().with_stack_values(adv.iter().copied()).unwrap();
    DefaultHost::new(MemAdviceProvider::from(inputs))
}

/// Runs one program on the implementation, emits request + answer. Returns the implementation's run.
pub fn exec_case(
    em: &mut Emitter,
    program: &Program,
    stack: &[u64],
    adv: &[u64],
    max_cycles: Option<u32>,
    out: &str,
) -> ImplRun {
    let run = run_impl(program, stack, host_with_advice(adv), Lies::default(), max_cycles, out);
    let req = render_exec_request(
        &ExecReq { program, stack: stack.to_vec(), max_cycles, out },
        &run.tape,
    );
    if run.answer.starts_with("err Other") || run.answer.starts_with("bad-") {
        // host-side decorator errors and invalid inputs are outside the model
        em.emit(req, format!("skip {}", run.answer));
    } else {
        em.emit(req, run.answer.clone());
    }
    run
}

pub fn random_stack(rng: &mut Rng) -> Vec<u64> {
    let depth = match rng.below(6) {
        0 => 0,
        1 => rng.below(16),
        2 => 16,
        3 => 17,
        _ => 16 + rng.below(25),
    } as usize;
    let u32_heavy = rng.chance(1, 2);
    (0..depth).map(|_| if u32_heavy { rng.u32ish() } else { rng.felt() }).collect()
}

pub fn random_advice(rng: &mut Rng) -> Vec<u64> {
    let n = rng.below(200) as usize;
    (0..n).map(|_| rng.felt()).collect()
}

/// General whole-program correspondence (used by C13 / C06 / C07 / C14).
pub fn general(em: &mut Emitter, rng: &mut Rng, n: usize, out: &str) -> (u64, u64, u64) {
    let (mut ok, mut err, mut asm_err) = (0u64, 0u64, 0u64);
    for _ in 0..n {
        let with_kernel = rng.chance(1, 3);
        let depth = rng.below(4) as u32;
        let len = 1 + rng.below(5) as usize;
        let (k, src) = gen_program(rng, with_kernel, depth, len);
        match assemble(k.as_deref(), &src, false) {
            Err(_) => {
                asm_err += 1;
            }
            Ok(p) => {
                let st = random_stack(rng);
                let adv = random_advice(rng);
                let r = exec_case(em, &p, &st, &adv, None, out);
                if r.ok {
                    ok += 1
                } else {
                    err += 1
                }
            }
        }
    }
    (ok, err, asm_err)
}
