//! C11 — assembly is deterministic, history-independent and self-contained; invalid programs are
//! rejected with an error.
use crate::util::*;
use crate::Emitter;
use assembly::{
    ast::ModuleAst, Assembler, LibraryNamespace, LibraryPath, MaslLibrary, Module, Version,
};
use std::collections::{BTreeMap, BTreeSet};
use std::panic::{catch_unwind, AssertUnwindSafe};
use vm_core::{code_blocks::CodeBlock, Operation, Program, StarkField};

// ---------------------------------------------------------------------------------------------
// generated module graphs
// ---------------------------------------------------------------------------------------------

#[derive(Clone, Copy, Debug, PartialEq)]
pub enum RefKind {
    Exec,
    Call,
    ProcRef,
    Syscall,
}

#[derive(Clone, Debug)]
pub struct GRef {
    pub kind: RefKind,
    pub target: usize,
    /// reach the target through a re-export alias (module index, alias name) when available
    pub via_alias: Option<(usize, String)>,
}

#[derive(Clone, Debug)]
pub struct GProc {
    pub name: String,
    pub export: bool,
    pub locals: u16,
    pub uid: u64,
    pub refs: Vec<GRef>,
    /// Some(i): library `lib{lib}` module m{i}; None: main program; kernel procs have kernel=true
    pub module: Option<usize>,
    pub kernel: bool,
}

#[derive(Clone, Debug)]
pub struct GModule {
    pub lib: usize,
    pub name: String,
    /// (alias name, target proc index)
    pub reexports: Vec<(String, usize)>,
}

#[derive(Clone, Debug, Default)]
pub struct Graph {
    pub procs: Vec<GProc>,
    pub modules: Vec<GModule>,
    pub main_refs: Vec<GRef>,
    pub nlibs: usize,
}

fn mod_path(g: &Graph, m: usize) -> String {
    format!("lib{}::{}", g.modules[m].lib, g.modules[m].name)
}

impl Graph {
    fn render_ref(&self, from_module: Option<usize>, from_kernel: bool, r: &GRef, direct: bool) -> String {
        let t = &self.procs[r.target];
        let local = !from_kernel && t.module == from_module && !t.kernel || (from_kernel && t.kernel);
        let name = if r.kind == RefKind::Syscall {
            t.name.clone()
        } else if local {
            t.name.clone()
        } else {
            match (&r.via_alias, direct) {
                (Some((am, alias)), false) => format!("{}::{}", self.modules[*am].name, alias),
                _ => format!("{}::{}", self.modules[t.module.unwrap()].name, t.name),
            }
        };
        match r.kind {
            RefKind::Exec => format!("exec.{}", name),
            RefKind::Call => format!("call.{}", name),
            RefKind::ProcRef => format!("procref.{} dropw", name),
            RefKind::Syscall => format!("syscall.{}", name),
        }
    }

    fn imports_of(&self, refs: impl Iterator<Item = GRef>, from_module: Option<usize>, direct: bool) -> BTreeSet<usize> {
        let mut s = BTreeSet::new();
        for r in refs {
            let t = &self.procs[r.target];
            if t.kernel || t.module == from_module {
                continue;
            }
            match (&r.via_alias, direct) {
                (Some((am, _)), false) => {
                    s.insert(*am);
                }
                _ => {
                    s.insert(t.module.unwrap());
                }
            }
        }
        s
    }

    fn render_proc(&self, p: &GProc, direct: bool) -> String {
        let mut s = String::new();
        s.push_str(if p.export { "export." } else { "proc." });
        s.push_str(&p.name);
        if p.locals > 0 {
            s.push_str(&format!(".{}", p.locals));
        }
        s.push_str(&format!("\n    push.{} drop\n", p.uid));
        for r in &p.refs {
            s.push_str(&format!("    {}\n", self.render_ref(p.module, p.kernel, r, direct)));
        }
        s.push_str("end\n");
        s
    }

    pub fn module_source(&self, m: usize) -> String {
        let procs: Vec<&GProc> = self.procs.iter().filter(|p| p.module == Some(m) && !p.kernel).collect();
        let mut refs: Vec<GRef> = procs.iter().flat_map(|p| p.refs.iter().cloned()).collect();
        for (_, t) in &self.modules[m].reexports {
            refs.push(GRef { kind: RefKind::Exec, target: *t, via_alias: None });
        }
        let mut s = String::new();
        for im in self.imports_of(refs.into_iter(), Some(m), false) {
            s.push_str(&format!("use.{}\n", mod_path(self, im)));
        }
        for (alias, t) in &self.modules[m].reexports {
            let tp = &self.procs[*t];
            s.push_str(&format!("export.{}::{}->{}\n", self.modules[tp.module.unwrap()].name, tp.name, alias));
        }
        for p in procs {
            s.push_str(&self.render_proc(p, false));
        }
        s
    }

    pub fn kernel_source(&self) -> Option<String> {
        let procs: Vec<&GProc> = self.procs.iter().filter(|p| p.kernel).collect();
        if procs.is_empty() {
            return None;
        }
        Some(procs.iter().map(|p| self.render_proc(p, false)).collect())
    }

    /// `direct`: spell every imported reference through the defining module instead of an alias
    pub fn main_source(&self, direct: bool, body_override: Option<&str>) -> String {
        let procs: Vec<&GProc> = self.procs.iter().filter(|p| p.module.is_none() && !p.kernel).collect();
        let refs: Vec<GRef> = procs.iter().flat_map(|p| p.refs.iter().cloned()).chain(self.main_refs.iter().cloned()).collect();
        let mut s = String::new();
        for im in self.imports_of(refs.into_iter(), None, direct) {
            s.push_str(&format!("use.{}\n", mod_path(self, im)));
        }
        for p in procs {
            s.push_str(&self.render_proc(p, direct));
        }
        s.push_str("begin\n    push.77 drop\n");
        match body_override {
            Some(b) => s.push_str(b),
            None => {
                for r in &self.main_refs {
                    s.push_str(&format!("    {}\n", self.render_ref(None, false, r, direct)));
                }
            }
        }
        s.push_str("end\n");
        s
    }

    pub fn libraries(&self) -> Result<Vec<MaslLibrary>, String> {
        let mut libs = vec![];
        for l in 0..self.nlibs {
            let mut modules = vec![];
            for (mi, m) in self.modules.iter().enumerate() {
                if m.lib != l {
                    continue;
                }
                let src = self.module_source(mi);
                let ast = ModuleAst::parse(&src).map_err(|e| format!("module parse: {:?} in\n{}", e, src))?;
                let path = LibraryPath::new(mod_path(self, mi)).map_err(|e| format!("{:?}", e))?;
                modules.push(Module::new(path, ast));
            }
            if modules.is_empty() {
                continue;
            }
            let deps: Vec<LibraryNamespace> = (0..l).map(|d| LibraryNamespace::new(format!("lib{}", d)).unwrap()).collect();
            let lib = MaslLibrary::new(LibraryNamespace::new(format!("lib{}", l)).unwrap(), Version::default(), false, modules, deps)
                .map_err(|e| format!("{:?}", e))?;
            libs.push(lib);
        }
        Ok(libs)
    }

    /// Line for the Lean model: `callset <procs with a known root> <main-local procs csv|-> <main refs> <p0 refs> <p1 refs> …`
    /// where refs are `e<j>` (inlined) / `c<j>` (call, syscall, procref), `-` for none.
    pub fn model_request(&self, known: &[usize]) -> String {
        let enc = |refs: &Vec<GRef>| -> String {
            if refs.is_empty() {
                "-".to_string()
            } else {
                refs.iter().map(|r| format!("{}{}", if r.kind == RefKind::Exec { "e" } else { "c" }, r.target)).collect::<Vec<_>>().join(",")
            }
        };
        let main_local: Vec<String> = self.procs.iter().enumerate().filter(|(_, p)| p.module.is_none() && !p.kernel).map(|(i, _)| i.to_string()).collect();
        let known_s: Vec<String> = known.iter().map(|i| i.to_string()).collect();
        let mut s = format!("callset {} {} {}", if known_s.is_empty() { "-".to_string() } else { known_s.join(",") }, if main_local.is_empty() { "-".to_string() } else { main_local.join(",") }, enc(&self.main_refs));
        for p in &self.procs {
            s.push(' ');
            s.push_str(&enc(&p.refs));
        }
        s
    }
}

pub fn gen_graph(rng: &mut Rng) -> Graph {
    let mut g = Graph::default();
    let mut uid = 1000u64;
    let with_kernel = rng.chance(1, 3);
    if with_kernel {
        let n = 1 + rng.below(3) as usize;
        for i in 0..n {
            let mut refs = vec![];
            let first = g.procs.len() - i;
            for _ in 0..rng.below(2) {
                if i > 0 {
                    refs.push(GRef { kind: RefKind::Exec, target: first + rng.below(i as u64) as usize, via_alias: None });
                }
            }
            uid += 1;
            g.procs.push(GProc { name: format!("k{}", i), export: true, locals: 0, uid, refs, module: None, kernel: true });
        }
    }
    g.nlibs = rng.below(3) as usize;
    let nmods = if g.nlibs == 0 { 0 } else { 1 + rng.below(4) as usize };
    for m in 0..nmods {
        // libraries are layered: a module of lib l may import modules of libs <= l defined earlier
        let lib = if m == 0 { 0 } else { (g.modules[m - 1].lib + rng.below(2) as usize).min(g.nlibs - 1) };
        g.modules.push(GModule { lib, name: format!("m{}", m), reexports: vec![] });
        // re-exports of exported procs of earlier modules
        let exported_earlier: Vec<usize> =
            g.procs.iter().enumerate().filter(|(_, p)| !p.kernel && p.export && p.module.is_some() && p.module != Some(m)).map(|(i, _)| i).collect();
        if !exported_earlier.is_empty() {
            for a in 0..rng.below(3) {
                let t = exported_earlier[rng.below(exported_earlier.len() as u64) as usize];
                g.modules[m].reexports.push((format!("alias{}x{}", m, a), t));
            }
        }
        let np = 1 + rng.below(4) as usize;
        for i in 0..np {
            let export = i + 1 == np || rng.chance(2, 3);
            let refs = gen_refs(rng, &g, Some(m), false);
            uid += 1;
            let locals = if rng.chance(1, 4) { 1 + rng.below(3) as u16 } else { 0 };
            g.procs.push(GProc { name: format!("p{}x{}", m, i), export, locals, uid, refs, module: Some(m), kernel: false });
        }
    }
    let np = rng.below(4) as usize;
    for i in 0..np {
        let refs = gen_refs(rng, &g, None, true);
        uid += 1;
        let locals = if rng.chance(1, 4) { 1 + rng.below(3) as u16 } else { 0 };
        g.procs.push(GProc { name: format!("q{}", i), export: false, locals, uid, refs, module: None, kernel: false });
    }
    g.main_refs = gen_refs(rng, &g, None, true);
    if g.main_refs.is_empty() && !g.procs.is_empty() {
        g.main_refs = gen_refs(rng, &g, None, true);
    }
    g
}

/// References a procedure defined so far may make: local procedures of its module, exported
/// procedures of earlier library modules (possibly through an alias), kernel procedures by syscall.
fn gen_refs(rng: &mut Rng, g: &Graph, module: Option<usize>, allow_syscall: bool) -> Vec<GRef> {
    let mut cands: Vec<(usize, bool)> = vec![]; // (proc, is_local)
    for (i, p) in g.procs.iter().enumerate() {
        if p.kernel {
            continue;
        }
        if p.module == module {
            cands.push((i, true));
        } else if p.export && p.module.is_some() {
            // libraries are layered
            let ok = match module {
                None => true,
                Some(m) => g.modules[p.module.unwrap()].lib <= g.modules[m].lib && p.module.unwrap() < m,
            };
            if ok {
                cands.push((i, false));
            }
        }
    }
    let kprocs: Vec<usize> = g.procs.iter().enumerate().filter(|(_, p)| p.kernel).map(|(i, _)| i).collect();
    let mut refs = vec![];
    let n = rng.below(4);
    for _ in 0..n {
        if allow_syscall && !kprocs.is_empty() && rng.chance(1, 4) {
            refs.push(GRef { kind: RefKind::Syscall, target: kprocs[rng.below(kprocs.len() as u64) as usize], via_alias: None });
            continue;
        }
        if cands.is_empty() {
            continue;
        }
        let (t, local) = cands[rng.below(cands.len() as u64) as usize];
        let kind = match rng.below(5) {
            0 | 1 => RefKind::Exec,
            2 | 3 => RefKind::Call,
            _ => RefKind::ProcRef,
        };
        let mut via_alias = None;
        if !local && rng.chance(1, 2) {
            // an alias of the target exported by a module visible from here
            let aliases: Vec<(usize, String)> = g
                .modules
                .iter()
                .enumerate()
                .filter(|(mi, md)| match module {
                    None => true,
                    Some(m) => *mi < m && md.lib <= g.modules[m].lib,
                })
                .flat_map(|(mi, md)| md.reexports.iter().filter(|(_, tt)| *tt == t).map(move |(a, _)| (mi, a.clone())))
                .collect();
            if !aliases.is_empty() {
                via_alias = Some(aliases[rng.below(aliases.len() as u64) as usize].clone());
            }
        }
        refs.push(GRef { kind, target: t, via_alias });
    }
    refs
}

// ---------------------------------------------------------------------------------------------
// helpers on the real assembler
// ---------------------------------------------------------------------------------------------

fn new_assembler(libs: &[&MaslLibrary], kernel: Option<&str>) -> Result<Assembler, String> {
    let mut a = Assembler::default();
    for l in libs {
        a = a.with_library(*l).map_err(|e| format!("with_library: {:?}", e))?;
    }
    if let Some(k) = kernel {
        a = a.with_kernel(k).map_err(|e| format!("with_kernel: {:?}", e))?;
    }
    Ok(a)
}

#[derive(Clone, Debug, PartialEq)]
pub enum Outcome {
    Ok { hash: [u64; 4], cb: BTreeSet<[u64; 4]>, kernel: Vec<[u64; 4]> },
    Err(String),
    Panic,
}

fn felts(r: [u64; 4]) -> [vm_core::Felt; 4] {
    [vm_core::Felt::new(r[0]), vm_core::Felt::new(r[1]), vm_core::Felt::new(r[2]), vm_core::Felt::new(r[3])]
}

fn dig(d: impl Into<[vm_core::Felt; 4]>) -> [u64; 4] {
    let w: [vm_core::Felt; 4] = d.into();
    [w[0].as_int(), w[1].as_int(), w[2].as_int(), w[3].as_int()]
}

pub fn cb_roots(p: &Program) -> BTreeSet<[u64; 4]> {
    let mut s = BTreeSet::new();
    // the table has no iterator: collect the keys by probing every call target reachable from the
    // root and from the entries found so far, plus the roots handed in by the caller
    let mut todo: Vec<CodeBlock> = vec![p.root().clone()];
    while let Some(b) = todo.pop() {
        let mut targets = vec![];
        call_targets(&b, &mut targets);
        for t in targets {
            if let Some(code) = p.cb_table().get(t.into()) {
                if s.insert(dig(t)) {
                    todo.push(code.clone());
                }
            }
        }
    }
    s
}

/// Call / syscall targets occurring in a block (not following them).
pub fn call_targets(b: &CodeBlock, out: &mut Vec<vm_core::crypto::hash::RpoDigest>) {
    match b {
        CodeBlock::Join(j) => {
            call_targets(j.first(), out);
            call_targets(j.second(), out);
        }
        CodeBlock::Split(s) => {
            call_targets(s.on_true(), out);
            call_targets(s.on_false(), out);
        }
        CodeBlock::Loop(l) => call_targets(l.body(), out),
        CodeBlock::Call(c) => out.push(c.fn_hash()),
        _ => {}
    }
}

pub fn compile_outcome(a: &Assembler, src: &str) -> Outcome {
    match catch_unwind(AssertUnwindSafe(|| a.compile(src))) {
        Err(_) => Outcome::Panic,
        Ok(Err(e)) => Outcome::Err(format!("{:?}", e).chars().take(160).collect()),
        Ok(Ok(p)) => Outcome::Ok { hash: dig(p.hash()), cb: cb_roots(&p), kernel: p.kernel().proc_hashes().iter().map(|d| dig(*d)).collect() },
    }
}

fn span_pushes(b: &CodeBlock) -> Vec<u64> {
    let mut v = vec![];
    if let CodeBlock::Span(s) = b {
        for batch in s.op_batches() {
            for op in batch.ops() {
                if let Operation::Push(x) = op {
                    v.push(x.as_int());
                }
            }
        }
    }
    v
}

/// MAST root of an importable procedure, read from the immediates `procref` pushes.
fn root_via_procref(a: &Assembler, prelude: &str, name: &str) -> Option<[u64; 4]> {
    let src = format!("{}begin procref.{} end", prelude, name);
    let p = catch_unwind(AssertUnwindSafe(|| a.compile(&src))).ok()?.ok()?;
    let v = span_pushes(p.root());
    if v.len() == 4 {
        Some([v[0], v[1], v[2], v[3]])
    } else {
        None
    }
}

// ---------------------------------------------------------------------------------------------
// invalid / boundary sources
// ---------------------------------------------------------------------------------------------

/// (source, kernel source, must be accepted?) — boundary parameters on both sides of each limit.
pub fn boundary_sources() -> Vec<(String, Option<String>, bool, &'static str)> {
    let mut v: Vec<(String, Option<String>, bool, &'static str)> = vec![];
    let mut add = |s: String, k: Option<&str>, ok: bool, what: &'static str| v.push((s, k.map(|x| x.to_string()), ok, what));
    // undefined procedures / modules
    add("begin exec.foo end".into(), None, false, "undefined local procedure (exec)");
    add("begin call.foo end".into(), None, false, "undefined local procedure (call)");
    add("begin procref.foo end".into(), None, false, "undefined local procedure (procref)");
    add("begin syscall.foo end".into(), None, false, "syscall without kernel");
    add("proc.f exec.g end proc.g push.1 drop end begin exec.f end".into(), None, false, "procedure used before its definition");
    add("proc.f exec.f end begin exec.f end".into(), None, false, "recursive procedure");
    add("use.std::math::u64 begin exec.u64::nosuchproc end".into(), None, false, "undefined imported procedure");
    add("use.std::nosuch::module begin exec.module::foo end".into(), None, false, "undefined imported module");
    add("begin exec.u64::add end".into(), None, false, "module used without import");
    add("proc.f push.1 drop end proc.f push.2 drop end begin exec.f end".into(), None, false, "duplicate procedure name");
    add("export.f push.1 drop end begin exec.f end".into(), None, false, "export in an executable");
    add("proc.f push.1 drop end".into(), None, false, "program without body");
    add("begin push.1 drop end begin push.2 drop end".into(), None, false, "two bodies");
    add("begin push.1 drop".into(), None, false, "missing end");
    add("begin end".into(), None, false, "~empty body");
    add("begin push.1 if.true end drop end".into(), None, false, "~empty if body");
    add("begin repeat.0 push.1 drop end end".into(), None, false, "~repeat.0");
    add("begin repeat.1 push.1 drop end end".into(), None, true, "repeat.1");
    // kernel restrictions
    add("begin caller end".into(), None, false, "caller outside a kernel");
    add("begin syscall.k end".into(), Some("export.k caller dropw end"), true, "caller in a kernel procedure");
    add("begin syscall.k end".into(), Some("proc.h push.1 drop end export.k call.h end"), false, "call inside a kernel");
    add("begin syscall.k end".into(), Some("export.h push.1 drop end export.k syscall.h end"), false, "syscall inside a kernel");
    add("begin syscall.k end".into(), Some("proc.h push.1 drop end export.k exec.h end"), true, "exec inside a kernel");
    add("begin syscall.h end".into(), Some("proc.h push.1 drop end export.k exec.h end"), false, "syscall to a non-exported kernel procedure");
    add("proc.f push.1 drop end begin syscall.f end".into(), Some("export.k push.1 drop end"), false, "syscall to a non-kernel procedure");
    // locals
    for (n, idx, ok) in [(0u32, 0u32, false), (1, 0, true), (1, 1, false), (2, 1, true), (2, 2, false), (255, 254, true), (255, 255, false), (65535, 65534, true), (65535, 65535, false)] {
        for ins in ["loc_load", "loc_store", "loc_loadw", "loc_storew", "locaddr"] {
            let body = match ins {
                "loc_load" | "locaddr" => format!("{}.{} drop", ins, idx),
                "loc_store" => format!("push.3 {}.{}", ins, idx),
                "loc_loadw" => format!("padw {}.{} dropw", ins, idx),
                _ => format!("padw {}.{} dropw", ins, idx),
            };
            let decl = if n == 0 { "proc.f".to_string() } else { format!("proc.f.{}", n) };
            add(format!("{} {} end begin exec.f end", decl, body), None, ok, "local index against the number of locals");
        }
    }
    add("begin loc_load.0 drop end".into(), None, false, "local access in the program body (no locals)");
    add("proc.f.65536 push.1 drop end begin exec.f end".into(), None, false, "number of locals above u16");
    // parameter ranges
    for (ins, lo_ok, hi_ok, pre, post) in [
        ("dup", 0u64, 15u64, "", "drop"),
        ("dupw", 0, 3, "", "dropw"),
        ("swap", 1, 15, "", ""),
        ("swapw", 1, 3, "", ""),
        ("movup", 2, 15, "", ""),
        ("movdn", 2, 15, "", ""),
        ("movupw", 2, 3, "", ""),
        ("movdnw", 2, 3, "", ""),
        ("adv_push", 1, 16, "", "repeat.16 drop end"),
        ("u32shl", 0, 31, "push.1", "drop"),
        ("u32shr", 0, 31, "push.1", "drop"),
        ("u32rotl", 0, 31, "push.1", "drop"),
        ("u32rotr", 0, 31, "push.1", "drop"),
        ("exp.u", 0, 64, "push.2", "drop"),
        ("mem_load", 0, 4294967295, "", "drop"),
        ("mem_store", 0, 4294967295, "push.1", ""),
        ("mem_loadw", 0, 4294967295, "padw", "dropw"),
        ("mem_storew", 0, 4294967295, "padw", "dropw"),
        ("u32wrapping_add", 0, 4294967295, "push.1", "drop"),
        ("u32overflowing_sub", 0, 4294967295, "push.1", "drop drop"),
        ("u32wrapping_mul", 0, 4294967295, "push.1", "drop"),
        ("u32div", 1, 4294967295, "push.1", "drop"),
        ("u32mod", 1, 4294967295, "push.1", "drop"),
        ("u32divmod", 1, 4294967295, "push.1", "drop drop"),
        ("div", 1, 18446744069414584320, "push.1", "drop"),
        ("push", 0, 18446744069414584320, "", "drop"),
        ("add", 0, 18446744069414584320, "push.1", "drop"),
        ("mul", 0, 18446744069414584320, "push.1", "drop"),
        ("eq", 0, 18446744069414584320, "push.1", "drop"),
        ("assert.err", 0, 4294967295, "push.1", ""),
        ("emit", 0, 4294967295, "push.1 drop", ""),
        ("trace", 0, 4294967295, "push.1 drop", ""),
    ] {
        let sep = if ins.ends_with('u') || ins.ends_with("err") { if ins.ends_with("err") { "=" } else { "" } } else { "." };
        let mk = |v: String| format!("begin {} {}{}{} {} end", pre, ins, sep, v, post);
        add(mk(lo_ok.to_string()), None, true, "smallest valid parameter");
        add(mk(hi_ok.to_string()), None, true, "largest valid parameter");
        if lo_ok > 0 {
            add(mk((lo_ok - 1).to_string()), None, false, "parameter below the valid range");
        }
        add(mk((hi_ok as u128 + 1).to_string()), None, false, "parameter above the valid range");
        add(mk("18446744073709551616".to_string()), None, false, "parameter above u64");
        add(mk("-1".to_string()), None, false, "negative parameter");
        add(mk("x".to_string()), None, false, "non-numeric parameter");
        add(mk("".to_string()), None, false, "missing parameter after the separator");
    }
    for ins in ["u32div.0", "u32mod.0", "u32divmod.0", "div.0"] {
        add(format!("begin push.1 {} drop end", ins), None, false, "division by a zero immediate");
    }
    add("begin push.1.2.3.4.5.6.7.8.9.10.11.12.13.14.15.16 repeat.16 drop end end".into(), None, true, "push with 16 values");
    add("begin push.1.2.3.4.5.6.7.8.9.10.11.12.13.14.15.16.17 repeat.17 drop end end".into(), None, false, "push with 17 values");
    add("begin push.0x00 drop end".into(), None, true, "short hex");
    add("begin push.0xffffffff00000001 drop end".into(), None, false, "hex value equal to the modulus");
    add("begin push.0xffffffff00000000 drop end".into(), None, true, "largest hex value");
    add("begin nosuchinstruction end".into(), None, false, "unknown instruction");
    add("begin add.1.2 end".into(), None, false, "extra parameter");
    add("begin drop.1 end".into(), None, false, "parameter on an instruction without parameters");
    v
}

// ---------------------------------------------------------------------------------------------
// the generator
// ---------------------------------------------------------------------------------------------

pub fn generate(em: &mut Emitter, seed: u64, thorough: bool) {
    let mut rng = Rng::new(seed ^ 0xC11);
    let n = if thorough { 1500 } else { 150 };
    let mut stats: BTreeMap<&'static str, u64> = BTreeMap::new();
    let mut bump = |k: &'static str, stats: &mut BTreeMap<&'static str, u64>| *stats.entry(k).or_insert(0) += 1;

    // pool of unrelated sources used as compilation history (valid and invalid)
    let boundary = boundary_sources();
    let history_pool: Vec<String> = boundary.iter().filter(|b| b.1.is_none()).map(|b| b.0.clone()).collect();

    for case in 0..n {
        let g = gen_graph(&mut rng);
        let libs = match g.libraries() {
            Ok(l) => l,
            Err(e) => {
                em.oracle_failures.push(format!("C11 generated library does not build: {}", e));
                continue;
            }
        };
        let lib_refs: Vec<&MaslLibrary> = libs.iter().collect();
        let ksrc = g.kernel_source();
        let src = g.main_source(false, None);
        let fresh = match new_assembler(&lib_refs, ksrc.as_deref()) {
            Ok(a) => a,
            Err(e) => {
                em.oracle_failures.push(format!("C11 assembler for a valid module graph cannot be built: {} :: kernel={:?} main=\n{}", e, ksrc, src));
                continue;
            }
        };
        let base = compile_outcome(&fresh, &src);
        let describe = |g: &Graph| -> String {
            let mut s = String::new();
            for m in 0..g.modules.len() {
                s.push_str(&format!("--- {}\n{}", mod_path(g, m), g.module_source(m)));
            }
            if let Some(k) = g.kernel_source() {
                s.push_str(&format!("--- kernel\n{}", k));
            }
            s.push_str(&format!("--- main\n{}", g.main_source(false, None)));
            s
        };
        let (hash, cb) = match &base {
            Outcome::Ok { hash, cb, .. } => (*hash, cb.clone()),
            other => {
                em.oracle_failures.push(format!("C11 valid generated program rejected: {:?}\n{}", other, describe(&g)));
                continue;
            }
        };
        bump("graphs_compiled", &mut stats);
        if !g.modules.is_empty() {
            bump("graphs_with_libraries", &mut stats);
        }
        if ksrc.is_some() {
            bump("graphs_with_kernel", &mut stats);
        }

        // (1) determinism on the same instance
        if compile_outcome(&fresh, &src) != base {
            em.oracle_failures.push(format!("C11 compiling the same source twice on one assembler gives different programs\n{}", describe(&g)));
        }

        // (2) history independence: other compilations first (valid, invalid, sharing modules)
        for round in 0..3 {
            let a = new_assembler(&lib_refs, ksrc.as_deref()).unwrap();
            let mut hist = vec![];
            let hn = 1 + rng.below(5);
            for _ in 0..hn {
                let h = match rng.below(4) {
                    0 => history_pool[rng.below(history_pool.len() as u64) as usize].clone(),
                    1 => {
                        // a program using a random subset of the same libraries
                        let mut g2 = g.clone();
                        g2.main_refs = gen_refs(&mut rng, &g, None, true);
                        g2.main_source(rng.chance(1, 2), None)
                    }
                    2 => {
                        // the same main procedures with another body
                        g.main_source(false, Some("    push.5 drop\n"))
                    }
                    _ => {
                        // a failing variant: a reference to an undefined procedure after the valid ones
                        g.main_source(false, None).replace("begin\n", "begin\n    exec.undefined_proc\n")
                    }
                };
                let _ = compile_outcome(&a, &h);
                hist.push(h);
            }
            let got = compile_outcome(&a, &src);
            bump("history_runs", &mut stats);
            if got != base {
                em.oracle_failures.push(format!(
                    "C11 history dependence (round {}): after compiling {} other sources the same source gives {:?} instead of {:?}\nhistory:\n{}\n{}",
                    round,
                    hist.len(),
                    short(&got),
                    short(&base),
                    hist.join("\n~~~\n"),
                    describe(&g)
                ));
                break;
            }
        }

        // (3) library order
        if libs.len() > 1 {
            let mut rev: Vec<&MaslLibrary> = lib_refs.clone();
            rev.reverse();
            match new_assembler(&rev, ksrc.as_deref()) {
                Ok(a) => {
                    bump("library_order_runs", &mut stats);
                    let got = compile_outcome(&a, &src);
                    if got != base {
                        em.oracle_failures.push(format!("C11 adding the libraries in reverse order changes the result: {:?} vs {:?}\n{}", short(&got), short(&base), describe(&g)));
                    }
                }
                Err(e) => em.oracle_failures.push(format!("C11 adding the libraries in reverse order fails: {}\n{}", e, describe(&g))),
            }
            // with_libraries (iterator form)
            if let Ok(a) = Assembler::default().with_libraries(lib_refs.iter().copied()) {
                let a = match &ksrc {
                    Some(k) => a.with_kernel(k).ok(),
                    None => Some(a),
                };
                if let Some(a) = a {
                    if compile_outcome(&a, &src) != base {
                        em.oracle_failures.push(format!("C11 with_libraries differs from repeated with_library\n{}", describe(&g)));
                    }
                }
            }
        }

        // (4) re-exports: reaching a procedure through an alias or directly gives the same program
        let uses_alias = g.main_refs.iter().chain(g.procs.iter().filter(|p| p.module.is_none() && !p.kernel).flat_map(|p| p.refs.iter())).any(|r| r.via_alias.is_some());
        if uses_alias {
            bump("alias_runs", &mut stats);
            let direct = g.main_source(true, None);
            let a = new_assembler(&lib_refs, ksrc.as_deref()).unwrap();
            let got = compile_outcome(&a, &direct);
            if got != base {
                em.oracle_failures.push(format!("C11 a procedure reached through a re-export compiles differently from the direct reference: {:?} vs {:?}\n--- direct main\n{}\n{}", short(&got), short(&base), direct, describe(&g)));
            }
        }

        // (5) closure: every call target in the root and in every table entry has a body; the
        // procref'd roots are in the table; executing the program never misses a body
        let program = fresh.compile(&src).unwrap();
        let mut todo = vec![program.root().clone()];
        let mut seen: BTreeSet<[u64; 4]> = BTreeSet::new();
        while let Some(b) = todo.pop() {
            let mut targets = vec![];
            call_targets(&b, &mut targets);
            for t in targets {
                match program.cb_table().get(t.into()) {
                    Some(code) => {
                        if seen.insert(dig(t)) {
                            todo.push(code.clone());
                        }
                    }
                    None => em.oracle_failures.push(format!("C11 call target {:?} reachable in the assembled program has no body in cb_table\n{}", dig(t), describe(&g))),
                }
            }
        }
        let run = run_impl(&program, &[], crate::execgen::host_with_advice(&[]), Lies::default(), Some(100000), "");
        bump("executed", &mut stats);
        if !run.ok {
            em.oracle_failures.push(format!("C11 assembled program fails at run time: {}\n{}", run.answer, describe(&g)));
        }

        // (6) callset correspondence with the Lean model: map every procedure to its MAST root
        let mut root_of: BTreeMap<usize, [u64; 4]> = BTreeMap::new();
        let mut prelude_main = String::new();
        for (i, p) in g.procs.iter().enumerate() {
            if p.kernel {
                continue;
            }
            match p.module {
                Some(m) if p.export => {
                    let prelude = format!("use.{}\n", mod_path(&g, m));
                    if let Some(r) = root_via_procref(&fresh, &prelude, &format!("{}::{}", g.modules[m].name, p.name)) {
                        root_of.insert(i, r);
                    }
                }
                None => {
                    // all main-local procedures up to and including this one
                    let mut imports = BTreeSet::new();
                    let mut defs = String::new();
                    for q in g.procs.iter().take(i + 1).filter(|q| q.module.is_none() && !q.kernel) {
                        imports.extend(g.imports_of(q.refs.iter().cloned(), None, false));
                        defs.push_str(&g.render_proc(q, false));
                    }
                    prelude_main.clear();
                    for im in imports {
                        prelude_main.push_str(&format!("use.{}\n", mod_path(&g, im)));
                    }
                    prelude_main.push_str(&defs);
                    if let Some(r) = root_via_procref(&fresh, &prelude_main, &p.name) {
                        root_of.insert(i, r);
                    }
                }
                _ => {}
            }
        }
        for (ki, kp) in g.procs.iter().enumerate().filter(|(_, p)| p.kernel) {
            // kernel procedure roots: compile the kernel as a module through a syscall program
            let s = format!("begin syscall.{} end", kp.name);
            if let Ok(p) = fresh.compile(&s) {
                let mut t = vec![];
                call_targets(p.root(), &mut t);
                if t.len() == 1 {
                    root_of.insert(ki, dig(t[0]));
                }
            }
        }
        // the table offers no iteration: probe it with the root of every procedure whose root is
        // known (all but non-exported library procedures) and let the model answer the same question
        let known: Vec<usize> = root_of.keys().copied().collect();
        let present: Vec<String> = known.iter().filter(|i| program.cb_table().has(felts(root_of[*i]).into())).map(|i| i.to_string()).collect();
        em.emit(
            g.model_request(&known),
            format!("cb {}", if present.is_empty() { "-".to_string() } else { present.join(",") }),
        );
        bump("callset_requests", &mut stats);
        let _ = &cb;
        let _ = (hash, case);
    }

    // (7) invalid and boundary sources: Err (not a panic, not accepted); valid boundaries accepted
    for (src, k, must_accept, what) in boundary.iter() {
        let a = Assembler::default().with_library(&stdlib::StdLibrary::default()).expect("stdlib loads");
        let a = match k {
            Some(ks) => match catch_unwind(AssertUnwindSafe(|| a.with_kernel(ks))) {
                Ok(Ok(a)) => a,
                Ok(Err(_)) => {
                    if *must_accept {
                        em.oracle_failures.push(format!("C11 valid kernel rejected ({}): {}", what, ks));
                    }
                    bump("boundary_rejected", &mut stats);
                    continue;
                }
                Err(_) => {
                    em.oracle_failures.push(format!("C11 kernel compilation panics ({}): {}", what, ks));
                    continue;
                }
            },
            None => a,
        };
        // `~`: forms the property does not classify (only the absence of a panic is required)
        if what.starts_with('~') {
            if compile_outcome(&a, src) == Outcome::Panic {
                em.oracle_failures.push(format!("C11 assembler panics instead of returning an error ({}): `{}`", what, src));
            }
            bump("boundary_unclassified", &mut stats);
            continue;
        }
        match compile_outcome(&a, src) {
            Outcome::Panic => em.oracle_failures.push(format!("C11 assembler panics instead of returning an error ({}): `{}`", what, src)),
            Outcome::Ok { .. } => {
                bump("boundary_accepted", &mut stats);
                if !*must_accept {
                    em.oracle_failures.push(format!("C11 invalid program accepted ({}): `{}`", what, src));
                }
            }
            Outcome::Err(e) => {
                bump("boundary_rejected", &mut stats);
                if *must_accept {
                    em.oracle_failures.push(format!("C11 valid boundary program rejected ({}): `{}` :: {}", what, src, e));
                }
            }
        }
    }

    // (8) a source naming a procedure by MAST root must not depend on what was compiled before
    {
        let lib_src = "export.foo push.11 drop end";
        let ast = ModuleAst::parse(lib_src).unwrap();
        let lib = MaslLibrary::new(
            LibraryNamespace::new("libz").unwrap(),
            Version::default(),
            false,
            vec![Module::new(LibraryPath::new("libz::m").unwrap(), ast)],
            vec![],
        )
        .unwrap();
        let a = new_assembler(&[&lib], None).unwrap();
        if let Some(r) = root_via_procref(&a, "use.libz::m\n", "m::foo") {
            let hex: String = r.iter().flat_map(|x| x.to_le_bytes()).map(|b| format!("{:02x}", b)).collect();
            let s = format!("begin call.0x{} end", hex);
            let warm = compile_outcome(&a, &s);
            let cold = compile_outcome(&new_assembler(&[&lib], None).unwrap(), &s);
            bump("mast_root_call_runs", &mut stats);
            if std::mem::discriminant(&warm) != std::mem::discriminant(&cold) || warm != cold {
                em.oracle_failures.push(format!(
                    "C11 history dependence: `call.0x<root of libz::m::foo>` compiles to {:?} on an assembler which compiled a program importing the module before, and to {:?} on a fresh one",
                    short(&warm),
                    short(&cold)
                ));
            }
        }
    }

    // (9) kernel restrictions reach through imported library modules: a kernel procedure which
    // inlines (exec) a library procedure containing call / procref - directly, through a second
    // module, or through a re-export - must be rejected, on a cold and on a warm procedure cache;
    // every accepted kernel procedure is free of CALL blocks
    {
        fn has_call_block(b: &CodeBlock) -> bool {
            match b {
                CodeBlock::Join(j) => has_call_block(j.first()) || has_call_block(j.second()),
                CodeBlock::Split(s) => has_call_block(s.on_true()) || has_call_block(s.on_false()),
                CodeBlock::Loop(l) => has_call_block(l.body()),
                CodeBlock::Call(_) => true,
                _ => false,
            }
        }
        let mk_lib = |mods: &[(&str, String)]| -> MaslLibrary {
            let modules: Vec<Module> = mods
                .iter()
                .map(|(name, src)| Module::new(LibraryPath::new(format!("libk::{}", name)).unwrap(), ModuleAst::parse(src).unwrap()))
                .collect();
            MaslLibrary::new(LibraryNamespace::new("libk").unwrap(), Version::default(), false, modules, vec![]).unwrap()
        };
        for forbidden in ["", "call.bar", "procref.bar dropw"] {
            for shape in ["direct", "nested", "alias", "sibling", "in-branch", "in-loop"] {
                for warm in [false, true] {
                    let bar = "proc.bar push.3 drop end\n";
                    let (mods, kernel): (Vec<(&str, String)>, String) = match shape {
                        "direct" => (
                            vec![("helpers", format!("{bar}export.foo push.1 drop {forbidden} end\n"))],
                            "use.libk::helpers\nexport.kproc exec.helpers::foo end".to_string(),
                        ),
                        "in-branch" => (
                            vec![("helpers", format!("{bar}export.foo push.1 if.true push.2 drop else push.4 drop {forbidden} end end\n"))],
                            "use.libk::helpers\nexport.kproc exec.helpers::foo end".to_string(),
                        ),
                        "in-loop" => (
                            vec![("helpers", format!("{bar}export.foo push.0 while.true push.4 drop {forbidden} push.0 end end\n"))],
                            "use.libk::helpers\nproc.inner exec.helpers::foo end\nexport.kproc exec.inner end".to_string(),
                        ),
                        "nested" => (
                            vec![
                                ("base", format!("{bar}export.baz push.1 drop {forbidden} end\n")),
                                ("helpers", "use.libk::base\nexport.foo push.2 drop exec.base::baz end\n".to_string()),
                            ],
                            "use.libk::helpers\nexport.kproc exec.helpers::foo end".to_string(),
                        ),
                        "alias" => (
                            vec![
                                ("base", format!("{bar}export.baz push.1 drop {forbidden} end\n")),
                                ("helpers", "use.libk::base\nexport.base::baz->foo\n".to_string()),
                            ],
                            "use.libk::helpers\nexport.kproc exec.helpers::foo end".to_string(),
                        ),
                        _ => (
                            vec![("helpers", format!("{bar}export.other push.1 drop {forbidden} end\nexport.foo push.2 drop end\n"))],
                            "use.libk::helpers\nexport.kproc exec.helpers::foo end".to_string(),
                        ),
                    };
                    let lib = mk_lib(&mods);
                    let a = Assembler::default().with_library(&lib).expect("library loads");
                    if warm {
                        // the library procedures are compiled (and cached) by an ordinary program first
                        let _ = compile_outcome(&a, "use.libk::helpers\nbegin exec.helpers::foo end");
                    }
                    bump("kernel_library_cases", &mut stats);
                    let desc = format!(
                        "shape={} forbidden=`{}` cache={} kernel=`{}` library={:?}",
                        shape, forbidden, if warm { "warm" } else { "cold" }, kernel.replace('\n', " "), mods
                    );
                    let must_reject = !forbidden.is_empty() && shape != "sibling";
                    match catch_unwind(AssertUnwindSafe(|| a.with_kernel(&kernel))) {
                        Err(_) => em.oracle_failures.push(format!("C11 kernel compilation panics: {}", desc)),
                        Ok(Err(e)) => {
                            bump("kernel_library_rejected", &mut stats);
                            if forbidden.is_empty() {
                                em.oracle_failures.push(format!("C11 valid kernel using a library procedure rejected ({:?}): {}", e, desc));
                            }
                        }
                        Ok(Ok(ka)) => {
                            bump("kernel_library_accepted", &mut stats);
                            if must_reject {
                                em.oracle_failures.push(format!("C11 kernel reaching call/procref through an imported library procedure accepted: {}", desc));
                            }
                            match catch_unwind(AssertUnwindSafe(|| ka.compile("begin syscall.kproc end"))) {
                                Ok(Ok(p)) => {
                                    let mut t = vec![];
                                    call_targets(p.root(), &mut t);
                                    for r in t {
                                        match p.cb_table().get(r.into()) {
                                            Some(body) => {
                                                if has_call_block(body) {
                                                    em.oracle_failures.push(format!("C11 accepted kernel procedure contains a CALL block: {}", desc));
                                                }
                                            }
                                            None => em.oracle_failures.push(format!("C11 syscall target has no body in cb_table: {}", desc)),
                                        }
                                    }
                                }
                                Ok(Err(e)) => em.oracle_failures.push(format!("C11 syscall to an accepted kernel procedure does not compile ({:?}): {}", e, desc)),
                                Err(_) => {
                                    if !must_reject {
                                        em.oracle_failures.push(format!("C11 syscall to an accepted kernel procedure panics the assembler: {}", desc));
                                    }
                                }
                            }
                        }
                    }
                }
            }
        }
    }
    for (k, v) in stats {
        em.stat(k, v);
    }
}

fn short(o: &Outcome) -> String {
    match o {
        Outcome::Ok { hash, cb, .. } => format!("Ok(hash={:x?}.., cb_table={} entries)", hash[0], cb.len()),
        Outcome::Err(e) => format!("Err({})", e),
        Outcome::Panic => "PANIC".to_string(),
    }
}
